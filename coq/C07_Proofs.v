(* C07 — proofs about the SourceCatalog row model (C07_Model).

   Layout
     1. list / sum toolbox
     2. the "definition" of a row: [build], computed from whole-image pixel SETS (the list
        [L] of pixels carrying the label in row-major order, the unmasked finite ones
        [g_S]) and pointwise array reads — no cutout, no bounding-box slicing, no total mask
     3. [mkrow_is_build]: the code-mirroring model (cutouts on the tight box, total mask,
        zeroed moment cutout) computes exactly that
     4. consequences: locality, relabelling, all-masked -> NaN, shift, transposition
     5. extrema, central moments, regularisation loop, label order *)
From Coq Require Import List Arith ZArith Bool Lia Permutation.
From PV Require Import lib.Cases C07_Model.
Import ListNotations.

(* ------------------------------------------------------------------ *)
(* 1. toolbox                                                          *)
(* ------------------------------------------------------------------ *)
Lemma filter_nil_all {A} (f : A -> bool) l :
  (forall x, In x l -> f x = false) -> filter f l = [].
Proof.
  induction l as [|a l IH]; intros H; [reflexivity|].
  cbn. rewrite (H a (or_introl eq_refl)). apply IH. intros x Hx. apply H. right; exact Hx.
Qed.

Lemma filter_flat_map {A B} (f : B -> bool) (g : A -> list B) l :
  filter f (flat_map g l) = flat_map (fun a => filter f (g a)) l.
Proof.
  induction l as [|a l IH]; [reflexivity|]. cbn. rewrite filter_app, IH. reflexivity.
Qed.

Lemma filter_map_comm {A B} (f : B -> bool) (g : A -> B) l :
  filter f (map g l) = map g (filter (fun a => f (g a)) l).
Proof.
  induction l as [|a l IH]; [reflexivity|]. cbn. destruct (f (g a)); cbn; rewrite IH; reflexivity.
Qed.

Lemma filter_filter {A} (f g : A -> bool) l :
  filter f (filter g l) = filter (fun x => g x && f x) l.
Proof.
  induction l as [|a l IH]; [reflexivity|]. cbn. destruct (g a); cbn; [destruct (f a)|]; rewrite IH; reflexivity.
Qed.

Lemma flat_map_nil_all {A B} (g : A -> list B) l :
  (forall a, In a l -> g a = []) -> flat_map g l = [].
Proof.
  induction l as [|a l IH]; intros H; [reflexivity|].
  cbn. rewrite (H a (or_introl eq_refl)). apply IH. intros x Hx. apply H. right; exact Hx.
Qed.

Lemma seq_split3 a b n : a <= b -> b <= n ->
  seq 0 n = seq 0 a ++ seq a (b - a) ++ seq b (n - b).
Proof.
  intros Hab Hbn.
  replace n with (a + ((b - a) + (n - b))) at 1 by lia.
  rewrite seq_app, seq_app. cbn [plus]. replace (a + (b - a)) with b by lia. reflexivity.
Qed.

Lemma flat_map_seq_restrict {B} (F : nat -> list B) a b n : a <= b -> b <= n ->
  (forall i, i < a \/ b <= i -> F i = []) ->
  flat_map F (seq 0 n) = flat_map F (seq a (b - a)).
Proof.
  intros Hab Hbn HF. rewrite (seq_split3 a b n Hab Hbn), !flat_map_app.
  rewrite (flat_map_nil_all F (seq 0 a)), (flat_map_nil_all F (seq b (n - b))).
  - rewrite app_nil_r. reflexivity.
  - intros i Hi. apply in_seq in Hi. apply HF. lia.
  - intros i Hi. apply in_seq in Hi. apply HF. lia.
Qed.

Lemma filter_seq_restrict (g : nat -> bool) a b n : a <= b -> b <= n ->
  (forall i, i < a \/ b <= i -> g i = false) ->
  filter g (seq 0 n) = filter g (seq a (b - a)).
Proof.
  intros Hab Hbn Hg. rewrite (seq_split3 a b n Hab Hbn), !filter_app.
  rewrite (filter_nil_all g (seq 0 a)), (filter_nil_all g (seq b (n - b))).
  - rewrite app_nil_r. reflexivity.
  - intros i Hi. apply in_seq in Hi. apply Hg. lia.
  - intros i Hi. apply in_seq in Hi. apply Hg. lia.
Qed.

Lemma in_coords_box y0 h x0 w p :
  In p (coords_box y0 h x0 w) <-> y0 <= fst p < y0 + h /\ x0 <= snd p < x0 + w.
Proof.
  unfold coords_box. rewrite in_flat_map. split.
  - intros (y & Hy & Hp). apply in_map_iff in Hp. destruct Hp as (x & <- & Hx).
    apply in_seq in Hy. apply in_seq in Hx. cbn. lia.
  - intros [Hy Hx]. exists (fst p). split; [apply in_seq; lia|].
    apply in_map_iff. exists (snd p). split; [destruct p; reflexivity|apply in_seq; lia].
Qed.

(* a predicate that is false outside a sub-box selects the same pixels, in the same
   (row-major) order, from the whole grid and from the sub-box *)
Lemma filter_box_restrict (f : pix -> bool) ny nx y0 y1 x0 x1 :
  y0 <= y1 -> y1 <= ny -> x0 <= x1 -> x1 <= nx ->
  (forall p, f p = true -> y0 <= fst p < y1 /\ x0 <= snd p < x1) ->
  filter f (coords_box 0 ny 0 nx) = filter f (coords_box y0 (y1 - y0) x0 (x1 - x0)).
Proof.
  intros Hy Hyn Hx Hxn Hf. unfold coords_box. rewrite !filter_flat_map.
  assert (Hfalse : forall y x, (y < y0 \/ y1 <= y) \/ (x < x0 \/ x1 <= x) -> f (y, x) = false).
  { intros y x Hout. destruct (f (y, x)) eqn:E; [|reflexivity].
    apply Hf in E. cbn in E. lia. }
  rewrite (flat_map_seq_restrict _ y0 y1 ny Hy Hyn).
  - apply flat_map_ext. intros y. rewrite !filter_map_comm. f_equal.
    apply filter_seq_restrict; [exact Hx|exact Hxn|]. intros x Hout. apply Hfalse. right; exact Hout.
  - intros y Hout. apply filter_nil_all. intros p Hp. apply in_map_iff in Hp.
    destruct Hp as (x & <- & _). apply Hfalse. left; exact Hout.
Qed.

Lemma minl_cons d a l : minl d (a :: l) = Nat.min a (minl d l).
Proof. reflexivity. Qed.
Lemma maxl_cons a l : maxl (a :: l) = Nat.max a (maxl l).
Proof. reflexivity. Qed.
Lemma minl_le d l y : In y l -> minl d l <= y.
Proof.
  induction l as [|a l IH]; intros H; [destruct H|]. rewrite minl_cons. destruct H as [->|H]; [lia|].
  specialize (IH H). lia.
Qed.
Lemma minl_le_default d l : minl d l <= d.
Proof. induction l as [|a l IH]; [cbn; lia|]. rewrite minl_cons. lia. Qed.
Lemma maxl_ge l y : In y l -> y <= maxl l.
Proof.
  induction l as [|a l IH]; intros H; [destruct H|]. rewrite maxl_cons. destruct H as [->|H]; [lia|].
  specialize (IH H). lia.
Qed.
Lemma maxl_bound l n : (forall y, In y l -> y <= n) -> maxl l <= n.
Proof.
  induction l as [|a l IH]; intros H; [cbn; lia|]. rewrite maxl_cons.
  assert (a <= n) by (apply H; left; reflexivity).
  assert (maxl l <= n) by (apply IH; intros y Hy; apply H; right; exact Hy). lia.
Qed.
Lemma minl_attained d l : l <> [] -> (forall y, In y l -> y <= d) -> In (minl d l) l.
Proof.
  induction l as [|a l IH]; intros Hne Hb; [congruence|]. rewrite minl_cons.
  destruct l as [|b l'].
  - cbn. left. assert (a <= d) by (apply Hb; left; reflexivity). lia.
  - assert (IH' : In (minl d (b :: l')) (b :: l')).
    { apply IH; [discriminate|]. intros y Hy. apply Hb. right; exact Hy. }
    destruct (Nat.le_ge_cases a (minl d (b :: l'))) as [H|H].
    + left. lia.
    + right. replace (Nat.min a (minl d (b :: l'))) with (minl d (b :: l')) by lia. exact IH'.
Qed.
Lemma maxl_attained l : l <> [] -> In (maxl l) l.
Proof.
  induction l as [|a l IH]; intros Hne; [congruence|]. rewrite maxl_cons.
  destruct l as [|b l'].
  - cbn. left. lia.
  - assert (IH' : In (maxl (b :: l')) (b :: l')) by (apply IH; discriminate).
    destruct (Nat.le_ge_cases (maxl (b :: l')) a) as [H|H].
    + left. lia.
    + right. replace (Nat.max a (maxl (b :: l'))) with (maxl (b :: l')) by lia. exact IH'.
Qed.

(* sums *)
Lemma zsum_cons x l : zsum (x :: l) = (x + zsum l)%Z.
Proof. reflexivity. Qed.
Lemma zsum_app a b : zsum (a ++ b) = (zsum a + zsum b)%Z.
Proof.
  induction a as [|x a IH]; [reflexivity|]. rewrite <- app_comm_cons, !zsum_cons, IH. ring.
Qed.

Lemma zsum_map_filter_zero {A} (t : A -> Z) (f : A -> bool) l :
  (forall x, In x l -> f x = false -> t x = 0%Z) ->
  zsum (map t l) = zsum (map t (filter f l)).
Proof.
  induction l as [|a l IH]; intros H; [reflexivity|].
  assert (IH' : zsum (map t l) = zsum (map t (filter f l))).
  { apply IH. intros x Hx. apply H. right; exact Hx. }
  cbn [map filter]. destruct (f a) eqn:E; cbn [map]; rewrite ?zsum_cons, IH'; [reflexivity|].
  rewrite (H a (or_introl eq_refl) E). reflexivity.
Qed.

Lemma zsum_perm l l' : Permutation l l' -> zsum l = zsum l'.
Proof. induction 1; rewrite ?zsum_cons in *; lia. Qed.

Lemma isnil_length {A} (l : list A) : isnil l = (length l =? 0).
Proof. destruct l; reflexivity. Qed.
Lemma isnil_map {A B} (f : A -> B) l : isnil (map f l) = isnil l.
Proof. destruct l; reflexivity. Qed.
Lemma isnil_true {A} (l : list A) : isnil l = true <-> l = [].
Proof. destruct l; cbn; split; congruence. Qed.

(* ------------------------------------------------------------------ *)
(* 2. the definition of a row on whole-image pixel sets                *)
(* ------------------------------------------------------------------ *)
(* unmasked and finite *)
Definition g_good (dat : pix -> option Z) (msk : pix -> bool) (p : pix) : bool :=
  negb (msk p) && negb (nonfinite (dat p)).
(* S_l = the pixels of L (those carrying the label) that are unmasked and finite *)
Definition g_S (L : list pix) dat msk : list pix := filter (g_good dat msk) L.
(* the clipped convolved value that enters the moments *)
Definition g_mv (cnv : pix -> option Z) (msk : pix -> bool) (p : pix) : Z :=
  match cnv p with None => 0 | Some v => if (v <? 0) || msk p then 0 else v end%Z.

Section Build.
Variables (l : Z) (ny nx : nat) (L Sd : list pix) (mv : pix -> Z).
Variables (So : list pix) (oy ox : nat) (dat err bkg : pix -> option Z) (he hb : bool).

Definition b_y0 := minl ny (map fst L).
Definition b_y1 := maxl (map S (map fst L)).
Definition b_x0 := minl nx (map snd L).
Definition b_x1 := maxl (map S (map snd L)).
Definition b_rel (p : pix) : Z * Z :=
  (Z.of_nat (fst p) - Z.of_nat b_y0, Z.of_nat (snd p) - Z.of_nat b_x0)%Z.
Definition b_moment (a b : nat) : Z :=
  zsum (map (fun p => zpow (fst (b_rel p)) a * mv p * zpow (snd (b_rel p)) b)%Z L).
Definition b_moments : list (list Z) :=
  map (fun a => map (fun b => b_moment a b) [0; 1; 2; 3]) [0; 1; 2; 3].
Definition b_m00 := b_moment 0 0.
Definition b_ccen : option ((Z * Z) * (Z * Z)) :=
  if (b_m00 =? 0)%Z then None else Some ((b_moment 0 1, b_m00), (b_moment 1 0, b_m00)).
Definition b_cen : option ((Z * Z) * (Z * Z)) :=
  match b_ccen with
  | None => None
  | Some ((xn, d), (yn, _)) => Some ((xn + Z.of_nat b_x0 * d, d), (yn + Z.of_nat b_y0 * d, d))%Z
  end.
Definition b_covnum : Z * Z * Z :=
  (b_moment 0 2 * b_m00 - b_moment 0 1 * b_moment 0 1,
   b_moment 1 1 * b_m00 - b_moment 1 0 * b_moment 0 1,
   b_moment 2 0 * b_m00 - b_moment 1 0 * b_moment 1 0)%Z.
Definition b_cov : option (Z * Z * Z) :=
  if (b_m00 =? 0)%Z then None
  else let '(a, b, c) := b_covnum in regularise reg_fuel (b_m00 * b_m00) (12 * a) (12 * b) (12 * c)%Z.
Definition b_covden : Z := (12 * b_m00 * b_m00)%Z.
Definition b_margin : bool :=
  let '(a, b, c) := b_covnum in
  let d2 := (b_m00 * b_m00)%Z in
  (d2 * d2 <? Z.abs (144 * (a * c - b * b) - d2 * d2) * 2 ^ 30)%Z.

Definition o_area (S : list pix) : option Z := if isnil S then None else Some (Z.of_nat (length S)).
Definition b_flux : option Z := if isnil So then None else Some (zsum (map (fun p => valz (dat p)) So)).
Definition b_fluxerr2 : option Z :=
  if he then (if isnil So then None else osum (map (fun p => sq (err p)) So)) else None.
Definition b_bkgsum : option Z :=
  if hb then (if isnil So then None else osum (map bkg So)) else None.
Definition b_bkgmean : option (Z * Z) :=
  match b_bkgsum with Some s => Some (s, Z.of_nat (length So)) | None => None end.
Definition b_tagged : list (pix * Z) := map (fun p => (p, valz (dat p))) So.
Definition b_argmin := arg_ext Z.ltb b_tagged.
Definition b_argmax := arg_ext Z.gtb b_tagged.
Definition o_rel (p : pix) : Z * Z := (Z.of_nat (fst p) - Z.of_nat oy, Z.of_nat (snd p) - Z.of_nat ox)%Z.
Definition o_add (i : Z * Z) : Z * Z := (fst i + Z.of_nat oy, snd i + Z.of_nat ox)%Z.

Definition build : row := {|
  r_label := l;
  r_bbox := (Z.of_nat b_x0, Z.of_nat b_x1 - 1, Z.of_nat b_y0, Z.of_nat b_y1 - 1)%Z;
  r_segment_area := Z.of_nat (length L);
  r_area := o_area Sd;
  r_moments := b_moments;
  r_cutout_centroid := b_ccen;
  r_centroid := b_cen;
  r_covariance := b_cov;
  r_cov_den := b_covden;
  r_cov_margin_ok := b_margin;
  r_flux := b_flux;
  r_fluxerr2 := b_fluxerr2;
  r_min := option_map snd b_argmin;
  r_max := option_map snd b_argmax;
  r_cminidx := option_map (fun a => o_rel (fst a)) b_argmin;
  r_cmaxidx := option_map (fun a => o_rel (fst a)) b_argmax;
  r_minidx := option_map o_add (option_map (fun a => o_rel (fst a)) b_argmin);
  r_maxidx := option_map o_add (option_map (fun a => o_rel (fst a)) b_argmax);
  r_bkg_sum := b_bkgsum;
  r_bkg_mean := b_bkgmean |}.
End Build.

(* the row of label [l]: [own] = the catalog's arrays, [det] = the arrays the delegated
   (detection catalog) quantities are read from *)
Definition def_row (ny nx : nat) (own det : inputs) (l : Z) : row :=
  let Ld := lab_pixels ny nx det l in
  let Lo := lab_pixels ny nx own l in
  build l ny nx Ld (g_S Ld (dataat det) (maskat det)) (g_mv (convat det) (maskat det))
        (g_S Lo (dataat own) (maskat own)) (b_y0 ny Lo) (b_x0 nx Lo)
        (dataat own) (errat own) (bkgat own) (has_err own) (has_bkg own).

(* ------------------------------------------------------------------ *)
(* 3. the code-mirroring model computes the definition                 *)
(* ------------------------------------------------------------------ *)
Section ModelIsDef.
Variables (ny nx : nat) (I : inputs) (l : Z).

Lemma lab_in p :
  In p (lab_pixels ny nx I l) <-> fst p < ny /\ snd p < nx /\ haslab I l p = true.
Proof.
  unfold lab_pixels, grid. rewrite filter_In, in_coords_box. intuition lia.
Qed.

Lemma lab_bounds p : In p (lab_pixels ny nx I l) ->
  by0 ny nx I l <= fst p < by1 ny nx I l /\ bx0 ny nx I l <= snd p < bx1 ny nx I l.
Proof.
  intros Hp. unfold by0, by1, bx0, bx1, bbox.
  assert (H1 := minl_le ny (map fst (lab_pixels ny nx I l)) (fst p) (in_map fst _ _ Hp)).
  assert (H2 := minl_le nx (map snd (lab_pixels ny nx I l)) (snd p) (in_map snd _ _ Hp)).
  assert (H3 := maxl_ge (map S (map fst (lab_pixels ny nx I l))) (S (fst p)) (in_map S _ _ (in_map fst _ _ Hp))).
  assert (H4 := maxl_ge (map S (map snd (lab_pixels ny nx I l))) (S (snd p)) (in_map S _ _ (in_map snd _ _ Hp))).
  lia.
Qed.

Lemma box_in_grid : by1 ny nx I l <= ny /\ bx1 ny nx I l <= nx.
Proof.
  unfold by1, bx1, bbox. split; apply maxl_bound; intros y Hy;
    apply in_map_iff in Hy; destruct Hy as (y' & <- & Hy);
    apply in_map_iff in Hy; destruct Hy as (p & <- & Hp); apply lab_in in Hp; lia.
Qed.

Lemma cut_in_grid p : In p (cut ny nx I l) -> fst p < ny /\ snd p < nx.
Proof.
  unfold cut. rewrite in_coords_box. destruct box_in_grid. lia.
Qed.

(* the cutout contains every pixel of the label, in the row-major order of the image *)
Lemma cut_filter (f : pix -> bool) :
  (forall p, f p = true -> haslab I l p = true) ->
  filter f (cut ny nx I l) = filter f (grid ny nx).
Proof.
  intros Hf.
  set (f' := fun p : pix => f p && (fst p <? ny) && (snd p <? nx)).
  assert (E1 : filter f (cut ny nx I l) = filter f' (cut ny nx I l)).
  { apply filter_ext_in. intros p Hp. apply cut_in_grid in Hp. unfold f'.
    destruct Hp as [Hy Hx]. apply Nat.ltb_lt in Hy, Hx. rewrite Hy, Hx, !andb_true_r. reflexivity. }
  assert (E2 : filter f (grid ny nx) = filter f' (grid ny nx)).
  { apply filter_ext_in. intros p Hp. unfold grid in Hp. apply in_coords_box in Hp. unfold f'.
    destruct Hp as [Hy Hx]. assert (Hy' : fst p < ny) by lia. assert (Hx' : snd p < nx) by lia.
    apply Nat.ltb_lt in Hy', Hx'. rewrite Hy', Hx', !andb_true_r. reflexivity. }
  rewrite E1, E2.
  assert (Hin : forall p, f' p = true -> In p (lab_pixels ny nx I l)).
  { intros p Hp. unfold f' in Hp. apply andb_true_iff in Hp. destruct Hp as [Hp Hx].
    apply andb_true_iff in Hp. destruct Hp as [Hp Hy]. apply Nat.ltb_lt in Hx, Hy.
    apply lab_in. auto. }
  destruct (lab_pixels ny nx I l) as [|q L'] eqn:EL.
  - rewrite !filter_nil_all; [reflexivity| |].
    + intros p _. destruct (f' p) eqn:E; [|reflexivity]. destruct (Hin p E).
    + intros p _. destruct (f' p) eqn:E; [|reflexivity]. destruct (Hin p E).
  - assert (Hq : In q (lab_pixels ny nx I l)) by (rewrite EL; left; reflexivity).
    apply lab_bounds in Hq. destruct box_in_grid as [Hy1 Hx1].
    unfold grid, cut. symmetry. apply filter_box_restrict; try lia.
    intros p Hp. apply lab_bounds. rewrite EL. apply Hin. exact Hp.
Qed.

Lemma label_cut : filter (haslab I l) (cut ny nx I l) = lab_pixels ny nx I l.
Proof. unfold lab_pixels. apply cut_filter. auto. Qed.

Lemma unmasked_eq :
  unmasked ny nx I l = g_S (lab_pixels ny nx I l) (dataat I) (maskat I).
Proof.
  unfold unmasked, g_S, lab_pixels. rewrite filter_filter, cut_filter.
  - apply filter_ext. intros p. unfold totalmask, segmask, datamask, g_good.
    destruct (haslab I l p), (nonfinite (dataat I p)), (maskat I p); reflexivity.
  - intros p. unfold totalmask, segmask. destruct (haslab I l p); [reflexivity|]. cbn. discriminate.
Qed.

Lemma moment_eq a b :
  moment ny nx I l a b =
  b_moment ny nx (lab_pixels ny nx I l) (g_mv (convat I) (maskat I)) a b.
Proof.
  unfold moment, b_moment.
  rewrite (zsum_map_filter_zero _ (haslab I l)).
  - rewrite label_cut. f_equal. apply map_ext_in. intros p Hp. apply lab_in in Hp.
    destruct Hp as (_ & _ & Hl). unfold mval, g_mv, segmask. rewrite Hl. cbn [negb].
    destruct (convat I p) as [v|]; [rewrite orb_false_r|]; reflexivity.
  - intros p _ Hl. unfold mval, segmask. rewrite Hl. cbn [negb].
    destruct (convat I p) as [v|]; [|ring]. rewrite orb_true_r. cbn [orb]. ring.
Qed.

Lemma f_area : area ny nx I l = o_area (g_S (lab_pixels ny nx I l) (dataat I) (maskat I)).
Proof. unfold area, all_masked. rewrite unmasked_eq. reflexivity. Qed.

Lemma f_segarea : segment_area ny nx I l = Z.of_nat (length (lab_pixels ny nx I l)).
Proof. unfold segment_area. rewrite label_cut. reflexivity. Qed.
End ModelIsDef.


Section Fields.
Variables (ny nx : nat) (I : inputs) (l : Z).
Let L := lab_pixels ny nx I l.
Let mv := g_mv (convat I) (maskat I).
Let So := g_S L (dataat I) (maskat I).

Lemma f_by0 : by0 ny nx I l = b_y0 ny L.  Proof. reflexivity. Qed.
Lemma f_by1 : by1 ny nx I l = b_y1 L.  Proof. reflexivity. Qed.
Lemma f_bx0 : bx0 ny nx I l = b_x0 nx L.  Proof. reflexivity. Qed.
Lemma f_bx1 : bx1 ny nx I l = b_x1 L.  Proof. reflexivity. Qed.

Lemma f_moments : moments ny nx I l = b_moments ny nx L mv.
Proof. unfold moments, b_moments. cbn [map]. rewrite !moment_eq. reflexivity. Qed.
Lemma f_m00 : m00 ny nx I l = b_m00 ny nx L mv.
Proof. unfold m00, b_m00. apply moment_eq. Qed.
Lemma f_ccen : cutout_centroid ny nx I l = b_ccen ny nx L mv.
Proof. unfold cutout_centroid, b_ccen. rewrite f_m00, !moment_eq. reflexivity. Qed.
Lemma f_cen : centroid ny nx I l = b_cen ny nx L mv.
Proof. unfold centroid, b_cen. rewrite f_ccen, f_bx0, f_by0. reflexivity. Qed.
Lemma f_covnum : cov_num ny nx I l = b_covnum ny nx L mv.
Proof. unfold cov_num, b_covnum. rewrite f_m00, !moment_eq. reflexivity. Qed.
Lemma f_cov : covariance ny nx I l = b_cov ny nx L mv.
Proof. unfold covariance, b_cov. rewrite f_m00, f_covnum. reflexivity. Qed.
Lemma f_covden : cov_den ny nx I l = b_covden ny nx L mv.
Proof. unfold cov_den, b_covden. rewrite f_m00. reflexivity. Qed.
Lemma f_margin : cov_margin_ok ny nx I l = b_margin ny nx L mv.
Proof. unfold cov_margin_ok, b_margin. rewrite f_m00, f_covnum. reflexivity. Qed.

Lemma f_flux : segment_flux ny nx I l = b_flux So (dataat I).
Proof.
  unfold segment_flux, b_flux, all_masked, data_values. rewrite unmasked_eq. fold L So.
  destruct (isnil So); [reflexivity|]. f_equal. ring.
Qed.
Lemma f_fluxerr2 : segment_fluxerr2 ny nx I l = b_fluxerr2 So (errat I) (has_err I).
Proof. unfold segment_fluxerr2, b_fluxerr2, all_masked. rewrite unmasked_eq. reflexivity. Qed.
Lemma f_bkgsum : background_sum ny nx I l = b_bkgsum So (bkgat I) (has_bkg I).
Proof. unfold background_sum, b_bkgsum, all_masked. rewrite unmasked_eq. reflexivity. Qed.
Lemma f_bkgmean : background_mean ny nx I l = b_bkgmean So (bkgat I) (has_bkg I).
Proof. unfold background_mean, b_bkgmean. rewrite f_bkgsum, unmasked_eq. reflexivity. Qed.
Lemma f_argmin : argmin ny nx I l = b_argmin So (dataat I).
Proof. unfold argmin, b_argmin, tagged, b_tagged. rewrite unmasked_eq. reflexivity. Qed.
Lemma f_argmax : argmax ny nx I l = b_argmax So (dataat I).
Proof. unfold argmax, b_argmax, tagged, b_tagged. rewrite unmasked_eq. reflexivity. Qed.
Lemma f_cminidx : cutout_minval_index ny nx I l =
  option_map (fun a => o_rel (b_y0 ny L) (b_x0 nx L) (fst a)) (b_argmin So (dataat I)).
Proof. unfold cutout_minval_index. rewrite f_argmin. reflexivity. Qed.
Lemma f_cmaxidx : cutout_maxval_index ny nx I l =
  option_map (fun a => o_rel (b_y0 ny L) (b_x0 nx L) (fst a)) (b_argmax So (dataat I)).
Proof. unfold cutout_maxval_index. rewrite f_argmax. reflexivity. Qed.
Lemma f_minidx : minval_index ny nx I l =
  option_map (o_add (b_y0 ny L) (b_x0 nx L))
    (option_map (fun a => o_rel (b_y0 ny L) (b_x0 nx L) (fst a)) (b_argmin So (dataat I))).
Proof. unfold minval_index. rewrite f_cminidx. reflexivity. Qed.
Lemma f_maxidx : maxval_index ny nx I l =
  option_map (o_add (b_y0 ny L) (b_x0 nx L))
    (option_map (fun a => o_rel (b_y0 ny L) (b_x0 nx L) (fst a)) (b_argmax So (dataat I))).
Proof. unfold maxval_index. rewrite f_cmaxidx. reflexivity. Qed.
Lemma f_min : min_value ny nx I l = option_map snd (b_argmin So (dataat I)).
Proof. unfold min_value. rewrite f_argmin. reflexivity. Qed.
Lemma f_max : max_value ny nx I l = option_map snd (b_argmax So (dataat I)).
Proof. unfold max_value. rewrite f_argmax. reflexivity. Qed.
End Fields.

Theorem mkrow_is_build ny nx own det l : mkrow ny nx own det l = def_row ny nx own det l.
Proof.
  unfold mkrow, def_row, build.
  rewrite f_segarea, f_area, f_moments, f_ccen, f_cen, f_cov, f_covden, f_margin,
    f_flux, f_fluxerr2, f_min, f_max, f_cminidx, f_cmaxidx, f_minidx, f_maxidx, f_bkgsum, f_bkgmean,
    f_bx0, f_bx1, f_by0, f_by1.
  reflexivity.
Qed.

(* ------------------------------------------------------------------ *)
(* 4. consequences                                                     *)
(* ------------------------------------------------------------------ *)
(* 4a. locality: a row reads the arrays only at the pixels carrying its label *)
Lemma b_moment_ext ny nx L mv mv' :
  (forall p, In p L -> mv p = mv' p) ->
  forall a b, b_moment ny nx L mv a b = b_moment ny nx L mv' a b.
Proof.
  intros H a b. unfold b_moment. f_equal. apply map_ext_in. intros p Hp. rewrite (H p Hp). reflexivity.
Qed.

Lemma build_ext l ny nx L Sd mv mv' So oy ox dat dat' err err' bkg bkg' he hb :
  (forall p, In p L -> mv p = mv' p) ->
  (forall p, In p So -> dat p = dat' p /\ err p = err' p /\ bkg p = bkg' p) ->
  build l ny nx L Sd mv So oy ox dat err bkg he hb =
  build l ny nx L Sd mv' So oy ox dat' err' bkg' he hb.
Proof.
  intros Hmv Ho.
  assert (E1 : map (fun p => valz (dat p)) So = map (fun p => valz (dat' p)) So).
  { apply map_ext_in. intros p Hp. destruct (Ho p Hp) as (-> & _). reflexivity. }
  assert (E2 : map (fun p => sq (err p)) So = map (fun p => sq (err' p)) So).
  { apply map_ext_in. intros p Hp. destruct (Ho p Hp) as (_ & -> & _). reflexivity. }
  assert (E3 : map bkg So = map bkg' So).
  { apply map_ext_in. intros p Hp. destruct (Ho p Hp) as (_ & _ & ->). reflexivity. }
  assert (E4 : b_tagged So dat = b_tagged So dat').
  { unfold b_tagged. apply map_ext_in. intros p Hp. destruct (Ho p Hp) as (-> & _). reflexivity. }
  unfold build, b_moments, b_cen, b_ccen, b_cov, b_covden, b_margin, b_covnum, b_m00,
    b_flux, b_fluxerr2, b_bkgmean, b_bkgsum, b_argmin, b_argmax.
  cbn [map]. rewrite !(b_moment_ext ny nx L mv mv' Hmv), E1, E2, E3, E4. reflexivity.
Qed.

(* [I] and [I'] have the same pixels of label [l] and the same array values on them *)
Definition same_on_label (ny nx : nat) (I I' : inputs) (l : Z) : Prop :=
  (forall y x, y < ny -> x < nx -> (i_seg I y x = l <-> i_seg I' y x = l)) /\
  (forall y x, y < ny -> x < nx -> i_seg I y x = l ->
     dataat I (y, x) = dataat I' (y, x) /\ convat I (y, x) = convat I' (y, x) /\
     maskat I (y, x) = maskat I' (y, x) /\ errat I (y, x) = errat I' (y, x) /\
     bkgat I (y, x) = bkgat I' (y, x)) /\
  has_err I = has_err I' /\ has_bkg I = has_bkg I'.

Lemma same_lab ny nx I I' l : same_on_label ny nx I I' l ->
  lab_pixels ny nx I l = lab_pixels ny nx I' l.
Proof.
  intros (Hs & _). unfold lab_pixels. apply filter_ext_in. intros [y x] Hp.
  unfold grid in Hp. apply in_coords_box in Hp. cbn in Hp.
  unfold haslab. cbn [fst snd]. specialize (Hs y x ltac:(lia) ltac:(lia)).
  destruct (Z.eqb_spec (i_seg I y x) l) as [E|E], (Z.eqb_spec (i_seg I' y x) l) as [E'|E']; tauto.
Qed.

Lemma same_vals ny nx I I' l : same_on_label ny nx I I' l ->
  forall p, In p (lab_pixels ny nx I l) ->
     dataat I p = dataat I' p /\ convat I p = convat I' p /\
     maskat I p = maskat I' p /\ errat I p = errat I' p /\ bkgat I p = bkgat I' p.
Proof.
  intros (_ & Hv & _) [y x] Hp. apply lab_in in Hp. cbn [fst snd] in Hp.
  destruct Hp as (Hy & Hx & Hl). unfold haslab in Hl. cbn [fst snd] in Hl. apply Z.eqb_eq in Hl.
  apply Hv; assumption.
Qed.

Lemma same_S ny nx I I' l : same_on_label ny nx I I' l ->
  g_S (lab_pixels ny nx I l) (dataat I) (maskat I) = g_S (lab_pixels ny nx I' l) (dataat I') (maskat I').
Proof.
  intros H. rewrite <- (same_lab _ _ _ _ _ H). unfold g_S. apply filter_ext_in. intros p Hp.
  destruct (same_vals _ _ _ _ _ H p Hp) as (Hd & _ & Hm & _). unfold g_good. rewrite Hd, Hm. reflexivity.
Qed.

Theorem row_local_proof ny nx own own' det det' l :
  same_on_label ny nx own own' l -> same_on_label ny nx det det' l ->
  mkrow ny nx own det l = mkrow ny nx own' det' l.
Proof.
  intros Ho Hd. rewrite !mkrow_is_build. unfold def_row.
  rewrite <- (same_S _ _ _ _ _ Ho), <- (same_S _ _ _ _ _ Hd),
          <- (same_lab _ _ _ _ _ Ho), <- (same_lab _ _ _ _ _ Hd).
  pose proof Ho as (_ & _ & He & Hb). rewrite <- He, <- Hb.
  apply build_ext.
  - intros p Hp. destruct (same_vals _ _ _ _ _ Hd p Hp) as (_ & Hc & Hm & _).
    unfold g_mv. rewrite Hc, Hm. reflexivity.
  - intros p Hp. unfold g_S in Hp. apply filter_In in Hp. destruct Hp as [Hp _].
    destruct (same_vals _ _ _ _ _ Ho p Hp) as (H1 & _ & _ & H4 & H5). auto.
Qed.

(* 4b. relabelling *)
Definition relabel (pi : Z -> Z) (I : inputs) : inputs :=
  {| i_seg := fun y x => pi (i_seg I y x); i_data := i_data I; i_conv := i_conv I;
     i_err := i_err I; i_bkg := i_bkg I; i_mask := i_mask I |}.

Definition set_label (l : Z) (r : row) : row := {|
  r_label := l; r_bbox := r_bbox r; r_segment_area := r_segment_area r; r_area := r_area r;
  r_moments := r_moments r; r_cutout_centroid := r_cutout_centroid r; r_centroid := r_centroid r;
  r_covariance := r_covariance r; r_cov_den := r_cov_den r; r_cov_margin_ok := r_cov_margin_ok r;
  r_flux := r_flux r; r_fluxerr2 := r_fluxerr2 r; r_min := r_min r; r_max := r_max r;
  r_cminidx := r_cminidx r; r_cmaxidx := r_cmaxidx r; r_minidx := r_minidx r; r_maxidx := r_maxidx r;
  r_bkg_sum := r_bkg_sum r; r_bkg_mean := r_bkg_mean r |}.

Lemma relabel_lab pi ny nx I l : (forall a, pi a = pi l -> a = l) ->
  lab_pixels ny nx (relabel pi I) (pi l) = lab_pixels ny nx I l.
Proof.
  intros Hinj. unfold lab_pixels. apply filter_ext. intros p. unfold haslab, relabel. cbn [i_seg].
  destruct (Z.eqb_spec (i_seg I (fst p) (snd p)) l) as [E|E].
  - rewrite E. apply Z.eqb_refl.
  - apply Z.eqb_neq. intros E'. apply E, Hinj, E'.
Qed.

Theorem relabel_row ny nx own det l pi : (forall a, pi a = pi l -> a = l) ->
  mkrow ny nx (relabel pi own) (relabel pi det) (pi l) = set_label (pi l) (mkrow ny nx own det l).
Proof.
  intros Hinj. rewrite !mkrow_is_build. unfold def_row. rewrite !relabel_lab by exact Hinj. reflexivity.
Qed.

Lemma rows_labels ny nx own det labels :
  map r_label (catalog_rows ny nx own det labels) = labels.
Proof.
  unfold catalog_rows. rewrite map_map. cbn [r_label mkrow]. apply map_id.
Qed.

Lemma rows_nth ny nx own det labels i l :
  nth_error labels i = Some l ->
  nth_error (catalog_rows ny nx own det labels) i =
  Some (mkrow ny nx own (match det with None => own | Some d => d end) l).
Proof.
  intros H. unfold catalog_rows. apply map_nth_error. exact H.
Qed.

Lemma rows_perm ny nx own det labels labels' : Permutation labels labels' ->
  Permutation (catalog_rows ny nx own det labels) (catalog_rows ny nx own det labels').
Proof. intros H. unfold catalog_rows. apply Permutation_map. exact H. Qed.

Theorem relabel_catalog ny nx own det labels pi : (forall a b, pi a = pi b -> a = b) ->
  catalog_rows ny nx (relabel pi own) (option_map (relabel pi) det) (map pi labels) =
  map (fun r => set_label (pi (r_label r)) r) (catalog_rows ny nx own det labels).
Proof.
  intros Hinj. unfold catalog_rows. rewrite !map_map. apply map_ext. intros l.
  cbn [r_label mkrow]. destruct det as [d|]; cbn [option_map]; apply relabel_row; intros a; apply Hinj.
Qed.

(* 4c. a completely masked source *)
Lemma zsum_map_zero {A} (t : A -> Z) l : (forall x, In x l -> t x = 0%Z) -> zsum (map t l) = 0%Z.
Proof.
  induction l as [|a l IH]; intros H; [reflexivity|]. cbn [map]. rewrite zsum_cons, (H a (or_introl eq_refl)), IH.
  - reflexivity.
  - intros x Hx. apply H. right; exact Hx.
Qed.

Theorem all_masked_own ny nx own det l :
  (forall p, In p (lab_pixels ny nx own l) -> maskat own p = true \/ dataat own p = None) ->
  let r := mkrow ny nx own det l in
  r_flux r = None /\ r_fluxerr2 r = None /\ r_min r = None /\ r_max r = None /\
  r_cminidx r = None /\ r_cmaxidx r = None /\ r_minidx r = None /\ r_maxidx r = None /\
  r_bkg_sum r = None /\ r_bkg_mean r = None.
Proof.
  intros H r. subst r. rewrite mkrow_is_build. unfold def_row.
  assert (E : g_S (lab_pixels ny nx own l) (dataat own) (maskat own) = []).
  { apply filter_nil_all. intros p Hp. unfold g_good. destruct (H p Hp) as [-> | ->]; [reflexivity|].
    cbn. apply andb_false_r. }
  rewrite E. unfold build. cbn [r_flux r_fluxerr2 r_min r_max r_cminidx r_cmaxidx r_minidx r_maxidx r_bkg_sum r_bkg_mean].
  unfold b_flux, b_fluxerr2, b_bkgmean, b_bkgsum, b_argmin, b_argmax, b_tagged. cbn [isnil map arg_ext option_map].
  destruct (has_err own), (has_bkg own); repeat split; reflexivity.
Qed.

Theorem all_masked_det ny nx own det l :
  (forall p, In p (lab_pixels ny nx det l) -> maskat det p = true \/ dataat det p = None) ->
  r_area (mkrow ny nx own det l) = None.
Proof.
  intros H. rewrite mkrow_is_build. unfold def_row, build. cbn [r_area].
  assert (E : g_S (lab_pixels ny nx det l) (dataat det) (maskat det) = []).
  { apply filter_nil_all. intros p Hp. unfold g_good. destruct (H p Hp) as [-> | ->]; [reflexivity|].
    cbn. apply andb_false_r. }
  rewrite E. reflexivity.
Qed.

Theorem all_masked_moments ny nx own det l :
  (forall p, In p (lab_pixels ny nx det l) -> maskat det p = true) ->
  let r := mkrow ny nx own det l in
  r_cutout_centroid r = None /\ r_centroid r = None /\ r_covariance r = None.
Proof.
  intros H r. subst r. rewrite mkrow_is_build. unfold def_row, build.
  cbn [r_cutout_centroid r_centroid r_covariance].
  assert (E : b_m00 ny nx (lab_pixels ny nx det l) (g_mv (convat det) (maskat det)) = 0%Z).
  { unfold b_m00, b_moment. apply zsum_map_zero. intros p Hp. unfold g_mv. rewrite (H p Hp).
    destruct (convat det p) as [v|]; [rewrite orb_true_r|]; ring. }
  unfold b_cen, b_ccen, b_cov. rewrite E. cbn. auto.
Qed.

(* conversely a source with one unmasked finite pixel is measured *)
Theorem measured_is_number ny nx own det l p :
  In p (lab_pixels ny nx own l) -> maskat own p = false -> dataat own p <> None ->
  let r := mkrow ny nx own det l in
  r_flux r <> None /\ r_min r <> None /\ r_max r <> None /\ r_minidx r <> None /\ r_maxidx r <> None.
Proof.
  intros Hp Hm Hd r. subst r. rewrite mkrow_is_build. unfold def_row.
  assert (E : In p (g_S (lab_pixels ny nx own l) (dataat own) (maskat own))).
  { apply filter_In. split; [exact Hp|]. unfold g_good. rewrite Hm. destruct (dataat own p); [reflexivity|congruence]. }
  destruct (g_S (lab_pixels ny nx own l) (dataat own) (maskat own)) as [|q S'] eqn:ES; [destruct E|].
  unfold build. cbn [r_flux r_min r_max r_minidx r_maxidx].
  unfold b_flux, b_argmin, b_argmax, b_tagged. cbn [isnil map arg_ext option_map].
  repeat split; discriminate.
Qed.

(* 4d. integer translation *)
Definition sh (dy dx : nat) (p : pix) : pix := (fst p + dy, snd p + dx).

Definition shift_row (dy dx : nat) (r : row) : row := {|
  r_label := r_label r;
  r_bbox := (let '(a, b, c, d) := r_bbox r in
             (a + Z.of_nat dx, b + Z.of_nat dx, c + Z.of_nat dy, d + Z.of_nat dy))%Z;
  r_segment_area := r_segment_area r; r_area := r_area r;
  r_moments := r_moments r; r_cutout_centroid := r_cutout_centroid r;
  r_centroid := option_map (fun c : (Z * Z) * (Z * Z) =>
                  ((fst (fst c) + Z.of_nat dx * snd (fst c), snd (fst c)),
                   (fst (snd c) + Z.of_nat dy * snd (snd c), snd (snd c)))%Z) (r_centroid r);
  r_covariance := r_covariance r; r_cov_den := r_cov_den r; r_cov_margin_ok := r_cov_margin_ok r;
  r_flux := r_flux r; r_fluxerr2 := r_fluxerr2 r; r_min := r_min r; r_max := r_max r;
  r_cminidx := r_cminidx r; r_cmaxidx := r_cmaxidx r;
  r_minidx := option_map (fun i : Z * Z => (fst i + Z.of_nat dy, snd i + Z.of_nat dx)%Z) (r_minidx r);
  r_maxidx := option_map (fun i : Z * Z => (fst i + Z.of_nat dy, snd i + Z.of_nat dx)%Z) (r_maxidx r);
  r_bkg_sum := r_bkg_sum r; r_bkg_mean := r_bkg_mean r |}.

Lemma minl_default d d' l : l <> [] -> (forall y, In y l -> y <= d) -> (forall y, In y l -> y <= d') ->
  minl d l = minl d' l.
Proof.
  induction l as [|a l IH]; intros Hne H1 H2; [congruence|]. rewrite !minl_cons.
  destruct l as [|b l'].
  - cbn. assert (a <= d) by (apply H1; left; reflexivity). assert (a <= d') by (apply H2; left; reflexivity). lia.
  - rewrite (IH ltac:(discriminate)); [reflexivity| |]; intros y Hy; [apply H1|apply H2]; right; exact Hy.
Qed.
Lemma minl_add d k l : minl (d + k) (map (fun y => y + k) l) = minl d l + k.
Proof.
  induction l as [|a l IH]; [reflexivity|]. cbn [map]. rewrite !minl_cons, IH. lia.
Qed.
Lemma maxl_add k l : l <> [] -> maxl (map (fun y => y + k) l) = maxl l + k.
Proof.
  induction l as [|a l IH]; intros Hne; [congruence|]. cbn [map]. rewrite !maxl_cons.
  destruct l as [|b l']; [cbn; lia|]. rewrite IH by discriminate. lia.
Qed.

Lemma seq_add a k n : seq (a + k) n = map (fun i => i + k) (seq a n).
Proof.
  revert a. induction n as [|n IH]; intros a; [reflexivity|]. cbn [seq map]. f_equal. apply (IH (S a)).
Qed.
Lemma flat_map_map {A B C} (f : A -> B) (g : B -> list C) l :
  flat_map g (map f l) = flat_map (fun a => g (f a)) l.
Proof. induction l as [|a l IH]; [reflexivity|]. cbn. rewrite IH. reflexivity. Qed.
Lemma map_flat_map {A B C} (f : B -> C) (g : A -> list B) l :
  map f (flat_map g l) = flat_map (fun a => map f (g a)) l.
Proof. induction l as [|a l IH]; [reflexivity|]. cbn. rewrite map_app, IH. reflexivity. Qed.

Lemma coords_box_shift dy dx y0 h x0 w :
  coords_box (y0 + dy) h (x0 + dx) w = map (sh dy dx) (coords_box y0 h x0 w).
Proof.
  unfold coords_box. rewrite !seq_add, flat_map_map, map_flat_map. apply flat_map_ext. intros y.
  rewrite !map_map. reflexivity.
Qed.

Lemma filter_box_restrict' (f : pix -> bool) ny nx y0 y1 x0 x1 :
  y0 <= y1 -> y1 <= ny -> x0 <= x1 -> x1 <= nx ->
  (forall p, fst p < ny -> snd p < nx -> f p = true -> y0 <= fst p < y1 /\ x0 <= snd p < x1) ->
  filter f (coords_box 0 ny 0 nx) = filter f (coords_box y0 (y1 - y0) x0 (x1 - x0)).
Proof.
  intros Hy Hyn Hx Hxn Hf.
  set (f' := fun p : pix => f p && (fst p <? ny) && (snd p <? nx)).
  assert (E : forall y0' h x0' w, y0' + h <= ny -> x0' + w <= nx ->
             filter f (coords_box y0' h x0' w) = filter f' (coords_box y0' h x0' w)).
  { intros y0' h x0' w H1 H2. apply filter_ext_in. intros p Hp. apply in_coords_box in Hp. unfold f'.
    assert (Hy' : fst p < ny) by lia. assert (Hx' : snd p < nx) by lia.
    apply Nat.ltb_lt in Hy', Hx'. rewrite Hy', Hx', !andb_true_r. reflexivity. }
  rewrite (E 0 ny 0 nx), (E y0 (y1 - y0) x0 (x1 - x0)) by lia.
  apply filter_box_restrict; try assumption.
  intros p Hp. unfold f' in Hp. apply andb_true_iff in Hp. destruct Hp as [Hp Hx'].
  apply andb_true_iff in Hp. destruct Hp as [Hp Hy']. apply Nat.ltb_lt in Hx', Hy'. apply Hf; assumption.
Qed.

(* [I'] on the ny' x nx' canvas is [I] translated by (dy, dx), as far as label [l] goes *)
Definition shifted_on_label (ny nx ny' nx' dy dx : nat) (I I' : inputs) (l : Z) : Prop :=
  ny + dy <= ny' /\ nx + dx <= nx' /\
  (forall y x, y < ny' -> x < nx' ->
     (i_seg I' y x = l <->
      dy <= y /\ dx <= x /\ y - dy < ny /\ x - dx < nx /\ i_seg I (y - dy) (x - dx) = l)) /\
  (forall y x, y < ny -> x < nx -> i_seg I y x = l ->
     dataat I' (y + dy, x + dx) = dataat I (y, x) /\ convat I' (y + dy, x + dx) = convat I (y, x) /\
     maskat I' (y + dy, x + dx) = maskat I (y, x) /\ errat I' (y + dy, x + dx) = errat I (y, x) /\
     bkgat I' (y + dy, x + dx) = bkgat I (y, x)) /\
  has_err I' = has_err I /\ has_bkg I' = has_bkg I.

Lemma shift_lab ny nx ny' nx' dy dx I I' l : shifted_on_label ny nx ny' nx' dy dx I I' l ->
  lab_pixels ny' nx' I' l = map (sh dy dx) (lab_pixels ny nx I l).
Proof.
  intros (Hny & Hnx & Hs & _). unfold lab_pixels, grid.
  rewrite (filter_box_restrict' _ ny' nx' dy (dy + ny) dx (dx + nx)); try lia.
  - replace (dy + ny - dy) with ny by lia. replace (dx + nx - dx) with nx by lia.
    change dy with (0 + dy) at 1. change dx with (0 + dx) at 1.
    rewrite coords_box_shift, filter_map_comm. f_equal. apply filter_ext_in.
    intros [y x] Hp. apply in_coords_box in Hp. cbn [fst snd] in Hp.
    unfold haslab, sh. cbn [fst snd].
    specialize (Hs (y + dy) (x + dx) ltac:(lia) ltac:(lia)).
    replace (y + dy - dy) with y in Hs by lia. replace (x + dx - dx) with x in Hs by lia.
    destruct (Z.eqb_spec (i_seg I' (y + dy) (x + dx)) l) as [E|E], (Z.eqb_spec (i_seg I y x) l) as [E'|E'];
      try reflexivity.
    + exfalso. apply E'. apply Hs. exact E.
    + exfalso. apply E. apply Hs. repeat split; solve [lia | exact E'].
  - intros [y x] Hy Hx Hl. cbn [fst snd] in *. unfold haslab in Hl. cbn [fst snd] in Hl.
    apply Z.eqb_eq in Hl. apply (Hs y x Hy Hx) in Hl. lia.
Qed.

Lemma shift_vals ny nx ny' nx' dy dx I I' l : shifted_on_label ny nx ny' nx' dy dx I I' l ->
  forall p, In p (lab_pixels ny nx I l) ->
    dataat I' (sh dy dx p) = dataat I p /\ convat I' (sh dy dx p) = convat I p /\
    maskat I' (sh dy dx p) = maskat I p /\ errat I' (sh dy dx p) = errat I p /\
    bkgat I' (sh dy dx p) = bkgat I p.
Proof.
  intros (_ & _ & _ & Hv & _) [y x] Hp. apply lab_in in Hp. cbn [fst snd] in Hp.
  destruct Hp as (Hy & Hx & Hl). unfold haslab in Hl. cbn [fst snd] in Hl. apply Z.eqb_eq in Hl.
  unfold sh. cbn [fst snd]. apply Hv; assumption.
Qed.

Lemma shift_S ny nx ny' nx' dy dx I I' l : shifted_on_label ny nx ny' nx' dy dx I I' l ->
  g_S (map (sh dy dx) (lab_pixels ny nx I l)) (dataat I') (maskat I') =
  map (sh dy dx) (g_S (lab_pixels ny nx I l) (dataat I) (maskat I)).
Proof.
  intros H. unfold g_S. rewrite filter_map_comm. f_equal. apply filter_ext_in. intros p Hp.
  destruct (shift_vals _ _ _ _ _ _ _ _ _ H p Hp) as (Hd & _ & Hm & _). unfold g_good. rewrite Hd, Hm. reflexivity.
Qed.

Lemma arg_first_map (better : Z -> Z -> bool) (f : pix -> pix) best l :
  arg_first better (f (fst best), snd best) (map (fun a => (f (fst a), snd a)) l) =
  (fun a => (f (fst a), snd a)) (arg_first better best l).
Proof.
  revert best. induction l as [|[p v] l IH]; intros best; [reflexivity|].
  cbn [map arg_first fst snd]. destruct (better v (snd best)); [apply (IH (p, v))|apply IH].
Qed.
Lemma arg_ext_map (better : Z -> Z -> bool) (f : pix -> pix) l :
  arg_ext better (map (fun a => (f (fst a), snd a)) l) =
  option_map (fun a => (f (fst a), snd a)) (arg_ext better l).
Proof.
  destruct l as [|a l]; [reflexivity|]. cbn [map arg_ext option_map]. f_equal. apply arg_first_map.
Qed.

Section BuildShift.
Variables (l : Z) (ny nx ny' nx' dy dx : nat) (L Sd : list pix) (mv mv' : pix -> Z).
Variables (So : list pix) (oy ox : nat) (dat dat' err err' bkg bkg' : pix -> option Z) (he hb : bool).
Hypothesis HL : L <> [].
Hypothesis Hin : forall p, In p L -> fst p < ny /\ snd p < nx.
Hypothesis Hny : ny + dy <= ny'.
Hypothesis Hnx : nx + dx <= nx'.
Hypothesis Hmv : forall p, In p L -> mv' (sh dy dx p) = mv p.
Hypothesis Ho : forall p, In p So ->
  dat' (sh dy dx p) = dat p /\ err' (sh dy dx p) = err p /\ bkg' (sh dy dx p) = bkg p.
Let L' := map (sh dy dx) L.

Lemma map_fst_sh : map fst L' = map (fun y => y + dy) (map fst L).
Proof. unfold L'. rewrite !map_map. reflexivity. Qed.
Lemma map_snd_sh : map snd L' = map (fun x => x + dx) (map snd L).
Proof. unfold L'. rewrite !map_map. reflexivity. Qed.

Lemma sh_y0 : b_y0 ny' L' = b_y0 ny L + dy.
Proof.
  unfold b_y0. rewrite map_fst_sh, <- minl_add. apply minl_default.
  - destruct L; [congruence|discriminate].
  - intros y Hy. apply in_map_iff in Hy. destruct Hy as (y' & <- & Hy).
    apply in_map_iff in Hy. destruct Hy as (p & <- & Hp). apply Hin in Hp. lia.
  - intros y Hy. apply in_map_iff in Hy. destruct Hy as (y' & <- & Hy).
    apply in_map_iff in Hy. destruct Hy as (p & <- & Hp). apply Hin in Hp. lia.
Qed.
Lemma sh_x0 : b_x0 nx' L' = b_x0 nx L + dx.
Proof.
  unfold b_x0. rewrite map_snd_sh, <- minl_add. apply minl_default.
  - destruct L; [congruence|discriminate].
  - intros y Hy. apply in_map_iff in Hy. destruct Hy as (y' & <- & Hy).
    apply in_map_iff in Hy. destruct Hy as (p & <- & Hp). apply Hin in Hp. lia.
  - intros y Hy. apply in_map_iff in Hy. destruct Hy as (y' & <- & Hy).
    apply in_map_iff in Hy. destruct Hy as (p & <- & Hp). apply Hin in Hp. lia.
Qed.
Lemma sh_y1 : b_y1 L' = b_y1 L + dy.
Proof.
  unfold b_y1. rewrite map_fst_sh, <- maxl_add.
  - apply f_equal. rewrite !map_map. apply map_ext. intros a. reflexivity.
  - destruct L; [congruence|discriminate].
Qed.
Lemma sh_x1 : b_x1 L' = b_x1 L + dx.
Proof.
  unfold b_x1. rewrite map_snd_sh, <- maxl_add.
  - apply f_equal. rewrite !map_map. apply map_ext. intros a. reflexivity.
  - destruct L; [congruence|discriminate].
Qed.

Lemma sh_rel p : b_rel ny' nx' L' (sh dy dx p) = b_rel ny nx L p.
Proof.
  unfold b_rel. rewrite sh_y0, sh_x0. unfold sh. cbn [fst snd]. f_equal; lia.
Qed.

Lemma sh_moment a b : b_moment ny' nx' L' mv' a b = b_moment ny nx L mv a b.
Proof.
  unfold b_moment. unfold L'. rewrite map_map. fold L'. apply f_equal. apply map_ext_in. intros p Hp.
  rewrite sh_rel, (Hmv p Hp). reflexivity.
Qed.

Lemma sh_moments : b_moments ny' nx' L' mv' = b_moments ny nx L mv.
Proof. unfold b_moments. cbn [map]. rewrite !sh_moment. reflexivity. Qed.
Lemma sh_m00 : b_m00 ny' nx' L' mv' = b_m00 ny nx L mv.
Proof. apply sh_moment. Qed.
Lemma sh_ccen : b_ccen ny' nx' L' mv' = b_ccen ny nx L mv.
Proof. unfold b_ccen. rewrite sh_m00, !sh_moment. reflexivity. Qed.
Lemma sh_covnum : b_covnum ny' nx' L' mv' = b_covnum ny nx L mv.
Proof. unfold b_covnum. rewrite sh_m00, !sh_moment. reflexivity. Qed.
Lemma sh_cov : b_cov ny' nx' L' mv' = b_cov ny nx L mv.
Proof. unfold b_cov. rewrite sh_m00, sh_covnum. reflexivity. Qed.
Lemma sh_covden : b_covden ny' nx' L' mv' = b_covden ny nx L mv.
Proof. unfold b_covden. rewrite sh_m00. reflexivity. Qed.
Lemma sh_margin : b_margin ny' nx' L' mv' = b_margin ny nx L mv.
Proof. unfold b_margin. rewrite sh_m00, sh_covnum. reflexivity. Qed.
Lemma sh_cen : b_cen ny' nx' L' mv' =
  option_map (fun c : (Z * Z) * (Z * Z) =>
     ((fst (fst c) + Z.of_nat dx * snd (fst c), snd (fst c)),
      (fst (snd c) + Z.of_nat dy * snd (snd c), snd (snd c)))%Z) (b_cen ny nx L mv).
Proof.
  unfold b_cen. rewrite sh_ccen, sh_x0, sh_y0.
  destruct (b_ccen ny nx L mv) as [[[xn d] [yn d']]|]; [|reflexivity].
  cbn [option_map fst snd]. rewrite !Nat2Z.inj_add. f_equal. f_equal; f_equal; ring.
Qed.

Let So' := map (sh dy dx) So.
Lemma sh_flux : b_flux So' dat' = b_flux So dat.
Proof.
  unfold b_flux, So'. rewrite isnil_map, map_map. destruct (isnil So); [reflexivity|].
  do 2 f_equal. apply map_ext_in. intros p Hp. destruct (Ho p Hp) as (-> & _). reflexivity.
Qed.
Lemma sh_fluxerr2 : b_fluxerr2 So' err' he = b_fluxerr2 So err he.
Proof.
  unfold b_fluxerr2, So'. rewrite isnil_map, map_map. destruct he, (isnil So); try reflexivity.
  f_equal. apply map_ext_in. intros p Hp. destruct (Ho p Hp) as (_ & -> & _). reflexivity.
Qed.
Lemma sh_bkgsum : b_bkgsum So' bkg' hb = b_bkgsum So bkg hb.
Proof.
  unfold b_bkgsum, So'. rewrite isnil_map, map_map. destruct hb, (isnil So); try reflexivity.
  f_equal. apply map_ext_in. intros p Hp. destruct (Ho p Hp) as (_ & _ & ->). reflexivity.
Qed.
Lemma sh_bkgmean : b_bkgmean So' bkg' hb = b_bkgmean So bkg hb.
Proof. unfold b_bkgmean. rewrite sh_bkgsum. unfold So'. rewrite map_length. reflexivity. Qed.
Lemma sh_tagged : b_tagged So' dat' = map (fun a => (sh dy dx (fst a), snd a)) (b_tagged So dat).
Proof.
  unfold b_tagged, So'. rewrite !map_map. apply map_ext_in. intros p Hp. cbn [fst snd].
  destruct (Ho p Hp) as (-> & _). reflexivity.
Qed.
Lemma sh_argmin : b_argmin So' dat' = option_map (fun a => (sh dy dx (fst a), snd a)) (b_argmin So dat).
Proof. unfold b_argmin. rewrite sh_tagged. apply arg_ext_map. Qed.
Lemma sh_argmax : b_argmax So' dat' = option_map (fun a => (sh dy dx (fst a), snd a)) (b_argmax So dat).
Proof. unfold b_argmax. rewrite sh_tagged. apply arg_ext_map. Qed.

Lemma sh_orel p : o_rel (oy + dy) (ox + dx) (sh dy dx p) = o_rel oy ox p.
Proof. unfold o_rel, sh. cbn [fst snd]. f_equal; lia. Qed.
Lemma sh_oadd i : o_add (oy + dy) (ox + dx) i =
  (fst (o_add oy ox i) + Z.of_nat dy, snd (o_add oy ox i) + Z.of_nat dx)%Z.
Proof. unfold o_add. cbn [fst snd]. f_equal; lia. Qed.

Lemma build_shift :
  build l ny' nx' L' (map (sh dy dx) Sd) mv' So' (oy + dy) (ox + dx) dat' err' bkg' he hb =
  shift_row dy dx (build l ny nx L Sd mv So oy ox dat err bkg he hb).
Proof.
  unfold shift_row, build.
  cbn [r_label r_bbox r_segment_area r_area r_moments r_cutout_centroid r_centroid r_covariance
       r_cov_den r_cov_margin_ok r_flux r_fluxerr2 r_min r_max r_cminidx r_cmaxidx r_minidx r_maxidx
       r_bkg_sum r_bkg_mean].
  rewrite sh_moments, sh_ccen, sh_cen, sh_cov, sh_covden, sh_margin, sh_flux, sh_fluxerr2,
    sh_bkgsum, sh_bkgmean, sh_argmin, sh_argmax, sh_x0, sh_x1, sh_y0, sh_y1.
  unfold L'. rewrite !map_length. unfold o_area. rewrite isnil_map, map_length.
  assert (Ebb : forall a b c d : nat,
     (Z.of_nat (a + dx), Z.of_nat (b + dx) - 1, Z.of_nat (c + dy), Z.of_nat (d + dy) - 1)%Z =
     (Z.of_nat a + Z.of_nat dx, Z.of_nat b - 1 + Z.of_nat dx, Z.of_nat c + Z.of_nat dy,
      Z.of_nat d - 1 + Z.of_nat dy)%Z).
  { intros a b c d. rewrite !Nat2Z.inj_add. repeat apply f_equal2; ring. }
  rewrite Ebb.
  destruct (b_argmin So dat) as [[pm vm]|], (b_argmax So dat) as [[pM vM]|];
    cbn [option_map fst snd]; rewrite ?sh_orel, ?sh_oadd; reflexivity.
Qed.
End BuildShift.

Theorem row_shift_proof ny nx ny' nx' dy dx own own' det det' l :
  shifted_on_label ny nx ny' nx' dy dx own own' l ->
  shifted_on_label ny nx ny' nx' dy dx det det' l ->
  lab_pixels ny nx own l <> [] -> lab_pixels ny nx det l <> [] ->
  mkrow ny' nx' own' det' l = shift_row dy dx (mkrow ny nx own det l).
Proof.
  intros Ho Hd Hno Hnd. rewrite !mkrow_is_build. unfold def_row.
  rewrite (shift_lab _ _ _ _ _ _ _ _ _ Ho), (shift_lab _ _ _ _ _ _ _ _ _ Hd),
          (shift_S _ _ _ _ _ _ _ _ _ Ho), (shift_S _ _ _ _ _ _ _ _ _ Hd).
  pose proof Ho as (Hny & Hnx & _ & _ & -> & ->).
  assert (Hin : forall I p, In p (lab_pixels ny nx I l) -> fst p < ny /\ snd p < nx).
  { intros I p Hp. apply lab_in in Hp. tauto. }
  rewrite (sh_y0 ny nx ny' nx' dy dx _ (fun _ => 0%Z) (fun _ => 0%Z) Hno (Hin own) Hny Hnx (fun _ _ => eq_refl)),
          (sh_x0 ny nx ny' nx' dy dx _ (fun _ => 0%Z) (fun _ => 0%Z) Hno (Hin own) Hny Hnx (fun _ _ => eq_refl)).
  apply build_shift; try assumption.
  - apply Hin.
  - intros p Hp. destruct (shift_vals _ _ _ _ _ _ _ _ _ Hd p Hp) as (_ & Hc & Hm & _).
    unfold g_mv. rewrite Hc, Hm. reflexivity.
  - intros p Hp. unfold g_S in Hp. apply filter_In in Hp. destruct Hp as [Hp _].
    destruct (shift_vals _ _ _ _ _ _ _ _ _ Ho p Hp) as (H1 & _ & _ & H4 & H5). auto.
Qed.

(* ------------------------------------------------------------------ *)
(* 5a. extrema: value and first occurrence                             *)
(* ------------------------------------------------------------------ *)
Section ArgFirst.
Variable better : Z -> Z -> bool.
(* [better] is a strict total order on the values *)
Hypothesis nb_trans : forall a b c, better a b = false -> better b c = false -> better a c = false.
Hypothesis b_trans : forall a b c, better a b = true -> better b c = true -> better a c = true.
Hypothesis b_irr : forall a, better a a = false.
Hypothesis b_total : forall a b, better a b = false -> better b a = false -> a = b.

Lemma b_mixed a b c : better a b = true -> better c b = false -> better a c = true.
Proof.
  intros H1 H2. destruct (better a c) eqn:E; [reflexivity|].
  rewrite (nb_trans a c b E H2) in H1. discriminate.
Qed.

(* [a] is the first best element of [l] *)
Definition first_best (l : list (pix * Z)) (a : pix * Z) : Prop :=
  exists pre post, l = pre ++ a :: post /\
    (forall q, In q pre -> better (snd a) (snd q) = true) /\
    (forall q, In q post -> better (snd q) (snd a) = false).

Lemma arg_first_spec best l : first_best (best :: l) (arg_first better best l).
Proof.
  unfold first_best. revert best. induction l as [|[p v] l IH]; intros best.
  - exists [], []. cbn. repeat split; intros q [].
  - cbn [arg_first]. destruct (better v (snd best)) eqn:E.
    + destruct (IH (p, v)) as (pre & post & Heq & Hpre & Hpost).
      set (r := arg_first better (p, v) l) in *.
      exists (best :: pre), post. split; [cbn; rewrite Heq; reflexivity|]. split; [|exact Hpost].
      assert (Hrv : r = (p, v) \/ better (snd r) v = true).
      { destruct pre as [|q pre']; cbn in Heq; injection Heq as Hq Hrest.
        - left. symmetry. exact Hq.
        - right. apply (Hpre (p, v)). left. symmetry. exact Hq. }
      intros q [<-|Hq]; [|apply Hpre; exact Hq].
      destruct Hrv as [->|Hrv]; [exact E|]. apply (b_trans _ v); assumption.
    + destruct (IH best) as (pre & post & Heq & Hpre & Hpost).
      set (r := arg_first better best l) in *.
      destruct pre as [|q pre']; cbn in Heq; injection Heq as Hq Hrest.
      * exists [], ((p, v) :: post). split; [cbn; rewrite <- Hq, Hrest; reflexivity|].
        split; [intros q []|]. intros q [<-|Hq']; [cbn; rewrite <- Hq; exact E|apply Hpost; exact Hq'].
      * exists (best :: (p, v) :: pre'), post. split; [cbn; rewrite Hrest; reflexivity|].
        split; [|exact Hpost].
        assert (Hrb : better (snd r) (snd best) = true) by (apply Hpre; left; symmetry; exact Hq).
        intros q' [<-|[<-|Hq']].
        -- exact Hrb.
        -- cbn. apply (b_mixed _ (snd best)); assumption.
        -- apply Hpre. right. exact Hq'.
Qed.

Lemma arg_ext_some l : l <> [] -> exists a, arg_ext better l = Some a.
Proof. destruct l as [|a l]; [congruence|]. intros _. eexists. reflexivity. Qed.

Lemma arg_ext_spec l a : arg_ext better l = Some a -> first_best l a.
Proof.
  destruct l as [|b l]; [discriminate|]. cbn [arg_ext]. intros [= <-]. apply arg_first_spec.
Qed.

(* the best element is in the list and nothing is better *)
Lemma first_best_in l a : first_best l a ->
  In a l /\ forall q, In q l -> better (snd q) (snd a) = false.
Proof.
  intros (pre & post & -> & Hpre & Hpost). split; [apply in_elt|].
  intros q Hq. apply in_app_or in Hq. destruct Hq as [Hq|[<-|Hq]].
  - specialize (Hpre q Hq). destruct (better (snd q) (snd a)) eqn:E; [|reflexivity].
    assert (Haa : better (snd a) (snd a) = true) by (apply (b_trans _ (snd q)); assumption).
    rewrite b_irr in Haa. discriminate.
  - apply b_irr.
  - apply Hpost. exact Hq.
Qed.

(* the best VALUE depends only on the multiset of values *)
Lemma best_value_perm l l' a a' :
  Permutation (map snd l) (map snd l') -> first_best l a -> first_best l' a' -> snd a = snd a'.
Proof.
  intros HP Ha Ha'. apply first_best_in in Ha, Ha'. destruct Ha as [Hin Hb], Ha' as [Hin' Hb'].
  assert (H1 : In (snd a) (map snd l')).
  { apply (Permutation_in _ HP). apply in_map. exact Hin. }
  assert (H2 : In (snd a') (map snd l)).
  { apply (Permutation_in _ (Permutation_sym HP)). apply in_map. exact Hin'. }
  apply in_map_iff in H1, H2. destruct H1 as (q & Eq & Hq), H2 as (q' & Eq' & Hq').
  apply b_total.
  - rewrite <- Eq. apply Hb'. exact Hq.
  - rewrite <- Eq'. apply Hb. exact Hq'.
Qed.

Lemma arg_ext_value_perm l l' : Permutation (map snd l) (map snd l') ->
  option_map snd (arg_ext better l) = option_map snd (arg_ext better l').
Proof.
  intros HP. destruct l as [|b l], l' as [|b' l'].
  - reflexivity.
  - apply Permutation_nil in HP. discriminate.
  - apply Permutation_sym, Permutation_nil in HP. discriminate.
  - cbn [arg_ext option_map]. f_equal.
    apply (best_value_perm (b :: l) (b' :: l')); [exact HP| |]; apply arg_first_spec.
Qed.
End ArgFirst.

Lemma ltb_nb_trans a b c : (a <? b)%Z = false -> (b <? c)%Z = false -> (a <? c)%Z = false.
Proof. rewrite !Z.ltb_ge. lia. Qed.
Lemma ltb_trans a b c : (a <? b)%Z = true -> (b <? c)%Z = true -> (a <? c)%Z = true.
Proof. rewrite !Z.ltb_lt. lia. Qed.
Lemma ltb_total a b : (a <? b)%Z = false -> (b <? a)%Z = false -> a = b.
Proof. rewrite !Z.ltb_ge. lia. Qed.
Lemma gtb_nb_trans a b c : (a >? b)%Z = false -> (b >? c)%Z = false -> (a >? c)%Z = false.
Proof. rewrite !Z.gtb_ltb, !Z.ltb_ge. lia. Qed.
Lemma gtb_trans a b c : (a >? b)%Z = true -> (b >? c)%Z = true -> (a >? c)%Z = true.
Proof. rewrite !Z.gtb_ltb, !Z.ltb_lt. lia. Qed.
Lemma gtb_irr a : (a >? a)%Z = false.
Proof. rewrite Z.gtb_ltb. apply Z.ltb_irrefl. Qed.
Lemma gtb_total a b : (a >? b)%Z = false -> (b >? a)%Z = false -> a = b.
Proof. rewrite !Z.gtb_ltb, !Z.ltb_ge. lia. Qed.

(* minimum: the returned pixel is in the list, carries the least value, and every
   earlier pixel (row-major order of the list) has a strictly larger value *)
Lemma argmin_spec l p v : arg_ext Z.ltb l = Some (p, v) ->
  exists pre post, l = pre ++ (p, v) :: post /\
    (forall q, In q pre -> (v < snd q)%Z) /\ (forall q, In q post -> (v <= snd q)%Z).
Proof.
  intros H. apply (arg_ext_spec Z.ltb ltb_nb_trans ltb_trans) in H.
  destruct H as (pre & post & E & Hpre & Hpost). exists pre, post. split; [exact E|].
  split; intros q Hq; [apply Z.ltb_lt, (Hpre q Hq)|apply Z.ltb_ge, (Hpost q Hq)].
Qed.
Lemma argmax_spec l p v : arg_ext Z.gtb l = Some (p, v) ->
  exists pre post, l = pre ++ (p, v) :: post /\
    (forall q, In q pre -> (snd q < v)%Z) /\ (forall q, In q post -> (snd q <= v)%Z).
Proof.
  intros H. apply (arg_ext_spec Z.gtb gtb_nb_trans gtb_trans) in H.
  destruct H as (pre & post & E & Hpre & Hpost). exists pre, post. split; [exact E|].
  split; intros q Hq.
  - specialize (Hpre q Hq). cbn [snd] in Hpre. rewrite Z.gtb_ltb in Hpre. apply Z.ltb_lt. exact Hpre.
  - specialize (Hpost q Hq). cbn [snd] in Hpost. rewrite Z.gtb_ltb in Hpost. apply Z.ltb_ge. exact Hpost.
Qed.

(* ------------------------------------------------------------------ *)
(* 4e. transposition (axis swap)                                       *)
(* ------------------------------------------------------------------ *)
Definition sw (p : pix) : pix := (snd p, fst p).

Definition transp4 (m : list (list Z)) : list (list Z) :=
  map (fun a => map (fun b => nth a (nth b m []) 0%Z) [0; 1; 2; 3]) [0; 1; 2; 3].
Definition swap_cen (c : (Z * Z) * (Z * Z)) : (Z * Z) * (Z * Z) := (snd c, fst c).
Definition swap_cov (c : Z * Z * Z) : Z * Z * Z := let '(a, b, d) := c in (d, b, a).

(* the row of the transposed image; the four (first-occurrence) extremum indices are not
   covariant when the extremum is attained twice and are erased on both sides *)
Definition tr_row (r : row) : row := {|
  r_label := r_label r;
  r_bbox := (let '(a, b, c, d) := r_bbox r in (c, d, a, b));
  r_segment_area := r_segment_area r; r_area := r_area r;
  r_moments := transp4 (r_moments r);
  r_cutout_centroid := option_map swap_cen (r_cutout_centroid r);
  r_centroid := option_map swap_cen (r_centroid r);
  r_covariance := option_map swap_cov (r_covariance r);
  r_cov_den := r_cov_den r; r_cov_margin_ok := r_cov_margin_ok r;
  r_flux := r_flux r; r_fluxerr2 := r_fluxerr2 r; r_min := r_min r; r_max := r_max r;
  r_cminidx := None; r_cmaxidx := None; r_minidx := None; r_maxidx := None;
  r_bkg_sum := r_bkg_sum r; r_bkg_mean := r_bkg_mean r |}.
Definition forget_idx (r : row) : row := {|
  r_label := r_label r; r_bbox := r_bbox r; r_segment_area := r_segment_area r; r_area := r_area r;
  r_moments := r_moments r; r_cutout_centroid := r_cutout_centroid r; r_centroid := r_centroid r;
  r_covariance := r_covariance r; r_cov_den := r_cov_den r; r_cov_margin_ok := r_cov_margin_ok r;
  r_flux := r_flux r; r_fluxerr2 := r_fluxerr2 r; r_min := r_min r; r_max := r_max r;
  r_cminidx := None; r_cmaxidx := None; r_minidx := None; r_maxidx := None;
  r_bkg_sum := r_bkg_sum r; r_bkg_mean := r_bkg_mean r |}.

Lemma minl_perm d l l' : Permutation l l' -> minl d l = minl d l'.
Proof. induction 1; rewrite ?minl_cons in *; lia. Qed.
Lemma maxl_perm l l' : Permutation l l' -> maxl l = maxl l'.
Proof. induction 1; rewrite ?maxl_cons in *; lia. Qed.

Lemma osum_perm l l' : Permutation l l' -> osum l = osum l'.
Proof.
  induction 1 as [|x l l' HP IH|x y l|l l' l'' H1 IH1 H2 IH2].
  - reflexivity.
  - cbn [osum]. rewrite IH. reflexivity.
  - cbn [osum]. destruct x as [x|], y as [y|], (osum l) as [s|]; try reflexivity. f_equal. ring.
  - congruence.
Qed.

Lemma filter_perm {A} (f : A -> bool) l l' : Permutation l l' -> Permutation (filter f l) (filter f l').
Proof.
  induction 1 as [|x l l' HP IH|x y l|l l' l'' H1 IH1 H2 IH2].
  - constructor.
  - cbn. destruct (f x); [constructor|]; exact IH.
  - cbn. destruct (f x), (f y); try apply Permutation_refl. constructor.
  - eapply Permutation_trans; eassumption.
Qed.

Lemma regularise_swap fuel d2 a b c :
  regularise fuel d2 c b a = option_map swap_cov (regularise fuel d2 a b c).
Proof.
  revert a c. induction fuel as [|f IH]; intros a c; cbn [regularise]; rewrite (Z.mul_comm c a).
  - destruct (a * c - b * b <? d2 * d2)%Z; reflexivity.
  - destruct (a * c - b * b <? d2 * d2)%Z; [apply IH|reflexivity].
Qed.

Lemma nodup_app {A} (l l' : list A) :
  NoDup l -> NoDup l' -> (forall x, In x l -> In x l' -> False) -> NoDup (l ++ l').
Proof.
  induction l as [|a l IH]; intros H1 H2 H3; [exact H2|]. cbn. inversion H1 as [|a' l0 Hna Hnd]; subst.
  constructor.
  - intros Hin. apply in_app_or in Hin. destruct Hin as [Hin|Hin]; [exact (Hna Hin)|].
    apply (H3 a); [left; reflexivity|exact Hin].
  - apply IH; [exact Hnd|exact H2|]. intros x Hx Hx'. apply (H3 x); [right; exact Hx|exact Hx'].
Qed.

Lemma coords_box_nodup y0 h x0 w : NoDup (coords_box y0 h x0 w).
Proof.
  unfold coords_box. revert y0. induction h as [|h IH]; intros y0; [constructor|].
  cbn [seq flat_map]. apply nodup_app.
  - apply FinFun.Injective_map_NoDup; [|apply seq_NoDup]. intros a b [= E]. exact E.
  - apply IH.
  - intros p H1 H2. apply in_map_iff in H1. destruct H1 as (x & <- & _).
    apply in_flat_map in H2. destruct H2 as (y & Hy & Hp). apply in_seq in Hy.
    apply in_map_iff in Hp. destruct Hp as (x' & [= Ey _] & _). lia.
Qed.

(* [I'] (an nx x ny image) is the transpose of [I] (ny x nx), as far as label [l] goes *)
Definition transposed_on_label (ny nx : nat) (I I' : inputs) (l : Z) : Prop :=
  (forall y x, y < ny -> x < nx -> (i_seg I' x y = l <-> i_seg I y x = l)) /\
  (forall y x, y < ny -> x < nx -> i_seg I y x = l ->
     dataat I' (x, y) = dataat I (y, x) /\ convat I' (x, y) = convat I (y, x) /\
     maskat I' (x, y) = maskat I (y, x) /\ errat I' (x, y) = errat I (y, x) /\
     bkgat I' (x, y) = bkgat I (y, x)) /\
  has_err I' = has_err I /\ has_bkg I' = has_bkg I.

Lemma sw_inj : FinFun.Injective sw.
Proof. intros [a b] [c d] [= -> ->]. reflexivity. Qed.

Lemma tr_lab ny nx I I' l : transposed_on_label ny nx I I' l ->
  Permutation (lab_pixels nx ny I' l) (map sw (lab_pixels ny nx I l)).
Proof.
  intros (Hs & _). apply NoDup_Permutation.
  - unfold lab_pixels, grid. apply NoDup_filter, coords_box_nodup.
  - apply FinFun.Injective_map_NoDup; [exact sw_inj|].
    unfold lab_pixels, grid. apply NoDup_filter, coords_box_nodup.
  - intros [x y]. rewrite lab_in, in_map_iff. cbn [fst snd]. unfold haslab. cbn [fst snd]. split.
    + intros (Hx & Hy & Hl). exists (y, x). split; [reflexivity|]. apply lab_in. cbn [fst snd].
      repeat split; try assumption. unfold haslab. cbn [fst snd].
      apply Z.eqb_eq. apply Z.eqb_eq in Hl. apply (Hs y x Hy Hx). exact Hl.
    + intros ([y' x'] & [= <- <-] & Hq). apply lab_in in Hq. cbn [fst snd] in Hq.
      destruct Hq as (Hy & Hx & Hl). repeat split; try assumption.
      unfold haslab in Hl. cbn [fst snd] in Hl.
      apply Z.eqb_eq. apply Z.eqb_eq in Hl. apply (Hs y' x' Hy Hx). exact Hl.
Qed.

Lemma tr_vals ny nx I I' l : transposed_on_label ny nx I I' l ->
  forall p, In p (lab_pixels ny nx I l) ->
    dataat I' (sw p) = dataat I p /\ convat I' (sw p) = convat I p /\
    maskat I' (sw p) = maskat I p /\ errat I' (sw p) = errat I p /\ bkgat I' (sw p) = bkgat I p.
Proof.
  intros (_ & Hv & _) [y x] Hp. apply lab_in in Hp. cbn [fst snd] in Hp.
  destruct Hp as (Hy & Hx & Hl). unfold haslab in Hl. cbn [fst snd] in Hl. apply Z.eqb_eq in Hl.
  unfold sw. cbn [fst snd]. apply Hv; assumption.
Qed.

Lemma tr_S ny nx I I' l : transposed_on_label ny nx I I' l ->
  Permutation (g_S (lab_pixels nx ny I' l) (dataat I') (maskat I'))
              (map sw (g_S (lab_pixels ny nx I l) (dataat I) (maskat I))).
Proof.
  intros H. unfold g_S.
  eapply Permutation_trans; [apply filter_perm, (tr_lab _ _ _ _ _ H)|].
  rewrite filter_map_comm. apply Permutation_map.
  erewrite filter_ext_in; [apply Permutation_refl|]. intros p Hp.
  destruct (tr_vals _ _ _ _ _ H p Hp) as (Hd & _ & Hm & _). unfold g_good. rewrite Hd, Hm. reflexivity.
Qed.

Section BuildTr.
Variables (l : Z) (ny nx : nat) (L L' Sd Sd' : list pix) (mv mv' : pix -> Z).
Variables (So So' : list pix) (oy ox oy' ox' : nat).
Variables (dat dat' err err' bkg bkg' : pix -> option Z) (he hb : bool).
Hypothesis HPL : Permutation L' (map sw L).
Hypothesis HPd : Permutation Sd' (map sw Sd).
Hypothesis HPo : Permutation So' (map sw So).
Hypothesis Hmv : forall p, In p L -> mv' (sw p) = mv p.
Hypothesis Ho : forall p, In p So ->
  dat' (sw p) = dat p /\ err' (sw p) = err p /\ bkg' (sw p) = bkg p.

Lemma tr_fst : Permutation (map fst L') (map snd L).
Proof.
  eapply Permutation_trans; [apply Permutation_map, HPL|]. rewrite map_map. apply Permutation_refl.
Qed.
Lemma tr_snd : Permutation (map snd L') (map fst L).
Proof.
  eapply Permutation_trans; [apply Permutation_map, HPL|]. rewrite map_map. apply Permutation_refl.
Qed.
Lemma tr_y0 : b_y0 nx L' = b_x0 nx L.
Proof. unfold b_y0, b_x0. apply minl_perm, tr_fst. Qed.
Lemma tr_x0 : b_x0 ny L' = b_y0 ny L.
Proof. unfold b_y0, b_x0. apply minl_perm, tr_snd. Qed.
Lemma tr_y1 : b_y1 L' = b_x1 L.
Proof. unfold b_y1, b_x1. apply maxl_perm, Permutation_map, tr_fst. Qed.
Lemma tr_x1 : b_x1 L' = b_y1 L.
Proof. unfold b_y1, b_x1. apply maxl_perm, Permutation_map, tr_snd. Qed.

Lemma tr_rel p : b_rel nx ny L' (sw p) = (snd (b_rel ny nx L p), fst (b_rel ny nx L p)).
Proof. unfold b_rel. rewrite tr_y0, tr_x0. reflexivity. Qed.

Lemma tr_moment a b : b_moment nx ny L' mv' a b = b_moment ny nx L mv b a.
Proof.
  unfold b_moment.
  rewrite (zsum_perm _ _ (Permutation_map _ HPL)), map_map. apply f_equal. apply map_ext_in.
  intros p Hp. rewrite tr_rel, (Hmv p Hp). cbn [fst snd]. ring.
Qed.
Lemma tr_moments : b_moments nx ny L' mv' = transp4 (b_moments ny nx L mv).
Proof. unfold b_moments. cbn [map transp4 nth]. rewrite !tr_moment. reflexivity. Qed.
Lemma tr_m00 : b_m00 nx ny L' mv' = b_m00 ny nx L mv.
Proof. apply tr_moment. Qed.
Lemma tr_ccen : b_ccen nx ny L' mv' = option_map swap_cen (b_ccen ny nx L mv).
Proof. unfold b_ccen. rewrite tr_m00, !tr_moment. destruct (_ =? 0)%Z; reflexivity. Qed.
Lemma tr_cen : b_cen nx ny L' mv' = option_map swap_cen (b_cen ny nx L mv).
Proof.
  unfold b_cen. rewrite tr_ccen, tr_x0, tr_y0. unfold b_ccen. destruct (_ =? 0)%Z; reflexivity.
Qed.
Lemma tr_covnum : b_covnum nx ny L' mv' = swap_cov (b_covnum ny nx L mv).
Proof.
  unfold b_covnum. rewrite tr_m00, !tr_moment. cbn [swap_cov].
  match goal with |- (?a, ?b, ?c) = (?a', ?b', ?c') =>
    replace a with a' by ring; replace b with b' by ring; replace c with c' by ring; reflexivity end.
Qed.
Lemma tr_cov : b_cov nx ny L' mv' = option_map swap_cov (b_cov ny nx L mv).
Proof.
  unfold b_cov. rewrite tr_m00, tr_covnum. destruct (b_covnum ny nx L mv) as [[a b] c].
  cbn [swap_cov]. destruct (_ =? 0)%Z; [reflexivity|apply regularise_swap].
Qed.
Lemma tr_covden : b_covden nx ny L' mv' = b_covden ny nx L mv.
Proof. unfold b_covden. rewrite tr_m00. reflexivity. Qed.
Lemma tr_margin : b_margin nx ny L' mv' = b_margin ny nx L mv.
Proof.
  unfold b_margin. rewrite tr_m00, tr_covnum. destruct (b_covnum ny nx L mv) as [[a b] c].
  cbn [swap_cov]. rewrite (Z.mul_comm c a). reflexivity.
Qed.

Lemma tr_isnil (S S' : list pix) : Permutation S' (map sw S) -> isnil S' = isnil S.
Proof. intros H. rewrite !isnil_length, (Permutation_length H), map_length. reflexivity. Qed.
Lemma tr_oarea : o_area Sd' = o_area Sd.
Proof. unfold o_area. rewrite (tr_isnil _ _ HPd), (Permutation_length HPd), map_length. reflexivity. Qed.

Lemma tr_map {B} (f f' : pix -> B) : (forall p, In p So -> f' (sw p) = f p) ->
  Permutation (map f' So') (map f So).
Proof.
  intros H. eapply Permutation_trans; [apply Permutation_map, HPo|]. rewrite map_map.
  erewrite map_ext_in; [apply Permutation_refl|]. exact H.
Qed.
Lemma tr_flux : b_flux So' dat' = b_flux So dat.
Proof.
  unfold b_flux. rewrite (tr_isnil _ _ HPo). destruct (isnil So); [reflexivity|]. apply f_equal.
  apply zsum_perm, tr_map. intros p Hp. destruct (Ho p Hp) as (-> & _). reflexivity.
Qed.
Lemma tr_fluxerr2 : b_fluxerr2 So' err' he = b_fluxerr2 So err he.
Proof.
  unfold b_fluxerr2. rewrite (tr_isnil _ _ HPo). destruct he, (isnil So); try reflexivity.
  apply osum_perm, tr_map. intros p Hp. destruct (Ho p Hp) as (_ & -> & _). reflexivity.
Qed.
Lemma tr_bkgsum : b_bkgsum So' bkg' hb = b_bkgsum So bkg hb.
Proof.
  unfold b_bkgsum. rewrite (tr_isnil _ _ HPo). destruct hb, (isnil So); try reflexivity.
  apply osum_perm, tr_map. intros p Hp. destruct (Ho p Hp) as (_ & _ & ->). reflexivity.
Qed.
Lemma tr_bkgmean : b_bkgmean So' bkg' hb = b_bkgmean So bkg hb.
Proof. unfold b_bkgmean. rewrite tr_bkgsum, (Permutation_length HPo), map_length. reflexivity. Qed.
Lemma tr_tagged : Permutation (map snd (b_tagged So' dat')) (map snd (b_tagged So dat)).
Proof.
  unfold b_tagged. rewrite !map_map. cbn [snd]. apply tr_map.
  intros p Hp. destruct (Ho p Hp) as (-> & _). reflexivity.
Qed.
Lemma tr_min : option_map snd (b_argmin So' dat') = option_map snd (b_argmin So dat).
Proof.
  unfold b_argmin. apply (arg_ext_value_perm Z.ltb ltb_nb_trans ltb_trans Z.ltb_irrefl ltb_total), tr_tagged.
Qed.
Lemma tr_max : option_map snd (b_argmax So' dat') = option_map snd (b_argmax So dat).
Proof.
  unfold b_argmax. apply (arg_ext_value_perm Z.gtb gtb_nb_trans gtb_trans gtb_irr gtb_total), tr_tagged.
Qed.

Lemma build_tr :
  forget_idx (build l nx ny L' Sd' mv' So' oy' ox' dat' err' bkg' he hb) =
  forget_idx (tr_row (build l ny nx L Sd mv So oy ox dat err bkg he hb)).
Proof.
  unfold forget_idx, tr_row, build.
  cbn [r_label r_bbox r_segment_area r_area r_moments r_cutout_centroid r_centroid r_covariance
       r_cov_den r_cov_margin_ok r_flux r_fluxerr2 r_min r_max r_cminidx r_cmaxidx r_minidx r_maxidx
       r_bkg_sum r_bkg_mean].
  rewrite tr_moments, tr_ccen, tr_cen, tr_cov, tr_covden, tr_margin, tr_flux, tr_fluxerr2,
    tr_bkgsum, tr_bkgmean, tr_min, tr_max, tr_x0, tr_x1, tr_y0, tr_y1, tr_oarea,
    (Permutation_length HPL), map_length.
  reflexivity.
Qed.
End BuildTr.

Theorem row_transpose_proof ny nx own own' det det' l :
  transposed_on_label ny nx own own' l -> transposed_on_label ny nx det det' l ->
  forget_idx (mkrow nx ny own' det' l) = forget_idx (tr_row (mkrow ny nx own det l)).
Proof.
  intros Ho Hd. rewrite !mkrow_is_build. unfold def_row.
  pose proof Ho as (_ & _ & -> & ->).
  apply build_tr.
  - apply (tr_lab _ _ _ _ _ Hd).
  - apply (tr_S _ _ _ _ _ Hd).
  - apply (tr_S _ _ _ _ _ Ho).
  - intros p Hp. destruct (tr_vals _ _ _ _ _ Hd p Hp) as (_ & Hc & Hm & _).
    unfold g_mv. rewrite Hc, Hm. reflexivity.
  - intros p Hp. unfold g_S in Hp. apply filter_In in Hp. destruct Hp as [Hp _].
    destruct (tr_vals _ _ _ _ _ Ho p Hp) as (H1 & _ & _ & H4 & H5). auto.
Qed.
Local Open Scope Z_scope.

(* ------------------------------------------------------------------ *)
(* 5b. centroid and second moments                                     *)
(* ------------------------------------------------------------------ *)
Lemma zsum_nonneg l : (forall x, In x l -> 0 <= x) -> 0 <= zsum l.
Proof.
  induction l as [|a l IH]; intros H; [cbn; lia|]. rewrite zsum_cons.
  assert (0 <= a) by (apply H; left; reflexivity).
  assert (0 <= zsum l) by (apply IH; intros x Hx; apply H; right; exact Hx). lia.
Qed.

Lemma zsum_bilinear {A} (L : list A) (v X Y : A -> Z) (a b c d : Z) :
  zsum (map (fun p => v p * (a * X p - b) * (c * Y p - d)) L) =
  a * c * zsum (map (fun p => v p * X p * Y p) L) - a * d * zsum (map (fun p => v p * X p) L)
  - b * c * zsum (map (fun p => v p * Y p) L) + b * d * zsum (map v L).
Proof.
  induction L as [|p L IH]; [cbn; ring|]. cbn [map]. rewrite !zsum_cons, IH. ring.
Qed.

Lemma zsum_quadform {A} (L : list A) (v U V : A -> Z) (s t : Z) :
  zsum (map (fun p => v p * (s * U p + t * V p) * (s * U p + t * V p)) L) =
  s * s * zsum (map (fun p => v p * U p * U p) L) + 2 * s * t * zsum (map (fun p => v p * U p * V p) L)
  + t * t * zsum (map (fun p => v p * V p * V p) L).
Proof.
  induction L as [|p L IH]; [cbn; ring|]. cbn [map]. rewrite !zsum_cons, IH. ring.
Qed.

Lemma cauchy_schwarz {A} (L : list A) (v U V : A -> Z) :
  (forall p, In p L -> 0 <= v p) ->
  0 <= zsum (map (fun p => v p * U p * U p) L) * zsum (map (fun p => v p * V p * V p) L)
       - zsum (map (fun p => v p * U p * V p) L) * zsum (map (fun p => v p * U p * V p) L).
Proof.
  intros Hv.
  set (A' := zsum (map (fun p => v p * U p * U p) L)).
  set (B' := zsum (map (fun p => v p * U p * V p) L)).
  set (C' := zsum (map (fun p => v p * V p * V p) L)).
  assert (Q : forall s t, 0 <= s * s * A' + 2 * s * t * B' + t * t * C').
  { intros s t. unfold A', B', C'. rewrite <- zsum_quadform. apply zsum_nonneg.
    intros x Hx. apply in_map_iff in Hx. destruct Hx as (p & <- & Hp). specialize (Hv p Hp).
    rewrite <- Z.mul_assoc. apply Z.mul_nonneg_nonneg; [exact Hv|apply Z.square_nonneg]. }
  assert (HA : 0 <= A') by (specialize (Q 1 0); lia).
  assert (HC : 0 <= C') by (specialize (Q 0 1); lia).
  destruct (Z.eq_dec C' 0) as [E|E].
  - assert (B' = 0).
    { specialize (Q 1 (- (A' + 1) * B')). rewrite E in Q. nia. }
    nia.
  - specialize (Q C' (- B')). nia.
Qed.

Lemma zpow_0 z : zpow z 0 = 1.  Proof. reflexivity. Qed.
Lemma zpow_1 z : zpow z 1 = z.  Proof. unfold zpow. cbn. apply Z.pow_1_r. Qed.
Lemma zpow_2 z : zpow z 2 = z * z.  Proof. unfold zpow. cbn. apply Z.pow_2_r. Qed.

Lemma g_mv_nonneg cnv msk p : 0 <= g_mv cnv msk p.
Proof.
  unfold g_mv. destruct (cnv p) as [v|]; [|lia].
  destruct (v <? 0) eqn:E; cbn [orb]; [lia|]. destruct (msk p); [lia|]. apply Z.ltb_ge in E. exact E.
Qed.

Section Moments.
Variables (ny nx : nat) (L : list pix) (mv : pix -> Z).
Let X (p : pix) := snd (b_rel ny nx L p).
Let Y (p : pix) := fst (b_rel ny nx L p).
Let M := b_m00 ny nx L mv.

Lemma m00_sum : M = zsum (map mv L).
Proof.
  unfold M, b_m00, b_moment. f_equal. apply map_ext. intros p. rewrite !zpow_0. ring.
Qed.
Lemma m01_sum : b_moment ny nx L mv 0 1 = zsum (map (fun p => mv p * X p) L).
Proof. unfold b_moment. f_equal. apply map_ext. intros p. rewrite zpow_0, zpow_1. unfold X. ring. Qed.
Lemma m10_sum : b_moment ny nx L mv 1 0 = zsum (map (fun p => mv p * Y p) L).
Proof. unfold b_moment. f_equal. apply map_ext. intros p. rewrite zpow_0, zpow_1. unfold Y. ring. Qed.
Lemma m02_sum : b_moment ny nx L mv 0 2 = zsum (map (fun p => mv p * X p * X p) L).
Proof. unfold b_moment. f_equal. apply map_ext. intros p. rewrite zpow_0, zpow_2. unfold X. ring. Qed.
Lemma m20_sum : b_moment ny nx L mv 2 0 = zsum (map (fun p => mv p * Y p * Y p) L).
Proof. unfold b_moment. f_equal. apply map_ext. intros p. rewrite zpow_0, zpow_2. unfold Y. ring. Qed.
Lemma m11_sum : b_moment ny nx L mv 1 1 = zsum (map (fun p => mv p * X p * Y p) L).
Proof. unfold b_moment. f_equal. apply map_ext. intros p. rewrite !zpow_1. unfold X, Y. ring. Qed.

Lemma zsum_affine {A} (l : list A) (v X' : A -> Z) (c : Z) :
  zsum (map (fun p => v p * (X' p + c)) l) = zsum (map (fun p => v p * X' p) l) + c * zsum (map v l).
Proof. induction l as [|p l IH]; [cbn; ring|]. cbn [map]. rewrite !zsum_cons, IH. ring. Qed.

(* the centroid is the centre of mass in image coordinates: (sum x v / sum v, sum y v / sum v) *)
Lemma cen_center_of_mass :
  b_cen ny nx L mv =
  if M =? 0 then None
  else Some ((zsum (map (fun p => mv p * Z.of_nat (snd p)) L), M),
             (zsum (map (fun p => mv p * Z.of_nat (fst p)) L), M)).
Proof.
  unfold b_cen, b_ccen. fold M. destruct (M =? 0); [reflexivity|].
  assert (Ex : zsum (map (fun p => mv p * Z.of_nat (snd p)) L) =
               b_moment ny nx L mv 0 1 + Z.of_nat (b_x0 nx L) * M).
  { rewrite m01_sum, m00_sum, <- zsum_affine. f_equal. apply map_ext. intros p.
    unfold X, b_rel. cbn [snd]. f_equal. ring. }
  assert (Ey : zsum (map (fun p => mv p * Z.of_nat (fst p)) L) =
               b_moment ny nx L mv 1 0 + Z.of_nat (b_y0 ny L) * M).
  { rewrite m10_sum, m00_sum, <- zsum_affine. f_equal. apply map_ext. intros p.
    unfold Y, b_rel. cbn [fst]. f_equal. ring. }
  rewrite Ex, Ey. reflexivity.
Qed.

(* central second moments with the denominators cleared: U = M*(x - xbar), V = M*(y - ybar) *)
Let U (p : pix) := M * X p - b_moment ny nx L mv 0 1.
Let V (p : pix) := M * Y p - b_moment ny nx L mv 1 0.
Definition cm_xx := zsum (map (fun p => mv p * U p * U p) L).
Definition cm_xy := zsum (map (fun p => mv p * U p * V p) L).
Definition cm_yy := zsum (map (fun p => mv p * V p * V p) L).

Lemma covnum_central : forall a b c, b_covnum ny nx L mv = (a, b, c) ->
  M * a = cm_xx /\ M * b = cm_xy /\ M * c = cm_yy.
Proof.
  intros a b c E. unfold b_covnum in E. fold M in E. injection E as <- <- <-.
  unfold cm_xx, cm_xy, cm_yy, U, V. rewrite !zsum_bilinear.
  rewrite <- m02_sum, <- m20_sum, <- m11_sum, <- !m01_sum, <- !m10_sum, <- m00_sum.
  assert (Eyx : zsum (map (fun p => mv p * Y p * X p) L) = b_moment ny nx L mv 1 1).
  { rewrite m11_sum. f_equal. apply map_ext. intros p. ring. }
  repeat split; ring.
Qed.

Lemma covnum_psd : (forall p, In p L -> 0 <= mv p) -> 0 < M ->
  forall a b c, b_covnum ny nx L mv = (a, b, c) -> 0 <= a /\ 0 <= c /\ 0 <= a * c - b * b.
Proof.
  intros Hv HM a b c E. destruct (covnum_central a b c E) as (Ha & Hb & Hc).
  assert (Hxx : 0 <= cm_xx).
  { unfold cm_xx. apply zsum_nonneg. intros x Hx. apply in_map_iff in Hx. destruct Hx as (p & <- & Hp).
    rewrite <- Z.mul_assoc. apply Z.mul_nonneg_nonneg; [apply Hv, Hp|apply Z.square_nonneg]. }
  assert (Hyy : 0 <= cm_yy).
  { unfold cm_yy. apply zsum_nonneg. intros x Hx. apply in_map_iff in Hx. destruct Hx as (p & <- & Hp).
    rewrite <- Z.mul_assoc. apply Z.mul_nonneg_nonneg; [apply Hv, Hp|apply Z.square_nonneg]. }
  assert (Hcs := cauchy_schwarz L mv U V Hv). fold cm_xx cm_xy cm_yy in Hcs.
  rewrite <- Ha, <- Hb, <- Hc in Hcs. rewrite <- Ha in Hxx. rewrite <- Hc in Hyy.
  repeat split; nia.
Qed.
End Moments.

(* ------------------------------------------------------------------ *)
(* 5c. the 1/12 regularisation loop                                    *)
(* ------------------------------------------------------------------ *)
Lemma regularise_spec fuel d2 a b c r : regularise fuel d2 a b c = Some r ->
  exists k : nat, (k <= fuel)%nat /\
    r = (a + Z.of_nat k * d2, b, c + Z.of_nat k * d2) /\
    d2 * d2 <= (a + Z.of_nat k * d2) * (c + Z.of_nat k * d2) - b * b /\
    forall j : nat, (j < k)%nat -> (a + Z.of_nat j * d2) * (c + Z.of_nat j * d2) - b * b < d2 * d2.
Proof.
  revert a c. induction fuel as [|f IH]; intros a c H; cbn [regularise] in H;
    destruct (a * c - b * b <? d2 * d2) eqn:E.
  - discriminate.
  - injection H as <-. apply Z.ltb_ge in E. exists 0%nat. cbn [Z.of_nat]. rewrite !Z.mul_0_l, !Z.add_0_r.
    repeat split; [lia|exact E|]. intros j Hj. lia.
  - destruct (IH _ _ H) as (k & Hk & -> & Hge & Hlt). exists (S k).
    rewrite Nat2Z.inj_succ. unfold Z.succ.
    replace (a + (Z.of_nat k + 1) * d2) with (a + d2 + Z.of_nat k * d2) by ring.
    replace (c + (Z.of_nat k + 1) * d2) with (c + d2 + Z.of_nat k * d2) by ring.
    repeat split; [lia|exact Hge|]. intros [|j] Hj.
    + cbn [Z.of_nat]. rewrite !Z.mul_0_l, !Z.add_0_r. apply Z.ltb_lt. exact E.
    + rewrite Nat2Z.inj_succ. unfold Z.succ.
      replace (a + (Z.of_nat j + 1) * d2) with (a + d2 + Z.of_nat j * d2) by ring.
      replace (c + (Z.of_nat j + 1) * d2) with (c + d2 + Z.of_nat j * d2) by ring.
      apply Hlt. lia.
  - injection H as <-. apply Z.ltb_ge in E. exists 0%nat. cbn [Z.of_nat]. rewrite !Z.mul_0_l, !Z.add_0_r.
    repeat split; [lia|exact E|]. intros j Hj. lia.
Qed.

(* for a positive semidefinite matrix the loop stops after at most one step *)
Lemma regularise_psd fuel d2 a b c : 0 < d2 -> 0 <= a -> 0 <= c -> 0 <= a * c - b * b ->
  regularise (S fuel) d2 a b c =
  Some (if a * c - b * b <? d2 * d2 then (a + d2, b, c + d2) else (a, b, c)).
Proof.
  intros Hd Ha Hc Hdet. cbn [regularise]. destruct (a * c - b * b <? d2 * d2) eqn:E; [|reflexivity].
  assert (E2 : (a + d2) * (c + d2) - b * b <? d2 * d2 = false) by (apply Z.ltb_ge; nia).
  destruct fuel; cbn [regularise]; rewrite E2; reflexivity.
Qed.

(* hence the covariance of a source with positive moment-data sum is always defined: it is the
   matrix of central second moments over M00, plus (1/12) on the diagonal exactly when its
   determinant is below (1/12)^2 (numerators over the denominator 12*M00^2) *)
Lemma cov_defined ny nx L mv : (forall p, In p L -> 0 <= mv p) ->
  b_m00 ny nx L mv <> 0 ->
  forall a b c, b_covnum ny nx L mv = (a, b, c) ->
  let M := b_m00 ny nx L mv in
  0 < M /\ 0 <= a /\ 0 <= c /\ 0 <= a * c - b * b /\
  b_cov ny nx L mv =
  Some (if 144 * (a * c - b * b) <? M * M * (M * M)
        then (12 * a + M * M, 12 * b, 12 * c + M * M) else (12 * a, 12 * b, 12 * c)).
Proof.
  intros Hv HM a b c E M.
  assert (HM0 : 0 <= M).
  { unfold M. rewrite m00_sum. apply zsum_nonneg. intros x Hx. apply in_map_iff in Hx.
    destruct Hx as (p & <- & Hp). apply Hv, Hp. }
  assert (HMpos : 0 < M) by (unfold M in *; lia).
  destruct (covnum_psd ny nx L mv Hv HMpos a b c E) as (Ha & Hc & Hdet).
  repeat split; try assumption.
  unfold b_cov. fold M. rewrite E. destruct (M =? 0) eqn:EM; [apply Z.eqb_eq in EM; lia|].
  unfold reg_fuel. rewrite regularise_psd; try nia.
  replace (12 * a * (12 * c) - 12 * b * (12 * b)) with (144 * (a * c - b * b)) by ring.
  reflexivity.
Qed.
Local Open Scope Z_scope.

(* ------------------------------------------------------------------ *)
(* 5d. label order of a complete catalog                               *)
(* ------------------------------------------------------------------ *)
From Coq Require Import Sorted.

Lemma insert_u_in x l v : In v (insert_u x l) <-> v = x \/ In v l.
Proof.
  induction l as [|y r IH]; cbn [insert_u].
  - cbn. intuition.
  - destruct (x <? y) eqn:E1; [cbn; intuition|]. destruct (Z.eqb_spec x y) as [E2|E2].
    + subst y. cbn. intuition.
    + cbn [In]. rewrite IH. intuition.
Qed.

Lemma insert_u_sorted x l : StronglySorted Z.lt l -> StronglySorted Z.lt (insert_u x l).
Proof.
  induction 1 as [|y r Hs IH Hf]; cbn [insert_u].
  - constructor; constructor.
  - destruct (x <? y) eqn:E1.
    + apply Z.ltb_lt in E1. constructor; [constructor; assumption|].
      constructor; [exact E1|]. eapply Forall_impl; [|exact Hf]. intros z Hz. cbn in Hz. lia.
    + apply Z.ltb_ge in E1. destruct (Z.eqb_spec x y) as [E2|E2]; [constructor; assumption|].
      constructor; [exact IH|]. apply Forall_forall. intros v Hv. apply insert_u_in in Hv.
      destruct Hv as [->|Hv]; [lia|]. rewrite Forall_forall in Hf. apply Hf, Hv.
Qed.

Lemma fold_insert_in l v : In v (fold_right insert_u [] l) <-> In v l.
Proof.
  induction l as [|a l IH]; [reflexivity|]. cbn [fold_right]. rewrite insert_u_in, IH. cbn. intuition.
Qed.
Lemma fold_insert_sorted l : StronglySorted Z.lt (fold_right insert_u [] l).
Proof. induction l as [|a l IH]; [constructor|]. cbn [fold_right]. apply insert_u_sorted, IH. Qed.

Lemma seg_labels_in ny nx seg v : In v (seg_labels ny nx seg) <->
  v <> 0 /\ exists y x, (y < ny)%nat /\ (x < nx)%nat /\ seg y x = v.
Proof.
  unfold seg_labels. rewrite fold_insert_in, filter_In, in_map_iff. split.
  - intros [([y x] & E & Hp) Hv]. apply in_coords_box in Hp. cbn [fst snd] in *.
    split; [destruct (Z.eqb_spec v 0); [discriminate|assumption]|]. exists y, x. repeat split; solve [lia | exact E].
  - intros (Hv & y & x & Hy & Hx & E). split.
    + exists (y, x). split; [exact E|]. apply in_coords_box. cbn. lia.
    + destruct (Z.eqb_spec v 0); [contradiction|reflexivity].
Qed.
Lemma seg_labels_sorted ny nx seg : StronglySorted Z.lt (seg_labels ny nx seg).
Proof. apply fold_insert_sorted. Qed.

Lemma sorted_nodup l : StronglySorted Z.lt l -> NoDup l.
Proof.
  induction 1 as [|a l Hs IH Hf]; constructor; [|exact IH].
  intros Hin. rewrite Forall_forall in Hf. specialize (Hf a Hin). lia.
Qed.

Lemma seg_labels_relabel ny nx seg pi : (forall a b, pi a = pi b -> a = b) -> pi 0 = 0 ->
  Permutation (seg_labels ny nx (fun y x => pi (seg y x))) (map pi (seg_labels ny nx seg)).
Proof.
  intros Hinj H0. apply NoDup_Permutation.
  - apply sorted_nodup, seg_labels_sorted.
  - apply FinFun.Injective_map_NoDup; [exact Hinj|apply sorted_nodup, seg_labels_sorted].
  - intros v. rewrite seg_labels_in, in_map_iff. split.
    + intros (Hv & y & x & Hy & Hx & E). exists (seg y x). split; [exact E|].
      apply seg_labels_in. split; [|exists y, x; auto]. intros E0. rewrite E0, H0 in E. congruence.
    + intros (u & <- & Hu). apply seg_labels_in in Hu. destruct Hu as (Hu & y & x & Hy & Hx & E).
      split; [intros E0; apply Hu, Hinj; rewrite E0, H0; reflexivity|]. exists y, x. rewrite E. auto.
Qed.

Lemma full_rows_sorted ny nx own det :
  StronglySorted Z.lt (map r_label (full_catalog_rows ny nx own det)).
Proof. unfold full_catalog_rows. rewrite rows_labels. apply seg_labels_sorted. Qed.

Lemma full_rows_relabel ny nx own det pi : (forall a b, pi a = pi b -> a = b) -> pi 0 = 0 ->
  Permutation (full_catalog_rows ny nx (relabel pi own) (option_map (relabel pi) det))
              (map (fun r => set_label (pi (r_label r)) r) (full_catalog_rows ny nx own det)).
Proof.
  intros Hinj H0. unfold full_catalog_rows. rewrite <- (relabel_catalog _ _ _ _ _ _ Hinj).
  apply rows_perm. cbn [relabel i_seg]. apply seg_labels_relabel; assumption.
Qed.
Local Open Scope Z_scope.

(* ------------------------------------------------------------------ *)
(* 5e. readable characterisations used in the property statements       *)
(* ------------------------------------------------------------------ *)
Lemma g_S_in L dat msk p :
  In p (g_S L dat msk) <-> In p L /\ msk p = false /\ exists v, dat p = Some v.
Proof.
  unfold g_S, g_good. rewrite filter_In. split.
  - intros [Hp H]. apply andb_true_iff in H. destruct H as [Hm Hd]. split; [exact Hp|].
    split; [destruct (msk p); [discriminate|reflexivity]|]. destruct (dat p) as [v|]; [eauto|discriminate].
  - intros (Hp & -> & v & ->). auto.
Qed.

(* the bounding box is the tight box of the label's pixels *)
Lemma bbox_tight ny nx own det l : lab_pixels ny nx det l <> [] ->
  let '(xmin, xmax, ymin, ymax) := r_bbox (mkrow ny nx own det l) in
  (forall p, In p (lab_pixels ny nx det l) ->
     ymin <= Z.of_nat (fst p) <= ymax /\ xmin <= Z.of_nat (snd p) <= xmax) /\
  (exists p, In p (lab_pixels ny nx det l) /\ Z.of_nat (fst p) = ymin) /\
  (exists p, In p (lab_pixels ny nx det l) /\ Z.of_nat (fst p) = ymax) /\
  (exists p, In p (lab_pixels ny nx det l) /\ Z.of_nat (snd p) = xmin) /\
  (exists p, In p (lab_pixels ny nx det l) /\ Z.of_nat (snd p) = xmax).
Proof.
  intros Hne. cbn [mkrow r_bbox].
  set (L := lab_pixels ny nx det l) in *.
  assert (Hb : forall p, In p L -> (fst p < ny /\ snd p < nx)%nat).
  { intros p Hp. apply lab_in in Hp. tauto. }
  split; [intros p Hp; apply lab_bounds in Hp; lia|].
  assert (Hys : map fst L <> []) by (destruct L; [congruence|discriminate]).
  assert (Hxs : map snd L <> []) by (destruct L; [congruence|discriminate]).
  assert (HSys : map S (map fst L) <> []) by (destruct L; [congruence|discriminate]).
  assert (HSxs : map S (map snd L) <> []) by (destruct L; [congruence|discriminate]).
  repeat split.
  - assert (H := minl_attained ny (map fst L) Hys). apply in_map_iff in H.
    + destruct H as (p & E & Hp). exists p. split; [exact Hp|]. rewrite E. reflexivity.
    + intros y Hy. apply in_map_iff in Hy. destruct Hy as (p & <- & Hp). apply Hb in Hp. lia.
  - assert (H := maxl_attained (map S (map fst L)) HSys). apply in_map_iff in H.
    destruct H as (y & E & Hy). apply in_map_iff in Hy. destruct Hy as (p & <- & Hp).
    exists p. split; [exact Hp|]. unfold by1, bbox. fold L. rewrite <- E. lia.
  - assert (H := minl_attained nx (map snd L) Hxs). apply in_map_iff in H.
    + destruct H as (p & E & Hp). exists p. split; [exact Hp|]. rewrite E. reflexivity.
    + intros y Hy. apply in_map_iff in Hy. destruct Hy as (p & <- & Hp). apply Hb in Hp. lia.
  - assert (H := maxl_attained (map S (map snd L)) HSxs). apply in_map_iff in H.
    destruct H as (y & E & Hy). apply in_map_iff in Hy. destruct Hy as (p & <- & Hp).
    exists p. split; [exact Hp|]. unfold bx1, bbox. fold L. rewrite <- E. lia.
Qed.

(* min_value / minval_index: the least value over S_l and its FIRST occurrence in the
   row-major order of S_l; the cutout index is relative to the box origin *)
Lemma min_first ny nx own det l :
  let S := g_S (lab_pixels ny nx own l) (dataat own) (maskat own) in
  let r := mkrow ny nx own det l in
  S <> [] ->
  exists p v pre post, S = pre ++ p :: post /\ dataat own p = Some v /\
    r_min r = Some v /\
    r_minidx r = Some (Z.of_nat (fst p), Z.of_nat (snd p)) /\
    r_cminidx r = Some (Z.of_nat (fst p) - Z.of_nat (by0 ny nx own l),
                        Z.of_nat (snd p) - Z.of_nat (bx0 ny nx own l)) /\
    (forall q, In q pre -> exists w, dataat own q = Some w /\ v < w) /\
    (forall q, In q post -> exists w, dataat own q = Some w /\ v <= w).
Proof.
  intros S r Hne. subst r. rewrite mkrow_is_build. unfold def_row. fold S.
  unfold build. cbn [r_min r_minidx r_cminidx]. unfold b_argmin.
  assert (Hfin : forall q, In q S -> exists w, dataat own q = Some w).
  { intros q Hq. apply g_S_in in Hq. tauto. }
  destruct (arg_ext_some Z.ltb (b_tagged S (dataat own))) as [[p v] E].
  { unfold b_tagged. destruct S; [congruence|discriminate]. }
  rewrite E. destruct (argmin_spec _ _ _ E) as (pre & post & Heq & Hpre & Hpost).
  unfold b_tagged in Heq. apply map_eq_app in Heq. destruct Heq as (S1 & S2' & ES & E1 & E2).
  apply map_eq_cons in E2. destruct E2 as (p' & S2 & -> & [= <- Ev] & E3).
  exists p', v, S1, S2. split; [exact ES|].
  assert (Hp' : In p' S) by (rewrite ES; apply in_elt).
  destruct (Hfin p' Hp') as (w & Hw). rewrite Hw in Ev. cbn in Ev. subst w.
  split; [exact Hw|]. cbn [option_map fst snd]. split; [reflexivity|].
  split; [unfold o_add, o_rel; cbn [fst snd]; do 2 f_equal; lia|]. split; [reflexivity|]. split.
  - intros q Hq. destruct (Hfin q) as (w & Hq'); [rewrite ES; apply in_or_app; left; exact Hq|].
    exists w. split; [exact Hq'|]. specialize (Hpre (q, valz (dataat own q))). rewrite Hq' in Hpre.
    apply Hpre. rewrite <- E1. apply in_map_iff. exists q. rewrite Hq'. auto.
  - intros q Hq. destruct (Hfin q) as (w & Hq'); [rewrite ES; apply in_or_app; right; right; exact Hq|].
    exists w. split; [exact Hq'|]. specialize (Hpost (q, valz (dataat own q))). rewrite Hq' in Hpost.
    apply Hpost. rewrite <- E3. apply in_map_iff. exists q. rewrite Hq'. auto.
Qed.

Lemma max_first ny nx own det l :
  let S := g_S (lab_pixels ny nx own l) (dataat own) (maskat own) in
  let r := mkrow ny nx own det l in
  S <> [] ->
  exists p v pre post, S = pre ++ p :: post /\ dataat own p = Some v /\
    r_max r = Some v /\
    r_maxidx r = Some (Z.of_nat (fst p), Z.of_nat (snd p)) /\
    r_cmaxidx r = Some (Z.of_nat (fst p) - Z.of_nat (by0 ny nx own l),
                        Z.of_nat (snd p) - Z.of_nat (bx0 ny nx own l)) /\
    (forall q, In q pre -> exists w, dataat own q = Some w /\ w < v) /\
    (forall q, In q post -> exists w, dataat own q = Some w /\ w <= v).
Proof.
  intros S r Hne. subst r. rewrite mkrow_is_build. unfold def_row. fold S.
  unfold build. cbn [r_max r_maxidx r_cmaxidx]. unfold b_argmax.
  assert (Hfin : forall q, In q S -> exists w, dataat own q = Some w).
  { intros q Hq. apply g_S_in in Hq. tauto. }
  destruct (arg_ext_some Z.gtb (b_tagged S (dataat own))) as [[p v] E].
  { unfold b_tagged. destruct S; [congruence|discriminate]. }
  rewrite E. destruct (argmax_spec _ _ _ E) as (pre & post & Heq & Hpre & Hpost).
  unfold b_tagged in Heq. apply map_eq_app in Heq. destruct Heq as (S1 & S2' & ES & E1 & E2).
  apply map_eq_cons in E2. destruct E2 as (p' & S2 & -> & [= <- Ev] & E3).
  exists p', v, S1, S2. split; [exact ES|].
  assert (Hp' : In p' S) by (rewrite ES; apply in_elt).
  destruct (Hfin p' Hp') as (w & Hw). rewrite Hw in Ev. cbn in Ev. subst w.
  split; [exact Hw|]. cbn [option_map fst snd]. split; [reflexivity|].
  split; [unfold o_add, o_rel; cbn [fst snd]; do 2 f_equal; lia|]. split; [reflexivity|]. split.
  - intros q Hq. destruct (Hfin q) as (w & Hq'); [rewrite ES; apply in_or_app; left; exact Hq|].
    exists w. split; [exact Hq'|]. specialize (Hpre (q, valz (dataat own q))). rewrite Hq' in Hpre.
    apply Hpre. rewrite <- E1. apply in_map_iff. exists q. rewrite Hq'. auto.
  - intros q Hq. destruct (Hfin q) as (w & Hq'); [rewrite ES; apply in_or_app; right; right; exact Hq|].
    exists w. split; [exact Hq'|]. specialize (Hpost (q, valz (dataat own q))). rewrite Hq' in Hpost.
    apply Hpost. rewrite <- E3. apply in_map_iff. exists q. rewrite Hq'. auto.
Qed.
Local Open Scope Z_scope.

(* row-level statements of centroid and covariance *)
Lemma lab_in_seg ny nx I l p :
  In p (lab_pixels ny nx I l) <-> (fst p < ny)%nat /\ (snd p < nx)%nat /\ i_seg I (fst p) (snd p) = l.
Proof. rewrite lab_in. unfold haslab. rewrite Z.eqb_eq. reflexivity. Qed.

Lemma row_centroid ny nx own det l :
  let L := lab_pixels ny nx det l in
  let mv := g_mv (convat det) (maskat det) in
  let M := zsum (map mv L) in
  r_centroid (mkrow ny nx own det l) =
  if M =? 0 then None
  else Some ((zsum (map (fun p => mv p * Z.of_nat (snd p)) L), M),
             (zsum (map (fun p => mv p * Z.of_nat (fst p)) L), M)).
Proof.
  intros L mv M. rewrite mkrow_is_build. unfold def_row, build. cbn [r_centroid]. fold L mv.
  rewrite cen_center_of_mass, m00_sum. reflexivity.
Qed.

Lemma row_covariance ny nx own det l :
  let L := lab_pixels ny nx det l in
  let mv := g_mv (convat det) (maskat det) in
  let M := zsum (map mv L) in
  M <> 0 ->
  forall a b c, b_covnum ny nx L mv = (a, b, c) ->
  0 < M /\ 0 <= a /\ 0 <= c /\ 0 <= a * c - b * b /\
  M * a = cm_xx ny nx L mv /\ M * b = cm_xy ny nx L mv /\ M * c = cm_yy ny nx L mv /\
  r_cov_den (mkrow ny nx own det l) = 12 * M * M /\
  r_covariance (mkrow ny nx own det l) =
  Some (if 144 * (a * c - b * b) <? M * M * (M * M)
        then (12 * a + M * M, 12 * b, 12 * c + M * M) else (12 * a, 12 * b, 12 * c)).
Proof.
  intros L mv M HM a b c E.
  assert (EM : b_m00 ny nx L mv = M) by apply m00_sum.
  assert (HM' : b_m00 ny nx L mv <> 0) by (rewrite EM; exact HM).
  destruct (cov_defined ny nx L mv (fun p _ => g_mv_nonneg _ _ p) HM' a b c E) as (H1 & H2 & H3 & H4 & H5).
  destruct (covnum_central ny nx L mv a b c E) as (H6 & H7 & H8).
  rewrite EM in H1, H5, H6, H7, H8.
  rewrite mkrow_is_build. unfold def_row, build. cbn [r_covariance r_cov_den]. fold L mv.
  unfold b_covden. rewrite EM. repeat split; assumption.
Qed.

(* ---- the hypotheses of the covariance theorems are satisfiable for every input ---- *)
Definition embed_img {A} (d : A) (ny nx dy dx : nat) (f : fimg A) : fimg A :=
  fun y x => if ((dy <=? y) && (y <? dy + ny) && (dx <=? x) && (x <? dx + nx))%nat
             then f (y - dy)%nat (x - dx)%nat else d.
Definition embed (ny nx dy dx : nat) (I : inputs) : inputs := {|
  i_seg := embed_img 0 ny nx dy dx (i_seg I);
  i_data := embed_img None ny nx dy dx (i_data I);
  i_conv := option_map (embed_img None ny nx dy dx) (i_conv I);
  i_err := option_map (embed_img None ny nx dy dx) (i_err I);
  i_bkg := option_map (embed_img None ny nx dy dx) (i_bkg I);
  i_mask := option_map (embed_img false ny nx dy dx) (i_mask I) |}.

Lemma embed_at {A} (d : A) ny nx dy dx f y x : (y < ny)%nat -> (x < nx)%nat ->
  embed_img d ny nx dy dx f (y + dy)%nat (x + dx)%nat = f y x.
Proof.
  intros Hy Hx. unfold embed_img.
  replace ((dy <=? y + dy) && (y + dy <? dy + ny) && (dx <=? x + dx) && (x + dx <? dx + nx))%nat with true.
  - f_equal; lia.
  - symmetry. rewrite !andb_true_iff, !Nat.leb_le, !Nat.ltb_lt. lia.
Qed.

Lemma embed_is_shifted ny nx dy dx py px I l : l <> 0 ->
  shifted_on_label ny nx (ny + dy + py) (nx + dx + px) dy dx I (embed ny nx dy dx I) l.
Proof.
  intros Hl. unfold shifted_on_label. split; [lia|]. split; [lia|]. split; [|split].
  - intros y x _ _. cbn [embed i_seg]. unfold embed_img.
    destruct ((dy <=? y) && (y <? dy + ny) && (dx <=? x) && (x <? dx + nx))%nat eqn:E.
    + rewrite !andb_true_iff, !Nat.leb_le, !Nat.ltb_lt in E. split; [intros H; repeat split; solve [lia|exact H]|tauto].
    + split; [intros H; congruence|]. intros (H1 & H2 & H3 & H4 & _). exfalso.
      assert (((dy <=? y) && (y <? dy + ny) && (dx <=? x) && (x <? dx + nx))%nat = true); [|congruence].
      rewrite !andb_true_iff, !Nat.leb_le, !Nat.ltb_lt. lia.
  - intros y x Hy Hx _. unfold convat, maskat, errat, bkgat, dataat, embed. cbn [fst snd i_data i_conv i_mask i_err i_bkg].
    destruct (i_conv I), (i_mask I), (i_err I), (i_bkg I); cbn [option_map];
      rewrite ?embed_at by assumption; repeat split; reflexivity.
  - unfold has_err, has_bkg, embed. cbn [i_err i_bkg]. destruct (i_err I), (i_bkg I); split; reflexivity.
Qed.

Definition transpose_inputs (I : inputs) : inputs := {|
  i_seg := fun y x => i_seg I x y; i_data := fun y x => i_data I x y;
  i_conv := option_map (fun (f : fimg (option Z)) y x => f x y) (i_conv I);
  i_err := option_map (fun (f : fimg (option Z)) y x => f x y) (i_err I);
  i_bkg := option_map (fun (f : fimg (option Z)) y x => f x y) (i_bkg I);
  i_mask := option_map (fun (f : fimg bool) y x => f x y) (i_mask I) |}.

Lemma transpose_is_transposed ny nx I l : transposed_on_label ny nx I (transpose_inputs I) l.
Proof.
  unfold transposed_on_label. split; [|split].
  - intros y x _ _. reflexivity.
  - intros y x _ _ _. unfold convat, maskat, errat, bkgat, dataat, transpose_inputs.
    cbn [fst snd i_data i_conv i_mask i_err i_bkg].
    destruct (i_conv I), (i_mask I), (i_err I), (i_bkg I); cbn [option_map]; repeat split; reflexivity.
  - unfold has_err, has_bkg, transpose_inputs. cbn [i_err i_bkg]. destruct (i_err I), (i_bkg I); split; reflexivity.
Qed.

Lemma same_on_label_refl ny nx I l : same_on_label ny nx I I l.
Proof. unfold same_on_label. repeat split; auto. Qed.
Local Open Scope Z_scope.

(* ------------------------------------------------------------------ *)
(* 4f. transposition of the extremum indices when the data values on S_l are distinct *)
(* ------------------------------------------------------------------ *)
Section ArgUnique.
Variable better : Z -> Z -> bool.
Hypothesis nb_trans : forall a b c, better a b = false -> better b c = false -> better a c = false.
Hypothesis b_trans : forall a b c, better a b = true -> better b c = true -> better a c = true.
Hypothesis b_irr : forall a, better a a = false.
Hypothesis b_total : forall a b, better a b = false -> better b a = false -> a = b.

Lemma arg_ext_perm_unique (f : pix -> pix) (l l' : list (pix * Z)) :
  (forall x y, In x l -> In y l -> snd x = snd y -> x = y) ->
  Permutation l' (map (fun a => (f (fst a), snd a)) l) ->
  arg_ext better l' = option_map (fun a => (f (fst a), snd a)) (arg_ext better l).
Proof.
  intros Hinj HP. set (g := fun a : pix * Z => (f (fst a), snd a)) in *.
  destruct l as [|b l].
  - cbn [map] in HP. apply Permutation_sym, Permutation_nil in HP. rewrite HP. reflexivity.
  - destruct l' as [|b' l']; [apply Permutation_nil in HP; discriminate|].
    cbn [arg_ext option_map]. f_equal.
    set (a := arg_first better b l). set (a' := arg_first better b' l').
    assert (Ha : first_best better (b :: l) a) by apply (arg_first_spec better nb_trans b_trans).
    assert (Ha' : first_best better (b' :: l') a') by apply (arg_first_spec better nb_trans b_trans).
    assert (HPs : Permutation (map snd (b :: l)) (map snd (b' :: l'))).
    { apply Permutation_sym. eapply Permutation_trans; [apply Permutation_map, HP|].
      rewrite map_map. apply Permutation_refl. }
    assert (Ev := best_value_perm better b_trans b_irr b_total _ _ _ _ HPs Ha Ha').
    apply (first_best_in better b_trans b_irr) in Ha, Ha'. destruct Ha as [Hin _], Ha' as [Hin' _].
    apply (Permutation_in _ HP) in Hin'. apply in_map_iff in Hin'. destruct Hin' as (c & Ec & Hc).
    assert (c = a). { apply Hinj; [exact Hc|exact Hin|]. rewrite Ev, <- Ec. reflexivity. }
    subst c. symmetry. exact Ec.
Qed.
End ArgUnique.

Section BuildTrIdx.
Variables (So So' : list pix) (dat dat' : pix -> option Z).
Hypothesis HPo : Permutation So' (map sw So).
Hypothesis Hd : forall p, In p So -> dat' (sw p) = dat p.
Hypothesis Hinj : forall p q, In p So -> In q So -> valz (dat p) = valz (dat q) -> p = q.

Lemma tagged_perm :
  Permutation (b_tagged So' dat') (map (fun a => (sw (fst a), snd a)) (b_tagged So dat)).
Proof.
  unfold b_tagged. rewrite map_map. cbn [fst snd].
  eapply Permutation_trans; [apply Permutation_map, HPo|]. rewrite map_map.
  erewrite map_ext_in; [apply Permutation_refl|]. intros p Hp. cbn beta. rewrite (Hd p Hp). reflexivity.
Qed.
Lemma tagged_inj x y : In x (b_tagged So dat) -> In y (b_tagged So dat) -> snd x = snd y -> x = y.
Proof.
  unfold b_tagged. rewrite !in_map_iff. intros (p & <- & Hp) (q & <- & Hq) E. cbn [snd] in E.
  rewrite (Hinj p q Hp Hq E). reflexivity.
Qed.
Lemma tr_argmin_u : b_argmin So' dat' = option_map (fun a => (sw (fst a), snd a)) (b_argmin So dat).
Proof.
  unfold b_argmin.
  apply (arg_ext_perm_unique Z.ltb ltb_nb_trans ltb_trans Z.ltb_irrefl ltb_total sw); [exact tagged_inj|exact tagged_perm].
Qed.
Lemma tr_argmax_u : b_argmax So' dat' = option_map (fun a => (sw (fst a), snd a)) (b_argmax So dat).
Proof.
  unfold b_argmax.
  apply (arg_ext_perm_unique Z.gtb gtb_nb_trans gtb_trans gtb_irr gtb_total sw); [exact tagged_inj|exact tagged_perm].
Qed.
End BuildTrIdx.

Definition swap_idx (i : Z * Z) : Z * Z := (snd i, fst i).

Theorem row_transpose_idx_proof ny nx own own' det det' l :
  transposed_on_label ny nx own own' l ->
  (forall p q, In p (g_S (lab_pixels ny nx own l) (dataat own) (maskat own)) ->
               In q (g_S (lab_pixels ny nx own l) (dataat own) (maskat own)) ->
               dataat own p = dataat own q -> p = q) ->
  let r := mkrow ny nx own det l in
  let r' := mkrow nx ny own' det' l in
  r_minidx r' = option_map swap_idx (r_minidx r) /\ r_maxidx r' = option_map swap_idx (r_maxidx r) /\
  r_cminidx r' = option_map swap_idx (r_cminidx r) /\ r_cmaxidx r' = option_map swap_idx (r_cmaxidx r).
Proof.
  intros Ho Hinj r r'. subst r r'. rewrite !mkrow_is_build. unfold def_row, build.
  cbn [r_minidx r_maxidx r_cminidx r_cmaxidx].
  set (So := g_S (lab_pixels ny nx own l) (dataat own) (maskat own)) in *.
  set (So' := g_S (lab_pixels nx ny own' l) (dataat own') (maskat own')).
  assert (HP : Permutation So' (map sw So)) by apply (tr_S _ _ _ _ _ Ho).
  assert (Hd : forall p, In p So -> dataat own' (sw p) = dataat own p).
  { intros p Hp. unfold So, g_S in Hp. apply filter_In in Hp. destruct Hp as [Hp _].
    destruct (tr_vals _ _ _ _ _ Ho p Hp) as (H1 & _). exact H1. }
  assert (Hinj' : forall p q, In p So -> In q So -> valz (dataat own p) = valz (dataat own q) -> p = q).
  { intros p q Hp Hq E. apply Hinj; try assumption.
    apply g_S_in in Hp, Hq. destruct Hp as (_ & _ & v & Hv), Hq as (_ & _ & w & Hw).
    rewrite Hv, Hw in *. cbn in E. congruence. }
  rewrite (tr_argmin_u So So' _ _ HP Hd Hinj'), (tr_argmax_u So So' _ _ HP Hd Hinj').
  assert (HPL := tr_lab _ _ _ _ _ Ho).
  assert (Ey : b_y0 nx (lab_pixels nx ny own' l) = b_x0 nx (lab_pixels ny nx own l)).
  { unfold b_y0, b_x0. apply minl_perm. eapply Permutation_trans; [apply Permutation_map, HPL|].
    rewrite map_map. apply Permutation_refl. }
  assert (Ex : b_x0 ny (lab_pixels nx ny own' l) = b_y0 ny (lab_pixels ny nx own l)).
  { unfold b_y0, b_x0. apply minl_perm. eapply Permutation_trans; [apply Permutation_map, HPL|].
    rewrite map_map. apply Permutation_refl. }
  rewrite Ey, Ex.
  destruct (b_argmin So (dataat own)) as [[pm vm]|], (b_argmax So (dataat own)) as [[pM vM]|];
    cbn [option_map fst snd sw]; unfold swap_idx, o_add, o_rel, sw; cbn [fst snd]; repeat split; reflexivity.
Qed.
