From Coq Require Import List Arith ZArith Bool Lia.
From PV Require Import lib.Cases C07_Model.
Import ListNotations.

Lemma rows_map ny nx own det labels :
  catalog_rows ny nx own det labels =
  map (mkrow ny nx own (match det with None => own | Some d => d end)) labels.
Proof. reflexivity. Qed.
