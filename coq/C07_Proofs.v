(* C07 — proofs about the SourceCatalog row model (C07_Model).

   Layout
     1. list / sum toolbox
     2. the "definition" of a row: [build], computed from whole-image pixel SETS (the list
        [L] of pixels carrying the label in row-major order, the unmasked finite ones
        [g_S]) and pointwise array reads — no cutout, no bounding-box slicing, no total mask
     3. [mkrow_is_build]: the code-mirroring model (cutouts on the tight box, total mask,
        zeroed moment cutout) computes exactly that
     4. consequences: locality, relabelling, all-masked -> NaN, shift, transposition
     5. extrema, central moments, regularisation loop, label order *)
From Coq Require Import List Arith ZArith Bool Lia Permutation.
From PV Require Import lib.Cases C07_Model.
Import ListNotations.

(* ------------------------------------------------------------------ *)
(* 1. toolbox                                                          *)
(* ------------------------------------------------------------------ *)
Lemma filter_nil_all {A} (f : A -> bool) l :
  (forall x, In x l -> f x = false) -> filter f l = [].
Proof.
  induction l as [|a l IH]; intros H; [reflexivity|].
  cbn. rewrite (H a (or_introl eq_refl)). apply IH. intros x Hx. apply H. right; exact Hx.
Qed.

Lemma filter_flat_map {A B} (f : B -> bool) (g : A -> list B) l :
  filter f (flat_map g l) = flat_map (fun a => filter f (g a)) l.
Proof.
  induction l as [|a l IH]; [reflexivity|]. cbn. rewrite filter_app, IH. reflexivity.
Qed.

Lemma filter_map_comm {A B} (f : B -> bool) (g : A -> B) l :
  filter f (map g l) = map g (filter (fun a => f (g a)) l).
Proof.
  induction l as [|a l IH]; [reflexivity|]. cbn. destruct (f (g a)); cbn; rewrite IH; reflexivity.
Qed.

Lemma filter_filter {A} (f g : A -> bool) l :
  filter f (filter g l) = filter (fun x => g x && f x) l.
Proof.
  induction l as [|a l IH]; [reflexivity|]. cbn. destruct (g a); cbn; [destruct (f a)|]; rewrite IH; reflexivity.
Qed.

Lemma flat_map_nil_all {A B} (g : A -> list B) l :
  (forall a, In a l -> g a = []) -> flat_map g l = [].
Proof.
  induction l as [|a l IH]; intros H; [reflexivity|].
  cbn. rewrite (H a (or_introl eq_refl)). apply IH. intros x Hx. apply H. right; exact Hx.
Qed.

Lemma seq_split3 a b n : a <= b -> b <= n ->
  seq 0 n = seq 0 a ++ seq a (b - a) ++ seq b (n - b).
Proof.
  intros Hab Hbn.
  replace n with (a + ((b - a) + (n - b))) at 1 by lia.
  rewrite seq_app, seq_app. cbn [plus]. replace (a + (b - a)) with b by lia. reflexivity.
Qed.

Lemma flat_map_seq_restrict {B} (F : nat -> list B) a b n : a <= b -> b <= n ->
  (forall i, i < a \/ b <= i -> F i = []) ->
  flat_map F (seq 0 n) = flat_map F (seq a (b - a)).
Proof.
  intros Hab Hbn HF. rewrite (seq_split3 a b n Hab Hbn), !flat_map_app.
  rewrite (flat_map_nil_all F (seq 0 a)), (flat_map_nil_all F (seq b (n - b))).
  - rewrite app_nil_r. reflexivity.
  - intros i Hi. apply in_seq in Hi. apply HF. lia.
  - intros i Hi. apply in_seq in Hi. apply HF. lia.
Qed.

Lemma filter_seq_restrict (g : nat -> bool) a b n : a <= b -> b <= n ->
  (forall i, i < a \/ b <= i -> g i = false) ->
  filter g (seq 0 n) = filter g (seq a (b - a)).
Proof.
  intros Hab Hbn Hg. rewrite (seq_split3 a b n Hab Hbn), !filter_app.
  rewrite (filter_nil_all g (seq 0 a)), (filter_nil_all g (seq b (n - b))).
  - rewrite app_nil_r. reflexivity.
  - intros i Hi. apply in_seq in Hi. apply Hg. lia.
  - intros i Hi. apply in_seq in Hi. apply Hg. lia.
Qed.

Lemma in_coords_box y0 h x0 w p :
  In p (coords_box y0 h x0 w) <-> y0 <= fst p < y0 + h /\ x0 <= snd p < x0 + w.
Proof.
  unfold coords_box. rewrite in_flat_map. split.
  - intros (y & Hy & Hp). apply in_map_iff in Hp. destruct Hp as (x & <- & Hx).
    apply in_seq in Hy. apply in_seq in Hx. cbn. lia.
  - intros [Hy Hx]. exists (fst p). split; [apply in_seq; lia|].
    apply in_map_iff. exists (snd p). split; [destruct p; reflexivity|apply in_seq; lia].
Qed.

(* a predicate that is false outside a sub-box selects the same pixels, in the same
   (row-major) order, from the whole grid and from the sub-box *)
Lemma filter_box_restrict (f : pix -> bool) ny nx y0 y1 x0 x1 :
  y0 <= y1 -> y1 <= ny -> x0 <= x1 -> x1 <= nx ->
  (forall p, f p = true -> y0 <= fst p < y1 /\ x0 <= snd p < x1) ->
  filter f (coords_box 0 ny 0 nx) = filter f (coords_box y0 (y1 - y0) x0 (x1 - x0)).
Proof.
  intros Hy Hyn Hx Hxn Hf. unfold coords_box. rewrite !filter_flat_map.
  assert (Hfalse : forall y x, (y < y0 \/ y1 <= y) \/ (x < x0 \/ x1 <= x) -> f (y, x) = false).
  { intros y x Hout. destruct (f (y, x)) eqn:E; [|reflexivity].
    apply Hf in E. cbn in E. lia. }
  rewrite (flat_map_seq_restrict _ y0 y1 ny Hy Hyn).
  - apply flat_map_ext. intros y. rewrite !filter_map_comm. f_equal.
    apply filter_seq_restrict; [exact Hx|exact Hxn|]. intros x Hout. apply Hfalse. right; exact Hout.
  - intros y Hout. apply filter_nil_all. intros p Hp. apply in_map_iff in Hp.
    destruct Hp as (x & <- & _). apply Hfalse. left; exact Hout.
Qed.

Lemma minl_cons d a l : minl d (a :: l) = Nat.min a (minl d l).
Proof. reflexivity. Qed.
Lemma maxl_cons a l : maxl (a :: l) = Nat.max a (maxl l).
Proof. reflexivity. Qed.
Lemma minl_le d l y : In y l -> minl d l <= y.
Proof.
  induction l as [|a l IH]; intros H; [destruct H|]. rewrite minl_cons. destruct H as [->|H]; [lia|].
  specialize (IH H). lia.
Qed.
Lemma minl_le_default d l : minl d l <= d.
Proof. induction l as [|a l IH]; [cbn; lia|]. rewrite minl_cons. lia. Qed.
Lemma maxl_ge l y : In y l -> y <= maxl l.
Proof.
  induction l as [|a l IH]; intros H; [destruct H|]. rewrite maxl_cons. destruct H as [->|H]; [lia|].
  specialize (IH H). lia.
Qed.
Lemma maxl_bound l n : (forall y, In y l -> y <= n) -> maxl l <= n.
Proof.
  induction l as [|a l IH]; intros H; [cbn; lia|]. rewrite maxl_cons.
  assert (a <= n) by (apply H; left; reflexivity).
  assert (maxl l <= n) by (apply IH; intros y Hy; apply H; right; exact Hy). lia.
Qed.
Lemma minl_attained d l : l <> [] -> (forall y, In y l -> y <= d) -> In (minl d l) l.
Proof.
  induction l as [|a l IH]; intros Hne Hb; [congruence|]. rewrite minl_cons.
  destruct l as [|b l'].
  - cbn. left. assert (a <= d) by (apply Hb; left; reflexivity). lia.
  - assert (IH' : In (minl d (b :: l')) (b :: l')).
    { apply IH; [discriminate|]. intros y Hy. apply Hb. right; exact Hy. }
    destruct (Nat.le_ge_cases a (minl d (b :: l'))) as [H|H].
    + left. lia.
    + right. replace (Nat.min a (minl d (b :: l'))) with (minl d (b :: l')) by lia. exact IH'.
Qed.
Lemma maxl_attained l : l <> [] -> In (maxl l) l.
Proof.
  induction l as [|a l IH]; intros Hne; [congruence|]. rewrite maxl_cons.
  destruct l as [|b l'].
  - cbn. left. lia.
  - assert (IH' : In (maxl (b :: l')) (b :: l')) by (apply IH; discriminate).
    destruct (Nat.le_ge_cases (maxl (b :: l')) a) as [H|H].
    + left. lia.
    + right. replace (Nat.max a (maxl (b :: l'))) with (maxl (b :: l')) by lia. exact IH'.
Qed.

(* sums *)
Lemma zsum_cons x l : zsum (x :: l) = (x + zsum l)%Z.
Proof. reflexivity. Qed.
Lemma zsum_app a b : zsum (a ++ b) = (zsum a + zsum b)%Z.
Proof.
  induction a as [|x a IH]; [reflexivity|]. rewrite <- app_comm_cons, !zsum_cons, IH. ring.
Qed.

Lemma zsum_map_filter_zero {A} (t : A -> Z) (f : A -> bool) l :
  (forall x, In x l -> f x = false -> t x = 0%Z) ->
  zsum (map t l) = zsum (map t (filter f l)).
Proof.
  induction l as [|a l IH]; intros H; [reflexivity|].
  assert (IH' : zsum (map t l) = zsum (map t (filter f l))).
  { apply IH. intros x Hx. apply H. right; exact Hx. }
  cbn [map filter]. destruct (f a) eqn:E; cbn [map]; rewrite ?zsum_cons, IH'; [reflexivity|].
  rewrite (H a (or_introl eq_refl) E). reflexivity.
Qed.

Lemma zsum_perm l l' : Permutation l l' -> zsum l = zsum l'.
Proof. induction 1; rewrite ?zsum_cons in *; lia. Qed.

Lemma isnil_length {A} (l : list A) : isnil l = (length l =? 0).
Proof. destruct l; reflexivity. Qed.
Lemma isnil_map {A B} (f : A -> B) l : isnil (map f l) = isnil l.
Proof. destruct l; reflexivity. Qed.
Lemma isnil_true {A} (l : list A) : isnil l = true <-> l = [].
Proof. destruct l; cbn; split; congruence. Qed.

(* ------------------------------------------------------------------ *)
(* 2. the definition of a row on whole-image pixel sets                *)
(* ------------------------------------------------------------------ *)
(* unmasked and finite *)
Definition g_good (dat : pix -> option Z) (msk : pix -> bool) (p : pix) : bool :=
  negb (msk p) && negb (nonfinite (dat p)).
(* S_l = the pixels of L (those carrying the label) that are unmasked and finite *)
Definition g_S (L : list pix) dat msk : list pix := filter (g_good dat msk) L.
(* the clipped convolved value that enters the moments *)
Definition g_mv (cnv : pix -> option Z) (msk : pix -> bool) (p : pix) : Z :=
  match cnv p with None => 0 | Some v => if (v <? 0) || msk p then 0 else v end%Z.

Section Build.
Variables (l : Z) (ny nx : nat) (L Sd : list pix) (mv : pix -> Z).
Variables (So : list pix) (oy ox : nat) (dat err bkg : pix -> option Z) (he hb : bool).

Definition b_y0 := minl ny (map fst L).
Definition b_y1 := maxl (map S (map fst L)).
Definition b_x0 := minl nx (map snd L).
Definition b_x1 := maxl (map S (map snd L)).
Definition b_rel (p : pix) : Z * Z :=
  (Z.of_nat (fst p) - Z.of_nat b_y0, Z.of_nat (snd p) - Z.of_nat b_x0)%Z.
Definition b_moment (a b : nat) : Z :=
  zsum (map (fun p => zpow (fst (b_rel p)) a * mv p * zpow (snd (b_rel p)) b)%Z L).
Definition b_moments : list (list Z) :=
  map (fun a => map (fun b => b_moment a b) [0; 1; 2; 3]) [0; 1; 2; 3].
Definition b_m00 := b_moment 0 0.
Definition b_ccen : option ((Z * Z) * (Z * Z)) :=
  if (b_m00 =? 0)%Z then None else Some ((b_moment 0 1, b_m00), (b_moment 1 0, b_m00)).
Definition b_cen : option ((Z * Z) * (Z * Z)) :=
  match b_ccen with
  | None => None
  | Some ((xn, d), (yn, _)) => Some ((xn + Z.of_nat b_x0 * d, d), (yn + Z.of_nat b_y0 * d, d))%Z
  end.
Definition b_covnum : Z * Z * Z :=
  (b_moment 0 2 * b_m00 - b_moment 0 1 * b_moment 0 1,
   b_moment 1 1 * b_m00 - b_moment 1 0 * b_moment 0 1,
   b_moment 2 0 * b_m00 - b_moment 1 0 * b_moment 1 0)%Z.
Definition b_cov : option (Z * Z * Z) :=
  if (b_m00 =? 0)%Z then None
  else let '(a, b, c) := b_covnum in regularise reg_fuel (b_m00 * b_m00) (12 * a) (12 * b) (12 * c)%Z.
Definition b_covden : Z := (12 * b_m00 * b_m00)%Z.
Definition b_margin : bool :=
  let '(a, b, c) := b_covnum in
  let d2 := (b_m00 * b_m00)%Z in
  (d2 * d2 <? Z.abs (144 * (a * c - b * b) - d2 * d2) * 2 ^ 30)%Z.

Definition o_area (S : list pix) : option Z := if isnil S then None else Some (Z.of_nat (length S)).
Definition b_flux : option Z := if isnil So then None else Some (zsum (map (fun p => valz (dat p)) So)).
Definition b_fluxerr2 : option Z :=
  if he then (if isnil So then None else osum (map (fun p => sq (err p)) So)) else None.
Definition b_bkgsum : option Z :=
  if hb then (if isnil So then None else osum (map bkg So)) else None.
Definition b_bkgmean : option (Z * Z) :=
  match b_bkgsum with Some s => Some (s, Z.of_nat (length So)) | None => None end.
Definition b_tagged : list (pix * Z) := map (fun p => (p, valz (dat p))) So.
Definition b_argmin := arg_ext Z.ltb b_tagged.
Definition b_argmax := arg_ext Z.gtb b_tagged.
Definition o_rel (p : pix) : Z * Z := (Z.of_nat (fst p) - Z.of_nat oy, Z.of_nat (snd p) - Z.of_nat ox)%Z.
Definition o_add (i : Z * Z) : Z * Z := (fst i + Z.of_nat oy, snd i + Z.of_nat ox)%Z.

Definition build : row := {|
  r_label := l;
  r_bbox := (Z.of_nat b_x0, Z.of_nat b_x1 - 1, Z.of_nat b_y0, Z.of_nat b_y1 - 1)%Z;
  r_segment_area := Z.of_nat (length L);
  r_area := o_area Sd;
  r_moments := b_moments;
  r_cutout_centroid := b_ccen;
  r_centroid := b_cen;
  r_covariance := b_cov;
  r_cov_den := b_covden;
  r_cov_margin_ok := b_margin;
  r_flux := b_flux;
  r_fluxerr2 := b_fluxerr2;
  r_min := option_map snd b_argmin;
  r_max := option_map snd b_argmax;
  r_cminidx := option_map (fun a => o_rel (fst a)) b_argmin;
  r_cmaxidx := option_map (fun a => o_rel (fst a)) b_argmax;
  r_minidx := option_map o_add (option_map (fun a => o_rel (fst a)) b_argmin);
  r_maxidx := option_map o_add (option_map (fun a => o_rel (fst a)) b_argmax);
  r_bkg_sum := b_bkgsum;
  r_bkg_mean := b_bkgmean |}.
End Build.

(* the row of label [l]: [own] = the catalog's arrays, [det] = the arrays the delegated
   (detection catalog) quantities are read from *)
Definition def_row (ny nx : nat) (own det : inputs) (l : Z) : row :=
  let Ld := lab_pixels ny nx det l in
  let Lo := lab_pixels ny nx own l in
  build l ny nx Ld (g_S Ld (dataat det) (maskat det)) (g_mv (convat det) (maskat det))
        (g_S Lo (dataat own) (maskat own)) (minl ny (map fst Lo)) (minl nx (map snd Lo))
        (dataat own) (errat own) (bkgat own) (has_err own) (has_bkg own).

(* ------------------------------------------------------------------ *)
(* 3. the code-mirroring model computes the definition                 *)
(* ------------------------------------------------------------------ *)
Section ModelIsDef.
Variables (ny nx : nat) (I : inputs) (l : Z).

Lemma lab_in p :
  In p (lab_pixels ny nx I l) <-> fst p < ny /\ snd p < nx /\ haslab I l p = true.
Proof.
  unfold lab_pixels, grid. rewrite filter_In, in_coords_box. intuition lia.
Qed.

Lemma lab_bounds p : In p (lab_pixels ny nx I l) ->
  by0 ny nx I l <= fst p < by1 ny nx I l /\ bx0 ny nx I l <= snd p < bx1 ny nx I l.
Proof.
  intros Hp. unfold by0, by1, bx0, bx1, bbox.
  assert (H1 := minl_le ny (map fst (lab_pixels ny nx I l)) (fst p) (in_map fst _ _ Hp)).
  assert (H2 := minl_le nx (map snd (lab_pixels ny nx I l)) (snd p) (in_map snd _ _ Hp)).
  assert (H3 := maxl_ge (map S (map fst (lab_pixels ny nx I l))) (S (fst p)) (in_map S _ _ (in_map fst _ _ Hp))).
  assert (H4 := maxl_ge (map S (map snd (lab_pixels ny nx I l))) (S (snd p)) (in_map S _ _ (in_map snd _ _ Hp))).
  lia.
Qed.

Lemma box_in_grid : by1 ny nx I l <= ny /\ bx1 ny nx I l <= nx.
Proof.
  unfold by1, bx1, bbox. split; apply maxl_bound; intros y Hy;
    apply in_map_iff in Hy; destruct Hy as (y' & <- & Hy);
    apply in_map_iff in Hy; destruct Hy as (p & <- & Hp); apply lab_in in Hp; lia.
Qed.

Lemma cut_in_grid p : In p (cut ny nx I l) -> fst p < ny /\ snd p < nx.
Proof.
  unfold cut. rewrite in_coords_box. destruct box_in_grid. lia.
Qed.

(* the cutout contains every pixel of the label, in the row-major order of the image *)
Lemma cut_filter (f : pix -> bool) :
  (forall p, f p = true -> haslab I l p = true) ->
  filter f (cut ny nx I l) = filter f (grid ny nx).
Proof.
  intros Hf.
  set (f' := fun p : pix => f p && (fst p <? ny) && (snd p <? nx)).
  assert (E1 : filter f (cut ny nx I l) = filter f' (cut ny nx I l)).
  { apply filter_ext_in. intros p Hp. apply cut_in_grid in Hp. unfold f'.
    destruct Hp as [Hy Hx]. apply Nat.ltb_lt in Hy, Hx. rewrite Hy, Hx, !andb_true_r. reflexivity. }
  assert (E2 : filter f (grid ny nx) = filter f' (grid ny nx)).
  { apply filter_ext_in. intros p Hp. unfold grid in Hp. apply in_coords_box in Hp. unfold f'.
    destruct Hp as [Hy Hx]. assert (Hy' : fst p < ny) by lia. assert (Hx' : snd p < nx) by lia.
    apply Nat.ltb_lt in Hy', Hx'. rewrite Hy', Hx', !andb_true_r. reflexivity. }
  rewrite E1, E2.
  assert (Hin : forall p, f' p = true -> In p (lab_pixels ny nx I l)).
  { intros p Hp. unfold f' in Hp. apply andb_true_iff in Hp. destruct Hp as [Hp Hx].
    apply andb_true_iff in Hp. destruct Hp as [Hp Hy]. apply Nat.ltb_lt in Hx, Hy.
    apply lab_in. auto. }
  destruct (lab_pixels ny nx I l) as [|q L'] eqn:EL.
  - rewrite !filter_nil_all; [reflexivity| |].
    + intros p _. destruct (f' p) eqn:E; [|reflexivity]. destruct (Hin p E).
    + intros p _. destruct (f' p) eqn:E; [|reflexivity]. destruct (Hin p E).
  - assert (Hq : In q (lab_pixels ny nx I l)) by (rewrite EL; left; reflexivity).
    apply lab_bounds in Hq. destruct box_in_grid as [Hy1 Hx1].
    unfold grid, cut. symmetry. apply filter_box_restrict; try lia.
    intros p Hp. apply lab_bounds. rewrite EL. apply Hin. exact Hp.
Qed.

Lemma label_cut : filter (haslab I l) (cut ny nx I l) = lab_pixels ny nx I l.
Proof. unfold lab_pixels. apply cut_filter. auto. Qed.

Lemma unmasked_eq :
  unmasked ny nx I l = g_S (lab_pixels ny nx I l) (dataat I) (maskat I).
Proof.
  unfold unmasked, g_S, lab_pixels. rewrite filter_filter, cut_filter.
  - apply filter_ext. intros p. unfold totalmask, segmask, datamask, g_good.
    destruct (haslab I l p), (nonfinite (dataat I p)), (maskat I p); reflexivity.
  - intros p. unfold totalmask, segmask. destruct (haslab I l p); [reflexivity|]. cbn. discriminate.
Qed.

Lemma moment_eq a b :
  moment ny nx I l a b =
  b_moment ny nx (lab_pixels ny nx I l) (g_mv (convat I) (maskat I)) a b.
Proof.
  unfold moment, b_moment.
  rewrite (zsum_map_filter_zero _ (haslab I l)).
  - rewrite label_cut. f_equal. apply map_ext_in. intros p Hp. apply lab_in in Hp.
    destruct Hp as (_ & _ & Hl). unfold mval, g_mv, segmask. rewrite Hl. cbn [negb].
    destruct (convat I p) as [v|]; [rewrite orb_false_r|]; reflexivity.
  - intros p _ Hl. unfold mval, segmask. rewrite Hl. cbn [negb].
    destruct (convat I p) as [v|]; [|ring]. rewrite orb_true_r. cbn [orb]. ring.
Qed.

Lemma f_area : area ny nx I l = o_area (g_S (lab_pixels ny nx I l) (dataat I) (maskat I)).
Proof. unfold area, all_masked. rewrite unmasked_eq. reflexivity. Qed.

Lemma f_segarea : segment_area ny nx I l = Z.of_nat (length (lab_pixels ny nx I l)).
Proof. unfold segment_area. rewrite label_cut. reflexivity. Qed.
End ModelIsDef.

Theorem mkrow_is_build ny nx own det l : mkrow ny nx own det l = def_row ny nx own det l.
Proof.
  unfold mkrow, def_row, build.
  f_equal.
  - apply f_segarea.
  - apply f_area.
  - unfold moments, b_moments. cbn [map]. rewrite !moment_eq. reflexivity.
  - unfold cutout_centroid, b_ccen, m00, b_m00. rewrite !moment_eq. reflexivity.
  - unfold centroid, b_cen, cutout_centroid, b_ccen, m00, b_m00. rewrite !moment_eq. reflexivity.
  - unfold covariance, b_cov, cov_num, b_covnum, m00, b_m00. rewrite !moment_eq. reflexivity.
  - unfold cov_den, b_covden, m00, b_m00. rewrite !moment_eq. reflexivity.
  - unfold cov_margin_ok, b_margin, cov_num, b_covnum, m00, b_m00. rewrite !moment_eq. reflexivity.
  - unfold segment_flux, b_flux, all_masked, data_values. rewrite unmasked_eq.
    destruct (isnil _); [reflexivity|]. f_equal. ring.
  - unfold segment_fluxerr2, b_fluxerr2, all_masked. rewrite unmasked_eq. reflexivity.
  - unfold min_value, argmin, tagged. rewrite unmasked_eq. reflexivity.
  - unfold max_value, argmax, tagged. rewrite unmasked_eq. reflexivity.
  - unfold cutout_minval_index, argmin, tagged. rewrite unmasked_eq. reflexivity.
  - unfold cutout_maxval_index, argmax, tagged. rewrite unmasked_eq. reflexivity.
  - unfold minval_index, cutout_minval_index, argmin, tagged. rewrite unmasked_eq. reflexivity.
  - unfold maxval_index, cutout_maxval_index, argmax, tagged. rewrite unmasked_eq. reflexivity.
  - unfold background_sum, b_bkgsum, all_masked. rewrite unmasked_eq. reflexivity.
  - unfold background_mean, b_bkgmean, background_sum, b_bkgsum, all_masked. rewrite unmasked_eq. reflexivity.
Qed.
