(* C12L — proofs about C12L_Model.v (the linear part of PSF fitting).  All over Q; the
   least-squares theory is C20H_Proofs' (imported). *)
From Coq Require Import List ZArith Bool QArith Qround Lia Lqa Permutation.
From PV Require Import lib.Cases lib.Conn C20_Model C20H_Model C20H_Proofs C12_Model C12_Proofs C12_ProofsB C12L_Model.
Import ListNotations.
Local Open Scope Q_scope.

(* ================================================================== *)
(* sums                                                                *)
(* ================================================================== *)
Lemma sumn_split a b f : sumn (a + b) f == sumn a f + sumn b (fun i => f (a + i)%nat).
Proof.
  induction b as [|b IH].
  - rewrite Nat.add_0_r, (sumn_O (fun i => f (a + i)%nat)). ring.
  - rewrite Nat.add_succ_r, !sumn_S, IH. ring.
Qed.
Lemma sumn_le n f g : (forall i, (i < n)%nat -> f i <= g i) -> sumn n f <= sumn n g.
Proof.
  induction n as [|n IH]; intros H; [rewrite !sumn_O; apply Qle_refl|].
  rewrite !sumn_S. assert (sumn n f <= sumn n g) by (apply IH; intros; auto with arith).
  assert (f n <= g n) by (apply H; auto with arith). lra.
Qed.
Lemma sumn_const n c : sumn n (fun _ => c) == inject_Z (Z.of_nat n) * c.
Proof.
  induction n as [|n IH]; [rewrite sumn_O; simpl; ring|].
  rewrite sumn_S, IH, Nat2Z.inj_succ. unfold Z.succ. rewrite inject_Z_plus. ring.
Qed.

(* ================================================================== *)
(* the normal equations depend on the design / data only on the index range *)
(* ================================================================== *)
Section Ext.
Variables (n k : nat).
Lemma dotr_extA A A' c i : (forall j, (j < k)%nat -> A i j == A' i j) -> dotr k A c i == dotr k A' c i.
Proof. intros H. apply sumn_ext. intros j Hj. rewrite (H j Hj). reflexivity. Qed.
Lemma grad_ext_all A A' y y' c c' j :
  (forall i j, (i < n)%nat -> (j < k)%nat -> A i j == A' i j) ->
  (forall i, (i < n)%nat -> y i == y' i) -> (forall j, (j < k)%nat -> c j == c' j) -> (j < k)%nat ->
  grad n k A y c j == grad n k A' y' c' j.
Proof.
  intros HA Hy Hc Hj. apply sumn_ext. intros i Hi. unfold resid.
  rewrite (HA i j Hi Hj), (Hy i Hi), (dotr_extA A A' c i (fun j Hj => HA i j Hi Hj)), (dotr_ext k A' c c' i Hc).
  reflexivity.
Qed.
Lemma normal_eq_ext A A' y y' c c' :
  (forall i j, (i < n)%nat -> (j < k)%nat -> A i j == A' i j) ->
  (forall i, (i < n)%nat -> y i == y' i) -> (forall j, (j < k)%nat -> c j == c' j) ->
  normal_eq n k A y c -> normal_eq n k A' y' c'.
Proof.
  intros HA Hy Hc H j Hj. rewrite <- (grad_ext_all A A' y y' c c' j HA Hy Hc Hj). apply H, Hj.
Qed.
End Ext.

(* ================================================================== *)
(* (b) SCALING                                                         *)
(* ================================================================== *)
Section Scaling.
Variables (n k : nat) (A : nat -> nat -> Q) (y : nat -> Q).

Lemma grad_scale t c j : grad n k A (fun i => t * y i) (fun j => t * c j) j == t * grad n k A y c j.
Proof.
  unfold grad. rewrite <- sumn_scal. apply sumn_ext. intros i _. unfold resid.
  rewrite (dotr_scal k A t c i). ring.
Qed.
(* the solution for t * data is t * (solution for data): every t, including 0 and negative *)
Lemma normal_eq_scale t c : normal_eq n k A y c -> normal_eq n k A (fun i => t * y i) (fun j => t * c j).
Proof. intros H j Hj. rewrite grad_scale, (H j Hj). ring. Qed.
Lemma normal_eq_unscale t c : ~ t == 0 ->
  normal_eq n k A (fun i => t * y i) c -> normal_eq n k A y (fun j => c j / t).
Proof.
  intros Ht H j Hj.
  assert (E : grad n k A y (fun j => c j / t) j == (1 / t) * grad n k A (fun i => t * y i) c j).
  { unfold grad. rewrite <- sumn_scal. apply sumn_ext. intros i _. unfold resid.
    rewrite (dotr_ext k A (fun j => c j / t) (fun j => (1 / t) * c j) i) by (intros; field; exact Ht).
    rewrite (dotr_scal k A (1 / t) c i). field. exact Ht. }
  rewrite E, (H j Hj). ring.
Qed.
Lemma minimiser_scale t c : minimiser n k A y c -> minimiser n k A (fun i => t * y i) (fun j => t * c j).
Proof. intros H. apply minimiser_iff_normal_eq, normal_eq_scale, minimiser_iff_normal_eq, H. Qed.
Lemma rss_scale t c : rss n k A (fun i => t * y i) (fun j => t * c j) == t * t * rss n k A y c.
Proof.
  unfold rss. rewrite <- sumn_scal. apply sumn_ext. intros i _. unfold resid.
  rewrite (dotr_scal k A t c i). ring.
Qed.
End Scaling.

(* ================================================================== *)
(* (a) row weights, deleted rows                                       *)
(* ================================================================== *)
Section Weights.
Variables (n k : nat) (A : nat -> nat -> Q) (y : nat -> Q) (w : nat -> Q).
Lemma dotr_wA c i : dotr k (wA w A) c i == w i * dotr k A c i.
Proof. unfold dotr, wA. rewrite <- sumn_scal. apply sumn_ext. intros; ring. Qed.
(* exact data stay exact under ANY row weights (positive or not) *)
Lemma exact_form_weighted cs : exact_form n k A y cs -> exact_form n k (wA w A) (wy w y) cs.
Proof. intros H i Hi. unfold wy. rewrite dotr_wA, (H i Hi). reflexivity. Qed.
(* the weighted problem is the problem of the weighted rows: its RSS is sum w_i^2 r_i^2 *)
Lemma rss_weighted c : rss n k (wA w A) (wy w y) c == sumn n (fun i => w i * w i * (resid k A y c i * resid k A y c i)).
Proof. apply sumn_ext. intros i _. unfold resid, wy. rewrite dotr_wA. ring. Qed.
End Weights.

Lemma select_length {T U} (keep : list bool) : forall (l : list T) (m : list U),
  length l = length m -> length (select keep l) = length (select keep m).
Proof.
  induction keep as [|b keep IH]; intros [|a l] [|a' m] H; cbn in *; try lia; try reflexivity.
  destruct b; cbn; [f_equal|]; apply IH; lia.
Qed.

(* exact_form through Forall2 (row-wise), to survive the deletion of rows *)
Definition exact_rows (k : nat) (cs : nat -> Q) (rows : list (list Q)) (ys : list Q) : Prop :=
  Forall2 (fun r yv => yv == sumn k (fun j => nth j r 0 * cs j)) rows ys.
Lemma exact_rows_of_form k cs : forall rows ys, length rows = length ys ->
  exact_form (length rows) k (Aof rows) (vof ys) cs -> exact_rows k cs rows ys.
Proof.
  induction rows as [|r rows IH]; intros [|yv ys] Hl H; cbn in Hl; try lia; constructor.
  - apply (H 0%nat). cbn. lia.
  - apply IH; [lia|]. intros i Hi. apply (H (S i)). cbn. lia.
Qed.
Lemma exact_form_of_rows k cs rows ys :
  exact_rows k cs rows ys -> exact_form (length rows) k (Aof rows) (vof ys) cs.
Proof.
  induction 1 as [|r yv rows ys Hr _ IH]; intros i Hi; cbn in Hi; [lia|].
  destruct i as [|i]; [exact Hr|]. apply IH. lia.
Qed.
Lemma exact_rows_select k cs keep : forall rows ys,
  exact_rows k cs rows ys -> exact_rows k cs (select keep rows) (select keep ys).
Proof.
  induction keep as [|b keep IH]; intros rows ys H; [destruct rows; constructor|].
  destruct H as [|r yv rows ys Hr H]; [constructor|]. cbn. destruct b; [constructor; [exact Hr|]|]; apply IH, H.
Qed.
(* masking pixels = deleting rows: exact data stay exact, so the generating coefficients still satisfy
   the normal equations of the smaller problem *)
Lemma exact_form_select k cs keep rows ys : length rows = length ys ->
  exact_form (length rows) k (Aof rows) (vof ys) cs ->
  exact_form (length (select keep rows)) k (Aof (select keep rows)) (vof (select keep ys)) cs.
Proof. intros Hl H. apply exact_form_of_rows, exact_rows_select, exact_rows_of_form; assumption. Qed.

(* ================================================================== *)
(* (a) THE RANK CONDITION                                               *)
(* ================================================================== *)
Section Rank.
Variables (n k : nat) (A : nat -> nat -> Q) (y : nat -> Q).
(* the columns of the design are linearly independent on the rows *)
Definition independent_columns : Prop :=
  forall d, (forall i, (i < n)%nat -> dotr k A d i == 0) -> forall j, (j < k)%nat -> d j == 0.

(* two solutions of the normal equations differ by a vector of the kernel of A *)
Lemma solutions_differ_by_kernel c c' : normal_eq n k A y c -> normal_eq n k A y c' ->
  forall i, (i < n)%nat -> dotr k A (fun j => c' j - c j) i == 0.
Proof.
  intros H H'. set (d := fun j => c' j - c j).
  assert (E1 := rss_expand n k A y c d).
  assert (E2 := rss_expand n k A y c' (fun j => - d j)).
  rewrite (rss_ext n k A y (fun j => c j + d j) c') in E1 by (intros; unfold d; ring).
  rewrite (rss_ext n k A y (fun j => c' j + - d j) c) in E2 by (intros; unfold d; ring).
  rewrite (sumn_zero k (fun j => d j * grad n k A y c j)) in E1 by (intros j Hj; rewrite (H j Hj); ring).
  rewrite (sumn_zero k (fun j => - d j * grad n k A y c' j)) in E2 by (intros j Hj; rewrite (H' j Hj); ring).
  rewrite (sumn_ext n (fun i => dotr k A (fun j => - d j) i * dotr k A (fun j => - d j) i)
                      (fun i => dotr k A d i * dotr k A d i)) in E2.
  2:{ intros i _. rewrite (dotr_ext k A (fun j => - d j) (fun j => (- (1)) * d j) i) by (intros; ring).
      rewrite (dotr_scal k A (- (1)) d i). ring. }
  assert (Hz : sumn n (fun i => dotr k A d i * dotr k A d i) == 0) by lra.
  exact (sumn_sq_zero n (fun i => dotr k A d i) Hz).
Qed.
(* RANK CONDITION => at most one solution (hence at most one minimiser) *)
Lemma independent_columns_unique c c' : independent_columns ->
  normal_eq n k A y c -> normal_eq n k A y c' -> forall j, (j < k)%nat -> c j == c' j.
Proof.
  intros Hind H H' j Hj.
  assert (E := Hind _ (solutions_differ_by_kernel c c' H H') j Hj). cbv beta in E. lra.
Qed.
(* rank deficiency => never unique: every solution can be moved along the kernel *)
Lemma dependent_columns_not_unique c d : (forall i, (i < n)%nat -> dotr k A d i == 0) ->
  normal_eq n k A y c -> normal_eq n k A y (fun j => c j + d j).
Proof.
  intros Hd H j Hj. rewrite <- (H j Hj). apply sumn_ext. intros i Hi. unfold resid.
  rewrite (dotr_add k A c d i), (Hd i Hi). ring.
Qed.
Lemma dependent_columns_same_rss c d : (forall i, (i < n)%nat -> dotr k A d i == 0) ->
  rss n k A y (fun j => c j + d j) == rss n k A y c.
Proof.
  intros Hd. apply sumn_ext. intros i Hi. unfold resid. rewrite (dotr_add k A c d i), (Hd i Hi). ring.
Qed.
End Rank.

(* two sources at identical positions: columns 0 and 1 of the design are equal *)
Definition swap01 (t : Q) (j : nat) : Q := match j with 0%nat => t | 1%nat => - t | _ => 0 end.
Lemma identical_columns_kernel n k A t : (2 <= k)%nat -> (forall i, (i < n)%nat -> A i 0%nat == A i 1%nat) ->
  forall i, (i < n)%nat -> dotr k A (swap01 t) i == 0.
Proof.
  intros Hk H i Hi. unfold dotr.
  rewrite (sumn_ext k _ (fun j => delta 0 j * (A i 0%nat * t) + (- (1)) * (delta 1 j * (A i 1%nat * t)))).
  2:{ intros j _. destruct j as [|[|j]]; unfold delta, swap01; simpl; ring. }
  rewrite sumn_add, sumn_scal, !sumn_delta by lia. rewrite (H i Hi). ring.
Qed.
Lemma identical_positions_fluxes_not_unique n k A y c t : (2 <= k)%nat ->
  (forall i, (i < n)%nat -> A i 0%nat == A i 1%nat) ->
  normal_eq n k A y c -> normal_eq n k A y (fun j => c j + swap01 t j).
Proof. intros Hk H. apply dependent_columns_not_unique, identical_columns_kernel; assumption. Qed.

(* a single source with a non-zero column: the rank condition holds, and the flux is rhs / gram *)
Lemma single_source_independent n A : (exists i, (i < n)%nat /\ ~ A i 0%nat == 0) -> independent_columns n 1 A.
Proof.
  intros (i & Hi & Hne) d Hd j Hj. assert (j = 0)%nat by lia. subst j.
  specialize (Hd i Hi). unfold dotr in Hd. rewrite sumn_S, sumn_O in Hd.
  assert (E : A i 0%nat * d 0%nat == 0) by lra.
  destruct (Qmult_integral _ _ E); [contradiction|assumption].
Qed.
Lemma single_source_gram_pos n A : (exists i, (i < n)%nat /\ ~ A i 0%nat == 0) -> 0 < gram n A 0 0.
Proof.
  intros (i & Hi & Hne).
  assert (H0 : 0 <= gram n A 0 0) by (apply sumn_nonneg; intros; apply sq_nonneg).
  destruct (Qle_lt_or_eq _ _ H0) as [|E]; [assumption|]. exfalso. apply Hne.
  symmetry in E. exact (sumn_sq_zero n (fun i => A i 0%nat) E i Hi).
Qed.
Lemma single_source_flux n A y c : (exists i, (i < n)%nat /\ ~ A i 0%nat == 0) ->
  (normal_eq n 1 A y c <-> c 0%nat == rhs n A y 0 / gram n A 0 0).
Proof.
  intros Hne. assert (Hg := single_source_gram_pos n A Hne).
  assert (E : grad n 1 A y c 0 == gram n A 0 0 * c 0%nat - rhs n A y 0).
  { rewrite grad_gram, sumn_S, sumn_O. ring. }
  split.
  - intros H. specialize (H 0%nat (Nat.lt_0_1)). rewrite E in H. field_simplify_eq; lra.
  - intros H j Hj. assert (j = 0)%nat by lia. subst j. rewrite E, H. field. lra.
Qed.

(* ================================================================== *)
(* (c) GROUP INDEPENDENCE: mutually dark blocks                        *)
(* ================================================================== *)
Section Blocks.
Variables (n1 n2 k1 k2 : nat) (A : nat -> nat -> Q) (y : nat -> Q).
Hypothesis Hdark : mutually_dark n1 (n1 + n2) k1 (k1 + k2) A.

Lemma dotr_block1 c i : (i < n1)%nat -> dotr (k1 + k2) A c i == dotr k1 A c i.
Proof.
  intros Hi. unfold dotr. rewrite sumn_split.
  rewrite (sumn_zero k2 (fun j => A i (k1 + j)%nat * c (k1 + j)%nat)); [ring|].
  intros j Hj. rewrite (proj1 Hdark i (k1 + j)%nat Hi) by lia. ring.
Qed.
Lemma dotr_block2 c i : (i < n2)%nat ->
  dotr (k1 + k2) A c (n1 + i)%nat == dotr k2 (shiftA n1 k1 A) (shiftv k1 c) i.
Proof.
  intros Hi. unfold dotr. rewrite sumn_split.
  rewrite (sumn_zero k1 (fun j => A (n1 + i)%nat j * c j)); [unfold shiftA, shiftv; ring|].
  intros j Hj. rewrite (proj2 Hdark (n1 + i)%nat j) by lia. ring.
Qed.
Lemma grad_block1 c j : (j < k1)%nat -> grad (n1 + n2) (k1 + k2) A y c j == grad n1 k1 A y c j.
Proof.
  intros Hj. unfold grad. rewrite sumn_split.
  rewrite (sumn_zero n2 (fun i => A (n1 + i)%nat j * resid (k1 + k2) A y c (n1 + i)%nat)).
  2:{ intros i Hi. rewrite (proj2 Hdark (n1 + i)%nat j) by lia. ring. }
  rewrite (sumn_ext n1 _ (fun i => A i j * resid k1 A y c i)); [ring|].
  intros i Hi. unfold resid. rewrite (dotr_block1 c i Hi). reflexivity.
Qed.
Lemma grad_block2 c j : (j < k2)%nat ->
  grad (n1 + n2) (k1 + k2) A y c (k1 + j)%nat == grad n2 k2 (shiftA n1 k1 A) (shiftv n1 y) (shiftv k1 c) j.
Proof.
  intros Hj. unfold grad. rewrite sumn_split.
  rewrite (sumn_zero n1 (fun i => A i (k1 + j)%nat * resid (k1 + k2) A y c i)).
  2:{ intros i Hi. rewrite (proj1 Hdark i (k1 + j)%nat Hi) by lia. ring. }
  rewrite (sumn_ext n2 _ (fun i => shiftA n1 k1 A i j * resid k2 (shiftA n1 k1 A) (shiftv n1 y) (shiftv k1 c) i)); [ring|].
  intros i Hi. unfold resid. rewrite (dotr_block2 c i Hi). unfold shiftA, shiftv. reflexivity.
Qed.
(* the joint fit of two mutually dark sets of sources IS the two separate fits *)
Lemma normal_eq_blocks c :
  normal_eq (n1 + n2) (k1 + k2) A y c <->
  normal_eq n1 k1 A y c /\ normal_eq n2 k2 (shiftA n1 k1 A) (shiftv n1 y) (shiftv k1 c).
Proof.
  split.
  - intros H. split; intros j Hj.
    + rewrite <- (grad_block1 c j Hj). apply H. lia.
    + rewrite <- (grad_block2 c j Hj). apply H. lia.
  - intros [H1 H2] j Hj. destruct (Nat.lt_ge_cases j k1) as [Hlt|Hge].
    + rewrite (grad_block1 c j Hlt). apply H1, Hlt.
    + replace j with (k1 + (j - k1))%nat by lia. rewrite grad_block2 by lia. apply H2. lia.
Qed.
Lemma rss_blocks c :
  rss (n1 + n2) (k1 + k2) A y c == rss n1 k1 A y c + rss n2 k2 (shiftA n1 k1 A) (shiftv n1 y) (shiftv k1 c).
Proof.
  unfold rss. rewrite sumn_split.
  rewrite (sumn_ext n1 _ (fun i => resid k1 A y c i * resid k1 A y c i)).
  2:{ intros i Hi. unfold resid. rewrite (dotr_block1 c i Hi). reflexivity. }
  rewrite (sumn_ext n2 (fun i => resid (k1 + k2) A y c (n1 + i)%nat * resid (k1 + k2) A y c (n1 + i)%nat)
                       (fun i => resid k2 (shiftA n1 k1 A) (shiftv n1 y) (shiftv k1 c) i
                                 * resid k2 (shiftA n1 k1 A) (shiftv n1 y) (shiftv k1 c) i)).
  2:{ intros i Hi. unfold resid. rewrite (dotr_block2 c i Hi). unfold shiftv. reflexivity. }
  reflexivity.
Qed.
End Blocks.

(* ================================================================== *)
(* residual 0 => every parameter's gradient vanishes                   *)
(* ================================================================== *)
(* linearised model, ANY Jacobian (positions, shape parameters, fluxes ...) *)
Lemma zero_residual_zero_gradient n (J : nat -> nat -> Q) (r : nat -> Q) j :
  (forall i, (i < n)%nat -> r i == 0) -> jgrad n J r j == 0.
Proof. intros H. apply sumn_zero. intros i Hi. rewrite (H i Hi). ring. Qed.
(* ANY parametrisation (no differentiability): a parameter with residual 0 is a global minimiser *)
Lemma prss_nonneg {P} n (m : P -> nat -> Q) y theta : 0 <= prss n m y theta.
Proof. apply sumn_nonneg. intros; apply sq_nonneg. Qed.
Lemma zero_residual_global_minimiser {P} n (m : P -> nat -> Q) y (truth : P) :
  (forall i, (i < n)%nat -> m truth i == y i) ->
  prss n m y truth == 0 /\ forall theta, prss n m y truth <= prss n m y theta.
Proof.
  intros H.
  assert (E : prss n m y truth == 0) by (apply sumn_zero; intros i Hi; rewrite (H i Hi); ring).
  split; [exact E|]. intros theta. rewrite E. apply prss_nonneg.
Qed.
(* ... and RSS is quadratically flat there: if the model moves by at most L*h in every pixel, RSS moves
   by at most n L^2 h^2, so every difference quotient (RSS(theta) - RSS(truth)) / h is at most n L^2 |h| *)
Lemma zero_residual_quadratic_flatness {P} n (m : P -> nat -> Q) y (truth theta : P) (L h : Q) :
  (forall i, (i < n)%nat -> m truth i == y i) ->
  (forall i, (i < n)%nat -> - (L * h) <= m theta i - m truth i <= L * h) ->
  prss n m y theta - prss n m y truth <= inject_Z (Z.of_nat n) * (L * h * (L * h)).
Proof.
  intros H HL. destruct (zero_residual_global_minimiser n m y truth H) as [E _]. rewrite E.
  rewrite <- sumn_const. unfold prss.
  assert (Hle : sumn n (fun i => (m theta i - y i) * (m theta i - y i)) <= sumn n (fun _ => L * h * (L * h))).
  { apply sumn_le. intros i Hi. specialize (HL i Hi). rewrite <- (H i Hi). nra. }
  lra.
Qed.

(* ================================================================== *)
(* the model: rows of a group                                          *)
(* ================================================================== *)
Lemma nth_map_in {T U} (f : T -> U) l i d d' : (i < length l)%nat -> nth i (map f l) d = f (nth i l d').
Proof. intros Hi. rewrite (nth_indep _ d (f d')) by (rewrite map_length; exact Hi). apply map_nth. Qed.

Section GroupProofs.
Variables (dataQ : pix -> Q) (errQ : option (pix -> Q)) (psf : Z -> pix -> Q) (bkgQ : Z -> Q).
Notation wgt := (wgt errQ).
Notation design_of := (design_of errQ psf).
Notation dvec_of := (dvec_of dataQ errQ bkgQ).

Lemma design_length ids rs : length (design_of ids rs) = length rs.
Proof. apply map_length. Qed.
Lemma dvec_length rs : length (dvec_of rs) = length rs.
Proof. apply map_length. Qed.
Lemma design_entry ids rs i j : (i < length rs)%nat -> (j < length ids)%nat ->
  Aof (design_of ids rs) i j = wgt (snd (nth i rs (0%Z, (0%Z, 0%Z)))) * psf (nth j ids 0%Z) (snd (nth i rs (0%Z, (0%Z, 0%Z)))).
Proof.
  intros Hi Hj. unfold Aof, C12L_Model.design_of.
  rewrite (nth_map_in _ rs i [] (0%Z, (0%Z, 0%Z)) Hi). unfold drow.
  rewrite (nth_map_in _ ids j 0 0%Z Hj). reflexivity.
Qed.
Lemma dvec_entry rs i : (i < length rs)%nat ->
  vof (dvec_of rs) i = dval dataQ errQ bkgQ (nth i rs (0%Z, (0%Z, 0%Z))).
Proof. intros Hi. unfold vof, C12L_Model.dvec_of. apply nth_map_in, Hi. Qed.

(* (a) + (d): a group whose background-subtracted data are exactly its own light *)
Lemma rendered_rows_exact_form ids rs fstar :
  own_light_only dataQ psf bkgQ ids rs fstar ->
  exact_form (length (design_of ids rs)) (length ids) (Aof (design_of ids rs)) (vof (dvec_of rs)) fstar.
Proof.
  intros H i Hi. rewrite design_length in Hi.
  rewrite (dvec_entry rs i Hi). unfold dval.
  rewrite (H (nth i rs (0%Z, (0%Z, 0%Z)))) by (apply nth_In, Hi).
  unfold dotr. rewrite <- sumn_scal. apply sumn_ext. intros j Hj.
  rewrite (design_entry ids rs i j Hi Hj). ring.
Qed.
End GroupProofs.

(* (b) at the level of the model: t * data with t * local_bkg gives t * (data vector), same design;
   a constant b added to the image and to the local backgrounds changes nothing *)
Lemma dvec_scaled dataQ errQ bkgQ t rs i : (i < length rs)%nat ->
  vof (dvec_of (fun p => t * dataQ p) errQ (fun s => t * bkgQ s) rs) i == t * vof (dvec_of dataQ errQ bkgQ rs) i.
Proof. intros Hi. rewrite !dvec_entry by exact Hi. unfold dval. ring. Qed.
Lemma dvec_background_shift dataQ errQ bkgQ b rs :
  Forall2 Qeq (dvec_of (fun p => dataQ p + b) errQ (fun s => bkgQ s + b) rs) (dvec_of dataQ errQ bkgQ rs).
Proof.
  unfold dvec_of. induction rs as [|r rs IH]; cbn; constructor; [unfold dval; ring|exact IH].
Qed.
Lemma Forall2_Qeq_vof a b : Forall2 Qeq a b -> forall i, vof a i == vof b i.
Proof.
  induction 1 as [|x y' a b Hxy _ IH]; intros i; [destruct i; reflexivity|].
  destruct i as [|i]; [exact Hxy|apply IH].
Qed.

(* ---- fit_data / rows of two groups put together ---- *)
Section Merge.
Variables (ny nx fy fx sc : Z) (msk : option (list bool)).
Notation FD := (fit_data ny nx fy fx sc msk).
Lemma fit_data_app g1 : forall g2 fd1 fd2, FD g1 = inr fd1 -> FD g2 = inr fd2 -> FD (g1 ++ g2) = inr (fd1 ++ fd2).
Proof.
  induction g1 as [|s g1 IH]; intros g2 fd1 fd2 H1 H2; cbn in *.
  - injection H1 as <-. exact H2.
  - destruct (fit_data1 ny nx fy fx sc msk s) as [e|d]; [discriminate|].
    destruct (FD g1) as [e|ds] eqn:E; [discriminate|]. injection H1 as <-.
    rewrite (IH g2 ds fd2 eq_refl H2). reflexivity.
Qed.
Lemma fit_data_len g : forall fd, FD g = inr fd -> length fd = length g.
Proof.
  induction g as [|s g IH]; intros fd H; cbn in H.
  - injection H as <-. reflexivity.
  - destruct (fit_data1 ny nx fy fx sc msk s) as [e|d]; [discriminate|].
    destruct (FD g) as [e|ds]; [discriminate|]. injection H as <-. cbn. f_equal. apply IH. reflexivity.
Qed.
Lemma grows_app g1 g2 fd1 fd2 : length fd1 = length g1 ->
  grows (g1 ++ g2) (fd1 ++ fd2) = grows g1 fd1 ++ grows g2 fd2.
Proof.
  intros Hl. unfold grows. rewrite combine_app by (symmetry; exact Hl). apply flat_map_app.
Qed.
Lemma group_rows_app g1 g2 rs1 rs2 :
  group_rows ny nx fy fx sc msk g1 = Some rs1 -> group_rows ny nx fy fx sc msk g2 = Some rs2 ->
  group_rows ny nx fy fx sc msk (g1 ++ g2) = Some (rs1 ++ rs2).
Proof.
  unfold group_rows. destruct (FD g1) as [e|fd1] eqn:E1; [discriminate|].
  destruct (FD g2) as [e|fd2] eqn:E2; [discriminate|]. intros [= <-] [= <-].
  rewrite (fit_data_app g1 g2 fd1 fd2 E1 E2), grows_app by (apply fit_data_len, E1). reflexivity.
Qed.
End Merge.

(* (c) at the level of the model: two groups that are dark on each other's rows *)
Section MergeDesign.
Variables (dataQ : pix -> Q) (errQ : option (pix -> Q)) (psf : Z -> pix -> Q) (bkgQ : Z -> Q).
Variables (ids1 ids2 : list Z) (rs1 rs2 : list (Z * pix)).
Notation D := (design_of errQ psf).
Notation V := (dvec_of dataQ errQ bkgQ).
Notation r0 := (0%Z, (0%Z, 0%Z)).
Hypothesis dark12 : forall r id, In r rs1 -> In id ids2 -> psf id (snd r) == 0.
Hypothesis dark21 : forall r id, In r rs2 -> In id ids1 -> psf id (snd r) == 0.
Notation n1 := (length rs1). Notation n2 := (length rs2).
Notation k1 := (length ids1). Notation k2 := (length ids2).
Notation Aj := (Aof (D (ids1 ++ ids2) (rs1 ++ rs2))).

Lemma merged_entry i j : (i < n1 + n2)%nat -> (j < k1 + k2)%nat ->
  Aj i j = wgt errQ (snd (nth i (rs1 ++ rs2) r0)) * psf (nth j (ids1 ++ ids2) 0%Z) (snd (nth i (rs1 ++ rs2) r0)).
Proof. intros Hi Hj. apply design_entry; rewrite app_length; assumption. Qed.
Lemma merged_dark : mutually_dark n1 (n1 + n2) k1 (k1 + k2) Aj.
Proof.
  split; intros i j Hi Hj.
  - rewrite merged_entry by lia. rewrite app_nth1 by lia. rewrite (app_nth2 ids1) by lia.
    rewrite dark12; [ring|apply nth_In; lia|apply nth_In; lia].
  - rewrite merged_entry by lia. rewrite (app_nth2 rs1) by lia. rewrite (app_nth1 ids1) by lia.
    rewrite dark21; [ring|apply nth_In; lia|apply nth_In; lia].
Qed.
Lemma merged_block1 i j : (i < n1)%nat -> (j < k1)%nat -> Aj i j == Aof (D ids1 rs1) i j.
Proof.
  intros Hi Hj. rewrite merged_entry, design_entry by lia. rewrite !app_nth1 by lia. reflexivity.
Qed.
Lemma merged_block2 i j : (i < n2)%nat -> (j < k2)%nat -> shiftA n1 k1 Aj i j == Aof (D ids2 rs2) i j.
Proof.
  intros Hi Hj. unfold shiftA. rewrite merged_entry, design_entry by lia. rewrite !app_nth2 by lia.
  replace (n1 + i - n1)%nat with i by lia. replace (k1 + j - k1)%nat with j by lia. reflexivity.
Qed.
Lemma merged_data1 i : (i < n1)%nat -> vof (V (rs1 ++ rs2)) i == vof (V rs1) i.
Proof. intros Hi. rewrite !dvec_entry by (try rewrite app_length; lia). rewrite app_nth1 by lia. reflexivity. Qed.
Lemma merged_data2 i : (i < n2)%nat -> shiftv n1 (vof (V (rs1 ++ rs2))) i == vof (V rs2) i.
Proof.
  intros Hi. unfold shiftv. rewrite !dvec_entry by (try rewrite app_length; lia). rewrite app_nth2 by lia.
  replace (n1 + i - n1)%nat with i by lia. reflexivity.
Qed.

(* fitted together or separately: the same fluxes *)
Lemma merged_groups_fit_separately c :
  normal_eq (length (D (ids1 ++ ids2) (rs1 ++ rs2))) (length (ids1 ++ ids2)) Aj (vof (V (rs1 ++ rs2))) c <->
  normal_eq (length (D ids1 rs1)) k1 (Aof (D ids1 rs1)) (vof (V rs1)) c /\
  normal_eq (length (D ids2 rs2)) k2 (Aof (D ids2 rs2)) (vof (V rs2)) (shiftv k1 c).
Proof.
  rewrite !design_length, !app_length.
  rewrite (normal_eq_blocks n1 n2 k1 k2 Aj (vof (V (rs1 ++ rs2))) merged_dark c).
  split; intros [H1 H2]; split.
  - eapply normal_eq_ext; [| | |exact H1]; intros; [apply merged_block1; assumption|apply merged_data1; assumption|reflexivity].
  - eapply normal_eq_ext; [| | |exact H2]; intros; [apply merged_block2; assumption|apply merged_data2; assumption|reflexivity].
  - eapply normal_eq_ext; [| | |exact H1]; intros; [symmetry; apply merged_block1; assumption|symmetry; apply merged_data1; assumption|reflexivity].
  - eapply normal_eq_ext; [| | |exact H2]; intros; [symmetry; apply merged_block2; assumption|symmetry; apply merged_data2; assumption|reflexivity].
Qed.
End MergeDesign.

(* ================================================================== *)
(* (e) the link with the row order / un-grouping of C12_Model           *)
(* ================================================================== *)
Section Link.
Variables (ny nx fy fx sc : Z) (msk : option (list bool)) (data : list (option Z))
  (errbad : option (list bool)) (xyb : option (option Z * option Z))
  (fixed : bool * bool * bool) (nextra : Z) (fitter : nat -> callin -> fitout).
Variables (psf : Z -> pix -> Q) (wq : pix -> Q).
Notation PHOT := (photometry ny nx fy fx sc msk data errbad xyb fixed nextra fitter).
Definition flux_of (t : Z * Z * Z) : Z := snd t.

Lemma call_flux_nth fo j : (j < length (fo_par fo))%nat ->
  vof (call_flux sc fo) j = zq sc (flux_of (nth j (fo_par fo) (0, 0, 0)%Z)).
Proof. intros Hj. unfold vof, call_flux. apply (nth_map_in (fun t => zq sc (snd t))), Hj. Qed.

(* row i of the result table carries the least-squares flux of the source with id i: it is the
   component, at that source's position inside its group, of the vector that solves the normal equations
   of the design of the fitter call made for that source's group *)
Lemma rows_carry_ls_flux (srcs : list src) (r : result) :
  solves_flux sc psf wq fitter ->
  Permutation (map s_id srcs) (default_ids (length srcs)) ->
  PHOT srcs = r -> res_err r = None ->
  map s_id (sort_by s_id srcs) = default_ids (length srcs) /\
  Forall2 (fun s row =>
    o_src row = s /\
    exists (k j : nat) (ci : callin),
      nth_error (res_calls r) k = Some ci /\
      ci_ids ci = map s_id (group_of srcs s) /\
      nth_error (group_of srcs s) j = Some s /\
      normal_eq (length (call_design psf wq ci)) (length (ci_ids ci)) (Aof (call_design psf wq ci))
                (vof (call_data sc wq ci)) (vof (call_flux sc (fitter k ci))) /\
      zq sc (flux_of (o_fit row)) = vof (call_flux sc (fitter k ci)) j)
    (sort_by s_id srcs) (res_rows r).
Proof.
  intros Hsol Hp Hr He.
  destruct (photometry_own_rows _ _ _ _ _ _ _ _ _ _ _ _ _ _ Hp Hr He) as (H1 & H2).
  split; [exact H1|]. eapply Forall2_impl_in; [|exact H2].
  intros s row _ (k & j & ci & px & cen & res & H). cbv zeta in H.
  destruct H as (Hsrc & _ & Hcall & Hids & _ & Hj & _ & _ & Hfit & _).
  split; [exact Hsrc|]. exists k, j, ci. destruct (Hsol k ci) as [Hlen Hne].
  repeat split; try assumption.
  rewrite Hfit. cbn [p_par]. symmetry. apply call_flux_nth.
  rewrite Hlen, Hids, map_length. apply nth_error_Some. congruence.
Qed.

(* with the rank condition the flux of the row IS the exact solution's component *)
Lemma rows_carry_the_solution (srcs : list src) (r : result) :
  solves_flux sc psf wq fitter ->
  Permutation (map s_id srcs) (default_ids (length srcs)) ->
  PHOT srcs = r -> res_err r = None ->
  Forall2 (fun s row =>
    exists (k j : nat) (ci : callin),
      nth_error (res_calls r) k = Some ci /\ ci_ids ci = map s_id (group_of srcs s) /\
      nth_error (group_of srcs s) j = Some s /\
      forall sol, ls_solve (call_design psf wq ci) (call_data sc wq ci) (length (ci_ids ci)) = Some sol ->
                  zq sc (flux_of (o_fit row)) == vof sol j)
    (sort_by s_id srcs) (res_rows r).
Proof.
  intros Hsol Hp Hr He.
  destruct (rows_carry_ls_flux srcs r Hsol Hp Hr He) as (_ & H2).
  eapply Forall2_impl_in; [|exact H2].
  intros s row _ (_ & k & j & ci & Hcall & Hids & Hj & Hne & Hflux).
  exists k, j, ci. repeat split; try assumption. intros sol Hs. rewrite Hflux.
  assert (Hjk : (j < length (ci_ids ci))%nat).
  { rewrite Hids, map_length. apply nth_error_Some. congruence. }
  apply (nonsingular_unique (call_design psf wq ci) (call_data sc wq ci) (length (ci_ids ci))); try assumption.
  - unfold nonsingular. unfold ls_solve in Hs. destruct (gram_inverse _ _); [reflexivity|discriminate].
  - apply ls_solve_sound, Hs.
Qed.
End Link.

(* ================================================================== *)
(* the integer rescaling used by the correspondence; the matrix-form check *)
(* ================================================================== *)
Lemma grad_rescale n k A y a b c j :
  grad n k (fun i j => a * A i j) (fun i => a * b * y i) (fun j => b * c j) j == a * a * b * grad n k A y c j.
Proof.
  unfold grad. rewrite <- sumn_scal. apply sumn_ext. intros i _. unfold resid, dotr.
  rewrite (sumn_ext k (fun j0 => a * A i j0 * (b * c j0)) (fun j0 => (a * b) * (A i j0 * c j0))) by (intros; ring).
  rewrite sumn_scal. ring.
Qed.
Lemma normal_eq_rescale n k A y a b c : ~ a == 0 -> ~ b == 0 ->
  (normal_eq n k A y c <-> normal_eq n k (fun i j => a * A i j) (fun i => a * b * y i) (fun j => b * c j)).
Proof.
  intros Ha Hb. split; intros H j Hj.
  - rewrite grad_rescale, (H j Hj). ring.
  - specialize (H j Hj). rewrite grad_rescale in H.
    destruct (Qmult_integral _ _ H) as [E|E]; [|exact E].
    destruct (Qmult_integral _ _ E) as [E'|E']; [|contradiction].
    destruct (Qmult_integral _ _ E'); contradiction.
Qed.

Lemma gram_check_sound rows ys k s : gram_check rows ys k s = true ->
  normal_eq (length rows) k (Aof rows) (vof ys) (vof s).
Proof.
  unfold gram_check. intros H j Hj. apply (forallb_seq _ k H j) in Hj as Hc.
  apply Qeq_bool_iff in Hc. rewrite grad_gram.
  rewrite sumu_sumn in Hc. unfold rhs_l in Hc. unfold vof at 2 in Hc. rewrite (nth_tab k _ j 0 Hj) in Hc.
  rewrite <- Hc. rewrite (sumn_ext k _ (fun j' => Aof (gram_l rows k) j j' * vof s j')); [ring|].
  intros j' Hj'. unfold gram_l. rewrite Aof_tab2 by assumption. reflexivity.
Qed.

(* ================================================================== *)
(* (b) with the rank condition: the flux vector of t * data is t * (flux vector of data) *)
(* ================================================================== *)
Lemma vof_map_scale t ys i : vof (map (Qmult t) ys) i == t * vof ys i.
Proof.
  unfold vof. revert i. induction ys as [|yv ys IH]; intros [|i]; cbn; try ring. apply IH.
Qed.
Lemma scaled_data_scaled_flux rows ys k t c c' : nonsingular rows k = true ->
  normal_eq (length rows) k (Aof rows) (vof ys) c ->
  normal_eq (length rows) k (Aof rows) (vof (map (Qmult t) ys)) c' ->
  forall l, (l < k)%nat -> c' l == t * c l.
Proof.
  intros Hns H H' l Hl.
  apply (nonsingular_unique rows (map (Qmult t) ys) k c' (fun j => t * c j) Hns H'); [|exact Hl].
  eapply normal_eq_ext; [| | |apply (normal_eq_scale (length rows) k (Aof rows) (vof ys) t c H)].
  - intros; reflexivity.
  - intros i _. symmetry. apply vof_map_scale.
  - intros; reflexivity.
Qed.

(* ================================================================== *)
(* model level: recovery, scaling, background                          *)
(* ================================================================== *)
Section ModelLevel.
Variables (ny nx fy fx sc : Z) (msk : option (list bool)).
Variables (dataQ : pix -> Q) (errQ : option (pix -> Q)) (psf : Z -> pix -> Q) (bkgQ : Z -> Q).
Notation GP := (group_problem ny nx fy fx sc msk).
Notation GR := (group_rows ny nx fy fx sc msk).

Lemma group_problem_rows g rs : GR g = Some rs ->
  GP dataQ errQ psf bkgQ g = Some (design_of errQ psf (map s_id g) rs, dvec_of dataQ errQ bkgQ rs).
Proof. unfold group_problem. intros ->. reflexivity. Qed.

(* (a) + (d): RECOVERY of a rendered group, for every mask and every error map *)
Lemma rendered_group_recovered g rs rows ys fstar :
  GR g = Some rs -> GP dataQ errQ psf bkgQ g = Some (rows, ys) ->
  own_light_only dataQ psf bkgQ (map s_id g) rs fstar ->
  let n := length rows in let k := length g in
  normal_eq n k (Aof rows) (vof ys) fstar /\ minimiser n k (Aof rows) (vof ys) fstar /\
  rss n k (Aof rows) (vof ys) fstar == 0 /\
  (forall i, (i < n)%nat -> resid k (Aof rows) (vof ys) fstar i == 0) /\
  (nonsingular rows k = true -> forall c, minimiser n k (Aof rows) (vof ys) c -> forall j, (j < k)%nat -> c j == fstar j).
Proof.
  intros Hr Hp Hown. rewrite (group_problem_rows g rs Hr) in Hp. injection Hp as <- <-. cbv zeta.
  assert (E := rendered_rows_exact_form dataQ errQ psf bkgQ (map s_id g) rs fstar Hown).
  rewrite map_length in E.
  assert (HN := exact_form_normal_eq _ _ _ _ _ E).
  split; [exact HN|]. split; [apply normal_eq_minimises, HN|]. split; [apply exact_form_rss, E|].
  split; [intros i Hi; exact (exact_form_resid _ _ _ _ fstar i E Hi)|].
  intros Hns c Hc j Hj. apply minimiser_normal_eq in Hc.
  exact (nonsingular_unique _ _ _ c fstar Hns Hc HN j Hj).
Qed.

(* (b) the image and the local backgrounds multiplied by t: the flux vector is multiplied by t *)
Lemma scaled_image_scaled_flux g rs t c :
  GR g = Some rs ->
  let rows := design_of errQ psf (map s_id g) rs in
  normal_eq (length rows) (length g) (Aof rows) (vof (dvec_of dataQ errQ bkgQ rs)) c ->
  normal_eq (length rows) (length g) (Aof rows)
            (vof (dvec_of (fun p => t * dataQ p) errQ (fun s => t * bkgQ s) rs)) (fun j => t * c j).
Proof.
  intros _ rows H.
  eapply normal_eq_ext; [| | |apply (normal_eq_scale _ _ _ _ t c H)].
  - intros; reflexivity.
  - intros i Hi. unfold rows in Hi. rewrite design_length in Hi. symmetry. apply dvec_scaled, Hi.
  - intros; reflexivity.
Qed.
(* a pedestal b added to the image and removed again through local_bkg changes nothing *)
Lemma pedestal_invariance g rs b c :
  GR g = Some rs ->
  let rows := design_of errQ psf (map s_id g) rs in
  (normal_eq (length rows) (length g) (Aof rows) (vof (dvec_of dataQ errQ bkgQ rs)) c <->
   normal_eq (length rows) (length g) (Aof rows)
             (vof (dvec_of (fun p => dataQ p + b) errQ (fun s => bkgQ s + b) rs)) c).
Proof.
  intros _ rows.
  assert (E := Forall2_Qeq_vof _ _ (dvec_background_shift dataQ errQ bkgQ b rs)).
  split; intros H; (eapply normal_eq_ext; [| | |exact H]); intros; try reflexivity; [symmetry|]; apply E.
Qed.
End ModelLevel.
