(* C17 -- proofs about C17_Model (centroid_com, centroid_quadratic's vertex formula,
   centroid_sources).  The specification vocabulary used by C17_Properties.v is
   defined here:

     sumn n f              = sum_{i<n} f i
     sum2 ny nx f          = sum_{y<ny} sum_{x<nx} f y x
     rect ny nx im         : im has ny rows, each of length nx
     pixd data y x         : pixel (row y, column x) of the data ([None] = non-finite)
     pixm mask y x         : mask bit of that pixel ([false] when there is no mask)
     weight data mask y x  : the pixel value if the pixel is unmasked and finite, else 0
     com_spec ny nx w      : the intensity-weighted mean coordinate of the weights w,
                             as the exact fraction (sum x*w / sum w, sum y*w / sum w)   *)
From Coq Require Import List Arith ZArith QArith Bool Lia ZifyBool Permutation.
From PV Require Import lib.Cases C17_Model.
Import ListNotations.
Open Scope Z_scope.

(* ------------------------------------------------------------------ *)
(* finite sums                                                          *)
(* ------------------------------------------------------------------ *)
Fixpoint sumn (n : nat) (f : nat -> Z) : Z :=
  match n with O => 0 | S k => sumn k f + f k end.
Definition sum2 (ny nx : nat) (f : nat -> nat -> Z) : Z :=
  sumn ny (fun y => sumn nx (fun x => f y x)).

Lemma sumn_ext n f g : (forall i, (i < n)%nat -> f i = g i) -> sumn n f = sumn n g.
Proof.
  induction n as [|n IH]; intros H; cbn [sumn]; [reflexivity|].
  rewrite IH by (intros i Hi; apply H; lia). rewrite (H n) by lia. reflexivity.
Qed.

Lemma sumn_shift n f : sumn (S n) f = f O + sumn n (fun i => f (S i)).
Proof.
  induction n as [|n IH]; [cbn [sumn]; lia|].
  change (sumn (S (S n)) f) with (sumn (S n) f + f (S n)). rewrite IH. cbn [sumn]. lia.
Qed.

Lemma sumn_add n f g : sumn n (fun i => f i + g i) = sumn n f + sumn n g.
Proof. induction n as [|n IH]; cbn [sumn]; [reflexivity|rewrite IH; lia]. Qed.

Lemma sumn_scale n c f : sumn n (fun i => c * f i) = c * sumn n f.
Proof. induction n as [|n IH]; cbn [sumn]; [lia|rewrite IH; lia]. Qed.

Lemma sumn_zero n f : (forall i, (i < n)%nat -> f i = 0) -> sumn n f = 0.
Proof.
  induction n as [|n IH]; intros H; cbn [sumn]; [reflexivity|].
  rewrite IH by (intros i Hi; apply H; lia). rewrite (H n) by lia. reflexivity.
Qed.

Lemma sumn_rev n f : sumn n f = sumn n (fun i => f (n - 1 - i)%nat).
Proof.
  induction n as [|n IH]; [reflexivity|].
  rewrite (sumn_shift n (fun i => f (S n - 1 - i)%nat)).
  change (sumn (S n) f) with (sumn n f + f n). rewrite IH.
  replace (S n - 1 - 0)%nat with n by lia.
  rewrite Z.add_comm. f_equal. apply sumn_ext. intros i Hi. f_equal. lia.
Qed.

Lemma sumn_swap ny nx (f : nat -> nat -> Z) :
  sumn ny (fun y => sumn nx (fun x => f y x)) = sumn nx (fun x => sumn ny (fun y => f y x)).
Proof.
  induction ny as [|ny IH]; cbn [sumn].
  - symmetry. apply sumn_zero. reflexivity.
  - rewrite IH, <- sumn_add. reflexivity.
Qed.

Lemma sumn_split a b f : sumn (a + b) f = sumn a f + sumn b (fun i => f (a + i)%nat).
Proof.
  induction b as [|b IH].
  - rewrite Nat.add_0_r. cbn [sumn]. lia.
  - rewrite Nat.add_succ_r. cbn [sumn]. rewrite IH. lia.
Qed.

Lemma sum2_ext ny nx f g :
  (forall y x, (y < ny)%nat -> (x < nx)%nat -> f y x = g y x) -> sum2 ny nx f = sum2 ny nx g.
Proof. intros H. apply sumn_ext. intros y Hy. apply sumn_ext. intros x Hx. auto. Qed.

Lemma sum2_swap ny nx f : sum2 ny nx f = sum2 nx ny (fun x y => f y x).
Proof. apply sumn_swap. Qed.

Lemma sum2_scale ny nx c f : sum2 ny nx (fun y x => c * f y x) = c * sum2 ny nx f.
Proof.
  unfold sum2. rewrite <- sumn_scale. apply sumn_ext. intros y _. apply sumn_scale.
Qed.

Lemma sum2_add ny nx f g :
  sum2 ny nx (fun y x => f y x + g y x) = sum2 ny nx f + sum2 ny nx g.
Proof.
  unfold sum2. rewrite <- sumn_add. apply sumn_ext. intros y _. apply sumn_add.
Qed.

(* ------------------------------------------------------------------ *)
(* lists                                                                *)
(* ------------------------------------------------------------------ *)
Lemma zsum_cons a l : zsum (a :: l) = a + zsum l.
Proof. reflexivity. Qed.

Lemma zsum_sumn l : zsum l = sumn (length l) (fun i => nth i l 0).
Proof.
  induction l as [|a l IH]; [reflexivity|].
  cbn [length]. rewrite sumn_shift, zsum_cons, IH. reflexivity.
Qed.

Lemma wsum_sumn l : forall i, wsum i l = sumn (length l) (fun j => (i + Z.of_nat j) * nth j l 0).
Proof.
  induction l as [|a l IH]; intros i; [reflexivity|].
  cbn [length]. rewrite sumn_shift.
  change (wsum i (a :: l)) with (i * a + wsum (i + 1) l). rewrite IH. cbn [nth].
  f_equal; [lia|]. apply sumn_ext. intros j _. f_equal. lia.
Qed.

Lemma map_nth' {A B} (g : A -> B) l d d' n :
  (n < length l)%nat -> nth n (map g l) d' = g (nth n l d).
Proof.
  intros H. rewrite (nth_indep _ d' (g d)) by (rewrite map_length; lia). apply map_nth.
Qed.

Lemma map2_length {A B C} (f : A -> B -> C) a b :
  length (map2 f a b) = Nat.min (length a) (length b).
Proof. revert b; induction a as [|x a IH]; intros [|y b]; cbn; auto. Qed.

Lemma map2_nth {A B C} (f : A -> B -> C) a b n da db dc :
  (n < length a)%nat -> (n < length b)%nat ->
  nth n (map2 f a b) dc = f (nth n a da) (nth n b db).
Proof.
  revert b n; induction a as [|x a IH]; intros [|y b] n; cbn [length map2 nth]; try lia.
  destruct n as [|n]; [reflexivity|]. intros Ha Hb. apply IH; lia.
Qed.

Lemma list_ext {A} (d : A) (a b : list A) :
  length a = length b -> (forall i, (i < length a)%nat -> nth i a d = nth i b d) -> a = b.
Proof.
  revert b; induction a as [|x a IH]; intros [|y b] Hl H; cbn in Hl; try discriminate; [reflexivity|].
  f_equal.
  - apply (H O). cbn. lia.
  - apply IH; [lia|]. intros i Hi. apply (H (S i)). cbn. lia.
Qed.

(* ------------------------------------------------------------------ *)
(* rectangular images                                                   *)
(* ------------------------------------------------------------------ *)
Definition rect {A} (ny nx : nat) (im : img A) : Prop :=
  length im = ny /\ forall y, (y < ny)%nat -> length (nth y im []) = nx.
Definition mask_rect (ny nx : nat) (mask : option (img bool)) : Prop :=
  match mask with None => True | Some m => rect ny nx m end.

Definition pixd (data : img (option Z)) (y x : nat) : option Z := nth x (nth y data []) None.
Definition pixm (mask : option (img bool)) (y x : nat) : bool :=
  match mask with None => false | Some m => nth x (nth y m []) false end.
(* value of an unmasked finite pixel, 0 for every other pixel *)
Definition weight (data : img (option Z)) (mask : option (img bool)) (y x : nat) : Z :=
  if pixm mask y x then 0 else match pixd data y x with Some v => v | None => 0 end.

Lemma weight_fill1 data mask y x : weight data mask y x = fill1 (pixd data y x) (pixm mask y x).
Proof. reflexivity. Qed.

Lemma weight_outside data mask ny nx y x :
  rect ny nx data -> (ny <= y)%nat \/ (nx <= x)%nat -> weight data mask y x = 0.
Proof.
  intros [Hl Hr] H. unfold weight. destruct (pixm mask y x); [reflexivity|].
  unfold pixd. destruct (Nat.lt_ge_cases y ny) as [Hy|Hy].
  - rewrite (nth_overflow (nth y data [])); [reflexivity|]. rewrite Hr by lia. lia.
  - rewrite (nth_overflow data) by lia. destruct x; reflexivity.
Qed.

(* same_shape is shape equality *)
Lemma rows_same {A B} (a : img A) (b : img B) :
  length a = length b ->
  (forallb (fun x => x) (map2 (fun r s => (length r =? length s)%nat) a b) = true <->
   forall y, (y < length a)%nat -> length (nth y a []) = length (nth y b [])).
Proof.
  revert b; induction a as [|r a IH]; intros [|s b] Hl; cbn in Hl; try discriminate.
  - cbn. split; [intros _ y Hy; lia|reflexivity].
  - cbn [map2 forallb length]. rewrite andb_true_iff, Nat.eqb_eq, IH by lia. split.
    + intros [H0 H] [|y] Hy; cbn [nth]; [exact H0|apply H; lia].
    + intros H. split; [apply (H O); lia|]. intros y Hy. apply (H (S y)). lia.
Qed.

Lemma same_shape_spec {A B} (a : img A) (b : img B) :
  same_shape a b = true <->
  length a = length b /\ forall y, (y < length a)%nat -> length (nth y a []) = length (nth y b []).
Proof.
  unfold same_shape. rewrite andb_true_iff, Nat.eqb_eq. split.
  - intros [Hl H]. split; [exact Hl|]. apply rows_same; assumption.
  - intros [Hl H]. split; [exact Hl|]. apply rows_same; assumption.
Qed.

Lemma same_shape_rect {A B} ny nx (a : img A) (b : img B) :
  rect ny nx a -> rect ny nx b -> same_shape a b = true.
Proof.
  intros [Ha Ra] [Hb Rb]. apply same_shape_spec. split; [lia|].
  intros y Hy. rewrite Ra, Rb by lia. reflexivity.
Qed.

(* ------------------------------------------------------------------ *)
(* centroid_com is the weighted mean                                    *)
(* ------------------------------------------------------------------ *)
Lemma filled_rect data mask ny nx :
  rect ny nx data -> mask_rect ny nx mask -> rect ny nx (filled data mask).
Proof.
  intros [Hl Hr] Hm. destruct mask as [m|]; cbn [filled].
  - destruct Hm as [Ml Mr]. split.
    + rewrite map2_length. lia.
    + intros y Hy. rewrite (map2_nth _ _ _ _ [] []) by lia.
      rewrite map2_length, Hr, Mr by lia. lia.
  - split; [rewrite map_length; exact Hl|].
    intros y Hy. rewrite (map_nth' _ _ []) by lia. rewrite map_length. auto.
Qed.

Lemma filled_nth data mask ny nx y x :
  rect ny nx data -> mask_rect ny nx mask -> (y < ny)%nat -> (x < nx)%nat ->
  nth x (nth y (filled data mask) []) 0 = weight data mask y x.
Proof.
  intros [Hl Hr] Hm Hy Hx. unfold weight, pixd, pixm. destruct mask as [m|]; cbn [filled].
  - destruct Hm as [Ml Mr].
    rewrite (map2_nth _ _ _ _ [] []) by lia.
    rewrite (map2_nth _ _ _ _ None false) by (rewrite ?Hr, ?Mr by lia; lia).
    reflexivity.
  - rewrite (map_nth' _ _ []) by lia. rewrite (map_nth' _ _ None) by (rewrite Hr by lia; lia).
    reflexivity.
Qed.

Lemma img_total (f : img Z) ny nx :
  rect ny nx f -> zsum (map zsum f) = sum2 ny nx (fun y x => nth x (nth y f []) 0).
Proof.
  intros [Hl Hr]. rewrite zsum_sumn, map_length, Hl. apply sumn_ext. intros y Hy.
  rewrite (map_nth' _ _ []) by lia. rewrite zsum_sumn, Hr by lia. reflexivity.
Qed.

Lemma img_xmoment (f : img Z) ny nx :
  rect ny nx f ->
  zsum (map (wsum 0) f) = sum2 ny nx (fun y x => Z.of_nat x * nth x (nth y f []) 0).
Proof.
  intros [Hl Hr]. rewrite zsum_sumn, map_length, Hl. apply sumn_ext. intros y Hy.
  rewrite (map_nth' _ _ []) by lia. rewrite wsum_sumn, Hr by lia. reflexivity.
Qed.

Lemma img_ymoment (f : img Z) ny nx :
  rect ny nx f ->
  wsum 0 (map zsum f) = sum2 ny nx (fun y x => Z.of_nat y * nth x (nth y f []) 0).
Proof.
  intros [Hl Hr]. rewrite wsum_sumn, map_length, Hl. apply sumn_ext. intros y Hy.
  rewrite (map_nth' _ _ []) by lia. rewrite zsum_sumn, Hr by lia.
  rewrite Z.add_0_l, sumn_scale. reflexivity.
Qed.

Definition com_spec (ny nx : nat) (w : nat -> nat -> Z) : com_res :=
  let T := sum2 ny nx w in
  if T =? 0 then ComNaN
  else ComAt (sum2 ny nx (fun y x => Z.of_nat x * w y x))
             (sum2 ny nx (fun y x => Z.of_nat y * w y x)) T.

Lemma com_spec_ext ny nx w w' :
  (forall y x, (y < ny)%nat -> (x < nx)%nat -> w y x = w' y x) ->
  com_spec ny nx w = com_spec ny nx w'.
Proof.
  intros H. unfold com_spec.
  rewrite (sum2_ext ny nx w w') by exact H.
  rewrite (sum2_ext ny nx (fun y x => Z.of_nat x * w y x) (fun y x => Z.of_nat x * w' y x))
    by (intros; rewrite H by lia; reflexivity).
  rewrite (sum2_ext ny nx (fun y x => Z.of_nat y * w y x) (fun y x => Z.of_nat y * w' y x))
    by (intros; rewrite H by lia; reflexivity).
  reflexivity.
Qed.

Lemma com_weighted_mean data mask ny nx :
  rect ny nx data -> mask_rect ny nx mask ->
  com data mask = com_spec ny nx (weight data mask).
Proof.
  intros Hd Hm. unfold com.
  assert (Hs : match mask with Some m => negb (same_shape data m) | None => false end = false).
  { destruct mask as [m|]; [|reflexivity]. rewrite (same_shape_rect ny nx) by assumption. reflexivity. }
  rewrite Hs. pose proof (filled_rect data mask ny nx Hd Hm) as Hf.
  cbv zeta. rewrite (img_total _ ny nx Hf), (img_xmoment _ ny nx Hf), (img_ymoment _ ny nx Hf).
  unfold com_spec. cbv zeta.
  rewrite (sum2_ext ny nx _ (weight data mask))
    by (intros; apply (filled_nth data mask ny nx); assumption).
  rewrite (sum2_ext ny nx (fun y x => Z.of_nat x * _) (fun y x => Z.of_nat x * weight data mask y x))
    by (intros; rewrite (filled_nth data mask ny nx) by assumption; reflexivity).
  rewrite (sum2_ext ny nx (fun y x => Z.of_nat y * _) (fun y x => Z.of_nat y * weight data mask y x))
    by (intros; rewrite (filled_nth data mask ny nx) by assumption; reflexivity).
  reflexivity.
Qed.

Lemma com_raise_iff data mask :
  com data mask = ComRaise <-> exists m, mask = Some m /\ same_shape data m = false.
Proof.
  unfold com. destruct mask as [m|].
  - destruct (same_shape data m) eqn:E; cbn [negb].
    + split; [|intros [m' [[= <-] H]]; congruence].
      destruct (_ =? 0); discriminate.
    + split; [intros _; exists m; auto|reflexivity].
  - split; [destruct (_ =? 0); discriminate|intros [m [H _]]; discriminate].
Qed.

(* ------------------------------------------------------------------ *)
(* masked (and non-finite) pixel values are ignored                     *)
(* ------------------------------------------------------------------ *)
Lemma com_masked_values_ignored data data' m ny nx :
  rect ny nx data -> rect ny nx data' -> rect ny nx m ->
  (forall y x, (y < ny)%nat -> (x < nx)%nat -> pixm (Some m) y x = false ->
               pixd data y x = pixd data' y x) ->
  com data (Some m) = com data' (Some m).
Proof.
  intros Hd Hd' Hm H.
  rewrite (com_weighted_mean data (Some m) ny nx), (com_weighted_mean data' (Some m) ny nx)
    by assumption.
  apply com_spec_ext. intros y x Hy Hx. unfold weight.
  destruct (pixm (Some m) y x) eqn:E; [reflexivity|]. rewrite H by assumption. reflexivity.
Qed.

(* a non-finite pixel counts exactly like a masked one *)
Lemma com_nonfinite_as_masked data mask ny nx y x :
  rect ny nx data -> mask_rect ny nx mask -> pixd data y x = None -> weight data mask y x = 0.
Proof. intros _ _ H. unfold weight. rewrite H. destruct (pixm mask y x); reflexivity. Qed.

(* ------------------------------------------------------------------ *)
(* flips, transposition, rescaling                                      *)
(* ------------------------------------------------------------------ *)
Definition flipx {A} (im : img A) : img A := map (@rev A) im.         (* data[:, ::-1] *)
Definition flipy {A} (im : img A) : img A := rev im.                  (* data[::-1, :] *)
Definition transpose {A} (d : A) (nx : nat) (im : img A) : img A :=   (* data.T *)
  map (fun x => map (fun r => nth x r d) im) (seq 0 nx).
Definition scale (k : Z) (data : img (option Z)) : img (option Z) :=  (* k * data *)
  map (map (option_map (Z.mul k))) data.

Lemma flipx_rect {A} ny nx (im : img A) : rect ny nx im -> rect ny nx (flipx im).
Proof.
  intros [Hl Hr]. split; [unfold flipx; rewrite map_length; exact Hl|].
  intros y Hy. unfold flipx. rewrite (map_nth' _ _ []) by lia. rewrite rev_length. auto.
Qed.
Lemma flipx_nth {A} ny nx (im : img A) d y x :
  rect ny nx im -> (y < ny)%nat -> (x < nx)%nat ->
  nth x (nth y (flipx im) []) d = nth (nx - 1 - x) (nth y im []) d.
Proof.
  intros [Hl Hr] Hy Hx. unfold flipx. rewrite (map_nth' _ _ []) by lia.
  rewrite rev_nth by (rewrite Hr by lia; lia). rewrite Hr by lia. f_equal. lia.
Qed.
Lemma flipy_rect {A} ny nx (im : img A) : rect ny nx im -> rect ny nx (flipy im).
Proof.
  intros [Hl Hr]. split; [unfold flipy; rewrite rev_length; exact Hl|].
  intros y Hy. unfold flipy. rewrite rev_nth by lia. apply Hr. lia.
Qed.
Lemma flipy_nth {A} ny nx (im : img A) y :
  rect ny nx im -> (y < ny)%nat -> nth y (flipy im) [] = nth (ny - 1 - y) im [].
Proof.
  intros [Hl Hr] Hy. unfold flipy. rewrite rev_nth by lia. f_equal. lia.
Qed.

Lemma map_seq_nth {B} (g : nat -> B) n d i : (i < n)%nat -> nth i (map g (seq 0 n)) d = g i.
Proof.
  intros H. rewrite (map_nth' _ _ O) by (rewrite seq_length; lia). rewrite seq_nth by lia. reflexivity.
Qed.
Lemma transpose_rect {A} (d : A) ny nx (im : img A) :
  rect ny nx im -> rect nx ny (transpose d nx im).
Proof.
  intros [Hl Hr]. unfold transpose. split; [rewrite map_length, seq_length; reflexivity|].
  intros x Hx. rewrite map_seq_nth by lia. rewrite map_length. exact Hl.
Qed.
Lemma transpose_nth {A} (d : A) ny nx (im : img A) y x :
  rect ny nx im -> (y < ny)%nat -> (x < nx)%nat ->
  nth y (nth x (transpose d nx im) []) d = nth x (nth y im []) d.
Proof.
  intros [Hl Hr] Hy Hx. unfold transpose. rewrite map_seq_nth by lia.
  rewrite (map_nth' _ _ []) by lia. reflexivity.
Qed.

Definition flipx_mask (m : option (img bool)) := option_map (@flipx bool) m.
Definition flipy_mask (m : option (img bool)) := option_map (@flipy bool) m.
Definition transpose_mask nx (m : option (img bool)) := option_map (transpose false nx) m.

(* what the transformations do to a centroid given as exact fractions *)
Definition mirror_x (nx : nat) (r : com_res) : com_res :=
  match r with ComAt xn yn t => ComAt ((Z.of_nat nx - 1) * t - xn) yn t | r0 => r0 end.
Definition mirror_y (ny : nat) (r : com_res) : com_res :=
  match r with ComAt xn yn t => ComAt xn ((Z.of_nat ny - 1) * t - yn) t | r0 => r0 end.
Definition swap_xy (r : com_res) : com_res :=
  match r with ComAt xn yn t => ComAt yn xn t | r0 => r0 end.
Definition scale_res (k : Z) (r : com_res) : com_res :=
  match r with ComAt xn yn t => ComAt (k * xn) (k * yn) (k * t) | r0 => r0 end.

Lemma sumn_mirror n (w : nat -> Z) :
  sumn n (fun x => Z.of_nat x * w (n - 1 - x)%nat)
  = (Z.of_nat n - 1) * sumn n w - sumn n (fun x => Z.of_nat x * w x).
Proof.
  rewrite (sumn_rev n (fun x => Z.of_nat x * w (n - 1 - x)%nat)).
  rewrite <- sumn_scale.
  assert (E : forall a b c, a + c = b -> a = b - c) by (intros; lia).
  apply E. rewrite <- sumn_add. apply sumn_ext. intros i Hi.
  replace (n - 1 - (n - 1 - i))%nat with i by lia.
  replace (Z.of_nat (n - 1 - i)) with (Z.of_nat n - 1 - Z.of_nat i) by lia. ring.
Qed.

Lemma sumn_reflect n (w : nat -> Z) : sumn n (fun x => w (n - 1 - x)%nat) = sumn n w.
Proof. symmetry. apply sumn_rev. Qed.

Lemma com_flipx data mask ny nx :
  rect ny nx data -> mask_rect ny nx mask ->
  com (flipx data) (flipx_mask mask) = mirror_x nx (com data mask).
Proof.
  intros Hd Hm.
  assert (Hm' : mask_rect ny nx (flipx_mask mask))
    by (destruct mask; [apply flipx_rect; exact Hm|exact I]).
  rewrite (com_weighted_mean _ _ ny nx (flipx_rect _ _ _ Hd) Hm'), (com_weighted_mean _ _ ny nx Hd Hm).
  rewrite (com_spec_ext ny nx _ (fun y x => weight data mask y (nx - 1 - x)%nat)).
  2:{ intros y x Hy Hx. unfold weight, pixd, pixm.
      rewrite (flipx_nth ny nx) by assumption.
      destruct mask as [m|]; cbn [flipx_mask option_map]; [|reflexivity].
      rewrite (flipx_nth ny nx) by assumption. reflexivity. }
  unfold com_spec, sum2. cbv zeta.
  rewrite (sumn_ext ny (fun y => sumn nx (fun x => weight data mask y (nx - 1 - x)%nat))
                       (fun y => sumn nx (fun x => weight data mask y x)))
    by (intros; apply sumn_reflect).
  rewrite (sumn_ext ny (fun y => sumn nx (fun x => Z.of_nat y * weight data mask y (nx - 1 - x)%nat))
                       (fun y => sumn nx (fun x => Z.of_nat y * weight data mask y x)))
    by (intros y _; apply (sumn_reflect nx (fun x => Z.of_nat y * weight data mask y x))).
  rewrite (sumn_ext ny (fun y => sumn nx (fun x => Z.of_nat x * weight data mask y (nx - 1 - x)%nat))
                       (fun y => (Z.of_nat nx - 1) * sumn nx (fun x => weight data mask y x)
                                 + -1 * sumn nx (fun x => Z.of_nat x * weight data mask y x)))
    by (intros y _; etransitivity; [apply (sumn_mirror nx (fun x => weight data mask y x))|];
        cbv beta; lia).
  rewrite sumn_add, !sumn_scale.
  destruct (_ =? 0); cbn [mirror_x]; [reflexivity|]. f_equal; lia.
Qed.

Lemma com_flipy data mask ny nx :
  rect ny nx data -> mask_rect ny nx mask ->
  com (flipy data) (flipy_mask mask) = mirror_y ny (com data mask).
Proof.
  intros Hd Hm.
  assert (Hm' : mask_rect ny nx (flipy_mask mask))
    by (destruct mask; [apply flipy_rect; exact Hm|exact I]).
  rewrite (com_weighted_mean _ _ ny nx (flipy_rect _ _ _ Hd) Hm'), (com_weighted_mean _ _ ny nx Hd Hm).
  rewrite (com_spec_ext ny nx _ (fun y x => weight data mask (ny - 1 - y)%nat x)).
  2:{ intros y x Hy Hx. unfold weight, pixd, pixm.
      rewrite (flipy_nth ny nx) by assumption.
      destruct mask as [m|]; cbn [flipy_mask option_map]; [|reflexivity].
      rewrite (flipy_nth ny nx) by assumption. reflexivity. }
  unfold com_spec, sum2. cbv zeta.
  rewrite (sumn_reflect ny (fun y => sumn nx (fun x => weight data mask y x))).
  rewrite (sumn_reflect ny (fun y => sumn nx (fun x => Z.of_nat x * weight data mask y x))).
  rewrite (sumn_ext ny (fun y => sumn nx (fun x => Z.of_nat y * weight data mask (ny - 1 - y)%nat x))
                       (fun y => Z.of_nat y * (fun y' => sumn nx (fun x => weight data mask y' x)) (ny - 1 - y)%nat))
    by (intros y _; rewrite <- sumn_scale; reflexivity).
  rewrite (sumn_mirror ny (fun y' => sumn nx (fun x => weight data mask y' x))).
  rewrite (sumn_ext ny (fun y => Z.of_nat y * sumn nx (fun x => weight data mask y x))
                       (fun y => sumn nx (fun x => Z.of_nat y * weight data mask y x)))
    by (intros y _; rewrite sumn_scale; reflexivity).
  destruct (_ =? 0); reflexivity.
Qed.

Lemma com_transpose data mask ny nx :
  rect ny nx data -> mask_rect ny nx mask ->
  com (transpose None nx data) (transpose_mask nx mask) = swap_xy (com data mask).
Proof.
  intros Hd Hm.
  assert (Hm' : mask_rect nx ny (transpose_mask nx mask))
    by (destruct mask; [apply transpose_rect; exact Hm|exact I]).
  rewrite (com_weighted_mean _ _ nx ny (transpose_rect _ _ _ _ Hd) Hm'), (com_weighted_mean _ _ ny nx Hd Hm).
  rewrite (com_spec_ext nx ny _ (fun x y => weight data mask y x)).
  2:{ intros x y Hx Hy. unfold weight, pixd, pixm.
      rewrite (transpose_nth None ny nx) by assumption.
      destruct mask as [m|]; cbn [transpose_mask option_map]; [|reflexivity].
      rewrite (transpose_nth false ny nx) by assumption. reflexivity. }
  unfold com_spec. cbv zeta.
  rewrite <- (sum2_swap ny nx (weight data mask)).
  rewrite <- (sum2_swap ny nx (fun y x => Z.of_nat x * weight data mask y x)).
  rewrite <- (sum2_swap ny nx (fun y x => Z.of_nat y * weight data mask y x)).
  destruct (_ =? 0); reflexivity.
Qed.

Lemma scale_rect k ny nx data : rect ny nx data -> rect ny nx (scale k data).
Proof.
  intros [Hl Hr]. unfold scale. split; [rewrite map_length; exact Hl|].
  intros y Hy. rewrite (map_nth' _ _ []) by lia. rewrite map_length. auto.
Qed.

Lemma com_scale k data mask ny nx :
  k <> 0 -> rect ny nx data -> mask_rect ny nx mask ->
  com (scale k data) mask = scale_res k (com data mask).
Proof.
  intros Hk Hd Hm.
  rewrite (com_weighted_mean _ _ ny nx (scale_rect k _ _ _ Hd) Hm), (com_weighted_mean _ _ ny nx Hd Hm).
  rewrite (com_spec_ext ny nx _ (fun y x => k * weight data mask y x)).
  2:{ intros y x Hy Hx. unfold weight, pixd, scale. destruct Hd as [Hl Hr].
      rewrite (map_nth' _ _ []) by lia. rewrite (map_nth' _ _ None) by (rewrite Hr by lia; lia).
      destruct (pixm mask y x); [lia|]. destruct (nth x (nth y data []) None); cbn [option_map]; lia. }
  unfold com_spec. cbv zeta.
  rewrite (sum2_ext ny nx (fun y x => Z.of_nat x * (k * weight data mask y x))
                          (fun y x => k * (Z.of_nat x * weight data mask y x))) by (intros; lia).
  rewrite (sum2_ext ny nx (fun y x => Z.of_nat y * (k * weight data mask y x))
                          (fun y x => k * (Z.of_nat y * weight data mask y x))) by (intros; lia).
  rewrite !sum2_scale.
  destruct (sum2 ny nx (weight data mask) =? 0) eqn:E.
  - apply Z.eqb_eq in E. rewrite E, Z.mul_0_r. reflexivity.
  - apply Z.eqb_neq in E. destruct (k * _ =? 0) eqn:E'; [apply Z.eqb_eq in E'; nia|]. reflexivity.
Qed.

(* two exact-fraction results denote the same point *)
Definition same_centroid (a b : com_res) : Prop :=
  match a, b with
  | ComRaise, ComRaise => True
  | ComNaN, ComNaN => True
  | ComAt xn yn t, ComAt xn' yn' t' => xn * t' = xn' * t /\ yn * t' = yn' * t
  | _, _ => False
  end.

Lemma scale_res_same k r : k <> 0 -> same_centroid (scale_res k r) r.
Proof. intros Hk. destruct r; cbn; auto. split; lia. Qed.

(* rescaling by a positive rational p/q (q * data' = p * data pixelwise) *)
Lemma com_scale_rational p q data data' mask ny nx :
  p <> 0 -> q <> 0 -> rect ny nx data -> rect ny nx data' -> mask_rect ny nx mask ->
  scale q data' = scale p data ->
  same_centroid (com data' mask) (com data mask).
Proof.
  intros Hp Hq Hd Hd' Hm E.
  pose proof (com_scale q data' mask ny nx Hq Hd' Hm) as H1.
  pose proof (com_scale p data mask ny nx Hp Hd Hm) as H2.
  rewrite E, H2 in H1.
  destruct (com data' mask) as [| |xn' yn' t'] eqn:E1, (com data mask) as [| |xn yn t] eqn:E2;
    cbn in H1 |- *; try discriminate; auto.
  injection H1 as Hx Hy Ht.
  split; apply (Z.mul_reg_l _ _ q Hq).
  - replace (q * (xn' * t)) with ((q * xn') * t) by ring. rewrite <- Hx.
    replace (q * (xn * t')) with (xn * (q * t')) by ring. rewrite <- Ht. ring.
  - replace (q * (yn' * t)) with ((q * yn') * t) by ring. rewrite <- Hy.
    replace (q * (yn * t')) with (yn * (q * t')) by ring. rewrite <- Ht. ring.
Qed.

(* ------------------------------------------------------------------ *)
(* point-symmetric sources                                              *)
(* ------------------------------------------------------------------ *)
(* the weights as a function on Z x Z: zero outside the image *)
Definition wZ (data : img (option Z)) (mask : option (img bool)) (y x : Z) : Z :=
  if (y <? 0) || (x <? 0) then 0 else weight data mask (Z.to_nat y) (Z.to_nat x).
(* invariance under the point reflection through (ax/2, ay/2) *)
Definition point_symmetric data mask (ay ax : Z) : Prop :=
  forall y x : Z, wZ data mask y x = wZ data mask (ay - y) (ax - x).

Lemma wZ_of_nat data mask y x : wZ data mask (Z.of_nat y) (Z.of_nat x) = weight data mask y x.
Proof.
  unfold wZ. destruct (Z.ltb_spec (Z.of_nat y) 0); [lia|]. destruct (Z.ltb_spec (Z.of_nat x) 0); [lia|].
  cbn [orb]. rewrite !Nat2Z.id. reflexivity.
Qed.

Lemma wZ_outside data mask ny nx y x :
  rect ny nx data -> y < 0 \/ Z.of_nat ny <= y \/ x < 0 \/ Z.of_nat nx <= x -> wZ data mask y x = 0.
Proof.
  intros Hd H. unfold wZ.
  destruct (Z.ltb_spec y 0); [reflexivity|]. destruct (Z.ltb_spec x 0); [reflexivity|]. cbn [orb].
  apply (weight_outside data mask ny nx); [exact Hd|lia].
Qed.

Definition sumZ (lo : Z) (n : nat) (F : Z -> Z) : Z := sumn n (fun i => F (lo + Z.of_nat i)).

Lemma sumZ_reflect a lo n F :
  sumZ lo n F = sumZ (a - lo - Z.of_nat n + 1) n (fun j => F (a - j)).
Proof.
  unfold sumZ. rewrite sumn_rev. apply sumn_ext. intros i Hi. f_equal. lia.
Qed.

Lemma sumZ_window lo n lo' n' F :
  (forall j, j < lo \/ lo + Z.of_nat n <= j -> F j = 0) ->
  lo' <= lo -> lo + Z.of_nat n <= lo' + Z.of_nat n' -> sumZ lo' n' F = sumZ lo n F.
Proof.
  intros H0 Hlo Hhi. unfold sumZ.
  set (a := Z.to_nat (lo - lo')). set (b := (n' - a - n)%nat).
  replace n' with (a + (n + b))%nat by lia. rewrite !sumn_split.
  rewrite (sumn_zero a) by (intros i Hi; apply H0; lia).
  rewrite (sumn_zero b) by (intros i Hi; apply H0; lia).
  rewrite Z.add_0_l, Z.add_0_r. apply sumn_ext. intros i Hi. f_equal. lia.
Qed.

Lemma sumZ_image (F : Z -> Z) (n : nat) L N :
  (forall j, j < 0 \/ Z.of_nat n <= j -> F j = 0) -> L <= 0 -> Z.of_nat n <= L + Z.of_nat N ->
  sumn n (fun i => F (Z.of_nat i)) = sumZ L N F.
Proof.
  intros H0 HL HN. rewrite (sumZ_window 0 n L N F) by (auto; lia). reflexivity.
Qed.

Lemma sym_window (a : Z) (n : nat) :
  exists L N, L <= 0 /\ Z.of_nat n <= L + Z.of_nat N /\ a - L - Z.of_nat N + 1 = L.
Proof.
  exists (Z.min 0 (a - Z.of_nat n + 1)), (Z.to_nat (a - 2 * Z.min 0 (a - Z.of_nat n + 1) + 1)). lia.
Qed.

Lemma com_point_symmetric data mask ny nx ay ax xn yn t :
  rect ny nx data -> mask_rect ny nx mask -> point_symmetric data mask ay ax ->
  com data mask = ComAt xn yn t -> 2 * xn = ax * t /\ 2 * yn = ay * t.
Proof.
  intros Hd Hm Hs Hc. rewrite (com_weighted_mean _ _ ny nx Hd Hm) in Hc.
  unfold com_spec in Hc. cbv zeta in Hc. destruct (_ =? 0); [discriminate|].
  injection Hc as Ex Ey Et.
  destruct (sym_window ax nx) as (Lx & Nx & HLx & HNx & HSx).
  destruct (sym_window ay ny) as (Ly & Ny & HLy & HNy & HSy).
  set (W := wZ data mask) in *.
  set (S := fun G : Z -> Z -> Z =>
              sumZ Ly Ny (fun y => sumZ Lx Nx (fun x => G y x * W y x))).
  assert (A : forall G, sum2 ny nx (fun y x => G (Z.of_nat y) (Z.of_nat x) * weight data mask y x) = S G).
  { intros G. unfold S, sum2.
    rewrite <- (sumZ_image (fun y => sumZ Lx Nx (fun x => G y x * W y x)) ny Ly Ny); [|  |exact HLy|exact HNy].
    - apply sumn_ext. intros y Hy.
      rewrite <- (sumZ_image (fun x => G (Z.of_nat y) x * W (Z.of_nat y) x) nx Lx Nx); [| |exact HLx|exact HNx].
      + apply sumn_ext. intros x Hx'. unfold W. rewrite wZ_of_nat. reflexivity.
      + intros j Hj. unfold W. rewrite (wZ_outside data mask ny nx) by (auto; lia). lia.
    - intros j Hj. apply sumn_zero. intros i Hi. unfold W.
      rewrite (wZ_outside data mask ny nx) by (auto; lia). lia. }
  assert (B : forall G, S G = S (fun y x => G (ay - y) (ax - x))).
  { intros G. unfold S. rewrite (sumZ_reflect ay Ly Ny), HSy. unfold sumZ at 1 3.
    apply sumn_ext. intros i Hi. rewrite (sumZ_reflect ax Lx Nx), HSx. unfold sumZ.
    apply sumn_ext. intros j Hj. f_equal. unfold W. symmetry. apply Hs. }
  assert (Lin : forall G G' c, (forall y x, G y x + G' y x = c) -> S G + S G' = c * S (fun _ _ => 1)).
  { intros G G' c HG. unfold S, sumZ. rewrite <- sumn_scale, <- sumn_add. apply sumn_ext. intros i Hi.
    rewrite <- sumn_scale, <- sumn_add. apply sumn_ext. intros j Hj.
    rewrite <- (HG (Ly + Z.of_nat i) (Lx + Z.of_nat j)). ring. }
  assert (T1 : t = S (fun _ _ => 1)).
  { rewrite <- (A (fun _ _ => 1)), <- Et. apply sum2_ext. intros. lia. }
  split.
  - assert (E : xn = S (fun _ x => x)) by (rewrite <- (A (fun _ x => x)); symmetry; exact Ex).
    pose proof (B (fun _ x => x)) as E2. cbv beta in E2.
    pose proof (Lin (fun _ x => x) (fun _ x => ax - x) ax) as E3. rewrite <- E2, <- E, <- T1 in E3.
    rewrite <- E3 by (intros; lia). lia.
  - assert (E : yn = S (fun y _ => y)) by (rewrite <- (A (fun y _ => y)); symmetry; exact Ey).
    pose proof (B (fun y _ => y)) as E2. cbv beta in E2.
    pose proof (Lin (fun y _ => y) (fun y _ => ay - y) ay) as E3. rewrite <- E2, <- E, <- T1 in E3.
    rewrite <- E3 by (intros; lia). lia.
Qed.

(* ------------------------------------------------------------------ *)
(* centroid_sources acts per source                                     *)
(* ------------------------------------------------------------------ *)
Fixpoint all_some {A} (l : list (option A)) : option (list A) :=
  match l with
  | [] => Some []
  | None :: _ => None
  | Some a :: r => match all_some r with Some out => Some (a :: out) | None => None end
  end.

Lemma all_some_Forall2 {A} (l : list (option A)) out :
  all_some l = Some out <-> Forall2 (fun o r => o = Some r) l out.
Proof.
  revert out; induction l as [|[a|] l IH]; intros out; cbn [all_some].
  - split; [intros [= <-]; constructor|intros H; inversion H; reflexivity].
  - destruct (all_some l) as [o|] eqn:E.
    + split.
      * intros [= <-]. constructor; [reflexivity|]. apply IH. reflexivity.
      * intros H. inversion H as [|? r ? out' H1 H2]; subst. injection H1 as <-.
        apply IH in H2. injection H2 as <-. reflexivity.
    + split; [discriminate|]. intros H. inversion H as [|? r ? out' H1 H2]; subst.
      apply IH in H2. discriminate.
  - split; [discriminate|]. intros H. inversion H as [|? r ? out' H1 H2]; subst. discriminate.
Qed.

Section SourcesProofs.
  Variables E O R : Type.
  Variable shift : R -> Z -> Z -> R.
  Variable nan : R.
  Notation cfun := (@cfun E O R).
  Notation kwargs := (@kwargs E O).
  Notation per_source := (@C17_Model.per_source E O R shift nan).
  Notation sources := (@C17_Model.sources E O R shift nan).
  Notation sources_unrepaired := (@C17_Model.sources_unrepaired E O R shift nan).

  (* one source with an already filtered keyword dictionary *)
  Definition one (f : cfun) (ev : env) (kw : kwargs) (p : Q * Q) : option R :=
    match prepare ev kw p with
    | None => None
    | Some (a, off, _) => Some (call shift nan f a off)
    end.

  Lemma per_source_one f ev kw p : per_source f ev kw p = one f ev (filter_kwargs f kw) p.
  Proof. reflexivity. Qed.

  Lemma loop_repaired f ev kw ps :
    loop shift nan false f ev kw ps = all_some (map (one f ev kw) ps).
  Proof.
    induction ps as [|p ps IH]; [reflexivity|].
    cbn [loop map all_some]. unfold one at 1.
    destruct (prepare ev kw p) as [[[a off] kw']|]; [|reflexivity].
    rewrite IH. reflexivity.
  Qed.

  (* the complete description of the repaired centroid_sources *)
  Lemma sources_char f ev kw ps :
    sources f ev kw ps =
    match ps with
    | [] => None
    | _ => if forallb (pos_ok ev) ps then all_some (map (per_source f ev kw) ps) else None
    end.
  Proof.
    unfold C17_Model.sources, sources_gen. destruct ps as [|p ps]; [reflexivity|].
    rewrite loop_repaired. reflexivity.
  Qed.

  Lemma sources_per_source f ev kw ps out :
    sources f ev kw ps = Some out -> Forall2 (fun p r => per_source f ev kw p = Some r) ps out.
  Proof.
    rewrite sources_char. destruct ps as [|p ps]; [discriminate|].
    destruct (forallb _ _); [|discriminate]. intros H. apply all_some_Forall2 in H.
    remember (p :: ps) as l eqn:El. clear El. revert out H.
    induction l as [|q l IH]; intros out H; inversion H; subst; constructor; auto.
  Qed.

  Lemma Forall2_nth {A B} (P : A -> B -> Prop) l l' :
    Forall2 P l l' -> length l = length l' /\
    forall i a, nth_error l i = Some a -> exists b, nth_error l' i = Some b /\ P a b.
  Proof.
    induction 1 as [|a b l l' Hab H IH]; [split; [reflexivity|intros [|i] a H; discriminate]|].
    destruct IH as [Hl IH]. split; [cbn; lia|].
    intros [|i] a' Hi; cbn in Hi |- *.
    - injection Hi as <-. exists b. auto.
    - apply IH. exact Hi.
  Qed.

  Lemma sources_index f ev kw ps out :
    sources f ev kw ps = Some out ->
    length out = length ps /\
    forall i p, nth_error ps i = Some p ->
      exists r, nth_error out i = Some r /\ per_source f ev kw p = Some r.
  Proof.
    intros H. apply sources_per_source in H. apply Forall2_nth in H. destruct H as [Hl H].
    split; [lia|exact H].
  Qed.

  (* the result of a position does not depend on the other positions or on where it
     stands in the list *)
  Lemma sources_independent f ev kw ps ps' out out' i j p :
    sources f ev kw ps = Some out -> sources f ev kw ps' = Some out' ->
    nth_error ps i = Some p -> nth_error ps' j = Some p ->
    nth_error out i = nth_error out' j.
  Proof.
    intros H H' Hi Hj.
    destruct (sources_index _ _ _ _ _ H) as [_ K]. destruct (sources_index _ _ _ _ _ H') as [_ K'].
    destruct (K i p Hi) as (r & -> & Hr). destruct (K' j p Hj) as (r' & -> & Hr'). congruence.
  Qed.

  Lemma sources_some_iff f ev kw ps :
    (exists out, sources f ev kw ps = Some out) <->
    ps <> [] /\ (forall p, In p ps -> pos_ok ev p = true /\ per_source f ev kw p <> None).
  Proof.
    rewrite sources_char. destruct ps as [|p0 ps].
    - split; [intros [out H]; discriminate|intros [H _]; congruence].
    - remember (p0 :: ps) as l eqn:El. split.
      + intros [out H]. split; [subst; discriminate|].
        destruct (forallb (pos_ok ev) l) eqn:Ef; [|discriminate].
        intros p Hp. split; [eapply forallb_forall in Ef; eauto|].
        apply all_some_Forall2 in H. clear El Ef. revert out H.
        induction l as [|q l IH]; intros out H; [destruct Hp|].
        inversion H as [|? r ? out' H1 H2]; subst. destruct Hp as [->|Hp]; [congruence|eauto].
      + intros [_ H].
        assert (Ef : forallb (pos_ok ev) l = true) by (apply forallb_forall; intros p Hp; apply H; exact Hp).
        rewrite Ef. clear El Ef. induction l as [|q l IH]; [exists []; reflexivity|].
        cbn [map all_some]. destruct (H q (or_introl eq_refl)) as [_ Hq].
        destruct (per_source f ev kw q) as [r|]; [|congruence].
        destruct IH as [out ->]; [intros p Hp; apply H; right; exact Hp|]. eexists; reflexivity.
  Qed.

  (* any reordering of the positions reorders the results in the same way *)
  Lemma sources_permutation f ev kw ps ps' out :
    Permutation ps ps' -> sources f ev kw ps = Some out ->
    exists out', sources f ev kw ps' = Some out' /\ Permutation (combine ps out) (combine ps' out').
  Proof.
    intros HP H.
    assert (Hex : exists out', sources f ev kw ps' = Some out').
    { apply sources_some_iff. assert (Hs : exists o, sources f ev kw ps = Some o) by eauto.
      apply sources_some_iff in Hs. destruct Hs as [Hne Hall]. split.
      - intros ->. apply Permutation_sym, Permutation_nil in HP. auto.
      - intros p Hp. apply Hall. eapply Permutation_in; [apply Permutation_sym; exact HP|exact Hp]. }
    destruct Hex as [out' H']. exists out'. split; [exact H'|].
    set (g := fun p => match per_source f ev kw p with Some r => r | None => nan end).
    assert (G : forall l o, Forall2 (fun p r => per_source f ev kw p = Some r) l o ->
                            combine l o = map (fun p => (p, g p)) l).
    { induction 1 as [|p r l o Hpr _ IH]; [reflexivity|]. cbn [combine map]. f_equal; [|exact IH].
      unfold g. rewrite Hpr. reflexivity. }
    rewrite (G _ _ (sources_per_source _ _ _ _ _ H)), (G _ _ (sources_per_source _ _ _ _ _ H')).
    apply Permutation_map. exact HP.
  Qed.

  (* what "the centroid function on that position's cutout" is: the cutout of the data,
     the footprint/mask cutout, the cutout of the ORIGINAL error map, the ORIGINAL peak
     guesses translated to the cutout, the other keywords untouched -- whatever was done
     for other positions *)
  Lemma per_source_args f ev kw xp yp :
    let '(ny, nx) := shape (e_data ev) in
    let '(fy, fx) := shape (e_foot ev) in
    let '((y0, y1), (sy0, sy1)) := axis_slices ny fy yp in
    let '((x0, x1), (sx0, sx1)) := axis_slices nx fx xp in
    let fm := map (map negb) (crop sy0 sy1 sx0 sx1 (e_foot ev)) in
    let mc := match e_mask ev with
              | Some m => map2 (map2 orb) (crop y0 y1 x0 x1 m) fm
              | None => fm
              end in
    let both := match (if cf_xp f then k_xpeak kw else None), (if cf_yp f then k_ypeak kw else None) with
                | Some _, Some _ => true | _, _ => false end in
    per_source f ev kw (xp, yp) =
    if forallb (forallb (fun b => b)) mc then None
    else Some (call shift nan f
                 {| a_data := crop y0 y1 x0 x1 (e_data ev);
                    a_mask := mc;
                    a_error := if cf_err f then option_map (crop y0 y1 x0 x1) (k_error kw) else None;
                    a_xpeak := if both then option_map (fun a => (a - inject_Z x0)%Q) (k_xpeak kw) else None;
                    a_ypeak := if both then option_map (fun b => (b - inject_Z y0)%Q) (k_ypeak kw) else None;
                    a_other := k_other kw |} (x0, y0)).
  Proof.
    unfold C17_Model.per_source, prepare.
    destruct (shape (e_data ev)) as [ny nx]. destruct (shape (e_foot ev)) as [fy fx].
    destruct (axis_slices ny fy yp) as [[y0 y1] [sy0 sy1]].
    destruct (axis_slices nx fx xp) as [[x0 x1] [sx0 sx1]].
    cbv zeta. destruct (forallb _ _); [reflexivity|].
    unfold filter_kwargs. cbn [k_error k_xpeak k_ypeak k_other].
    destruct (cf_err f), (cf_xp f), (cf_yp f), (k_xpeak kw), (k_ypeak kw); reflexivity.
  Qed.

  (* the loop before the repair agrees with the repaired one when there is nothing to
     carry: no error map and no peak guesses reach the centroid function *)
  Lemma prepare_nothing_carried ev (kw : kwargs) p a off kw' :
    k_error kw = None -> k_xpeak kw = None -> k_ypeak kw = None ->
    prepare ev kw p = Some (a, off, kw') -> kw' = kw.
  Proof.
    destruct kw as [e xpk ypk o]. cbn [k_error k_xpeak k_ypeak]. intros -> -> ->.
    unfold prepare. destruct p as [xp yp].
    destruct (shape (e_data ev)) as [ny nx]. destruct (shape (e_foot ev)) as [fy fx].
    destruct (axis_slices ny fy yp) as [[y0 y1] [sy0 sy1]].
    destruct (axis_slices nx fx xp) as [[x0 x1] [sx0 sx1]].
    cbv zeta. destruct (forallb _ _); [discriminate|]. cbn. intros [= _ _ <-]. reflexivity.
  Qed.

  Lemma loop_unrepaired_nothing_carried f ev (kw : kwargs) ps :
    k_error kw = None -> k_xpeak kw = None -> k_ypeak kw = None ->
    loop shift nan true f ev kw ps = loop shift nan false f ev kw ps.
  Proof.
    intros He Hx Hy. induction ps as [|p ps IH]; [reflexivity|]. cbn [loop].
    destruct (prepare ev kw p) as [[[a off] kw']|] eqn:Ep; [|reflexivity].
    rewrite (prepare_nothing_carried _ _ _ _ _ _ He Hx Hy Ep), IH. reflexivity.
  Qed.

  Lemma sources_unrepaired_agrees f ev kw ps :
    k_error (filter_kwargs f kw) = None -> k_xpeak (filter_kwargs f kw) = None ->
    k_ypeak (filter_kwargs f kw) = None ->
    sources_unrepaired f ev kw ps = sources f ev kw ps.
  Proof.
    intros He Hx Hy. unfold C17_Model.sources_unrepaired, C17_Model.sources, sources_gen.
    destruct ps as [|p ps]; [reflexivity|]. destruct (forallb _ _); [|reflexivity].
    apply loop_unrepaired_nothing_carried; assumption.
  Qed.
End SourcesProofs.

(* cutouts: pixel (j, i) of the cutout is pixel (y0 + j, x0 + i) of the image *)
Lemma nth_firstn' {A} (d : A) n : forall i l, (i < n)%nat -> nth i (firstn n l) d = nth i l d.
Proof.
  induction n as [|n IH]; intros i l Hi; [lia|].
  destruct l as [|a l]; [destruct i; reflexivity|]. destruct i as [|i]; [reflexivity|].
  cbn [firstn nth]. apply IH. lia.
Qed.
Lemma nth_skipn' {A} (d : A) k : forall i l, nth i (skipn k l) d = nth (k + i) l d.
Proof.
  induction k as [|k IH]; intros i l; [reflexivity|].
  destruct l as [|a l]; [destruct i; reflexivity|]. cbn [skipn Nat.add nth]. apply IH.
Qed.
Lemma slice_nth {A} (d : A) lo hi l i :
  (i < Z.to_nat (hi - lo))%nat -> nth i (slice lo hi l) d = nth (Z.to_nat lo + i) l d.
Proof. intros Hi. unfold slice. rewrite nth_firstn' by exact Hi. apply nth_skipn'. Qed.

Lemma crop_nth {A} (d : A) y0 y1 x0 x1 (im : img A) j i :
  (j < Z.to_nat (y1 - y0))%nat -> (i < Z.to_nat (x1 - x0))%nat ->
  (Z.to_nat y0 + j < length im)%nat ->
  nth i (nth j (crop y0 y1 x0 x1 im) []) d = nth (Z.to_nat x0 + i) (nth (Z.to_nat y0 + j) im []) d.
Proof.
  intros Hj Hi Hlen. unfold crop.
  rewrite (map_nth' _ _ []).
  - rewrite slice_nth by assumption. rewrite (slice_nth [] y0 y1 im j) by assumption. reflexivity.
  - unfold slice. rewrite firstn_length, skipn_length. lia.
Qed.

(* ------------------------------------------------------------------ *)
(* centroid_quadratic ignores the values of masked pixels (any lstsq)   *)
(* ------------------------------------------------------------------ *)
Lemma work_masked_values_ignored data data' m ny nx :
  rect ny nx data -> rect ny nx data' -> rect ny nx m ->
  (forall y x, (y < ny)%nat -> (x < nx)%nat -> pixm (Some m) y x = false ->
               pixd data y x = pixd data' y x) ->
  work data (Some m) = work data' (Some m).
Proof.
  intros [Hl Hr] [Hl' Hr'] [Ml Mr] H. cbn [work].
  apply (list_ext []); [rewrite !map2_length; lia|].
  intros y Hy. rewrite map2_length in Hy.
  rewrite !(map2_nth _ _ _ _ [] []) by lia.
  apply (list_ext None); [rewrite !map2_length, Hr, Hr' by lia; reflexivity|].
  intros x Hx. rewrite map2_length, Hr, Mr in Hx by lia.
  rewrite !(map2_nth _ _ _ _ None false) by (rewrite ?Hr, ?Hr', ?Mr by lia; lia).
  specialize (H y x). unfold pixm, pixd in H.
  destruct (nth x (nth y m []) false); [reflexivity|]. apply H; [lia|lia|reflexivity].
Qed.

Lemma rect_shape {A} ny nx (a b : img A) : rect ny nx a -> rect ny nx b -> shape a = shape b.
Proof.
  intros [Ha Ra] [Hb Rb]. unfold shape, zlen. rewrite Ha, Hb. f_equal.
  destruct a as [|r a], b as [|s b]; cbn in Ha, Hb; try lia.
  cbn [hd]. specialize (Ra O). specialize (Rb O). cbn in Ra, Rb. rewrite Ra, Rb by lia. reflexivity.
Qed.

Lemma quad_pre_masked_values_ignored data data' m ny nx xpeak ypeak fitbox search :
  rect ny nx data -> rect ny nx data' -> rect ny nx m ->
  (forall y x, (y < ny)%nat -> (x < nx)%nat -> pixm (Some m) y x = false ->
               pixd data y x = pixd data' y x) ->
  quad_pre data (Some m) xpeak ypeak fitbox search = quad_pre data' (Some m) xpeak ypeak fitbox search.
Proof.
  intros Hd Hd' Hm H. unfold quad_pre.
  rewrite (rect_shape ny nx data data' Hd Hd').
  rewrite (work_masked_values_ignored data data' m ny nx Hd Hd' Hm H).
  rewrite (same_shape_rect ny nx data m Hd Hm), (same_shape_rect ny nx data' m Hd' Hm).
  reflexivity.
Qed.

Lemma quadratic_masked_values_ignored fit data data' m ny nx xpeak ypeak fitbox search :
  rect ny nx data -> rect ny nx data' -> rect ny nx m ->
  (forall y x, (y < ny)%nat -> (x < nx)%nat -> pixm (Some m) y x = false ->
               pixd data y x = pixd data' y x) ->
  quadratic fit data (Some m) xpeak ypeak fitbox search
  = quadratic fit data' (Some m) xpeak ypeak fitbox search.
Proof.
  intros Hd Hd' Hm H. unfold quadratic.
  rewrite (quad_pre_masked_values_ignored data data' m ny nx) by assumption.
  rewrite (rect_shape ny nx data data' Hd Hd'). reflexivity.
Qed.

(* ------------------------------------------------------------------ *)
(* centroid_quadratic: the rows of the least-squares problem            *)
(* ------------------------------------------------------------------ *)
(* ---- which pixels are handed to lstsq ---- *)
Lemma In_enum_from {A} (l : list A) : forall k i a,
  In (i, a) (enum_from k l) <-> exists n, i = k + Z.of_nat n /\ nth_error l n = Some a.
Proof.
  induction l as [|b l IH]; intros k i a; cbn [enum_from In].
  - split; [intros []|intros [[|n] [_ H]]; discriminate].
  - rewrite IH. split.
    + intros [[= <- <-]|[n [-> Hn]]]; [exists O; split; [lia|reflexivity]|exists (S n); split; [lia|exact Hn]].
    + intros [[|n] [-> Hn]]; cbn in Hn.
      * left. injection Hn as <-. f_equal. lia.
      * right. exists n. split; [lia|exact Hn].
Qed.

Lemma In_cells (w : img (option Z)) x y v :
  In (x, y, v) (cells w) <->
  exists ny nx row, y = Z.of_nat ny /\ x = Z.of_nat nx /\
                    nth_error w ny = Some row /\ nth_error row nx = Some (Some v).
Proof.
  unfold cells. rewrite in_flat_map. split.
  - intros [[yi row] [Hy Hin]]. apply In_enum_from in Hy. destruct Hy as [ny [-> Hrow]].
    apply in_flat_map in Hin. destruct Hin as [[xi o] [Hx Hin]]. cbn [fst snd] in *.
    apply In_enum_from in Hx. destruct Hx as [nx [-> Ho]].
    destruct o as [v'|]; [|destruct Hin]. destruct Hin as [[= <- <- <-]|[]].
    exists ny, nx, row. repeat split; try lia; assumption.
  - intros (ny & nx & row & -> & -> & Hrow & Ho).
    exists (Z.of_nat ny, row). split; [apply In_enum_from; exists ny; split; [lia|exact Hrow]|].
    apply in_flat_map. exists (Z.of_nat nx, Some v). cbn [fst snd].
    split; [apply In_enum_from; exists nx; split; [lia|exact Ho]|left; reflexivity].
Qed.

Ltac break_match H :=
  match type of H with
  | context [match ?x with _ => _ end] =>
      match x with
      | context [match _ with _ => _ end] => fail 1
      | _ => destruct x eqn:?; try discriminate H
      end
  end.

Lemma quad_pre_QFit data mask xpeak ypeak fitbox search x0 x1 y0 y1 pts :
  quad_pre data mask xpeak ypeak fitbox search = QFit x0 x1 y0 y1 pts ->
  pts = filter (in_box x0 x1 y0 y1) (cells (work data mask)) /\ (6 <= length pts)%nat.
Proof.
  unfold quad_pre. intros H. cbv zeta in H.
  repeat break_match H.
  all: injection H as E1 E2 E3 E4 E5; subst x0 x1 y0 y1 pts; split; [reflexivity|apply Nat.ltb_ge; assumption].
Qed.

Lemma nth_error_iff {A} (l : list A) n a d :
  nth_error l n = Some a <-> (n < length l)%nat /\ nth n l d = a.
Proof.
  split.
  - intros H. split; [apply nth_error_Some; congruence|]. apply nth_error_nth. exact H.
  - intros [Hn <-]. apply nth_error_nth'. exact Hn.
Qed.

Lemma work_rect data mask NY NX :
  rect NY NX data -> mask_rect NY NX mask -> rect NY NX (work data mask).
Proof.
  intros [Hl Hr] Hm. destruct mask as [m|]; cbn [work]; [|split; assumption].
  destruct Hm as [Ml Mr]. split; [rewrite map2_length; lia|].
  intros y Hy. rewrite (map2_nth _ _ _ _ [] []) by lia. rewrite map2_length, Hr, Mr by lia. lia.
Qed.

Lemma work_nth data mask NY NX ny nx :
  rect NY NX data -> mask_rect NY NX mask -> (ny < NY)%nat -> (nx < NX)%nat ->
  nth nx (nth ny (work data mask) []) None = if pixm mask ny nx then None else pixd data ny nx.
Proof.
  intros [Hl Hr] Hm Hy Hx. unfold pixm, pixd. destruct mask as [m|]; cbn [work]; [|reflexivity].
  destruct Hm as [Ml Mr]. rewrite (map2_nth _ _ _ _ [] []) by lia.
  rewrite (map2_nth _ _ _ _ None false) by (rewrite ?Hr, ?Mr by lia; lia). reflexivity.
Qed.

Lemma work_pix data mask NY NX ny nx v :
  rect NY NX data -> mask_rect NY NX mask ->
  (exists row, nth_error (work data mask) ny = Some row /\ nth_error row nx = Some (Some v)) <->
  (ny < NY)%nat /\ (nx < NX)%nat /\ pixm mask ny nx = false /\ pixd data ny nx = Some v.
Proof.
  intros Hd Hm. pose proof (work_rect data mask NY NX Hd Hm) as [Wl Wr]. split.
  - intros (row & Hrow & Hv).
    apply (nth_error_iff _ _ _ []) in Hrow. destruct Hrow as [Hy <-]. rewrite Wl in Hy.
    apply (nth_error_iff _ _ _ None) in Hv. destruct Hv as [Hx Hv]. rewrite Wr in Hx by exact Hy.
    rewrite (work_nth data mask NY NX) in Hv by assumption.
    destruct (pixm mask ny nx); [discriminate|]. auto.
  - intros (Hy & Hx & Hmk & Hv). exists (nth ny (work data mask) []). split.
    + apply nth_error_nth'. lia.
    + apply (nth_error_iff _ _ _ None). rewrite Wr by exact Hy. split; [exact Hx|].
      rewrite (work_nth data mask NY NX) by assumption. rewrite Hmk. exact Hv.
Qed.

(* the rows of the least-squares problem are exactly the unmasked finite pixels of the
   fit box, and there are at least six of them *)
Lemma quadratic_fit_points data mask NY NX xpeak ypeak fitbox search x0 x1 y0 y1 pts :
  rect NY NX data -> mask_rect NY NX mask ->
  quad_pre data mask xpeak ypeak fitbox search = QFit x0 x1 y0 y1 pts ->
  (6 <= length pts)%nat /\
  forall x y v,
    In (x, y, v) pts <->
    exists ny nx, y = Z.of_nat ny /\ x = Z.of_nat nx /\
                  x0 <= x < x1 /\ y0 <= y < y1 /\ (ny < NY)%nat /\ (nx < NX)%nat /\
                  pixm mask ny nx = false /\ pixd data ny nx = Some v.
Proof.
  intros Hd Hm H. apply quad_pre_QFit in H. destruct H as [-> Hlen]. split; [exact Hlen|].
  intros x y v. rewrite filter_In, In_cells. unfold in_box. split.
  - intros [(ny & nx & row & -> & -> & Hrow & Hv) Hb].
    exists ny, nx. split; [reflexivity|]. split; [reflexivity|].
    split; [lia|]. split; [lia|]. apply (work_pix data mask NY NX); [assumption|assumption|].
    exists row. auto.
  - intros (ny & nx & -> & -> & Hx & Hy & Hrest). split; [|lia].
    apply (work_pix data mask NY NX) in Hrest; [|assumption|assumption].
    destruct Hrest as (row & Hrow & Hv). exists ny, nx, row. auto.
Qed.


(* ------------------------------------------------------------------ *)
(* centroid_quadratic: the vertex formula (exact rationals)             *)
(* ------------------------------------------------------------------ *)
From Coq Require Import Qfield Lqa.
Local Open Scope Q_scope.
Definition quad_poly (c00 : Q) (c : coef) (x y : Q) : Q :=
  let '(c10, c01, c11, c20, c02) := c in
  c00 + c10 * x + c01 * y + c11 * x * y + c20 * x * x + c02 * y * y.
Definition grad_x (c : coef) (x y : Q) : Q :=
  let '(c10, c01, c11, c20, c02) := c in c10 + 2 * c20 * x + c11 * y.
Definition grad_y (c : coef) (x y : Q) : Q :=
  let '(c10, c01, c11, c20, c02) := c in c01 + c11 * x + 2 * c02 * y.
Definition critical (c : coef) (x y : Q) : Prop := grad_x c x y == 0 /\ grad_y c x y == 0.
(* Hessian [[2 c20, c11], [c11, 2 c02]] negative definite *)
Definition negdef (c : coef) : Prop :=
  let '(c10, c01, c11, c20, c02) := c in c20 < 0 /\ 0 < 4 * c20 * c02 - c11 * c11.
Definition vertex_x (c : coef) : Q := qxnum c / qdet c.
Definition vertex_y (c : coef) : Q := qynum c / qdet c.

Lemma Qle_bool_false a b : Qle_bool a b = false <-> b < a.
Proof.
  split; intros H.
  - apply Qnot_le_lt. intros H'. apply Qle_bool_iff in H'. congruence.
  - destruct (Qle_bool a b) eqn:E; [|reflexivity]. apply Qle_bool_iff in E. lra.
Qed.
Lemma Qlt_bool_iff a b : Qlt_bool a b = true <-> a < b.
Proof. unfold Qlt_bool. rewrite negb_true_iff. apply Qle_bool_false. Qed.
Lemma Qlt_bool_false a b : Qlt_bool a b = false <-> b <= a.
Proof. unfold Qlt_bool. rewrite negb_false_iff. apply Qle_bool_iff. Qed.

Lemma negdef_c02 c10 c01 c11 c20 c02 : negdef (c10, c01, c11, c20, c02) -> c02 < 0.
Proof. cbn. intros [H1 H2]. nra. Qed.

Lemma no_maximum_iff c : no_maximum c = false <-> negdef c.
Proof.
  destruct c as [[[[c10 c01] c11] c20] c02]. unfold no_maximum, qdet, negdef.
  rewrite !orb_false_iff, !andb_false_iff, Qle_bool_false, !Qlt_bool_false, !Qle_bool_false.
  split.
  - intros [[Hd H1] H2]. split; [|lra]. nra.
  - intros [H1 H2]. assert (c02 < 0) by nra. repeat split; try lra. 
Qed.

Lemma Qdiv_shift a b d : ~ d == 0 -> a * d == b -> a == b / d.
Proof. intros Hd H. rewrite <- H. field. exact Hd. Qed.

Lemma vertex_critical c : negdef c -> critical c (vertex_x c) (vertex_y c).
Proof.
  destruct c as [[[[c10 c01] c11] c20] c02]. unfold negdef, critical, vertex_x, vertex_y, grad_x, grad_y, qxnum, qynum, qdet.
  intros [H1 H2]. split; field; lra.
Qed.

Lemma critical_unique c x y : negdef c -> critical c x y -> x == vertex_x c /\ y == vertex_y c.
Proof.
  destruct c as [[[[c10 c01] c11] c20] c02]. unfold negdef, critical, vertex_x, vertex_y, grad_x, grad_y, qxnum, qynum, qdet.
  intros [H1 H2] [G1 G2].
  assert (Hd : ~ 4 * c20 * c02 - c11 * c11 == 0) by lra.
  split; apply Qdiv_shift; try exact Hd.
  - assert (E : x * (4 * c20 * c02 - c11 * c11) - (c01 * c11 - 2 * c02 * c10)
                == 2 * c02 * (c10 + 2 * c20 * x + c11 * y) - c11 * (c01 + c11 * x + 2 * c02 * y)) by ring.
    rewrite G1, G2 in E. lra.
  - assert (E : y * (4 * c20 * c02 - c11 * c11) - (c10 * c11 - 2 * c20 * c01)
                == 2 * c20 * (c01 + c11 * x + 2 * c02 * y) - c11 * (c10 + 2 * c20 * x + c11 * y)) by ring.
    rewrite G1, G2 in E. lra.
Qed.

(* the value at (x, y) relative to a critical point (xm, ym) *)
Lemma poly_around_critical c00 c xm ym x y :
  critical c xm ym ->
  let '(c10, c01, c11, c20, c02) := c in
  quad_poly c00 c x y - quad_poly c00 c xm ym
  == c20 * (x - xm) * (x - xm) + c11 * (x - xm) * (y - ym) + c02 * (y - ym) * (y - ym).
Proof.
  destruct c as [[[[c10 c01] c11] c20] c02]. unfold critical, grad_x, grad_y, quad_poly. intros [G1 G2].
  assert (E : c00 + c10 * x + c01 * y + c11 * x * y + c20 * x * x + c02 * y * y
              - (c00 + c10 * xm + c01 * ym + c11 * xm * ym + c20 * xm * xm + c02 * ym * ym)
              == (c10 + 2 * c20 * xm + c11 * ym) * (x - xm) + (c01 + c11 * xm + 2 * c02 * ym) * (y - ym)
                 + (c20 * (x - xm) * (x - xm) + c11 * (x - xm) * (y - ym) + c02 * (y - ym) * (y - ym))) by ring.
  rewrite E, G1, G2. ring.
Qed.

Lemma Qsq_nonneg q : 0 <= q * q.
Proof.
  destruct (Qlt_le_dec q 0) as [H|H].
  - setoid_replace (q * q) with ((- q) * (- q)) by ring. apply Qmult_le_0_compat; lra.
  - apply Qmult_le_0_compat; lra.
Qed.
Lemma Qsq_zero q : q * q == 0 -> q == 0.
Proof.
  intros H. destruct (Qmult_integral _ _ H); assumption.
Qed.

Lemma negdef_form c20 c11 c02 u v :
  c20 < 0 -> 0 < 4 * c20 * c02 - c11 * c11 ->
  c20 * u * u + c11 * u * v + c02 * v * v <= 0 /\
  (c20 * u * u + c11 * u * v + c02 * v * v == 0 -> u == 0 /\ v == 0).
Proof.
  intros H1 H2.
  assert (E : 4 * c20 * (c20 * u * u + c11 * u * v + c02 * v * v)
              == (2 * c20 * u + c11 * v) * (2 * c20 * u + c11 * v) + (4 * c20 * c02 - c11 * c11) * (v * v)) by ring.
  pose proof (Qsq_nonneg (2 * c20 * u + c11 * v)) as S1.
  pose proof (Qsq_nonneg v) as S2.
  assert (S3 : 0 <= (4 * c20 * c02 - c11 * c11) * (v * v)) by (apply Qmult_le_0_compat; lra).
  split.
  { apply Qnot_lt_le. intros Hpos.
    assert (0 < (- c20) * (c20 * u * u + c11 * u * v + c02 * v * v)) by (apply Qmult_lt_0_compat; lra).
    lra. }
  intros Z0. rewrite Z0 in E.
  assert (S3z : (4 * c20 * c02 - c11 * c11) * (v * v) == 0) by lra.
  assert (V : v * v == 0) by (destruct (Qmult_integral _ _ S3z); [lra|assumption]).
  assert (V0 : v == 0) by (apply Qsq_zero; exact V).
  assert (U : (2 * c20 * u + c11 * v) * (2 * c20 * u + c11 * v) == 0) by lra.
  apply Qsq_zero in U. rewrite V0 in U.
  split; [|exact V0].
  assert (U' : c20 * u == 0) by lra.
  destruct (Qmult_integral _ _ U'); [lra|assumption].
Qed.

Lemma vertex_maximum c00 c x y :
  negdef c ->
  quad_poly c00 c x y <= quad_poly c00 c (vertex_x c) (vertex_y c) /\
  (quad_poly c00 c x y == quad_poly c00 c (vertex_x c) (vertex_y c) -> x == vertex_x c /\ y == vertex_y c).
Proof.
  intros Hn. pose proof (poly_around_critical c00 c _ _ x y (vertex_critical c Hn)) as E.
  destruct c as [[[[c10 c01] c11] c20] c02]. destruct Hn as [H1 H2].
  destruct (negdef_form c20 c11 c02 (x - vertex_x (c10, c01, c11, c20, c02)) (y - vertex_y (c10, c01, c11, c20, c02)) H1 H2) as [F1 F2].
  split; [lra|]. intros Heq. rewrite Heq in E.
  destruct F2 as [U V]; [lra|]. split; lra.
Qed.

Definition inside (c : coef) (nx ny : Z) : Prop :=
  0 < vertex_x c /\ vertex_x c < inject_Z (nx - 1) /\ 0 < vertex_y c /\ vertex_y c < inject_Z (ny - 1).

Lemma quad_post_iff c nx ny v :
  quad_post c nx ny = Some v <-> negdef c /\ inside c nx ny /\ v = (vertex_x c, vertex_y c).
Proof.
  unfold quad_post, inside, vertex_x, vertex_y. cbv zeta.
  set (xm := qxnum c / qdet c). set (ym := qynum c / qdet c).
  destruct (no_maximum c) eqn:En.
  - split; [discriminate|]. intros [Hn _]. apply no_maximum_iff in Hn. congruence.
  - apply no_maximum_iff in En.
    destruct (Qlt_bool 0 xm && Qlt_bool xm (inject_Z (nx - 1)) && Qlt_bool 0 ym
              && Qlt_bool ym (inject_Z (ny - 1))) eqn:Ec.
    + rewrite !andb_true_iff, !Qlt_bool_iff in Ec. split.
      * intros [= <-]. split; [exact En|]. split; [tauto|reflexivity].
      * intros (_ & _ & ->). reflexivity.
    + split; [discriminate|]. intros (_ & (I1 & I2 & I3 & I4) & _).
      apply Qlt_bool_iff in I1, I2, I3, I4. rewrite I1, I2, I3, I4 in Ec. discriminate.
Qed.

Lemma quad_post_vertex c nx ny :
  negdef c -> inside c nx ny -> quad_post c nx ny = Some (vertex_x c, vertex_y c).
Proof. intros. apply quad_post_iff. auto. Qed.

(* ---- exactly quadratic data ---- *)
Definition coef_eq (a b : coef) : Prop :=
  let '(a10, a01, a11, a20, a02) := a in let '(b10, b01, b11, b20, b02) := b in
  a10 == b10 /\ a01 == b01 /\ a11 == b11 /\ a20 == b20 /\ a02 == b02.
Definition on_quadric (k : Q) (c : coef) (pts : list pt) : Prop :=
  forall x y v, In (x, y, v) pts -> inject_Z v == quad_poly k c (inject_Z x) (inject_Z y).
(* the sum of squared residuals minimised by numpy.linalg.lstsq *)
Fixpoint resid (k : Q) (c : coef) (pts : list pt) : Q :=
  match pts with
  | [] => 0
  | (x, y, v) :: r =>
      (inject_Z v - quad_poly k c (inject_Z x) (inject_Z y))
      * (inject_Z v - quad_poly k c (inject_Z x) (inject_Z y)) + resid k c r
  end.
Definition least_squares (sol : coef) (pts : list pt) : Prop :=
  exists k, forall k' c', resid k sol pts <= resid k' c' pts.
(* six points of a 3x3 block of pixels: enough to determine a quadric *)
Definition has_stencil (pts : list pt) : Prop :=
  exists x0 y0 v00 v10 v20 v01 v02 v11,
    In (x0, y0, v00) pts /\ In ((x0 + 1)%Z, y0, v10) pts /\ In ((x0 + 2)%Z, y0, v20) pts /\
    In (x0, (y0 + 1)%Z, v01) pts /\ In (x0, (y0 + 2)%Z, v02) pts /\ In ((x0 + 1)%Z, (y0 + 1)%Z, v11) pts.

Lemma resid_nonneg k c pts : 0 <= resid k c pts.
Proof.
  induction pts as [|[[x y] v] r IH]; cbn [resid]; [lra|].
  pose proof (Qsq_nonneg (inject_Z v - quad_poly k c (inject_Z x) (inject_Z y))). lra.
Qed.

Lemma resid_zero_iff k c pts : resid k c pts <= 0 <-> on_quadric k c pts.
Proof.
  induction pts as [|[[x y] v] r IH]; cbn [resid].
  - split; [intros _ x y v []|lra].
  - pose proof (Qsq_nonneg (inject_Z v - quad_poly k c (inject_Z x) (inject_Z y))) as S.
    pose proof (resid_nonneg k c r) as N. split.
    + intros H x' y' v' [[= <- <- <-]|Hin].
      * assert (Z0 : (inject_Z v - quad_poly k c (inject_Z x) (inject_Z y))
                     * (inject_Z v - quad_poly k c (inject_Z x) (inject_Z y)) == 0) by lra.
        apply Qsq_zero in Z0. lra.
      * apply IH; [lra|exact Hin].
    + intros H.
      assert (H0 : inject_Z v == quad_poly k c (inject_Z x) (inject_Z y)) by (apply H; left; reflexivity).
      assert (Hr : resid k c r <= 0) by (apply IH; intros x' y' v' Hin; apply H; right; exact Hin).
      setoid_replace (inject_Z v - quad_poly k c (inject_Z x) (inject_Z y)) with 0 by lra. lra.
Qed.

Lemma quadric_unisolvent k c k' c' pts :
  has_stencil pts -> on_quadric k c pts -> on_quadric k' c' pts -> coef_eq c c'.
Proof.
  intros (x0 & y0 & v00 & v10 & v20 & v01 & v02 & v11 & I00 & I10 & I20 & I01 & I02 & I11) H H'.
  pose proof (H _ _ _ I00) as A00. pose proof (H' _ _ _ I00) as B00.
  pose proof (H _ _ _ I10) as A10. pose proof (H' _ _ _ I10) as B10.
  pose proof (H _ _ _ I20) as A20. pose proof (H' _ _ _ I20) as B20.
  pose proof (H _ _ _ I01) as A01. pose proof (H' _ _ _ I01) as B01.
  pose proof (H _ _ _ I02) as A02. pose proof (H' _ _ _ I02) as B02.
  pose proof (H _ _ _ I11) as A11. pose proof (H' _ _ _ I11) as B11.
  rewrite ?inject_Z_plus in *.
  set (X := inject_Z x0) in *. set (Y := inject_Z y0) in *.
  change (inject_Z 1) with 1 in *. change (inject_Z 2) with 2 in *.
  destruct c as [[[[a10 a01] a11] a20] a02]. destruct c' as [[[[b10 b01] b11] b20] b02].
  unfold quad_poly in *. unfold coef_eq.
  assert (E20 : a20 == b20) by lra.
  assert (E02 : a02 == b02) by lra.
  assert (E11 : a11 == b11) by lra.
  rewrite E20, E02, E11 in *.
  assert (E10 : a10 == b10) by lra.
  assert (E01 : a01 == b01) by lra.
  repeat split; try assumption; reflexivity.
Qed.

Lemma negdef_compat c c' : coef_eq c c' -> negdef c -> negdef c'.
Proof.
  destruct c as [[[[a10 a01] a11] a20] a02]. destruct c' as [[[[b10 b01] b11] b20] b02].
  unfold coef_eq, negdef. intros (E1 & E2 & E3 & E4 & E5). rewrite E3, E4, E5. auto.
Qed.
Lemma vertex_compat c c' :
  coef_eq c c' -> vertex_x c' == vertex_x c /\ vertex_y c' == vertex_y c.
Proof.
  destruct c as [[[[a10 a01] a11] a20] a02]. destruct c' as [[[[b10 b01] b11] b20] b02].
  unfold coef_eq, vertex_x, vertex_y, qxnum, qynum, qdet. intros (E1 & E2 & E3 & E4 & E5).
  rewrite E1, E2, E3, E4, E5. split; reflexivity.
Qed.
Lemma inside_compat c c' nx ny : coef_eq c c' -> inside c nx ny -> inside c' nx ny.
Proof.
  intros E. destruct (vertex_compat c c' E) as [Ex Ey]. unfold inside. rewrite Ex, Ey. auto.
Qed.

Lemma least_squares_exact sol k c pts :
  has_stencil pts -> on_quadric k c pts -> least_squares sol pts -> coef_eq c sol.
Proof.
  intros Hs Hq [k0 Hmin]. specialize (Hmin k c).
  apply resid_zero_iff in Hq.
  assert (H0 : on_quadric k0 sol pts) by (apply resid_zero_iff; lra).
  apply resid_zero_iff in Hq. eapply quadric_unisolvent; eauto.
Qed.

Section QuadraticProofs.
  Variable fit : list pt -> coef.

  (* whatever centroid_quadratic returns is: the border pixel holding the maximum, or
     the unique critical point (strict maximum) of the fitted polynomial, which then is
     negative definite and has its vertex strictly inside the image *)
  Lemma quadratic_value_cases data mask xpeak ypeak fitbox search x y :
    quadratic fit data mask xpeak ypeak fitbox search = QRVal x y ->
    (exists xi yi, quad_pre data mask xpeak ypeak fitbox search = QEdge xi yi /\
                   x = inject_Z xi /\ y = inject_Z yi) \/
    (exists x0 x1 y0 y1 pts,
        quad_pre data mask xpeak ypeak fitbox search = QFit x0 x1 y0 y1 pts /\
        negdef (fit pts) /\ inside (fit pts) (snd (shape data)) (fst (shape data)) /\
        x = vertex_x (fit pts) /\ y = vertex_y (fit pts)).
  Proof.
    unfold quadratic. destruct (quad_pre data mask xpeak ypeak fitbox search) as [|xi yi| |x0 x1 y0 y1 pts] eqn:E;
      try discriminate.
    - intros [= <- <-]. left. exists xi, yi. auto.
    - destruct (quad_post _ _ _) as [[x' y']|] eqn:Ep; [|discriminate]. intros [= <- <-].
      apply quad_post_iff in Ep. destruct Ep as (Hn & Hi & [= -> ->]).
      right. exists x0, x1, y0, y1, pts. auto.
  Qed.

  Lemma quadratic_vertex_fit data mask xpeak ypeak fitbox search x0 x1 y0 y1 pts :
    quad_pre data mask xpeak ypeak fitbox search = QFit x0 x1 y0 y1 pts ->
    negdef (fit pts) -> inside (fit pts) (snd (shape data)) (fst (shape data)) ->
    quadratic fit data mask xpeak ypeak fitbox search = QRVal (vertex_x (fit pts)) (vertex_y (fit pts)).
  Proof.
    intros E Hn Hi. unfold quadratic. rewrite E, (quad_post_vertex _ _ _ Hn Hi). reflexivity.
  Qed.

  (* exactly quadratic peak: the fitted points lie on a negative definite quadric whose
     vertex is strictly inside the image; lstsq is assumed to return a least-squares
     solution *)
  Lemma quadratic_exact data mask xpeak ypeak fitbox search x0 x1 y0 y1 pts k c :
    quad_pre data mask xpeak ypeak fitbox search = QFit x0 x1 y0 y1 pts ->
    has_stencil pts -> on_quadric k c pts -> negdef c ->
    inside c (snd (shape data)) (fst (shape data)) ->
    least_squares (fit pts) pts ->
    exists x y, quadratic fit data mask xpeak ypeak fitbox search = QRVal x y /\
                x == vertex_x c /\ y == vertex_y c /\ critical c x y.
  Proof.
    intros E Hs Hq Hn Hi Hls.
    pose proof (least_squares_exact _ _ _ _ Hs Hq Hls) as Ec.
    exists (vertex_x (fit pts)), (vertex_y (fit pts)).
    destruct (vertex_compat _ _ Ec) as [Ex Ey].
    split; [|split; [exact Ex|split; [exact Ey|]]].
    - apply (quadratic_vertex_fit _ _ _ _ _ _ x0 x1 y0 y1); [exact E|eapply negdef_compat; eauto|eapply inside_compat; eauto].
    - pose proof (vertex_critical c Hn) as [G1 G2].
      destruct c as [[[[c10 c01] c11] c20] c02]. unfold critical, grad_x, grad_y in *.
      rewrite Ex, Ey. auto.
  Qed.
End QuadraticProofs.

(* everything about the vertex formula in one statement *)
Lemma quadratic_vertex_full c00 c :
  negdef c ->
  critical c (vertex_x c) (vertex_y c) /\
  (forall x y, critical c x y -> x == vertex_x c /\ y == vertex_y c) /\
  (forall x y, quad_poly c00 c x y <= quad_poly c00 c (vertex_x c) (vertex_y c)) /\
  (forall x y, quad_poly c00 c x y == quad_poly c00 c (vertex_x c) (vertex_y c) ->
               x == vertex_x c /\ y == vertex_y c).
Proof.
  intros Hn. split; [apply vertex_critical; exact Hn|].
  split; [intros x y; apply critical_unique; exact Hn|].
  split; intros x y; apply (vertex_maximum c00 c x y Hn).
Qed.

(* ---- the vertex formula under the coefficient changes induced by flips,
        transposition and rescaling of the fitted surface ---- *)

Definition coef_scale (k : Q) (c : coef) : coef :=
  let '(c10, c01, c11, c20, c02) := c in (k * c10, k * c01, k * c11, k * c20, k * c02).
(* coefficients of (x, y) |-> P (a - x, y) *)
Definition coef_flipx (a : Q) (c : coef) : coef :=
  let '(c10, c01, c11, c20, c02) := c in (- (c10 + 2 * c20 * a), c01 + c11 * a, - c11, c20, c02).
(* coefficients of (x, y) |-> P (y, x) *)
Definition coef_swap (c : coef) : coef :=
  let '(c10, c01, c11, c20, c02) := c in (c01, c10, c11, c02, c20).

Lemma coef_scale_poly k c00 c x y : quad_poly (k * c00) (coef_scale k c) x y == k * quad_poly c00 c x y.
Proof. destruct c as [[[[c10 c01] c11] c20] c02]. unfold quad_poly, coef_scale. ring. Qed.
Lemma coef_flipx_poly a c00 c x y :
  let '(c10, c01, c11, c20, c02) := c in
  quad_poly (c00 + c10 * a + c20 * a * a) (coef_flipx a c) x y == quad_poly c00 c (a - x) y.
Proof. destruct c as [[[[c10 c01] c11] c20] c02]. unfold quad_poly, coef_flipx. ring. Qed.
Lemma coef_swap_poly c00 c x y : quad_poly c00 (coef_swap c) x y == quad_poly c00 c y x.
Proof. destruct c as [[[[c10 c01] c11] c20] c02]. unfold quad_poly, coef_swap. ring. Qed.

Lemma vertex_scale k c :
  0 < k -> negdef c ->
  negdef (coef_scale k c) /\
  vertex_x (coef_scale k c) == vertex_x c /\ vertex_y (coef_scale k c) == vertex_y c.
Proof.
  destruct c as [[[[c10 c01] c11] c20] c02].
  unfold negdef, coef_scale, vertex_x, vertex_y, qxnum, qynum, qdet. intros Hk [H1 H2].
  assert (Hkk : 0 < k * k) by (apply Qmult_lt_0_compat; assumption).
  assert (Hd : 0 < (k * k) * (4 * c20 * c02 - c11 * c11)) by (apply Qmult_lt_0_compat; assumption).
  assert (Hn : 0 < k * (- c20)) by (apply Qmult_lt_0_compat; lra).
  split; [split; lra|]. split; field; lra.
Qed.

Lemma vertex_flipx a c :
  negdef c ->
  negdef (coef_flipx a c) /\
  vertex_x (coef_flipx a c) == a - vertex_x c /\ vertex_y (coef_flipx a c) == vertex_y c.
Proof.
  destruct c as [[[[c10 c01] c11] c20] c02].
  unfold negdef, coef_flipx, vertex_x, vertex_y, qxnum, qynum, qdet. intros [H1 H2].
  split; [split; lra|]. split; field; lra.
Qed.

Lemma vertex_swap c :
  negdef c ->
  negdef (coef_swap c) /\
  vertex_x (coef_swap c) == vertex_y c /\ vertex_y (coef_swap c) == vertex_x c.
Proof.
  intros Hn. destruct c as [[[[c10 c01] c11] c20] c02]. pose proof (negdef_c02 _ _ _ _ _ Hn) as H0.
  unfold negdef, coef_swap, vertex_x, vertex_y, qxnum, qynum, qdet in *. destruct Hn as [H1 H2].
  split; [split; lra|]. split; field; lra.
Qed.

Local Close Scope Q_scope.
Local Open Scope Z_scope.

(* ------------------------------------------------------------------ *)
(* the loop before the repair (keyword dictionary updated in place)     *)
(* ------------------------------------------------------------------ *)
Definition ones6 : img (option Z) := repeat (repeat (Some 1) 6) 6.
Definition foot3 : img bool := repeat (repeat true 3) 3.
Definition err6 : img Z :=
  [[1;2;3;4;5;6]; [2;3;4;5;6;7]; [3;4;5;6;7;8]; [4;5;6;7;8;9]; [5;6;7;8;9;1]; [6;7;8;9;1;2]].
Definition two_pos : list (Q * Q) := [(1 # 1, 1 # 1); (4 # 1, 4 # 1)]%Q.

(* error map: the second source receives a cutout of the first source's cutout *)
Lemma unrepaired_error_witness :
  exists (f : @cfun Z unit fres) ev kw ps out i p r,
    sources_unrepaired fshift None f ev kw ps = Some out /\
    nth_error ps i = Some p /\
    per_source fshift None f ev kw p = Some r /\
    nth_error out i <> Some r.
Proof.
  exists cf_probe, (mk_env ones6 foot3 None), (mk_kwargs (Some err6) None None tt), two_pos.
  eexists. exists 1%nat. eexists. eexists.
  split; [vm_compute; reflexivity|]. split; [reflexivity|]. split; [vm_compute; reflexivity|].
  vm_compute. discriminate.
Qed.

(* xpeak / ypeak: the offsets of all previous cutouts accumulate *)
Lemma unrepaired_peak_witness :
  exists (f : @cfun Z unit fres) ev kw ps out i p r,
    sources_unrepaired fshift None f ev kw ps = Some out /\
    nth_error ps i = Some p /\
    per_source fshift None f ev kw p = Some r /\
    nth_error out i <> Some r.
Proof.
  exists cf_probe, (mk_env ones6 foot3 None), (mk_kwargs None (Some (3 # 1)%Q) (Some (3 # 1)%Q) tt),
    [(2 # 1, 2 # 1); (4 # 1, 4 # 1)]%Q.
  eexists. exists 1%nat. eexists. eexists.
  split; [vm_compute; reflexivity|]. split; [reflexivity|]. split; [vm_compute; reflexivity|].
  vm_compute. discriminate.
Qed.

(* the repaired loop on the same inputs *)
Lemma repaired_error_example :
  exists out, sources fshift None cf_probe (mk_env ones6 foot3 None)
                      (mk_kwargs (Some err6) None None tt) two_pos = Some out /\
              Forall2 (fun p r => per_source fshift None cf_probe (mk_env ones6 foot3 None)
                                             (mk_kwargs (Some err6) None None tt) p = Some r)
                      two_pos out /\
              Forall (fun r => r <> None) out.
Proof.
  eexists. split; [vm_compute; reflexivity|]. split.
  - repeat constructor.
  - repeat constructor; discriminate.
Qed.
