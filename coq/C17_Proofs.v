From Coq Require Import List ZArith QArith Bool Lia.
From PV Require Import lib.Cases C17_Model.
Import ListNotations.
