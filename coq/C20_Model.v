(* C20 — model of the control logic of photutils.isophote:
     (A) EllipseGeometry._to_polar_scalar / _to_polar_vectorized (geometry.py:446-500),
         update_sma / reset_sma (geometry.py:502-553);
     (B) the control skeleton of Ellipse.fit_image / fit_isophote / _fix_last_isophote
         (ellipse.py:386-510, 634-654, 685-708) driven by an ORACLE STREAM of fit outcomes
         (stop_code, valid) that stands for EllipseFitter.fit (library numerics, not modelled);
     (C) the fixed-parameter masking of EllipseFitter.fit (fitter.py:146-244), the four
         correctors' frame (fitter.py:288-370) and _check_conditions (fitter.py:247-285),
         driven by an oracle list of per-iteration observations.
   Everything is polymorphic in a record of numeric operations [num]: the theorems
   instantiate it with exact rationals (Q); the correspondence check instantiates it with
   Coq's primitive IEEE-754 binary64 floats, so that the model computes bit-for-bit what
   Python computes.  The inward loop is the REPAIRED one (fixes/C20-1: the sma is tested
   before each inward fit); [top_test := false] gives the unrepaired loop (ellipse.py:475-500
   of the snapshot), kept to state the defect as a refutation.  The fitter model has the
   zero-gradient exit of fixes/C20-2 (the snapshot divides by the gradient there and crashes
   in the integrator) and keeps a fixed position angle when eps changes sign (fixes/C20-4). *)
From Coq Require Import List ZArith Bool QArith Floats Uint63.
From PV Require Import lib.Cases.
Import ListNotations.

Record num := {
  T :> Type;
  n0 : T; n05 : T; n1 : T;
  add : T -> T -> T; sub : T -> T -> T; mul : T -> T -> T; div : T -> T -> T;
  opp : T -> T;
  ltb : T -> T -> bool; leb : T -> T -> bool; eqb : T -> T -> bool }.

(* ------------------------------------------------------------------ *)
(* (A) polar transform twins                                           *)
(* ------------------------------------------------------------------ *)
Section Polar.
Context {A : Type}.
Variables (padd psub pmul pdiv : A -> A -> A) (psqrt pasin pabs : A -> A)
          (pltb pleb : A -> A -> bool) (c0 c1 c2 pi : A).

Definition twopi := pmul c2 pi.                     (* 2 * np.pi *)

(* geometry.py:446-472 *)
Definition to_polar_scalar (x0 y0 pa x y : A) : A * A :=
  let x1 := psub x x0 in
  let y1 := psub y y0 in
  let r2 := padd (pmul x1 x1) (pmul y1 y1) in
  let ra := if pltb c0 r2
            then let r := psqrt r2 in (r, pasin (pdiv (pabs y1) r))
            else (c0, c1) in
  let angle := snd ra in
  let angle := if pleb c0 x1 && pltb y1 c0 then psub twopi angle
               else if pltb x1 c0 && pleb c0 y1 then psub pi angle
               else if pltb x1 c0 && pltb y1 c0 then padd pi angle
               else angle in
  let pa1 := if pltb pa c0 then padd pa twopi else pa in
  let angle := psub angle pa1 in
  let angle := if pltb angle c0 then padd angle twopi else angle in
  (fst ra, angle).

(* numpy boolean-mask read  a[m]  and write  a[m] = v *)
Fixpoint mselect (l : list A) (m : list bool) : list A :=
  match l, m with
  | x :: l', b :: m' => if b then x :: mselect l' m' else mselect l' m'
  | _, _ => []
  end.
Fixpoint massign (l : list A) (m : list bool) (v : list A) : list A :=
  match l, m with
  | x :: l', true :: m' =>
      match v with
      | y :: v' => y :: massign l' m' v'
      | [] => x :: massign l' m' []
      end
  | x :: l', false :: m' => x :: massign l' m' v
  | _, _ => l
  end.
Fixpoint map2 {B C D} (f : B -> C -> D) (a : list B) (b : list C) : list D :=
  match a, b with
  | x :: a', y :: b' => f x y :: map2 f a' b'
  | _, _ => []
  end.

(* geometry.py:474-500, statement by statement *)
Definition to_polar_vec (x0 y0 pa : A) (xs ys : list A) : list A * list A :=
  let x1 := map (fun x => psub x x0) xs in
  let y1 := map (fun y => psub y y0) ys in
  let radius := map2 (fun a b => padd (pmul a a) (pmul b b)) x1 y1 in
  let angle := map (fun _ => c1) radius in
  let imask := map (fun r => pltb c0 r) radius in
  let nmask := map negb imask in
  let radius := massign radius imask (map psqrt (mselect radius imask)) in
  let angle := massign angle imask
                 (map pasin (map2 pdiv (map pabs (mselect y1 imask)) (mselect radius imask))) in
  let radius := massign radius nmask (map (fun _ => c0) (mselect radius nmask)) in
  let angle := massign angle nmask (map (fun _ => c1) (mselect angle nmask)) in
  let idx := map2 (fun a b => pleb c0 a && pltb b c0) x1 y1 in
  let angle := massign angle idx (map (fun a => psub twopi a) (mselect angle idx)) in
  let idx := map2 (fun a b => pltb a c0 && pleb c0 b) x1 y1 in
  let angle := massign angle idx (map (fun a => psub pi a) (mselect angle idx)) in
  let idx := map2 (fun a b => pltb a c0 && pltb b c0) x1 y1 in
  let angle := massign angle idx (map (fun a => padd pi a) (mselect angle idx)) in
  let pa1 := if pltb pa c0 then padd pa twopi else pa in
  let angle := map (fun a => psub a pa1) angle in
  let neg := map (fun a => pltb a c0) angle in
  let angle := massign angle neg (map (fun a => padd a twopi) (mselect angle neg)) in
  (radius, angle).
End Polar.

(* ------------------------------------------------------------------ *)
(* (B) sma schedule / control skeleton of Ellipse.fit_image            *)
(* ------------------------------------------------------------------ *)
Section Sched.
Variable N : num.

(* geometry.py:502-524 and 526-553 *)
Definition update_sma (lin : bool) (sma step : N) : N :=
  if lin then add N sma step else mul N sma (add N (n1 N) step).
Definition reset_sma (lin : bool) (sma step : N) : N * N :=
  if lin then (sub N sma step, opp N step)
  else let aux := div N (n1 N) (add N (n1 N) step) in (mul N sma aux, sub N aux (n1 N)).

Definition truthy (x : N) : bool := negb (eqb N x (n0 N)).          (* Python truth of a float *)
Definition otruthy (x : option N) : bool := match x with Some v => truthy v | None => false end.
Definition pymax (a b : N) : N := if ltb N a b then b else a.          (* builtin max(a, b) *)

(* [i_geom]: provenance of the isophote's geometry (centre, eps, PA) = the number of the fit_isophote call
   whose FITTER produced it (1 = first call); 0 = the caller's first-guess geometry.  Fitted isophotes carry
   their own call number; non-iterative ones (stop code 4), the central one and those repaired by
   _fix_last_isophote (fix_geometry) carry a copy of another isophote's geometry. *)
Record iso := mkiso { i_sma : N; i_code : Z; i_valid : bool; i_geom : Z }.
(* one call of Ellipse.fit_isophote: sma, noniterate, going_inwards, minit doubled *)
Record call := mkcall { c_sma : N; c_noniter : bool; c_inw : bool; c_first : bool }.
Definition outcome := (Z * bool)%type.                                 (* (stop_code, valid) *)

(* ellipse.py:634-654 with _iterative (656-672) and _non_iterative (674-682):
   non-iterative mode gives (4, valid) without consulting the fitter; sma <= 0 is the
   central pixel (0, valid); otherwise the next oracle outcome.  None = oracle exhausted. *)
Definition last_geom (l : list iso) : Z :=
  match rev l with [] => 0%Z | j :: _ => i_geom j end.

(* [tok] = number of this call.  ellipse.py:634-640: the geometry handed to BOTH branches is that of the
   most recent isophote of the list (the first guess while the list is empty): the fitter starts from it
   and returns its own ([tok]); _non_iterative and the central sample just copy it. *)
Definition fit_isophote (maxrit : option N) (sma : N) (noniter : bool) (tok : Z)
           (l : list iso) (s : list outcome) : option (iso * list iso * list outcome) :=
  let nonit := noniter || match maxrit with
                          | Some m => truthy m && ltb N m sma
                          | None => false
                          end in
  let gin := last_geom l in
  let r := if nonit then Some (4%Z, true, gin, s)
           else if ltb N (n0 N) sma
                then match s with
                     | [] => None
                     | (c, v) :: s' => Some (c, v, tok, s')
                     end
                else Some (0%Z, true, gin, s) in
  match r with
  | None => None
  | Some (c, v, g, s') => let i := mkiso sma c v g in Some (i, if v then l ++ [i] else l, s')
  end.

(* ellipse.py:685-708; None = IndexError (isophote_list[index] on an empty list).
   fix_geometry copies eps/pa/x0/y0 of isophote_list[index] AFTER the pop ([first] = index 0: the first
   isophote, inward pass; otherwise index -1: the new last one, outward pass): the sma stays. *)
Definition fix_last (first : bool) (l : list iso) : option (list iso) :=
  match rev l with
  | [] => Some l
  | i :: r =>
      match r with
      | [] => None
      | k :: _ =>
          let g := if first then match rev r with f :: _ => i_geom f | [] => 0%Z end else i_geom k in
          Some (rev r ++ [mkiso (i_sma i) (if (i_code i <? 0)%Z then 5%Z else i_code i) (i_valid i) g])
      end
  end.

Definition last_opt (l : list iso) : option iso :=
  match rev l with [] => None | i :: _ => Some i end.
Definition code_m2 (l : list iso) : Z :=                               (* isophote_list[-2].stop_code *)
  match rev l with _ :: j :: _ => i_code j | _ => 0%Z end.

Inductive result :=
| Ret (isos : list iso)      (* an IsophoteList is returned *)
| IndexErr                   (* IndexError escapes from fit_image *)
| Starved                    (* the oracle stream ran out: the real loop would go on *)
| Fuel.                      (* model fuel exhausted *)

Section Run.
Variables (lin : bool) (step minsma : N) (maxsma maxrit : option N).

Inductive after := AEmpty | AErr | ABreak (l : list iso) | ACont (l : list iso) (noiter : bool).

(* ellipse.py:425-458 *)
Definition out_failure (i : iso) (l1 : list iso) (noiter : bool) : after :=
  if (i_code i <? 0)%Z || (i_code i =? 1)%Z then
    if (length l1 =? 1)%nat then AEmpty
    else match fix_last false l1 with
         | None => AErr
         | Some l2 =>
             match last_opt l2 with
             | None => AErr
             | Some j =>
                 if (2 <? length l2)%nat
                    && (((i_code j =? 5)%Z && (code_m2 l2 =? 5)%Z) || (i_code j =? 1)%Z)
                 then match maxsma with
                      | Some m => if truthy m && ltb N (i_sma j) m then ACont l2 true else ABreak l2
                      | None => ABreak l2
                      end
                 else ACont l2 noiter
             end
         end
  else ACont l1 noiter.

Inductive phase := PDone (l : list iso) (s : list outcome) (calls : list call)
                 | PStop (r : result) (calls : list call).

(* ellipse.py:411-468 *)
Fixpoint outward (fuel : nat) (sma : N) (noiter first : bool)
         (l : list iso) (s : list outcome) (calls : list call) : phase :=
  match fuel with
  | O => PStop Fuel calls
  | S f =>
      let calls := calls ++ [mkcall sma noiter false first] in
      match fit_isophote maxrit sma noiter (Z.of_nat (length calls)) l s with
      | None => PStop Starved calls
      | Some (i, l1, s1) =>
          match out_failure i l1 noiter with
          | AEmpty => PStop (Ret []) calls
          | AErr => PStop IndexErr calls
          | ABreak l2 => PDone l2 s1 calls
          | ACont l2 noiter' =>
              match last_opt l2 with
              | None => PStop IndexErr calls
              | Some j =>
                  let sma' := update_sma lin (i_sma j) step in
                  match maxsma with
                  | Some m => if truthy m && leb N m sma' then PDone l2 s1 calls
                              else outward f sma' noiter' false l2 s1 calls
                  | None => outward f sma' noiter' false l2 s1 calls
                  end
              end
          end
      end
  end.

(* ellipse.py:475-500.  [top_test] = true: repaired loop (test before every fit);
   false: loop of the snapshot (test only after the next sma has been computed). *)
Variable top_test : bool.
Fixpoint inward (fuel : nat) (sma istep : N)
         (l : list iso) (s : list outcome) (calls : list call) : phase :=
  match fuel with
  | O => PStop Fuel calls
  | S f =>
      if top_test && negb (ltb N (pymax minsma (n05 N)) sma) then PDone l s calls else
      let calls := calls ++ [mkcall sma false true false] in
      match fit_isophote maxrit sma false (Z.of_nat (length calls)) l s with
      | None => PStop Starved calls
      | Some (i, l1, s1) =>
          match (if (i_code i <? 0)%Z then fix_last true l1 else Some l1) with
          | None => PStop IndexErr calls
          | Some l2 =>
              if (i_code i =? 3)%Z then PDone l2 s1 calls
              else match last_opt l2 with
                   | None => PStop IndexErr calls
                   | Some j =>
                       let sma' := update_sma lin (i_sma j) istep in
                       if negb top_test && leb N sma' (pymax minsma (n05 N)) then PDone l2 s1 calls
                       else inward f sma' istep l2 s1 calls
                   end
          end
      end
  end.

(* list.sort(): stable, uses only __lt__ (isophote.py:148-153) *)
Fixpoint insert (x : iso) (l : list iso) : list iso :=
  match l with
  | [] => [x]
  | y :: r => if ltb N (i_sma y) (i_sma x) then y :: insert x r else x :: y :: r
  end.
Definition sort (l : list iso) : list iso := fold_right insert [] l.

(* ellipse.py:386-510.  sma0 = the sma0 argument, gsma = geometry.sma. *)
Definition fit_image (fuel : nat) (sma0 : option N) (gsma : N) (fix_all : bool)
           (s : list outcome) : result * list call :=
  if fix_all then (Ret [], []) else
  let sma := match sma0 with Some v => if truthy v then v else gsma | None => gsma end in
  match outward fuel sma false true [] s [] with
  | PStop r calls => (r, calls)
  | PDone l s1 calls =>
      match l with
      | [] => (IndexErr, calls)
      | first :: _ =>
          let '(sma_in, istep) := reset_sma lin (i_sma first) step in
          match inward fuel sma_in istep l s1 calls with
          | PStop r calls => (r, calls)
          | PDone l s2 calls =>
              if eqb N minsma (n0 N) then
                let calls := calls ++ [mkcall (n0 N) false false false] in
                match fit_isophote None (n0 N) false (Z.of_nat (length calls)) l s2 with
                | None => (Starved, calls)
                | Some (_, l3, _) => (Ret (sort l3), calls)
                end
              else (Ret (sort l), calls)
          end
      end
  end.
End Run.
End Sched.

(* ------------------------------------------------------------------ *)
(* (C) EllipseFitter.fit: harmonic selection under the fix mask,       *)
(*     correctors' frame, _check_conditions                            *)
(* ------------------------------------------------------------------ *)
Section Fitter.
Variable N : num.
Variables (max_eps min_eps pi2 pi_ : N).                 (* 0.95, 0.05, pi/2, pi *)

Record geom := mkgeom { g_x0 : N; g_y0 : N; g_pa : N; g_eps : N }.

Definition nabs (x : N) : N := if ltb N x (n0 N) then opp N x else x.

(* np.argmax(np.abs(np.ma.masked_array(coeffs[1:], mask=fix))): masked entries are
   filled with -inf (None), the first maximum wins *)
Definition olt (a b : option N) : bool :=
  match a, b with
  | None, Some _ => true
  | Some x, Some y => ltb N x y
  | _, None => false
  end.
Fixpoint argmax_from (l : list (option N)) (i : nat) (best : option N) (bi : nat) : nat :=
  match l with
  | [] => bi
  | v :: r => if olt best v then argmax_from r (S i) v i else argmax_from r (S i) best bi
  end.
Definition argmax_masked (coeffs : list N) (mask : list bool) : nat :=
  match map2 (fun c (m : bool) => if m then None else Some (nabs c)) coeffs mask with
  | [] => 0%nat
  | v :: r => argmax_from r 1 v 0
  end.

Definition fix_mask (fc fpa feps : bool) : list bool := [fc; fc; fpa; feps].

(* ellipse.py:400-407: the fix flags a fit_image call works with.  A request can come through the
   call's keywords (kc, kpa, keps) or be carried by the geometry (EllipseGeometry(..., fix_*=True) or
   its .fix attribute, [gfix]).  If ANY keyword is set the keyword array REPLACES the geometry's flags
   (also un-fixing what only the geometry had fixed: "this overrides the geometry instance for good");
   with all keywords False the geometry's flags are left alone.  All three keywords set: fit_image
   returns the empty list before fitting (fix_all of the schedule model). *)
Definition effective_fix (kc kpa keps : bool) (gfix : list bool) : list bool :=
  if kc || kpa || keps then fix_mask kc kpa keps else gfix.

Definition pymin (a b : N) : N := if ltb N b a then b else a.          (* builtin min(a, b) *)

(* per-iteration observation: harmonic amplitudes coeffs[1:5] and what the numerics
   decide / compute (all of it library numerics: oracle) *)
Record obs := mkobs {
  o_empty : bool;            (* len(values[2]) < 1                              -> (3, invalid) *)
  o_fitfail : bool;          (* fit_first_and_second_harmonics raised            -> (3, invalid) *)
  o_coeffs : list N;         (* coeffs[1:] (4 numbers)                                          *)
  o_converged : bool;        (* conver*sector_area*std(residual) > |largest|                     *)
  o_fewpts : bool;           (* actual_points < total_points * fflag             -> 1            *)
  o_gradzero : bool;         (* gradient zero or non-finite (fixes/C20-2)         -> -1           *)
  o_nx : N; o_ny : N;        (* centre computed by a position corrector                          *)
  o_npa : N;                 (* (pa + correction) % pi computed by the angle corrector           *)
  o_corr : N;                (* correction computed by the ellipticity corrector                 *)
  o_grad_ok : bool;          (* gradient_error and gradient_relative_error both truthy           *)
  o_grad_bad : bool;         (* gradient_relative_error > maxgerr or gradient >= 0               *)
  o_off : bool               (* centre outside [1, shape] in x or y                              *)
}.

(* fitter.py:288-370: corrector number k rebuilds the sample with ONE parameter group new *)
Definition correct (k : nat) (g : geom) (o : obs) : geom :=
  match k with
  | 0%nat | 1%nat => mkgeom (o_nx o) (o_ny o) (g_pa g) (g_eps g)
  | 2%nat => mkgeom (g_x0 g) (g_y0 g) (o_npa o) (g_eps g)
  | _ => mkgeom (g_x0 g) (g_y0 g) (g_pa g) (pymin (sub N (g_eps g) (o_corr o)) max_eps)
  end.

(* fitter.py:273-283: eps-sign / eps-zero normalisation done by _check_conditions.  With the
   position angle fixed ([fpa] = sample.geometry.fix[2]) a negative eps becomes MIN_EPS and the
   angle stays (fixes/C20-4; the snapshot rotates the angle by pi/2 in that case too). *)
Definition normalise (fpa : bool) (g : geom) : geom :=
  let g1 := if ltb N (g_eps g) (n0 N)
            then if fpa then mkgeom (g_x0 g) (g_y0 g) (g_pa g) min_eps
                 else mkgeom (g_x0 g) (g_y0 g)
                        (if ltb N (g_pa g) pi2 then add N (g_pa g) pi2 else sub N (g_pa g) pi2)
                        (pymin (opp N (g_eps g)) max_eps)
            else g in
  if eqb N (g_eps g1) (n0 N) then mkgeom (g_x0 g1) (g_y0 g1) (g_pa g1) min_eps else g1.

(* fitter.py:247-271: (proceed, lexceed) *)
Definition check_conditions (g : geom) (o : obs) (inwards lexceed : bool) : bool * bool :=
  let '(p, lx) := if o_grad_ok o
                  then if negb inwards && o_grad_bad o
                       then (if lexceed then (false, lexceed) else (true, true))
                       else (true, lexceed)
                  else (false, lexceed) in
  let p := if ltb N max_eps (g_eps g) then false else p in
  let p := if o_off o then false else p in
  (p, lx).

(* fitter.py:148-244: returns (stop_code, valid, geometry of the returned sample) and the
   trace of geometries produced by the correctors (before normalisation) *)
Fixpoint fit_loop (mask : list bool) (inwards : bool) (minit : nat) (i : nat) (os : list obs)
         (g : geom) (lexceed : bool) (minamp : option (N * geom)) (tr : list geom)
  : (Z * bool * geom) * list geom :=
  match os with
  | [] => (2%Z, true, match minamp with Some (_, gm) => gm | None => g end, tr)
  | o :: os' =>
      if o_empty o || o_fitfail o then (3%Z, false, g, tr) else
      let k := argmax_masked (o_coeffs o) mask in
      let amp := nabs (nth k (o_coeffs o) (n0 N)) in
      let minamp := match minamp with
                    | Some (a, gm) => if ltb N amp a then Some (amp, g) else Some (a, gm)
                    | None => Some (amp, g)
                    end in
      if o_converged o && (minit - 1 <=? i)%nat then (0%Z, true, g, tr) else
      if o_fewpts o then (1%Z, true, match minamp with Some (_, gm) => gm | None => g end, tr) else
      if o_gradzero o then ((-1)%Z, true, g, tr) else          (* fixes/C20-2: no corrector is applied *)
      let gc := correct k g o in
      let '(proceed, lexceed') := check_conditions gc o inwards lexceed in
      let g' := normalise (nth 2 mask false) gc in
      if proceed then fit_loop mask inwards minit (S i) os' g' lexceed' minamp (tr ++ [gc])
      else ((-1)%Z, true, g', tr ++ [gc])
  end.
Definition fit (fc fpa feps inwards : bool) (minit : nat) (os : list obs) (g : geom) :=
  fit_loop (fix_mask fc fpa feps) inwards minit 0 os g false None [].
End Fitter.

(* ------------------------------------------------------------------ *)
(* instances                                                           *)
(* ------------------------------------------------------------------ *)
Definition Qltb (a b : Q) : bool := negb (Qle_bool b a).
Definition Qnum : num :=
  {| T := Q; n0 := 0%Q; n05 := (1 # 2)%Q; n1 := 1%Q;
     add := Qplus; sub := Qminus; mul := Qmult; div := Qdiv; opp := Qopp;
     ltb := Qltb; leb := Qle_bool; eqb := Qeq_bool |}.

Definition Z2F (m e : Z) : float :=
  let a := Z.ldexp (PrimFloat.of_uint63 (Uint63.of_Z (Z.abs m))) e in
  if (m <? 0)%Z then PrimFloat.opp a else a.
Definition Fnum : num :=
  {| T := float; n0 := Z2F 0 0; n05 := Z2F 1 (-1); n1 := Z2F 1 0;
     add := PrimFloat.add; sub := PrimFloat.sub; mul := PrimFloat.mul; div := PrimFloat.div;
     opp := PrimFloat.opp;
     ltb := PrimFloat.ltb; leb := PrimFloat.leb; eqb := PrimFloat.eqb |}.

(* ------------------------------------------------------------------ *)
(* correspondence                                                      *)
(* ------------------------------------------------------------------ *)
Definition fl := (Z * Z)%type.                            (* double m * 2^e *)
Definition F (x : fl) : float := Z2F (fst x) (snd x).
Definition oF (x : option fl) : option float := option_map F x.
Definition feq (a : float) (b : fl) : bool := PrimFloat.eqb a (F b).

(* pairwise comparison of a model list with an implementation list *)
Fixpoint list_eqb2 {B C} (eqb : B -> C -> bool) (a : list B) (b : list C) : bool :=
  match a, b with
  | [], [] => true
  | x :: a', y :: b' => eqb x y && list_eqb2 eqb a' b'
  | _, _ => false
  end.

Definition zcall := (fl * bool * bool * bool)%type.
Definition zres := (Z * list (fl * Z * bool * Z))%type.   (* kind: 0 Ret, 1 IndexErr, 2 Starved; isophotes
   (sma, code, valid, geometry token; token -1 = not observed: real fitter) *)

Fixpoint lookup (tab : list (float * float)) (x : float) : float :=
  match tab with
  | [] => Z2F 0 0
  | (k, v) :: r => if PrimFloat.eqb k x then v else lookup r x
  end.

Definition pi_f : float := Z2F 7074237752028440 (-51).   (* np.pi *)

Inductive case :=
| CSched (repaired lin : bool) (step minsma : fl) (maxsma maxrit sma0 : option fl) (gsma : fl)
         (fix_all : bool) (stream : list (Z * bool))
         (exp_res : zres) (exp_calls : list zcall)
| CPolar (x0 y0 pa : fl) (pts : list (fl * fl)) (asin_s asin_v : list (fl * fl))
         (exp_s exp_v : list (fl * fl))
| CFix (kc kpa keps : bool) (gfix : list bool) (seen : list (list bool))
| CStep (fc fpa feps : bool) (g : fl * fl * fl * fl) (coeffs : list fl)
        (k : Z) (harm : fl) (gc gn : fl * fl * fl * fl).

Definition sched_model (repaired lin : bool) (step minsma : fl) (maxsma maxrit sma0 : option fl)
           (gsma : fl) (fix_all : bool) (stream : list (Z * bool)) :=
  fit_image Fnum lin (F step) (F minsma) (oF maxsma) (oF maxrit) repaired 400
            (oF sma0) (F gsma) fix_all stream.

Definition call_eqb (c : call Fnum) (z : zcall) : bool :=
  let '(s, ni, inw, fst_) := z in
  feq (c_sma Fnum c) s && Bool.eqb (c_noniter Fnum c) ni && Bool.eqb (c_inw Fnum c) inw
  && Bool.eqb (c_first Fnum c) fst_.
Definition iso_eqb (i : iso Fnum) (z : fl * Z * bool * Z) : bool :=
  let '(s, c, v, g) := z in
  feq (i_sma Fnum i) s && (i_code Fnum i =? c)%Z && Bool.eqb (i_valid Fnum i) v
  && ((g =? -1)%Z || (i_geom Fnum i =? g)%Z).

Definition polar_s (tab : list (float * float)) (x0 y0 pa : float) (p : float * float) :=
  to_polar_scalar PrimFloat.add PrimFloat.sub PrimFloat.mul PrimFloat.div PrimFloat.sqrt
    (lookup tab) PrimFloat.abs PrimFloat.ltb PrimFloat.leb (Z2F 0 0) (Z2F 1 0) (Z2F 2 0) pi_f
    x0 y0 pa (fst p) (snd p).
Definition polar_v (tab : list (float * float)) (x0 y0 pa : float) (xs ys : list float) :=
  to_polar_vec PrimFloat.add PrimFloat.sub PrimFloat.mul PrimFloat.div PrimFloat.sqrt
    (lookup tab) PrimFloat.abs PrimFloat.ltb PrimFloat.leb (Z2F 0 0) (Z2F 1 0) (Z2F 2 0) pi_f
    x0 y0 pa xs ys.
Definition pair_eqb (a : float * float) (b : fl * fl) : bool := feq (fst a) (fst b) && feq (snd a) (snd b).
Definition Ftab (t : list (fl * fl)) := map (fun kv => (F (fst kv), F (snd kv))) t.

Definition G (g : fl * fl * fl * fl) : geom Fnum :=
  let '(a, b, c, d) := g in mkgeom Fnum (F a) (F b) (F c) (F d).
Definition geom_eqb (a b : geom Fnum) : bool :=
  PrimFloat.eqb (g_x0 _ a) (g_x0 _ b) && PrimFloat.eqb (g_y0 _ a) (g_y0 _ b)
  && PrimFloat.eqb (g_pa _ a) (g_pa _ b) && PrimFloat.eqb (g_eps _ a) (g_eps _ b).
Definition max_eps_f := Z2F 8556839292003942 (-53).      (* 0.95 *)
Definition min_eps_f := Z2F 7205759403792794 (-57).      (* 0.05 *)
Definition pi2_f := Z2F 7074237752028440 (-52).          (* np.pi / 2 *)
(* frame of corrector k: parameters outside group k keep their values *)
Definition frame_ok (k : nat) (g gc : geom Fnum) : bool :=
  match k with
  | 0%nat | 1%nat => PrimFloat.eqb (g_pa _ g) (g_pa _ gc) && PrimFloat.eqb (g_eps _ g) (g_eps _ gc)
  | 2%nat => PrimFloat.eqb (g_x0 _ g) (g_x0 _ gc) && PrimFloat.eqb (g_y0 _ g) (g_y0 _ gc)
             && PrimFloat.eqb (g_eps _ g) (g_eps _ gc)
  | _ => PrimFloat.eqb (g_x0 _ g) (g_x0 _ gc) && PrimFloat.eqb (g_y0 _ g) (g_y0 _ gc)
         && PrimFloat.eqb (g_pa _ g) (g_pa _ gc)
  end.

Definition check_case (c : case) : bool :=
  match c with
  | CSched repaired lin step minsma maxsma maxrit sma0 gsma fix_all stream (kind, isos) calls =>
      let '(r, cs) := sched_model repaired lin step minsma maxsma maxrit sma0 gsma fix_all stream in
      match r with
      | Ret _ l => list_eqb2 call_eqb cs calls && (kind =? 0)%Z && list_eqb2 iso_eqb l isos
      | IndexErr _ => list_eqb2 call_eqb cs calls && (kind =? 1)%Z
      | Starved _ => list_eqb2 call_eqb cs calls && (kind =? 2)%Z
      (* the model's fuel (400 iterations of one loop) ran out: the real run must have been cut by
         the harness' cap on fit_isophote calls (kind 3), after the same calls *)
      | Fuel _ => (kind =? 3)%Z && list_eqb2 call_eqb (firstn (length calls) cs) calls
      end
  | CPolar x0 y0 pa pts ts tv es ev =>
      let ps := map (fun p => (F (fst p), F (snd p))) pts in
      list_eqb2 pair_eqb (map (polar_s (Ftab ts) (F x0) (F y0) (F pa)) ps) es
      && (let '(r, a) := polar_v (Ftab tv) (F x0) (F y0) (F pa) (map fst ps) (map snd ps) in
          list_eqb2 pair_eqb (combine r a) ev)
  | CFix kc kpa keps gfix seen =>
      (* geometry.fix at every fitter call and on every returned isophote *)
      forallb (fun f => list_eqb2 Bool.eqb f (effective_fix kc kpa keps gfix)) seen
  | CStep fc fpa feps g coeffs k harm gc gn =>
      let k' := argmax_masked Fnum (map F coeffs) (fix_mask fc fpa feps) in
      (Z.of_nat k' =? k)%Z
      && feq (nth k' (map F coeffs) (Z2F 0 0)) harm
      && negb (nth k' (fix_mask fc fpa feps) true)
      && frame_ok k' (G g) (G gc)
      && geom_eqb (normalise Fnum max_eps_f min_eps_f pi2_f fpa (G gc)) (G gn)
  end.

Definition model_out (c : case) :=
  match c with
  | CSched repaired lin step minsma maxsma maxrit sma0 gsma fix_all stream _ _ =>
      let '(r, cs) := sched_model repaired lin step minsma maxsma maxrit sma0 gsma fix_all stream in
      (match r with Ret _ l => (0%Z, map (fun i : iso Fnum => (Prim2SF (i_sma Fnum i), i_code Fnum i, i_valid Fnum i, i_geom Fnum i)) l)
                  | IndexErr _ => (1%Z, []) | Starved _ => (2%Z, []) | Fuel _ => (3%Z, []) end,
       map (fun c : call Fnum => (Prim2SF (c_sma Fnum c), c_noniter Fnum c, c_inw Fnum c, c_first Fnum c)) cs,
       @nil (spec_float * spec_float), 0%nat)
  | CPolar x0 y0 pa pts ts tv es ev =>
      let ps := map (fun p => (F (fst p), F (snd p))) pts in
      ((4%Z, []), [],
       map (fun p => let '(r, a) := polar_s (Ftab ts) (F x0) (F y0) (F pa) p in (Prim2SF r, Prim2SF a)) ps,
       0%nat)
  | CFix kc kpa keps gfix seen =>
      ((6%Z, []), [], [], length (filter (fun b : bool => b) (effective_fix kc kpa keps gfix)))
  | CStep fc fpa feps g coeffs k harm gc gn =>
      ((5%Z, []), [], [], argmax_masked Fnum (map F coeffs) (fix_mask fc fpa feps))
  end.
