(* C11S — stretch of C11: the sigma clip of Background2D, in exact arithmetic.
   Property theorems only; each is closed by [exact] of a lemma of C11S_Proofs.

   Vocabulary (C11S_Model.v).  Values are rationals [Q] (the correspondence feeds dyadic
   rationals).  [params] = (cenfunc in {CMedian, CMean}, resolved sigma_lower, resolved
   sigma_upper, maxiters : option nat with None / Some 0 = until nothing changes); stdfunc is
   the population standard deviation (ddof = 0), compared on squares ([gt_sqrt]).
   [keep cf sl su cur v] = v is not rejected by the bounds computed from the sample [cur]
   (cen - sl*std <= v <= cen + su*std; the empty sample has NaN bounds and rejects nothing);
   [step cur] = one iteration; [final_src P l] = the sample from which the LAST bounds are
   computed; [keep_mask P l] = ~mask of SigmaClip(...)(l, masked=True) = the last bounds applied
   to the ORIGINAL values, position by position; [clip P l] = the surviving values in order;
   [clip_niters P l] = the number of iterations run; [clipZ P] = the same on the scaled-integer
   pixel values of C11_Model (the instance of C11's Section variable [clip]).
   [arel a b u v] is v == a*u + b (C11_Proofs); [Forall2 (arel a b) l l'] says that l' is the
   image of l under v -> a*v + b up to ==, element by element. *)
From Coq Require Import List Arith ZArith QArith Bool.
From PV Require Import lib.Cases C11_Model C11_Proofs C11S_Model C11S_Proofs.
Import ListNotations.
Open Scope Q_scope.

(* ------------------------------------------------------------------ *)
(* 1. affine equivariance of the clip: for every a > 0 and b, every cenfunc, sigma_lower,
   sigma_upper (any sign) and maxiters, the keep-mask of a*l + b is the keep-mask of l,
   position by position. *)
Theorem clip_affine_equivariant : forall (P : params) (a b : Q) (l l' : list Q),
  0 < a -> Forall2 (arel a b) l l' -> keep_mask P l' = keep_mask P l.
Proof. exact keep_mask_arel. Qed.
Print Assumptions clip_affine_equivariant.

(* ... the survivors are the images of the survivors, and the same number of iterations runs *)
Theorem clip_affine_equivariant_values : forall (P : params) (a b : Q) (l l' : list Q),
  0 < a -> Forall2 (arel a b) l l' -> Forall2 (arel a b) (clip P l) (clip P l').
Proof. exact clip_arel. Qed.
Print Assumptions clip_affine_equivariant_values.

Theorem clip_affine_equivariant_niters : forall (P : params) (a b : Q) (l l' : list Q),
  0 < a -> Forall2 (arel a b) l l' -> clip_niters P l' = clip_niters P l.
Proof. exact clip_niters_arel. Qed.
Print Assumptions clip_affine_equivariant_niters.

(* ... stated on the mapped list (Leibniz equalities) *)
Theorem clip_affine_equivariant_map : forall (P : params) (a b : Q) (l : list Q),
  0 < a ->
  keep_mask P (map (fun v => a * v + b) l) = keep_mask P l /\
  clip P (map (fun v => a * v + b) l) = map (fun v => a * v + b) (clip P l) /\
  clip_niters P (map (fun v => a * v + b) l) = clip_niters P l.
Proof. exact clip_affine_map. Qed.
Print Assumptions clip_affine_equivariant_map.

(* ------------------------------------------------------------------ *)
(* 2. termination: maxiters = None (or 0, which the code turns into inf) is computed with
   fuel = length of the list; every maxiters > length gives the same last sample, mask,
   survivors and iteration count; the last sample is then a fixpoint of the iteration (the
   loop has really converged); never more than length + 1 iterations. *)
Theorem clip_terminates : forall (P : params) (l : list Q), unbounded P ->
  (forall m : nat, (length l <= m)%nat ->
     final_src (with_maxiters P (Some (S m))) l = final_src P l /\
     keep_mask (with_maxiters P (Some (S m))) l = keep_mask P l /\
     clip (with_maxiters P (Some (S m))) l = clip P l /\
     clip_niters (with_maxiters P (Some (S m))) l = clip_niters P l) /\
  step (p_cen P) (p_lo P) (p_hi P) (final_src P l) = final_src P l /\
  (clip_niters P l <= S (length l))%nat.
Proof. exact clip_terminates_lemma. Qed.
Print Assumptions clip_terminates.

(* an iteration that changes the sample removes at least one value (the reason of the bound) *)
Theorem clip_iteration_shrinks : forall (cf : cenfunc) (sl su : Q) (cur : list Q),
  Nat.eqb (length (step cf sl su cur)) (length cur) = false ->
  (length (step cf sl su cur) < length cur)%nat.
Proof. exact step_shrinks. Qed.
Print Assumptions clip_iteration_shrinks.

(* idempotence at a fixpoint: a list whose first iteration rejects nothing comes back
   unchanged, nothing masked, after exactly one iteration — for every maxiters *)
Theorem clip_idempotent_at_fixpoint : forall (P : params) (l : list Q),
  step (p_cen P) (p_lo P) (p_hi P) l = l ->
  keep_mask P l = map (fun _ => true) l /\ clip P l = l /\ clip_niters P l = 1%nat.
Proof. exact clip_fixpoint_id. Qed.
Print Assumptions clip_idempotent_at_fixpoint.

(* with maxiters = None the converged sample s is such a fixpoint: clipping s again changes
   nothing, and every value of s survives the final mask on the original list.  (The converse
   inclusion is FALSE for the real algorithm: see [ex_readmission] below.) *)
Theorem clip_converged_sample_is_fixpoint : forall (P : params) (l : list Q), unbounded P ->
  let s := final_src P l in
  step (p_cen P) (p_lo P) (p_hi P) s = s /\
  keep_mask P s = map (fun _ => true) s /\ clip P s = s /\
  (forall x : Q, In x s -> In x (clip P l)).
Proof. exact clip_converged. Qed.
Print Assumptions clip_converged_sample_is_fixpoint.

(* constant list (std = 0): nothing is rejected, whatever sigma (any sign), cenfunc, maxiters *)
Theorem clip_constant_list : forall (P : params) (c : Q) (l : list Q), allq c l ->
  keep_mask P l = map (fun _ => true) l /\ clip P l = l /\ clip_niters P l = 1%nat.
Proof. exact clip_constant_lemma. Qed.
Print Assumptions clip_constant_list.

(* non-emptiness.  CHECKED AGAINST THE REAL ALGORITHM: "sigma >= 0" is NOT enough — with
   sigma < 1 an iteration can reject every value ([ex_all_rejected] below, replayed on astropy
   by the harness).  With sigma_lower, sigma_upper >= 1 a non-empty sample never becomes empty:
   mean: some value lies within one std of the mean; median: odd length keeps the median,
   even length keeps the lower middle value because var >= ((b - a)/2)^2. *)
Theorem clip_keeps_nonempty : forall (P : params) (l : list Q),
  1 <= p_lo P -> 1 <= p_hi P -> l <> [] ->
  final_src P l <> [] /\ clip P l <> [] /\ existsb (fun k : bool => k) (keep_mask P l) = true.
Proof. exact clip_nonempty_lemma. Qed.
Print Assumptions clip_keeps_nonempty.

(* every iteration keeps a value (sigma_lower, sigma_upper >= 1) *)
Theorem clip_iteration_keeps_one : forall (cf : cenfunc) (sl su : Q) (cur : list Q),
  1 <= sl -> 1 <= su -> cur <> [] -> exists v : Q, In v cur /\ keep cf sl su cur v = true.
Proof. exact keeps_one. Qed.
Print Assumptions clip_iteration_keeps_one.

(* ------------------------------------------------------------------ *)
(* 3. the statistics: mean and median are equivariant (median needs a > 0), the population
   variance scales by a^2; the comparison on squares is the comparison with the root. *)
Theorem mean_affine : forall (a b : Q) (l l' : list Q),
  Forall2 (arel a b) l l' -> l <> [] -> meanQ l' == a * meanQ l + b.
Proof. exact meanQ_arel. Qed.
Print Assumptions mean_affine.

Theorem median_affine : forall (a b : Q), 0 < a -> forall l l' : list Q,
  Forall2 (arel a b) l l' -> l <> [] -> qmedian l' == a * qmedian l + b.
Proof. exact qmedian_equivariant. Qed.
Print Assumptions median_affine.

Theorem var_affine : forall (a b : Q) (l l' : list Q),
  Forall2 (arel a b) l l' -> l <> [] -> varQ l' == a * a * varQ l.
Proof. exact varQ_arel. Qed.
Print Assumptions var_affine.

Theorem mean_affine_map : forall (a b : Q) (l : list Q),
  l <> [] -> meanQ (map (fun v => a * v + b) l) == a * meanQ l + b.
Proof. exact meanQ_map_lemma. Qed.
Print Assumptions mean_affine_map.
Theorem median_affine_map : forall (a b : Q) (l : list Q),
  0 < a -> l <> [] -> qmedian (map (fun v => a * v + b) l) == a * qmedian l + b.
Proof. exact qmedian_map_lemma. Qed.
Print Assumptions median_affine_map.
Theorem var_affine_map : forall (a b : Q) (l : list Q),
  l <> [] -> varQ (map (fun v => a * v + b) l) == a * a * varQ l.
Proof. exact varQ_map_lemma. Qed.
Print Assumptions var_affine_map.

(* the model's variance is the mean squared deviation from the mean, and is >= 0 *)
Theorem var_is_mean_squared_deviation : forall l : list Q,
  varQ l == ssd (meanQ l) l / lenQ l /\ meanQ l == sumQ l / lenQ l /\ 0 <= varQ l.
Proof. exact (fun l => conj (varQ_eq l) (conj (meanQ_eq l) (varQ_nonneg l))). Qed.
Print Assumptions var_is_mean_squared_deviation.

(* no square root is lost: whenever std = r exists in Q (r >= 0, r^2 = var), the decision on
   squares is exactly  x > s*r  — for every sign of x and s *)
Theorem square_comparison_is_root_comparison : forall x s v2 r : Q,
  0 <= r -> r * r == v2 -> (gt_sqrt x s v2 = true <-> s * r < x).
Proof. exact gt_sqrt_spec. Qed.
Print Assumptions square_comparison_is_root_comparison.

(* ------------------------------------------------------------------ *)
(* 4. the instance for C11.  [clipZ P] is the clip on the injected integers and satisfies,
   for every k > 0 and c, exactly the premise that C11's shift_scale_equivariant_partial asks
   of its Section variable [clip]. *)
Theorem clipZ_is_clip_of_injected_values : forall (P : params) (l : list Z),
  map inject_Z (clipZ P l) = clip P (map inject_Z l).
Proof. exact clipZ_is_clip. Qed.
Print Assumptions clipZ_is_clip_of_injected_values.

Theorem sigma_clip_satisfies_C11_premise : forall (P : params) (k c : Z), (0 < k)%Z ->
  forall l : list Z,
  clipZ P (map (fun v : Z => (k * v + c)%Z) l) = map (fun v : Z => (k * v + c)%Z) (clipZ P l).
Proof. exact clipZ_affine. Qed.
Print Assumptions sigma_clip_satisfies_C11_premise.

(* shift_scale_equivariant_sigma_clip = C11's shift_scale_equivariant_partial with the sigma
   clip of the model (any cenfunc in {median, mean}, sigmas, maxiters) and the clipping premise
   DISCHARGED.  Still partial: the premises on the estimators and on the library numerics
   (Shepard fill, window median, upscaling) remain. *)
Theorem shift_scale_equivariant_sigma_clip : forall (P : params) (ny nx by0 bx0 : nat),
  (0 < ny)%nat -> (0 < nx)%nat -> (0 < by0)%nat -> (0 < bx0)%nat ->
  forall (data : img (option Z)) (mask cov : img bool) (p : Q) (est rms : list Z -> Q)
         (idw : img (option Q) -> nat -> nat -> Q) (median : list Q -> Q)
         (fy fx : nat) (fthr : option Q),
  (0 < fy)%nat -> (0 < fx)%nat ->
  forall (fill : Q) (do_clip : bool) (interp : img Q -> nat -> nat -> Q) (k c : Z),
  (0 < k)%Z ->
  (forall l : list Z,
     l <> nil -> est (map (fun v : Z => (k * v + c)%Z) l) == inject_Z k * est l + inject_Z c) ->
  (forall l : list Z, l <> nil -> rms (map (fun v : Z => (k * v + c)%Z) l) == inject_Z k * rms l) ->
  idw_equivariant idw -> median_equivariant median -> interp_equivariant interp ->
  (background2d ny nx by0 bx0 data mask cov p est rms (clipZ P) idw median fy fx fthr fill do_clip interp =
     AllExcluded <->
   background2d ny nx by0 bx0 (map (map (option_map (fun v : Z => (k * v + c)%Z))) data) mask cov p est
     rms (clipZ P) idw median fy fx (option_map (fun t : Q => inject_Z k * t + inject_Z c) fthr) fill do_clip
     interp = AllExcluded) /\
  (forall (np : img nat) (nm : img bool) (bm rm b r : img Q),
   background2d ny nx by0 bx0 data mask cov p est rms (clipZ P) idw median fy fx fthr fill do_clip interp =
     Maps np nm bm rm b r ->
   exists bm' rm' b' r' : img Q,
     background2d ny nx by0 bx0 (map (map (option_map (fun v : Z => (k * v + c)%Z))) data) mask cov p
       est rms (clipZ P) idw median fy fx (option_map (fun t : Q => inject_Z k * t + inject_Z c) fthr) fill
       do_clip interp = Maps np nm bm' rm' b' r' /\
     irel (arel (inject_Z k) (inject_Z c)) bm bm' /\
     irel (arel (inject_Z k) 0) rm rm' /\
     (forall (y x : nat) (d : Q), (y < ny)%nat -> (x < nx)%nat ->
        if get2 false cov y x
        then (get2 d b y x = fill /\ get2 d b' y x = fill) /\ get2 d r y x = fill /\ get2 d r' y x = fill
        else arel (inject_Z k) (inject_Z c) (get2 d b y x) (get2 d b' y x) /\
             arel (inject_Z k) 0 (get2 d r y x) (get2 d r' y x))).
Proof. exact b2d_equivariant_sigma_clip. Qed.
Print Assumptions shift_scale_equivariant_sigma_clip.

(* ... and with the Mean (estk = 0) / Median background estimator of the correspondence the
   estimator premise is discharged too; what remains: the RMS estimator scales by k, and the
   three library-numerics premises. *)
Theorem shift_scale_equivariant_sigma_clip_mean_median :
  forall (P : params) (estk : Z) (ny nx by0 bx0 : nat),
  (0 < ny)%nat -> (0 < nx)%nat -> (0 < by0)%nat -> (0 < bx0)%nat ->
  forall (data : img (option Z)) (mask cov : img bool) (p : Q) (rms : list Z -> Q)
         (idw : img (option Q) -> nat -> nat -> Q) (median : list Q -> Q)
         (fy fx : nat) (fthr : option Q),
  (0 < fy)%nat -> (0 < fx)%nat ->
  forall (fill : Q) (do_clip : bool) (interp : img Q -> nat -> nat -> Q) (k c : Z),
  (0 < k)%Z ->
  (forall l : list Z, l <> nil -> rms (map (fun v : Z => (k * v + c)%Z) l) == inject_Z k * rms l) ->
  idw_equivariant idw -> median_equivariant median -> interp_equivariant interp ->
  (background2d ny nx by0 bx0 data mask cov p (est_of estk) rms (clipZ P) idw median fy fx fthr fill do_clip interp =
     AllExcluded <->
   background2d ny nx by0 bx0 (map (map (option_map (fun v : Z => (k * v + c)%Z))) data) mask cov p (est_of estk)
     rms (clipZ P) idw median fy fx (option_map (fun t : Q => inject_Z k * t + inject_Z c) fthr) fill do_clip
     interp = AllExcluded) /\
  (forall (np : img nat) (nm : img bool) (bm rm b r : img Q),
   background2d ny nx by0 bx0 data mask cov p (est_of estk) rms (clipZ P) idw median fy fx fthr fill do_clip interp =
     Maps np nm bm rm b r ->
   exists bm' rm' b' r' : img Q,
     background2d ny nx by0 bx0 (map (map (option_map (fun v : Z => (k * v + c)%Z))) data) mask cov p
       (est_of estk) rms (clipZ P) idw median fy fx (option_map (fun t : Q => inject_Z k * t + inject_Z c) fthr) fill
       do_clip interp = Maps np nm bm' rm' b' r' /\
     irel (arel (inject_Z k) (inject_Z c)) bm bm' /\
     irel (arel (inject_Z k) 0) rm rm' /\
     (forall (y x : nat) (d : Q), (y < ny)%nat -> (x < nx)%nat ->
        if get2 false cov y x
        then (get2 d b y x = fill /\ get2 d b' y x = fill) /\ get2 d r y x = fill /\ get2 d r' y x = fill
        else arel (inject_Z k) (inject_Z c) (get2 d b y x) (get2 d b' y x) /\
             arel (inject_Z k) 0 (get2 d r y x) (get2 d r' y x))).
Proof. exact b2d_equivariant_sigma_clip_est. Qed.
Print Assumptions shift_scale_equivariant_sigma_clip_mean_median.

(* ------------------------------------------------------------------ *)
(* non-vacuity and the measure-zero behaviours of the real algorithm (each replayed on
   astropy by harness/c11s.py LANDMARKS) *)
Definition P_mean1 := mkParams CMean 1 1 None.
Definition P_half (mi : option nat) := mkParams CMedian (1 # 2) (1 # 2) mi.
Definition P_asym := mkParams CMedian 3 (1 # 2) None.

(* three effective iterations, then the single survivor *)
Example ex_clip_runs :
  keep_mask P_mean1 [1; 2; 3; 100] = [false; true; false; false] /\
  clip_niters P_mean1 [1; 2; 3; 100] = 3%nat /\ map Qred (clip P_mean1 [1; 2; 3; 100]) = [2].
Proof. vm_compute. repeat split; reflexivity. Qed.

(* the premise of the equivariance theorem is satisfiable and the conclusion non-trivial *)
Example ex_affine_premise : Forall2 (arel 3 (7 # 2)) [1; 2; 3; 100] [13 # 2; 19 # 2; 25 # 2; 607 # 2].
Proof. repeat constructor. Qed.
Example ex_affine_instance :
  keep_mask P_mean1 [13 # 2; 19 # 2; 25 # 2; 607 # 2] = [false; true; false; false].
Proof. vm_compute. reflexivity. Qed.

(* sigma = 1/2 < 1: the first iteration rejects everything; with maxiters = 1 everything is
   masked, with maxiters = None the next iteration computes NaN bounds from the empty sample and
   NOTHING is masked.  So the premise sigma >= 1 of clip_keeps_nonempty cannot be dropped. *)
Example ex_all_rejected :
  keep_mask (P_half (Some 1%nat)) [0; 10] = [false; false] /\
  clip (P_half (Some 1%nat)) [0; 10] = [] /\
  keep_mask (P_half None) [0; 10] = [true; true] /\ final_src (P_half None) [0; 10] = [] /\
  clip_niters (P_half None) [0; 10] = 2%nat.
Proof. vm_compute. repeat split; reflexivity. Qed.

(* the final mask is the LAST bounds on the original values, not the accumulated mask: the two
   60s are rejected in the first iteration, the converged sample is [2; 49; 49], and yet they are
   not masked in the end (sigma_lower = 3, sigma_upper = 1/2, median) *)
Example ex_readmission :
  map Qred (final_src P_asym [2; 78; 49; 49; 119; 85; 60; 60]) = [2; 49; 49] /\
  keep_mask P_asym [2; 78; 49; 49; 119; 85; 60; 60] = [true; false; true; true; false; false; true; true] /\
  clip_niters P_asym [2; 78; 49; 49; 119; 85; 60; 60] = 3%nat.
Proof. vm_compute. repeat split; reflexivity. Qed.

(* hypotheses of the other theorems are satisfiable *)
Example ex_unbounded : unbounded P_mean1 /\ unbounded (P_half (Some 0%nat)).
Proof. split; [now left|now right]. Qed.
Example ex_fixpoint_premise : step CMean 1 1 [2] = [2] /\ allq 5 [5; 5; 5].
Proof. split; [vm_compute; reflexivity|]. intros v [<-|[<-|[<-|[]]]]; reflexivity. Qed.
Example ex_nonempty_premise : 1 <= p_lo P_mean1 /\ 1 <= p_hi P_mean1 /\ [1; 2; 3; 100] <> [].
Proof. repeat split; try discriminate. Qed.
Example ex_root_premise : 0 <= 3 /\ 3 * 3 == 9 /\ gt_sqrt 7 2 9 = true /\ gt_sqrt 6 2 9 = false.
Proof. repeat split; try discriminate; reflexivity. Qed.

(* the C11 instance on scaled integers: 4*v + 3 *)
Example ex_clipZ :
  clipZ P_mean1 [1; 2; 3; 100]%Z = [2]%Z /\ clipZ P_mean1 [7; 11; 15; 403]%Z = [11]%Z.
Proof. vm_compute. split; reflexivity. Qed.
