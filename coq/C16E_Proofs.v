(* C16E — proofs about the statistics of ApertureStats (C16E_Model.v).
   Part 1: order statistics: insertion sort is a permutation; sorted lists with the same value counts
           agree position by position; the median of a permuted / negated list.
   Part 2: permutation invariance of every statistic.
   Part 3: negation (v -> -v) of every statistic, then the affine laws for every a.
   Part 4: hull, extrema attained, variance zero iff constant, constants.
   Part 5: ApertureStats level: the value list is the list of the C16 pixel set over Q, the centre rule,
           the local background, empty selections. *)
From Coq Require Import List Arith ZArith QArith Qabs Qreduction Bool Lia Lqa Setoid Morphisms Sorted Permutation.
From PV Require Import lib.Cases C11_Model C11_Proofs C11S_Model C11S_Proofs C11E_Model C11E_Proofs
                       C16_Model C16_Proofs C16E_Model.
Import ListNotations.
Open Scope Q_scope.

(* ================================================================== *)
(* Part 1: order statistics                                             *)
(* ================================================================== *)
Lemma qinsert_perm a l : Permutation (qinsert a l) (a :: l).
Proof.
  induction l as [|b r IH]; cbn [qinsert]; [reflexivity|].
  destruct (Qle_bool a b); [reflexivity|].
  rewrite IH. apply perm_swap.
Qed.
Lemma qsort_perm l : Permutation (qsort l) l.
Proof.
  induction l as [|a r IH]; [reflexivity|].
  rewrite qsort_cons, qinsert_perm. now constructor.
Qed.

(* number of members == v *)
Definition cnt (v : Q) (l : list Q) : nat := length (filter (Qeq_bool v) l).

Lemma cnt_cons v x l : cnt v (x :: l) = ((if Qeq_bool v x then 1 else 0) + cnt v l)%nat.
Proof. unfold cnt. cbn [filter]. destruct (Qeq_bool v x); reflexivity. Qed.
Lemma cnt_perm v l l' : Permutation l l' -> cnt v l = cnt v l'.
Proof.
  induction 1 as [|x l l' H IH|x y l|l l' l'' H1 IH1 H2 IH2]; rewrite ?cnt_cons; try lia.
Qed.
Lemma cnt_pos_in v l : (0 < cnt v l)%nat -> exists z, In z l /\ v == z.
Proof.
  induction l as [|x l IH]; [cbn; lia|]. rewrite cnt_cons.
  destruct (Qeq_bool v x) eqn:E.
  - intros _. exists x. split; [now left|now apply Qeq_bool_iff].
  - intros H. destruct (IH H) as (z & Hz & Ez). exists z. split; [now right|exact Ez].
Qed.
Lemma Qeq_bool_refl' v : Qeq_bool v v = true.
Proof. apply Qeq_bool_iff. reflexivity. Qed.
Lemma Qeq_bool_comp_r v x y : x == y -> Qeq_bool v x = Qeq_bool v y.
Proof.
  intros H. apply bool_eq_iff. rewrite !Qeq_bool_iff, H. tauto.
Qed.

(* two sorted lists with the same counts agree position by position (up to ==) *)
Lemma sorted_cnt_unique s : forall s',
  StronglySorted Qle s -> StronglySorted Qle s' -> (forall v, cnt v s = cnt v s') ->
  Forall2 Qeq s s'.
Proof.
  induction s as [|x s IH]; intros [|y s'] Hs Hs' Hc.
  - constructor.
  - specialize (Hc y). rewrite cnt_cons, Qeq_bool_refl' in Hc. cbn in Hc. lia.
  - specialize (Hc x). rewrite cnt_cons, Qeq_bool_refl' in Hc. cbn in Hc. lia.
  - apply StronglySorted_inv in Hs as [Hs Hx]. apply StronglySorted_inv in Hs' as [Hs' Hy].
    rewrite Forall_forall in Hx, Hy.
    assert (Exy : x == y).
    { apply Qle_antisym.
      - pose proof (Hc y) as H. rewrite !cnt_cons, Qeq_bool_refl' in H.
        assert (Hp : (0 < cnt y (x :: s))%nat) by (rewrite cnt_cons; lia).
        destruct (cnt_pos_in _ _ Hp) as (z & [<-|Hz] & Ez); [now rewrite Ez; apply Qle_refl|].
        rewrite Ez. now apply Hx.
      - pose proof (Hc x) as H. rewrite !cnt_cons, Qeq_bool_refl' in H.
        assert (Hp : (0 < cnt x (y :: s'))%nat) by (rewrite cnt_cons; lia).
        destruct (cnt_pos_in _ _ Hp) as (z & [<-|Hz] & Ez); [now rewrite Ez; apply Qle_refl|].
        rewrite Ez. now apply Hy. }
    constructor; [exact Exy|]. apply IH; try assumption.
    intros v. pose proof (Hc v) as H. rewrite !cnt_cons, (Qeq_bool_comp_r v x y Exy) in H. lia.
Qed.

Lemma sorted_perm_pointwise s s' :
  StronglySorted Qle s -> StronglySorted Qle s' -> Permutation s s' -> Forall2 Qeq s s'.
Proof. intros Hs Hs' Hp. apply sorted_cnt_unique; try assumption. intros v. now apply cnt_perm. Qed.

Lemma Forall2_Qeq_arel l l' : Forall2 Qeq l l' -> Forall2 (arel 1 0) l l'.
Proof. induction 1; constructor; [unfold arel; lra|assumption]. Qed.
Lemma Forall2_arel_refl (l : list Q) : Forall2 (arel 1 0) l l.
Proof. induction l; constructor; [unfold arel; lra|assumption]. Qed.

(* the median as a function of the sorted list *)
Definition med_of (s : list Q) : Q :=
  if Nat.even (length s)
  then (nth (length s / 2 - 1) s 0 + nth (length s / 2) s 0) / 2
  else nth (length s / 2) s 0.
Lemma qmedian_med_of l : qmedian l = med_of (qsort l).
Proof. reflexivity. Qed.

Lemma med_of_rel a b s s' : Forall2 (arel a b) s s' -> s <> [] -> med_of s' == a * med_of s + b.
Proof.
  intros H Hn. unfold med_of. rewrite <- (Forall2_len _ _ _ H).
  assert (Hlen : (0 < length s)%nat) by (destruct s; [congruence|cbn; lia]).
  assert (Hhalf : (length s / 2 < length s)%nat) by (apply Nat.div_lt; lia).
  destruct (Nat.even (length s)).
  - pose proof (Forall2_nth_rel _ _ _ (length s / 2 - 1)%nat 0 0 H ltac:(lia)) as H1.
    pose proof (Forall2_nth_rel _ _ _ (length s / 2)%nat 0 0 H Hhalf) as H2.
    unfold arel in *. rewrite H1, H2. field.
  - exact (Forall2_nth_rel (arel a b) _ _ _ 0 0 H Hhalf).
Qed.

Lemma qsort_nonempty l : l <> [] -> qsort l <> [].
Proof. intros Hn E. apply (f_equal (@length Q)) in E. rewrite qsort_length in E. destruct l; [congruence|discriminate]. Qed.

Lemma qmedian_perm l l' : Permutation l l' -> qmedian l == qmedian l'.
Proof.
  intros Hp. destruct l as [|x r].
  - apply Permutation_nil in Hp. subst. reflexivity.
  - rewrite !qmedian_med_of.
    assert (H : Forall2 Qeq (qsort (x :: r)) (qsort l')).
    { apply sorted_perm_pointwise; try apply qsort_sorted.
      rewrite !qsort_perm. exact Hp. }
    rewrite (med_of_rel 1 0 _ _ (Forall2_Qeq_arel _ _ H)); [ring|].
    apply qsort_nonempty. discriminate.
Qed.

(* pointwise == lists have the same median *)
Lemma qmedian_pointwise l l' : Forall2 Qeq l l' -> qmedian l == qmedian l'.
Proof.
  intros H. destruct l as [|x r].
  - inversion H. reflexivity.
  - pose proof (qmedian_equivariant 1 0 ltac:(lra) _ _ (Forall2_Qeq_arel _ _ H) ltac:(discriminate)) as E.
    unfold arel in E. lra.
Qed.

(* ---- negation ---- *)
Definition neg (l : list Q) : list Q := map Qopp l.

Lemma SS_rev_opp s : StronglySorted Qle s -> StronglySorted Qle (rev (map Qopp s)).
Proof.
  induction 1 as [|x s Hs IH Hx]; cbn [map rev]; [constructor|].
  assert (G : forall t y, StronglySorted Qle t -> (forall z, In z t -> z <= y) -> StronglySorted Qle (t ++ [y])).
  { induction t as [|z t IHt]; intros y Ht Hy; cbn [app]; [repeat constructor|].
    apply StronglySorted_inv in Ht as [Ht Hz]. constructor.
    - apply IHt; [exact Ht|]. intros w Hw. apply Hy. now right.
    - rewrite Forall_forall in *. intros w Hw. apply in_app_or in Hw as [Hw|[<-|[]]]; [now apply Hz|].
      apply Hy. now left. }
  apply G; [exact IH|]. intros z Hz. apply in_rev in Hz. apply in_map_iff in Hz as (w & <- & Hw).
  rewrite Forall_forall in Hx. specialize (Hx w Hw). now apply Qopp_le_compat.
Qed.

Lemma med_of_rev_opp s : med_of (rev (map Qopp s)) == - med_of s.
Proof.
  destruct s as [|x0 r]; [vm_compute; reflexivity|].
  unfold med_of. rewrite rev_length, map_length.
  set (s := x0 :: r). set (n := length s).
  assert (Hn : (0 < n)%nat) by (unfold n, s; cbn; lia).
  assert (Hnth : forall k, (k < n)%nat -> nth k (rev (map Qopp s)) 0 == - nth (n - S k) s 0).
  { intros k Hk. rewrite rev_nth by (rewrite map_length; exact Hk). rewrite map_length. fold n.
    change 0 with (Qopp 0) at 1. rewrite map_nth. reflexivity. }
  assert (Hhalf : (n / 2 < n)%nat) by (apply Nat.div_lt; lia).
  destruct (Nat.even n) eqn:Ev.
  - apply Nat.even_spec in Ev as [m Em].
    assert (Hm : (n / 2 = m)%nat) by (rewrite Em, Nat.mul_comm; apply Nat.div_mul; lia).
    rewrite Hm in *. rewrite (Hnth (m - 1)%nat) by lia. rewrite (Hnth m) by lia.
    replace (n - S (m - 1))%nat with m by lia. replace (n - S m)%nat with (m - 1)%nat by lia. field.
  - assert (Od : Nat.odd n = true) by (rewrite <- Nat.negb_even, Ev; reflexivity).
    apply Nat.odd_spec in Od as [m Em].
    assert (Hm : (n / 2 = m)%nat).
    { rewrite Em. rewrite Nat.add_comm, Nat.mul_comm. rewrite Nat.div_add by lia. reflexivity. }
    rewrite Hm in *. rewrite (Hnth m) by lia. replace (n - S m)%nat with m by lia. reflexivity.
Qed.

Lemma qmedian_neg l : qmedian (neg l) == - qmedian l.
Proof.
  destruct l as [|x r]; [reflexivity|].
  rewrite !qmedian_med_of.
  assert (H : Forall2 Qeq (rev (map Qopp (qsort (x :: r)))) (qsort (neg (x :: r)))).
  { apply sorted_perm_pointwise; [apply SS_rev_opp, qsort_sorted|apply qsort_sorted|].
    rewrite <- Permutation_rev, qsort_perm. unfold neg. now rewrite qsort_perm. }
  rewrite (med_of_rel 1 0 _ _ (Forall2_Qeq_arel _ _ H)).
  - rewrite med_of_rev_opp. ring.
  - intros E. apply (f_equal (@length Q)) in E. rewrite rev_length, map_length, qsort_length in E. discriminate.
Qed.

(* ================================================================== *)
(* Part 2: permutation invariance                                       *)
(* ================================================================== *)
Lemma perm_nonempty (l l' : list Q) : Permutation l l' -> l <> [] -> l' <> [].
Proof. intros Hp Hn E. subst. apply Permutation_sym, Permutation_nil in Hp. congruence. Qed.

Lemma sumQ_perm l l' : Permutation l l' -> sumQ l == sumQ l'.
Proof.
  induction 1 as [|x l l' H IH|x y l|l l' l'' H1 IH1 H2 IH2]; rewrite ?sumQ_cons.
  - reflexivity.
  - rewrite IH. reflexivity.
  - ring.
  - now rewrite IH1.
Qed.
Lemma sumQ_map_perm (f : Q -> Q) l l' : Permutation l l' -> sumQ (map f l) == sumQ (map f l').
Proof. intros H. apply sumQ_perm. now apply Permutation_map. Qed.
Lemma ssd_perm m l l' : Permutation l l' -> ssd m l == ssd m l'.
Proof.
  induction 1 as [|x l l' H IH|x y l|l l' l'' H1 IH1 H2 IH2]; rewrite ?ssd_cons.
  - reflexivity.
  - rewrite IH. reflexivity.
  - ring.
  - now rewrite IH1.
Qed.
Lemma lenQ_perm (l l' : list Q) : Permutation l l' -> lenQ l = lenQ l'.
Proof. intros H. apply lenQ_len. now apply Permutation_length. Qed.

Lemma ssd_comp m m' l : m == m' -> ssd m l == ssd m' l.
Proof.
  intros Hm. rewrite (ssd_arel 1 0 m m' l l); [ring|unfold arel; lra|apply Forall2_arel_refl].
Qed.

Lemma meanQ_perm l l' : Permutation l l' -> meanQ l == meanQ l'.
Proof. intros H. rewrite !meanQ_eq, (sumQ_perm _ _ H), (lenQ_perm _ _ H). reflexivity. Qed.
Lemma varQ_perm l l' : Permutation l l' -> varQ l == varQ l'.
Proof.
  intros H. rewrite !varQ_eq, (lenQ_perm _ _ H), (ssd_perm _ _ _ H).
  rewrite (ssd_comp _ _ l' (meanQ_perm _ _ H)). reflexivity.
Qed.

Lemma qminl_perm l l' : Permutation l l' -> qminl l == qminl l'.
Proof.
  intros Hp. destruct l as [|x r]; [apply Permutation_nil in Hp; subst; reflexivity|].
  assert (Hn : x :: r <> []) by discriminate. pose proof (perm_nonempty _ _ Hp Hn) as Hn'.
  apply Qle_antisym.
  - apply qminl_le. apply (Permutation_in _ (Permutation_sym Hp)). now apply qminl_in.
  - apply qminl_le. apply (Permutation_in _ Hp). now apply qminl_in.
Qed.
Lemma qmaxl_perm l l' : Permutation l l' -> qmaxl l == qmaxl l'.
Proof.
  intros Hp. destruct l as [|x r]; [apply Permutation_nil in Hp; subst; reflexivity|].
  assert (Hn : x :: r <> []) by discriminate. pose proof (perm_nonempty _ _ Hp Hn) as Hn'.
  apply Qle_antisym.
  - apply qmaxl_ge. apply (Permutation_in _ Hp). now apply qmaxl_in.
  - apply qmaxl_ge. apply (Permutation_in _ (Permutation_sym Hp)). now apply qmaxl_in.
Qed.

Lemma absdev_comp m m' l : m == m' -> Forall2 Qeq (absdev m l) (absdev m' l).
Proof.
  intros Hm. unfold absdev. induction l as [|x l IH]; cbn [map]; constructor; [|exact IH].
  now rewrite Hm.
Qed.
Lemma madQ_perm l l' : Permutation l l' -> madQ l == madQ l'.
Proof.
  intros Hp. unfold madQ.
  rewrite (qmedian_perm (absdev (qmedian l) l) (absdev (qmedian l) l')) by (now apply Permutation_map).
  apply qmedian_pointwise, absdev_comp. now apply qmedian_perm.
Qed.

Lemma Qeq_bool_comp_l x y : x == y -> Qeq_bool x 0 = Qeq_bool y 0.
Proof. intros H. apply bool_eq_iff. rewrite !Qeq_bool_iff, H. tauto. Qed.

(* parameters up to == *)
Lemma bw_num_comp M M' s s' l : M == M' -> s == s' -> bw_num M s l == bw_num M' s' l.
Proof.
  intros HM Hs. rewrite (bw_num_arel 1 0 ltac:(lra) l l (Forall2_arel_refl l) M M' s s'); [ring| |].
  - unfold arel. lra.
  - lra.
Qed.
Lemma bw_den_comp M M' s s' l : M == M' -> s == s' -> bw_den M s l == bw_den M' s' l.
Proof.
  intros HM Hs. rewrite (bw_den_arel 1 0 ltac:(lra) l l (Forall2_arel_refl l) M M' s s'); [reflexivity| |].
  - unfold arel. lra.
  - lra.
Qed.
Lemma bs_f1_comp M M' s s' l : M == M' -> s == s' -> bs_f1 M s l == bs_f1 M' s' l.
Proof.
  intros HM Hs. rewrite (bs_f1_arel 1 0 ltac:(lra) l l (Forall2_arel_refl l) M M' s s'); [ring| |].
  - unfold arel. lra.
  - lra.
Qed.
Lemma bs_s2_comp M M' s s' l : M == M' -> s == s' -> bs_s2 M s l == bs_s2 M' s' l.
Proof.
  intros HM Hs. rewrite (bs_s2_arel 1 0 ltac:(lra) l l (Forall2_arel_refl l) M M' s s'); [reflexivity| |].
  - unfold arel. lra.
  - lra.
Qed.

Lemma est_biweight_perm c l l' : Permutation l l' -> est_biweight c l == est_biweight c l'.
Proof.
  intros Hp. unfold est_biweight. cbv zeta.
  pose proof (qmedian_perm _ _ Hp) as HM. pose proof (madQ_perm _ _ Hp) as Hmad.
  rewrite (Qeq_bool_comp_l _ _ Hmad). destruct (Qeq_bool (madQ l') 0); [exact HM|].
  assert (Hs : c * madQ l == c * madQ l') by (now rewrite Hmad).
  assert (E1 : bw_num (qmedian l) (c * madQ l) l == bw_num (qmedian l') (c * madQ l') l').
  { rewrite (bw_num_comp _ _ _ _ l HM Hs). unfold bw_num. now apply sumQ_map_perm. }
  assert (E2 : bw_den (qmedian l) (c * madQ l) l == bw_den (qmedian l') (c * madQ l') l').
  { rewrite (bw_den_comp _ _ _ _ l HM Hs). unfold bw_den. now apply sumQ_map_perm. }
  now rewrite E1, E2, HM.
Qed.

Lemma rms2_biweight_perm c l l' : Permutation l l' -> rms2_biweight c l == rms2_biweight c l'.
Proof.
  intros Hp. unfold rms2_biweight. cbv zeta.
  pose proof (qmedian_perm _ _ Hp) as HM. pose proof (madQ_perm _ _ Hp) as Hmad.
  rewrite (Qeq_bool_comp_l _ _ Hmad). destruct (Qeq_bool (madQ l') 0); [now rewrite Hmad|].
  assert (Hs : c * madQ l == c * madQ l') by (now rewrite Hmad).
  assert (E1 : bs_f1 (qmedian l) (c * madQ l) l == bs_f1 (qmedian l') (c * madQ l') l').
  { rewrite (bs_f1_comp _ _ _ _ l HM Hs). unfold bs_f1. now apply sumQ_map_perm. }
  assert (E2 : bs_s2 (qmedian l) (c * madQ l) l == bs_s2 (qmedian l') (c * madQ l') l').
  { rewrite (bs_s2_comp _ _ _ _ l HM Hs). unfold bs_s2. now apply sumQ_map_perm. }
  now rewrite E1, E2, (lenQ_perm _ _ Hp).
Qed.

Lemma loc_of_perm s l l' : Permutation l l' -> loc_of s l == loc_of s l'.
Proof.
  intros Hp. destruct s; cbn [loc_of].
  - now apply qminl_perm.
  - now apply qmaxl_perm.
  - now apply meanQ_perm.
  - now apply qmedian_perm.
  - unfold est_mmm, est_mode. now rewrite (qmedian_perm _ _ Hp), (meanQ_perm _ _ Hp).
  - now apply est_biweight_perm.
Qed.
Lemma scale_of_perm s l l' : Permutation l l' -> scale_of s l == scale_of s l'.
Proof.
  intros Hp. destruct s; cbn [scale_of scale_class rms2_of_class].
  - now apply varQ_perm.
  - unfold rms2_madstd. now rewrite (madQ_perm _ _ Hp).
  - now apply rms2_biweight_perm.
Qed.
Lemma stats_perm_lemma l l' : Permutation l l' ->
  (forall s, loc_of s l == loc_of s l') /\ (forall s, scale_of s l == scale_of s l').
Proof. intros Hp. split; intros s; [now apply loc_of_perm|now apply scale_of_perm]. Qed.

(* ================================================================== *)
(* Part 3: negation, then the affine laws for every a                   *)
(* ================================================================== *)
Lemma Forall2_neg l : Forall2 (arel (-1) 0) l (neg l).
Proof. unfold neg. induction l; cbn [map]; constructor; [unfold arel; ring|assumption]. Qed.
Lemma neg_nonempty l : l <> [] -> neg l <> [].
Proof. destruct l; [congruence|discriminate]. Qed.
Lemma neg_in l y : In y (neg l) <-> exists x, In x l /\ y = - x.
Proof. unfold neg. rewrite in_map_iff. split; intros (x & H1 & H2); exists x; auto. Qed.

Lemma meanQ_neg l : l <> [] -> meanQ (neg l) == - meanQ l.
Proof. intros Hn. pose proof (meanQ_arel (-1) 0 _ _ (Forall2_neg l) Hn) as H. unfold arel in H. lra. Qed.
Lemma varQ_neg l : l <> [] -> varQ (neg l) == varQ l.
Proof. intros Hn. rewrite (varQ_arel (-1) 0 _ _ (Forall2_neg l) Hn). ring. Qed.

Lemma qminl_neg l : l <> [] -> qminl (neg l) == - qmaxl l.
Proof.
  intros Hn. pose proof (neg_nonempty l Hn) as Hn'. apply Qle_antisym.
  - apply qminl_le. apply neg_in. exists (qmaxl l). split; [now apply qmaxl_in|reflexivity].
  - destruct (proj1 (neg_in l _) (qminl_in _ Hn')) as (x & Hx & ->).
    apply Qopp_le_compat. now apply qmaxl_ge.
Qed.
Lemma qmaxl_neg l : l <> [] -> qmaxl (neg l) == - qminl l.
Proof.
  intros Hn. pose proof (neg_nonempty l Hn) as Hn'. apply Qle_antisym.
  - destruct (proj1 (neg_in l _) (qmaxl_in _ Hn')) as (x & Hx & ->).
    apply Qopp_le_compat. now apply qminl_le.
  - apply qmaxl_ge. apply neg_in. exists (qminl l). split; [now apply qminl_in|reflexivity].
Qed.

Lemma absdev_neg m m' l : m' == - m -> Forall2 Qeq (absdev m l) (absdev m' (neg l)).
Proof.
  intros Hm. unfold absdev, neg. induction l as [|x l IH]; cbn [map]; constructor; [|exact IH].
  rewrite Hm. setoid_replace (- x - - m) with (- (x - m)) by ring. now rewrite Qabs_opp.
Qed.
Lemma madQ_neg l : madQ (neg l) == madQ l.
Proof.
  unfold madQ. symmetry. apply qmedian_pointwise, absdev_neg, qmedian_neg.
Qed.

Lemma bw_u_neg M M' s x : M' == - M -> bw_u M' s (- x) == - bw_u M s x.
Proof. intros HM. unfold bw_u, Qdiv. rewrite HM. ring. Qed.
Lemma Qabs_comp x y : x == y -> Qabs x == Qabs y.
Proof. intros H. now rewrite H. Qed.
Lemma bw_w_neg M M' s x : M' == - M -> bw_w M' s (- x) == bw_w M s x.
Proof.
  intros HM. unfold bw_w. cbv zeta. pose proof (bw_u_neg M M' s x HM) as E.
  assert (Ea : Qabs (bw_u M' s (- x)) == Qabs (bw_u M s x)) by (rewrite E; apply Qabs_opp).
  replace (Qle_bool 1 (Qabs (bw_u M' s (- x)))) with (Qle_bool 1 (Qabs (bw_u M s x))).
  - destruct (Qle_bool 1 (Qabs (bw_u M s x))); [reflexivity|]. rewrite E. ring.
  - apply bool_eq_iff. rewrite !Qle_bool_iff, Ea. tauto.
Qed.
Lemma est_biweight_neg c l : l <> [] -> est_biweight c (neg l) == - est_biweight c l.
Proof.
  intros Hn. unfold est_biweight. cbv zeta.
  pose proof (qmedian_neg l) as HM. pose proof (madQ_neg l) as Hmad.
  rewrite (Qeq_bool_comp_l _ _ Hmad). destruct (Qeq_bool (madQ l) 0); [exact HM|].
  assert (Hs : c * madQ (neg l) == c * madQ l) by (now rewrite Hmad).
  assert (E1 : bw_num (qmedian (neg l)) (c * madQ (neg l)) (neg l) == - bw_num (qmedian l) (c * madQ l) l).
  { rewrite (bw_num_comp _ (qmedian (neg l)) _ (c * madQ l) (neg l) ltac:(reflexivity) Hs).
    unfold bw_num.
    rewrite (sumQ_map_rel (arel (-1) 0) (fun x => (x - qmedian l) * bw_w (qmedian l) (c * madQ l) x)
               (fun x => (x - qmedian (neg l)) * bw_w (qmedian (neg l)) (c * madQ l) x) (-1) l (neg l)
               (Forall2_neg l)); [ring|].
    intros x x' Hx. unfold arel in Hx. assert (Hx' : x' == - x) by lra.
    assert (Ew : bw_w (qmedian (neg l)) (c * madQ l) x' == bw_w (qmedian l) (c * madQ l) x).
    { rewrite <- (bw_w_neg (qmedian l) (qmedian (neg l)) (c * madQ l) x HM).
      pose proof (bw_w_arel 1 0 ltac:(lra) (qmedian (neg l)) (qmedian (neg l)) (c * madQ l) (c * madQ l) (- x) x') as G.
      apply G; unfold arel; lra. }
    rewrite Ew, Hx', HM. ring. }
  assert (E2 : bw_den (qmedian (neg l)) (c * madQ (neg l)) (neg l) == bw_den (qmedian l) (c * madQ l) l).
  { rewrite (bw_den_comp _ (qmedian (neg l)) _ (c * madQ l) (neg l) ltac:(reflexivity) Hs).
    unfold bw_den.
    rewrite (sumQ_map_rel (arel (-1) 0) (bw_w (qmedian l) (c * madQ l))
               (bw_w (qmedian (neg l)) (c * madQ l)) 1 l (neg l) (Forall2_neg l)); [ring|].
    intros x x' Hx. unfold arel in Hx. assert (Hx' : x' == - x) by lra.
    rewrite <- (bw_w_neg (qmedian l) (qmedian (neg l)) (c * madQ l) x HM).
    pose proof (bw_w_arel 1 0 ltac:(lra) (qmedian (neg l)) (qmedian (neg l)) (c * madQ l) (c * madQ l) (- x) x') as G.
    rewrite G; [ring| | |]; unfold arel; lra. }
  rewrite E1, E2, HM. unfold Qdiv. ring.
Qed.

Lemma bs_in_neg M M' s x : M' == - M -> bs_in M' s (- x) = bs_in M s x.
Proof.
  intros HM. unfold bs_in. apply Qlt_bool_comp; [|reflexivity].
  rewrite (bw_u_neg M M' s x HM). apply Qabs_opp.
Qed.
Lemma bs_t1_neg M M' s x : M' == - M -> bs_t1 M' s (- x) == bs_t1 M s x.
Proof.
  intros HM. unfold bs_t1. cbv zeta. rewrite (bs_in_neg M M' s x HM).
  destruct (bs_in M s x); [|reflexivity]. rewrite (bw_u_neg M M' s x HM), HM. ring.
Qed.
Lemma bs_t2_neg M M' s x : M' == - M -> bs_t2 M' s (- x) == bs_t2 M s x.
Proof.
  intros HM. unfold bs_t2. cbv zeta. rewrite (bs_in_neg M M' s x HM).
  destruct (bs_in M s x); [|reflexivity]. rewrite (bw_u_neg M M' s x HM). ring.
Qed.
Lemma sumQ_map_neg (f g : Q -> Q) l : (forall x, g (- x) == f x) -> sumQ (map g (neg l)) == sumQ (map f l).
Proof.
  intros H. unfold neg. induction l as [|x l IH]; [reflexivity|].
  cbn [map]. rewrite !sumQ_cons, IH, H. reflexivity.
Qed.
Lemma rms2_biweight_neg c l : rms2_biweight c (neg l) == rms2_biweight c l.
Proof.
  unfold rms2_biweight. cbv zeta.
  pose proof (qmedian_neg l) as HM. pose proof (madQ_neg l) as Hmad.
  rewrite (Qeq_bool_comp_l _ _ Hmad). destruct (Qeq_bool (madQ l) 0); [now rewrite Hmad|].
  assert (Hs : c * madQ (neg l) == c * madQ l) by (now rewrite Hmad).
  rewrite (bs_f1_comp _ (qmedian (neg l)) _ (c * madQ l) (neg l) ltac:(reflexivity) Hs).
  rewrite (bs_s2_comp _ (qmedian (neg l)) _ (c * madQ l) (neg l) ltac:(reflexivity) Hs).
  unfold bs_f1, bs_s2.
  rewrite (sumQ_map_neg (bs_t1 (qmedian l) (c * madQ l)) (bs_t1 (qmedian (neg l)) (c * madQ l)) l)
    by (intros x; now apply bs_t1_neg).
  rewrite (sumQ_map_neg (bs_t2 (qmedian l) (c * madQ l)) (bs_t2 (qmedian (neg l)) (c * madQ l)) l)
    by (intros x; now apply bs_t2_neg).
  unfold lenQ, neg. rewrite map_length. reflexivity.
Qed.

Lemma loc_of_neg s l : l <> [] -> loc_of s (neg l) == - loc_of (flip s) l.
Proof.
  intros Hn. destruct s; cbn [loc_of flip].
  - now apply qminl_neg.
  - now apply qmaxl_neg.
  - now apply meanQ_neg.
  - apply qmedian_neg.
  - unfold est_mmm, est_mode, est_median. rewrite qmedian_neg, (meanQ_neg l Hn). ring.
  - now apply est_biweight_neg.
Qed.
Lemma scale_of_neg s l : l <> [] -> scale_of s (neg l) == scale_of s l.
Proof.
  intros Hn. destruct s; cbn [scale_of scale_class rms2_of_class].
  - now apply varQ_neg.
  - unfold rms2_madstd. now rewrite madQ_neg.
  - apply rms2_biweight_neg.
Qed.

(* relational forms for a > 0 (from C11 / C11S / C11E) *)
Lemma loc_of_arel a b l l' s : 0 < a -> Forall2 (arel a b) l l' -> l <> [] ->
  loc_of s l' == a * loc_of s l + b.
Proof.
  intros Ha H Hn. destruct s; cbn [loc_of].
  - exact (arel_qminl a b Ha l l' H Hn).
  - exact (arel_qmaxl a b Ha l l' H Hn).
  - exact (est_mean_arel a b l l' H Hn).
  - exact (est_median_arel a b Ha l l' H Hn).
  - exact (est_mmm_arel a b Ha l l' H Hn).
  - exact (est_biweight_arel a b Ha l l' H Hn bw_loc_c).
Qed.
Lemma scale_of_arel a b l l' s : 0 < a -> Forall2 (arel a b) l l' -> l <> [] ->
  scale_of s l' == a * a * scale_of s l.
Proof. intros Ha H Hn. exact (rms2_of_class_arel a b Ha l l' H Hn (scale_class s)). Qed.

Definition affine (a b : Q) (l : list Q) : list Q := map (fun v => a * v + b) l.
Lemma affine_nonempty a b l : l <> [] -> affine a b l <> [].
Proof. destruct l; [congruence|discriminate]. Qed.
Lemma affine_neg_rel a b l : Forall2 (arel (- a) b) (neg l) (affine a b l).
Proof. unfold neg, affine. induction l; cbn [map]; constructor; [unfold arel; ring|assumption]. Qed.
Lemma affine_zero b l : allq b (affine 0 b l).
Proof. intros v Hv. unfold affine in Hv. apply in_map_iff in Hv as (x & <- & _). ring. Qed.

(* constants *)
Lemma loc_of_const s c l : l <> [] -> allq c l -> loc_of s l == c.
Proof.
  intros Hn Hc. destruct s; cbn [loc_of].
  - now apply qminl_const.
  - now apply qmaxl_const.
  - now apply est_mean_const.
  - now apply est_median_const.
  - now apply est_mmm_const.
  - now apply est_biweight_const.
Qed.
Lemma scale_of_const s c l : l <> [] -> allq c l -> scale_of s l == 0.
Proof. intros Hn Hc. exact (rms2_of_class_const (scale_class s) c l Hn Hc). Qed.

Lemma loc_affine_nonneg s a b l : 0 <= a -> l <> [] -> loc_of s (affine a b l) == a * loc_of s l + b.
Proof.
  intros Ha Hn. destruct (Qeq_dec a 0) as [E|E].
  - assert (Hc : allq b (affine a b l)).
    { intros v Hv. unfold affine in Hv. apply in_map_iff in Hv as (x & <- & _). rewrite E. ring. }
    rewrite (loc_of_const s b _ (affine_nonempty a b l Hn) Hc), E. ring.
  - apply loc_of_arel; [lra|apply Forall2_map_arel|exact Hn].
Qed.
Lemma loc_affine_nonpos s a b l : a <= 0 -> l <> [] -> loc_of s (affine a b l) == a * loc_of (flip s) l + b.
Proof.
  intros Ha Hn. destruct (Qeq_dec a 0) as [E|E].
  - assert (Hc : allq b (affine a b l)).
    { intros v Hv. unfold affine in Hv. apply in_map_iff in Hv as (x & <- & _). rewrite E. ring. }
    rewrite (loc_of_const s b _ (affine_nonempty a b l Hn) Hc), E. ring.
  - rewrite (loc_of_arel (- a) b (neg l) (affine a b l) s ltac:(lra) (affine_neg_rel a b l) (neg_nonempty l Hn)).
    rewrite (loc_of_neg s l Hn). ring.
Qed.
Lemma scale_affine s a b l : l <> [] -> scale_of s (affine a b l) == a * a * scale_of s l.
Proof.
  intros Hn. destruct (Q_dec a 0) as [[Hlt|Hgt]|E].
  - rewrite (scale_of_arel (- a) b (neg l) (affine a b l) s ltac:(lra) (affine_neg_rel a b l) (neg_nonempty l Hn)).
    rewrite (scale_of_neg s l Hn). ring.
  - apply (scale_of_arel a b l (affine a b l) s); [lra|apply Forall2_map_arel|exact Hn].
  - assert (Hc : allq b (affine a b l)).
    { intros v Hv. unfold affine in Hv. apply in_map_iff in Hv as (x & <- & _). rewrite E. ring. }
    rewrite (scale_of_const s b _ (affine_nonempty a b l Hn) Hc), E. ring.
Qed.

(* the roots (std, mad_std) scale by |a| : stated for any non-negative roots of the squares *)
Lemma root_scales_by_abs a v r r' : 0 <= r -> 0 <= r' -> r * r == v -> r' * r' == a * a * v -> r' == Qabs a * r.
Proof.
  intros Hr Hr' E E'. pose proof (Qabs_nonneg a) as Ha.
  assert (Eaa : a * a == Qabs a * Qabs a).
  { rewrite <- Qabs_Qmult. symmetry. apply Qabs_pos. nra. }
  set (t := Qabs a * r). assert (Ht : 0 <= t) by (unfold t; nra).
  assert (Et : r' * r' == t * t) by (unfold t; rewrite E', Eaa, <- E; ring).
  assert (Ez : (r' - t) * (r' + t) == 0) by (rewrite <- (Qplus_opp_r (t * t)), <- Et at 1; ring).
  destruct (Qmult_integral _ _ Ez) as [H|H]; [lra|].
  assert (r' == 0) by lra. assert (t == 0) by lra. lra.
Qed.

(* ================================================================== *)
(* Part 4: hull, extrema, variance zero iff constant                    *)
(* ================================================================== *)
Lemma loc_in_hull s l : l <> [] -> s <> LMode -> qminl l <= loc_of s l <= qmaxl l.
Proof.
  intros Hn Hs. destruct s; cbn [loc_of]; try congruence.
  - split; [apply Qle_refl|apply qminl_le_qmaxl].
  - split; [apply qminl_le_qmaxl|apply Qle_refl].
  - now apply est_mean_in_hull.
  - now apply est_median_in_hull.
  - now apply est_biweight_in_hull.
Qed.
Lemma mode_outside_hull : exists l, l <> [] /\ loc_of LMode l < qminl l.
Proof. exists [0; 0; 1]. split; [discriminate|exact est_mmm_outside_hull]. Qed.

Lemma extrema_attained_lemma l : l <> [] ->
  In (qminl l) l /\ In (qmaxl l) l /\ forall x, In x l -> qminl l <= x <= qmaxl l.
Proof.
  intros Hn. split; [now apply qminl_in|]. split; [now apply qmaxl_in|].
  intros x Hx. split; [now apply qminl_le|now apply qmaxl_ge].
Qed.

Lemma ssd_zero m l : ssd m l == 0 -> allq m l.
Proof.
  induction l as [|x l IH]; intros H v Hv; [destruct Hv|].
  rewrite ssd_cons in H. pose proof (ssd_nonneg m l) as H1. pose proof (sq_nonneg (x - m)) as H2.
  assert (E1 : (x - m) * (x - m) == 0) by lra. assert (E2 : ssd m l == 0) by lra.
  destruct Hv as [<-|Hv]; [|now apply IH].
  destruct (Qmult_integral _ _ E1); lra.
Qed.
Lemma varQ_zero_iff l : l <> [] -> (varQ l == 0 <-> forall x y, In x l -> In y l -> x == y).
Proof.
  intros Hn. split.
  - intros H x y Hx Hy. pose proof (varQ_len l Hn) as E. rewrite H in E.
    assert (E0 : ssd (meanQ l) l == 0) by (rewrite <- E; ring).
    pose proof (ssd_zero _ _ E0) as Hall. rewrite (Hall x Hx), (Hall y Hy). reflexivity.
  - intros H. destruct l as [|c r]; [congruence|].
    apply (varQ_const c); [discriminate|]. intros v Hv. apply H; [exact Hv|now left].
Qed.
Lemma scale_nonneg s l : 0 <= scale_of s l.
Proof. apply rms2_of_class_nonneg. Qed.

(* MAD-based scales can vanish on non-constant lists: more than half of the values equal *)
Definition mad0_witness : list Q := [0; 0; 0; 5].
Lemma robust_scale_zero_not_constant :
  (forall k, scale_of (SMadStd2 k) mad0_witness == 0) /\ scale_of SBiweightVar mad0_witness == 0 /\
  ~ scale_of SVar mad0_witness == 0 /\ ~ (forall x y, In x mad0_witness -> In y mad0_witness -> x == y).
Proof.
  assert (E : madQ mad0_witness == 0) by (vm_compute; reflexivity).
  split; [|split; [|split]].
  - intros k. cbn [scale_of scale_class rms2_of_class]. unfold rms2_madstd. rewrite E. ring.
  - vm_compute. reflexivity.
  - vm_compute. discriminate.
  - intros H. specialize (H 0 5 ltac:(now left) ltac:(cbn; tauto)). vm_compute in H. discriminate.
Qed.

(* the biweight location quotient (c = 6) is always defined *)
Lemma bwloc_defined l : l <> [] -> biweight_defined bw_loc_c l = true.
Proof. apply biweight_defined_lemma. unfold bw_loc_c. lra. Qed.

(* ================================================================== *)
(* Part 5: the ApertureStats level                                      *)
(* ================================================================== *)
(* the values of a pixel set over Q *)
Definition set_values (ds : Z) (sc : scene) (bkg : Z) (A : list (Z * Z)) : list Q :=
  map (fun p => Qmake (value_at sc bkg p) (Z.to_pos ds)) A.

Lemma case_values_map {A} ds (f : A -> Z) l :
  case_values ds (map f l) = map (fun p => Qmake (f p) (Z.to_pos ds)) l.
Proof. unfold case_values. now rewrite map_map. Qed.

Lemma sel_values_set ds sc bkg A :
  sel_values ds (get_values_of A (fun p => Some (value_at sc bkg p)))
  = match A with [] => None | _ :: _ => Some (set_values ds sc bkg A) end.
Proof.
  unfold sel_values, get_values_of. destruct A as [|p A]; [reflexivity|].
  rewrite <- (map_map (value_at sc bkg) Some), all_some_map_Some.
  cbn [map]. unfold set_values. now rewrite <- case_values_map.
Qed.

Lemma ap_values_spec ds o sc a bkg :
  binary (a_Wc a) -> clip_keeps_mask sc (a_box a) (a_Wc a) bkg (a_clipc a) ->
  ap_values ds o sc a bkg
  = match A_pixels sc (a_box a) (a_Wc a) (a_clipc a) with
    | [] => None
    | A => nonempty (clipped o (set_values ds sc bkg A))
    end.
Proof.
  intros Hb Hc. unfold ap_values. rewrite (values_center_spec sc a bkg Hb Hc), sel_values_set.
  destruct (A_pixels sc (a_box a) (a_Wc a) (a_clipc a)); reflexivity.
Qed.

Lemma set_values_nonempty ds sc bkg A : A <> [] -> set_values ds sc bkg A <> [].
Proof. destruct A; [congruence|discriminate]. Qed.

(* sigma_clip = None (or the SigmaClip mask given with the aperture): the statistics are the
   statistics of the values of the pixel set *)
Lemma ap_stats_spec ds sc a bkg :
  binary (a_Wc a) -> clip_keeps_mask sc (a_box a) (a_Wc a) bkg (a_clipc a) ->
  let A := A_pixels sc (a_box a) (a_Wc a) (a_clipc a) in
  A <> [] ->
  (forall s, ap_loc s ds None sc a bkg = Some (loc_of s (set_values ds sc bkg A))) /\
  (forall s, ap_scale s ds None sc a bkg = Some (scale_of s (set_values ds sc bkg A))).
Proof.
  intros Hb Hc A HA. unfold ap_loc, ap_scale. rewrite (ap_values_spec ds None sc a bkg Hb Hc). fold A.
  destruct A as [|p A'] eqn:E; [congruence|]. cbn [clipped nonempty set_values map option_map].
  split; intros s; reflexivity.
Qed.

(* empty selection (incl. no overlap): NaN *)
Lemma ap_empty_nan ds o sc a bkg :
  binary (a_Wc a) -> clip_keeps_mask sc (a_box a) (a_Wc a) bkg (a_clipc a) ->
  A_pixels sc (a_box a) (a_Wc a) (a_clipc a) = [] ->
  (forall s, ap_loc s ds o sc a bkg = None) /\ (forall s, ap_scale s ds o sc a bkg = None).
Proof.
  intros Hb Hc HA. unfold ap_loc, ap_scale. rewrite (ap_values_spec ds o sc a bkg Hb Hc), HA.
  split; intros s; reflexivity.
Qed.
Lemma ap_no_overlap_nan ds o sc a bkg :
  overlap_slices (a_box a) (s_ny sc) (s_nx sc) = None ->
  (forall s, ap_loc s ds o sc a bkg = None) /\ (forall s, ap_scale s ds o sc a bkg = None).
Proof.
  intros Hov. unfold ap_loc, ap_scale, ap_values, values_center, fam_center, make_cutouts. rewrite Hov.
  split; intros s; reflexivity.
Qed.

(* the statistics read the CENTRE-method cutout only: the sum-method weights, the sum-method clip
   mask, sum_method == 'center' and the error map do not enter *)
Lemma ap_values_center_only ds o sc a bkg err ctr Ws clips :
  ap_values ds o (mkscene (s_ny sc) (s_nx sc) (s_data sc) (s_mask sc) err ctr)
            (mkaper (a_box a) (a_Wc a) Ws (a_clipc a) clips) bkg
  = ap_values ds o sc a bkg.
Proof.
  unfold ap_values, values_center, fam_center, make_cutouts. cbn [s_ny s_nx s_err a_box a_Wc a_clipc].
  destruct (overlap_slices (a_box a) (s_ny sc) (s_nx sc)) as [[large small]|]; [|reflexivity].
  destruct err, (s_err sc); reflexivity.
Qed.

(* ---- local background ---- *)
Lemma mask0_bkg sc W bkg large small jk :
  mask0_at sc W bkg large small jk = mask0_at sc W 0 large small jk.
Proof.
  unfold mask0_at, data_mask_at, data0_at, vsub.
  destruct (C16_Model.get2 None (s_data sc) (fst (fst large) + fst jk) (fst (snd large) + snd jk)); reflexivity.
Qed.
Lemma clip_keeps_mask_bkg sc b W bkg clip :
  clip_keeps_mask sc b W bkg clip <-> clip_keeps_mask sc b W 0 clip.
Proof.
  unfold clip_keeps_mask. destruct clip as [c|]; [|tauto].
  destruct (overlap_slices b (s_ny sc) (s_nx sc)) as [[large small]|]; [|tauto].
  split; intros H jk Hjk Hm; apply (H jk Hjk); [rewrite mask0_bkg|rewrite <- (mask0_bkg sc W bkg)]; exact Hm.
Qed.

Lemma value_at_bkg sc b W clip bkg p : In p (A_pixels sc b W clip) ->
  value_at sc bkg p = (value_at sc 0 p - bkg)%Z.
Proof.
  intros Hp. apply A_pixels_In in Hp as [_ Hp]. unfold inA in Hp.
  apply andb_prop in Hp as [Hp _]. apply andb_prop in Hp as [_ Hf].
  unfold finite_at in Hf. unfold value_at.
  destruct (C16_Model.get2 None (s_data sc) (fst p) (snd p)); [lia|discriminate].
Qed.

Lemma Qmake_sub v b d : Qmake (v - b) d == 1 * Qmake v d + - Qmake b d.
Proof. unfold Qeq, Qplus, Qmult, Qopp. cbn [Qnum Qden]. rewrite !Pos2Z.inj_mul. ring. Qed.

Lemma set_values_bkg ds sc b W clip bkg :
  Forall2 (arel 1 (- Qmake bkg (Z.to_pos ds))) (set_values ds sc 0 (A_pixels sc b W clip))
          (set_values ds sc bkg (A_pixels sc b W clip)).
Proof.
  unfold set_values. apply Forall2_map_same. intros p Hp. unfold arel.
  rewrite (value_at_bkg sc b W clip bkg p Hp). apply Qmake_sub.
Qed.

Lemma clipped_arel o a b l l' : 0 < a -> Forall2 (arel a b) l l' -> Forall2 (arel a b) (clipped o l) (clipped o l').
Proof. intros Ha H. destruct o as [P|]; cbn [clipped]; [now apply clip_arel|exact H]. Qed.

Lemma local_bkg_lemma ds o sc a bkg :
  binary (a_Wc a) -> clip_keeps_mask sc (a_box a) (a_Wc a) bkg (a_clipc a) ->
  (forall s, orel (fun x0 x => x == x0 - Qmake bkg (Z.to_pos ds)) (ap_loc s ds o sc a 0) (ap_loc s ds o sc a bkg)) /\
  (forall s, orel (fun x0 x => x == x0) (ap_scale s ds o sc a 0) (ap_scale s ds o sc a bkg)).
Proof.
  intros Hb Hc. pose proof (proj1 (clip_keeps_mask_bkg sc (a_box a) (a_Wc a) bkg (a_clipc a)) Hc) as Hc0.
  unfold ap_loc, ap_scale.
  rewrite (ap_values_spec ds o sc a bkg Hb Hc), (ap_values_spec ds o sc a 0 Hb Hc0).
  pose proof (set_values_bkg ds sc (a_box a) (a_Wc a) (a_clipc a) bkg) as Hrel.
  destruct (A_pixels sc (a_box a) (a_Wc a) (a_clipc a)) as [|p A'] eqn:EA.
  - split; intros s; constructor.
  - pose proof (clipped_arel o 1 _ _ _ ltac:(lra) Hrel) as Hcl.
    set (l0 := clipped o (set_values ds sc 0 (p :: A'))) in *.
    set (l1 := clipped o (set_values ds sc bkg (p :: A'))) in *.
    destruct Hcl as [|x x' r r' Hx Hr]; cbn [nonempty option_map]; [split; intros s; constructor|].
    assert (HF : Forall2 (arel 1 (- Qmake bkg (Z.to_pos ds))) (x :: r) (x' :: r')) by (now constructor).
    split; intros s; constructor.
    + rewrite (loc_of_arel 1 _ _ _ s ltac:(lra) HF ltac:(discriminate)). ring.
    + rewrite (scale_of_arel 1 _ _ _ s ltac:(lra) HF ltac:(discriminate)). ring.
Qed.

(* ---- selecting by the sum-method footprint instead of the pixel centres gives other numbers ---- *)
Definition foot_sc : scene := mkscene 1 2 [[Some 8%Z; Some 24%Z]] None None false.
Definition foot_a : aper := mkaper (mkbox 0 2 0 1) [[1%Z; 0%Z]] [[3%Z; 1%Z]] None None.
Lemma sum_footprint_refuted_lemma :
  exists sc a ds,
    binary (a_Wc a) /\ nonneg (a_Ws a) /\
    ap_loc LMean ds None sc a 0 = Some 1 /\
    ~ loc_of LMean (set_values ds sc 0 (A_pixels sc (a_box a) (a_Ws a) (a_clips a))) == 1.
Proof.
  exists foot_sc, foot_a, 8%Z.
  split; [unfold binary, foot_a, a_Wc; solve_get2|].
  split; [unfold nonneg, foot_a, a_Ws; solve_get2; lia|].
  split; [vm_compute; reflexivity|].
  vm_compute. discriminate.
Qed.

(* ---- sigma clip of C11S on the value list: a sub-list, never empty for sigma >= 1 ---- *)
Lemma clipped_incl o l x : In x (clipped o l) -> In x l.
Proof. destruct o as [P|]; cbn [clipped]; [|trivial]. unfold clip. intros H. now apply filter_In in H. Qed.
Lemma clipped_nonempty o l :
  match o with Some P => 1 <= p_lo P /\ 1 <= p_hi P | None => True end ->
  l <> [] -> clipped o l <> [].
Proof.
  destruct o as [P|]; cbn [clipped]; [|trivial]. intros [H1 H2] Hn.
  exact (proj1 (proj2 (clip_nonempty_lemma P l H1 H2 Hn))).
Qed.

(* ---- forms used by C16E_Properties ---- *)
Lemma center_rule_lemma sc a p :
  In p (A_pixels sc (a_box a) (a_Wc a) (a_clipc a)) <->
  ((0 <= fst p < s_ny sc)%Z /\ (0 <= snd p < s_nx sc)%Z) /\
  in_box (a_box a) (fst p) (snd p) && negb (weight_px (a_box a) (a_Wc a) p =? 0)%Z
  && negb (mask_at sc (fst p) (snd p)) && finite_at sc (fst p) (snd p)
  && negb (clipped_at (a_box a) (a_clipc a) (fst p) (snd p)) = true.
Proof. exact (A_pixels_In sc (a_box a) (a_Wc a) (a_clipc a) p). Qed.

Lemma constant_selection_lemma c l : l <> [] -> (forall v, In v l -> v == c) ->
  (forall s, loc_of s l == c) /\ (forall s, scale_of s l == 0) /\ Qeq_bool (madQ l) 0 = true.
Proof.
  intros Hn Hc. split; [intros s; now apply loc_of_const|].
  split; [intros s; now apply (scale_of_const s c)|].
  exact (proj2 (est_biweight_const c l Hn Hc bw_loc_c)).
Qed.

(* ================================================================== *)
(* Part 6: the SigmaClip output mask given with the aperture vs the clip of the C11S model *)
(* ================================================================== *)
Lemma filter_filter_and {A} (f g : A -> bool) l : filter f (filter g l) = filter (fun x => g x && f x) l.
Proof.
  induction l as [|x l IH]; [reflexivity|]. cbn [filter].
  destruct (g x); cbn [filter andb]; [destruct (f x); now rewrite IH|exact IH].
Qed.

Lemma A_pixels_clip_filter sc b W c :
  A_pixels sc b W (Some c)
  = filter (fun p => negb (clipped_at b (Some c) (fst p) (snd p))) (A_pixels sc b W None).
Proof.
  unfold A_pixels. rewrite filter_filter_and. apply filter_ext. intros p. unfold inA.
  cbn [clipped_at]. rewrite andb_true_r. reflexivity.
Qed.

Lemma map_filter_comm {A B} (f : A -> B) (g : B -> bool) l :
  map f (filter (fun x => g (f x)) l) = filter g (map f l).
Proof.
  induction l as [|x l IH]; [reflexivity|]. cbn [filter map]. destruct (g (f x)); cbn [map]; now rewrite IH.
Qed.

(* the aperture without its clip mask *)
Definition unclipped (a : aper) : aper := mkaper (a_box a) (a_Wc a) (a_Ws a) None (a_clips a).

(* if, on the unclipped pixel set, the given mask marks exactly the values that the SigmaClip model
   rejects, then selecting with the mask IS clipping the value list with the model *)
Lemma clip_mask_is_model_clip ds P sc a bkg c :
  binary (a_Wc a) -> a_clipc a = Some c ->
  clip_keeps_mask sc (a_box a) (a_Wc a) bkg (Some c) ->
  let A0 := A_pixels sc (a_box a) (a_Wc a) None in
  (forall p, In p A0 ->
     clipped_at (a_box a) (Some c) (fst p) (snd p)
     = negb (keep (p_cen P) (p_lo P) (p_hi P) (final_src P (set_values ds sc bkg A0))
                  (Qmake (value_at sc bkg p) (Z.to_pos ds)))) ->
  ap_values ds None sc a bkg = ap_values ds (Some P) sc (unclipped a) bkg.
Proof.
  intros Hb Ec Hc A0 Hagree.
  rewrite (ap_values_spec ds None sc a bkg Hb) by (rewrite Ec; exact Hc).
  rewrite (ap_values_spec ds (Some P) sc (unclipped a) bkg Hb I).
  cbn [unclipped a_box a_Wc a_clipc]. rewrite Ec, A_pixels_clip_filter. fold A0.
  assert (E : set_values ds sc bkg
                (filter (fun p => negb (clipped_at (a_box a) (Some c) (fst p) (snd p))) A0)
              = clip P (set_values ds sc bkg A0)).
  { unfold clip, set_values at 1 3.
    rewrite <- (map_filter_comm (fun p => Qmake (value_at sc bkg p) (Z.to_pos ds))
                  (keep (p_cen P) (p_lo P) (p_hi P) (final_src P (set_values ds sc bkg A0))) A0).
    f_equal. apply C16_Proofs.filter_ext_in'. intros p Hp. rewrite (Hagree p Hp). apply negb_involutive. }
  destruct A0 as [|p0 A0'] eqn:EA0; [reflexivity|].
  cbn [clipped]. rewrite <- E.
  destruct (filter (fun p => negb (clipped_at (a_box a) (Some c) (fst p) (snd p))) (p0 :: A0')); reflexivity.
Qed.
