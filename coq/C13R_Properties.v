(* C13R_Properties.v -- property C13, clause "every analytic PSF model integrates to its
   flux", over the REALS, for CircularGaussianPSF, GaussianPSF and MoffatPSF
   (transcribed in C13R_Model.v from photutils/psf/functional_models.py).

   WHAT IS PROVED
   (1) radial structure: the two circular models read (x, y) only through
       r^2 = (x-x_0)^2 + (y-y_0)^2 and equal the textbook profiles; GaussianPSF with the
       coefficients a, b, c exactly as coded is the circular Gaussian of unit sigma after the
       bijective affine change of variables (rotation by theta, scaling by sigma_x, sigma_y)
       whose Jacobian determinant is sigma_x * sigma_y.
   (2) radial normalisation (`*_normalised_polar`, FULL as statements about the radial
       integral): for every ray from the centre,
          int_0^R 2 pi r model(r) dr = flux * (1 - exp(-R^2/(2 sigma^2)))         (Gaussians)
                                     = flux * (1 - (1 + R^2/alpha^2)^(1-beta))   (Moffat, alpha>0)
       by explicit antiderivatives; the partial integrals increase with R, stay in [0, flux]
       (strictly below flux) and tend to flux as R -> +oo (Moffat: beta > 1); hence the
       improper integral int_0^oo 2 pi r model(r) dr is flux.
   (3) FWHM: the constant 1/(2 sqrt(2 ln 2)) and MoffatPSF.fwhm = 2 alpha sqrt(2^(1/beta)-1),
       as coded, give half the peak value at distance fwhm/2; the models are non-negative,
       peak at the centre and decrease with r (strictly for flux > 0).
   (4) STRETCH, beyond the polar form: the Gaussian integral
       int_{-oo}^{+oo} exp(-x^2) dx = sqrt(pi) (not in Coquelicot; C13R_GaussInt.v) and with
       it the GENUINE TWO-DIMENSIONAL normalisation of both Gaussian models over the whole
       plane as an iterated improper Riemann integral (`*_normalised_plane`; for the rotated
       elliptical model by completing the square, no 2-D change of variables needed); the
       same for MoffatPSF with the class default beta = 2 (rational integrand, atan).
       Also: the error function erf(z) = 2/sqrt(pi) int_0^z exp(-t^2) dt has the four
       properties that the exact development C13_Proofs.v ASSUMES of scipy.special.erf
       (monotone, odd, bounded by 1, tends to +-1), and CircularGaussianPRF / GaussianPRF
       (theta a multiple of 90 degrees) are exactly the integral of the corresponding PSF
       model over the unit pixel.

   REMARK (polar_reduction_gap) -- WHAT IS NOT PROVED.  The identity
          (2-D integral of a radial function g(|p - p_0|) over the disc of radius R)
              = int_0^R 2 pi r g(r) dr                       (polar coordinates)
   is NOT proved here: Coquelicot has no two-dimensional integral, no Fubini theorem and no
   change of variables in 2-D.  The `*_normalised_polar` theorems are therefore statements
   about the RADIAL form only.  Consequences, model by model:
     CircularGaussianPSF, GaussianPSF : the gap is irrelevant -- `*_normalised_plane` proves
        int int model dx dy = flux over R^2 directly in Cartesian coordinates (iterated
        improper Riemann integrals, x first then y).  Not proved: that this iterated integral
        equals the Lebesgue integral (Tonelli; true since the integrand is >= 0 for flux >= 0),
        nor the integral over a finite disc in Cartesian form.
     MoffatPSF : for general beta > 1 only the polar form is proved; its Cartesian sections
        are Beta-function integrals (not elementary for real beta).  The clause "MoffatPSF
        integrates to its flux over the plane" stays PARTIAL with exactly this gap:
        polar_reduction_gap.  For the class default beta = 2 (rational integrand, atan) the
        Cartesian normalisation over the plane IS proved
        (moffat_psf_default_beta_normalised_plane), and agrees with the polar value.
     AiryDiskPSF : out of scope (Bessel J1; no Bessel functions in the installed libraries).

   Trusted base: the transcription C13R_Model.v (read against the source, statement by
   statement; assumptions (R) floats are reals, (F) numpy primitives are Coq's exp/ln/sqrt/
   cos/sin/PI, (P) float power with positive base is Rpower, (S) scipy erf is the error
   function, (U) unit branches not transcribed, (Z) total division + explicit positivity
   hypotheses).  Nothing here is about IEEE rounding.

   Assumptions: only the standard-library axioms that come with Coq's real numbers and
   Coquelicot, as listed by Print Assumptions after each theorem
   (ClassicalDedekindReals.sig_forall_dec, ClassicalDedekindReals.sig_not_dec,
   FunctionalExtensionality.functional_extensionality_dep, Classical_Prop.classic; some
   theorems use fewer).  None is declared in this development. *)

From Coq Require Import Reals Lra.
Set Warnings "-ambiguous-paths".
From Coquelicot Require Import Coquelicot.
Set Warnings "ambiguous-paths".
From PV Require Import C13R_Model C13R_Proofs C13R_GaussInt C13R_Plane.
Open Scope R_scope.

(* ================================================================== *)
(* 1. constants, radial structure                                       *)
(* ================================================================== *)

(* GAUSSIAN_FWHM_TO_SIGMA = 1/(2 sqrt(2 ln 2)): positive, square 1/(8 ln 2) *)
Theorem gaussian_fwhm_to_sigma_constant :
  0 < GAUSSIAN_FWHM_TO_SIGMA /\ GAUSSIAN_FWHM_TO_SIGMA ^ 2 = 1 / (8 * ln 2).
Proof. exact f2s_constant. Qed.
Print Assumptions gaussian_fwhm_to_sigma_constant.

(* no hypothesis at all: equal r^2 => equal value *)
Theorem circular_gaussian_psf_is_radial : forall x y x' y' flux x_0 y_0 fwhm : R,
  rsq x y x_0 y_0 = rsq x' y' x_0 y_0 ->
  circular_gaussian_psf x y flux x_0 y_0 fwhm = circular_gaussian_psf x' y' flux x_0 y_0 fwhm.
Proof. exact cg_psf_is_radial. Qed.
Print Assumptions circular_gaussian_psf_is_radial.

(* ... and the value is flux/(2 pi sigma^2) exp(-r^2/(2 sigma^2)), sigma = fwhm * constant *)
Theorem circular_gaussian_psf_radial_profile : forall x y flux x_0 y_0 fwhm : R,
  0 < fwhm ->
  circular_gaussian_psf x y flux x_0 y_0 fwhm
  = gauss_profile flux (cg_sigma fwhm) (sqrt (rsq x y x_0 y_0)).
Proof. exact cg_psf_profile. Qed.
Print Assumptions circular_gaussian_psf_radial_profile.

Theorem moffat_psf_is_radial : forall x y x' y' flux x_0 y_0 alpha beta : R,
  rsq x y x_0 y_0 = rsq x' y' x_0 y_0 ->
  moffat_psf x y flux x_0 y_0 alpha beta = moffat_psf x' y' flux x_0 y_0 alpha beta.
Proof. exact C13R_Proofs.moffat_psf_is_radial. Qed.
Print Assumptions moffat_psf_is_radial.

(* flux (beta-1)/(pi alpha^2) (1 + r^2/alpha^2)^(-beta); no hypothesis *)
Theorem moffat_psf_radial_profile : forall x y flux x_0 y_0 alpha beta : R,
  moffat_psf x y flux x_0 y_0 alpha beta
  = moffat_profile flux alpha beta (sqrt (rsq x y x_0 y_0)).
Proof. exact moffat_psf_profile. Qed.
Print Assumptions moffat_psf_radial_profile.

(* the quadratic form a dx^2 + b dx dy + c dy^2 of the code is (u^2 + v^2)/2 in the rotated,
   scaled coordinates u = (dx cos + dy sin)/sigma_x, v = (-dx sin + dy cos)/sigma_y *)
Theorem gaussian_psf_quadratic_form : forall x y flux x_0 y_0 xf yf theta : R,
  0 < xf -> 0 < yf ->
  gaussian_psf x y flux x_0 y_0 xf yf theta
  = flux / (2 * PI * cg_sigma xf * cg_sigma yf)
    * exp (- (ell_u x_0 y_0 (cg_sigma xf) theta x y ^ 2
              + ell_v x_0 y_0 (cg_sigma yf) theta x y ^ 2) / 2).
Proof. exact gaussian_psf_unit_form. Qed.
Print Assumptions gaussian_psf_quadratic_form.

(* GaussianPSF o (affine map) * Jacobian = CircularGaussianPSF of unit sigma centred at 0 *)
Theorem gaussian_psf_is_affine_image_of_circular : forall flux x_0 y_0 xf yf theta u v : R,
  0 < xf -> 0 < yf ->
  gaussian_psf (ell_x x_0 (cg_sigma xf) (cg_sigma yf) theta u v)
               (ell_y y_0 (cg_sigma xf) (cg_sigma yf) theta u v) flux x_0 y_0 xf yf theta
  * ell_jacobian (cg_sigma xf) (cg_sigma yf) theta
  = circular_gaussian_psf u v flux 0 0 (1 / GAUSSIAN_FWHM_TO_SIGMA).
Proof. exact gaussian_psf_affine_image. Qed.
Print Assumptions gaussian_psf_is_affine_image_of_circular.

(* the four partial derivatives of the map and its determinant sigma_x sigma_y *)
Theorem gaussian_psf_change_of_variables_jacobian : forall x_0 y_0 sx sy theta u v : R,
  is_derive (fun u => ell_x x_0 sx sy theta u v) u (sx * cos (deg2rad theta)) /\
  is_derive (fun v => ell_x x_0 sx sy theta u v) v (- sy * sin (deg2rad theta)) /\
  is_derive (fun u => ell_y y_0 sx sy theta u v) u (sx * sin (deg2rad theta)) /\
  is_derive (fun v => ell_y y_0 sx sy theta u v) v (sy * cos (deg2rad theta)) /\
  ell_jacobian sx sy theta = sx * sy.
Proof. exact ell_jacobian_is_sx_sy. Qed.
Print Assumptions gaussian_psf_change_of_variables_jacobian.

Theorem gaussian_psf_change_of_variables_bijective : forall x_0 y_0 sx sy theta : R,
  sx <> 0 -> sy <> 0 ->
  (forall u v,
     ell_u x_0 y_0 sx theta (ell_x x_0 sx sy theta u v) (ell_y y_0 sx sy theta u v) = u /\
     ell_v x_0 y_0 sy theta (ell_x x_0 sx sy theta u v) (ell_y y_0 sx sy theta u v) = v) /\
  (forall x y,
     ell_x x_0 sx sy theta (ell_u x_0 y_0 sx theta x y) (ell_v x_0 y_0 sy theta x y) = x /\
     ell_y y_0 sx sy theta (ell_u x_0 y_0 sx theta x y) (ell_v x_0 y_0 sy theta x y) = y).
Proof. exact ell_change_of_variables_bijective. Qed.
Print Assumptions gaussian_psf_change_of_variables_bijective.

(* equal widths: the elliptical model IS the circular one, at every angle *)
Theorem gaussian_psf_equal_widths_is_circular : forall x y flux x_0 y_0 fwhm theta : R,
  0 < fwhm ->
  gaussian_psf x y flux x_0 y_0 fwhm fwhm theta = circular_gaussian_psf x y flux x_0 y_0 fwhm.
Proof. exact gaussian_psf_equal_widths. Qed.
Print Assumptions gaussian_psf_equal_widths_is_circular.

(* ================================================================== *)
(* 2. radial normalisation integrals                                    *)
(* ================================================================== *)

(* antiderivatives of 2 pi r g(r):  -flux exp(-r^2/(2 sigma^2))  and
   -flux (1 + r^2/alpha^2)^(1-beta) *)
Theorem shell_antiderivatives :
  (forall flux sigma r, 0 < sigma ->
     is_derive (gauss_shell_prim flux sigma) r (gauss_shell flux sigma r)) /\
  (forall flux alpha beta r, 0 < alpha ->
     is_derive (moffat_shell_prim flux alpha beta) r (moffat_shell flux alpha beta r)).
Proof. exact C13R_Proofs.shell_antiderivatives. Qed.
Print Assumptions shell_antiderivatives.

(* encircled flux, closed form, on the TRANSCRIBED models along the ray of direction phi *)
Theorem circular_gaussian_psf_encircled_flux_polar : forall flux x_0 y_0 fwhm phi rad : R,
  0 < fwhm ->
  is_RInt (fun r => 2 * PI * r *
             circular_gaussian_psf (x_0 + r * cos phi) (y_0 + r * sin phi) flux x_0 y_0 fwhm)
          0 rad (flux * (1 - exp (- rad ^ 2 / (2 * cg_sigma fwhm ^ 2)))).
Proof. exact cg_psf_encircled_polar. Qed.
Print Assumptions circular_gaussian_psf_encircled_flux_polar.

Theorem moffat_psf_encircled_flux_polar : forall flux x_0 y_0 alpha beta phi rad : R,
  0 < alpha ->
  is_RInt (fun r => 2 * PI * r *
             moffat_psf (x_0 + r * cos phi) (y_0 + r * sin phi) flux x_0 y_0 alpha beta)
          0 rad (flux * (1 - Rpower (1 + rad ^ 2 / alpha ^ 2) (1 - beta))).
Proof. exact moffat_psf_encircled_polar. Qed.
Print Assumptions moffat_psf_encircled_flux_polar.

(* GaussianPSF in the unit-circle coordinates (u, v) = (r cos phi, r sin phi), Jacobian included *)
Theorem gaussian_psf_encircled_flux_polar : forall flux x_0 y_0 xf yf theta phi rad : R,
  0 < xf -> 0 < yf ->
  is_RInt (fun r => 2 * PI * r *
    (gaussian_psf (ell_x x_0 (cg_sigma xf) (cg_sigma yf) theta (r * cos phi) (r * sin phi))
                  (ell_y y_0 (cg_sigma xf) (cg_sigma yf) theta (r * cos phi) (r * sin phi))
                  flux x_0 y_0 xf yf theta
     * ell_jacobian (cg_sigma xf) (cg_sigma yf) theta))
    0 rad (flux * (1 - exp (- rad ^ 2 / (2 * 1 ^ 2)))).
Proof. exact gaussian_psf_encircled_polar. Qed.
Print Assumptions gaussian_psf_encircled_flux_polar.

(* the same for the profiles themselves *)
Theorem shell_integrals_closed_form :
  (forall flux sigma rad, 0 < sigma ->
     is_RInt (gauss_shell flux sigma) 0 rad (gauss_encircled flux sigma rad)) /\
  (forall flux alpha beta rad, 0 < alpha ->
     is_RInt (moffat_shell flux alpha beta) 0 rad (moffat_encircled flux alpha beta rad)).
Proof. exact C13R_Proofs.shell_integrals_closed_form. Qed.
Print Assumptions shell_integrals_closed_form.

(* the encircled flux tends to flux *)
Theorem encircled_flux_tends_to_flux :
  (forall flux sigma, 0 < sigma -> is_lim (gauss_encircled flux sigma) p_infty flux) /\
  (forall flux alpha beta, 0 < alpha -> 1 < beta ->
     is_lim (moffat_encircled flux alpha beta) p_infty flux).
Proof. exact encircled_limits. Qed.
Print Assumptions encircled_flux_tends_to_flux.

(* monotone convergence from below; non-negative integrand *)
Theorem gauss_encircled_flux_monotone_bounded : forall flux sigma : R,
  0 <= flux -> 0 < sigma ->
  (forall r1 r2, 0 <= r1 <= r2 -> gauss_encircled flux sigma r1 <= gauss_encircled flux sigma r2) /\
  (forall rad, 0 <= gauss_encircled flux sigma rad <= flux) /\
  (0 < flux -> forall rad, gauss_encircled flux sigma rad < flux) /\
  (forall r, 0 <= r -> 0 <= gauss_shell flux sigma r).
Proof. exact gauss_encircled_monotone_bounded. Qed.
Print Assumptions gauss_encircled_flux_monotone_bounded.

Theorem moffat_encircled_flux_monotone_bounded : forall flux alpha beta : R,
  0 <= flux -> 0 < alpha -> 1 <= beta ->
  (forall r1 r2, 0 <= r1 <= r2 ->
     moffat_encircled flux alpha beta r1 <= moffat_encircled flux alpha beta r2) /\
  (forall rad, 0 <= moffat_encircled flux alpha beta rad <= flux) /\
  (0 < flux -> forall rad, moffat_encircled flux alpha beta rad < flux) /\
  (forall r, 0 <= r -> 0 <= moffat_shell flux alpha beta r).
Proof. exact moffat_encircled_monotone_bounded. Qed.
Print Assumptions moffat_encircled_flux_monotone_bounded.

(* THE RADIAL NORMALISATION (see REMARK polar_reduction_gap in the header: these are
   statements about int_0^oo 2 pi r model dr, not about a 2-D integral) *)
Theorem circular_gaussian_psf_normalised_polar : forall flux x_0 y_0 fwhm phi : R,
  0 < fwhm ->
  is_RInt_gen (fun r => 2 * PI * r *
                 circular_gaussian_psf (x_0 + r * cos phi) (y_0 + r * sin phi) flux x_0 y_0 fwhm)
              (at_point 0) (Rbar_locally p_infty) flux.
Proof. exact cg_psf_normalised_polar. Qed.
Print Assumptions circular_gaussian_psf_normalised_polar.

Theorem gaussian_psf_normalised_polar : forall flux x_0 y_0 xf yf theta phi : R,
  0 < xf -> 0 < yf ->
  is_RInt_gen (fun r => 2 * PI * r *
    (gaussian_psf (ell_x x_0 (cg_sigma xf) (cg_sigma yf) theta (r * cos phi) (r * sin phi))
                  (ell_y y_0 (cg_sigma xf) (cg_sigma yf) theta (r * cos phi) (r * sin phi))
                  flux x_0 y_0 xf yf theta
     * ell_jacobian (cg_sigma xf) (cg_sigma yf) theta))
    (at_point 0) (Rbar_locally p_infty) flux.
Proof. exact C13R_Proofs.gaussian_psf_normalised_polar. Qed.
Print Assumptions gaussian_psf_normalised_polar.

(* alpha = core radius > 0, beta = power index > 1 (names of the code) *)
Theorem moffat_psf_normalised_polar : forall flux x_0 y_0 alpha beta phi : R,
  0 < alpha -> 1 < beta ->
  is_RInt_gen (fun r => 2 * PI * r *
                 moffat_psf (x_0 + r * cos phi) (y_0 + r * sin phi) flux x_0 y_0 alpha beta)
              (at_point 0) (Rbar_locally p_infty) flux.
Proof. exact C13R_Proofs.moffat_psf_normalised_polar. Qed.
Print Assumptions moffat_psf_normalised_polar.

(* ================================================================== *)
(* 3. FWHM, sign, monotonicity                                          *)
(* ================================================================== *)

(* every point at distance fwhm/2 from the centre has half the peak value *)
Theorem gaussian_fwhm_is_half_maximum : forall x y flux x_0 y_0 fwhm : R,
  0 < fwhm -> rsq x y x_0 y_0 = (fwhm / 2) ^ 2 ->
  circular_gaussian_psf x y flux x_0 y_0 fwhm
  = circular_gaussian_psf x_0 y_0 flux x_0 y_0 fwhm / 2.
Proof. exact cg_psf_fwhm_half_max. Qed.
Print Assumptions gaussian_fwhm_is_half_maximum.

(* GaussianPSF: x_fwhm along the rotated x axis, y_fwhm along the rotated y axis *)
Theorem gaussian_psf_fwhm_is_half_maximum : forall flux x_0 y_0 xf yf theta : R,
  0 < xf -> 0 < yf ->
  gaussian_psf (x_0 + xf / 2 * cos (deg2rad theta)) (y_0 + xf / 2 * sin (deg2rad theta))
               flux x_0 y_0 xf yf theta
  = gaussian_psf x_0 y_0 flux x_0 y_0 xf yf theta / 2 /\
  gaussian_psf (x_0 - yf / 2 * sin (deg2rad theta)) (y_0 + yf / 2 * cos (deg2rad theta))
               flux x_0 y_0 xf yf theta
  = gaussian_psf x_0 y_0 flux x_0 y_0 xf yf theta / 2.
Proof. exact gaussian_psf_fwhm_half_max. Qed.
Print Assumptions gaussian_psf_fwhm_is_half_maximum.

(* MoffatPSF.fwhm = 2 alpha sqrt(2^(1/beta) - 1) is positive and is the full width at half
   maximum (beta > 0 suffices) *)
Theorem moffat_fwhm_is_half_maximum : forall x y flux x_0 y_0 alpha beta : R,
  0 < alpha -> 0 < beta ->
  0 < moffat_fwhm alpha beta /\
  (rsq x y x_0 y_0 = (moffat_fwhm alpha beta / 2) ^ 2 ->
   moffat_psf x y flux x_0 y_0 alpha beta = moffat_psf x_0 y_0 flux x_0 y_0 alpha beta / 2).
Proof. exact moffat_fwhm_half_max_and_pos. Qed.
Print Assumptions moffat_fwhm_is_half_maximum.

(* by-products of the closed forms: exactly half of the flux lies within the FWHM circle of
   a circular Gaussian; the half-flux radius of a Moffat profile *)
Theorem gaussian_half_flux_within_fwhm : forall flux fwhm : R,
  0 < fwhm -> gauss_encircled flux (cg_sigma fwhm) (fwhm / 2) = flux / 2.
Proof. exact gauss_half_flux_within_fwhm. Qed.
Print Assumptions gaussian_half_flux_within_fwhm.

Theorem moffat_half_flux_radius : forall flux alpha beta : R,
  0 < alpha -> 1 < beta ->
  moffat_encircled flux alpha beta (alpha * sqrt (Rpower 2 (1 / (beta - 1)) - 1)) = flux / 2.
Proof. exact C13R_Proofs.moffat_half_flux_radius. Qed.
Print Assumptions moffat_half_flux_radius.

(* non-negative, peak at the centre, decreasing in r (strictly for flux > 0) *)
Theorem circular_gaussian_psf_radially_decreasing : forall x y x' y' flux x_0 y_0 fwhm : R,
  0 < fwhm ->
  (0 <= flux -> 0 <= circular_gaussian_psf x y flux x_0 y_0 fwhm) /\
  (0 <= flux ->
     circular_gaussian_psf x y flux x_0 y_0 fwhm <= circular_gaussian_psf x_0 y_0 flux x_0 y_0 fwhm) /\
  (0 <= flux -> rsq x y x_0 y_0 <= rsq x' y' x_0 y_0 ->
     circular_gaussian_psf x' y' flux x_0 y_0 fwhm <= circular_gaussian_psf x y flux x_0 y_0 fwhm) /\
  (0 < flux -> rsq x y x_0 y_0 < rsq x' y' x_0 y_0 ->
     circular_gaussian_psf x' y' flux x_0 y_0 fwhm < circular_gaussian_psf x y flux x_0 y_0 fwhm).
Proof. exact cg_psf_shape. Qed.
Print Assumptions circular_gaussian_psf_radially_decreasing.

Theorem moffat_psf_radially_decreasing : forall x y x' y' flux x_0 y_0 alpha beta : R,
  0 < alpha ->
  (0 <= flux -> 1 <= beta -> 0 <= moffat_psf x y flux x_0 y_0 alpha beta) /\
  (0 <= flux -> 1 <= beta ->
     moffat_psf x y flux x_0 y_0 alpha beta <= moffat_psf x_0 y_0 flux x_0 y_0 alpha beta) /\
  (0 <= flux -> 1 <= beta -> rsq x y x_0 y_0 <= rsq x' y' x_0 y_0 ->
     moffat_psf x' y' flux x_0 y_0 alpha beta <= moffat_psf x y flux x_0 y_0 alpha beta) /\
  (0 < flux -> 1 < beta -> rsq x y x_0 y_0 < rsq x' y' x_0 y_0 ->
     moffat_psf x' y' flux x_0 y_0 alpha beta < moffat_psf x y flux x_0 y_0 alpha beta).
Proof. exact moffat_psf_shape. Qed.
Print Assumptions moffat_psf_radially_decreasing.

(* GaussianPSF decreases with the elliptical radius u^2 + v^2 *)
Theorem gaussian_psf_elliptically_decreasing : forall x y x' y' flux x_0 y_0 xf yf theta : R,
  0 <= flux -> 0 < xf -> 0 < yf ->
  0 <= gaussian_psf x y flux x_0 y_0 xf yf theta /\
  gaussian_psf x y flux x_0 y_0 xf yf theta <= gaussian_psf x_0 y_0 flux x_0 y_0 xf yf theta /\
  (ell_rsq x_0 y_0 (cg_sigma xf) (cg_sigma yf) theta x y
   <= ell_rsq x_0 y_0 (cg_sigma xf) (cg_sigma yf) theta x' y' ->
   gaussian_psf x' y' flux x_0 y_0 xf yf theta <= gaussian_psf x y flux x_0 y_0 xf yf theta).
Proof. exact gaussian_psf_shape. Qed.
Print Assumptions gaussian_psf_elliptically_decreasing.

(* ================================================================== *)
(* 4. STRETCH: the Gaussian integral and the 2-D normalisation          *)
(* ================================================================== *)

Theorem gaussian_integral :
  is_RInt_gen (fun x => exp (- x ^ 2)) (Rbar_locally m_infty) (Rbar_locally p_infty) (sqrt PI).
Proof. exact gaussian_integral_exp. Qed.
Print Assumptions gaussian_integral.

Theorem gaussian_integral_affine : forall k m : R,
  0 < k ->
  is_RInt_gen (fun x => exp (- k * (x - m) ^ 2)) (Rbar_locally m_infty) (Rbar_locally p_infty)
              (sqrt (PI / k)).
Proof. exact C13R_Plane.gaussian_integral_affine. Qed.
Print Assumptions gaussian_integral_affine.

(* CircularGaussianPSF integrates to flux over the whole plane (is_plane_integral:
   C13R_Model.v; iterated improper Riemann integral, x first, then y) *)
Theorem circular_gaussian_psf_normalised_plane : forall flux x_0 y_0 fwhm : R,
  0 < fwhm ->
  is_plane_integral (fun x y => circular_gaussian_psf x y flux x_0 y_0 fwhm) flux.
Proof. exact cg_psf_plane_integral. Qed.
Print Assumptions circular_gaussian_psf_normalised_plane.

(* GaussianPSF integrates to flux over the whole plane, for EVERY rotation angle *)
Theorem gaussian_psf_normalised_plane : forall flux x_0 y_0 xf yf theta : R,
  0 < xf -> 0 < yf ->
  is_plane_integral (fun x y => gaussian_psf x y flux x_0 y_0 xf yf theta) flux.
Proof. exact gaussian_psf_plane_integral. Qed.
Print Assumptions gaussian_psf_normalised_plane.

(* the same with Coquelicot's integral operator for the inner integral *)
Theorem circular_gaussian_psf_normalised_plane_RInt_gen : forall flux x_0 y_0 fwhm : R,
  0 < fwhm ->
  is_RInt_gen (fun y => RInt_gen (fun x => circular_gaussian_psf x y flux x_0 y_0 fwhm)
                                 (Rbar_locally m_infty) (Rbar_locally p_infty))
              (Rbar_locally m_infty) (Rbar_locally p_infty) flux.
Proof. exact cg_psf_plane_RInt_gen. Qed.
Print Assumptions circular_gaussian_psf_normalised_plane_RInt_gen.

Theorem gaussian_psf_normalised_plane_RInt_gen : forall flux x_0 y_0 xf yf theta : R,
  0 < xf -> 0 < yf ->
  is_RInt_gen (fun y => RInt_gen (fun x => gaussian_psf x y flux x_0 y_0 xf yf theta)
                                 (Rbar_locally m_infty) (Rbar_locally p_infty))
              (Rbar_locally m_infty) (Rbar_locally p_infty) flux.
Proof. exact gaussian_psf_plane_RInt_gen. Qed.
Print Assumptions gaussian_psf_normalised_plane_RInt_gen.

(* MoffatPSF with the class default beta = 2 (any alpha > 0, any centre, any flux) integrates
   to flux over the whole plane; general beta: only moffat_psf_normalised_polar *)
Theorem moffat_psf_default_beta_normalised_plane : forall flux x_0 y_0 alpha : R,
  0 < alpha ->
  is_plane_integral (fun x y => moffat_psf x y flux x_0 y_0 alpha 2) flux.
Proof. exact moffat2_plane_integral. Qed.
Print Assumptions moffat_psf_default_beta_normalised_plane.

(* the error function has the four properties that C13_Proofs.v (over Q) assumes of
   scipy.special.erf: erf_monotone, erf_odd, erf_bounded, erf_limits (same shapes) *)
Theorem erf_has_the_assumed_properties :
  (forall a b, a <= b -> erf a <= erf b) /\
  (forall t, erf (- t) = - erf t) /\
  (forall t, - 1 <= erf t <= 1) /\
  (forall e, 0 < e ->
     exists T, forall t, (T <= t -> 1 - e <= erf t) /\ (t <= - T -> erf t <= - 1 + e)).
Proof. exact erf_assumed_facts. Qed.
Print Assumptions erf_has_the_assumed_properties.

Theorem erf_analytic_facts :
  erf 0 = 0 /\
  (forall z, is_derive erf z (2 / sqrt PI * exp (- z ^ 2))) /\
  (forall a b, a < b -> erf a < erf b) /\
  (forall z, - 1 < erf z < 1) /\
  is_lim erf p_infty 1 /\ is_lim erf m_infty (- 1).
Proof. exact erf_analytic. Qed.
Print Assumptions erf_analytic_facts.

(* CircularGaussianPRF(x, y), as coded with erf, IS the integral of CircularGaussianPSF over
   the pixel [x-1/2, x+1/2] x [y-1/2, y+1/2] *)
Theorem circular_gaussian_prf_is_pixel_integral_of_psf : forall x y flux x_0 y_0 fwhm : R,
  0 < fwhm ->
  is_rect_integral (fun u v => circular_gaussian_psf u v flux x_0 y_0 fwhm)
    (x - 0.5) (x + 0.5) (y - 0.5) (y + 0.5)
    (circular_gaussian_prf x y flux x_0 y_0 fwhm).
Proof. exact cg_prf_is_pixel_integral. Qed.
Print Assumptions circular_gaussian_prf_is_pixel_integral_of_psf.

(* GaussianPRF is the pixel integral of GaussianPSF when theta is a multiple of 90 degrees
   (sin * cos = 0).  For other angles it is NOT (the code integrates over a rotated pixel:
   known finding GaussianPRF.evaluate:theta-not-multiple-of-90, C13_Properties.
   prf_total_flux_elliptical_rotated_refuted) *)
Theorem gaussian_prf_is_pixel_integral_of_psf_axis_aligned :
  forall x y flux x_0 y_0 xf yf theta : R,
  0 < xf -> 0 < yf ->
  sin (deg2rad theta) * cos (deg2rad theta) = 0 ->
  is_rect_integral (fun u v => gaussian_psf u v flux x_0 y_0 xf yf theta)
    (x - 0.5) (x + 0.5) (y - 0.5) (y + 0.5)
    (gaussian_prf x y flux x_0 y_0 xf yf theta).
Proof. exact gaussian_prf_is_pixel_integral_axis_aligned. Qed.
Print Assumptions gaussian_prf_is_pixel_integral_of_psf_axis_aligned.

(* ================================================================== *)
(* Examples: the hypotheses are satisfiable; concrete instances         *)
(* ================================================================== *)

(* the default models: CircularGaussianPSF(), GaussianPSF(), MoffatPSF() *)
Example default_circular_gaussian_psf_normalised :
  is_plane_integral (fun x y => circular_gaussian_psf x y 1 0 0 1) 1.
Proof. apply circular_gaussian_psf_normalised_plane. lra. Qed.

(* a rotated, elongated, off-centre GaussianPSF *)
Example rotated_gaussian_psf_normalised :
  is_plane_integral (fun x y => gaussian_psf x y 1000 (7 / 2) (- 2) 3 (3 / 2) 30) 1000.
Proof. apply gaussian_psf_normalised_plane; lra. Qed.

Example default_moffat_psf_normalised_plane :
  is_plane_integral (fun x y => moffat_psf x y 1 0 0 1 2) 1.
Proof. apply moffat_psf_default_beta_normalised_plane. lra. Qed.

Example default_moffat_psf_normalised_polar :
  is_RInt_gen (fun r => 2 * PI * r * moffat_psf (0 + r * cos 0) (0 + r * sin 0) 1 0 0 1 2)
              (at_point 0) (Rbar_locally p_infty) 1.
Proof. apply moffat_psf_normalised_polar; lra. Qed.

(* MoffatPSF(alpha=1, beta=2): half of the flux within r = 1, where the profile is at a
   quarter of its peak *)
Example default_moffat_half_flux_at_radius_1 : moffat_encircled 1 1 2 1 = 1 / 2.
Proof.
  unfold moffat_encircled.
  replace (1 + 1 ^ 2 / 1 ^ 2) with 2 by field. replace (1 - 2) with (- (1)) by ring.
  rewrite Rpower_Ropp, Rpower_1 by lra. field.
Qed.

(* the angles 0 and 90 degrees satisfy the axis-aligned hypothesis *)
Example axis_aligned_0 : sin (deg2rad 0) * cos (deg2rad 0) = 0.
Proof. unfold deg2rad. rewrite Rmult_0_l, sin_0. ring. Qed.

Example axis_aligned_90 : sin (deg2rad 90) * cos (deg2rad 90) = 0.
Proof.
  unfold deg2rad. replace (90 * (PI / 180)) with (PI / 2) by field.
  rewrite cos_PI2. ring.
Qed.

(* the FWHM hypotheses: a point at distance fwhm/2 exists, e.g. (x_0 + fwhm/2, y_0) *)
Example fwhm_point_exists : forall x_0 y_0 fwhm : R,
  rsq (x_0 + fwhm / 2) y_0 x_0 y_0 = (fwhm / 2) ^ 2.
Proof. intros. unfold rsq. ring. Qed.
