(* C02 — proofs about the model of aperture photometry (C02_Model.v). *)
From Coq Require Import List ZArith Bool Lia ZifyBool Permutation.
From PV Require Import lib.Cases C02_Model.
Import ListNotations.
Open Scope Z_scope.

(* ====================================================================== *)
(* 1. generic list facts                                                   *)
(* ====================================================================== *)
Lemma firstn_nth_seq {A} (d : A) : forall n (l : list A), (n <= length l)%nat ->
  firstn n l = map (fun i => nth i l d) (seq 0 n).
Proof.
  induction n as [|n IH]; intros l Hl; [reflexivity|].
  destruct l as [|x l]; [cbn in Hl; lia|].
  cbn [firstn seq map nth]. f_equal.
  rewrite <- seq_shift, map_map. cbn [nth]. apply IH. cbn in Hl. lia.
Qed.

Lemma firstn_skipn_nth {A} (d : A) : forall a (l : list A) n, (a + n <= length l)%nat ->
  firstn n (skipn a l) = map (fun i => nth (a + i) l d) (seq 0 n).
Proof.
  induction a as [|a IH]; intros l n Hl.
  - cbn [skipn]. apply firstn_nth_seq. lia.
  - destruct l as [|x l]; [cbn in Hl; lia|].
    cbn [skipn]. rewrite IH by (cbn in Hl; lia). apply map_ext. intros i. reflexivity.
Qed.

Lemma flat_map_app' {A B} (f : A -> list B) l m :
  flat_map f (l ++ m) = flat_map f l ++ flat_map f m.
Proof. induction l as [|a l IH]; cbn; [reflexivity|]. rewrite IH, app_assoc. reflexivity. Qed.

Lemma flat_map_nil {A B} (f : A -> list B) l :
  (forall x, In x l -> f x = []) -> flat_map f l = [].
Proof.
  induction l as [|a l IH]; intros H; cbn; [reflexivity|].
  rewrite (H a) by (left; reflexivity). cbn. apply IH. intros x Hx. apply H. right. exact Hx.
Qed.

Lemma flat_map_ext_in {A B} (f g : A -> list B) l :
  (forall x, In x l -> f x = g x) -> flat_map f l = flat_map g l.
Proof.
  induction l as [|a l IH]; intros H; cbn; [reflexivity|].
  rewrite (H a) by (left; reflexivity). f_equal. apply IH. intros x Hx. apply H. right. exact Hx.
Qed.

Lemma flat_map_map {A B C} (g : A -> B) (f : B -> list C) l :
  flat_map f (map g l) = flat_map (fun x => f (g x)) l.
Proof. induction l as [|a l IH]; cbn; [reflexivity|]. rewrite IH. reflexivity. Qed.

Lemma map_flat_map {A B C} (g : B -> C) (f : A -> list B) l :
  map g (flat_map f l) = flat_map (fun x => map g (f x)) l.
Proof. induction l as [|a l IH]; cbn; [reflexivity|]. rewrite map_app, IH. reflexivity. Qed.

Lemma filter_flat_map {A B} (P : B -> bool) (f : A -> list B) l :
  filter P (flat_map f l) = flat_map (fun x => filter P (f x)) l.
Proof. induction l as [|a l IH]; cbn; [reflexivity|]. rewrite filter_app, IH. reflexivity. Qed.

Lemma filter_map_if {A B} (P : B -> bool) (g : A -> B) l :
  filter P (map g l) = flat_map (fun x => if P (g x) then [g x] else []) l.
Proof.
  induction l as [|a l IH]; cbn; [reflexivity|]. rewrite IH. destruct (P (g a)); reflexivity.
Qed.

Lemma seq_add_map w : forall s x0, seq (x0 + s) w = map (fun j => (x0 + j)%nat) (seq s w).
Proof.
  induction w as [|w IH]; intros s x0; [reflexivity|].
  cbn [seq map]. f_equal. rewrite <- Nat.add_succ_r. apply IH.
Qed.

(* a flat_map over [0, n) whose terms vanish outside the window [x0, x0 + w) *)
Lemma flat_map_seq_window {A} (g : nat -> list A) (n x0 w : nat) :
  (forall x, (x < n)%nat -> ~ (x0 <= x < x0 + w)%nat -> g x = []) -> (x0 + w <= n)%nat ->
  flat_map g (seq 0 n) = flat_map (fun j => g (x0 + j)%nat) (seq 0 w).
Proof.
  intros Hout Hle.
  replace n with (x0 + (w + (n - x0 - w)))%nat by lia.
  rewrite seq_app, flat_map_app', seq_app, flat_map_app'. cbn [Nat.add].
  rewrite (flat_map_nil g (seq 0 x0)).
  2:{ intros x Hx. apply in_seq in Hx. apply Hout; lia. }
  rewrite (flat_map_nil g (seq (x0 + w) (n - x0 - w))).
  2:{ intros x Hx. apply in_seq in Hx. apply Hout; lia. }
  cbn [app]. rewrite app_nil_r.
  rewrite <- (Nat.add_0_r x0) at 1. rewrite seq_add_map, flat_map_map. reflexivity.
Qed.

(* ====================================================================== *)
(* 2. images: rectangularity, get, tabulation, cropping                    *)
(* ====================================================================== *)
Definition rect {A} (ny nx : nat) (a : img A) : Prop :=
  length a = ny /\ Forall (fun r => length r = nx) a.
Definition get {A} (d : A) (a : img A) (y x : nat) : A := nth x (nth y a []) d.

Definition tab {A} (h w : nat) (f : nat -> nat -> A) : img A :=
  map (fun i => map (fun j => f i j) (seq 0 w)) (seq 0 h).

Lemma rect_row {A} ny nx (a : img A) y : rect ny nx a -> (y < ny)%nat -> length (nth y a []) = nx.
Proof.
  intros [Hl Hr] Hy. rewrite Forall_forall in Hr. apply Hr. apply nth_In. lia.
Qed.

Lemma rect_shape {A} ny nx (a : img A) : rect ny nx a -> (0 < ny)%nat ->
  shape a = (Z.of_nat ny, Z.of_nat nx).
Proof.
  intros [Hl Hr] Hy. unfold shape. rewrite Hl. f_equal. f_equal.
  destruct a as [|r a]; [cbn in Hl; lia|]. cbn. inversion Hr; subst. reflexivity.
Qed.

Lemma crop_tab {A} (d : A) ny nx (a : img A) (Y0 Y1 X0 X1 : Z) :
  rect ny nx a -> 0 <= Y0 <= Y1 -> Y1 <= Z.of_nat ny -> 0 <= X0 <= X1 -> X1 <= Z.of_nat nx ->
  crop ((Y0, Y1), (X0, X1)) a =
  tab (Z.to_nat (Y1 - Y0)) (Z.to_nat (X1 - X0))
      (fun i j => get d a (Z.to_nat Y0 + i) (Z.to_nat X0 + j)).
Proof.
  intros Hr HY HY1 HX HX1. unfold crop, slice, tab. cbn [fst snd].
  rewrite (firstn_skipn_nth []) by (destruct Hr as [Hl _]; lia).
  rewrite map_map. apply map_ext_in. intros i Hi. apply in_seq in Hi.
  rewrite (firstn_skipn_nth d).
  - reflexivity.
  - rewrite (rect_row ny nx) by (auto; lia). lia.
Qed.

Lemma map_map_tab {A B} (g : A -> B) h w (f : nat -> nat -> A) :
  map (map g) (tab h w f) = tab h w (fun i j => g (f i j)).
Proof.
  unfold tab. rewrite map_map. apply map_ext. intros i. rewrite map_map. reflexivity.
Qed.

Lemma map2_map_map {A B C D} (op : A -> B -> C) (f : D -> A) (g : D -> B) l :
  map2 op (map f l) (map g l) = map (fun i => op (f i) (g i)) l.
Proof.
  unfold map2. induction l as [|a l IH]; cbn; [reflexivity|]. f_equal. exact IH.
Qed.

Lemma map2d_tab {A B C} (op : A -> B -> C) h w f g :
  map2d op (tab h w f) (tab h w g) = tab h w (fun i j => op (f i j) (g i j)).
Proof.
  unfold map2d, tab. rewrite map2_map_map. apply map_ext. intros i. apply map2_map_map.
Qed.

(* selected elements of a tabulated array *)
Definition sel {A} (h w : nat) (p : nat -> nat -> bool) (f : nat -> nat -> A) : list A :=
  flat_map (fun i => flat_map (fun j => if p i j then [f i j] else []) (seq 0 w)) (seq 0 h).

Lemma select_row_map {A} (f : nat -> A) (p : nat -> bool) l :
  select_row (map f l) (map p l) = flat_map (fun j => if p j then [f j] else []) l.
Proof.
  unfold select_row. induction l as [|a l IH]; cbn; [reflexivity|].
  destruct (p a); cbn; rewrite IH; reflexivity.
Qed.

Lemma select_tab {A} h w (f : nat -> nat -> A) p :
  select (tab h w f) (tab h w p) = sel h w p f.
Proof.
  unfold select, tab, sel. rewrite map2_map_map, flat_map_concat_map. f_equal.
  apply map_ext. intros i. apply select_row_map.
Qed.

Lemma map_sel {A B} (g : A -> B) h w p f : map g (sel h w p f) = sel h w p (fun i j => g (f i j)).
Proof.
  unfold sel. rewrite map_flat_map. apply flat_map_ext_in. intros i _.
  rewrite map_flat_map. apply flat_map_ext_in. intros j _. destruct (p i j); reflexivity.
Qed.

Lemma sel_ext {A} h w p p' (f f' : nat -> nat -> A) :
  (forall i j, (i < h)%nat -> (j < w)%nat -> p i j = p' i j) ->
  (forall i j, (i < h)%nat -> (j < w)%nat -> f i j = f' i j) ->
  sel h w p f = sel h w p' f'.
Proof.
  intros Hp Hf. unfold sel. apply flat_map_ext_in. intros i Hi. apply in_seq in Hi.
  apply flat_map_ext_in. intros j Hj. apply in_seq in Hj.
  rewrite Hp, Hf by lia. reflexivity.
Qed.

(* ====================================================================== *)
(* 3. the pixel set                                                        *)
(* ====================================================================== *)
Definition pix := (nat * nat)%type.          (* (y, x) *)
Definition all_pixels (ny nx : nat) : list pix :=
  flat_map (fun y => map (fun x => (y, x)) (seq 0 nx)) (seq 0 ny).

Lemma in_all_pixels ny nx p : In p (all_pixels ny nx) <-> (fst p < ny)%nat /\ (snd p < nx)%nat.
Proof.
  unfold all_pixels. rewrite in_flat_map. split.
  - intros (y & Hy & Hp). apply in_map_iff in Hp. destruct Hp as (x & <- & Hx).
    apply in_seq in Hy. apply in_seq in Hx. cbn. lia.
  - intros [Hy Hx]. exists (fst p). split; [apply in_seq; lia|].
    apply in_map_iff. exists (snd p). split; [destruct p; reflexivity|apply in_seq; lia].
Qed.

Lemma NoDup_app_intro {A} (l m : list A) :
  NoDup l -> NoDup m -> (forall x, In x l -> In x m -> False) -> NoDup (l ++ m).
Proof.
  induction l as [|a l IH]; intros Hl Hm Hd; [exact Hm|].
  inversion Hl as [|? ? Hn Hl']; subst. cbn. constructor.
  - rewrite in_app_iff. intros [H|H]; [auto|]. apply (Hd a); [left; reflexivity|exact H].
  - apply IH; auto. intros x Hx. apply Hd. right. exact Hx.
Qed.

Lemma NoDup_all_pixels ny nx : NoDup (all_pixels ny nx).
Proof.
  unfold all_pixels.
  enough (H : forall s, NoDup (flat_map (fun y => map (fun x => (y, x)) (seq 0 nx)) (seq s ny))) by apply H.
  induction ny as [|ny IH]; intros s; cbn [seq flat_map]; [constructor|].
  apply NoDup_app_intro.
  - apply FinFun.Injective_map_NoDup; [|apply seq_NoDup]. intros a b H. congruence.
  - apply IH.
  - intros p H1 H2. apply in_map_iff in H1. destruct H1 as (x & <- & _).
    apply in_flat_map in H2. destruct H2 as (y & Hy & Hp). apply in_seq in Hy.
    apply in_map_iff in Hp. destruct Hp as (x' & E & _). inversion E. lia.
Qed.

(* filtering the whole frame with a predicate supported in a window *)
Lemma filter_all_pixels_window (P : pix -> bool) ny nx y0 h x0 w :
  (forall y x, (y < ny)%nat -> (x < nx)%nat -> P (y, x) = true ->
               (y0 <= y < y0 + h)%nat /\ (x0 <= x < x0 + w)%nat) ->
  (y0 + h <= ny)%nat -> (x0 + w <= nx)%nat ->
  filter P (all_pixels ny nx) =
  sel h w (fun i j => P ((y0 + i)%nat, (x0 + j)%nat)) (fun i j => ((y0 + i)%nat, (x0 + j)%nat)).
Proof.
  intros Hwin Hy Hx. unfold all_pixels, sel. rewrite filter_flat_map.
  rewrite (flat_map_seq_window _ ny y0 h); [|
    intros y Hyn Hout; rewrite filter_map_if; apply flat_map_nil; intros x Hxin; apply in_seq in Hxin;
    destruct (P (y, x)) eqn:E; [|reflexivity];
    destruct (Hwin y x Hyn ltac:(lia) E); lia | exact Hy].
  apply flat_map_ext_in. intros i Hi. apply in_seq in Hi.
  rewrite filter_map_if.
  apply (flat_map_seq_window (fun x => if P ((y0 + i)%nat, x) then [((y0 + i)%nat, x)] else []) nx x0 w); [|exact Hx].
  intros x Hxn Hout. destruct (P ((y0 + i)%nat, x)) eqn:E; [|reflexivity].
  destruct (Hwin (y0 + i)%nat x ltac:(lia) Hxn E). lia.
Qed.

(* ====================================================================== *)
(* 4. the specification objects and the representation lemma               *)
(* ====================================================================== *)
Definition in_box (b : bbox) (p : pix) : bool :=
  (iymin b <=? Z.of_nat (fst p)) && (Z.of_nat (fst p) <? iymax b) &&
  (ixmin b <=? Z.of_nat (snd p)) && (Z.of_nat (snd p) <? ixmax b).
(* weight of image pixel p: W[y - iymin][x - ixmin] *)
Definition weight_at (b : bbox) (W : img Z) (p : pix) : Z :=
  get 0 W (Z.to_nat (Z.of_nat (fst p) - iymin b)) (Z.to_nat (Z.of_nat (snd p) - ixmin b)).
Definition masked (mask : option (img bool)) (p : pix) : bool :=
  match mask with None => false | Some m => get false m (fst p) (snd p) end.
Definition in_set (b : bbox) (W : img Z) (mask : option (img bool)) (p : pix) : bool :=
  in_box b p && (0 <? weight_at b W p) && negb (masked mask p).
(* the pixels of the ny x nx image that lie in the box, have positive weight and are not masked,
   in raster order *)
Definition pixel_set (b : bbox) (W : img Z) (mask : option (img bool)) (ny nx : nat) : list pix :=
  filter (in_set b W mask) (all_pixels ny nx).
Definition data_at (data : img val) (p : pix) : val := get None data (fst p) (snd p).

Definition wf_mask (b : bbox) (W : img Z) : Prop :=
  iymin b <= iymax b /\ ixmin b <= ixmax b /\ rect (Z.to_nat (bh b)) (Z.to_nat (bw b)) W.
Definition mask_rect (ny nx : nat) (mask : option (img bool)) : Prop :=
  match mask with None => True | Some m => rect ny nx m end.
Definition err_rect (ny nx : nat) (err : option (img val)) : Prop :=
  match err with None => True | Some e => rect ny nx e end.

Lemma overlap_slices_inv b ny nx L S : overlap_slices b ny nx = Some (L, S) ->
  ixmin b < nx /\ iymin b < ny /\ 0 < ixmax b /\ 0 < iymax b /\
  L = ((Z.max (iymin b) 0, Z.min (iymax b) ny), (Z.max (ixmin b) 0, Z.min (ixmax b) nx)) /\
  S = ((Z.max (iymin b) 0 - iymin b, Z.min (iymax b) ny - iymin b),
       (Z.max (ixmin b) 0 - ixmin b, Z.min (ixmax b) nx - ixmin b)).
Proof.
  unfold overlap_slices.
  destruct ((ixmin b >=? nx) || (iymin b >=? ny) || (ixmax b <=? 0) || (iymax b <=? 0) || (ny <=? 0) || (nx <=? 0)) eqn:E; [discriminate|].
  intros H. injection H as <- <-.
  repeat (apply orb_false_iff in E; destruct E as [E ?]).
  repeat split; try lia.
  f_equal; f_equal; lia.
Qed.

Lemma overlap_slices_none b ny nx : overlap_slices b ny nx = None <->
  (ixmin b >= nx \/ iymin b >= ny \/ ixmax b <= 0 \/ iymax b <= 0 \/ ny <= 0 \/ nx <= 0).
Proof.
  unfold overlap_slices.
  destruct ((ixmin b >=? nx) || (iymin b >=? ny) || (ixmax b <=? 0) || (iymax b <=? 0) || (ny <=? 0) || (nx <=? 0)) eqn:E.
  - split; [intros _|reflexivity].
    repeat (apply orb_true_iff in E; destruct E as [E|E]); lia.
  - split; [discriminate|]. intros H.
    repeat (apply orb_false_iff in E; destruct E as [E ?]). lia.
Qed.

(* all slices handed to numpy are non-negative (so [slice] models basic slicing) *)
Lemma overlap_slices_nonneg b ny nx L S : 0 <= ny -> 0 <= nx -> iymin b <= iymax b -> ixmin b <= ixmax b ->
  overlap_slices b ny nx = Some (L, S) ->
  0 <= fst (fst L) /\ 0 <= snd (fst L) /\ 0 <= fst (snd L) /\ 0 <= snd (snd L) /\
  0 <= fst (fst S) /\ 0 <= snd (fst S) /\ 0 <= fst (snd S) /\ 0 <= snd (snd S).
Proof.
  intros Hy Hx Hby Hbx H. apply overlap_slices_inv in H. destruct H as (H1 & H2 & H3 & H4 & -> & ->).
  cbn [fst snd]. lia.
Qed.

Lemma tab_ext {A} h w (f g : nat -> nat -> A) :
  (forall i j, (i < h)%nat -> (j < w)%nat -> f i j = g i j) -> tab h w f = tab h w g.
Proof.
  intros H. unfold tab. apply map_ext_in. intros i Hi. apply in_seq in Hi.
  apply map_ext_in. intros j Hj. apply in_seq in Hj. apply H; lia.
Qed.

Section Repr.
Variables (b : bbox) (W : img Z) (ny nx : nat) (mask : option (img bool)).
Hypothesis Hwf : wf_mask b W.
Hypothesis Hm : mask_rect ny nx mask.

Let Y0 := Z.max (iymin b) 0.
Let Y1 := Z.min (iymax b) (Z.of_nat ny).
Let X0 := Z.max (ixmin b) 0.
Let X1 := Z.min (ixmax b) (Z.of_nat nx).
Let y0 := Z.to_nat Y0.
Let x0 := Z.to_nat X0.
Let h := Z.to_nat (Y1 - Y0).
Let w := Z.to_nat (X1 - X0).
Let wfun (i j : nat) : Z := get 0 W (Z.to_nat (Y0 - iymin b) + i) (Z.to_nat (X0 - ixmin b) + j).
Let pfun (i j : nat) : bool := (0 <? wfun i j) && negb (masked mask ((y0 + i)%nat, (x0 + j)%nat)).

Lemma cutouts_tab L S : overlap_slices b (Z.of_nat ny) (Z.of_nat nx) = Some (L, S) ->
  get_overlap_cutouts b W (Z.of_nat ny) (Z.of_nat nx) mask = Some (L, tab h w wfun, tab h w pfun) /\
  (forall A (d : A) (V : img A), rect ny nx V ->
     crop L V = tab h w (fun i j => get d V (y0 + i) (x0 + j))).
Proof.
  intros Ho. unfold get_overlap_cutouts. rewrite Ho.
  apply overlap_slices_inv in Ho. destruct Ho as (H1 & H2 & H3 & H4 & -> & ->).
  destruct Hwf as (Hby & Hbx & HW).
  fold Y0 Y1 X0 X1.
  assert (HcW : crop (Y0 - iymin b, Y1 - iymin b, (X0 - ixmin b, X1 - ixmin b)) W = tab h w wfun).
  { rewrite (crop_tab 0 (Z.to_nat (bh b)) (Z.to_nat (bw b))); unfold bh, bw; try exact HW; try lia.
    unfold h, w, wfun. replace (Y1 - iymin b - (Y0 - iymin b)) with (Y1 - Y0) by lia.
    replace (X1 - ixmin b - (X0 - ixmin b)) with (X1 - X0) by lia. reflexivity. }
  assert (HcV : forall A (d : A) (V : img A), rect ny nx V ->
            crop (Y0, Y1, (X0, X1)) V = tab h w (fun i j => get d V (y0 + i) (x0 + j))).
  { intros A d V HV. rewrite (crop_tab d ny nx); try exact HV; try lia. reflexivity. }
  split; [|exact HcV].
  rewrite HcW. f_equal. f_equal. rewrite map_map_tab.
  destruct mask as [m|].
  - rewrite (HcV _ false m Hm), map_map_tab, map2d_tab. reflexivity.
  - apply tab_ext. intros i j _ _. unfold pfun. cbn. rewrite andb_true_r. reflexivity.
Qed.

Lemma in_box_window y x : (y < ny)%nat -> (x < nx)%nat -> in_box b (y, x) = true ->
  (y0 <= y < y0 + h)%nat /\ (x0 <= x < x0 + w)%nat.
Proof.
  intros Hy Hx Hb. unfold in_box in Hb. cbn [fst snd] in Hb.
  repeat (apply andb_true_iff in Hb; destruct Hb as [Hb ?]).
  unfold y0, x0, h, w, Y0, Y1, X0, X1. lia.
Qed.

Lemma sel_pixel_set {B} (val_of : pix -> B) L S :
  overlap_slices b (Z.of_nat ny) (Z.of_nat nx) = Some (L, S) ->
  sel h w pfun (fun i j => val_of ((y0 + i)%nat, (x0 + j)%nat)) = map val_of (pixel_set b W mask ny nx).
Proof.
  intros Ho. apply overlap_slices_inv in Ho. destruct Ho as (H1 & H2 & H3 & H4 & _ & _).
  destruct Hwf as (Hby & Hbx & HW).
  unfold pixel_set.
  rewrite (filter_all_pixels_window _ ny nx y0 h x0 w).
  - rewrite map_sel. apply sel_ext; [|reflexivity].
    intros i j Hi Hj. unfold pfun, in_set.
    assert (Hb : in_box b ((y0 + i)%nat, (x0 + j)%nat) = true).
    { unfold in_box. cbn [fst snd]. unfold y0, x0, h, w, Y0, Y1, X0, X1 in *.
      repeat (apply andb_true_iff; split); lia. }
    rewrite Hb. cbn [andb]. f_equal. f_equal. unfold wfun, weight_at, get. cbn [fst snd].
    f_equal; [|f_equal]; unfold y0, x0, h, w, Y0, Y1, X0, X1 in *; lia.
  - intros y x Hy Hx HP. unfold in_set in HP.
    apply andb_true_iff in HP. destruct HP as [HP _]. apply andb_true_iff in HP. destruct HP as [HP _].
    apply in_box_window; assumption.
  - unfold y0, h, Y0, Y1. lia.
  - unfold x0, w, X0, X1. lia.
Qed.

(* the weighted, selected values computed by the code = the values of the pixel set *)
Lemma select_cut_repr {A B} (d : A) (g : A -> Z -> B) (V : img A) L aw pm :
  rect ny nx V ->
  get_overlap_cutouts b W (Z.of_nat ny) (Z.of_nat nx) mask = Some (L, aw, pm) ->
  select (map2d g (crop L V) aw) pm =
  map (fun p => g (get d V (fst p) (snd p)) (weight_at b W p)) (pixel_set b W mask ny nx).
Proof.
  intros HV Hc.
  destruct (overlap_slices b (Z.of_nat ny) (Z.of_nat nx)) as [[L' S]|] eqn:Ho.
  2:{ unfold get_overlap_cutouts in Hc. rewrite Ho in Hc. discriminate. }
  destruct (cutouts_tab L' S Ho) as [Hc' HcV]. rewrite Hc' in Hc. injection Hc as <- <- <-.
  rewrite (HcV _ d V HV), map2d_tab, select_tab.
  etransitivity; [|exact (sel_pixel_set (fun p => g (get d V (fst p) (snd p)) (weight_at b W p)) L' S Ho)].
  apply sel_ext; [reflexivity|].
  intros i j Hi Hj. cbn [fst snd]. f_equal.
  apply overlap_slices_inv in Ho. destruct Ho as (H1 & H2 & H3 & H4 & _ & _).
  unfold wfun, weight_at, get. cbn [fst snd].
  f_equal; [|f_equal]; unfold y0, x0, h, w, Y0, Y1, X0, X1 in *; lia.
Qed.

Lemma select_weights_repr L aw pm :
  get_overlap_cutouts b W (Z.of_nat ny) (Z.of_nat nx) mask = Some (L, aw, pm) ->
  select aw pm = map (weight_at b W) (pixel_set b W mask ny nx).
Proof.
  intros Hc.
  destruct (overlap_slices b (Z.of_nat ny) (Z.of_nat nx)) as [[L' S]|] eqn:Ho.
  2:{ unfold get_overlap_cutouts in Hc. rewrite Ho in Hc. discriminate. }
  destruct (cutouts_tab L' S Ho) as [Hc' _]. rewrite Hc' in Hc. injection Hc as <- <- <-.
  rewrite select_tab.
  etransitivity; [|exact (sel_pixel_set (weight_at b W) L' S Ho)].
  apply sel_ext; [reflexivity|].
  intros i j Hi Hj.
  apply overlap_slices_inv in Ho. destruct Ho as (H1 & H2 & H3 & H4 & _ & _).
  unfold wfun, weight_at, get. cbn [fst snd].
  f_equal; [|f_equal]; unfold y0, x0, h, w, Y0, Y1, X0, X1 in *; lia.
Qed.

Lemma cutouts_none_iff :
  get_overlap_cutouts b W (Z.of_nat ny) (Z.of_nat nx) mask = None <->
  overlap_slices b (Z.of_nat ny) (Z.of_nat nx) = None.
Proof.
  unfold get_overlap_cutouts.
  destruct (overlap_slices b (Z.of_nat ny) (Z.of_nat nx)) as [[L S]|]; split; try discriminate; reflexivity.
Qed.
End Repr.

(* ====================================================================== *)
(* 5. sums of values                                                       *)
(* ====================================================================== *)
Lemma oadd_comm a b : oadd a b = oadd b a.
Proof. destruct a, b; cbn; try reflexivity. f_equal. lia. Qed.
Lemma oadd_assoc a b c : oadd a (oadd b c) = oadd (oadd a b) c.
Proof. destruct a, b, c; cbn; try reflexivity. f_equal. lia. Qed.
Lemma oadd_0_l a : oadd (Some 0) a = a.
Proof. destruct a; reflexivity. Qed.

Lemma osum_cons a l : osum (a :: l) = oadd a (osum l).
Proof. reflexivity. Qed.
Lemma osum_nil : osum [] = Some 0.
Proof. reflexivity. Qed.
Lemma zsum_cons a l : zsum (a :: l) = a + zsum l.
Proof. reflexivity. Qed.

Lemma osum_app l m : osum (l ++ m) = oadd (osum l) (osum m).
Proof.
  induction l as [|a l IH].
  - rewrite osum_nil, oadd_0_l. reflexivity.
  - rewrite <- app_comm_cons, !osum_cons, IH, oadd_assoc. reflexivity.
Qed.

Lemma osum_perm l m : Permutation l m -> osum l = osum m.
Proof.
  induction 1 as [|x l m _ IH|x y l|l m n _ IH1 _ IH2].
  - reflexivity.
  - rewrite !osum_cons, IH. reflexivity.
  - rewrite !osum_cons, !oadd_assoc, (oadd_comm y x). reflexivity.
  - congruence.
Qed.

Lemma osum_none_iff l : osum l = None <-> In None l.
Proof.
  induction l as [|a l IH]; [cbn; split; [discriminate|intros []]|].
  rewrite osum_cons. cbn [In]. destruct a as [z|]; cbn [oadd].
  - destruct (osum l) eqn:E; split.
    + discriminate.
    + intros [H|H]; [discriminate|]. apply IH in H. discriminate.
    + intros _. right. apply IH. reflexivity.
    + reflexivity.
  - split; [intros _; left; reflexivity|reflexivity].
Qed.

Lemma osum_some {A} (t : A -> val) (f : A -> Z) l :
  (forall p, In p l -> t p = Some (f p)) -> osum (map t l) = Some (zsum (map f l)).
Proof.
  induction l as [|a l IH]; intros H; [reflexivity|].
  cbn [map]. rewrite osum_cons, zsum_cons.
  rewrite (H a) by (left; reflexivity). rewrite IH by (intros p Hp; apply H; right; exact Hp).
  reflexivity.
Qed.

Lemma vmulw_none d w : vmulw d w = None <-> d = None.
Proof. destruct d; cbn; split; congruence. Qed.
Lemma vsq_none d : vsq d = None <-> d = None.
Proof. destruct d; cbn; split; congruence. Qed.

(* ====================================================================== *)
(* 6. photometry_one = sums over the pixel set                             *)
(* ====================================================================== *)
(* the term of pixel p in the aperture sum and in the variance sum *)
Definition term (b : bbox) (W : img Z) (data : img val) (p : pix) : val :=
  vmulw (data_at data p) (weight_at b W p).
Definition vterm (b : bbox) (W : img Z) (e : img val) (p : pix) : val :=
  vmulw (vsq (data_at e p)) (weight_at b W p).

Lemma map2_map_l {A A' B C} (g : A' -> B -> C) (f : A -> A') (a : list A) (m : list B) :
  map2 g (map f a) m = map2 (fun x y => g (f x) y) a m.
Proof.
  unfold map2. revert m. induction a as [|x a IH]; intros [|y m]; cbn; try reflexivity.
  f_equal. apply IH.
Qed.

Lemma map2d_map_l {A A' B C} (g : A' -> B -> C) (f : A -> A') (a : img A) (m : img B) :
  map2d g (map (map f) a) m = map2d (fun x y => g (f x) y) a m.
Proof.
  unfold map2d. rewrite map2_map_l. unfold map2 at 1 3. apply map_ext. intros p.
  apply map2_map_l.
Qed.

Lemma shape_eqb_refl s : shape_eqb s s = true.
Proof. unfold shape_eqb. rewrite !Z.eqb_refl. reflexivity. Qed.

Section Spec.
Variables (b : bbox) (W : img Z) (ny nx : nat).
Hypothesis Hny : (0 < ny)%nat.
Hypothesis Hwf : wf_mask b W.

Theorem photometry_one_spec data err mask :
  rect ny nx data -> err_rect ny nx err -> mask_rect ny nx mask ->
  photometry_one b W data err mask =
  match overlap_slices b (Z.of_nat ny) (Z.of_nat nx) with
  | None => NoOverlap
  | Some _ => Phot (osum (map (term b W data) (pixel_set b W mask ny nx)))
                   (match err with
                    | None => None
                    | Some e => Some (osum (map (vterm b W e) (pixel_set b W mask ny nx)))
                    end)
  end.
Proof.
  intros Hd He Hm. unfold photometry_one.
  rewrite (rect_shape ny nx data Hd Hny).
  assert (E1 : match err with None => true | Some e => shape_eqb (shape e) (Z.of_nat ny, Z.of_nat nx) end = true).
  { destruct err as [e|]; [|reflexivity]. rewrite (rect_shape ny nx e He Hny). apply shape_eqb_refl. }
  rewrite E1. cbn [negb].
  assert (E2 : mask_shape_ok data mask = true).
  { unfold mask_shape_ok. destruct mask as [m|]; [|reflexivity].
    rewrite (rect_shape ny nx m Hm Hny), (rect_shape ny nx data Hd Hny). apply shape_eqb_refl. }
  rewrite E2. cbn [negb].
  destruct (get_overlap_cutouts b W (Z.of_nat ny) (Z.of_nat nx) mask) as [[[L aw] pm]|] eqn:Hc.
  - destruct (overlap_slices b (Z.of_nat ny) (Z.of_nat nx)) eqn:Ho.
    2:{ apply (cutouts_none_iff b W ny nx mask) in Ho. congruence. }
    f_equal.
    + f_equal. exact (select_cut_repr b W ny nx mask Hwf Hm None vmulw data L aw pm Hd Hc).
    + destruct err as [e|]; [|reflexivity]. f_equal. f_equal. rewrite map2d_map_l.
      exact (select_cut_repr b W ny nx mask Hwf Hm None (fun x y => vmulw (vsq x) y) e L aw pm He Hc).
  - apply (cutouts_none_iff b W ny nx mask) in Hc. rewrite Hc. reflexivity.
Qed.

Theorem get_values_spec data mask :
  rect ny nx data -> mask_rect ny nx mask ->
  get_values b W data mask = match overlap_slices b (Z.of_nat ny) (Z.of_nat nx) with
                             | None => []
                             | Some _ => map (term b W data) (pixel_set b W mask ny nx)
                             end.
Proof.
  intros Hd Hm. unfold get_values. rewrite (rect_shape ny nx data Hd Hny).
  destruct (get_overlap_cutouts b W (Z.of_nat ny) (Z.of_nat nx) mask) as [[[L aw] pm]|] eqn:Hc.
  - destruct (overlap_slices b (Z.of_nat ny) (Z.of_nat nx)) eqn:Ho.
    2:{ apply (cutouts_none_iff b W ny nx mask) in Ho. congruence. }
    apply (select_cut_repr b W ny nx mask Hwf Hm None vmulw data L aw pm Hd Hc).
  - apply (cutouts_none_iff b W ny nx mask) in Hc. rewrite Hc. reflexivity.
Qed.

Theorem area_overlap_one_spec mask :
  mask_rect ny nx mask ->
  area_overlap_one b W (Z.of_nat ny) (Z.of_nat nx) mask =
  match overlap_slices b (Z.of_nat ny) (Z.of_nat nx) with
  | None => None
  | Some _ => Some (zsum (map (weight_at b W) (pixel_set b W mask ny nx)))
  end.
Proof.
  intros Hm. unfold area_overlap_one.
  destruct (get_overlap_cutouts b W (Z.of_nat ny) (Z.of_nat nx) mask) as [[[L aw] pm]|] eqn:Hc.
  - destruct (overlap_slices b (Z.of_nat ny) (Z.of_nat nx)) eqn:Ho.
    2:{ apply (cutouts_none_iff b W ny nx mask) in Ho. congruence. }
    rewrite (select_weights_repr b W ny nx mask Hwf Hm L aw pm Hc). reflexivity.
  - apply (cutouts_none_iff b W ny nx mask) in Hc. rewrite Hc. reflexivity.
Qed.
End Spec.

(* ---------- the pixel set is what the property says ---------- *)
Lemma pixel_set_spec b W mask ny nx p :
  In p (pixel_set b W mask ny nx) <->
  (fst p < ny)%nat /\ (snd p < nx)%nat /\
  iymin b <= Z.of_nat (fst p) < iymax b /\ ixmin b <= Z.of_nat (snd p) < ixmax b /\
  0 < weight_at b W p /\ masked mask p = false.
Proof.
  unfold pixel_set. rewrite filter_In, in_all_pixels. unfold in_set, in_box.
  rewrite !andb_true_iff, negb_true_iff. split.
  - intros [[Hy Hx] [[[[[H1 H2] H3] H4] H5] H6]]. repeat split; try assumption; lia.
  - intros (Hy & Hx & [H1 H2] & [H3 H4] & H5 & H6). repeat split; try assumption; lia.
Qed.

Lemma NoDup_pixel_set b W mask ny nx : NoDup (pixel_set b W mask ny nx).
Proof. apply NoDup_filter, NoDup_all_pixels. Qed.

(* any duplicate-free enumeration of the set gives the same sum *)
Lemma set_sum_any_order (t : pix -> val) b W mask ny nx l :
  NoDup l -> (forall p, In p l <-> In p (pixel_set b W mask ny nx)) ->
  osum (map t l) = osum (map t (pixel_set b W mask ny nx)).
Proof.
  intros Hn Hi. apply osum_perm, Permutation_map, NoDup_Permutation; auto using NoDup_pixel_set.
Qed.

(* ---------- NaN exactly when the box misses the image ---------- *)
Lemma overlap_none_iff_no_common_pixel b ny nx :
  (0 < ny)%nat -> (0 < nx)%nat -> iymin b < iymax b -> ixmin b < ixmax b ->
  (overlap_slices b (Z.of_nat ny) (Z.of_nat nx) = None <->
   forall y x, (y < ny)%nat -> (x < nx)%nat ->
               ~ (iymin b <= Z.of_nat y < iymax b /\ ixmin b <= Z.of_nat x < ixmax b)).
Proof.
  intros Hy Hx Hby Hbx. rewrite overlap_slices_none. split.
  - intros H y x Hy' Hx' [H1 H2]. lia.
  - intros H.
    destruct (Z_lt_le_dec (ixmin b) (Z.of_nat nx)); [|lia].
    destruct (Z_lt_le_dec (iymin b) (Z.of_nat ny)); [|lia].
    destruct (Z_lt_le_dec 0 (ixmax b)); [|lia].
    destruct (Z_lt_le_dec 0 (iymax b)); [|lia].
    exfalso. apply (H (Z.to_nat (Z.max (iymin b) 0)) (Z.to_nat (Z.max (ixmin b) 0))); lia.
Qed.

(* ====================================================================== *)
(* 7. consequences: NaN / non-finite, linearity, blindness                 *)
(* ====================================================================== *)
Definition no_common_pixel (b : bbox) (ny nx : nat) : Prop :=
  forall y x, (y < ny)%nat -> (x < nx)%nat ->
              ~ (iymin b <= Z.of_nat y < iymax b /\ ixmin b <= Z.of_nat x < ixmax b).
Definition nonempty_box (b : bbox) : Prop := iymin b < iymax b /\ ixmin b < ixmax b.

Lemma wf_of_nonempty b W : nonempty_box b -> rect (Z.to_nat (bh b)) (Z.to_nat (bw b)) W -> wf_mask b W.
Proof. intros [H1 H2] H. unfold wf_mask. repeat split; try lia; apply H. Qed.

Theorem photometry_no_overlap_iff b W ny nx data err mask :
  (0 < ny)%nat -> (0 < nx)%nat -> nonempty_box b -> rect (Z.to_nat (bh b)) (Z.to_nat (bw b)) W ->
  rect ny nx data -> err_rect ny nx err -> mask_rect ny nx mask ->
  (photometry_one b W data err mask = NoOverlap <-> no_common_pixel b ny nx).
Proof.
  intros Hy Hx Hb HW Hd He Hm.
  rewrite (photometry_one_spec b W ny nx Hy (wf_of_nonempty b W Hb HW) data err mask Hd He Hm).
  destruct Hb as [Hb1 Hb2].
  rewrite <- (overlap_none_iff_no_common_pixel b ny nx Hy Hx Hb1 Hb2).
  destruct (overlap_slices b (Z.of_nat ny) (Z.of_nat nx)); split; congruence.
Qed.

Theorem area_no_overlap_iff b W ny nx mask :
  (0 < ny)%nat -> (0 < nx)%nat -> nonempty_box b -> rect (Z.to_nat (bh b)) (Z.to_nat (bw b)) W ->
  mask_rect ny nx mask ->
  (area_overlap_one b W (Z.of_nat ny) (Z.of_nat nx) mask = None <-> no_common_pixel b ny nx).
Proof.
  intros Hy Hx Hb HW Hm.
  rewrite (area_overlap_one_spec b W ny nx (wf_of_nonempty b W Hb HW) mask Hm).
  destruct Hb as [Hb1 Hb2].
  rewrite <- (overlap_none_iff_no_common_pixel b ny nx Hy Hx Hb1 Hb2).
  destruct (overlap_slices b (Z.of_nat ny) (Z.of_nat nx)); split; congruence.
Qed.

(* when the box meets the image: the sum, its finiteness, the variance *)
Theorem photometry_overlap b W ny nx data err mask :
  (0 < ny)%nat -> (0 < nx)%nat -> nonempty_box b -> rect (Z.to_nat (bh b)) (Z.to_nat (bw b)) W ->
  rect ny nx data -> err_rect ny nx err -> mask_rect ny nx mask ->
  ~ no_common_pixel b ny nx ->
  photometry_one b W data err mask =
  Phot (osum (map (term b W data) (pixel_set b W mask ny nx)))
       (match err with
        | None => None
        | Some e => Some (osum (map (vterm b W e) (pixel_set b W mask ny nx)))
        end).
Proof.
  intros Hy Hx Hb HW Hd He Hm Hno.
  rewrite (photometry_one_spec b W ny nx Hy (wf_of_nonempty b W Hb HW) data err mask Hd He Hm).
  destruct Hb as [Hb1 Hb2].
  destruct (overlap_slices b (Z.of_nat ny) (Z.of_nat nx)) eqn:Ho; [reflexivity|].
  exfalso. apply Hno. unfold no_common_pixel.
  apply (proj1 (overlap_none_iff_no_common_pixel b ny nx Hy Hx Hb1 Hb2)). exact Ho.
Qed.

Lemma set_sum_nonfinite_iff b W (data : img val) l :
  osum (map (term b W data) l) = None <-> exists p, In p l /\ data_at data p = None.
Proof.
  rewrite osum_none_iff, in_map_iff. split.
  - intros (p & Hp & Hin). exists p. split; [exact Hin|]. apply (proj1 (vmulw_none _ _)) in Hp. exact Hp.
  - intros (p & Hin & Hp). exists p. split; [|exact Hin]. apply (proj2 (vmulw_none _ _)). exact Hp.
Qed.

Lemma set_var_nonfinite_iff b W (e : img val) l :
  osum (map (vterm b W e) l) = None <-> exists p, In p l /\ data_at e p = None.
Proof.
  rewrite osum_none_iff, in_map_iff. split.
  - intros (p & Hp & Hin). exists p. split; [exact Hin|]. unfold vterm in Hp. apply (proj1 (vmulw_none _ _)) in Hp. apply (proj1 (vsq_none _)) in Hp. exact Hp.
  - intros (p & Hin & Hp). exists p. split; [|exact Hin]. unfold vterm. apply (proj2 (vmulw_none _ _)). apply (proj2 (vsq_none _)). exact Hp.
Qed.

Lemma set_sum_finite b W (data : img val) (dz : pix -> Z) l :
  (forall p, In p l -> data_at data p = Some (dz p)) ->
  osum (map (term b W data) l) = Some (zsum (map (fun p => dz p * weight_at b W p) l)).
Proof.
  intros H. apply osum_some. intros p Hp. unfold term. rewrite (H p Hp). reflexivity.
Qed.

Lemma set_var_finite b W (e : img val) (ez : pix -> Z) l :
  (forall p, In p l -> data_at e p = Some (ez p)) ->
  osum (map (vterm b W e) l) = Some (zsum (map (fun p => ez p * ez p * weight_at b W p) l)).
Proof.
  intros H. apply osum_some. intros p Hp. unfold vterm. rewrite (H p Hp). reflexivity.
Qed.

(* ---------- linear in data ---------- *)
Definition vlin (a c : Z) (u v : val) : val :=
  match u, v with Some x, Some y => Some (a * x + c * y) | _, _ => None end.
Definition img_lin (a c : Z) (d1 d2 : img val) : img val := map2d (vlin a c) d1 d2.

Lemma nth_map2 {A B C} (f : A -> B -> C) l m n dA dB dC :
  length l = length m -> (n < length l)%nat ->
  nth n (map2 f l m) dC = f (nth n l dA) (nth n m dB).
Proof.
  unfold map2. revert m n. induction l as [|x l IH]; intros [|y m] n Hl Hn; cbn in Hl, Hn; try lia.
  destruct n as [|n]; cbn; [reflexivity|]. apply IH; lia.
Qed.

Lemma map2_length {A B C} (f : A -> B -> C) l m : length l = length m -> length (map2 f l m) = length l.
Proof. intros H. unfold map2. rewrite map_length, combine_length. lia. Qed.

Lemma rect_map2d {A B C} (f : A -> B -> C) ny nx a c :
  rect ny nx a -> rect ny nx c -> rect ny nx (map2d f a c).
Proof.
  intros [Ha Hra] [Hc Hrc]. split.
  - unfold map2d. rewrite map2_length; congruence.
  - unfold map2d, map2. apply Forall_forall. intros r Hr. apply in_map_iff in Hr.
    destruct Hr as ([r1 r2] & <- & Hin). change (length (map2 f r1 r2) = nx).
    rewrite Forall_forall in Hra, Hrc.
    pose proof (in_combine_l _ _ _ _ Hin) as H1. pose proof (in_combine_r _ _ _ _ Hin) as H2.
    rewrite map2_length; [apply Hra; exact H1|]. rewrite (Hra _ H1), (Hrc _ H2). reflexivity.
Qed.

Lemma get_map2d {A B C} (f : A -> B -> C) ny nx a c y x dA dB dC :
  rect ny nx a -> rect ny nx c -> (y < ny)%nat -> (x < nx)%nat ->
  get dC (map2d f a c) y x = f (get dA a y x) (get dB c y x).
Proof.
  intros Ha Hc Hy Hx. unfold get, map2d.
  rewrite (nth_map2 (map2 f) a c y [] [] []).
  - apply nth_map2.
    + rewrite (rect_row ny nx a y Ha Hy), (rect_row ny nx c y Hc Hy). reflexivity.
    + rewrite (rect_row ny nx a y Ha Hy). exact Hx.
  - destruct Ha, Hc. congruence.
  - destruct Ha. lia.
Qed.

Lemma osum_lin {A} (a c : Z) (f g : A -> val) (wt : A -> Z) l :
  osum (map (fun p => vmulw (vlin a c (f p) (g p)) (wt p)) l) =
  vlin a c (osum (map (fun p => vmulw (f p) (wt p)) l)) (osum (map (fun p => vmulw (g p) (wt p)) l)).
Proof.
  induction l as [|p l IH].
  - cbn. f_equal. lia.
  - cbn [map]. rewrite !osum_cons, IH.
    destruct (f p), (g p); cbn; try reflexivity;
      destruct (osum (map (fun p => vmulw (f p) (wt p)) l)), (osum (map (fun p => vmulw (g p) (wt p)) l));
      cbn; try reflexivity.
    f_equal. lia.
Qed.

Theorem photometry_linear b W ny nx (a c : Z) d1 d2 err mask :
  (0 < ny)%nat -> wf_mask b W -> rect ny nx d1 -> rect ny nx d2 ->
  err_rect ny nx err -> mask_rect ny nx mask ->
  phot_sum (photometry_one b W (img_lin a c d1 d2) err mask) =
  vlin a c (phot_sum (photometry_one b W d1 err mask)) (phot_sum (photometry_one b W d2 err mask)).
Proof.
  intros Hy Hwf H1 H2 He Hm.
  pose proof (rect_map2d (vlin a c) ny nx d1 d2 H1 H2) as H3. fold (img_lin a c d1 d2) in H3.
  rewrite !(photometry_one_spec b W ny nx Hy Hwf) by assumption.
  destruct (overlap_slices b (Z.of_nat ny) (Z.of_nat nx)); [|reflexivity].
  cbn [phot_sum].
  etransitivity; [|exact (osum_lin a c (data_at d1) (data_at d2) (weight_at b W) (pixel_set b W mask ny nx))].
  f_equal. apply map_ext_in. intros q Hp.
  apply pixel_set_spec in Hp. destruct Hp as (Hpy & Hpx & _).
  unfold term, data_at, img_lin. f_equal.
  apply (get_map2d (vlin a c) ny nx); assumption.
Qed.

(* ---------- blind to masked, zero-weight and out-of-box pixels ---------- *)
Theorem photometry_blind b W ny nx data data' err err' mask :
  (0 < ny)%nat -> wf_mask b W -> rect ny nx data -> rect ny nx data' ->
  err_rect ny nx err -> err_rect ny nx err' -> mask_rect ny nx mask ->
  (forall p, In p (pixel_set b W mask ny nx) -> data_at data p = data_at data' p) ->
  match err, err' with
  | None, None => True
  | Some e, Some e' => forall p, In p (pixel_set b W mask ny nx) -> data_at e p = data_at e' p
  | _, _ => False
  end ->
  photometry_one b W data err mask = photometry_one b W data' err' mask.
Proof.
  intros Hy Hwf Hd Hd' He He' Hm Hagree Herr.
  rewrite !(photometry_one_spec b W ny nx Hy Hwf) by assumption.
  destruct (overlap_slices b (Z.of_nat ny) (Z.of_nat nx)); [|reflexivity].
  f_equal.
  - f_equal. apply map_ext_in. intros q Hq. unfold term. rewrite (Hagree q Hq). reflexivity.
  - destruct err as [e|], err' as [e'|]; try contradiction; [|reflexivity].
    f_equal. f_equal. apply map_ext_in. intros q Hq. unfold vterm. rewrite (Herr q Hq). reflexivity.
Qed.

Lemma val_eq_dec (u v : val) : {u = v} + {u <> v}.
Proof. decide equality. apply Z.eq_dec. Qed.

(* the same, phrased on the stored values: two images that differ only at pixels that are
   masked, have weight <= 0 or lie outside the box give the same result *)
Theorem photometry_blind_explicit b W ny nx data data' mask :
  (0 < ny)%nat -> wf_mask b W -> rect ny nx data -> rect ny nx data' -> mask_rect ny nx mask ->
  (forall p, (fst p < ny)%nat -> (snd p < nx)%nat -> data_at data p <> data_at data' p ->
             masked mask p = true \/ weight_at b W p <= 0 \/ in_box b p = false) ->
  photometry_one b W data None mask = photometry_one b W data' None mask.
Proof.
  intros Hy Hwf Hd Hd' Hm Hdiff.
  apply (photometry_blind b W ny nx); try assumption; try exact I.
  intros p Hp. destruct (val_eq_dec (data_at data p) (data_at data' p)) as [E|E]; [exact E|].
  exfalso. apply pixel_set_spec in Hp. destruct Hp as (Hpy & Hpx & Hby & Hbx & Hw & Hmk).
  destruct (Hdiff p Hpy Hpx E) as [H|[H|H]]; [congruence|lia|].
  unfold in_box in H. repeat (apply andb_false_iff in H; destruct H as [H|H]); lia.
Qed.

(* ====================================================================== *)
(* 8. do_photometry / aperture_photometry: batch = one at a time           *)
(* ====================================================================== *)
Definition shapes_ok (data : img val) (err : option (img val)) (mask : option (img bool)) : bool :=
  match err with None => true | Some e => shape_eqb (shape e) (shape data) end && mask_shape_ok data mask.

Lemma photometry_one_shape_error b W data err mask :
  photometry_one b W data err mask = ShapeError <-> shapes_ok data err mask = false.
Proof.
  unfold photometry_one, shapes_ok. destruct (shape data) as [ny nx] eqn:Es.
  destruct (match err with None => true | Some e => shape_eqb (shape e) (ny, nx) end); cbn [negb andb].
  2:{ split; reflexivity. }
  destruct (mask_shape_ok data mask); cbn [negb].
  2:{ split; reflexivity. }
  destruct (get_overlap_cutouts b W ny nx mask) as [[[L aw] pm]|]; split; discriminate.
Qed.

Definition sums_of (masks : list (bbox * img Z)) data err mask : list val :=
  map (fun bw => phot_sum (photometry_one (fst bw) (snd bw) data err mask)) masks.
Definition vars_of (masks : list (bbox * img Z)) data err mask : list val :=
  map (fun bw => phot_var (photometry_one (fst bw) (snd bw) data err mask)) masks.

Lemma do_photometry_fold masks data err mask : shapes_ok data err mask = true -> forall s0 e0,
  fold_left (fun acc bw =>
               match acc with
               | None => None
               | Some (sums, errs) =>
                   match photometry_one (fst bw) (snd bw) data err mask with
                   | ShapeError => None
                   | NoOverlap => Some (sums ++ [None], errs ++ [None])
                   | Phot s v => Some (sums ++ [s], match v with Some v => errs ++ [v] | None => errs end)
                   end
               end) masks (Some (s0, e0)) =
  Some (s0 ++ sums_of masks data err mask,
        e0 ++ match err with
              | Some _ => vars_of masks data err mask
              | None => flat_map (fun bw => match photometry_one (fst bw) (snd bw) data err mask with
                                            | NoOverlap => [None] | _ => [] end) masks
              end).
Proof.
  intros Hs. induction masks as [|bw masks IH]; intros s0 e0.
  - cbn. rewrite !app_nil_r. destruct err; rewrite ?app_nil_r; reflexivity.
  - cbn [fold_left].
    destruct (photometry_one (fst bw) (snd bw) data err mask) as [| |s v] eqn:E.
    + rewrite IH. unfold sums_of, vars_of. cbn [map flat_map]. rewrite E. cbn [phot_sum phot_var].
      rewrite <- !app_assoc. destruct err; reflexivity.
    + apply photometry_one_shape_error in E. congruence.
    + assert (Hv : match err with Some _ => exists v', v = Some v' | None => v = None end).
      { unfold photometry_one in E. destruct (shape data) as [ny nx].
        destruct (negb _); [discriminate|]. destruct (negb _); [discriminate|].
        destruct (get_overlap_cutouts _ _ _ _ _) as [[[L aw] pm]|]; [|discriminate].
        injection E as _ <-. destruct err; [eexists; reflexivity|reflexivity]. }
      destruct v as [v|].
      * rewrite IH. unfold sums_of, vars_of. cbn [map flat_map]. rewrite E. cbn [phot_sum phot_var].
        rewrite <- !app_assoc. destruct err; [reflexivity|discriminate].
      * rewrite IH. unfold sums_of, vars_of. cbn [map flat_map]. rewrite E. cbn [phot_sum phot_var].
        rewrite <- !app_assoc. destruct err; [destruct Hv; discriminate|reflexivity].
Qed.

Theorem do_photometry_spec masks data err mask :
  shapes_ok data err mask = true ->
  do_photometry masks data err mask =
  Some (sums_of masks data err mask,
        match err with
        | Some _ => vars_of masks data err mask
        | None => flat_map (fun bw => match photometry_one (fst bw) (snd bw) data err mask with
                                      | NoOverlap => [None] | _ => [] end) masks
        end).
Proof.
  intros Hs. unfold do_photometry.
  assert (E : match err with None => true | Some e => shape_eqb (shape e) (shape data) end = true).
  { unfold shapes_ok in Hs. apply andb_true_iff in Hs. apply Hs. }
  rewrite E. cbn [negb]. apply (do_photometry_fold masks data err mask Hs [] []).
Qed.

(* the table: ids 1..N, centres of the first aperture, one column (pair) per aperture holding the
   one-at-a-time results *)
Definition col_of (single : bool) data err mask (i : Z) (a : aperture) : option Z * list val * option (list val) :=
  (if single then None else Some i, sums_of (a_masks a) data err mask,
   match err with None => None | Some _ => Some (vars_of (a_masks a) data err mask) end).

Fixpoint cols_of (i : Z) (single : bool) (apers : list aperture) data err mask :=
  match apers with
  | [] => []
  | a :: rest => col_of single data err mask i a :: cols_of (i + 1) single rest data err mask
  end.

Lemma photometry_cols_spec single data err mask : shapes_ok data err mask = true ->
  forall apers i, photometry_cols i single apers data err mask = Some (cols_of i single apers data err mask).
Proof.
  intros Hs. induction apers as [|a rest IH]; intros i; [reflexivity|].
  cbn [photometry_cols cols_of]. rewrite (do_photometry_spec _ data err mask Hs), IH.
  unfold col_of. destruct err; reflexivity.
Qed.

Theorem aperture_photometry_spec data a0 rest single err mask :
  shapes_ok data err mask = true ->
  aperture_photometry data (a0 :: rest) single err mask =
  if forallb (fun a => pos_eqb (a_pos a) (a_pos a0)) rest
  then Some (mktable (map (fun i => Z.of_nat i + 1) (seq 0 (length (a_pos a0))))
                     (map fst (a_pos a0)) (map snd (a_pos a0))
                     (cols_of 0 single (a0 :: rest) data err mask))
  else None.
Proof.
  intros Hs. unfold aperture_photometry.
  destruct (forallb (fun a => pos_eqb (a_pos a) (a_pos a0)) rest); cbn [negb]; [|reflexivity].
  rewrite (photometry_cols_spec single data err mask Hs). reflexivity.
Qed.

Lemma nth_error_cols_of single data err mask apers : forall i k a,
  nth_error apers k = Some a ->
  nth_error (cols_of i single apers data err mask) k = Some (col_of single data err mask (i + Z.of_nat k) a).
Proof.
  induction apers as [|a0 rest IH]; intros i k a Hk; [destruct k; discriminate|].
  destruct k as [|k]; cbn [nth_error cols_of] in *.
  - injection Hk as <-. rewrite Z.add_0_r. reflexivity.
  - rewrite (IH (i + 1) k a Hk). f_equal. f_equal. lia.
Qed.

(* ---------- area_overlap before the repair ---------- *)
Lemma area_overlap_v0_refuted :
  exists b W ny nx mask,
    wf_mask b W /\ mask_rect ny nx mask /\
    area_overlap_one_v0 b W (Z.of_nat ny) (Z.of_nat nx) mask <>
    Some (zsum (map (weight_at b W) (pixel_set b W mask ny nx))).
Proof.
  exists (mkbox 0 2 0 1), [[-1; 3]], 1%nat, 2%nat, None.
  split; [|split].
  - unfold wf_mask, rect. cbn. repeat split; try lia. repeat constructor.
  - exact I.
  - vm_compute. discriminate.
Qed.

(* ====================================================================== *)
(* 9. statements in the form used by C02_Properties                        *)
(* ====================================================================== *)
Theorem area_overlap_overlap b W ny nx mask :
  (0 < ny)%nat -> (0 < nx)%nat -> nonempty_box b -> rect (Z.to_nat (bh b)) (Z.to_nat (bw b)) W ->
  mask_rect ny nx mask -> ~ no_common_pixel b ny nx ->
  area_overlap_one b W (Z.of_nat ny) (Z.of_nat nx) mask =
  Some (zsum (map (weight_at b W) (pixel_set b W mask ny nx))).
Proof.
  intros Hy Hx Hb HW Hm Hno.
  rewrite (area_overlap_one_spec b W ny nx (wf_of_nonempty b W Hb HW) mask Hm).
  destruct Hb as [Hb1 Hb2].
  destruct (overlap_slices b (Z.of_nat ny) (Z.of_nat nx)) eqn:Ho; [reflexivity|].
  exfalso. apply Hno. unfold no_common_pixel.
  apply (proj1 (overlap_none_iff_no_common_pixel b ny nx Hy Hx Hb1 Hb2)). exact Ho.
Qed.

Theorem photometry_sum_nonfinite_iff b W ny nx data err mask :
  (0 < ny)%nat -> (0 < nx)%nat -> nonempty_box b -> rect (Z.to_nat (bh b)) (Z.to_nat (bw b)) W ->
  rect ny nx data -> err_rect ny nx err -> mask_rect ny nx mask ->
  (phot_sum (photometry_one b W data err mask) = None <->
   no_common_pixel b ny nx \/ exists p, In p (pixel_set b W mask ny nx) /\ data_at data p = None).
Proof.
  intros Hy Hx Hb HW Hd He Hm.
  pose proof (photometry_no_overlap_iff b W ny nx data err mask Hy Hx Hb HW Hd He Hm) as Hiff.
  rewrite (photometry_one_spec b W ny nx Hy (wf_of_nonempty b W Hb HW) data err mask Hd He Hm) in *.
  destruct (overlap_slices b (Z.of_nat ny) (Z.of_nat nx)).
  - cbn [phot_sum]. rewrite set_sum_nonfinite_iff. split; [intros H; right; exact H|].
    intros [H|H]; [|exact H]. apply Hiff in H. discriminate.
  - cbn [phot_sum]. split; [intros _; left; apply Hiff; reflexivity|reflexivity].
Qed.

Theorem photometry_var_nonfinite_iff b W ny nx data e mask :
  (0 < ny)%nat -> (0 < nx)%nat -> nonempty_box b -> rect (Z.to_nat (bh b)) (Z.to_nat (bw b)) W ->
  rect ny nx data -> rect ny nx e -> mask_rect ny nx mask ->
  (phot_var (photometry_one b W data (Some e) mask) = None <->
   no_common_pixel b ny nx \/ exists p, In p (pixel_set b W mask ny nx) /\ data_at e p = None).
Proof.
  intros Hy Hx Hb HW Hd He Hm.
  pose proof (photometry_no_overlap_iff b W ny nx data (Some e) mask Hy Hx Hb HW Hd He Hm) as Hiff.
  rewrite (photometry_one_spec b W ny nx Hy (wf_of_nonempty b W Hb HW) data (Some e) mask Hd He Hm) in *.
  destruct (overlap_slices b (Z.of_nat ny) (Z.of_nat nx)).
  - cbn [phot_var]. rewrite set_var_nonfinite_iff. split; [intros H; right; exact H|].
    intros [H|H]; [|exact H]. apply Hiff in H. discriminate.
  - cbn [phot_var]. split; [intros _; left; apply Hiff; reflexivity|reflexivity].
Qed.

(* a column of an aperture-list table = the column of that aperture's own table *)
Theorem aperture_list_eq_single data apers err mask t k a :
  shapes_ok data err mask = true ->
  aperture_photometry data apers false err mask = Some t ->
  nth_error apers k = Some a ->
  exists t1 sums vars,
    aperture_photometry data [a] true err mask = Some t1 /\
    nth_error (t_cols t) k = Some (Some (Z.of_nat k), sums, vars) /\
    t_cols t1 = [(None, sums, vars)] /\
    sums = sums_of (a_masks a) data err mask.
Proof.
  intros Hs Ht Hk. destruct apers as [|a0 rest]; [discriminate|].
  rewrite (aperture_photometry_spec data a0 rest false err mask Hs) in Ht.
  destruct (forallb _ rest); [|discriminate]. injection Ht as <-.
  rewrite (aperture_photometry_spec data a [] true err mask Hs). cbn [forallb].
  eexists. exists (sums_of (a_masks a) data err mask).
  exists (match err with None => None | Some _ => Some (vars_of (a_masks a) data err mask) end).
  split; [reflexivity|]. cbn [t_cols]. split; [|split; reflexivity].
  change (nth_error (cols_of 0 false (a0 :: rest) data err mask) k = Some (col_of false data err mask (Z.of_nat k) a)).
  rewrite (nth_error_cols_of false data err mask (a0 :: rest) 0 k a Hk). reflexivity.
Qed.

Lemma length_cols_of single data err mask apers : forall i,
  length (cols_of i single apers data err mask) = length apers.
Proof. induction apers as [|a l IH]; intros i; cbn; [reflexivity|]. f_equal. apply IH. Qed.

(* table bookkeeping *)
Theorem aperture_table_bookkeeping data apers single err mask t :
  shapes_ok data err mask = true ->
  aperture_photometry data apers single err mask = Some t ->
  exists a0 rest, apers = a0 :: rest /\
    (forall a, In a rest -> pos_eqb (a_pos a) (a_pos a0) = true) /\
    t_id t = map (fun i => Z.of_nat i + 1) (seq 0 (length (a_pos a0))) /\
    t_x t = map fst (a_pos a0) /\ t_y t = map snd (a_pos a0) /\
    length (t_cols t) = length apers /\
    forall k a, nth_error apers k = Some a ->
      nth_error (t_cols t) k = Some (col_of single data err mask (Z.of_nat k) a).
Proof.
  intros Hs Ht. destruct apers as [|a0 rest]; [discriminate|]. exists a0, rest. split; [reflexivity|].
  rewrite (aperture_photometry_spec data a0 rest single err mask Hs) in Ht.
  destruct (forallb _ rest) eqn:Ef; [|discriminate]. injection Ht as <-. cbn [t_id t_x t_y t_cols].
  split; [rewrite forallb_forall in Ef; exact Ef|].
  repeat split.
  - apply (length_cols_of single data err mask (a0 :: rest) 0).
  - intros k a Hk. exact (nth_error_cols_of single data err mask (a0 :: rest) 0 k a Hk).
Qed.

(* invalid inputs are refused *)
Theorem aperture_photometry_rejects data apers single err mask :
  shapes_ok data err mask = false -> (exists a rest, apers = a :: rest /\ a_masks a <> []) ->
  aperture_photometry data apers single err mask = None.
Proof.
  intros Hs (a & rest & -> & Hne). unfold aperture_photometry.
  destruct (negb _); [reflexivity|]. cbn [photometry_cols].
  assert (E : do_photometry (a_masks a) data err mask = None).
  { unfold do_photometry. destruct (negb _) eqn:E1.
    - clear. induction (a_masks a) as [|x l IH]; [reflexivity|exact IH].
    - destruct (a_masks a) as [|bw l]; [congruence|]. cbn [fold_left].
      destruct (photometry_one (fst bw) (snd bw) data err mask) eqn:E2;
        try (exfalso; assert (H : photometry_one (fst bw) (snd bw) data err mask = ShapeError)
               by (apply photometry_one_shape_error; exact Hs); congruence).
      clear. induction l as [|x l IH]; [reflexivity|exact IH]. }
  rewrite E. reflexivity.
Qed.

(* ====================================================================== *)
(* 10. the unrepaired area_overlap agrees with the repaired one when W >= 0 *)
(* ====================================================================== *)
Lemma Forall_firstn {A} (P : A -> Prop) n : forall l, Forall P l -> Forall P (firstn n l).
Proof.
  induction n as [|n IH]; intros l H; [constructor|].
  destruct l as [|x l]; [constructor|]. inversion H; subst. cbn. constructor; auto.
Qed.
Lemma Forall_skipn {A} (P : A -> Prop) n : forall l, Forall P l -> Forall P (skipn n l).
Proof.
  induction n as [|n IH]; intros l H; [exact H|].
  destruct l as [|x l]; [constructor|]. inversion H; subst. cbn. auto.
Qed.
Lemma Forall_slice {A} (P : A -> Prop) s l : Forall P l -> Forall P (slice s l).
Proof. intros H. unfold slice. apply Forall_firstn, Forall_skipn, H. Qed.

Definition nonneg_img (W : img Z) : Prop := Forall (Forall (fun w => 0 <= w)) W.

Lemma nonneg_crop s W : nonneg_img W -> nonneg_img (crop s W).
Proof.
  intros H. unfold crop, nonneg_img. apply Forall_forall. intros r Hr. apply in_map_iff in Hr.
  destruct Hr as (r0 & <- & Hin). apply Forall_slice.
  pose proof (Forall_slice _ (fst s) W H) as H'. rewrite Forall_forall in H'. apply H'. exact Hin.
Qed.

Lemma zsum_app l m : zsum (l ++ m) = zsum l + zsum m.
Proof. induction l as [|a l IH]; cbn; [reflexivity|]. fold (zsum (l ++ m)) (zsum l). lia. Qed.

Lemma row_masked_sum r : forall m, Forall (fun w => 0 <= w) r ->
  zsum (map2 (fun w (mk : bool) => if mk then 0 else w) r m) =
  zsum (select_row r (map2 andb (map (fun w => 0 <? w) r) (map negb m))).
Proof.
  unfold map2, select_row.
  induction r as [|w r IH]; intros [|mk m] H; try reflexivity.
  inversion H as [|? ? Hw Hr]; subst. specialize (IH m Hr).
  cbn [combine map fst snd filter].
  destruct mk, (0 <? w) eqn:E; cbn [negb andb map fst]; rewrite ?zsum_cons, IH; lia.
Qed.

Lemma row_sum r : Forall (fun w => 0 <= w) r ->
  zsum r = zsum (select_row r (map (fun w => 0 <? w) r)).
Proof.
  unfold select_row. induction r as [|w r IH]; intros H; [reflexivity|].
  inversion H as [|? ? Hw Hr]; subst. specialize (IH Hr).
  cbn [combine map fst snd filter].
  destruct (0 <? w) eqn:E; cbn [map fst]; rewrite ?zsum_cons, <- IH; lia.
Qed.

Lemma img_masked_sum aw : forall mc, nonneg_img aw ->
  zsum (concat (map2d (fun w (mk : bool) => if mk then 0 else w) aw mc)) =
  zsum (select aw (map2d andb (map (map (fun w => 0 <? w)) aw) (map (map negb) mc))).
Proof.
  unfold map2d, select.
  induction aw as [|r aw IH]; intros [|m mc] H; try reflexivity.
  inversion H as [|? ? Hr Haw]; subst. specialize (IH mc Haw).
  unfold map2 in *. cbn [combine map concat fst snd] in *. rewrite !zsum_app.
  rewrite IH. f_equal. apply (row_masked_sum r m Hr).
Qed.

Lemma img_sum aw : nonneg_img aw ->
  zsum (concat aw) = zsum (select aw (map (map (fun w => 0 <? w)) aw)).
Proof.
  unfold select. induction aw as [|r aw IH]; intros H; [reflexivity|].
  inversion H as [|? ? Hr Haw]; subst. specialize (IH Haw).
  unfold map2 in *. cbn [combine map concat fst snd] in *. rewrite !zsum_app, IH. f_equal.
  apply (row_sum r Hr).
Qed.

Theorem area_overlap_v0_eq_nonneg b W ny nx mask :
  nonneg_img W -> area_overlap_one_v0 b W ny nx mask = area_overlap_one b W ny nx mask.
Proof.
  intros HW. unfold area_overlap_one_v0, area_overlap_one, get_overlap_cutouts.
  destruct (overlap_slices b ny nx) as [[L S]|]; [|reflexivity].
  f_equal. destruct mask as [m|].
  - apply img_masked_sum, nonneg_crop, HW.
  - apply img_sum, nonneg_crop, HW.
Qed.

(* ====================================================================== *)
(* 11. to_image / cutout / multiply                                        *)
(* ====================================================================== *)
Lemma nth_firstn_lt {A} (d : A) : forall n i (l : list A), (i < n)%nat -> nth i (firstn n l) d = nth i l d.
Proof.
  induction n as [|n IH]; intros i l Hi; [lia|].
  destruct l as [|x l]; [destruct i; reflexivity|]. destruct i as [|i]; cbn; [reflexivity|]. apply IH. lia.
Qed.
Lemma nth_skipn_add {A} (d : A) : forall n i (l : list A), nth i (skipn n l) d = nth (n + i) l d.
Proof.
  induction n as [|n IH]; intros i l; [reflexivity|].
  destruct l as [|x l]; [destruct i; reflexivity|]. cbn. apply IH.
Qed.

(* dst[a:b] = src, element-wise *)
Lemma nth_set_slice {A} (d : A) (a b' : Z) (src dst : list A) i :
  0 <= a <= b' -> b' <= Z.of_nat (length dst) -> length src = Z.to_nat (b' - a) ->
  nth i (set_slice (a, b') src dst) d =
  if (Z.of_nat i <? a) then nth i dst d
  else if (Z.of_nat i <? b') then nth (i - Z.to_nat a) src d else nth i dst d.
Proof.
  intros Ha Hb Hl. unfold set_slice. cbn [fst snd].
  assert (Hf : length (firstn (Z.to_nat a) dst) = Z.to_nat a) by (apply firstn_length_le; lia).
  destruct (Z.of_nat i <? a) eqn:E1.
  - rewrite app_nth1 by lia. apply nth_firstn_lt. lia.
  - rewrite app_nth2 by lia. rewrite Hf.
    destruct (Z.of_nat i <? b') eqn:E2.
    + rewrite app_nth1 by lia. reflexivity.
    + rewrite app_nth2 by lia. rewrite nth_skipn_add. f_equal. lia.
Qed.

Lemma set_slice_length {A} (a b' : Z) (src dst : list A) :
  0 <= a <= b' -> b' <= Z.of_nat (length dst) -> length src = Z.to_nat (b' - a) ->
  length (set_slice (a, b') src dst) = length dst.
Proof.
  intros Ha Hb Hl. unfold set_slice. cbn [fst snd].
  rewrite !app_length, firstn_length_le, skipn_length by lia. lia.
Qed.

Lemma slice_length {A} (a b' : Z) (l : list A) : 0 <= a <= b' -> b' <= Z.of_nat (length l) ->
  length (slice (a, b') l) = Z.to_nat (b' - a).
Proof.
  intros Ha Hb. unfold slice. cbn [fst snd]. rewrite firstn_length_le; [reflexivity|].
  rewrite skipn_length. lia.
Qed.

Lemma nth_slice {A} (d : A) (a b' : Z) (l : list A) i : 0 <= a <= b' -> (i < Z.to_nat (b' - a))%nat ->
  nth i (slice (a, b') l) d = nth (Z.to_nat a + i) l d.
Proof.
  intros Ha Hi. unfold slice. cbn [fst snd]. rewrite nth_firstn_lt by lia. apply nth_skipn_add.
Qed.

(* dst[Y0:Y1, X0:X1] = src, element-wise *)
Lemma get_paste {A} (d : A) H Wd (Y0 Y1 X0 X1 : Z) (src dst : img A) y x :
  rect H Wd dst -> rect (Z.to_nat (Y1 - Y0)) (Z.to_nat (X1 - X0)) src ->
  0 <= Y0 <= Y1 -> Y1 <= Z.of_nat H -> 0 <= X0 <= X1 -> X1 <= Z.of_nat Wd ->
  (y < H)%nat -> (x < Wd)%nat ->
  get d (paste ((Y0, Y1), (X0, X1)) src dst) y x =
  if (Y0 <=? Z.of_nat y) && (Z.of_nat y <? Y1) && (X0 <=? Z.of_nat x) && (Z.of_nat x <? X1)
  then get d src (y - Z.to_nat Y0) (x - Z.to_nat X0) else get d dst y x.
Proof.
  intros Hd Hs HY HY1 HX HX1 Hy Hx. unfold paste, get. cbn [fst snd].
  destruct Hd as [HdL HdR]. destruct Hs as [HsL HsR].
  assert (Hrows : length (map2 (set_slice (X0, X1)) src (slice (Y0, Y1) dst)) = Z.to_nat (Y1 - Y0)).
  { rewrite map2_length; [exact HsL|]. rewrite slice_length by lia. exact HsL. }
  rewrite (nth_set_slice [] Y0 Y1) by (try lia; exact Hrows).
  destruct (Z.of_nat y <? Y0) eqn:E1.
  { replace (Y0 <=? Z.of_nat y) with false by lia. reflexivity. }
  destruct (Z.of_nat y <? Y1) eqn:E2.
  2:{ replace (Y0 <=? Z.of_nat y) with true by lia. cbn [andb]. reflexivity. }
  replace (Y0 <=? Z.of_nat y) with true by lia. cbn [andb].
  rewrite (nth_map2 (set_slice (X0, X1)) src (slice (Y0, Y1) dst) (y - Z.to_nat Y0) [] [] []).
  2:{ rewrite slice_length by lia. exact HsL. }
  2:{ lia. }
  rewrite (nth_slice [] Y0 Y1 dst) by lia.
  replace (Z.to_nat Y0 + (y - Z.to_nat Y0))%nat with y by lia.
  assert (Hrow : length (nth y dst []) = Wd).
  { rewrite Forall_forall in HdR. apply HdR, nth_In. lia. }
  assert (Hsrow : length (nth (y - Z.to_nat Y0) src []) = Z.to_nat (X1 - X0)).
  { rewrite Forall_forall in HsR. apply HsR, nth_In. lia. }
  rewrite (nth_set_slice d X0 X1) by (try lia; exact Hsrow).
  destruct (Z.of_nat x <? X0) eqn:E3.
  { replace (X0 <=? Z.of_nat x) with false by lia. reflexivity. }
  replace (X0 <=? Z.of_nat x) with true by lia.
  destruct (Z.of_nat x <? X1); reflexivity.
Qed.

Lemma rect_paste {A} H Wd (Y0 Y1 X0 X1 : Z) (src dst : img A) :
  rect H Wd dst -> rect (Z.to_nat (Y1 - Y0)) (Z.to_nat (X1 - X0)) src ->
  0 <= Y0 <= Y1 -> Y1 <= Z.of_nat H -> 0 <= X0 <= X1 -> X1 <= Z.of_nat Wd ->
  rect H Wd (paste ((Y0, Y1), (X0, X1)) src dst).
Proof.
  intros Hd Hs HY HY1 HX HX1. destruct Hd as [HdL HdR]. destruct Hs as [HsL HsR].
  assert (Hrows : length (map2 (set_slice (X0, X1)) src (slice (Y0, Y1) dst)) = Z.to_nat (Y1 - Y0)).
  { rewrite map2_length; [exact HsL|]. rewrite slice_length by lia. exact HsL. }
  unfold paste. cbn [fst snd]. split.
  - rewrite set_slice_length by (try lia; exact Hrows). exact HdL.
  - unfold set_slice. cbn [fst snd]. rewrite !Forall_app. repeat split.
    + apply Forall_firstn, HdR.
    + unfold map2. apply Forall_forall. intros r Hr. apply in_map_iff in Hr.
      destruct Hr as ([r1 r2] & <- & Hin). change (length (set_slice (X0, X1) r1 r2) = Wd).
      rewrite Forall_forall in HsR, HdR.
      pose proof (in_combine_l _ _ _ _ Hin) as H1. pose proof (in_combine_r _ _ _ _ Hin) as H2.
      assert (H2' : In r2 dst).
      { unfold slice in H2. cbn [fst snd] in H2.
        assert (Hincl : forall (l : list (list A)) n z, In z (firstn n l) -> In z l).
        { clear. intros l n. revert l. induction n as [|n IH]; intros [|a l] z Hz; cbn in *; try contradiction.
          destruct Hz as [->|Hz]; [left; reflexivity|right; apply IH; exact Hz]. }
        assert (Hincl2 : forall (l : list (list A)) n z, In z (skipn n l) -> In z l).
        { clear. intros l n. revert l. induction n as [|n IH]; intros [|a l] z Hz; cbn in *; try contradiction; auto. }
        eapply Hincl2, Hincl, H2. }
      rewrite set_slice_length; [apply HdR, H2'| lia | rewrite (HdR _ H2'); lia | apply HsR, H1].
    + apply Forall_skipn, HdR.
Qed.

Lemma nth_repeat_lt {A} (d v : A) : forall m n, (n < m)%nat -> nth n (repeat v m) d = v.
Proof. induction m as [|m IH]; intros n Hn; [lia|]. destruct n; cbn; [reflexivity|apply IH; lia]. Qed.

Lemma rect_full {A} (h w : Z) (v : A) : rect (Z.to_nat h) (Z.to_nat w) (full h w v).
Proof.
  unfold full, rect. split; [apply repeat_length|].
  apply Forall_forall. intros r Hr. apply repeat_spec in Hr. subst. apply repeat_length.
Qed.

Lemma get_full {A} (d : A) (h w : Z) (v : A) y x : (y < Z.to_nat h)%nat -> (x < Z.to_nat w)%nat ->
  get d (full h w v) y x = v.
Proof.
  intros Hy Hx. unfold get, full. rewrite nth_repeat_lt by exact Hy. apply nth_repeat_lt. exact Hx.
Qed.

Lemma rect_tab {A} h w (f : nat -> nat -> A) : rect h w (tab h w f).
Proof.
  unfold tab, rect. split; [rewrite map_length, seq_length; reflexivity|].
  apply Forall_forall. intros r Hr. apply in_map_iff in Hr. destruct Hr as (i & <- & _).
  rewrite map_length, seq_length. reflexivity.
Qed.

Lemma get_tab {A} (d : A) h w (f : nat -> nat -> A) i j : (i < h)%nat -> (j < w)%nat ->
  get d (tab h w f) i j = f i j.
Proof.
  intros Hi Hj. unfold get, tab.
  rewrite (nth_indep _ [] ((fun i => map (fun j => f i j) (seq 0 w)) 0%nat)) by (rewrite map_length, seq_length; lia).
  rewrite (map_nth (fun i => map (fun j => f i j) (seq 0 w))), seq_nth by lia. cbn [Nat.add].
  rewrite (nth_indep _ d ((fun j => f i j) 0%nat)) by (rewrite map_length, seq_length; lia).
  rewrite (map_nth (fun j => f i j)), seq_nth by lia. reflexivity.
Qed.

Section MaskMethods.
Variables (b : bbox) (W : img Z) (ny nx : nat).
Hypothesis Hny : (0 < ny)%nat.
Hypothesis Hnx : (0 < nx)%nat.
Hypothesis Hbox : nonempty_box b.
Hypothesis HW : rect (Z.to_nat (bh b)) (Z.to_nat (bw b)) W.

Theorem to_image_spec im :
  to_image b W (Z.of_nat ny) (Z.of_nat nx) = Some im ->
  rect ny nx im /\
  forall y x, (y < ny)%nat -> (x < nx)%nat ->
    get 0 im y x = if in_box b (y, x) then weight_at b W (y, x) else 0.
Proof.
  unfold to_image. destruct (overlap_slices b (Z.of_nat ny) (Z.of_nat nx)) as [[L S]|] eqn:Ho; [|discriminate].
  intros H. injection H as <-.
  apply overlap_slices_inv in Ho. destruct Ho as (H1 & H2 & H3 & H4 & -> & ->).
  destruct Hbox as [Hb1 Hb2]. unfold bh, bw in HW.
  set (Y0 := Z.max (iymin b) 0). set (Y1 := Z.min (iymax b) (Z.of_nat ny)).
  set (X0 := Z.max (ixmin b) 0). set (X1 := Z.min (ixmax b) (Z.of_nat nx)).
  assert (Hc : crop (Y0 - iymin b, Y1 - iymin b, (X0 - ixmin b, X1 - ixmin b)) W =
               tab (Z.to_nat (Y1 - Y0)) (Z.to_nat (X1 - X0))
                   (fun i j => get 0 W (Z.to_nat (Y0 - iymin b) + i) (Z.to_nat (X0 - ixmin b) + j))).
  { rewrite (crop_tab 0 _ _ W _ _ _ _ HW) by (subst Y0 Y1 X0 X1; lia).
    replace (Y1 - iymin b - (Y0 - iymin b)) with (Y1 - Y0) by lia.
    replace (X1 - ixmin b - (X0 - ixmin b)) with (X1 - X0) by lia. reflexivity. }
  rewrite Hc.
  assert (Hf : rect ny nx (full (Z.of_nat ny) (Z.of_nat nx) 0)).
  { pose proof (rect_full (Z.of_nat ny) (Z.of_nat nx) 0) as R. rewrite !Nat2Z.id in R. exact R. }
  split.
  - apply rect_paste; try (subst Y0 Y1 X0 X1; lia); [exact Hf|apply rect_tab].
  - intros y x Hy Hx.
    rewrite (get_paste 0 ny nx Y0 Y1 X0 X1) by (try (subst Y0 Y1 X0 X1; lia); try exact Hf; try apply rect_tab).
    unfold in_box. cbn [fst snd].
    destruct ((Y0 <=? Z.of_nat y) && (Z.of_nat y <? Y1) && (X0 <=? Z.of_nat x) && (Z.of_nat x <? X1)) eqn:E.
    + replace ((iymin b <=? Z.of_nat y) && (Z.of_nat y <? iymax b) && (ixmin b <=? Z.of_nat x) && (Z.of_nat x <? ixmax b))
        with true by (subst Y0 Y1 X0 X1; lia).
      rewrite get_tab by (subst Y0 Y1 X0 X1; lia).
      unfold weight_at, get. cbn [fst snd]. f_equal; [|f_equal]; subst Y0 Y1 X0 X1; lia.
    + replace ((iymin b <=? Z.of_nat y) && (Z.of_nat y <? iymax b) && (ixmin b <=? Z.of_nat x) && (Z.of_nat x <? ixmax b))
        with false by (subst Y0 Y1 X0 X1; lia).
      apply get_full; lia.
Qed.

Theorem to_image_none_iff :
  to_image b W (Z.of_nat ny) (Z.of_nat nx) = None <-> no_common_pixel b ny nx.
Proof.
  destruct Hbox as [Hb1 Hb2]. unfold no_common_pixel.
  rewrite <- (overlap_none_iff_no_common_pixel b ny nx Hny Hnx Hb1 Hb2).
  unfold to_image. destruct (overlap_slices b (Z.of_nat ny) (Z.of_nat nx)) as [[L S]|]; split; congruence.
Qed.

(* value of box cell (i, j) seen through the cutout: the image pixel when it exists, else fill *)
Definition cut_at (data : img val) (fill : val) (i j : nat) : val :=
  let y := iymin b + Z.of_nat i in
  let x := ixmin b + Z.of_nat j in
  if (0 <=? y) && (y <? Z.of_nat ny) && (0 <=? x) && (x <? Z.of_nat nx)
  then get None data (Z.to_nat y) (Z.to_nat x) else fill.

Theorem cutout_spec data fill c : rect ny nx data ->
  cutout b W data fill = Some c ->
  rect (Z.to_nat (bh b)) (Z.to_nat (bw b)) c /\
  forall i j, (i < Z.to_nat (bh b))%nat -> (j < Z.to_nat (bw b))%nat ->
    get None c i j = cut_at data fill i j.
Proof.
  intros Hd. unfold cutout. rewrite (rect_shape ny nx data Hd Hny).
  destruct (overlap_slices b (Z.of_nat ny) (Z.of_nat nx)) as [[L S]|] eqn:Ho; [|discriminate].
  apply overlap_slices_inv in Ho. destruct Ho as (H1 & H2 & H3 & H4 & -> & ->).
  destruct Hbox as [Hb1 Hb2].
  assert (HsW : shape W = (bh b, bw b)).
  { rewrite (rect_shape _ _ W HW) by (unfold bh; lia). unfold bh, bw. f_equal; lia. }
  rewrite HsW. cbn [fst snd]. unfold bh, bw in *.
  set (Y0 := Z.max (iymin b) 0). set (Y1 := Z.min (iymax b) (Z.of_nat ny)).
  set (X0 := Z.max (ixmin b) 0). set (X1 := Z.min (ixmax b) (Z.of_nat nx)).
  assert (Hc : crop (Y0, Y1, (X0, X1)) data =
               tab (Z.to_nat (Y1 - Y0)) (Z.to_nat (X1 - X0))
                   (fun i j => get None data (Z.to_nat Y0 + i) (Z.to_nat X0 + j))).
  { apply (crop_tab None ny nx data); try exact Hd; subst Y0 Y1 X0 X1; lia. }
  rewrite Hc.
  destruct (shape_eqb (Y1 - iymin b - (Y0 - iymin b), X1 - ixmin b - (X0 - ixmin b))
                      (iymax b - iymin b, ixmax b - ixmin b)) eqn:Es.
  - unfold shape_eqb in Es. cbn [fst snd] in Es. apply andb_true_iff in Es. destruct Es as [Es1 Es2].
    intros H. injection H as <-.
    replace (Z.to_nat (Y1 - Y0)) with (Z.to_nat (iymax b - iymin b)) by lia.
    replace (Z.to_nat (X1 - X0)) with (Z.to_nat (ixmax b - ixmin b)) by lia.
    split; [apply rect_tab|]. intros i j Hi Hj. rewrite get_tab by lia.
    unfold cut_at. cbn zeta.
    replace ((0 <=? iymin b + Z.of_nat i) && (iymin b + Z.of_nat i <? Z.of_nat ny) &&
             (0 <=? ixmin b + Z.of_nat j) && (ixmin b + Z.of_nat j <? Z.of_nat nx))
      with true by (subst Y0 Y1 X0 X1; lia).
    unfold get. f_equal; [|f_equal]; subst Y0 Y1 X0 X1; lia.
  - intros H. injection H as <-.
    pose proof (rect_full (iymax b - iymin b) (ixmax b - ixmin b) fill) as Hf.
    split.
    + apply rect_paste; try (subst Y0 Y1 X0 X1; lia); [exact Hf|].
      replace (Y1 - iymin b - (Y0 - iymin b)) with (Y1 - Y0) by lia.
      replace (X1 - ixmin b - (X0 - ixmin b)) with (X1 - X0) by lia. apply rect_tab.
    + intros i j Hi Hj.
      rewrite (@get_paste val None (Z.to_nat (iymax b - iymin b)) (Z.to_nat (ixmax b - ixmin b)) (Y0 - iymin b) (Y1 - iymin b) (X0 - ixmin b) (X1 - ixmin b));
        try (subst Y0 Y1 X0 X1; lia); try exact Hf.
      2:{ replace (Y1 - iymin b - (Y0 - iymin b)) with (Y1 - Y0) by lia.
          replace (X1 - ixmin b - (X0 - ixmin b)) with (X1 - X0) by lia. apply rect_tab. }
      unfold cut_at. cbn zeta.
      destruct ((Y0 - iymin b <=? Z.of_nat i) && (Z.of_nat i <? Y1 - iymin b) &&
                (X0 - ixmin b <=? Z.of_nat j) && (Z.of_nat j <? X1 - ixmin b)) eqn:E.
      * replace ((0 <=? iymin b + Z.of_nat i) && (iymin b + Z.of_nat i <? Z.of_nat ny) &&
                 (0 <=? ixmin b + Z.of_nat j) && (ixmin b + Z.of_nat j <? Z.of_nat nx))
          with true by (subst Y0 Y1 X0 X1; lia).
        rewrite get_tab by (subst Y0 Y1 X0 X1; lia).
        unfold get. f_equal; [|f_equal]; subst Y0 Y1 X0 X1; lia.
      * replace ((0 <=? iymin b + Z.of_nat i) && (iymin b + Z.of_nat i <? Z.of_nat ny) &&
                 (0 <=? ixmin b + Z.of_nat j) && (ixmin b + Z.of_nat j <? Z.of_nat nx))
          with false by (subst Y0 Y1 X0 X1; lia).
        apply get_full; lia.
Qed.

Theorem multiply_spec data fill fillm m : rect ny nx data ->
  multiply b W data fill fillm = Some m ->
  rect (Z.to_nat (bh b)) (Z.to_nat (bw b)) m /\
  forall i j, (i < Z.to_nat (bh b))%nat -> (j < Z.to_nat (bw b))%nat ->
    get None m i j = if get 0 W i j =? 0 then fillm else vmulw (cut_at data fill i j) (get 0 W i j).
Proof.
  intros Hd. unfold multiply. destruct (cutout b W data fill) as [c|] eqn:Hc; [|discriminate].
  intros H. injection H as <-.
  destruct (cutout_spec data fill c Hd Hc) as [Hr Hg].
  split; [apply rect_map2d; assumption|].
  intros i j Hi Hj.
  transitivity ((fun cv w => if w =? 0 then fillm else vmulw cv w) (get None c i j) (get 0 W i j)).
  - exact (get_map2d _ _ _ c W i j None 0 None Hr HW Hi Hj).
  - cbn beta. rewrite (Hg i j Hi Hj). reflexivity.
Qed.

Theorem cutout_none_iff data fill : rect ny nx data ->
  (cutout b W data fill = None <-> no_common_pixel b ny nx).
Proof.
  intros Hd. destruct Hbox as [Hb1 Hb2]. unfold no_common_pixel.
  rewrite <- (overlap_none_iff_no_common_pixel b ny nx Hny Hnx Hb1 Hb2).
  unfold cutout. rewrite (rect_shape ny nx data Hd Hny).
  destruct (overlap_slices b (Z.of_nat ny) (Z.of_nat nx)) as [[L S]|]; [|split; reflexivity].
  destruct (shape_eqb _ _); split; discriminate.
Qed.
End MaskMethods.

(* ====================================================================== *)
(* 12. covariance: integer translation and axis transposition (used by C03) *)
(* ====================================================================== *)
Definition shift_box (dy dx : Z) (b : bbox) : bbox :=
  mkbox (ixmin b + dx) (ixmax b + dx) (iymin b + dy) (iymax b + dy).

(* [big] contains [small] at offset (dy, dx) *)
Definition embeds {A} (d : A) (dy dx : nat) (ny nx : nat) (small big : img A) : Prop :=
  forall y x, (y < ny)%nat -> (x < nx)%nat -> get d big (dy + y) (dx + x) = get d small y x.
Definition embeds_opt {A} (d : A) dy dx ny nx (small big : option (img A)) : Prop :=
  match small, big with
  | None, None => True
  | Some s, Some g => embeds d dy dx ny nx s g
  | _, _ => False
  end.

Lemma crop_embedded {A} (d : A) dy dx ny nx ny' nx' (small big : img A) (b : bbox) :
  rect ny nx small -> rect ny' nx' big -> embeds d dy dx ny nx small big ->
  (dy + ny <= ny')%nat -> (dx + nx <= nx')%nat ->
  0 <= iymin b <= iymax b -> iymax b <= Z.of_nat ny -> 0 <= ixmin b <= ixmax b -> ixmax b <= Z.of_nat nx ->
  crop ((iymin b + Z.of_nat dy, iymax b + Z.of_nat dy), (ixmin b + Z.of_nat dx, ixmax b + Z.of_nat dx)) big =
  crop ((iymin b, iymax b), (ixmin b, ixmax b)) small.
Proof.
  intros Hs Hg He Hy Hx Hby Hby1 Hbx Hbx1.
  rewrite (crop_tab d ny' nx' big) by (try exact Hg; lia).
  rewrite (crop_tab d ny nx small) by (try exact Hs; lia).
  replace (iymax b + Z.of_nat dy - (iymin b + Z.of_nat dy)) with (iymax b - iymin b) by lia.
  replace (ixmax b + Z.of_nat dx - (ixmin b + Z.of_nat dx)) with (ixmax b - ixmin b) by lia.
  apply tab_ext. intros i j Hi Hj.
  replace (Z.to_nat (iymin b + Z.of_nat dy) + i)%nat with (dy + (Z.to_nat (iymin b) + i))%nat by lia.
  replace (Z.to_nat (ixmin b + Z.of_nat dx) + j)%nat with (dx + (Z.to_nat (ixmin b) + j))%nat by lia.
  apply He; lia.
Qed.

(* a box inside the original frame: embedding the image in a larger canvas and translating the
   box by the same integer offset leaves sum and variance unchanged *)
Theorem photometry_shift b W (dy dx ny nx ny' nx' : nat) (data data' : img val) (err err' : option (img val))
        (mask mask' : option (img bool)) :
  (0 < ny)%nat -> (0 < nx)%nat ->
  0 <= iymin b < iymax b -> iymax b <= Z.of_nat ny -> 0 <= ixmin b < ixmax b -> ixmax b <= Z.of_nat nx ->
  (dy + ny <= ny')%nat -> (dx + nx <= nx')%nat ->
  rect ny nx data -> rect ny' nx' data' -> embeds None dy dx ny nx data data' ->
  err_rect ny nx err -> err_rect ny' nx' err' -> embeds_opt None dy dx ny nx err err' ->
  mask_rect ny nx mask -> mask_rect ny' nx' mask' -> embeds_opt false dy dx ny nx mask mask' ->
  photometry_one (shift_box (Z.of_nat dy) (Z.of_nat dx) b) W data' err' mask' =
  photometry_one b W data err mask.
Proof.
  intros Hny Hnx Hby Hby1 Hbx Hbx1 Hy Hx Hd Hd' Hed He He' Hee Hm Hm' Hem.
  unfold photometry_one.
  rewrite (rect_shape ny nx data Hd Hny), (rect_shape ny' nx' data' Hd') by lia.
  assert (E1 : forall n m (e : option (img val)), (0 < n)%nat -> err_rect n m e ->
             match e with None => true | Some e0 => shape_eqb (shape e0) (Z.of_nat n, Z.of_nat m) end = true).
  { intros n m [e0|] Hn Hr; [|reflexivity]. rewrite (rect_shape n m e0 Hr Hn). apply shape_eqb_refl. }
  rewrite (E1 ny nx err Hny He), (E1 ny' nx' err') by (try exact He'; lia). cbn [negb].
  assert (E2 : forall n m (d0 : img val) (mk : option (img bool)), (0 < n)%nat -> rect n m d0 -> mask_rect n m mk ->
             mask_shape_ok d0 mk = true).
  { intros n m d0 [m0|] Hn Hr Hmr; [|reflexivity]. unfold mask_shape_ok.
    rewrite (rect_shape n m m0 Hmr Hn), (rect_shape n m d0 Hr Hn). apply shape_eqb_refl. }
  rewrite (E2 ny nx data mask Hny Hd Hm), (E2 ny' nx' data' mask') by (try assumption; lia). cbn [negb].
  unfold get_overlap_cutouts, overlap_slices, shift_box. cbn [ixmin ixmax iymin iymax].
  destruct ((ixmin b >=? Z.of_nat nx) || (iymin b >=? Z.of_nat ny) || (ixmax b <=? 0) || (iymax b <=? 0) ||
            (Z.of_nat ny <=? 0) || (Z.of_nat nx <=? 0)) eqn:C1.
  { exfalso. repeat (apply orb_true_iff in C1; destruct C1 as [C1|C1]); lia. }
  destruct ((ixmin b + Z.of_nat dx >=? Z.of_nat nx') || (iymin b + Z.of_nat dy >=? Z.of_nat ny') ||
            (ixmax b + Z.of_nat dx <=? 0) || (iymax b + Z.of_nat dy <=? 0) ||
            (Z.of_nat ny' <=? 0) || (Z.of_nat nx' <=? 0)) eqn:C2.
  { exfalso. repeat (apply orb_true_iff in C2; destruct C2 as [C2|C2]); lia. }
  - repeat (apply orb_false_iff in C1; destruct C1 as [C1 ?]).
    replace (Z.max (iymin b) 0) with (iymin b) by lia. replace (Z.min (iymax b) (Z.of_nat ny)) with (iymax b) by lia.
    replace (Z.max (ixmin b) 0) with (ixmin b) by lia. replace (Z.min (ixmax b) (Z.of_nat nx)) with (ixmax b) by lia.
    replace (Z.max (iymin b + Z.of_nat dy) 0) with (iymin b + Z.of_nat dy) by lia.
    replace (Z.min (iymax b + Z.of_nat dy) (Z.of_nat ny')) with (iymax b + Z.of_nat dy) by lia.
    replace (Z.max (ixmin b + Z.of_nat dx) 0) with (ixmin b + Z.of_nat dx) by lia.
    replace (Z.min (ixmax b + Z.of_nat dx) (Z.of_nat nx')) with (ixmax b + Z.of_nat dx) by lia.
    replace (Z.max (- (iymin b + Z.of_nat dy)) 0) with (Z.max (- iymin b) 0) by lia.
    replace (Z.max (- (ixmin b + Z.of_nat dx)) 0) with (Z.max (- ixmin b) 0) by lia.
    replace (Z.min (iymax b + Z.of_nat dy - (iymin b + Z.of_nat dy)) (Z.of_nat ny' - (iymin b + Z.of_nat dy)))
      with (Z.min (iymax b - iymin b) (Z.of_nat ny - iymin b)) by lia.
    replace (Z.min (ixmax b + Z.of_nat dx - (ixmin b + Z.of_nat dx)) (Z.of_nat nx' - (ixmin b + Z.of_nat dx)))
      with (Z.min (ixmax b - ixmin b) (Z.of_nat nx - ixmin b)) by lia.
    rewrite (@crop_embedded val None dy dx ny nx ny' nx' data data' b) by (try assumption; lia).
    assert (Hpm : match mask' with
                  | None => map (map (fun w => 0 <? w)) (crop (Z.max (- iymin b) 0, Z.min (iymax b - iymin b) (Z.of_nat ny - iymin b),
                                                              (Z.max (- ixmin b) 0, Z.min (ixmax b - ixmin b) (Z.of_nat nx - ixmin b))) W)
                  | Some m => map2d andb (map (map (fun w => 0 <? w)) (crop (Z.max (- iymin b) 0, Z.min (iymax b - iymin b) (Z.of_nat ny - iymin b),
                                                              (Z.max (- ixmin b) 0, Z.min (ixmax b - ixmin b) (Z.of_nat nx - ixmin b))) W))
                                   (map (map negb) (crop (iymin b + Z.of_nat dy, iymax b + Z.of_nat dy, (ixmin b + Z.of_nat dx, ixmax b + Z.of_nat dx)) m))
                  end =
                  match mask with
                  | None => map (map (fun w => 0 <? w)) (crop (Z.max (- iymin b) 0, Z.min (iymax b - iymin b) (Z.of_nat ny - iymin b),
                                                              (Z.max (- ixmin b) 0, Z.min (ixmax b - ixmin b) (Z.of_nat nx - ixmin b))) W)
                  | Some m => map2d andb (map (map (fun w => 0 <? w)) (crop (Z.max (- iymin b) 0, Z.min (iymax b - iymin b) (Z.of_nat ny - iymin b),
                                                              (Z.max (- ixmin b) 0, Z.min (ixmax b - ixmin b) (Z.of_nat nx - ixmin b))) W))
                                   (map (map negb) (crop (iymin b, iymax b, (ixmin b, ixmax b)) m))
                  end).
    { destruct mask as [m|], mask' as [m'|]; cbn in Hem; try contradiction; [|reflexivity].
      rewrite (@crop_embedded bool false dy dx ny nx ny' nx' m m' b) by (try assumption; lia). reflexivity. }
    rewrite Hpm. f_equal.
    destruct err as [e|], err' as [e'|]; cbn in Hee; try contradiction; [|reflexivity].
    rewrite (@crop_embedded val None dy dx ny nx ny' nx' e e' b) by (try assumption; lia). reflexivity.
Qed.

(* ---------- transposition ---------- *)
Definition transposed {A} (d : A) (ny nx : nat) (a aT : img A) : Prop :=
  forall y x, (y < ny)%nat -> (x < nx)%nat -> get d aT x y = get d a y x.
Definition transposed_opt {A} (d : A) ny nx (a aT : option (img A)) : Prop :=
  match a, aT with
  | None, None => True
  | Some a, Some aT => transposed d ny nx a aT
  | _, _ => False
  end.
Definition swap_box (b : bbox) : bbox := mkbox (iymin b) (iymax b) (ixmin b) (ixmax b).
Definition swap (p : pix) : pix := (snd p, fst p).

Lemma overlap_none_swap b ny nx :
  overlap_slices (swap_box b) nx ny = None <-> overlap_slices b ny nx = None.
Proof. rewrite !overlap_slices_none. unfold swap_box. cbn. lia. Qed.

Section Transpose.
Variables (b : bbox) (W WT : img Z) (ny nx : nat) (mask maskT : option (img bool)).
Hypothesis HWT : transposed 0 (Z.to_nat (bh b)) (Z.to_nat (bw b)) W WT.
Hypothesis HmT : transposed_opt false ny nx mask maskT.

Lemma weight_swap x y : in_box (swap_box b) (x, y) = true ->
  weight_at (swap_box b) WT (x, y) = weight_at b W (y, x).
Proof.
  intros Hb. unfold in_box, swap_box in Hb. cbn [ixmin ixmax iymin iymax fst snd] in Hb.
  unfold weight_at, swap_box. cbn [ixmin ixmax iymin iymax fst snd].
  apply HWT; unfold bh, bw; lia.
Qed.

Lemma masked_swap x y : (x < nx)%nat -> (y < ny)%nat -> masked maskT (x, y) = masked mask (y, x).
Proof.
  intros Hx Hy. unfold masked. cbn [fst snd].
  destruct mask as [m|], maskT as [mT|]; cbn in HmT; try contradiction; [|reflexivity].
  apply HmT; assumption.
Qed.

Lemma pixel_set_swap x y :
  In (x, y) (pixel_set (swap_box b) WT maskT nx ny) <-> In (y, x) (pixel_set b W mask ny nx).
Proof.
  rewrite !pixel_set_spec. cbn [fst snd].
  unfold swap_box at 1 2 3 4. cbn [ixmin ixmax iymin iymax].
  split.
  - intros (H1 & H2 & H3 & H4 & H5 & H6).
    assert (Hb : in_box (swap_box b) (x, y) = true).
    { unfold in_box, swap_box. cbn [ixmin ixmax iymin iymax fst snd]. lia. }
    rewrite <- (weight_swap x y Hb), <- (masked_swap x y H1 H2). repeat split; try assumption; lia.
  - intros (H1 & H2 & H3 & H4 & H5 & H6).
    assert (Hb : in_box (swap_box b) (x, y) = true).
    { unfold in_box, swap_box. cbn [ixmin ixmax iymin iymax fst snd]. lia. }
    rewrite (weight_swap x y Hb), (masked_swap x y H2 H1). repeat split; try assumption; lia.
Qed.

Lemma set_sum_swap (t tT : pix -> val) :
  (forall p, In p (pixel_set (swap_box b) WT maskT nx ny) -> tT p = t (swap p)) ->
  osum (map tT (pixel_set (swap_box b) WT maskT nx ny)) = osum (map t (pixel_set b W mask ny nx)).
Proof.
  intros Ht. rewrite (map_ext_in tT (fun p => t (swap p)) _ Ht), <- (map_map swap t).
  apply set_sum_any_order.
  - apply FinFun.Injective_map_NoDup; [|apply NoDup_pixel_set].
    intros [a1 a2] [c1 c2] H. unfold swap in H. cbn in H. congruence.
  - intros p. rewrite in_map_iff. split.
    + intros ([qx qy] & <- & Hq). apply pixel_set_swap. exact Hq.
    + intros Hp. destruct p as [py px]. exists (px, py). split; [reflexivity|].
      apply pixel_set_swap. exact Hp.
Qed.
End Transpose.

Theorem photometry_transpose b W WT ny nx (data dataT : img val) (err errT : option (img val))
        (mask maskT : option (img bool)) :
  (0 < ny)%nat -> (0 < nx)%nat -> wf_mask b W ->
  rect (Z.to_nat (bw b)) (Z.to_nat (bh b)) WT -> transposed 0 (Z.to_nat (bh b)) (Z.to_nat (bw b)) W WT ->
  rect ny nx data -> rect nx ny dataT -> transposed None ny nx data dataT ->
  err_rect ny nx err -> err_rect nx ny errT -> transposed_opt None ny nx err errT ->
  mask_rect ny nx mask -> mask_rect nx ny maskT -> transposed_opt false ny nx mask maskT ->
  phot_sum (photometry_one (swap_box b) WT dataT errT maskT) = phot_sum (photometry_one b W data err mask) /\
  phot_var (photometry_one (swap_box b) WT dataT errT maskT) = phot_var (photometry_one b W data err mask).
Proof.
  intros Hny Hnx Hwf HWTr HWT Hd HdT HdTr He HeT HeTr Hm HmT HmTr.
  assert (HwfT : wf_mask (swap_box b) WT).
  { destruct Hwf as (H1 & H2 & _). unfold wf_mask.
    split; [cbn; lia|]. split; [cbn; lia|]. exact HWTr. }
  rewrite (photometry_one_spec (swap_box b) WT nx ny Hnx HwfT dataT errT maskT HdT HeT HmT).
  rewrite (photometry_one_spec b W ny nx Hny Hwf data err mask Hd He Hm).
  pose proof (overlap_none_swap b (Z.of_nat ny) (Z.of_nat nx)) as Hov.
  destruct (overlap_slices (swap_box b) (Z.of_nat nx) (Z.of_nat ny)) eqn:E1;
    destruct (overlap_slices b (Z.of_nat ny) (Z.of_nat nx)) eqn:E2;
    try (destruct Hov as [Ha Hb]; (specialize (Ha eq_refl) || specialize (Hb eq_refl)); discriminate).
  2:{ split; reflexivity. }
  cbn [phot_sum phot_var]. split.
  - apply (set_sum_swap b W WT ny nx mask maskT HWT HmTr).
    intros [px py] Hp. apply pixel_set_spec in Hp. cbn [fst snd] in Hp. destruct Hp as (H1 & H2 & H3 & H4 & _).
    unfold term, swap. cbn [fst snd]. f_equal.
    + unfold data_at. cbn [fst snd]. apply HdTr; assumption.
    + apply (weight_swap b W WT HWT). unfold in_box. cbn [fst snd]. lia.
  - destruct err as [e|], errT as [eT|]; cbn in HeTr; try contradiction; [|reflexivity].
    apply (set_sum_swap b W WT ny nx mask maskT HWT HmTr).
    intros [px py] Hp. apply pixel_set_spec in Hp. cbn [fst snd] in Hp. destruct Hp as (H1 & H2 & H3 & H4 & _).
    unfold vterm, swap. cbn [fst snd]. f_equal.
    + f_equal. unfold data_at. cbn [fst snd]. apply HeTr; assumption.
    + apply (weight_swap b W WT HWT). unfold in_box. cbn [fst snd]. lia.
Qed.
