(* C01 — aperture masks are the true pixel-overlap fractions of the shape.
   Property theorems only; each is closed by [exact] of a lemma of C01_Proofs.

   Notation.  Real scalars are rationals (every double is one).  A box [b] holds the pixels
   (y, x) with iymin <= y < iymax, ixmin <= x < ixmax ([in_box]); pixel i spans [i-1/2, i+1/2].
   [inside sh x y] is the strict test in the innermost loop of the _overlap_single_subpixel kernels
   for a shape centred on the origin (c, s = the float cos/sin of theta, arbitrary rationals).
   [single_subpixel] is the kernel loop as written (accumulating x += dx, y += dy); [cell] /
   [overlap_grid] are the _overlap_grid drivers with their bounding-box, "well within" and "fully
   outside" fast paths; [mask_counts] is MaskMixin.to_mask for one shape, in units of 1/subpixels^2;
   [subpix_count], [pixel_count], [cnt_diff] count sub-pixel centres by definition.

   NOT covered by a theorem (partial clause, tested in harness/c01.py only): that the 'exact' kernels of
   circles and ellipses (sqrt/asin arithmetic) return the true area fraction. *)
From Coq Require Import ZArith QArith Qround Qabs Qminmax List Bool.
From PV Require Import lib.Cases C01_Model C01_Proofs.
Import ListNotations.
Open Scope Q_scope.

(* ---- 1. BoundingBox.from_float is the smallest integer pixel box containing the float rectangle ---- *)
Theorem from_float_minimal : forall xmin xmax ymin ymax,
  let b := from_float xmin xmax ymin ymax in
  (inject_Z (ixmin b) - half <= xmin /\ xmax <= inject_Z (ixmax b) - half /\
   inject_Z (iymin b) - half <= ymin /\ ymax <= inject_Z (iymax b) - half) /\
  (forall a0 a1 c0 c1 : Z,
     inject_Z a0 - half <= xmin -> xmax <= inject_Z a1 - half ->
     inject_Z c0 - half <= ymin -> ymax <= inject_Z c1 - half ->
     (a0 <= ixmin b /\ ixmax b <= a1 /\ c0 <= iymin b /\ iymax b <= c1)%Z).
Proof. exact from_float_smallest. Qed.
Print Assumptions from_float_minimal.

(* integer translation of the rectangle translates the box (used by C03) *)
Theorem from_float_integer_shift : forall xmin xmax ymin ymax (kx ky : Z),
  from_float (xmin + inject_Z kx) (xmax + inject_Z kx) (ymin + inject_Z ky) (ymax + inject_Z ky)
  = let b := from_float xmin xmax ymin ymax in
    mkbox (ixmin b + kx) (ixmax b + kx) (iymin b + ky) (iymax b + ky).
Proof. exact from_float_shift. Qed.
Print Assumptions from_float_integer_shift.

(* a rectangle of positive extent never gives an empty box (so apertures never do) *)
Theorem from_float_nonempty_box : forall xmin xmax ymin ymax,
  xmin < xmax -> ymin < ymax ->
  let b := from_float xmin xmax ymin ymax in (ixmin b < ixmax b /\ iymin b < iymax b)%Z.
Proof. exact from_float_nonempty. Qed.
Print Assumptions from_float_nonempty_box.

(* ---- 2. get_overlap_slices (with fixes/C01-1 applied: zero-size images give None) ---- *)
(* None iff box and image share no pixel: every non-empty box, EVERY image shape in Z x Z *)
Theorem overlap_slices_none_iff : forall (b : box) (ny nx : Z),
  (ixmin b < ixmax b)%Z -> (iymin b < iymax b)%Z ->
  (overlap_slices b ny nx = None <-> forall y x, ~ (in_box b y x /\ in_img ny nx y x)).
Proof. exact overlap_none. Qed.
Print Assumptions overlap_slices_none_iff.

(* otherwise slices_large enumerates exactly the common pixels, slices_small is the same pixel set
   minus the box origin, both stay inside the arrays they index, and they are non-empty for a
   non-empty box (any box, any shape) *)
Theorem overlap_slices_exact : forall (b : box) ny nx ly0 ly1 lx0 lx1 sy0 sy1 sx0 sx1,
  overlap_slices b ny nx = Some (((ly0, ly1), (lx0, lx1)), ((sy0, sy1), (sx0, sx1))) ->
  ((forall y x, (ly0 <= y < ly1 /\ lx0 <= x < lx1) <-> (in_box b y x /\ in_img ny nx y x)) /\
   sy0 = ly0 - iymin b /\ sy1 = ly1 - iymin b /\ sx0 = lx0 - ixmin b /\ sx1 = lx1 - ixmin b /\
   0 <= ly0 /\ ly1 <= ny /\ 0 <= lx0 /\ lx1 <= nx /\
   0 <= sy0 /\ sy1 <= iymax b - iymin b /\ 0 <= sx0 /\ sx1 <= ixmax b - ixmin b /\
   (ixmin b < ixmax b -> iymin b < iymax b -> ly0 < ly1 /\ lx0 < lx1))%Z.
Proof. exact overlap_some. Qed.
Print Assumptions overlap_slices_exact.

(* the empty box (constructible directly, never from an aperture): whatever is returned selects no pixel *)
Theorem overlap_slices_empty_box : forall (b : box) ny nx ly0 ly1 lx0 lx1 s,
  (ixmin b = ixmax b \/ iymin b = iymax b)%Z ->
  overlap_slices b ny nx = Some (((ly0, ly1), (lx0, lx1)), s) ->
  forall y x, ~ (ly0 <= y < ly1 /\ lx0 <= x < lx1)%Z.
Proof. exact overlap_empty_box. Qed.
Print Assumptions overlap_slices_empty_box.

(* ---- 3. union / intersection ---- *)
Theorem union_is_smallest_box : forall a b,
  let u := box_union a b in
  (forall y x, in_box a y x \/ in_box b y x -> in_box u y x) /\
  (forall c, (ixmin a < ixmax a -> iymin a < iymax a -> ixmin b < ixmax b -> iymin b < iymax b ->
     (forall y x, in_box a y x \/ in_box b y x -> in_box c y x) ->
     ixmin c <= ixmin u /\ ixmax u <= ixmax c /\ iymin c <= iymin u /\ iymax u <= iymax c)%Z).
Proof. exact union_smallest. Qed.
Print Assumptions union_is_smallest_box.

Theorem intersection_is_common_pixels : forall a b,
  match box_inter a b with
  | Some i => forall y x, in_box i y x <-> (in_box a y x /\ in_box b y x)
  | None => forall y x, ~ (in_box a y x /\ in_box b y x)
  end.
Proof. exact intersection_exact. Qed.
Print Assumptions intersection_is_common_pixels.

(* ---- 4. the grid handed to the kernels has unit pixels aligned with the image pixels ---- *)
Theorem centered_edges_unit_pixels : forall b px py,
  (ixmin b < ixmax b)%Z -> (iymin b < iymax b)%Z ->
  let '(xmin, xmax, ymin, ymax) := centered_edges b px py in
  (xmax - xmin) / inject_Z (ixmax b - ixmin b) == 1 /\
  (ymax - ymin) / inject_Z (iymax b - iymin b) == 1 /\
  xmin == inject_Z (ixmin b) - half - px /\ ymin == inject_Z (iymin b) - half - py.
Proof. exact centered_edges_unit. Qed.
Print Assumptions centered_edges_unit_pixels.

(* ---- 5. the sub-pixel loops count exactly the sub-pixel centres strictly inside the shape ---- *)
(* all three kernels, any pixel rectangle, any subpixels, any (c, s) *)
Theorem subpixel_is_centre_fraction : forall sh x0 y0 x1 y1 s,
  single_subpixel sh x0 y0 x1 y1 s = subpix_count sh x0 y0 x1 y1 s.
Proof. exact single_subpixel_is_count. Qed.
Print Assumptions subpixel_is_centre_fraction.

(* the centres are the points x0 + (i+1/2)(x1-x0)/s, y0 + (j+1/2)(y1-y0)/s, 0 <= i, j < s *)
Theorem sub_centres_are_the_cell_centres : forall x0 y0 x1 y1 s p,
  In p (sub_centres x0 y0 x1 y1 s) <->
  exists i j, (i < Z.to_nat s)%nat /\ (j < Z.to_nat s)%nat /\
              p = (sub_coord x0 x1 s i, sub_coord y0 y1 s j).
Proof. exact in_sub_centres. Qed.
Print Assumptions sub_centres_are_the_cell_centres.

(* hence 0 <= weight <= 1 *)
Theorem subpixel_weight_in_unit_interval : forall sh x0 y0 x1 y1 s,
  (0 <= s -> 0 <= subpix_count sh x0 y0 x1 y1 s <= s * s)%Z.
Proof. exact subpix_count_range. Qed.
Print Assumptions subpixel_weight_in_unit_interval.

(* 'center' is 'subpixel' with subpixels = 1 (whatever subpixels was passed), i.e. the pixel-centre test *)
Theorem center_is_subpixel_one : forall s rect, translate_mode 0 s rect = translate_mode 1 1 rect.
Proof. exact center_is_subpixel_1_any. Qed.
Print Assumptions center_is_subpixel_one.
Theorem subpixel_one_is_centre_test : forall sh x0 y0 x1 y1,
  subpix_count sh x0 y0 x1 y1 1 =
  if inside sh (x0 + (x1 - x0) / 2) (y0 + (y1 - y0) / 2) then 1%Z else 0%Z.
Proof. exact subpix_count_1. Qed.
Print Assumptions subpixel_one_is_centre_test.

(* rectangles: 'exact' is 'subpixel' with subpixels = 32 *)
Theorem rectangle_exact_is_subpixel_32 : forall s, translate_mode 2 s true = translate_mode 1 32 true.
Proof. exact rectangle_exact_is_subpixel_32. Qed.
Print Assumptions rectangle_exact_is_subpixel_32.

(* ---- 6. the drivers' fast paths never change a weight ---- *)
(* circle: skipped by the bounding box / d < r - pixel_radius (weight 1) / d >= r + pixel_radius
   (weight 0), for any pixel_radius >= half the pixel diagonal *)
Theorem circle_grid_fast_paths_sound : forall r pr dx dy pxmin pymin s,
  0 <= r -> 0 <= pr -> dx * dx + dy * dy <= 4 * (pr * pr) -> 0 < dx -> 0 < dy -> (0 <= s)%Z ->
  cell (Circle r) pr dx dy pxmin pymin s
  = subpix_count (Circle r) pxmin pymin (pxmin + dx) (pymin + dy) s.
Proof. exact circ_cell_sound. Qed.
Print Assumptions circle_grid_fast_paths_sound.

(* ellipse: the bounding-circle skip; k = c^2+s^2 is 1 up to float rounding and the hypothesis
   (checked on every correspondence case by [rot_ok]) only needs k >= (R/(R+dx/2))^2 *)
Theorem ellipse_grid_skip_sound : forall a b c s_ pr dx dy pxmin pymin s,
  0 < a -> 0 < b -> 0 < dx -> 0 < dy ->
  Qmax a b * Qmax a b <= (c * c + s_ * s_) * ((Qmax a b + half * dx) * (Qmax a b + half * dx)) ->
  Qmax a b * Qmax a b <= (c * c + s_ * s_) * ((Qmax a b + half * dy) * (Qmax a b + half * dy)) ->
  cell (Ellipse a b c s_) pr dx dy pxmin pymin s
  = subpix_count (Ellipse a b c s_) pxmin pymin (pxmin + dx) (pymin + dy) s.
Proof. exact ell_cell_sound. Qed.
Print Assumptions ellipse_grid_skip_sound.

(* ---- 7. to_mask(center / subpixel): entry [j][i] is the number of sub-pixel centres of image pixel
        (iymin+j, ixmin+i) strictly inside the shape centred on (px, py) ---- *)
Theorem mask_is_centre_fraction : forall sh b px py s j i,
  rot_ok sh = true -> (0 < s)%Z ->
  (j < Z.to_nat (iymax b - iymin b))%nat -> (i < Z.to_nat (ixmax b - ixmin b))%nat ->
  nth i (nth j (mask_counts sh b px py s) []) 0%Z
  = pixel_count sh px py s (iymin b + Z.of_nat j) (ixmin b + Z.of_nat i).
Proof. exact mask_is_centre_fraction. Qed.
Print Assumptions mask_is_centre_fraction.

Theorem mask_has_bbox_shape : forall sh b px py s,
  length (mask_counts sh b px py s) = Z.to_nat (iymax b - iymin b) /\
  forall row, In row (mask_counts sh b px py s) -> length row = Z.to_nat (ixmax b - ixmin b).
Proof. exact mask_counts_dims. Qed.
Print Assumptions mask_has_bbox_shape.

(* ---- 8. annuli: outer minus inner is the centre fraction of outer \ inner and stays in [0,1] ---- *)
Theorem annulus_inner_contained_in_outer : forall o i,
  annulus_params o i -> forall x y, inside i x y = true -> inside o x y = true.
Proof. exact annulus_contained. Qed.
Print Assumptions annulus_inner_contained_in_outer.

Theorem annulus_is_difference : forall o i b px py s j k,
  annulus_params o i -> rot_ok o = true -> rot_ok i = true -> (0 < s)%Z ->
  (j < Z.to_nat (iymax b - iymin b))%nat -> (k < Z.to_nat (ixmax b - ixmin b))%nat ->
  let e := nth k (nth j (img_sub (mask_counts o b px py s) (mask_counts i b px py s)) []) 0%Z in
  e = cnt_diff o i (pixel_centres px py s (iymin b + Z.of_nat j) (ixmin b + Z.of_nat k)) /\
  (0 <= e <= s * s)%Z.
Proof. exact annulus_mask_entry. Qed.
Print Assumptions annulus_is_difference.

(* ---- 9. the bounding box contains the shape (and is the smallest such box by theorem 1) ---- *)
(* every point of the shape is within the exact extents ... *)
Theorem shape_within_extents : forall sh x y, unit_rot sh -> inside sh x y = true ->
  x * x <= fst (extents_sq sh) /\ y * y <= snd (extents_sq sh).
Proof. exact shape_within_extents. Qed.
Print Assumptions shape_within_extents.
(* ... hence inside the box computed from any extents (ex, ey) that dominate them *)
Theorem bbox_contains_shape : forall sh px py ex ey X Y,
  unit_rot sh -> 0 <= ex -> 0 <= ey ->
  fst (extents_sq sh) <= ex * ex -> snd (extents_sq sh) <= ey * ey ->
  inside sh (X - px) (Y - py) = true ->
  let b := from_float (px - ex) (px + ex) (py - ey) (py + ey) in
  inject_Z (ixmin b) - half <= X <= inject_Z (ixmax b) - half /\
  inject_Z (iymin b) - half <= Y <= inject_Z (iymax b) - half.
Proof. exact bbox_contains_shape. Qed.
Print Assumptions bbox_contains_shape.
(* ... and for circles the box is the smallest one containing the open disc *)
Theorem circle_bbox_partial_minimal : forall r px py (a0 a1 c0 c1 : Z),
  0 < r ->
  (forall X Y, inside (Circle r) (X - px) (Y - py) = true ->
     inject_Z a0 - half <= X <= inject_Z a1 - half /\ inject_Z c0 - half <= Y <= inject_Z c1 - half) ->
  let b := from_float (px - r) (px + r) (py - r) (py + r) in
  (a0 <= ixmin b /\ ixmax b <= a1 /\ c0 <= iymin b /\ iymax b <= c1)%Z.
Proof. exact circle_bbox_minimal. Qed.
Print Assumptions circle_bbox_partial_minimal.

(* ---- examples: the hypotheses are satisfiable, the statements are not vacuous ---- *)
Example ex_from_float : from_float (14 # 10) (104 # 10) (16 # 10) (106 # 10) = mkbox 1 11 2 12.
Proof. vm_compute. reflexivity. Qed.
Example ex_from_float_edges : from_float (1 # 2) (3 # 2) (-1 # 2) (1 # 2) = mkbox 1 2 0 1.
Proof. vm_compute. reflexivity. Qed.
Example ex_overlap_straddle : overlap_slices (mkbox (-1) 2 3 6) 5 4 = Some (((3, 5), (0, 2)), ((0, 2), (1, 3)))%Z.
Proof. vm_compute. reflexivity. Qed.
Example ex_overlap_none : overlap_slices (mkbox 4 6 0 2) 5 4 = None.
Proof. vm_compute. reflexivity. Qed.
Example ex_overlap_zero_size : overlap_slices (mkbox 0 3 (-1) 2) 0 5 = None.
Proof. vm_compute. reflexivity. Qed.
Example ex_rot_ok_circle : rot_ok (Circle (3 # 2)) = true.
Proof. vm_compute. reflexivity. Qed.
(* float cos/sin of pi/4: c = s = 0.7071067811865476 *)
Example ex_rot_ok_ellipse :
  rot_ok (Ellipse 3 (1 # 2) (6369051672525773 # 9007199254740992) (6369051672525773 # 9007199254740992)) = true.
Proof. vm_compute. reflexivity. Qed.
Example ex_unit_rot : unit_rot (Ellipse 2 1 (3 # 5) (4 # 5)) /\ unit_rot (Rect 2 1 (3 # 5) (4 # 5)).
Proof. cbn. repeat split; try reflexivity; unfold Qlt, Qle, Qeq; vm_compute; (reflexivity || discriminate). Qed.
Example ex_annulus_params : annulus_params (Ellipse 4 2 (3 # 5) (4 # 5)) (Ellipse 2 1 (3 # 5) (4 # 5)).
Proof. cbn. repeat split; try reflexivity; unfold Qlt, Qle, Qeq; vm_compute; (reflexivity || discriminate). Qed.
(* circle r = 3/2 at (1/4, 0), subpixels 2: weights/4 *)
Example ex_mask : model_mask (Circle (3 # 2)) None (1 # 4) 0 (3 # 2) (3 # 2) 2
  = (mkbox (-1) 3 (-1) 2, [[1; 4; 3; 0]; [2; 4; 4; 0]; [1; 4; 3; 0]]%Z).
Proof. vm_compute. reflexivity. Qed.
Example ex_annulus : snd (model_mask (Circle (3 # 2)) (Some (Circle (1 # 2))) (1 # 4) 0 (3 # 2) (3 # 2) 2)
  = [[1; 4; 3; 0]; [2; 2; 4; 0]; [1; 4; 3; 0]]%Z.
Proof. vm_compute. reflexivity. Qed.
