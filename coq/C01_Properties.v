From PV Require Import C01_Model C01_Proofs.
