(* C14 — proofs about the model of find_peaks / _find_stars / the catalog filters. *)
From Coq Require Import List Arith ZArith Bool Lia ZifyBool Permutation Sorted.
From PV Require Import lib.Cases C14_Model.
Import ListNotations.
Open Scope Z_scope.

(* ====================================================================== *)
(* generic: somes, minl, maxl                                              *)
(* ====================================================================== *)
Lemma in_somes (l : list (option Z)) w : In w (somes l) <-> In (Some w) l.
Proof.
  unfold somes. rewrite in_flat_map. split.
  - intros [o [Ho Hw]]. destruct o as [v|]; [|destruct Hw].
    destruct Hw as [->|[]]. exact Ho.
  - intros H. exists (Some w). split; [exact H|left; reflexivity].
Qed.

Lemma fold_max_ge (l : list Z) a : a <= fold_left Z.max l a.
Proof.
  revert a; induction l as [|b l IH]; intros a; cbn [fold_left]; [lia|].
  specialize (IH (Z.max a b)). lia.
Qed.
Lemma fold_max_ub (l : list Z) a w : In w l -> w <= fold_left Z.max l a.
Proof.
  revert a; induction l as [|b l IH]; intros a Hin; [destruct Hin|].
  cbn [fold_left]. destruct Hin as [->|Hin]; [|apply IH, Hin].
  pose proof (fold_max_ge l (Z.max a w)). lia.
Qed.
Lemma fold_max_in (l : list Z) a : fold_left Z.max l a = a \/ In (fold_left Z.max l a) l.
Proof.
  revert a; induction l as [|b l IH]; intros a; cbn [fold_left]; [left; reflexivity|].
  destruct (IH (Z.max a b)) as [H|H].
  - rewrite H. destruct (Z.max_spec a b) as [[_ E]|[_ E]]; rewrite E; [right; left; reflexivity|left; reflexivity].
  - right; right; exact H.
Qed.
Lemma maxl_spec (l : list Z) m :
  maxl l = Some m <-> In m l /\ forall w, In w l -> w <= m.
Proof.
  destruct l as [|a r]; cbn [maxl].
  - split; [discriminate|intros [[] _]].
  - split.
    + intros [= <-]. split.
      * destruct (fold_max_in r a) as [H|H]; [left; symmetry; exact H|right; exact H].
      * intros w [<-|Hw]; [apply fold_max_ge|apply fold_max_ub, Hw].
    + intros [Hin Hub]. f_equal. apply Z.le_antisymm.
      * destruct (fold_max_in r a) as [H|H]; [rewrite H; apply Hub; left; reflexivity|apply Hub; right; exact H].
      * destruct Hin as [<-|Hin]; [apply fold_max_ge|apply fold_max_ub, Hin].
Qed.
Lemma maxl_none (l : list Z) : maxl l = None <-> l = [].
Proof. destruct l; cbn; split; congruence. Qed.

Lemma fold_min_le (l : list Z) a : fold_left Z.min l a <= a.
Proof.
  revert a; induction l as [|b l IH]; intros a; cbn [fold_left]; [lia|].
  specialize (IH (Z.min a b)). lia.
Qed.
Lemma fold_min_lb (l : list Z) a w : In w l -> fold_left Z.min l a <= w.
Proof.
  revert a; induction l as [|b l IH]; intros a Hin; [destruct Hin|].
  cbn [fold_left]. destruct Hin as [->|Hin]; [|apply IH, Hin].
  pose proof (fold_min_le l (Z.min a w)). lia.
Qed.
Lemma fold_min_in (l : list Z) a : fold_left Z.min l a = a \/ In (fold_left Z.min l a) l.
Proof.
  revert a; induction l as [|b l IH]; intros a; cbn [fold_left]; [left; reflexivity|].
  destruct (IH (Z.min a b)) as [H|H].
  - rewrite H. destruct (Z.min_spec a b) as [[_ E]|[_ E]]; rewrite E; [left; reflexivity|right; left; reflexivity].
  - right; right; exact H.
Qed.
Lemma minl_spec (l : list Z) m :
  minl l = Some m <-> In m l /\ forall w, In w l -> m <= w.
Proof.
  destruct l as [|a r]; cbn [minl].
  - split; [discriminate|intros [[] _]].
  - split.
    + intros [= <-]. split.
      * destruct (fold_min_in r a) as [H|H]; [left; symmetry; exact H|right; exact H].
      * intros w [<-|Hw]; [apply fold_min_le|apply fold_min_lb, Hw].
    + intros [Hin Hlb]. f_equal. apply Z.le_antisymm.
      * destruct Hin as [<-|Hin]; [apply fold_min_le|apply fold_min_lb, Hin].
      * destruct (fold_min_in r a) as [H|H]; [rewrite H; apply Hlb; left; reflexivity|apply Hlb; right; exact H].
Qed.

(* ====================================================================== *)
(* generic: descending insertion sort and top-N selection                  *)
(* ====================================================================== *)
Section SortFacts.
  Context {A : Type} (key : A -> Z).
  Definition ge_key (a b : A) : Prop := key b <= key a.

  Lemma insert_perm a l : Permutation (insert key a l) (a :: l).
  Proof.
    induction l as [|b r IH]; cbn [insert]; [reflexivity|].
    destruct (key b <=? key a); [reflexivity|].
    rewrite IH. apply perm_swap.
  Qed.
  Lemma isort_perm l : Permutation (isort key l) l.
  Proof.
    induction l as [|a r IH]; cbn; [reflexivity|].
    unfold isort in *. cbn [fold_right]. rewrite insert_perm. constructor. exact IH.
  Qed.
  Lemma insert_sorted a l : StronglySorted ge_key l -> StronglySorted ge_key (insert key a l).
  Proof.
    induction l as [|b r IH]; intros Hs; cbn [insert].
    - constructor; constructor.
    - destruct (key b <=? key a) eqn:E.
      + constructor; [exact Hs|].
        apply StronglySorted_inv in Hs. destruct Hs as [_ Hb].
        constructor; [unfold ge_key; lia|].
        rewrite Forall_forall in *. intros x Hx. specialize (Hb x Hx). unfold ge_key in *. lia.
      + apply StronglySorted_inv in Hs. destruct Hs as [Hr Hb].
        constructor; [apply IH, Hr|].
        rewrite Forall_forall in *. intros x Hx.
        apply (Permutation_in _ (insert_perm a r)) in Hx. destruct Hx as [<-|Hx].
        * unfold ge_key. lia.
        * apply Hb, Hx.
  Qed.
  Lemma isort_sorted l : StronglySorted ge_key (isort key l).
  Proof.
    induction l as [|a r IH]; [constructor|].
    unfold isort in *. cbn [fold_right]. apply insert_sorted, IH.
  Qed.
  Lemma in_skipn' (l : list A) n x : In x (skipn n l) -> In x l.
  Proof.
    revert n; induction l as [|y r IH]; intros n H; [destruct n; exact H|].
    destruct n as [|n]; [exact H|]. right. eapply IH. exact H.
  Qed.
  Lemma in_firstn' (l : list A) n x : In x (firstn n l) -> In x l.
  Proof.
    revert n; induction l as [|y r IH]; intros n H; [destruct n; exact H|].
    destruct n as [|n]; [destruct H|]. destruct H as [->|H]; [left; reflexivity|right; eapply IH; exact H].
  Qed.
  Lemma sorted_firstn_skipn l n a b :
    StronglySorted ge_key l -> In a (firstn n l) -> In b (skipn n l) -> key b <= key a.
  Proof.
    revert n; induction l as [|x r IH]; intros n Hs Ha Hb.
    - destruct n; destruct Ha.
    - destruct n as [|n]; [destruct Ha|].
      apply StronglySorted_inv in Hs. destruct Hs as [Hr Hx].
      cbn [firstn skipn] in *. destruct Ha as [<-|Ha].
      + rewrite Forall_forall in Hx. apply Hx. eapply in_skipn'. exact Hb.
      + eapply IH; eauto.
  Qed.
  Lemma sorted_firstn l n : StronglySorted ge_key l -> StronglySorted ge_key (firstn n l).
  Proof.
    revert n; induction l as [|x r IH]; intros n Hs; [destruct n; constructor|].
    destruct n as [|n]; [constructor|]. cbn [firstn].
    apply StronglySorted_inv in Hs. destruct Hs as [Hr Hx].
    constructor; [apply IH, Hr|].
    rewrite Forall_forall in *. intros y Hy. apply Hx. eapply in_firstn'; exact Hy.
  Qed.

  (* the top-N selection [firstn n (isort l)]: the right number of elements, a sub-multiset of
     the pool, every kept key >= every dropped key, kept in order of decreasing key *)
  Lemma topN_spec l n :
    let kept := firstn n (isort key l) in
    let dropped := skipn n (isort key l) in
    Permutation l (kept ++ dropped) /\
    length kept = Nat.min n (length l) /\
    (forall a b, In a kept -> In b dropped -> key b <= key a) /\
    StronglySorted ge_key kept.
  Proof.
    cbn zeta. split; [|split; [|split]].
    - rewrite firstn_skipn. symmetry. apply isort_perm.
    - rewrite firstn_length. rewrite (Permutation_length (isort_perm l)). reflexivity.
    - intros a b. apply sorted_firstn_skipn, isort_sorted.
    - apply sorted_firstn, isort_sorted.
  Qed.
End SortFacts.

(* ====================================================================== *)
(* find_peaks                                                              *)
(* ====================================================================== *)
Section PeakSpec.
  Variables (ny nx : nat) (data : list (option Z)) (thr : threshold) (fp : list (list bool)).
  Variables (mask : option (list bool)) (border : option (nat * nat)).

  (* q is the raster index of the in-image pixel (row y, column x) *)
  Definition pix_at (y x : Z) (q : nat) : Prop :=
    0 <= y < Z.of_nat ny /\ 0 <= x < Z.of_nat nx /\ q = (Z.to_nat y * nx + Z.to_nat x)%nat.

  (* p lies within the border strip; widths are clamped to the image shape (as_pair) *)
  Definition border_px (p : nat) : Prop :=
    match border with
    | None => False
    | Some (b_y, b_x) =>
        let y := (p / nx)%nat in let x := (p mod nx)%nat in
        (y < Nat.min b_y ny \/ ny - Nat.min b_y ny <= y \/
         x < Nat.min b_x nx \/ nx - Nat.min b_x nx <= x)%nat
    end.

  (* the property's selection predicate (in-image neighbourhood) *)
  Definition peak_spec (p : nat) : Prop :=
    (p < ny * nx)%nat /\
    exists v, dget data p = Some v /\
      masked mask p = false /\ ~ border_px p /\
      (exists t, thr_at thr p = Some t /\ t < v) /\
      (forall dy dx q w, In (dy, dx) (offsets fp) ->
          pix_at (py nx p + dy) (px nx p + dx) q -> dget data q = Some w -> w <= v).

  Lemma pos_of_lt p : (p < ny * nx)%nat -> (0 < nx)%nat /\ (p / nx < ny)%nat /\ (p mod nx < nx)%nat.
  Proof.
    intros H. assert (Hnx : (0 < nx)%nat) by (destruct nx; [lia|lia]).
    split; [exact Hnx|]. split.
    - apply Nat.div_lt_upper_bound; lia.
    - apply Nat.mod_upper_bound. lia.
  Qed.

  Lemma in_border_spec p : (p < ny * nx)%nat -> (in_border ny nx border p = true <-> border_px p).
  Proof.
    intros Hp. destruct (pos_of_lt p Hp) as [Hnx [Hy Hx]].
    unfold in_border, border_px. destruct border as [[b_y b_x]|]; [|split; [discriminate|intros []]].
    cbn zeta. set (y := (p / nx)%nat) in *. set (x := (p mod nx)%nat) in *.
    clearbody y x. lia.
  Qed.

  Lemma pget_in cm fill y x :
    0 <= y < Z.of_nat ny -> 0 <= x < Z.of_nat nx ->
    pget ny nx data cm fill y x = filled data fill (Z.to_nat y * nx + Z.to_nat x)%nat.
  Proof.
    intros Hy Hx. unfold pget.
    destruct ((0 <=? y) && (y <? Z.of_nat ny) && (0 <=? x) && (x <? Z.of_nat nx)) eqn:E; [reflexivity|lia].
  Qed.
  Lemma pget_out cm fill y x :
    ~ (0 <= y < Z.of_nat ny /\ 0 <= x < Z.of_nat nx) -> pget ny nx data cm fill y x = cval cm fill.
  Proof.
    intros H. unfold pget.
    destruct ((0 <=? y) && (y <? Z.of_nat ny) && (0 <=? x) && (x <? Z.of_nat nx)) eqn:E; [lia|reflexivity].
  Qed.
  Lemma pget_centre cm fill p : (p < ny * nx)%nat ->
    pget ny nx data cm fill (py nx p + 0) (px nx p + 0) = filled data fill p.
  Proof.
    intros Hp. destruct (pos_of_lt p Hp) as [Hnx [Hy Hx]]. unfold py, px.
    rewrite pget_in by lia. f_equal.
    rewrite !Z.add_0_r, !Nat2Z.id. pose proof (Nat.div_mod p nx). lia.
  Qed.

  Lemma dget_in p v : dget data p = Some v -> In (Some v) data.
  Proof.
    unfold dget. intros H. destruct (nth_in_or_default p data None) as [Hin|Hd]; [rewrite H in Hin; exact Hin|congruence].
  Qed.
  Lemma fillv_le m v : fillv data = Some m -> In (Some v) data -> m <= v.
  Proof.
    unfold fillv. intros Hm Hin. apply minl_spec in Hm. destruct Hm as [_ Hlb].
    apply Hlb. apply in_somes. exact Hin.
  Qed.

  (* the maximum-filter equality, repaired padding (cval = data minimum): with the centre in
     the footprint the padding and the NaN fill never decide *)
  Lemma eq_max_spec p v :
    (p < ny * nx)%nat -> dget data p = Some v -> In (0, 0) (offsets fp) ->
    (eq_max ny nx data fp true (fillv data) p = true <->
     forall dy dx q w, In (dy, dx) (offsets fp) ->
       pix_at (py nx p + dy) (px nx p + dx) q -> dget data q = Some w -> w <= v).
  Proof.
    intros Hp Hv Hc.
    assert (Hf : filled data (fillv data) p = Some v) by (unfold filled; rewrite Hv; reflexivity).
    unfold eq_max. rewrite Hf. split.
    - intros H dy dx q w Ho [Hy [Hx Hq]] Hw.
      destruct (nbmax ny nx data fp true (fillv data) p) as [m|] eqn:Em; [|discriminate].
      assert (m = v) by lia. subst m.
      unfold nbmax in Em. apply maxl_spec in Em. destruct Em as [_ Hub].
      apply Hub. apply in_somes. unfold nbvals. apply in_map_iff.
      exists (dy, dx). split; [|exact Ho]. cbn [fst snd].
      rewrite pget_in by assumption. rewrite <- Hq. unfold filled. rewrite Hw. reflexivity.
    - intros H.
      assert (Em : nbmax ny nx data fp true (fillv data) p = Some v).
      { unfold nbmax. apply maxl_spec. split.
        - apply in_somes. unfold nbvals. apply in_map_iff. exists (0, 0). split; [|exact Hc].
          cbn [fst snd]. rewrite pget_centre by exact Hp. exact Hf.
        - intros w Hw. apply in_somes in Hw. unfold nbvals in Hw. apply in_map_iff in Hw.
          destruct Hw as [[dy dx] [Hpg Ho]]. cbn [fst snd] in Hpg.
          assert (Hfill : fillv data = Some w -> w <= v).
          { intros Hm. eapply fillv_le; [exact Hm|]. eapply dget_in; exact Hv. }
          destruct (Z_le_dec 0 (py nx p + dy)) as [H1|H1];
          [destruct (Z_lt_dec (py nx p + dy) (Z.of_nat ny)) as [H2|H2];
           [destruct (Z_le_dec 0 (px nx p + dx)) as [H3|H3];
            [destruct (Z_lt_dec (px nx p + dx) (Z.of_nat nx)) as [H4|H4]|]|]|].
          + rewrite pget_in in Hpg by lia. unfold filled in Hpg.
            destruct (dget data (Z.to_nat (py nx p + dy) * nx + Z.to_nat (px nx p + dx))%nat) as [w'|] eqn:Ed.
            * injection Hpg as ->. eapply H; [exact Ho| |exact Ed]. unfold pix_at. repeat split; lia.
            * apply Hfill, Hpg.
          + rewrite pget_out in Hpg by lia. apply Hfill, Hpg.
          + rewrite pget_out in Hpg by lia. apply Hfill, Hpg.
          + rewrite pget_out in Hpg by lia. apply Hfill, Hpg.
          + rewrite pget_out in Hpg by lia. apply Hfill, Hpg. }
      rewrite Em. lia.
  Qed.

  (* the repaired selection mask = the property's predicate *)
  Lemma good_spec p :
    In (0, 0) (offsets fp) ->
    ((p < ny * nx)%nat /\ good ny nx data thr fp mask border true true (fillv data) p = true
     <-> peak_spec p).
  Proof.
    intros Hc. unfold peak_spec, good. split.
    - intros [Hp Hg]. split; [exact Hp|].
      rewrite !andb_true_iff, !negb_true_iff in Hg.
      destruct Hg as [[[[Hm Hmask] Hb] Ht] Hn].
      cbn [andb] in Hn. unfold isnan in Hn.
      destruct (dget data p) as [v|] eqn:Hv; [|discriminate]. exists v. split; [reflexivity|].
      split; [exact Hmask|]. split.
      { intros Hbp. apply in_border_spec in Hbp; [congruence|exact Hp]. }
      split.
      { unfold gt_thr, filled in Ht. rewrite Hv in Ht.
        destruct (thr_at thr p) as [t|]; [|discriminate]. exists t. split; [reflexivity|lia]. }
      apply eq_max_spec; assumption.
    - intros [Hp [v [Hv [Hmask [Hb [[t [Ht Htv]] Hnb]]]]]]. split; [exact Hp|].
      rewrite !andb_true_iff, !negb_true_iff. repeat split.
      + apply (eq_max_spec p v); assumption.
      + exact Hmask.
      + destruct (in_border ny nx border p) eqn:E; [|reflexivity].
        exfalso. apply Hb. apply in_border_spec; assumption.
      + unfold gt_thr, filled. rewrite Hv, Ht. lia.
      + cbn [andb]. unfold isnan. rewrite Hv. reflexivity.
  Qed.

  Lemma cands_spec p :
    In (0, 0) (offsets fp) ->
    (In p (cands ny nx data thr fp mask border true true) <-> peak_spec p).
  Proof.
    intros Hc. unfold cands. cbn zeta. rewrite filter_In, in_seq. rewrite <- good_spec by exact Hc.
    unfold npx. split; intros [H1 H2]; (split; [lia|exact H2]).
  Qed.
End PeakSpec.

(* ---------- the returned table ---------- *)
Lemma filter_seq_sorted (f : nat -> bool) a n : StronglySorted lt (filter f (seq a n)).
Proof.
  revert a; induction n as [|n IH]; intros a; cbn [seq filter]; [constructor|].
  destruct (f a).
  - constructor; [apply IH|]. rewrite Forall_forall. intros x Hx.
    apply filter_In in Hx. destruct Hx as [Hx _]. apply in_seq in Hx. lia.
  - apply IH.
Qed.

Lemma cands_sorted ny nx data thr fp mask border cm nf :
  StronglySorted lt (cands ny nx data thr fp mask border cm nf).
Proof. unfold cands. cbn zeta. apply filter_seq_sorted. Qed.

Lemma prow_val nx data p v :
  dget data p = Some v -> prow nx data (fillv data) p = (px nx p, py nx p, v).
Proof. intros H. unfold prow, pval, filled. rewrite H. reflexivity. Qed.

Lemma is_const_spec data :
  is_const data = true <->
  exists v0, dget data 0 = Some v0 /\ forall o, In o data -> o = Some v0.
Proof.
  unfold is_const. destruct (dget data 0) as [v0|] eqn:E0.
  - rewrite forallb_forall. split.
    + intros H. exists v0. split; [reflexivity|]. intros o Ho. specialize (H o Ho).
      destruct o as [v|]; [|discriminate]. f_equal. lia.
    + intros [v1 [[= <-] H]] o Ho. rewrite (H o Ho). lia.
  - split; [discriminate|]. intros [v0 [H _]]. discriminate.
Qed.

Lemma find_peaks_eq ny nx data thr fp mask border npeaks cm nf :
  find_peaks ny nx data thr fp mask border npeaks cm nf =
  if is_const data then None
  else match cands ny nx data thr fp mask border cm nf with
       | [] => None
       | _ :: _ => Some (map (prow nx data (fillv data))
                          (selected data npeaks (cands ny nx data thr fp mask border cm nf)))
       end.
Proof. unfold find_peaks. cbn zeta. destruct (is_const data); [reflexivity|]. destruct (cands _ _ _ _ _ _ _ _ _); reflexivity. Qed.

(* find_peaks without npeaks: exactly the pixels the property selects, in raster order,
   each row carrying the pixel's own coordinates and value *)
Lemma find_peaks_spec_lemma ny nx data thr fp mask border rows :
  In (0, 0) (offsets fp) ->
  find_peaks ny nx data thr fp mask border None true true = Some rows ->
  exists ps,
    rows = map (prow nx data (fillv data)) ps /\
    StronglySorted lt ps /\
    (forall p, In p ps <-> peak_spec ny nx data thr fp mask border p) /\
    (forall p, In p ps -> exists v, dget data p = Some v /\
                                    prow nx data (fillv data) p = (px nx p, py nx p, v)).
Proof.
  intros Hc H. rewrite find_peaks_eq in H.
  destruct (is_const data); [discriminate|].
  set (cs := cands ny nx data thr fp mask border true true) in *.
  assert (Hcs : forall p, In p cs <-> peak_spec ny nx data thr fp mask border p)
    by (intros p; apply cands_spec; exact Hc).
  destruct cs as [|c0 cs'] eqn:Ecs; [discriminate|]. injection H as <-.
  exists (c0 :: cs'). cbn [selected]. split; [reflexivity|]. split.
  - rewrite <- Ecs. apply cands_sorted.
  - split; [exact Hcs|]. intros p Hp. apply Hcs in Hp.
    destruct Hp as [_ [v [Hv _]]]. exists v. split; [exact Hv|apply prow_val, Hv].
Qed.

(* None iff the image is constant (early exit) or nothing qualifies; any npeaks *)
Lemma find_peaks_none_lemma ny nx data thr fp mask border npeaks :
  In (0, 0) (offsets fp) ->
  (find_peaks ny nx data thr fp mask border npeaks true true = None <->
   is_const data = true \/ forall p, ~ peak_spec ny nx data thr fp mask border p).
Proof.
  intros Hc. rewrite find_peaks_eq.
  pose proof (fun p => cands_spec ny nx data thr fp mask border p Hc) as Hcs.
  destruct (is_const data); [split; [left; reflexivity|reflexivity]|].
  destruct (cands ny nx data thr fp mask border true true) as [|c0 cs'].
  - split; [|reflexivity]. intros _. right. intros p Hp. apply Hcs in Hp. destruct Hp.
  - split; [discriminate|]. intros [H|H]; [discriminate|].
    exfalso. apply (H c0). apply Hcs. left; reflexivity.
Qed.

(* npeaks: the rows kept are npeaks highest of the qualifying pixels *)
Lemma selected_spec data npeaks cs :
  exists dropped,
    Permutation cs (selected data npeaks cs ++ dropped) /\
    length (selected data npeaks cs) =
      match npeaks with Some n => Nat.min n (length cs) | None => length cs end /\
    (forall a b, In a (selected data npeaks cs) -> In b dropped ->
        pval data (fillv data) b <= pval data (fillv data) a).
Proof.
  unfold selected. destruct npeaks as [n|].
  - destruct (n <? length cs)%nat eqn:E.
    + exists (skipn n (isort (pval data (fillv data)) cs)).
      destruct (topN_spec (pval data (fillv data)) cs n) as [H1 [H2 [H3 _]]].
      split; [exact H1|]. split; [exact H2|exact H3].
    + exists []. rewrite app_nil_r. split; [reflexivity|]. split; [lia|]. intros a b _ [].
  - exists []. rewrite app_nil_r. split; [reflexivity|]. split; [reflexivity|]. intros a b _ [].
Qed.

Lemma find_peaks_topN_lemma ny nx data thr fp mask border n rows :
  In (0, 0) (offsets fp) ->
  find_peaks ny nx data thr fp mask border (Some n) true true = Some rows ->
  exists kept dropped,
    rows = map (prow nx data (fillv data)) kept /\
    length kept = Nat.min n (length (kept ++ dropped)) /\
    NoDup (kept ++ dropped) /\
    (forall p, In p (kept ++ dropped) <-> peak_spec ny nx data thr fp mask border p) /\
    (forall a b va vb, In a kept -> In b dropped -> dget data a = Some va -> dget data b = Some vb ->
        vb <= va).
Proof.
  intros Hc H. rewrite find_peaks_eq in H.
  destruct (is_const data); [discriminate|].
  set (cs := cands ny nx data thr fp mask border true true) in *.
  assert (Hcs : forall p, In p cs <-> peak_spec ny nx data thr fp mask border p)
    by (intros p; apply cands_spec; exact Hc).
  assert (Hnd : NoDup cs).
  { subst cs. unfold cands. cbn zeta. apply NoDup_filter, seq_NoDup. }
  destruct (selected_spec data (Some n) cs) as [dropped [Hperm [Hlen Hord]]].
  assert (Hrows : rows = map (prow nx data (fillv data)) (selected data (Some n) cs))
    by (destruct cs; [discriminate|injection H as <-; reflexivity]).
  exists (selected data (Some n) cs), dropped. split; [exact Hrows|]. split.
  - rewrite Hlen. rewrite (Permutation_length Hperm). reflexivity.
  - split; [eapply Permutation_NoDup; [exact Hperm|exact Hnd]|]. split.
    + intros p. rewrite <- Hcs. split; intros Hp.
      * eapply Permutation_in; [symmetry; exact Hperm|exact Hp].
      * eapply Permutation_in; [exact Hperm|exact Hp].
    + intros a b va vb Ha Hb Hva Hvb. specialize (Hord a b Ha Hb).
      unfold pval, filled in Hord. rewrite Hva, Hvb in Hord. exact Hord.
Qed.

(* border_width = 0 (or (0, 0)) is a no-op *)
Lemma in_border_zero ny nx p : in_border ny nx (Some (0, 0)%nat) p = in_border ny nx None p.
Proof. reflexivity. Qed.
Lemma border_zero_lemma ny nx data thr fp mask npeaks cm nf :
  find_peaks ny nx data thr fp mask (Some (0, 0)%nat) npeaks cm nf =
  find_peaks ny nx data thr fp mask None npeaks cm nf.
Proof. reflexivity. Qed.
(* a zero width along one axis excludes nothing along that axis *)
Lemma border_zero_axis_lemma ny nx b p :
  (p < ny * nx)%nat ->
  (border_px ny nx (Some (0%nat, b)) p <-> (p mod nx < Nat.min b nx \/ nx - Nat.min b nx <= p mod nx)%nat) /\
  (border_px ny nx (Some (b, 0%nat)) p <-> (p / nx < Nat.min b ny \/ ny - Nat.min b ny <= p / nx)%nat).
Proof.
  intros Hp. destruct (pos_of_lt ny nx p Hp) as [Hnx [Hy Hx]]. unfold border_px. cbn zeta.
  set (y := (p / nx)%nat) in *. set (x := (p mod nx)%nat) in *. clearbody y x. lia.
Qed.

(* ====================================================================== *)
(* footprints: box_size and the min_separation disk                        *)
(* ====================================================================== *)
(* a footprint tabulated from a function on an N x M grid *)
Definition tab (N M : nat) (g : nat -> nat -> bool) : list (list bool) :=
  map (fun i => map (fun j => g i j) (seq 0 M)) (seq 0 N).

Lemma nth_map_seq {B} (f : nat -> B) n i d : (i < n)%nat -> nth i (map f (seq 0 n)) d = f i.
Proof.
  intros H. rewrite (nth_indep _ d (f 0%nat)) by (rewrite map_length, seq_length; exact H).
  rewrite map_nth. rewrite seq_nth by exact H. reflexivity.
Qed.

Lemma offsets_tab N M g dy dx :
  (0 < N)%nat ->
  (In (dy, dx) (offsets (tab N M g)) <->
   exists i j, (i < N)%nat /\ (j < M)%nat /\ g i j = true /\
               dy = Z.of_nat i - Z.of_nat (N / 2) /\ dx = Z.of_nat j - Z.of_nat (M / 2)).
Proof.
  intros HN. unfold offsets.
  assert (Hfy : length (tab N M g) = N) by (unfold tab; rewrite map_length, seq_length; reflexivity).
  assert (Hfx : length (hd [] (tab N M g)) = M).
  { unfold tab. destruct N as [|N']; [lia|]. cbn [seq map hd]. rewrite map_length, seq_length. reflexivity. }
  rewrite Hfy, Hfx. rewrite in_flat_map. split.
  - intros [i [Hi H]]. apply in_seq in Hi. apply in_flat_map in H. destruct H as [j [Hj H]].
    apply in_seq in Hj. exists i, j.
    unfold tab in H. rewrite (nth_map_seq _ N i []) in H by lia.
    rewrite (nth_map_seq _ M j false) in H by lia.
    destruct (g i j); [|destruct H]. destruct H as [[= <- <-]|[]].
    repeat split; lia.
  - intros [i [j [Hi [Hj [Hg [-> ->]]]]]]. exists i. split; [apply in_seq; lia|].
    apply in_flat_map. exists j. split; [apply in_seq; lia|].
    unfold tab. rewrite (nth_map_seq _ N i []) by lia. rewrite (nth_map_seq _ M j false) by lia.
    rewrite Hg. left; reflexivity.
Qed.

(* box_size = (sy, sx): offsets -(s/2) .. s - 1 - s/2 along each axis (scipy's centre) *)
Lemma box_tab sy sx : box sy sx = tab sy sx (fun _ _ => true).
Proof.
  unfold box, tab.
  assert (H : forall {B} (b : B) n a, repeat b n = map (fun _ => b) (seq a n)).
  { intros B b n; induction n as [|n IH]; intros a; cbn; [reflexivity|]. f_equal. apply IH. }
  rewrite (H _ _ sy 0%nat). apply map_ext. intros _. apply (H _ true sx 0%nat).
Qed.
Lemma offsets_box sy sx dy dx :
  (0 < sy)%nat ->
  (In (dy, dx) (offsets (box sy sx)) <->
   - Z.of_nat (sy / 2) <= dy < Z.of_nat sy - Z.of_nat (sy / 2) /\
   - Z.of_nat (sx / 2) <= dx < Z.of_nat sx - Z.of_nat (sx / 2)).
Proof.
  intros Hs. rewrite box_tab, offsets_tab by exact Hs. split.
  - intros [i [j [Hi [Hj [_ [-> ->]]]]]]. lia.
  - intros [Hy Hx]. exists (Z.to_nat (dy + Z.of_nat (sy / 2))), (Z.to_nat (dx + Z.of_nat (sx / 2))).
    repeat split; lia.
Qed.
Lemma box_has_centre sy sx : (0 < sy)%nat -> (0 < sx)%nat -> In (0, 0) (offsets (box sy sx)).
Proof.
  intros Hy Hx. apply offsets_box; [exact Hy|].
  pose proof (Nat.div_lt sy 2 Hy). pose proof (Nat.div_lt sx 2 Hx). lia.
Qed.

(* the repaired separation footprint: integer offsets within the disk of radius ms4/4 *)
Lemma disk_tab ms4 :
  0 <= ms4 ->
  disk_fp true ms4 =
  let r := ms4 / 4 in let N := Z.to_nat (2 * r + 1) in
  tab N N (fun i j => 16 * ((Z.of_nat j - r) * (Z.of_nat j - r) + (Z.of_nat i - r) * (Z.of_nat i - r))
                      <=? ms4 * ms4).
Proof.
  intros H. unfold disk_fp, tab. cbn zeta. rewrite !map_map. apply map_ext. intros i.
  rewrite map_map. reflexivity.
Qed.
Lemma offsets_disk ms4 dy dx :
  0 <= ms4 ->
  (In (dy, dx) (offsets (disk_fp true ms4)) <-> 16 * (dx * dx + dy * dy) <= ms4 * ms4).
Proof.
  intros H. rewrite disk_tab by exact H. cbn zeta.
  set (r := ms4 / 4). assert (Hr : 0 <= r) by (subst r; apply Z.div_pos; lia).
  assert (Hr4 : 4 * r <= ms4 < 4 * r + 4) by (subst r; pose proof (Z.div_mod ms4 4); pose proof (Z.mod_pos_bound ms4 4); lia).
  set (N := Z.to_nat (2 * r + 1)).
  assert (HN2 : Z.of_nat (N / 2) = r).
  { subst N. replace (Z.to_nat (2 * r + 1)) with (Z.to_nat r * 2 + 1)%nat by lia.
    rewrite Nat.div_add_l by lia. cbn. lia. }
  rewrite offsets_tab by (subst N; lia). rewrite HN2. split.
  - intros [i [j [Hi [Hj [Hg [-> ->]]]]]]. lia.
  - intros Hd.
    assert (Hdy : - r <= dy <= r) by nia.
    assert (Hdx : - r <= dx <= r) by nia.
    exists (Z.to_nat (dy + r)), (Z.to_nat (dx + r)). subst N.
    split; [lia|]. split; [lia|]. split; [|lia].
    rewrite !Z2Nat.id by lia. replace (dx + r - r) with dx by lia. replace (dy + r - r) with dy by lia. lia.
Qed.
Lemma disk_has_centre ms4 : 0 <= ms4 -> In (0, 0) (offsets (disk_fp true ms4)).
Proof. intros H. apply offsets_disk; [exact H|]. nia. Qed.

(* ====================================================================== *)
(* _find_stars: positions, separation                                      *)
(* ====================================================================== *)
Lemma pix_at_self ny nx q : (q < ny * nx)%nat -> pix_at ny nx (py nx q) (px nx q) q.
Proof.
  intros Hq. destruct (pos_of_lt ny nx q Hq) as [Hnx [Hy Hx]]. unfold pix_at, py, px.
  rewrite !Nat2Z.id. pose proof (Nat.div_mod q nx). repeat split; lia.
Qed.

(* two detected peaks that are not farther apart than the separation are exactly tied *)
Lemma separation_or_tie_lemma ny nx conv thr ms4 mask border p q :
  0 <= ms4 ->
  In p (cands ny nx conv thr (disk_fp true ms4) mask border true true) ->
  In q (cands ny nx conv thr (disk_fp true ms4) mask border true true) ->
  16 * ((px nx p - px nx q) * (px nx p - px nx q) + (py nx p - py nx q) * (py nx p - py nx q))
    <= ms4 * ms4 ->
  dget conv p = dget conv q.
Proof.
  intros Hms Hp Hq Hd.
  apply cands_spec in Hp; [|apply disk_has_centre, Hms].
  apply cands_spec in Hq; [|apply disk_has_centre, Hms].
  destruct Hp as [Hpl [vp [Hvp [_ [_ [_ Hnp]]]]]].
  destruct Hq as [Hql [vq [Hvq [_ [_ [_ Hnq]]]]]].
  assert (H1 : vq <= vp).
  { apply (Hnp (py nx q - py nx p) (px nx q - px nx p) q vq).
    - apply offsets_disk; [exact Hms|]. nia.
    - replace (py nx p + (py nx q - py nx p)) with (py nx q) by lia.
      replace (px nx p + (px nx q - px nx p)) with (px nx q) by lia.
      apply pix_at_self, Hql.
    - exact Hvq. }
  assert (H2 : vp <= vq).
  { apply (Hnq (py nx p - py nx q) (px nx p - px nx q) p vp).
    - apply offsets_disk; [exact Hms|]. nia.
    - replace (py nx q + (py nx p - py nx q)) with (py nx p) by lia.
      replace (px nx q + (px nx p - px nx q)) with (px nx p) by lia.
      apply pix_at_self, Hpl.
    - exact Hvp. }
  rewrite Hvp, Hvq. f_equal. lia.
Qed.

Lemma find_stars_positions ny nx conv thr kfp ms4 mask eb pos :
  find_stars ny nx conv thr kfp ms4 mask eb true true true = Some pos ->
  is_const conv = false /\
  pos = map (fun p => (px nx p, py nx p))
            (cands ny nx conv (TScalar thr) (stars_fp kfp ms4 true) mask (stars_border kfp eb) true true) /\
  pos <> [].
Proof.
  unfold find_stars. rewrite find_peaks_eq. destruct (is_const conv); [discriminate|].
  destruct (cands ny nx conv (TScalar thr) (stars_fp kfp ms4 true) mask (stars_border kfp eb) true true)
    as [|c0 cs] eqn:E; [discriminate|].
  intros [= <-]. split; [reflexivity|]. cbn [selected]. split; [|discriminate].
  cbn [map]. f_equal. rewrite ?map_map. apply map_ext. intros p. reflexivity.
Qed.

Lemma find_stars_spec_lemma ny nx conv thr kfp ms4 mask eb pos :
  In (0, 0) (offsets (stars_fp kfp ms4 true)) ->
  find_stars ny nx conv thr kfp ms4 mask eb true true true = Some pos ->
  exists ps,
    pos = map (fun p => (px nx p, py nx p)) ps /\ StronglySorted lt ps /\
    forall p, In p ps <->
      peak_spec ny nx conv (TScalar thr) (stars_fp kfp ms4 true) mask (stars_border kfp eb) p.
Proof.
  intros Hc H. apply find_stars_positions in H. destruct H as [_ [-> _]].
  eexists. split; [reflexivity|]. split; [apply cands_sorted|].
  intros p. apply cands_spec, Hc.
Qed.

Lemma find_stars_none_lemma ny nx conv thr kfp ms4 mask eb :
  In (0, 0) (offsets (stars_fp kfp ms4 true)) ->
  (find_stars ny nx conv thr kfp ms4 mask eb true true true = None <->
   is_const conv = true \/
   forall p, ~ peak_spec ny nx conv (TScalar thr) (stars_fp kfp ms4 true) mask (stars_border kfp eb) p).
Proof.
  intros Hc. unfold find_stars.
  rewrite <- (find_peaks_none_lemma ny nx conv (TScalar thr) _ mask _ None Hc).
  destruct (find_peaks _ _ _ _ _ _ _ _ _ _); split; congruence.
Qed.

(* which footprint: the kernel footprint for min_separation = 0, else the separation disk *)
Lemma stars_fp_zero kfp : stars_fp kfp 0 true = kfp.
Proof. reflexivity. Qed.
Lemma stars_fp_disk kfp ms4 dy dx :
  0 < ms4 ->
  (In (dy, dx) (offsets (stars_fp kfp ms4 true)) <-> 16 * (dx * dx + dy * dy) <= ms4 * ms4).
Proof.
  intros H. unfold stars_fp. destruct (ms4 =? 0) eqn:E; [lia|]. apply offsets_disk. lia.
Qed.
(* exclude_border: (shape - 1) // 2 along each axis *)
Lemma stars_border_spec kfp :
  stars_border kfp true = Some (((length kfp - 1) / 2)%nat, ((length (hd [] kfp) - 1) / 2)%nat) /\
  stars_border kfp false = None.
Proof. split; reflexivity. Qed.

Lemma find_stars_separation_lemma ny nx conv thr kfp ms4 mask eb pos x1 y1 x2 y2 :
  0 < ms4 ->
  find_stars ny nx conv thr kfp ms4 mask eb true true true = Some pos ->
  In (x1, y1) pos -> In (x2, y2) pos ->
  16 * ((x1 - x2) * (x1 - x2) + (y1 - y2) * (y1 - y2)) <= ms4 * ms4 ->
  exists p q, (x1, y1) = (px nx p, py nx p) /\ (x2, y2) = (px nx q, py nx q) /\
              dget conv p = dget conv q.
Proof.
  intros Hms H H1 H2 Hd. apply find_stars_positions in H. destruct H as [_ [-> _]].
  apply in_map_iff in H1. destruct H1 as [p [E1 Hp]].
  apply in_map_iff in H2. destruct H2 as [q [E2 Hq]].
  exists p, q. split; [symmetry; exact E1|]. split; [symmetry; exact E2|].
  injection E1 as <- <-. injection E2 as <- <-.
  unfold stars_fp in Hp, Hq. destruct (ms4 =? 0) eqn:E; [lia|].
  eapply separation_or_tie_lemma; [| exact Hp | exact Hq | exact Hd]. lia.
Qed.

(* xycoords replace peak finding *)
Lemma raw_positions_xy ny nx conv thr kfp ms4 mask eb cm nf itf l :
  raw_positions ny nx conv thr kfp ms4 mask eb cm nf itf (Some l) = Some l.
Proof. reflexivity. Qed.
Lemma raw_positions_none ny nx conv thr kfp ms4 mask eb cm nf itf :
  raw_positions ny nx conv thr kfp ms4 mask eb cm nf itf None =
  find_stars ny nx conv thr kfp ms4 mask eb cm nf itf.
Proof. reflexivity. Qed.

(* ====================================================================== *)
(* the unrepaired code violates the property (witnesses)                   *)
(* ====================================================================== *)
(* cval = 0.0: a negative local maximum next to the frame is lost *)
Lemma zero_padding_refuted_lemma :
  exists ny nx data thr fp p,
    In (0, 0) (offsets fp) /\ peak_spec ny nx data thr fp None None p /\
    find_peaks ny nx data thr fp None None None false true = None.
Proof.
  exists 1%nat, 3%nat, [Some (-2); Some (-1); Some (-2)], (TScalar (Some (-5))), (box 3 3), 1%nat.
  split; [apply box_has_centre; lia|]. split.
  - apply cands_spec; [apply box_has_centre; lia|]. vm_compute. left; reflexivity.
  - vm_compute. reflexivity.
Qed.
(* NaN pixels (replaced by the minimum) are reported as peaks by the unrepaired code *)
Lemma nan_pixel_refuted_lemma :
  exists ny nx data thr fp p,
    dget data p = None /\ In p (cands ny nx data thr fp None None false false) /\
    (forall q, In q (cands ny nx data thr fp None None true true) -> dget data q <> None).
Proof.
  exists 1%nat, 4%nat, [Some 1; None; Some 1; Some 5], (TScalar (Some 0)), (box 3 3), 1%nat.
  split; [reflexivity|]. split; [vm_compute; right; left; reflexivity|].
  intros q Hq. vm_compute in Hq. destruct Hq as [<-|[<-|[]]]; vm_compute; discriminate.
Qed.
(* np.arange(-ms, ms + 1) with ms = 2.5: two peaks of different height 2 pixels apart *)
Lemma fractional_separation_refuted_lemma :
  exists ny nx conv thr kfp ms4 pos p q vp vq,
    find_stars ny nx conv thr kfp ms4 None false true true false = Some pos /\
    In (px nx p, py nx p) pos /\ In (px nx q, py nx q) pos /\
    16 * ((px nx p - px nx q) * (px nx p - px nx q) + (py nx p - py nx q) * (py nx p - py nx q))
      <= ms4 * ms4 /\
    dget conv p = Some vp /\ dget conv q = Some vq /\ vp <> vq /\
    find_stars ny nx conv thr kfp ms4 None false true true true = Some [(px nx q, py nx q)].
Proof.
  exists 1%nat, 7%nat, (map Some [0; 0; 9; 0; 10; 0; 0]), (Some 1), (box 3 3), 10,
         [(2, 0); (4, 0)], 2%nat, 4%nat, 9, 10.
  vm_compute. repeat split; try reflexivity; try discriminate.
  - left; reflexivity.
  - right; left; reflexivity.
Qed.

(* ====================================================================== *)
(* catalog filters                                                         *)
(* ====================================================================== *)
Lemma filter_filter {A} (f g : A -> bool) (l : list A) :
  filter g (filter f l) = filter (fun x => f x && g x) l.
Proof.
  induction l as [|a l IH]; [reflexivity|]. cbn [filter].
  destruct (f a); cbn [filter andb]; [destruct (g a); rewrite IH; reflexivity|exact IH].
Qed.

Lemma combine_fst_snd {A B} (a : list A) (b : list B) :
  length a = length b -> map fst (combine a b) = a /\ map snd (combine a b) = b.
Proof.
  revert b; induction a as [|x a IH]; intros [|y b] H; cbn in *; try discriminate; [split; reflexivity|].
  destruct (IH b) as [H1 H2]; [lia|]. rewrite H1, H2. split; reflexivity.
Qed.
Lemma with_ids_fst l : map fst (with_ids l) = map Z.of_nat (seq 1 (length l)).
Proof. unfold with_ids. apply combine_fst_snd. rewrite map_length, seq_length. reflexivity. Qed.
Lemma with_ids_snd l : map snd (with_ids l) = l.
Proof. unfold with_ids. apply combine_fst_snd. rewrite map_length, seq_length. reflexivity. Qed.
Lemma with_ids_length l : length (with_ids l) = length l.
Proof. rewrite <- (map_length snd). rewrite with_ids_snd. reflexivity. Qed.
(* ids are exactly 1, 2, ..., N in table order *)
Lemma ids_nth l k : (k < length l)%nat -> nth k (map fst (with_ids l)) 0 = Z.of_nat k + 1.
Proof.
  intros H. rewrite with_ids_fst.
  rewrite (nth_indep _ 0 (Z.of_nat 0)) by (rewrite map_length, seq_length; exact H).
  rewrite map_nth. rewrite seq_nth by exact H. lia.
Qed.

Lemma finite_spec o : finite o = true <-> exists v, o = Some v /\ - INF < v < INF.
Proof.
  unfold finite. destruct o as [v|]; [|split; [discriminate|intros [v [H _]]; discriminate]].
  split; [intros H; exists v; split; [reflexivity|lia]|intros [w [[= <-] H]]; lia].
Qed.
Lemma range_spec o lo hi : oge o lo && ole o hi = true <-> exists v, o = Some v /\ lo <= v <= hi.
Proof.
  unfold oge, ole. destruct o as [v|]; [|split; [discriminate|intros [v [H _]]; discriminate]].
  split; [intros H; exists v; split; [reflexivity|lia]|intros [w [[= <-] H]]; lia].
Qed.
Lemma ole_spec o hi : ole o hi = true <-> exists v, o = Some v /\ v <= hi.
Proof.
  unfold ole. destruct o as [v|]; [|split; [discriminate|intros [v [H _]]; discriminate]].
  split; [intros H; exists v; split; [reflexivity|lia]|intros [w [[= <-] H]]; lia].
Qed.
Lemma ogt_spec o lo : ogt o lo = true <-> exists v, o = Some v /\ lo < v.
Proof.
  unfold ogt. destruct o as [v|]; [|split; [discriminate|intros [v [H _]]; discriminate]].
  split; [intros H; exists v; split; [reflexivity|lia]|intros [w [[= <-] H]]; lia].
Qed.

Section FilterFacts.
  Variable c : cfg.
  Definition pass (r : row) : bool := pass_finite c r && pass_bounds c r.

  (* what the two masks of apply_filters mean *)
  Lemma pass_finite_spec r :
    pass_finite c r = true <->
    (forall i, In i (c_fin c) -> exists v, attr r i = Some v /\ - INF < v < INF) /\
    (forall i, c_count c = Some i -> exists v, attr r i = Some v /\ ONE < v).
  Proof.
    unfold pass_finite. rewrite andb_true_iff, forallb_forall. split.
    - intros [H1 H2]. split.
      + intros i Hi. apply finite_spec, H1, Hi.
      + intros i Hi. rewrite Hi in H2. apply ogt_spec, H2.
    - intros [H1 H2]. split.
      + intros i Hi. apply finite_spec, H1, Hi.
      + destruct (c_count c) as [i|]; [apply ogt_spec, H2; reflexivity|reflexivity].
  Qed.
  Lemma pass_bounds_spec r :
    pass_bounds c r = true <->
    (forall i lo hi, In (i, lo, hi) (c_rng c) -> exists v, attr r i = Some v /\ lo <= v <= hi) /\
    (forall i pm, c_pmax c = Some (i, pm) -> exists v, attr r i = Some v /\ v <= pm).
  Proof.
    unfold pass_bounds. rewrite andb_true_iff, forallb_forall. split.
    - intros [H1 H2]. split.
      + intros i lo hi Hi. specialize (H1 _ Hi). cbn beta iota in H1. apply range_spec, H1.
      + intros i pm Hi. rewrite Hi in H2. apply ole_spec, H2.
    - intros [H1 H2]. split.
      + intros [[i lo] hi] Hi. apply range_spec, (H1 _ _ _ Hi).
      + destruct (c_pmax c) as [[i pm]|]; [apply ole_spec, (H2 _ _ eq_refl)|reflexivity].
  Qed.

  Lemma apply_all_eq rows :
    apply_all c rows =
    match filter pass rows with
    | [] => None
    | _ :: _ => Some (with_ids (select_brightest c (filter pass rows)))
    end.
  Proof.
    unfold apply_all. unfold pass. rewrite <- (filter_filter (pass_finite c) (pass_bounds c)).
    destruct (filter (pass_finite c) rows) as [|a l]; [reflexivity|].
    destruct (filter (pass_bounds c) (a :: l)); reflexivity.
  Qed.

  (* None iff no row passes every configured predicate *)
  Lemma apply_all_none rows :
    apply_all c rows = None <-> forall r, In r rows -> pass r = false.
  Proof.
    rewrite apply_all_eq. destruct (filter pass rows) as [|a l] eqn:E.
    - split; [|reflexivity]. intros _ r Hr. destruct (pass r) eqn:Ep; [|reflexivity].
      assert (Hin : In r (filter pass rows)) by (apply filter_In; split; assumption).
      rewrite E in Hin. destruct Hin.
    - split; [discriminate|]. intros H. exfalso.
      assert (Hin : In a (filter pass rows)) by (rewrite E; left; reflexivity).
      apply filter_In in Hin. destruct Hin as [Hin Hp]. rewrite (H a Hin) in Hp. discriminate.
  Qed.

  (* every output row is an input row that passes every predicate; ids are 1..N *)
  Lemma apply_all_sound rows out :
    apply_all c rows = Some out ->
    map fst out = map Z.of_nat (seq 1 (length out)) /\
    forall r, In r (map snd out) -> In r rows /\ pass r = true.
  Proof.
    rewrite apply_all_eq. destruct (filter pass rows) as [|a l] eqn:E; [discriminate|].
    intros [= <-]. rewrite with_ids_length, with_ids_fst, with_ids_snd. split; [reflexivity|].
    intros r Hr. apply filter_In. rewrite E. unfold select_brightest in Hr.
    destruct (c_bright c) as [n|]; [|exact Hr].
    apply in_firstn' in Hr. eapply Permutation_in; [apply isort_perm|exact Hr].
  Qed.

  (* without `brightest`: the output is exactly the passing rows, in input order *)
  Lemma apply_all_conj rows out :
    c_bright c = None -> apply_all c rows = Some out ->
    map snd out = filter pass rows /\
    (forall r, In r (map snd out) <-> In r rows /\ pass r = true).
  Proof.
    intros Hb. rewrite apply_all_eq. destruct (filter pass rows) as [|a l] eqn:E; [discriminate|].
    intros [= <-]. rewrite with_ids_snd. unfold select_brightest. rewrite Hb.
    split; [reflexivity|]. intros r. rewrite <- E. apply filter_In.
  Qed.

  (* with brightest = n: the n passing rows of largest flux key, in decreasing order *)
  Lemma apply_all_brightest rows out n :
    c_bright c = Some n -> apply_all c rows = Some out ->
    exists dropped,
      Permutation (filter pass rows) (map snd out ++ dropped) /\
      length out = Nat.min n (length (filter pass rows)) /\
      (forall a b, In a (map snd out) -> In b dropped -> fkey c b <= fkey c a) /\
      StronglySorted (ge_key (fkey c)) (map snd out).
  Proof.
    intros Hb. rewrite apply_all_eq. destruct (filter pass rows) as [|a l] eqn:E; [discriminate|].
    intros [= <-]. rewrite with_ids_snd, with_ids_length. unfold select_brightest. rewrite Hb.
    exists (skipn n (isort (fkey c) (a :: l))).
    destruct (topN_spec (fkey c) (a :: l) n) as [H1 [H2 [H3 H4]]]. repeat split; assumption.
  Qed.

  (* the sort key of a row with a non-NaN flux is its flux *)
  Lemma fkey_flux r v : attr r (c_flux c) = Some v -> fkey c r = v.
  Proof. unfold fkey. intros ->. reflexivity. Qed.
End FilterFacts.

(* the configured predicates of the three finders, by attribute *)
Lemma dao_bounds_meaning z sl sh rl rh pm b r :
  pass_bounds (dao_cfg z sl sh rl rh pm b) r = true <->
  (exists s, attr r 4 = Some s /\ sl <= s <= sh) /\          (* sharpness  *)
  (exists a, attr r 5 = Some a /\ rl <= a <= rh) /\          (* roundness1 *)
  (exists a, attr r 6 = Some a /\ rl <= a <= rh) /\          (* roundness2 *)
  (forall m, pm = Some m -> exists k, attr r 7 = Some k /\ k <= m).   (* peak <= peakmax *)
Proof.
  rewrite pass_bounds_spec. unfold dao_cfg. cbn [c_rng c_pmax]. split.
  - intros [H1 H2]. split; [apply (H1 4%nat sl sh); left; reflexivity|].
    split; [apply (H1 5%nat rl rh); right; left; reflexivity|].
    split; [apply (H1 6%nat rl rh); right; right; left; reflexivity|].
    intros m ->. apply (H2 7%nat m). reflexivity.
  - intros [Hs [Hr1 [Hr2 Hp]]]. split.
    + intros i lo hi [E|[E|[E|[]]]]; injection E as <- <- <-; assumption.
    + intros i m E. destruct pm as [m'|]; [|discriminate]. injection E as <- <-. apply Hp. reflexivity.
Qed.
Lemma iraf_bounds_meaning sl sh rl rh pm b r :
  pass_bounds (iraf_cfg sl sh rl rh pm b) r = true <->
  (exists s, attr r 2 = Some s /\ sl <= s <= sh) /\          (* sharpness *)
  (exists a, attr r 3 = Some a /\ rl <= a <= rh) /\          (* roundness *)
  (forall m, pm = Some m -> exists k, attr r 6 = Some k /\ k <= m).   (* peak <= peakmax *)
Proof.
  rewrite pass_bounds_spec. unfold iraf_cfg. cbn [c_rng c_pmax]. split.
  - intros [H1 H2]. split; [apply (H1 2%nat sl sh); left; reflexivity|].
    split; [apply (H1 3%nat rl rh); right; left; reflexivity|].
    intros m ->. apply (H2 6%nat m). reflexivity.
  - intros [Hs [Hr1 Hp]]. split.
    + intros i lo hi [E|[E|[]]]; injection E as <- <- <-; assumption.
    + intros i m E. destruct pm as [m'|]; [|discriminate]. injection E as <- <-. apply Hp. reflexivity.
Qed.
Lemma sf_bounds_meaning pm b r :
  pass_bounds (sf_cfg pm b) r = true <->
  (forall m, pm = Some m -> exists k, attr r 5 = Some k /\ k <= m).   (* max_value <= peakmax *)
Proof.
  rewrite pass_bounds_spec. unfold sf_cfg. cbn [c_rng c_pmax]. split.
  - intros [_ H2] m ->. apply (H2 5%nat m). reflexivity.
  - intros Hp. split; [intros i lo hi []|].
    intros i m E. destruct pm as [m'|]; [|discriminate]. injection E as <- <-. apply Hp. reflexivity.
Qed.
(* every reported attribute that the finder lists is finite *)
Lemma finite_meaning c r i :
  pass_finite c r = true -> In i (c_fin c) -> exists v, attr r i = Some v /\ - INF < v < INF.
Proof. intros H. apply pass_finite_spec in H. destruct H as [H _]. apply H. Qed.

(* ====================================================================== *)
(* a whole finder                                                          *)
(* ====================================================================== *)
Section PipelineFacts.
  Variable stat : Z * Z -> row.

  (* xycoords replace peak finding; the same filters apply *)
  Lemma run_finder_xy ny nx conv thr kfp ms4 mask eb c xy :
    run_finder stat ny nx conv thr kfp ms4 mask eb c (Some xy) = apply_all c (map stat xy).
  Proof. reflexivity. Qed.
  Lemma run_finder_peaks ny nx conv thr kfp ms4 mask eb c :
    run_finder stat ny nx conv thr kfp ms4 mask eb c None =
    match find_stars ny nx conv thr kfp ms4 mask eb true true true with
    | None => None
    | Some pos => apply_all c (map stat pos)
    end.
  Proof. reflexivity. Qed.

  (* None iff no position (detected or supplied) yields a row passing every predicate *)
  Lemma run_finder_none ny nx conv thr kfp ms4 mask eb c xy :
    run_finder stat ny nx conv thr kfp ms4 mask eb c xy = None <->
    match raw_positions ny nx conv thr kfp ms4 mask eb true true true xy with
    | None => True
    | Some pos => forall p, In p pos -> pass c (stat p) = false
    end.
  Proof.
    unfold run_finder. destruct (raw_positions _ _ _ _ _ _ _ _ _ _ _ _) as [pos|]; [|split; auto].
    rewrite apply_all_none. split.
    - intros H p Hp. apply H. apply in_map, Hp.
    - intros H r Hr. apply in_map_iff in Hr. destruct Hr as [p [<- Hp]]. apply H, Hp.
  Qed.

  (* every output row is the measurement of one of the positions and passes every predicate;
     ids are 1..N *)
  Lemma run_finder_sound ny nx conv thr kfp ms4 mask eb c xy out :
    run_finder stat ny nx conv thr kfp ms4 mask eb c xy = Some out ->
    exists pos,
      raw_positions ny nx conv thr kfp ms4 mask eb true true true xy = Some pos /\
      map fst out = map Z.of_nat (seq 1 (length out)) /\
      forall r, In r (map snd out) -> exists p, In p pos /\ r = stat p /\ pass c r = true.
  Proof.
    unfold run_finder. destruct (raw_positions _ _ _ _ _ _ _ _ _ _ _ _) as [pos|]; [|discriminate].
    intros H. exists pos. split; [reflexivity|].
    destruct (apply_all_sound c _ _ H) as [H1 H2]. split; [exact H1|].
    intros r Hr. destruct (H2 r Hr) as [Hin Hp]. apply in_map_iff in Hin.
    destruct Hin as [p [<- Hpin]]. exists p. repeat split; assumption.
  Qed.

  (* without brightest: exactly the passing measurements, in detection order *)
  Lemma run_finder_conj ny nx conv thr kfp ms4 mask eb c xy out pos :
    c_bright c = None ->
    raw_positions ny nx conv thr kfp ms4 mask eb true true true xy = Some pos ->
    run_finder stat ny nx conv thr kfp ms4 mask eb c xy = Some out ->
    map snd out = filter (pass c) (map stat pos).
  Proof.
    intros Hb Hpos. unfold run_finder. rewrite Hpos. intros H.
    destruct (apply_all_conj c _ _ Hb H) as [H1 _]. exact H1.
  Qed.
End PipelineFacts.

(* ====================================================================== *)
(* general footprints (centre not necessarily included): padded semantics *)
(* ====================================================================== *)
Lemma eq_max_padded_spec ny nx data fp cm fill p :
  eq_max ny nx data fp cm fill p = true <->
  exists v, filled data fill p = Some v /\
    (forall o w, In o (offsets fp) ->
        pget ny nx data cm fill (py nx p + fst o) (px nx p + snd o) = Some w -> w <= v) /\
    (exists o, In o (offsets fp) /\
        pget ny nx data cm fill (py nx p + fst o) (px nx p + snd o) = Some v).
Proof.
  unfold eq_max. destruct (filled data fill p) as [v|]; [|split; [discriminate|intros [v [H _]]; discriminate]].
  destruct (nbmax ny nx data fp cm fill p) as [m|] eqn:Em.
  - unfold nbmax in Em. apply maxl_spec in Em. destruct Em as [Hin Hub]. split.
    + intros H. assert (v = m) by lia. subst m. exists v. split; [reflexivity|]. split.
      * intros o w Ho Hw. apply Hub. apply in_somes. unfold nbvals. apply in_map_iff. exists o. split; assumption.
      * apply in_somes in Hin. unfold nbvals in Hin. apply in_map_iff in Hin. destruct Hin as [o [H1 H2]].
        exists o. split; assumption.
    + intros [v' [[= <-] [H1 [o [Ho Hv]]]]].
      assert (v <= m). { apply Hub. apply in_somes. unfold nbvals. apply in_map_iff. exists o. split; assumption. }
      assert (m <= v). { apply in_somes in Hin. unfold nbvals in Hin. apply in_map_iff in Hin.
                         destruct Hin as [o' [H3 H4]]. apply (H1 o' m H4 H3). }
      lia.
  - split; [discriminate|]. intros [v' [[= <-] [_ [o [Ho Hv]]]]]. exfalso.
    unfold nbmax in Em. apply maxl_none in Em.
    assert (Hin : In v (somes (nbvals ny nx data fp cm fill p))).
    { apply in_somes. unfold nbvals. apply in_map_iff. exists o. split; assumption. }
    rewrite Em in Hin. destruct Hin.
Qed.

(* ====================================================================== *)
(* behaviours of the (repaired) code that still contradict the property    *)
(* text: recorded as known findings                                        *)
(* ====================================================================== *)
(* constant image: early exit although every pixel qualifies *)
Lemma constant_image_none_lemma ny nx data thr fp mask border npeaks cm nf :
  is_const data = true -> find_peaks ny nx data thr fp mask border npeaks cm nf = None.
Proof. intros H. rewrite find_peaks_eq, H. reflexivity. Qed.
Lemma constant_image_refuted_lemma :
  exists ny nx data thr fp p,
    In (0, 0) (offsets fp) /\ peak_spec ny nx data thr fp None None p /\
    find_peaks ny nx data thr fp None None None true true = None.
Proof.
  exists 2%nat, 2%nat, [Some 5; Some 5; Some 5; Some 5], (TScalar (Some 0)), (box 3 3), 0%nat.
  split; [apply box_has_centre; lia|]. split.
  - apply cands_spec; [apply box_has_centre; lia|]. vm_compute. left; reflexivity.
  - vm_compute. reflexivity.
Qed.
(* exactly tied maxima closer than min_separation are all returned *)
Lemma separation_ties_refuted_lemma :
  exists ny nx conv thr kfp ms4 pos,
    find_stars ny nx conv thr kfp ms4 None false true true true = Some pos /\
    In (1, 0) pos /\ In (2, 0) pos /\ 16 * ((1 - 2) * (1 - 2) + (0 - 0) * (0 - 0)) <= ms4 * ms4.
Proof.
  exists 1%nat, 4%nat, (map Some [0; 7; 7; 0]), (Some 1), (box 3 3), 8, [(1, 0); (2, 0)].
  vm_compute. repeat split; try discriminate.
  - left; reflexivity.
  - right; left; reflexivity.
Qed.

(* separation at full strength when the detected peaks are not exactly tied *)
Lemma find_stars_separation_strict ny nx conv thr kfp ms4 mask eb pos x1 y1 x2 y2 :
  0 < ms4 ->
  find_stars ny nx conv thr kfp ms4 mask eb true true true = Some pos ->
  In (x1, y1) pos -> In (x2, y2) pos -> (x1, y1) <> (x2, y2) ->
  (forall p q v, (px nx p, py nx p) <> (px nx q, py nx q) ->
                 dget conv p = Some v -> dget conv q = Some v -> False) ->
  ms4 * ms4 < 16 * ((x1 - x2) * (x1 - x2) + (y1 - y2) * (y1 - y2)).
Proof.
  intros Hms H H1 H2 Hne Hinj.
  destruct (Z_lt_dec (ms4 * ms4) (16 * ((x1 - x2) * (x1 - x2) + (y1 - y2) * (y1 - y2)))) as [Hd|Hd]; [exact Hd|].
  exfalso.
  pose proof (find_stars_positions _ _ _ _ _ _ _ _ _ H) as [_ [Hpos _]].
  rewrite Hpos in H1, H2.
  apply in_map_iff in H1. destruct H1 as [p [E1 Hp]].
  apply in_map_iff in H2. destruct H2 as [q [E2 Hq]].
  unfold stars_fp in Hp, Hq. destruct (ms4 =? 0) eqn:E0; [lia|].
  assert (Heq : dget conv p = dget conv q).
  { eapply separation_or_tie_lemma; [| exact Hp | exact Hq |]; [lia|].
    injection E1 as -> ->. injection E2 as -> ->. lia. }
  apply cands_spec in Hp; [|apply disk_has_centre; lia].
  destruct Hp as [_ [v [Hv _]]].
  apply (Hinj p q v); [congruence|exact Hv|congruence].
Qed.
