(* C17 -- TRANSLATOR TIE.  gen/Gen_round.v is REGENERATED from the current source text of
   photutils/utils/_round.py on every run (harness/translate_all.py); it is not committed.
   [gen_py2intround] is the translation of py2intround applied to a scalar (np.atleast_1d(a) is the
   one-element array, np.where / np.floor / np.ceil act on its element, value[0] extracts it).
   This committed file proves that it equals the model's [py2intround] (used by centroid_quadratic's
   peak window) for ALL rationals, and proves the rounding contract directly about the regenerated
   definition. *)
From Coq Require Import List ZArith QArith Qround Qabs Bool Lia Lqa.
From PV Require Import lib.Cases lib.PyGen C17_Model gen.Gen_round.
Open Scope Q_scope.

Theorem gen_py2intround_eq : forall a, gen_py2intround a = py2intround a.
Proof.
  intros. unfold gen_py2intround, py2intround. cbv zeta.
  q_split; q_hyps; first [qz_leaf | exfalso; lra].
Qed.

(* round half away from zero: the result is a nearest integer ... *)
Theorem gen_py2intround_nearest : forall a,
  inject_Z (gen_py2intround a) - (1 # 2) <= a <= inject_Z (gen_py2intround a) + (1 # 2).
Proof.
  intros. rewrite gen_py2intround_eq. unfold py2intround.
  destruct (Qle_bool 0 a) eqn:E.
  - pose proof (Qfloor_le (a + (1 # 2))). pose proof (Qlt_floor (a + (1 # 2))) as L.
    rewrite inject_Z_plus in L. change (inject_Z 1) with 1 in L. lra.
  - pose proof (Qle_ceiling (a - (1 # 2))). pose proof (Qceiling_lt (a - (1 # 2))) as L.
    rewrite inject_Z_sub in L. change (inject_Z 1) with 1 in L. lra.
Qed.

(* ... integers are fixed points ... *)
Theorem gen_py2intround_integer : forall k : Z, gen_py2intround (inject_Z k) = k.
Proof.
  intros. rewrite gen_py2intround_eq. unfold py2intround.
  destruct (Qle_bool 0 (inject_Z k)); [apply Qfloor_unique | apply Qceiling_unique]; lra.
Qed.

(* ... and an exact tie k + 1/2 goes AWAY from zero (Python-2 round, not banker's rounding) *)
Theorem gen_py2intround_ties_away : forall k : Z,
  ((0 <= k)%Z -> gen_py2intround (inject_Z k + (1 # 2)) = (k + 1)%Z) /\
  ((k <= 0)%Z -> gen_py2intround (inject_Z k - (1 # 2)) = (k - 1)%Z).
Proof.
  intros k. split; intro Hk; rewrite gen_py2intround_eq; unfold py2intround;
    rewrite Zle_Qle in Hk; change (inject_Z 0) with 0 in Hk.
  - destruct (Qle_bool 0 (inject_Z k + (1 # 2))) eqn:E; q_hyps; [|exfalso; lra].
    apply Qfloor_unique. rewrite inject_Z_plus. change (inject_Z 1) with 1. lra.
  - destruct (Qle_bool 0 (inject_Z k - (1 # 2))) eqn:E; q_hyps; [exfalso; lra|].
    apply Qceiling_unique. rewrite inject_Z_sub. change (inject_Z 1) with 1. lra.
Qed.

(* odd symmetry: py2intround(-a) = -py2intround(a) *)
Theorem gen_py2intround_odd : forall a, gen_py2intround (- a) = (- gen_py2intround a)%Z.
Proof.
  intros. rewrite (gen_py2intround_eq a), (gen_py2intround_eq (- a)). unfold py2intround.
  destruct (Qle_bool 0 a) eqn:E1; destruct (Qle_bool 0 (- a)) eqn:E2; q_hyps.
  - rewrite (Qfloor_comp (- a + (1 # 2)) (1 # 2)) by lra. rewrite (Qfloor_comp (a + (1 # 2)) (1 # 2)) by lra.
    reflexivity.
  - unfold Qceiling. f_equal. apply Qfloor_comp. ring.
  - unfold Qceiling. rewrite Z.opp_involutive. apply Qfloor_comp. ring.
  - exfalso. lra.
Qed.

Print Assumptions gen_py2intround_eq.
Print Assumptions gen_py2intround_nearest.
Print Assumptions gen_py2intround_integer.
Print Assumptions gen_py2intround_ties_away.
Print Assumptions gen_py2intround_odd.
