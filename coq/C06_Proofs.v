(* C06 — proofs about the model of deblend_sources (C06_Model.v).
   Part 1: list facts (uniq_labels, relabel maps, tabulate, slices);
   Part 2: the merge invariant (refinement of the input segmentation);
   Part 3: the final relabel;
   Part 4: schedule independence (collect / parallel = serial);
   Part 5: the statements used by C06_Properties.v. *)
From Coq Require Import List Arith ZArith Bool Lia Sorted Permutation.
From PV Require Import lib.Cases C06_Model.
Import ListNotations.

(* ------------------------------------------------------------------ *)
(* Part 1: list facts                                                  *)
(* ------------------------------------------------------------------ *)
Lemma mem_In v l : mem v l = true <-> In v l.
Proof.
  unfold mem. rewrite existsb_exists. split.
  - intros [x [Hx E]]. apply Nat.eqb_eq in E. subst. exact Hx.
  - intros H. exists v. split; [exact H|apply Nat.eqb_refl].
Qed.

Lemma maxl_ge v l : In v l -> v <= maxl l.
Proof.
  induction l as [|a l IH]; [intros []|]. intros [->|H]; cbn.
  - apply Nat.le_max_l.
  - specialize (IH H). unfold maxl in IH. lia.
Qed.

Lemma maxl_le b l : (forall v, In v l -> v <= b) -> maxl l <= b.
Proof.
  induction l as [|a l IH]; intros H; cbn; [lia|].
  assert (a <= b) by (apply H; left; reflexivity).
  assert (maxl l <= b) by (apply IH; intros v Hv; apply H; right; exact Hv).
  unfold maxl in *. lia.
Qed.

Lemma maxl_In l : l <> [] -> In (maxl l) l.
Proof.
  induction l as [|a l IH]; [congruence|]. intros _. cbn.
  destruct l as [|b l'].
  - cbn. left. lia.
  - assert (H : In (maxl (b :: l')) (b :: l')) by (apply IH; discriminate).
    unfold maxl in *. cbn in *.
    destruct (Nat.max_spec a (Nat.max b (fold_right Nat.max 0 l'))) as [[_ E]|[_ E]]; rewrite E.
    + right. exact H.
    + left. reflexivity.
Qed.

Lemma minl_le v l d : In v l -> minl l d <= v.
Proof.
  induction l as [|a l IH]; [intros []|]. intros [->|H]; cbn.
  - apply Nat.le_min_l.
  - specialize (IH H). unfold minl in IH. lia.
Qed.

Lemma uniq_labels_In v vals : In v (uniq_labels vals) <-> v <> 0 /\ In v vals.
Proof.
  unfold uniq_labels. rewrite filter_In, in_seq, mem_In. split.
  - intros [H1 H2]. split; [lia|exact H2].
  - intros [H1 H2]. split; [|exact H2]. pose proof (maxl_ge _ _ H2). lia.
Qed.

Lemma sorted_filter_seq f a n : StronglySorted lt (filter f (seq a n)).
Proof.
  revert a; induction n as [|n IH]; intros a; cbn; [constructor|].
  destruct (f a).
  - constructor; [apply IH|]. apply Forall_forall. intros x Hx.
    apply filter_In in Hx. destruct Hx as [Hx _]. apply in_seq in Hx. lia.
  - apply IH.
Qed.

Lemma uniq_labels_sorted vals : StronglySorted lt (uniq_labels vals).
Proof. apply sorted_filter_seq. Qed.

Lemma uniq_labels_NoDup vals : NoDup (uniq_labels vals).
Proof. apply NoDup_filter, seq_NoDup. Qed.

Lemma filter_all {A} (f : A -> bool) l : (forall x, In x l -> f x = true) -> filter f l = l.
Proof.
  induction l as [|a l IH]; intros H; cbn; [reflexivity|].
  rewrite (H a) by (left; reflexivity). f_equal. apply IH. intros x Hx. apply H. right. exact Hx.
Qed.

(* characterisation: the non-zero values are exactly 1..n *)
Lemma uniq_labels_seq vals n :
  (forall v, (v <> 0 /\ In v vals) <-> 1 <= v <= n) -> uniq_labels vals = seq 1 n.
Proof.
  intros H. unfold uniq_labels.
  assert (Hmax : maxl vals = n).
  { apply Nat.le_antisymm.
    - apply maxl_le. intros v Hv. destruct (Nat.eq_dec v 0) as [->|Hne]; [lia|].
      apply H. split; assumption.
    - destruct (Nat.eq_dec n 0) as [->|Hn]; [lia|].
      apply maxl_ge. apply (H n). lia. }
  rewrite Hmax. apply filter_all. intros x Hx. apply in_seq in Hx. apply mem_In. apply (H x). lia.
Qed.

(* a strictly increasing list from a whose last element is a+len-1 is seq a len *)
Lemma sorted_last_ge l : forall a, StronglySorted lt l -> l <> [] -> (forall x, In x l -> a <= x) ->
  a + length l - 1 <= last l 0 /\ (last l 0 = a + length l - 1 -> l = seq a (length l)).
Proof.
  induction l as [|x r IH]; intros a Hs Hne Hge; [congruence|].
  inversion Hs as [|? ? Hs' Hall]; subst.
  assert (Hax : a <= x) by (apply Hge; left; reflexivity).
  destruct r as [|y r'].
  - cbn. split; [lia|]. intros E. f_equal. lia.
  - assert (Hne' : y :: r' <> []) by discriminate.
    assert (Hge' : forall z, In z (y :: r') -> S x <= z).
    { intros z Hz. rewrite Forall_forall in Hall. specialize (Hall z Hz). lia. }
    destruct (IH (S x) Hs' Hne' Hge') as [H1 H2].
    change (last (x :: y :: r') 0) with (last (y :: r') 0).
    cbn [length] in *. split; [lia|].
    intros E. assert (x = a) by lia. subst x.
    cbn [seq]. f_equal. apply H2. lia.
Qed.

Lemma sorted_consecutive l : StronglySorted lt l -> l <> [] -> hd 0 l = 1 ->
  last l 0 = length l -> l = seq 1 (length l).
Proof.
  intros Hs Hne Hhd Hlast.
  assert (Hge : forall x, In x l -> 1 <= x).
  { destruct l as [|a r]; [congruence|]. cbn in Hhd. subst a.
    inversion Hs as [|? ? _ Hall]; subst. rewrite Forall_forall in Hall.
    intros x [<-|Hx]; [lia|]. specialize (Hall x Hx). lia. }
  destruct (sorted_last_ge l 1 Hs Hne Hge) as [_ H]. apply H. lia.
Qed.

(* index_of *)
Lemma index_of_lt x l : In x l -> index_of x l < length l.
Proof.
  induction l as [|a l IH]; [intros []|]. intros Hin. cbn.
  destruct (a =? x) eqn:E; [lia|]. apply Nat.eqb_neq in E.
  destruct Hin as [->|Hin]; [congruence|]. specialize (IH Hin). lia.
Qed.

Lemma index_of_nth x l : In x l -> nth (index_of x l) l 0 = x.
Proof.
  induction l as [|a l IH]; [intros []|]. intros Hin. cbn.
  destruct (a =? x) eqn:E; [apply Nat.eqb_eq in E; auto|]. apply Nat.eqb_neq in E.
  destruct Hin as [->|Hin]; [congruence|auto].
Qed.

Lemma index_of_inj x y l : In x l -> In y l -> index_of x l = index_of y l -> x = y.
Proof. intros Hx Hy E. rewrite <- (index_of_nth x l Hx), <- (index_of_nth y l Hy), E. reflexivity. Qed.

Lemma index_of_nth_nodup i l : NoDup l -> i < length l -> index_of (nth i l 0) l = i.
Proof.
  revert i; induction l as [|a l IH]; intros i Hnd Hi; [cbn in Hi; lia|].
  inversion Hnd as [|? ? Hnotin Hnd']; subst. destruct i as [|i]; cbn.
  - rewrite Nat.eqb_refl. reflexivity.
  - cbn in Hi. destruct (a =? nth i l 0) eqn:E.
    + apply Nat.eqb_eq in E. exfalso. apply Hnotin. rewrite E. apply nth_In. lia.
    + f_equal. apply IH; auto. lia.
Qed.

(* relabel_fun on a duplicate-free list of non-zero labels *)
Lemma relabel_fun_zero labs v : relabel_fun labs v = 0 <-> ~ In v labs.
Proof.
  unfold relabel_fun. destruct (mem v labs) eqn:E.
  - apply mem_In in E. split; [discriminate|tauto].
  - split; [|reflexivity]. intros _ H. apply mem_In in H. congruence.
Qed.

Lemma relabel_fun_range labs v : In v labs -> 1 <= relabel_fun labs v <= length labs.
Proof.
  intros H. unfold relabel_fun. rewrite (proj2 (mem_In v labs) H).
  pose proof (index_of_lt v labs H). lia.
Qed.

Lemma relabel_fun_inj labs u v : In u labs -> In v labs ->
  relabel_fun labs u = relabel_fun labs v -> u = v.
Proof.
  intros Hu Hv. unfold relabel_fun.
  rewrite (proj2 (mem_In u labs) Hu), (proj2 (mem_In v labs) Hv). intros E.
  apply (index_of_inj u v labs Hu Hv). lia.
Qed.

Lemma relabel_fun_surj labs k : NoDup labs -> 1 <= k <= length labs ->
  exists v, In v labs /\ relabel_fun labs v = k.
Proof.
  intros Hnd Hk. exists (nth (k - 1) labs 0).
  assert (Hin : In (nth (k - 1) labs 0) labs) by (apply nth_In; lia).
  split; [exact Hin|]. unfold relabel_fun. rewrite (proj2 (mem_In _ labs) Hin).
  rewrite index_of_nth_nodup by (auto; lia). lia.
Qed.

(* what _create_relabel_map guarantees, for labs = uniq_labels vals *)
Definition relabel_ok (vals : list nat) (f : nat -> nat) : Prop :=
  f 0 = 0 /\
  (forall v, In v vals -> (f v = 0 <-> v = 0)) /\
  (forall u v, In u vals -> In v vals -> u <> 0 -> f u = f v -> u = v) /\
  uniq_labels (map f vals) = seq 1 (length (uniq_labels vals)).

Lemma create_relabel_map_spec vals :
  match create_relabel_map (uniq_labels vals) with
  | None => uniq_labels vals = seq 1 (length (uniq_labels vals))
  | Some f => relabel_ok vals f
  end.
Proof.
  unfold create_relabel_map. set (labs := uniq_labels vals).
  destruct (length labs =? 0) eqn:E0.
  - apply Nat.eqb_eq in E0. rewrite E0. destruct labs; [reflexivity|discriminate].
  - apply Nat.eqb_neq in E0.
    destruct ((hd 0 labs =? 1) && (last labs 0 - 1 + 1 =? length labs)) eqn:E1.
    + apply andb_true_iff in E1. destruct E1 as [Eh El].
      apply Nat.eqb_eq in Eh. apply Nat.eqb_eq in El.
      assert (Hne : labs <> []) by (intros Hn; rewrite Hn in E0; cbn in E0; lia).
      apply sorted_consecutive; auto; [apply uniq_labels_sorted|].
      assert (1 <= last labs 0).
      { pose proof (proj1 (uniq_labels_In (last labs 0) vals)) as H.
        assert (Hin : In (last labs 0) labs).
        { destruct (exists_last Hne) as [l' [a Ea]]. rewrite Ea, last_last. apply in_or_app. right. left. reflexivity. }
        specialize (H Hin). lia. }
      lia.
    + assert (Hlabs : forall v, In v labs <-> v <> 0 /\ In v vals) by (intros v; apply uniq_labels_In).
      split; [|split; [|split]].
      * apply relabel_fun_zero. rewrite Hlabs. tauto.
      * intros v Hv. rewrite relabel_fun_zero, Hlabs. split.
        -- intros H. destruct (Nat.eq_dec v 0); [assumption|]. exfalso. apply H. tauto.
        -- intros -> [H _]. congruence.
      * intros u v Hu Hv Hne E.
        assert (Hul : In u labs) by (apply Hlabs; tauto).
        assert (Hvl : In v labs).
        { apply Hlabs. split; [|exact Hv]. intros ->.
          pose proof (relabel_fun_range labs u Hul).
          assert (relabel_fun labs 0 = 0) by (apply relabel_fun_zero; rewrite Hlabs; tauto). lia. }
        apply (relabel_fun_inj labs); assumption.
      * apply uniq_labels_seq. intros k. rewrite in_map_iff. split.
        -- intros [Hk [v [Ev Hv]]]. subst k.
           assert (In v labs).
           { apply Hlabs. split; [|exact Hv]. intros ->. apply Hk. apply relabel_fun_zero. rewrite Hlabs. tauto. }
           apply relabel_fun_range. assumption.
        -- intros Hk. destruct (relabel_fun_surj labs k (uniq_labels_NoDup vals) Hk) as [v [Hv Ev]].
           split; [lia|]. exists v. split; [exact Ev|]. apply Hlabs. exact Hv.
Qed.

(* tabulate / at2 *)
Lemma at2_tabulate ny nx f y x : y < ny -> x < nx -> at2 (tabulate ny nx f) y x = f y x.
Proof.
  intros Hy Hx. unfold at2, tabulate.
  rewrite (nth_indep _ [] (map (f 0) (seq 0 nx))) by (rewrite map_length, seq_length; exact Hy).
  rewrite (map_nth (fun y => map (f y) (seq 0 nx)) (seq 0 ny) 0 y), seq_nth by exact Hy.
  cbn [plus]. rewrite (nth_indep _ 0 (f y 0)) by (rewrite map_length, seq_length; exact Hx).
  rewrite (map_nth (f y) (seq 0 nx) 0 x), seq_nth by exact Hx. reflexivity.
Qed.

Lemma in_concat_tabulate ny nx f v :
  In v (concat (tabulate ny nx f)) <-> exists y x, y < ny /\ x < nx /\ f y x = v.
Proof.
  unfold tabulate. rewrite in_concat. split.
  - intros [row [Hrow Hv]]. apply in_map_iff in Hrow. destruct Hrow as [y [<- Hy]].
    apply in_map_iff in Hv. destruct Hv as [x [<- Hx]].
    apply in_seq in Hy. apply in_seq in Hx. exists y, x. repeat split; lia.
  - intros [y [x [Hy [Hx <-]]]]. exists (map (f y) (seq 0 nx)). split.
    + apply in_map_iff. exists y. split; [reflexivity|apply in_seq; lia].
    + apply in_map_iff. exists x. split; [reflexivity|apply in_seq; lia].
Qed.

Lemma at2_map_map (f : nat -> nat) (a : img2) y x : f 0 = 0 -> at2 (map (map f) a) y x = f (at2 a y x).
Proof.
  intros H0. unfold at2.
  change (@nil nat) with (map f []) at 1. rewrite map_nth.
  rewrite <- H0 at 1. rewrite map_nth. reflexivity.
Qed.

Lemma concat_map_map (f : nat -> nat) (a : img2) : concat (map (map f) a) = map f (concat a).
Proof. symmetry. apply concat_map. Qed.

Lemma in_allpix ny nx y x : In (y, x) (allpix ny nx) <-> y < ny /\ x < nx.
Proof. unfold allpix. rewrite in_prod_iff, !in_seq. lia. Qed.

Lemma in_slice_pixels s y x : In (y, x) (slice_pixels s) <-> in_slice s y x = true.
Proof.
  destruct s as [[[y0 y1] x0] x1]. unfold slice_pixels, in_slice.
  rewrite in_prod_iff, !in_seq, !andb_true_iff, !Nat.leb_le, !Nat.ltb_lt. lia.
Qed.

Lemma in_seq_1 v n : In v (seq 1 n) <-> 1 <= v <= n.
Proof. rewrite in_seq. lia. Qed.

Lemma map_add_seq m a k : map (fun c => c + m) (seq a k) = seq (a + m) k.
Proof. revert a; induction k as [|k IH]; intros a; cbn; [reflexivity|]. f_equal. apply (IH (S a)). Qed.

(* dict_set (Python dict assignment) *)
Lemma keys_dict_set k v d q : In q (map fst (dict_set k v d)) <-> q = k \/ In q (map fst d).
Proof.
  induction d as [|[k' v'] r IH]; cbn.
  - intuition.
  - destruct (k' =? k) eqn:E; cbn.
    + apply Nat.eqb_eq in E. subst k'. intuition.
    + rewrite IH. intuition.
Qed.

Lemma NoDup_keys_dict_set k v d : NoDup (map fst d) -> NoDup (map fst (dict_set k v d)).
Proof.
  induction d as [|[k' v'] r IH]; cbn; intros H.
  - constructor; [intros []|constructor].
  - inversion H as [|? ? Hnotin Hnd]; subst. destruct (k' =? k) eqn:E; cbn.
    + apply Nat.eqb_eq in E. subst k'. constructor; assumption.
    + apply Nat.eqb_neq in E. constructor; [|apply IH; exact Hnd].
      rewrite keys_dict_set. intros [->|Hin]; [congruence|contradiction].
Qed.

Lemma In_dict_set k v d p cs : NoDup (map fst d) ->
  In (p, cs) (dict_set k v d) -> (p = k /\ cs = v) \/ (p <> k /\ In (p, cs) d).
Proof.
  induction d as [|[k' v'] r IH]; cbn; intros Hnd.
  - intros [E|[]]. inversion E. left. split; reflexivity.
  - inversion Hnd as [|? ? Hnotin Hnd']; subst. destruct (k' =? k) eqn:E.
    + apply Nat.eqb_eq in E. subst k'. intros [H|H].
      * inversion H. left. split; reflexivity.
      * right. split; [|right; exact H]. intros ->. apply Hnotin.
        apply in_map_iff. exists (k, cs). split; [reflexivity|exact H].
    + apply Nat.eqb_neq in E. intros [H|H].
      * inversion H; subst. right. split; [exact E|left; reflexivity].
      * destruct (IH Hnd' H) as [?|[? ?]]; [left; assumption|right; split; [assumption|right; assumption]].
Qed.

Lemma In_dict_set_new k v d : In (k, v) (dict_set k v d).
Proof.
  induction d as [|[k' v'] r IH]; cbn; [left; reflexivity|].
  destruct (k' =? k); [left; reflexivity|right; exact IH].
Qed.

(* ------------------------------------------------------------------ *)
(* Part 2: the merge loop refines the input segmentation               *)
(* ------------------------------------------------------------------ *)
Section Merge.
Variables (ny nx : nat) (seg : img2).

Notation sg := (sg ny nx seg).
Notation segvals := (segvals ny nx seg).
Notation slice_of := (slice_of ny nx seg).
Notation pix_of := (pix_of ny nx seg).

(* l is a label of the input segmentation image *)
Definition islabel (l : nat) : Prop := In l (uniq_labels segvals).

Lemma sg_frame y x : sg y x <> 0 -> y < ny /\ x < nx.
Proof.
  unfold C06_Model.sg. destruct ((y <? ny) && (x <? nx)) eqn:E; [|congruence].
  apply andb_true_iff in E. rewrite !Nat.ltb_lt in E. intros _. exact E.
Qed.

Lemma in_segvals v : In v segvals <-> exists y x, y < ny /\ x < nx /\ sg y x = v.
Proof.
  unfold C06_Model.segvals. rewrite in_map_iff. split.
  - intros [[y x] [E H]]. apply in_allpix in H. exists y, x. tauto.
  - intros [y [x [Hy [Hx E]]]]. exists (y, x). split; [exact E|apply in_allpix; tauto].
Qed.

Lemma islabel_spec l : islabel l <-> l <> 0 /\ exists y x, y < ny /\ x < nx /\ sg y x = l.
Proof. unfold islabel. rewrite uniq_labels_In, in_segvals. reflexivity. Qed.

Lemma sg_le y x : sg y x <= maxl segvals.
Proof.
  destruct (Nat.eq_dec (sg y x) 0) as [E|E]; [lia|].
  apply maxl_ge. apply in_segvals. destruct (sg_frame y x E). exists y, x. tauto.
Qed.

Lemma islabel_le l : islabel l -> l <= maxl segvals.
Proof. intros H. apply islabel_spec in H. destruct H as [_ [y [x [_ [_ <-]]]]]. apply sg_le. Qed.

Lemma slice_covers l y x : l <> 0 -> sg y x = l -> in_slice (slice_of l) y x = true.
Proof.
  intros Hl E. assert (Hf : y < ny /\ x < nx) by (apply sg_frame; congruence).
  assert (Hin : In (y, x) (pix_of l)).
  { unfold C06_Model.pix_of. apply filter_In. split; [apply in_allpix; exact Hf|]. apply Nat.eqb_eq. exact E. }
  unfold C06_Model.slice_of, in_slice. fold (pix_of l).
  assert (Hy : In y (map fst (pix_of l))) by (apply in_map_iff; exists (y, x); auto).
  assert (Hx : In x (map snd (pix_of l))) by (apply in_map_iff; exists (y, x); auto).
  pose proof (minl_le _ _ ny Hy). pose proof (maxl_ge _ _ Hy).
  pose proof (minl_le _ _ nx Hx). pose proof (maxl_ge _ _ Hx).
  rewrite !andb_true_iff, !Nat.leb_le, !Nat.ltb_lt. lia.
Qed.

(* values of a per-source result over the pixels of the slice *)
Definition cut_vals (sl : slice) (child : nat -> nat -> nat) : list nat :=
  map (fun '(y, x) => child (cy sl y) (cx sl x)) (slice_pixels sl).
Definition child_vals (sl : slice) (child : nat -> nat -> nat) : list nat :=
  filter (fun c => 0 <? c) (cut_vals sl child).

Lemma In_cut_vals sl child v :
  In v (cut_vals sl child) <-> exists y x, in_slice sl y x = true /\ child (cy sl y) (cx sl x) = v.
Proof.
  unfold cut_vals. rewrite in_map_iff. split.
  - intros [[y x] [E H]]. exists y, x. split; [apply in_slice_pixels; exact H|exact E].
  - intros [y [x [H E]]]. exists (y, x). split; [exact E|apply in_slice_pixels; exact H].
Qed.

Lemma In_child_vals sl child v : In v (child_vals sl child) <-> v <> 0 /\ In v (cut_vals sl child).
Proof. unfold child_vals. rewrite filter_In, Nat.ltb_lt. split; intros [? ?]; split; auto; lia. Qed.

(* (G) footprint guard and (R) children are exactly 1..k with k >= 2 *)
Definition good_child (l : nat) (child : nat -> nat -> nat) : Prop :=
  (forall y x, in_slice (slice_of l) y x = true ->
      (sg y x = l <-> child (cy (slice_of l) y) (cx (slice_of l) x) <> 0)) /\
  exists k, 2 <= k /\ uniq_labels (child_vals (slice_of l) child) = seq 1 k.

Definition good_post (l : nat) (p : post) : Prop :=
  match p with PSome child => good_child l child | _ => True end.

(* the tail of deblend_source (guard, one-label test, consecutive relabel) establishes
   (G) and (R) whatever the watershed stage returned *)
Lemma post_good l r : islabel l -> good_post l (deblend_source_post ny nx seg l (slice_of l) r).
Proof.
  intros Hl. unfold deblend_source_post. destruct r as [m|]; [|exact I].
  set (sl := slice_of l). set (mk := fun i j => at2 m i j).
  destruct (negb (forallb _ (slice_pixels sl))) eqn:EG; [exact I|].
  apply negb_false_iff in EG. rewrite forallb_forall in EG.
  assert (G : forall y x, in_slice sl y x = true -> (sg y x = l <-> mk (cy sl y) (cx sl x) <> 0)).
  { intros y x H. apply in_slice_pixels in H. specialize (EG _ H). cbn in EG.
    apply eqb_prop in EG. rewrite <- Nat.eqb_eq, EG, negb_true_iff, Nat.eqb_neq. reflexivity. }
  change (map (fun '(y, x) => mk (cy sl y) (cx sl x)) (slice_pixels sl)) with (cut_vals sl mk).
  set (vals := cut_vals sl mk). set (labs := uniq_labels vals).
  destruct (length labs =? 1) eqn:E1; [exact I|]. apply Nat.eqb_neq in E1.
  assert (Hk : 2 <= length labs).
  { apply islabel_spec in Hl. destruct Hl as [Hl0 [y [x [_ [_ E]]]]].
    pose proof (slice_covers l y x Hl0 E) as Hs. fold sl in Hs.
    assert (Hin : In (mk (cy sl y) (cx sl x)) labs).
    { apply uniq_labels_In. split; [apply G; assumption|]. apply In_cut_vals. exists y, x. auto. }
    destruct labs; [destruct Hin|]. cbn in *. lia. }
  pose proof (create_relabel_map_spec vals) as Hspec. fold labs in Hspec.
  destruct (create_relabel_map labs) as [f|].
  - destruct Hspec as [_ [Hz [_ Hseq]]]. split.
    + intros y x H. rewrite (G y x H). fold sl.
      assert (Hv : In (mk (cy sl y) (cx sl x)) vals) by (apply In_cut_vals; exists y, x; auto).
      specialize (Hz _ Hv). tauto.
    + exists (length labs). split; [exact Hk|]. fold sl.
      apply uniq_labels_seq. intros v. rewrite In_child_vals.
      assert (Hcv : cut_vals sl (fun i j => f (mk i j)) = map f vals).
      { unfold vals, cut_vals. rewrite map_map. apply map_ext. intros [y x]. reflexivity. }
      rewrite Hcv. rewrite <- in_seq_1. unfold labs. rewrite <- Hseq, uniq_labels_In. tauto.
  - split; [exact G|]. exists (length labs). split; [exact Hk|]. fold sl.
    apply uniq_labels_seq. intros v. rewrite In_child_vals. fold vals.
    rewrite <- in_seq_1, <- Hspec. unfold labs. rewrite uniq_labels_In. tauto.
Qed.

(* ---- the invariant of the merge loop ---- *)
Record Inv (s : st) : Prop := {
  inv_sup : forall y x, out s y x <> 0 <-> sg y x <> 0;
  inv_max0 : maxl segvals <= maxlab s;
  inv_bound : forall y x, out s y x <= maxlab s;
  inv_keys : NoDup (map fst (dmap s));
  inv_map : forall p cs, In (p, cs) (dmap s) ->
      islabel p /\ 2 <= length cs /\ NoDup cs /\
      (forall c, In c cs -> maxl segvals < c <= maxlab s) /\
      (forall y x, In (out s y x) cs <-> sg y x = p) /\
      (forall c, In c cs -> exists y x, out s y x = c);
  inv_other : forall q, islabel q -> ~ In q (map fst (dmap s)) ->
      forall y x, out s y x = q <-> sg y x = q
}.

Definition init_st : st :=
  {| out := sg; dmap := []; maxlab := maxl segvals; npm := []; nmk := [] |}.

Lemma Inv_init : Inv init_st.
Proof.
  constructor; cbn.
  - tauto.
  - lia.
  - apply sg_le.
  - constructor.
  - intros p cs [].
  - tauto.
Qed.

Lemma merge_one_skip s l p w : (forall c, p <> PSome c) ->
  out (merge_one ny nx seg s (l, (p, w))) = out s /\
  dmap (merge_one ny nx seg s (l, (p, w))) = dmap s /\
  maxlab (merge_one ny nx seg s (l, (p, w))) = maxlab s.
Proof.
  intros H. destruct w as [w1 w2]. destruct p as [| |c]; [| |exfalso; apply (H c); reflexivity];
    cbn; auto.
Qed.

Lemma out_merge_raw s l child w y x :
  out (merge_one ny nx seg s (l, (PSome child, w))) y x =
  if in_slice (slice_of l) y x && (0 <? child (cy (slice_of l) y) (cx (slice_of l) x))
  then child (cy (slice_of l) y) (cx (slice_of l) x) + maxlab s else out s y x.
Proof. destruct w as [w1 w2]. reflexivity. Qed.

Lemma out_merge s l child w y x : l <> 0 -> good_child l child ->
  out (merge_one ny nx seg s (l, (PSome child, w))) y x =
  if sg y x =? l then child (cy (slice_of l) y) (cx (slice_of l) x) + maxlab s else out s y x.
Proof.
  intros Hl [G _]. rewrite out_merge_raw.
  destruct (in_slice (slice_of l) y x) eqn:Es; cbn [andb].
  - specialize (G y x Es).
    destruct (0 <? child (cy (slice_of l) y) (cx (slice_of l) x)) eqn:Ec.
    + apply Nat.ltb_lt in Ec. assert (E : sg y x = l) by (apply G; lia).
      apply Nat.eqb_eq in E. rewrite E. reflexivity.
    + apply Nat.ltb_ge in Ec. destruct (sg y x =? l) eqn:E; [|reflexivity].
      apply Nat.eqb_eq in E. apply G in E. lia.
  - destruct (sg y x =? l) eqn:E; [|reflexivity]. apply Nat.eqb_eq in E.
    rewrite (slice_covers l y x Hl E) in Es. discriminate.
Qed.

Lemma dmap_merge s l child w :
  dmap (merge_one ny nx seg s (l, (PSome child, w))) =
  dict_set l (map (fun c => c + maxlab s) (uniq_labels (child_vals (slice_of l) child))) (dmap s).
Proof. destruct w as [w1 w2]. reflexivity. Qed.

Lemma maxlab_merge s l child w :
  maxlab (merge_one ny nx seg s (l, (PSome child, w))) =
  maxlab s + length (uniq_labels (child_vals (slice_of l) child)).
Proof. destruct w as [w1 w2]. cbn. rewrite map_length. reflexivity. Qed.

Lemma merge_one_inv s l p w : Inv s -> islabel l -> good_post l p ->
  Inv (merge_one ny nx seg s (l, (p, w))).
Proof.
  intros HI Hl Hg. destruct p as [| |child].
  1,2: (match goal with |- Inv (merge_one _ _ _ _ (_, (?p, _))) =>
          destruct (merge_one_skip s l p w) as [Eo [Ed Em]] end; [intros c; discriminate|];
        destruct HI as [H1 H2 H3 H4 H5 H6]; constructor; rewrite ?Eo, ?Ed, ?Em; assumption).
  cbn in Hg. assert (Hl0 : l <> 0) by (apply islabel_spec in Hl; tauto).
  pose proof (out_merge s l child w) as Eo.
  pose proof (dmap_merge s l child w) as Ed. pose proof (maxlab_merge s l child w) as Em.
  set (s' := merge_one ny nx seg s (l, (PSome child, w))) in *.
  pose proof Hg as Hg0. destruct Hg0 as [G [k [Hk R]]].
  specialize (fun y x => Eo y x Hl0 Hg).
  rewrite R in Ed, Em. rewrite seq_length in Em. rewrite map_add_seq in Ed.
  set (ml := maxlab s) in *. set (sl := slice_of l) in *.
  (* facts about the children *)
  assert (C1 : forall y x, sg y x = l -> 1 <= child (cy sl y) (cx sl x) <= k).
  { intros y x E. pose proof (slice_covers l y x Hl0 E) as Hs. fold sl in Hs.
    apply in_seq_1. rewrite <- R. apply uniq_labels_In.
    assert (child (cy sl y) (cx sl x) <> 0) by (apply G; assumption).
    split; [assumption|]. apply In_child_vals. split; [assumption|].
    apply In_cut_vals. exists y, x. auto. }
  assert (C2 : forall j, 1 <= j <= k -> exists y x, sg y x = l /\ child (cy sl y) (cx sl x) = j).
  { intros j Hj. apply in_seq_1 in Hj. rewrite <- R in Hj. apply uniq_labels_In in Hj.
    destruct Hj as [Hj0 Hj]. apply In_child_vals in Hj. destruct Hj as [_ Hj].
    apply In_cut_vals in Hj. destruct Hj as [y [x [Hs E]]]. exists y, x. split; [|exact E].
    apply G; [exact Hs|]. fold sl. lia. }
  destruct HI as [H1 H2 H3 H4 H5 H6].
  constructor.
  - intros y x. rewrite Eo. destruct (sg y x =? l) eqn:E.
    + apply Nat.eqb_eq in E. pose proof (C1 y x E). split; intros _; [congruence|lia].
    + apply H1.
  - lia.
  - intros y x. rewrite Eo, Em. destruct (sg y x =? l) eqn:E.
    + apply Nat.eqb_eq in E. pose proof (C1 y x E). lia.
    + specialize (H3 y x). lia.
  - rewrite Ed. apply NoDup_keys_dict_set. exact H4.
  - intros p cs Hin. rewrite Ed in Hin. apply In_dict_set in Hin; [|exact H4].
    destruct Hin as [[-> ->]|[Hpl Hin]].
    + split; [exact Hl|]. split; [rewrite seq_length; exact Hk|]. split; [apply seq_NoDup|].
      split; [|split].
      * intros c Hc. apply in_seq in Hc. rewrite Em. lia.
      * intros y x. rewrite Eo, in_seq. destruct (sg y x =? l) eqn:E.
        -- apply Nat.eqb_eq in E. pose proof (C1 y x E). split; intros _; [exact E|lia].
        -- apply Nat.eqb_neq in E. specialize (H3 y x). split; [lia|congruence].
      * intros c Hc. apply in_seq in Hc. destruct (C2 (c - ml)) as [y [x [E Ec]]]; [lia|].
        exists y, x. rewrite Eo. apply Nat.eqb_eq in E. rewrite E, Ec. lia.
    + destruct (H5 p cs Hin) as [Hp [Hlen [Hnd [Hrange [Hpart Hne]]]]].
      split; [exact Hp|]. split; [exact Hlen|]. split; [exact Hnd|]. split; [|split].
      * intros c Hc. specialize (Hrange c Hc). lia.
      * intros y x. rewrite Eo. destruct (sg y x =? l) eqn:E.
        -- apply Nat.eqb_eq in E. pose proof (C1 y x E). split.
           ++ intros Hc. specialize (Hrange _ Hc). lia.
           ++ congruence.
        -- apply Hpart.
      * intros c Hc. destruct (Hne c Hc) as [y [x E]]. exists y, x. rewrite Eo.
        assert (Hsp : sg y x = p) by (apply Hpart; rewrite E; exact Hc).
        destruct (sg y x =? l) eqn:E'; [|exact E]. apply Nat.eqb_eq in E'. congruence.
  - intros q Hq Hnk y x. rewrite Ed, keys_dict_set in Hnk.
    assert (q <> l) by tauto. assert (Hnk' : ~ In q (map fst (dmap s))) by tauto.
    rewrite Eo. destruct (sg y x =? l) eqn:E.
    + apply Nat.eqb_eq in E. pose proof (C1 y x E). pose proof (islabel_le q Hq). split; [lia|congruence].
    + apply H6; assumption.
Qed.

(* ---- the serial loop ---- *)
Section Serial.
Variable raw : nat -> option img2.
Variable warns : nat -> bool * bool.

Lemma fold_serial_None labels :
  fold_left (serial_step ny nx seg raw warns) labels None = None.
Proof. induction labels as [|l r IH]; cbn; auto. Qed.

Lemma worker_good l : islabel l -> good_post l (fst (worker ny nx seg raw warns l)).
Proof. intros H. unfold worker. cbn. apply post_good. exact H. Qed.

Lemma serial_cons l r s0 :
  serial ny nx seg raw warns (l :: r) s0 =
  if is_fail (fst (worker ny nx seg raw warns l)) then None
  else serial ny nx seg raw warns r (merge_one ny nx seg s0 (l, worker ny nx seg raw warns l)).
Proof.
  unfold serial. cbn [fold_left].
  change (serial_step ny nx seg raw warns (Some s0) l) with
    (if is_fail (fst (worker ny nx seg raw warns l)) then None
     else Some (merge_one ny nx seg s0 (l, worker ny nx seg raw warns l))).
  destruct (is_fail (fst (worker ny nx seg raw warns l))); [apply fold_serial_None|reflexivity].
Qed.

Lemma serial_inv labels : forall s0 s, Forall islabel labels -> Inv s0 ->
  serial ny nx seg raw warns labels s0 = Some s -> Inv s.
Proof.
  induction labels as [|l r IH]; intros s0 s Hall HI E.
  - inversion E. subst. exact HI.
  - inversion Hall as [|? ? Hl Hr]; subst. rewrite serial_cons in E.
    destruct (is_fail (fst (worker ny nx seg raw warns l))) eqn:Ef; [discriminate|].
    apply (IH _ s Hr) in E; [exact E|].
    pose proof (worker_good l Hl) as Hg.
    destruct (worker ny nx seg raw warns l) as [p w]. apply merge_one_inv; assumption.
Qed.


(* ---- per-source independence: what the loop leaves on the pixels of a label l is
   determined by the worker result for l alone (up to the additive label offset) ---- *)
Lemma merge_other s a y x : islabel a -> sg y x <> a ->
  out (merge_one ny nx seg s (a, worker ny nx seg raw warns a)) y x = out s y x.
Proof.
  intros Ha Hne. pose proof (worker_good a Ha) as Hg.
  destruct (worker ny nx seg raw warns a) as [p w]. cbn [fst] in Hg. destruct p as [| |child].
  1,2: (match goal with |- out (merge_one _ _ _ _ (_, (?p, _))) _ _ = _ =>
          destruct (merge_one_skip s a p w) as [Eo _] end; [intros c; discriminate|]; rewrite Eo; reflexivity).
  assert (Ha0 : a <> 0) by (apply islabel_spec in Ha; tauto).
  rewrite (out_merge s a child w y x Ha0 Hg).
  apply Nat.eqb_neq in Hne. rewrite Hne. reflexivity.
Qed.

Lemma serial_shape labels l : forall s0 s, Forall islabel labels ->
  serial ny nx seg raw warns labels s0 = Some s ->
  match fst (worker ny nx seg raw warns l) with
  | PSome child =>
      (In l labels \/ exists ml, forall y x, sg y x = l ->
           out s0 y x = child (cy (slice_of l) y) (cx (slice_of l) x) + ml) ->
      exists ml, forall y x, sg y x = l ->
           out s y x = child (cy (slice_of l) y) (cx (slice_of l) x) + ml
  | _ => forall y x, sg y x = l -> out s y x = out s0 y x
  end.
Proof.
  induction labels as [|a r IH]; intros s0 s Hall E.
  - inversion E; subst. destruct (fst (worker ny nx seg raw warns l)); auto.
    intros [[]|H]; exact H.
  - inversion Hall as [|? ? Ha Hr]; subst. rewrite serial_cons in E.
    destruct (is_fail (fst (worker ny nx seg raw warns a))) eqn:Ef; [discriminate|].
    specialize (IH _ s Hr E).
    destruct (Nat.eq_dec a l) as [->|Hal].
    + (* the label itself is merged *)
      pose proof (worker_good l Ha) as Hg.
      destruct (worker ny nx seg raw warns l) as [p w] eqn:Ew. cbn [fst] in *.
      destruct p as [| |child].
      * cbn in Ef. discriminate.
      * intros y x Hs. rewrite (IH y x Hs).
        destruct (merge_one_skip s0 l PNone w) as [Eo _]; [intros c; discriminate|]. rewrite Eo. reflexivity.
      * intros _. apply IH. right. exists (maxlab s0). intros y x Hs.
        assert (Hl0 : l <> 0) by (apply islabel_spec in Ha; tauto).
        rewrite (out_merge s0 l child w y x Hl0 Hg).
        apply Nat.eqb_eq in Hs. rewrite Hs. reflexivity.
    + (* another label: the pixels of l are not touched *)
      assert (Hkeep : forall y x, sg y x = l ->
                out (merge_one ny nx seg s0 (a, worker ny nx seg raw warns a)) y x = out s0 y x).
      { intros y x Hs. apply merge_other; [exact Ha|congruence]. }
      destruct (fst (worker ny nx seg raw warns l)) as [| |child].
      * intros y x Hs. rewrite (IH y x Hs). apply Hkeep, Hs.
      * intros y x Hs. rewrite (IH y x Hs). apply Hkeep, Hs.
      * intros [[Hin|Hin]|[ml Hml]].
        -- contradiction.
        -- apply IH. left. exact Hin.
        -- apply IH. right. exists ml. intros y x Hs. rewrite (Hkeep y x Hs). apply Hml, Hs.
Qed.
End Serial.

(* ------------------------------------------------------------------ *)
(* Part 3: the returned image refines the input                        *)
(* ------------------------------------------------------------------ *)
Record Refines (relabel : bool) (r : result) : Prop := {
  rf_sup : forall y x, y < ny -> x < nx -> (at2 (r_data r) y x <> 0 <-> sg y x <> 0);
  rf_keys : NoDup (map fst (r_dmap r));
  rf_map : forall p cs, In (p, cs) (r_dmap r) ->
     islabel p /\ 2 <= length cs /\ NoDup cs /\ ~ In 0 cs /\
     (forall y x, y < ny -> x < nx -> (In (at2 (r_data r) y x) cs <-> sg y x = p)) /\
     (forall c, In c cs -> exists y x, y < ny /\ x < nx /\ at2 (r_data r) y x = c);
  rf_other : forall q, islabel q -> ~ In q (map fst (r_dmap r)) ->
     exists q', (relabel = false -> q' = q) /\ q' <> 0 /\
       forall y x, y < ny -> x < nx -> (at2 (r_data r) y x = q' <-> sg y x = q);
  rf_consec : relabel = true -> exists n, uniq_labels (concat (r_data r)) = seq 1 n;
  rf_input : r_input r = seg
}.

Lemma NoDup_map_inj_on (f : nat -> nat) l :
  NoDup l -> (forall u v, In u l -> In v l -> f u = f v -> u = v) -> NoDup (map f l).
Proof.
  induction l as [|a l IH]; intros Hnd Hinj; cbn; [constructor|].
  inversion Hnd as [|? ? Hnotin Hnd']; subst. constructor.
  - intros Hin. apply in_map_iff in Hin. destruct Hin as [b [E Hb]].
    assert (b = a) by (apply Hinj; [right; exact Hb|left; reflexivity|exact E]). subst. contradiction.
  - apply IH; [exact Hnd'|]. intros u v Hu Hv. apply Hinj; right; assumption.
Qed.

Lemma Inv_pixel_frame s c : Inv s -> c <> 0 -> forall y x, out s y x = c -> y < ny /\ x < nx.
Proof. intros HI Hc y x E. apply sg_frame. apply (inv_sup s HI). congruence. Qed.

(* without a relabel map *)
Lemma plain_refines s relabel :
  Inv s -> (relabel = true -> exists n, uniq_labels (concat (tabulate ny nx (out s))) = seq 1 n) ->
  Refines relabel {| r_data := tabulate ny nx (out s); r_dmap := dmap s; r_npm := npm s;
                     r_nmk := nmk s; r_input := seg |}.
Proof.
  intros HI Hc. pose proof HI as [H1 H2 H3 H4 H5 H6]. constructor; cbn [r_data r_dmap r_input].
  - intros y x Hy Hx. rewrite at2_tabulate by assumption. apply H1.
  - exact H4.
  - intros p cs Hin. destruct (H5 p cs Hin) as [Hp [Hlen [Hnd [Hrange [Hpart Hne]]]]].
    split; [exact Hp|]. split; [exact Hlen|]. split; [exact Hnd|]. split; [|split].
    + intros Hz0. specialize (Hrange 0 Hz0). lia.
    + intros y x Hy Hx. rewrite at2_tabulate by assumption. apply Hpart.
    + intros c Hc'. destruct (Hne c Hc') as [y [x E]].
      assert (c <> 0) by (specialize (Hrange c Hc'); lia).
      destruct (Inv_pixel_frame s c HI H y x E) as [Hy Hx].
      exists y, x. rewrite at2_tabulate by assumption. auto.
  - intros q Hq Hnk. exists q. split; [reflexivity|]. split; [apply islabel_spec in Hq; tauto|].
    intros y x Hy Hx. rewrite at2_tabulate by assumption. apply H6; assumption.
  - exact Hc.
  - reflexivity.
Qed.

Lemma finish_refines relabel dtmax s r :
  Inv s -> finish ny nx seg relabel dtmax s = Ok r -> Refines relabel r.
Proof.
  intros HI. unfold finish.
  destruct (match dtmax with Some m => (m <? Z.of_nat (maxlab s))%Z | None => false end); [discriminate|].
  destruct relabel.
  2:{ intros E. inversion E. apply plain_refines; [exact HI|discriminate]. }
  set (outl := tabulate ny nx (out s)). set (vals := concat outl).
  pose proof (create_relabel_map_spec vals) as Hspec.
  destruct (create_relabel_map (uniq_labels vals)) as [f|]; intros E; inversion E; clear E.
  2:{ apply plain_refines; [exact HI|]. intros _. eexists. exact Hspec. }
  destruct Hspec as [F0 [Fz [Finj Fseq]]].
  pose proof HI as [H1 H2 H3 H4 H5 H6].
  assert (Hvals : forall y x, y < ny -> x < nx -> In (out s y x) vals).
  { intros y x Hy Hx. apply in_concat_tabulate. exists y, x. auto. }
  assert (Hat : forall y x, y < ny -> x < nx -> at2 (map (map f) outl) y x = f (out s y x)).
  { intros y x Hy Hx. rewrite at2_map_map by exact F0. unfold outl. rewrite at2_tabulate by assumption. reflexivity. }
  assert (Hkeys : map fst (map (fun '(p, cs) => (p, map f cs)) (dmap s)) = map fst (dmap s)).
  { rewrite map_map. apply map_ext. intros [p cs]. reflexivity. }
  (* every child label occurs in the array, in the frame *)
  assert (Hchild : forall p cs c, In (p, cs) (dmap s) -> In c cs -> c <> 0 /\ In c vals).
  { intros p cs c Hin Hc. destruct (H5 p cs Hin) as [_ [_ [_ [Hrange [_ Hne]]]]].
    assert (c <> 0) by (specialize (Hrange c Hc); lia). split; [assumption|].
    destruct (Hne c Hc) as [y [x Ey]]. destruct (Inv_pixel_frame s c HI H y x Ey). rewrite <- Ey. auto. }
  constructor; cbn [r_data r_dmap r_input].
  - intros y x Hy Hx. rewrite Hat by assumption. rewrite <- H1.
    specialize (Fz _ (Hvals y x Hy Hx)). tauto.
  - rewrite Hkeys. exact H4.
  - intros p cs' Hin. apply in_map_iff in Hin. destruct Hin as [[p0 cs] [E Hin]].
    inversion E; subst p0 cs'; clear E.
    destruct (H5 p cs Hin) as [Hp [Hlen [Hnd [Hrange [Hpart Hne]]]]].
    split; [exact Hp|]. split; [rewrite map_length; exact Hlen|]. split; [|split; [|split]].
    + apply NoDup_map_inj_on; [exact Hnd|]. intros u v Hu Hv Ef.
      destruct (Hchild p cs u Hin Hu). destruct (Hchild p cs v Hin Hv). apply Finj; assumption.
    + intros Hz0. apply in_map_iff in Hz0. destruct Hz0 as [c [Ec Hc]].
      destruct (Hchild p cs c Hin Hc) as [Hc0 Hcv]. specialize (Fz c Hcv). tauto.
    + intros y x Hy Hx. rewrite Hat by assumption. rewrite <- Hpart. split.
      * intros Hm. apply in_map_iff in Hm. destruct Hm as [c [Ec Hc]].
        destruct (Hchild p cs c Hin Hc) as [Hc0 Hcv].
        assert (c = out s y x) by (apply Finj; auto). subst c. exact Hc.
      * apply in_map.
    + intros c' Hc'. apply in_map_iff in Hc'. destruct Hc' as [c [<- Hc]].
      destruct (Hne c Hc) as [y [x Ey]]. destruct (Hchild p cs c Hin Hc) as [Hc0 _].
      destruct (Inv_pixel_frame s c HI Hc0 y x Ey) as [Hy Hx].
      exists y, x. rewrite Hat by assumption. rewrite Ey. auto.
  - intros q Hq Hnk. rewrite Hkeys in Hnk. exists (f q).
    assert (Hq0 : q <> 0) by (apply islabel_spec in Hq; tauto).
    assert (Hqv : In q vals).
    { destruct (proj1 (islabel_spec q) Hq) as [_ [y [x [Hy [Hx E]]]]].
      apply (H6 q Hq Hnk) in E. rewrite <- E. auto. }
    split; [discriminate|]. split; [specialize (Fz q Hqv); tauto|].
    intros y x Hy Hx. rewrite Hat by assumption. rewrite <- (H6 q Hq Hnk). split.
    + intros Ef. symmetry. apply Finj; auto.
    + intros ->. reflexivity.
  - intros _. eexists. unfold outl in *. rewrite concat_map_map. exact Fseq.
  - reflexivity.
Qed.
End Merge.

(* ------------------------------------------------------------------ *)
(* Part 3b: each child has at least npixels pixels, GIVEN that every    *)
(* label of the watershed output has (hypothesis (W), library numerics) *)
(* ------------------------------------------------------------------ *)
Definition atleast (n : nat) (P : nat -> nat -> Prop) : Prop :=
  exists ps : list (nat * nat), NoDup ps /\ n <= length ps /\ forall y x, In (y, x) ps -> P y x.

Lemma atleast_impl n (P Q : nat -> nat -> Prop) :
  (forall y x, P y x -> Q y x) -> atleast n P -> atleast n Q.
Proof. intros H [ps [H1 [H2 H3]]]. exists ps. split; [exact H1|]. split; [exact H2|]. intros y x Hin. apply H, H3, Hin. Qed.

Section Npix.
Variables (ny nx : nat) (seg : img2) (npix : nat).
Notation sg := (sg ny nx seg).
Notation slice_of := (slice_of ny nx seg).
Notation islabel := (islabel ny nx seg).
Notation Inv := (Inv ny nx seg).
Notation good_post := (good_post ny nx seg).
Notation good_child := (good_child ny nx seg).

Definition big_child (l : nat) (child : nat -> nat -> nat) : Prop :=
  forall j, j <> 0 -> In j (cut_vals (slice_of l) child) ->
    atleast npix (fun y x => in_slice (slice_of l) y x = true /\
                             child (cy (slice_of l) y) (cx (slice_of l) x) = j).
Definition big_post (l : nat) (p : post) : Prop :=
  match p with PSome child => big_child l child | _ => True end.
(* (W): every label of the array returned by apply_watershed for parent l covers at
   least npixels pixels of the cutout *)
Definition watershed_big (l : nat) (r : option img2) : Prop :=
  match r with Some m => big_child l (fun i j => at2 m i j) | None => True end.

Lemma post_big l r : watershed_big l r -> big_post l (deblend_source_post ny nx seg l (slice_of l) r).
Proof.
  intros W. unfold deblend_source_post. destruct r as [m|]; [|exact I].
  set (sl := slice_of l) in *. set (mk := fun i j => at2 m i j) in *.
  destruct (negb (forallb _ (slice_pixels sl))); [exact I|].
  change (map (fun '(y, x) => mk (cy sl y) (cx sl x)) (slice_pixels sl)) with (cut_vals sl mk).
  set (vals := cut_vals sl mk).
  destruct (length (uniq_labels vals) =? 1); [exact I|].
  pose proof (create_relabel_map_spec vals) as Hspec.
  destruct (create_relabel_map (uniq_labels vals)) as [f|]; [|exact W].
  destruct Hspec as [F0 _]. intros j Hj0 Hin. fold sl in Hin. fold sl.
  apply In_cut_vals in Hin. destruct Hin as [y [x [Hs E]]].
  set (v := mk (cy sl y) (cx sl x)) in *.
  assert (Hv0 : v <> 0) by (intros Ev; rewrite Ev in E; congruence).
  assert (Hv : In v (cut_vals sl mk)) by (apply In_cut_vals; exists y, x; auto).
  apply (atleast_impl npix _ _) with (2 := W v Hv0 Hv).
  cbn beta. intros y' x' [Hs' E']. split; [exact Hs'|]. fold sl in E'. unfold mk in *. rewrite E'. exact E.
Qed.

Definition Big (s : st) : Prop :=
  forall p cs c, In (p, cs) (dmap s) -> In c cs -> atleast npix (fun y x => out s y x = c).

Lemma merge_one_big s l p w : Inv s -> Big s -> islabel l -> good_post l p -> big_post l p ->
  Big (merge_one ny nx seg s (l, (p, w))).
Proof.
  intros HI HB Hl Hg Hb. destruct p as [| |child].
  1,2: (match goal with |- Big (merge_one _ _ _ _ (_, (?p, _))) =>
          destruct (merge_one_skip ny nx seg s l p w) as [Eo [Ed Em]] end; [intros c; discriminate|];
        unfold Big; rewrite Eo, Ed; exact HB).
  cbn in Hg, Hb. assert (Hl0 : l <> 0) by (apply islabel_spec in Hl; tauto).
  pose proof (out_merge ny nx seg s l child w) as Eo.
  pose proof (dmap_merge ny nx seg s l child w) as Ed.
  pose proof Hg as Hg0. destruct Hg0 as [G [k [Hk R]]].
  specialize (fun y x => Eo y x Hl0 Hg).
  rewrite R in Ed. rewrite map_add_seq in Ed.
  set (ml := maxlab s) in *. set (sl := slice_of l) in *.
  intros p cs c Hin Hc. rewrite Ed in Hin. apply In_dict_set in Hin; [|apply (inv_keys _ _ _ s HI)].
  destruct Hin as [[-> ->]|[Hpl Hin]].
  - apply in_seq in Hc.
    assert (Hj : In (c - ml) (seq 1 k)) by (apply in_seq; lia).
    rewrite <- R in Hj. apply uniq_labels_In in Hj. destruct Hj as [Hj0 Hj].
    apply In_child_vals in Hj. destruct Hj as [_ Hj].
    apply (atleast_impl npix _ _) with (2 := Hb (c - ml) Hj0 Hj).
    cbn beta. fold sl. intros y x [Hs E]. rewrite Eo.
    assert (Es : sg y x = l) by (apply G; [exact Hs|fold sl; lia]).
    apply Nat.eqb_eq in Es. rewrite Es, E. lia.
  - apply (atleast_impl npix _ _) with (2 := HB p cs c Hin Hc).
    cbn beta. intros y x E. rewrite Eo.
    destruct (inv_map _ _ _ s HI p cs Hin) as [_ [_ [_ [_ [Hpart _]]]]].
    assert (Hsp : sg y x = p) by (apply Hpart; rewrite E; exact Hc).
    destruct (sg y x =? l) eqn:E'; [|exact E]. apply Nat.eqb_eq in E'. congruence.
Qed.

Lemma serial_big raw warns labels : forall s0 s, Forall islabel labels ->
  (forall l, watershed_big l (raw l)) -> Inv s0 -> Big s0 ->
  serial ny nx seg raw warns labels s0 = Some s -> Big s.
Proof.
  induction labels as [|l r IH]; intros s0 s Hall HW HI HB E.
  - inversion E. subst. exact HB.
  - inversion Hall as [|? ? Hl Hr]; subst. rewrite serial_cons in E.
    destruct (is_fail (fst (worker ny nx seg raw warns l))) eqn:Ef; [discriminate|].
    pose proof (worker_good ny nx seg raw warns l Hl) as Hg.
    assert (Hb : big_post l (fst (worker ny nx seg raw warns l))) by (apply post_big, HW).
    destruct (worker ny nx seg raw warns l) as [p w]. cbn [fst] in *.
    apply (IH _ s Hr HW) in E; [exact E| |].
    + apply merge_one_inv; assumption.
    + apply merge_one_big; assumption.
Qed.

Lemma finish_big relabel dtmax s r : Inv s -> Big s -> finish ny nx seg relabel dtmax s = Ok r ->
  forall p cs c, In (p, cs) (r_dmap r) -> In c cs ->
    atleast npix (fun y x => y < ny /\ x < nx /\ at2 (r_data r) y x = c).
Proof.
  intros HI HB. unfold finish.
  destruct (match dtmax with Some m => (m <? Z.of_nat (maxlab s))%Z | None => false end); [discriminate|].
  assert (Hplain : forall p cs c, In (p, cs) (dmap s) -> In c cs ->
            atleast npix (fun y x => y < ny /\ x < nx /\ at2 (tabulate ny nx (out s)) y x = c)).
  { intros p cs c Hin Hc. apply (atleast_impl npix _ _) with (2 := HB p cs c Hin Hc).
    cbn beta. intros y x E.
    destruct (inv_map _ _ _ s HI p cs Hin) as [_ [_ [_ [Hrange _]]]].
    assert (c <> 0) by (specialize (Hrange c Hc); lia).
    destruct (Inv_pixel_frame ny nx seg s c HI H y x E) as [Hy Hx].
    rewrite at2_tabulate by assumption. auto. }
  destruct relabel.
  2:{ intros E; inversion E. exact Hplain. }
  set (outl := tabulate ny nx (out s)) in *. set (vals := concat outl).
  pose proof (create_relabel_map_spec vals) as Hspec.
  destruct (create_relabel_map (uniq_labels vals)) as [f|]; intros E; inversion E; clear E; [|exact Hplain].
  destruct Hspec as [F0 _]. cbn [r_data r_dmap].
  intros p cs' c' Hin Hc'. apply in_map_iff in Hin. destruct Hin as [[p0 cs] [E Hin]].
  inversion E; subst p0 cs'; clear E. apply in_map_iff in Hc'. destruct Hc' as [c [<- Hc]].
  apply (atleast_impl npix _ _) with (2 := Hplain p cs c Hin Hc).
  cbn beta. intros y x [Hy [Hx E]]. split; [exact Hy|]. split; [exact Hx|].
  rewrite at2_map_map by exact F0. rewrite E. reflexivity.
Qed.
End Npix.

(* ------------------------------------------------------------------ *)
(* Part 4: schedule independence                                       *)
(* ------------------------------------------------------------------ *)
Lemma upd_comm {A} i j (a b : A) l : i <> j -> upd i a (upd j b l) = upd j b (upd i a l).
Proof.
  revert i j; induction l as [|x l IH]; intros i j H; [destruct i, j; reflexivity|].
  destruct i as [|i], j as [|j]; cbn; try reflexivity; [congruence|].
  f_equal. apply IH. congruence.
Qed.

Lemma upd_app {A} (v : A) pre x rest : upd (length pre) v (pre ++ x :: rest) = pre ++ v :: rest.
Proof. induction pre as [|a pre IH]; cbn; [reflexivity|]. f_equal. exact IH. Qed.

Lemma fold_collect_None es : fold_left collect_step es None = None.
Proof. induction es as [|e es IH]; cbn; auto. Qed.

Lemma collect_step_comm acc a b : fst a <> fst b ->
  collect_step (collect_step acc a) b = collect_step (collect_step acc b) a.
Proof.
  intros H. destruct acc as [slots|]; [|reflexivity].
  destruct a as [i ra], b as [j rb]. cbn in H. cbn.
  destruct (is_fail (fst ra)) eqn:Ea, (is_fail (fst rb)) eqn:Eb; cbn; rewrite ?Ea, ?Eb; try reflexivity.
  f_equal. apply upd_comm. congruence.
Qed.

(* the order in which the futures complete does not matter *)
Lemma fold_collect_perm es es' : Permutation es es' -> NoDup (map fst es) ->
  forall acc, fold_left collect_step es acc = fold_left collect_step es' acc.
Proof.
  induction 1 as [|e es es' HP IH|a b es|es1 es2 es3 HP1 IH1 HP2 IH2]; intros Hnd acc.
  - reflexivity.
  - cbn. apply IH. inversion Hnd; assumption.
  - cbn. f_equal. apply collect_step_comm. cbn in Hnd. inversion Hnd as [|? ? Hnotin _]; subst.
    intros E. apply Hnotin. left. symmetry. exact E.
  - rewrite IH1 by exact Hnd. apply IH2.
    apply (Permutation_NoDup (Permutation_map fst HP1)). exact Hnd.
Qed.

Definition any_fail (rs : list R) : bool := existsb (fun r => is_fail (fst r)) rs.

(* completion in submission order fills the slots from left to right *)
Lemma fold_collect_inorder rs : forall k pre, length pre = k ->
  fold_left collect_step (combine (seq k (length rs)) rs) (Some (pre ++ repeat None (length rs))) =
  if any_fail rs then None else Some (pre ++ map Some rs).
Proof.
  induction rs as [|r rs IH]; intros k pre Hk; cbn [length seq combine fold_left repeat any_fail existsb map].
  - reflexivity.
  - cbn [collect_step]. destruct (is_fail (fst r)) eqn:Ef; cbn [orb].
    + apply fold_collect_None.
    + subst k. rewrite upd_app.
      replace (pre ++ Some r :: repeat None (length rs)) with ((pre ++ [Some r]) ++ repeat None (length rs))
        by (rewrite <- app_assoc; reflexivity).
      rewrite (IH (S (length pre)) (pre ++ [Some r])) by (rewrite app_length; cbn; lia).
      fold (any_fail rs). destruct (any_fail rs); [reflexivity|].
      rewrite <- app_assoc. reflexivity.
Qed.

Lemma NoDup_fst_combine_seq {A} k (rs : list A) : NoDup (map fst (combine (seq k (length rs)) rs)).
Proof.
  assert (E : map fst (combine (seq k (length rs)) rs) = seq k (length rs)).
  { revert k; induction rs as [|r rs IH]; intros k; cbn; [reflexivity|]. f_equal. apply IH. }
  rewrite E. apply seq_NoDup.
Qed.

Lemma collect_perm n (rs : list R) events : length rs = n ->
  Permutation events (combine (seq 0 n) rs) ->
  collect n events = if any_fail rs then None else Some (map Some rs).
Proof.
  intros Hn HP. subst n. unfold collect.
  rewrite (fold_collect_perm _ _ HP).
  - apply (fold_collect_inorder rs 0 []). reflexivity.
  - apply (Permutation_NoDup (Permutation_map fst (Permutation_sym HP))). apply NoDup_fst_combine_seq.
Qed.

Lemma sequence_map_Some {A} (l : list A) : sequence (map Some l) = Some l.
Proof. induction l as [|a l IH]; cbn; [reflexivity|]. rewrite IH. reflexivity. Qed.

Lemma map_nth_seq {A B} (g : A -> B) (d : A) l : forall k,
  map (fun i => (i, g (nth (i - k) l d))) (seq k (length l)) = combine (seq k (length l)) (map g l).
Proof.
  induction l as [|a l IH]; intros k; cbn [length seq map combine]; [reflexivity|].
  rewrite Nat.sub_diag. cbn [nth]. f_equal.
  rewrite <- (IH (S k)). apply map_ext_in. intros i Hi. apply in_seq in Hi.
  replace (i - k) with (S (i - S k)) by lia. reflexivity.
Qed.

Section Schedule.
Variables (ny nx : nat) (seg : img2).
Variable raw : nat -> option img2.
Variable warns : nat -> bool * bool.
Notation worker := (worker ny nx seg raw warns).

(* the serial loop = run every worker, fail if one fails, otherwise merge in label order *)
Lemma serial_as_fold labels : forall s0,
  serial ny nx seg raw warns labels s0 =
  if any_fail (map worker labels) then None
  else Some (fold_left (merge_one ny nx seg) (combine labels (map worker labels)) s0).
Proof.
  induction labels as [|l r IH]; intros s0; [reflexivity|].
  rewrite serial_cons. cbn [map any_fail existsb combine fold_left].
  destruct (is_fail (fst (worker l))); [reflexivity|]. cbn [orb]. apply IH.
Qed.

Theorem parallel_eq_serial labels order s0 :
  Permutation order (seq 0 (length labels)) ->
  parallel ny nx seg raw warns labels order s0 =
  match serial ny nx seg raw warns labels s0 with None => ParRaise | Some s => ParOk s end.
Proof.
  intros HP. unfold parallel.
  assert (HE : Permutation (map (fun i => (i, worker (nth i labels 0))) order)
                           (combine (seq 0 (length labels)) (map worker labels))).
  { rewrite <- (map_nth_seq worker 0 labels 0).
    eapply Permutation_trans; [apply Permutation_map; exact HP|].
    apply Permutation_refl'. apply map_ext. intros i. rewrite Nat.sub_0_r. reflexivity. }
  rewrite (collect_perm (length labels) (map worker labels) _ (map_length _ _) HE).
  rewrite serial_as_fold. destruct (any_fail (map worker labels)); [reflexivity|].
  rewrite sequence_map_Some. reflexivity.
Qed.
End Schedule.

(* ------------------------------------------------------------------ *)
(* Part 5: deblend_sources                                             *)
(* ------------------------------------------------------------------ *)
Section Top.
Variables (ny nx : nat) (seg : img2).
Variable raw : nat -> option img2.
Variable warns : nat -> bool * bool.
Notation sg := (sg ny nx seg).
Notation islabel := (islabel ny nx seg).

Lemma sg_in y x : y < ny -> x < nx -> sg y x = at2 seg y x.
Proof.
  intros Hy Hx. unfold C06_Model.sg.
  rewrite (proj2 (Nat.ltb_lt y ny) Hy), (proj2 (Nat.ltb_lt x nx) Hx). reflexivity.
Qed.

Lemma islabel_seg q : islabel q <-> q <> 0 /\ exists y x, y < ny /\ x < nx /\ at2 seg y x = q.
Proof.
  rewrite islabel_spec. split.
  - intros [H0 [y [x [Hy [Hx E]]]]]. split; [exact H0|]. exists y, x.
    rewrite <- sg_in by assumption. auto.
  - intros [H0 [y [x [Hy [Hx E]]]]]. split; [exact H0|]. exists y, x.
    rewrite sg_in by assumption. auto.
Qed.

(* every future completes exactly once: the completion order is a permutation of the
   submission indices 0..n-1 of the selected labels *)
Definition valid_schedule (npix : nat) (labels_arg : option (list nat)) (order : list nat) : Prop :=
  forall labels, selected ny nx seg npix labels_arg = Some labels ->
    Permutation order (seq 0 (length labels)).

Lemma selected_islabel npix labels_arg labels :
  selected ny nx seg npix labels_arg = Some labels -> Forall islabel labels.
Proof.
  unfold selected. intros E. apply Forall_forall. intros l Hl.
  destruct labels_arg as [ls|].
  - destruct (check_labels (uniq_labels (segvals ny nx seg)) ls) eqn:Ec; [|discriminate].
    inversion E; subst. apply filter_In in Hl. destruct Hl as [Hl _].
    unfold check_labels in Ec. rewrite forallb_forall in Ec. specialize (Ec l Hl).
    apply andb_true_iff in Ec. destruct Ec as [_ Ec]. apply mem_In in Ec. exact Ec.
  - inversion E; subst. apply filter_In in Hl. destruct Hl as [Hl _]. exact Hl.
Qed.

Theorem schedule_independent_lemma inmap npix labels_arg nlevels contrast mode_ok relabel dtmax nproc order :
  valid_schedule npix labels_arg order ->
  deblend_sources ny nx seg raw warns inmap npix labels_arg nlevels contrast mode_ok relabel dtmax nproc order =
  deblend_sources ny nx seg raw warns inmap npix labels_arg nlevels contrast mode_ok relabel dtmax 1 [].
Proof.
  intros HV. unfold deblend_sources. destruct contrast as [cn cd].
  destruct (nlevels <? 1)%Z; [reflexivity|].
  destruct ((cn <? 0)%Z || (cd <? cn)%Z); [reflexivity|].
  destruct (cn =? cd)%Z; [reflexivity|].
  destruct (negb mode_ok); [reflexivity|].
  destruct (selected ny nx seg npix labels_arg) as [labels|] eqn:Es; [|reflexivity].
  destruct (nproc =? 1) eqn:En; [reflexivity|]. cbn [Nat.eqb].
  rewrite (parallel_eq_serial ny nx seg raw warns labels order _ (HV labels Es)).
  destruct (serial ny nx seg raw warns labels _); reflexivity.
Qed.

Lemma deblend_refines inmap npix labels_arg nlevels cn cd mode_ok relabel dtmax nproc order r :
  deblend_sources ny nx seg raw warns inmap npix labels_arg nlevels (cn, cd) mode_ok relabel dtmax nproc order = Ok r ->
  cn <> cd -> valid_schedule npix labels_arg order ->
  Refines ny nx seg relabel r.
Proof.
  intros E Hc HV. rewrite (schedule_independent_lemma _ _ _ _ _ _ _ _ _ _ HV) in E.
  unfold deblend_sources in E.
  destruct (nlevels <? 1)%Z; [discriminate|].
  destruct ((cn <? 0)%Z || (cd <? cn)%Z); [discriminate|].
  destruct (cn =? cd)%Z eqn:Ecc; [apply Z.eqb_eq in Ecc; contradiction|].
  destruct (negb mode_ok); [discriminate|].
  destruct (selected ny nx seg npix labels_arg) as [labels|] eqn:Es; [|discriminate].
  cbn [Nat.eqb] in E.
  destruct (serial ny nx seg raw warns labels _) as [s|] eqn:Eser; [|discriminate].
  apply (finish_refines ny nx seg relabel dtmax s r); [|exact E].
  apply (serial_inv ny nx seg raw warns labels (init_st ny nx seg) s (selected_islabel _ _ _ Es));
    [apply Inv_init|exact Eser].
Qed.

Lemma contrast_one_lemma inmap npix labels_arg nlevels c mode_ok relabel dtmax nproc order :
  (1 <= nlevels)%Z -> (0 <= c)%Z ->
  deblend_sources ny nx seg raw warns inmap npix labels_arg nlevels (c, c) mode_ok relabel dtmax nproc order =
  Ok {| r_data := seg; r_dmap := inmap; r_npm := []; r_nmk := []; r_input := seg |}.
Proof.
  intros Hn Hc. unfold deblend_sources.
  destruct (nlevels <? 1)%Z eqn:E1; [apply Z.ltb_lt in E1; lia|].
  destruct ((c <? 0)%Z || (c <? c)%Z) eqn:E2.
  { apply orb_true_iff in E2. destruct E2 as [E2|E2]; apply Z.ltb_lt in E2; lia. }
  rewrite Z.eqb_refl. reflexivity.
Qed.

Lemma input_not_written_lemma inmap npix labels_arg nlevels contrast mode_ok relabel dtmax nproc order r :
  deblend_sources ny nx seg raw warns inmap npix labels_arg nlevels contrast mode_ok relabel dtmax nproc order = Ok r ->
  r_input r = seg.
Proof.
  unfold deblend_sources. destruct contrast as [cn cd].
  destruct (nlevels <? 1)%Z; [discriminate|].
  destruct ((cn <? 0)%Z || (cd <? cn)%Z); [discriminate|].
  destruct (cn =? cd)%Z; [intros E; inversion E; reflexivity|].
  destruct (negb mode_ok); [discriminate|].
  destruct (selected ny nx seg npix labels_arg) as [labels|]; [|discriminate].
  assert (F : forall s, finish ny nx seg relabel dtmax s = Ok r -> r_input r = seg).
  { intros s. unfold finish.
    destruct (match dtmax with Some m => (m <? Z.of_nat (maxlab s))%Z | None => false end); [discriminate|].
    destruct relabel; [destruct (create_relabel_map _)|]; intros E; inversion E; reflexivity. }
  destruct (nproc =? 1).
  - destruct (serial _ _ _ _ _ _ _) as [s|]; [apply F|discriminate].
  - destruct (parallel _ _ _ _ _ _ _ _) as [| |s]; [discriminate|discriminate|apply F].
Qed.

(* relabel=False: the returned array is the state of the (serial) loop *)
Lemma deblend_serial_state inmap npix labels_arg nlevels cn cd mode_ok dtmax nproc order r labels :
  deblend_sources ny nx seg raw warns inmap npix labels_arg nlevels (cn, cd) mode_ok false dtmax nproc order = Ok r ->
  cn <> cd -> valid_schedule npix labels_arg order ->
  selected ny nx seg npix labels_arg = Some labels ->
  exists s, serial ny nx seg raw warns labels (init_st ny nx seg) = Some s /\
            forall y x, y < ny -> x < nx -> at2 (r_data r) y x = out s y x.
Proof.
  intros E Hc HV Es. rewrite (schedule_independent_lemma _ _ _ _ _ _ _ _ _ _ HV) in E.
  unfold deblend_sources in E.
  destruct (nlevels <? 1)%Z; [discriminate|].
  destruct ((cn <? 0)%Z || (cd <? cn)%Z); [discriminate|].
  destruct (cn =? cd)%Z eqn:Ecc; [apply Z.eqb_eq in Ecc; contradiction|].
  destruct (negb mode_ok); [discriminate|].
  rewrite Es in E. cbn [Nat.eqb] in E.
  change {| out := sg; dmap := []; maxlab := maxl (segvals ny nx seg); npm := []; nmk := [] |}
    with (init_st ny nx seg) in E.
  destruct (serial ny nx seg raw warns labels (init_st ny nx seg)) as [s|]; [|discriminate].
  exists s. split; [reflexivity|]. unfold finish in E.
  destruct (match dtmax with Some m => (m <? Z.of_nat (maxlab s))%Z | None => false end); [discriminate|].
  inversion E. cbn [r_data]. intros y x Hy Hx. apply at2_tabulate; assumption.
Qed.
End Top.

(* ------------------------------------------------------------------ *)
(* Part 6: the clauses of the property, as used by C06_Properties.v    *)
(* ------------------------------------------------------------------ *)
Lemma nonzero_support_unchanged_lemma : forall ny nx seg raw warns inmap npix labels_arg nlevels cn cd mode_ok relabel dtmax nproc order r,
  deblend_sources ny nx seg raw warns inmap npix labels_arg nlevels (cn, cd) mode_ok relabel dtmax nproc order = Ok r ->
  cn <> cd -> valid_schedule ny nx seg npix labels_arg order ->
  forall y x, y < ny -> x < nx -> (at2 (r_data r) y x <> 0 <-> at2 seg y x <> 0).
Proof.
  intros ny nx seg raw warns inmap npix labels_arg nlevels cn cd mode_ok relabel dtmax nproc order r E Hc HV.
  pose proof (deblend_refines _ _ _ _ _ _ _ _ _ _ _ _ _ _ _ _ _ E Hc HV) as [R1 R2 R3 R4 R5 R6].
  intros y x Hy Hx. rewrite <- (sg_in ny nx seg y x Hy Hx). apply R1; assumption.
Qed.

Lemma children_partition_parent_lemma : forall ny nx seg raw warns inmap npix labels_arg nlevels cn cd mode_ok relabel dtmax nproc order r,
  deblend_sources ny nx seg raw warns inmap npix labels_arg nlevels (cn, cd) mode_ok relabel dtmax nproc order = Ok r ->
  cn <> cd -> valid_schedule ny nx seg npix labels_arg order ->
  forall p cs, In (p, cs) (r_dmap r) ->
    (p <> 0 /\ exists y x, y < ny /\ x < nx /\ at2 seg y x = p) /\
    NoDup cs /\ ~ In 0 cs /\
    (forall y x, y < ny -> x < nx -> (In (at2 (r_data r) y x) cs <-> at2 seg y x = p)) /\
    (forall c, In c cs -> exists y x, y < ny /\ x < nx /\ at2 (r_data r) y x = c).
Proof.
  intros ny nx seg raw warns inmap npix labels_arg nlevels cn cd mode_ok relabel dtmax nproc order r E Hc HV.
  pose proof (deblend_refines _ _ _ _ _ _ _ _ _ _ _ _ _ _ _ _ _ E Hc HV) as [R1 R2 R3 R4 R5 R6].
  intros p cs Hin. destruct (R3 p cs Hin) as [Hp [_ [Hnd [H0 [Hpart Hne]]]]].
  split; [apply islabel_seg; exact Hp|]. split; [exact Hnd|]. split; [exact H0|]. split; [|exact Hne].
  intros y x Hy Hx. rewrite <- (sg_in ny nx seg y x Hy Hx). apply Hpart; assumption.
Qed.

Lemma children_at_least_two_lemma : forall ny nx seg raw warns inmap npix labels_arg nlevels cn cd mode_ok relabel dtmax nproc order r,
  deblend_sources ny nx seg raw warns inmap npix labels_arg nlevels (cn, cd) mode_ok relabel dtmax nproc order = Ok r ->
  cn <> cd -> valid_schedule ny nx seg npix labels_arg order ->
  forall p cs, In (p, cs) (r_dmap r) -> 2 <= length cs.
Proof.
  intros ny nx seg raw warns inmap npix labels_arg nlevels cn cd mode_ok relabel dtmax nproc order r E Hc HV.
  pose proof (deblend_refines _ _ _ _ _ _ _ _ _ _ _ _ _ _ _ _ _ E Hc HV) as [R1 R2 R3 R4 R5 R6].
  intros p cs Hin. destruct (R3 p cs Hin) as [_ [Hlen _]]. exact Hlen.
Qed.

Lemma map_matches_pixels_lemma : forall ny nx seg raw warns inmap npix labels_arg nlevels cn cd mode_ok relabel dtmax nproc order r,
  deblend_sources ny nx seg raw warns inmap npix labels_arg nlevels (cn, cd) mode_ok relabel dtmax nproc order = Ok r ->
  cn <> cd -> valid_schedule ny nx seg npix labels_arg order ->
  NoDup (map fst (r_dmap r)) /\
  (forall p cs p' cs' c, In (p, cs) (r_dmap r) -> In (p', cs') (r_dmap r) -> In c cs -> In c cs' -> p = p') /\
  (forall y x p cs, y < ny -> x < nx -> In (p, cs) (r_dmap r) ->
     (In (at2 (r_data r) y x) cs <-> at2 seg y x = p)).
Proof.
  intros ny nx seg raw warns inmap npix labels_arg nlevels cn cd mode_ok relabel dtmax nproc order r E Hc HV.
  pose proof (deblend_refines _ _ _ _ _ _ _ _ _ _ _ _ _ _ _ _ _ E Hc HV) as [R1 R2 R3 R4 R5 R6].
  split; [exact R2|]. split.
  - intros p cs p' cs' c Hin Hin' Hc1 Hc2.
    destruct (R3 p cs Hin) as [_ [_ [_ [_ [Hpart Hne]]]]].
    destruct (R3 p' cs' Hin') as [_ [_ [_ [_ [Hpart' _]]]]].
    destruct (Hne c Hc1) as [y [x [Hy [Hx Ey]]]].
    assert (sg ny nx seg y x = p) by (apply Hpart; [assumption|assumption|rewrite Ey; exact Hc1]).
    assert (sg ny nx seg y x = p') by (apply Hpart'; [assumption|assumption|rewrite Ey; exact Hc2]).
    congruence.
  - intros y x p cs Hy Hx Hin. destruct (R3 p cs Hin) as [_ [_ [_ [_ [Hpart _]]]]].
    rewrite <- (sg_in ny nx seg y x Hy Hx). apply Hpart; assumption.
Qed.

Lemma others_untouched_lemma : forall ny nx seg raw warns inmap npix labels_arg nlevels cn cd mode_ok relabel dtmax nproc order r,
  deblend_sources ny nx seg raw warns inmap npix labels_arg nlevels (cn, cd) mode_ok relabel dtmax nproc order = Ok r ->
  cn <> cd -> valid_schedule ny nx seg npix labels_arg order ->
  forall q, q <> 0 -> (exists y x, y < ny /\ x < nx /\ at2 seg y x = q) ->
    ~ In q (map fst (r_dmap r)) ->
    exists q', q' <> 0 /\ (relabel = false -> q' = q) /\
      forall y x, y < ny -> x < nx -> (at2 (r_data r) y x = q' <-> at2 seg y x = q).
Proof.
  intros ny nx seg raw warns inmap npix labels_arg nlevels cn cd mode_ok relabel dtmax nproc order r E Hc HV.
  pose proof (deblend_refines _ _ _ _ _ _ _ _ _ _ _ _ _ _ _ _ _ E Hc HV) as [R1 R2 R3 R4 R5 R6].
  intros q Hq0 Hq Hnk. assert (Hl : islabel ny nx seg q) by (apply islabel_seg; auto).
  destruct (R4 q Hl Hnk) as [q' [H1 [H2 H3]]]. exists q'. split; [exact H2|]. split; [exact H1|].
  intros y x Hy Hx. rewrite <- (sg_in ny nx seg y x Hy Hx). apply H3; assumption.
Qed.

Lemma labels_consecutive_when_relabel_lemma : forall ny nx seg raw warns inmap npix labels_arg nlevels cn cd mode_ok relabel dtmax nproc order r,
  deblend_sources ny nx seg raw warns inmap npix labels_arg nlevels (cn, cd) mode_ok relabel dtmax nproc order = Ok r ->
  cn <> cd -> valid_schedule ny nx seg npix labels_arg order ->
  relabel = true -> exists n, uniq_labels (concat (r_data r)) = seq 1 n.
Proof.
  intros ny nx seg raw warns inmap npix labels_arg nlevels cn cd mode_ok relabel dtmax nproc order r E Hc HV.
  pose proof (deblend_refines _ _ _ _ _ _ _ _ _ _ _ _ _ _ _ _ _ E Hc HV) as [R1 R2 R3 R4 R5 R6].
  exact R5.
Qed.

Lemma child_size_ge_npixels_partial_lemma : forall ny nx seg raw warns inmap npix labels_arg nlevels cn cd mode_ok relabel dtmax nproc order r,
  deblend_sources ny nx seg raw warns inmap npix labels_arg nlevels (cn, cd) mode_ok relabel dtmax nproc order = Ok r ->
  cn <> cd -> valid_schedule ny nx seg npix labels_arg order ->
  (forall l, watershed_big ny nx seg npix l (raw l)) ->
  forall p cs c, In (p, cs) (r_dmap r) -> In c cs ->
    exists ps : list (nat * nat), NoDup ps /\ npix <= length ps /\
      forall y x, In (y, x) ps -> y < ny /\ x < nx /\ at2 (r_data r) y x = c.
Proof.
  intros ny nx seg raw warns inmap npix labels_arg nlevels cn cd mode_ok relabel dtmax nproc order r E Hc HV HW.
  rewrite (schedule_independent_lemma _ _ _ _ _ _ _ _ _ _ _ _ _ _ _ HV) in E.
  unfold deblend_sources in E.
  destruct (nlevels <? 1)%Z; [discriminate|].
  destruct ((cn <? 0)%Z || (cd <? cn)%Z); [discriminate|].
  destruct (cn =? cd)%Z eqn:Ecc; [apply Z.eqb_eq in Ecc; contradiction|].
  destruct (negb mode_ok); [discriminate|].
  destruct (selected ny nx seg npix labels_arg) as [labels|] eqn:Es; [|discriminate].
  cbn [Nat.eqb] in E.
  destruct (serial ny nx seg raw warns labels _) as [s|] eqn:Eser; [|discriminate].
  pose proof (selected_islabel _ _ _ _ _ _ Es) as Hall.
  assert (HI : Inv ny nx seg s).
  { apply (serial_inv ny nx seg raw warns labels (init_st ny nx seg) s Hall); [apply Inv_init|exact Eser]. }
  assert (HB : Big npix s).
  { apply (serial_big ny nx seg npix raw warns labels (init_st ny nx seg) s Hall HW); [apply Inv_init| |exact Eser].
    intros p cs c []. }
  exact (finish_big ny nx seg npix relabel dtmax s r HI HB E).
Qed.

(* the slot list after all futures completed does not depend on the completion order *)
Lemma collect_order_independent_lemma : forall (n : nat) (results : list R) (events : list (nat * R)),
  length results = n -> Permutation events (combine (seq 0 n) results) ->
  collect n events =
  if existsb (fun r => is_fail (fst r)) results then None else Some (map Some results).
Proof. exact collect_perm. Qed.

Lemma per_source_lemma : forall ny nx seg l r child,
  In l (uniq_labels (segvals ny nx seg)) ->
  deblend_source_post ny nx seg l (slice_of ny nx seg l) r = PSome child ->
  (forall y x, in_slice (slice_of ny nx seg l) y x = true ->
     (sg ny nx seg y x = l <->
      child (cy (slice_of ny nx seg l) y) (cx (slice_of ny nx seg l) x) <> 0)) /\
  exists k, 2 <= k /\ uniq_labels (child_vals (slice_of ny nx seg l) child) = seq 1 k.
Proof.
  intros ny nx seg l r child Hl E. pose proof (post_good ny nx seg l r Hl) as H.
  rewrite E in H. exact H.
Qed.

(* per-source independence (relabel=False): two calls on the same segmentation whose watershed
   stage returned the same array for parent l give l's pixels the same child pattern, up to the
   additive label offset — whatever the other labels, their order, their results, nproc and the
   completion orders *)
Lemma per_source_independent_lemma :
  forall ny nx seg l npix
         raw warns inmap labels_arg nlevels cn cd mode_ok dtmax nproc order r labels
         raw' warns' inmap' labels_arg' nlevels' cn' cd' mode_ok' dtmax' nproc' order' r' labels',
  deblend_sources ny nx seg raw warns inmap npix labels_arg nlevels (cn, cd) mode_ok false dtmax nproc order = Ok r ->
  deblend_sources ny nx seg raw' warns' inmap' npix labels_arg' nlevels' (cn', cd') mode_ok' false dtmax' nproc' order' = Ok r' ->
  cn <> cd -> cn' <> cd' ->
  valid_schedule ny nx seg npix labels_arg order -> valid_schedule ny nx seg npix labels_arg' order' ->
  selected ny nx seg npix labels_arg = Some labels -> selected ny nx seg npix labels_arg' = Some labels' ->
  In l labels -> In l labels' -> raw l = raw' l ->
  exists k k', forall y x, y < ny -> x < nx -> at2 seg y x = l ->
    at2 (r_data r) y x + k' = at2 (r_data r') y x + k.
Proof.
  intros ny nx seg l npix raw warns inmap labels_arg nlevels cn cd mode_ok dtmax nproc order r labels
         raw' warns' inmap' labels_arg' nlevels' cn' cd' mode_ok' dtmax' nproc' order' r' labels'
         E E' Hc Hc' HV HV' Es Es' Hin Hin' Hraw.
  destruct (deblend_serial_state _ _ _ _ _ _ _ _ _ _ _ _ _ _ _ _ _ E Hc HV Es) as [s [Hser Hout]].
  destruct (deblend_serial_state _ _ _ _ _ _ _ _ _ _ _ _ _ _ _ _ _ E' Hc' HV' Es') as [s' [Hser' Hout']].
  pose proof (serial_shape ny nx seg raw warns labels l _ _ (selected_islabel _ _ _ _ _ _ Es) Hser) as H.
  pose proof (serial_shape ny nx seg raw' warns' labels' l _ _ (selected_islabel _ _ _ _ _ _ Es') Hser') as H'.
  assert (Ew : fst (worker ny nx seg raw' warns' l) = fst (worker ny nx seg raw warns l))
    by (unfold worker; cbn [fst]; rewrite Hraw; reflexivity).
  rewrite Ew in H'. destruct (fst (worker ny nx seg raw warns l)) as [| |child].
  1,2: (exists 0, 0; intros y x Hy Hx Hl; rewrite (Hout y x Hy Hx), (Hout' y x Hy Hx);
        rewrite <- (sg_in ny nx seg y x Hy Hx) in Hl; rewrite (H y x Hl), (H' y x Hl); reflexivity).
  destruct (H (or_introl Hin)) as [ml Hml]. destruct (H' (or_introl Hin')) as [ml' Hml'].
  exists ml, ml'. intros y x Hy Hx Hl. rewrite (Hout y x Hy Hx), (Hout' y x Hy Hx).
  rewrite <- (sg_in ny nx seg y x Hy Hx) in Hl. rewrite (Hml y x Hl), (Hml' y x Hl). lia.
Qed.
