From Coq Require Import List Arith ZArith Bool Lia.
From PV Require Import lib.Cases C06_Model.
Import ListNotations.
