(* C11 -- TRANSLATOR TIE.  gen/Gen_bkg.v is REGENERATED from the current source text of
   photutils/background/background_2d.py on every run (harness/translate_all.py); it is not committed.
   Tied here, for ALL inputs, to C11_Model.v:
     Background2D._good_npixels_threshold                       = good_thr
     the local box_mask of Background2D._compute_box_statistics = excluded   (the box-exclusion rule)
   Arguments: self.exclude_percentile, self._box_npixels (= by*bx, the FULL box size), ngood. *)
From Coq Require Import List Arith ZArith QArith Bool Lia Lqa.
From PV Require Import lib.Cases lib.PyGen C11_Model C11_Proofs gen.Gen_bkg.
Open Scope Q_scope.

Theorem gen_good_npixels_threshold_eq : forall by_ bx p,
  gen_good_npixels_threshold p (Z.of_nat (by_ * bx)) == good_thr by_ bx p.
Proof. intros. unfold gen_good_npixels_threshold, good_thr, box_npixels. ring. Qed.

Theorem gen_box_mask_eq : forall by_ bx p n,
  gen_box_mask p (Z.of_nat (by_ * bx)) (Z.of_nat n) = excluded by_ bx p n.
Proof.
  intros. pose proof (gen_good_npixels_threshold_eq by_ bx p) as T.
  unfold gen_box_mask, excluded, Qlt_bool, PyGen.Qltb. cbv zeta.
  repeat match goal with |- context [(?a =? ?b)%Z] => destruct (Z.eqb_spec a b) end;
  repeat match goal with |- context [(?a =? ?b)%nat] => destruct (Nat.eqb_spec a b) end;
  q_split; q_hyps; rewrite ?T in *; cbn;
  first [reflexivity | (exfalso; lia) | (exfalso; lra)].
Qed.

(* the exclusion rule of the regenerated code, as documented: a box is excluded iff it has no good pixel
   or fewer good pixels than (1 - p/100) of the FULL box size -- equivalently, more than p percent of the
   full box is masked *)
Theorem gen_box_mask_iff : forall by_ bx p n,
  gen_box_mask p (Z.of_nat (by_ * bx)) (Z.of_nat n) = true <->
  n = 0%nat \/ inject_Z (Z.of_nat n) < (1 - p / 100) * inject_Z (Z.of_nat (by_ * bx)).
Proof. intros. rewrite gen_box_mask_eq. apply excluded_iff. Qed.

Theorem gen_box_mask_iff_masked_fraction : forall by_ bx p n,
  gen_box_mask p (Z.of_nat (by_ * bx)) (Z.of_nat n) = true <->
  n = 0%nat \/ p / 100 * inject_Z (Z.of_nat (by_ * bx)) < inject_Z (Z.of_nat (by_ * bx)) - inject_Z (Z.of_nat n).
Proof. intros. rewrite gen_box_mask_eq. apply excluded_iff_masked_fraction. Qed.

(* exclude_percentile = 0 keeps a box without a single masked pixel (the unrepaired `<=` rule dropped it) *)
Theorem gen_box_mask_keeps_clean_box : forall by_ bx, (0 < by_ * bx)%nat ->
  gen_box_mask 0 (Z.of_nat (by_ * bx)) (Z.of_nat (by_ * bx)) = false.
Proof. intros. rewrite gen_box_mask_eq. apply unrepaired_rule_excludes_clean_box. assumption. Qed.

Print Assumptions gen_good_npixels_threshold_eq.
Print Assumptions gen_box_mask_eq.
Print Assumptions gen_box_mask_iff.
Print Assumptions gen_box_mask_iff_masked_fraction.
Print Assumptions gen_box_mask_keeps_clean_box.
