(* C20H — proofs about the model of C20H_Model.v (harmonic least squares, correctors,
   convergence test, the truth as a fixed point of EllipseFitter.fit).  All over Q. *)
From Coq Require Import List ZArith Bool QArith Qround Lia Lqa.
From PV Require Import lib.Cases C20_Model C20_Proofs C20H_Model.
Import ListNotations.
Local Open Scope Q_scope.

(* ================================================================== *)
(* sums                                                                *)
(* ================================================================== *)
Lemma sumn_S n f : sumn (S n) f == sumn n f + f n.
Proof. unfold sumn. rewrite !Qred_correct. reflexivity. Qed.
Lemma sumn_O f : sumn 0 f == 0.
Proof. unfold sumn. apply Qred_correct. Qed.
Lemma sumu_sumn n f : sumu n f == sumn n f.
Proof. unfold sumn. rewrite Qred_correct. reflexivity. Qed.

Lemma sumn_ext n f g : (forall i, (i < n)%nat -> f i == g i) -> sumn n f == sumn n g.
Proof.
  induction n as [|n IH]; intros H; [reflexivity|].
  rewrite !sumn_S, IH, (H n) by (intros; auto with arith). reflexivity.
Qed.
Lemma sumn_add n f g : sumn n (fun i => f i + g i) == sumn n f + sumn n g.
Proof. induction n as [|n IH]; [rewrite !sumn_O; ring|]. rewrite !sumn_S, IH. ring. Qed.
Lemma sumn_scal n a f : sumn n (fun i => a * f i) == a * sumn n f.
Proof. induction n as [|n IH]; [rewrite !sumn_O; ring|]. rewrite !sumn_S, IH. ring. Qed.
Lemma sumn_zero n f : (forall i, (i < n)%nat -> f i == 0) -> sumn n f == 0.
Proof.
  induction n as [|n IH]; intros H; [apply sumn_O|].
  rewrite sumn_S, IH, (H n) by (intros; auto with arith). ring.
Qed.
Lemma sumn_nonneg n f : (forall i, (i < n)%nat -> 0 <= f i) -> 0 <= sumn n f.
Proof.
  induction n as [|n IH]; intros H; [rewrite sumn_O; apply Qle_refl|].
  rewrite sumn_S. assert (0 <= sumn n f) by (apply IH; intros; auto with arith).
  assert (0 <= f n) by (apply H; auto with arith). lra.
Qed.
Lemma sumn_swap n k (f : nat -> nat -> Q) :
  sumn n (fun i => sumn k (fun j => f i j)) == sumn k (fun j => sumn n (fun i => f i j)).
Proof.
  induction n as [|n IH].
  - rewrite sumn_O. symmetry. apply sumn_zero. intros; apply sumn_O.
  - rewrite sumn_S, IH.
    rewrite (sumn_ext k (fun j => sumn (S n) (fun i => f i j))
                        (fun j => sumn n (fun i => f i j) + f n j)) by (intros j _; apply (sumn_S n (fun i => f i j))).
    rewrite sumn_add. reflexivity.
Qed.
Lemma sq_nonneg (x : Q) : 0 <= x * x.
Proof. destruct (Qlt_le_dec x 0); nra. Qed.
Lemma sq_zero (x : Q) : x * x == 0 -> x == 0.
Proof. intros H. destruct (Qmult_integral _ _ H); auto. Qed.
Lemma sumn_sq_zero n f : sumn n (fun i => f i * f i) == 0 -> forall i, (i < n)%nat -> f i == 0.
Proof.
  induction n as [|n IH]; intros H i Hi; [lia|].
  rewrite sumn_S in H.
  assert (H1 : 0 <= sumn n (fun i => f i * f i)) by (apply sumn_nonneg; intros; apply sq_nonneg).
  assert (H2 := sq_nonneg (f n)).
  destruct (Nat.eq_dec i n) as [->|Hne].
  - apply sq_zero. lra.
  - apply IH; [lra|lia].
Qed.
Lemma delta_same l : delta l l = 1.
Proof. unfold delta. rewrite Nat.eqb_refl. reflexivity. Qed.
Lemma delta_diff l j : l <> j -> delta l j = 0.
Proof. unfold delta. intros H. apply Nat.eqb_neq in H. rewrite H. reflexivity. Qed.
Lemma sumn_delta k l d : (l < k)%nat -> sumn k (fun j => delta l j * d j) == d l.
Proof.
  induction k as [|k IH]; intros Hl; [lia|].
  rewrite sumn_S. destruct (Nat.eq_dec l k) as [->|Hne].
  - rewrite delta_same, sumn_zero; [ring|].
    intros i Hi. rewrite delta_diff by lia. ring.
  - rewrite delta_diff by lia. rewrite IH by lia. ring.
Qed.

(* ================================================================== *)
(* (1) least squares                                                   *)
(* ================================================================== *)
Section LS.
Variables (n k : nat) (A : nat -> nat -> Q) (y : nat -> Q).
Notation dotr := (dotr k A).
Notation resid := (resid k A y).
Notation rss := (rss n k A y).
Notation grad := (grad n k A y).
Notation normal_eq := (normal_eq n k A y).
Notation minimiser := (minimiser n k A y).
Notation gram := (gram n A).
Notation rhs := (rhs n A y).

Lemma dotr_ext c c' i : (forall j, (j < k)%nat -> c j == c' j) -> dotr c i == dotr c' i.
Proof. intros H. apply sumn_ext. intros j Hj. rewrite (H j Hj). reflexivity. Qed.
Lemma dotr_add c d i : dotr (fun j => c j + d j) i == dotr c i + dotr d i.
Proof.
  unfold C20H_Model.dotr. rewrite <- sumn_add. apply sumn_ext. intros; ring.
Qed.
Lemma dotr_scal t c i : dotr (fun j => t * c j) i == t * dotr c i.
Proof.
  unfold C20H_Model.dotr. rewrite <- sumn_scal. apply sumn_ext. intros; ring.
Qed.
Lemma resid_ext c c' i : (forall j, (j < k)%nat -> c j == c' j) -> resid c i == resid c' i.
Proof. intros H. unfold C20H_Model.resid. rewrite (dotr_ext c c' i H). reflexivity. Qed.
Lemma rss_ext c c' : (forall j, (j < k)%nat -> c j == c' j) -> rss c == rss c'.
Proof. intros H. apply sumn_ext. intros i _. rewrite (resid_ext c c' i H). reflexivity. Qed.
Lemma grad_ext c c' j : (forall j, (j < k)%nat -> c j == c' j) -> grad c j == grad c' j.
Proof. intros H. apply sumn_ext. intros i _. rewrite (resid_ext c c' i H). reflexivity. Qed.

(* sum_i (A d)_i r_i  =  sum_j d_j (A^T r)_j *)
Lemma dot_transpose d (r : nat -> Q) :
  sumn n (fun i => dotr d i * r i) == sumn k (fun j => d j * sumn n (fun i => A i j * r i)).
Proof.
  rewrite (sumn_ext n _ (fun i => sumn k (fun j => A i j * d j * r i))).
  2:{ intros i _. unfold C20H_Model.dotr. rewrite Qmult_comm, <- sumn_scal. apply sumn_ext. intros; ring. }
  rewrite sumn_swap. apply sumn_ext. intros j _.
  rewrite <- sumn_scal. apply sumn_ext. intros; ring.
Qed.

(* THE convexity identity:  RSS(c + d) = RSS(c) + |A d|^2 + 2 d . (A^T (A c - y)) *)
Lemma rss_expand c d :
  rss (fun j => c j + d j) ==
  rss c + sumn n (fun i => dotr d i * dotr d i) + 2 * sumn k (fun j => d j * grad c j).
Proof.
  unfold C20H_Model.rss.
  rewrite (sumn_ext n _ (fun i => resid c i * resid c i + dotr d i * dotr d i + 2 * (dotr d i * resid c i))).
  2:{ intros i _. unfold C20H_Model.resid. rewrite dotr_add. ring. }
  rewrite !sumn_add, sumn_scal, (dot_transpose d (fun i => resid c i)). reflexivity.
Qed.

(* normal equations ==> minimiser *)
Lemma normal_eq_minimises c : normal_eq c -> minimiser c.
Proof.
  intros HN c'. set (d := fun j => c' j - c j).
  rewrite (rss_ext c' (fun j => c j + d j)) by (intros; unfold d; ring).
  rewrite rss_expand.
  rewrite (sumn_zero k (fun j => d j * grad c j)) by (intros j Hj; rewrite (HN j Hj); ring).
  assert (0 <= sumn n (fun i => dotr d i * dotr d i)) by (apply sumn_nonneg; intros; apply sq_nonneg).
  lra.
Qed.

(* minimiser ==> normal equations: move along -t * gradient *)
Lemma minimiser_normal_eq c : minimiser c -> normal_eq c.
Proof.
  intros HM.
  set (g := fun j => grad c j).
  set (G2 := sumn k (fun j => g j * g j)).
  set (Qg := sumn n (fun i => dotr g i * dotr g i)).
  assert (HG2 : 0 <= G2) by (apply sumn_nonneg; intros; apply sq_nonneg).
  assert (HQg : 0 <= Qg) by (apply sumn_nonneg; intros; apply sq_nonneg).
  assert (Hstep : forall t, rss c <= rss c + t * t * Qg - 2 * t * G2).
  { intros t. specialize (HM (fun j => c j + (- t) * g j)).
    rewrite rss_expand in HM.
    rewrite (sumn_ext n (fun i => dotr (fun j => - t * g j) i * dotr (fun j => - t * g j) i)
                        (fun i => (t * t) * (dotr g i * dotr g i))) in HM
      by (intros i _; rewrite dotr_scal; ring).
    rewrite sumn_scal in HM.
    rewrite (sumn_ext k (fun j => - t * g j * grad c j) (fun j => (- t) * (g j * g j))) in HM
      by (intros; unfold g; ring).
    rewrite sumn_scal in HM. fold Qg G2 in HM. lra. }
  assert (HG0 : G2 == 0).
  { destruct (Qeq_dec Qg 0) as [E|NE].
    - specialize (Hstep 1). rewrite E in Hstep. lra.
    - assert (0 < Qg) by (destruct (Qle_lt_or_eq _ _ HQg) as [?|E]; [auto|rewrite <- E in NE; exfalso; apply NE; reflexivity]).
      specialize (Hstep (G2 / Qg)).
      assert (E : G2 / Qg * (G2 / Qg) * Qg - 2 * (G2 / Qg) * G2 == - (G2 * G2 / Qg)) by (field; lra).
      assert (Hsq : 0 <= G2 * G2 / Qg).
      { apply Qle_shift_div_l; auto. rewrite Qmult_0_l. apply sq_nonneg. }
      assert (Hz : G2 * G2 / Qg == 0) by lra.
      apply sq_zero. assert (G2 * G2 == G2 * G2 / Qg * Qg) by (field; lra). rewrite H0, Hz. ring. }
  intros j Hj. apply (sumn_sq_zero k g HG0 j Hj).
Qed.

Lemma minimiser_iff_normal_eq c : minimiser c <-> normal_eq c.
Proof. split; [apply minimiser_normal_eq|apply normal_eq_minimises]. Qed.

(* exactly-harmonic data: the generating coefficients satisfy the normal equations, RSS = 0 *)
Lemma exact_form_resid cs i : exact_form n k A y cs -> (i < n)%nat -> resid cs i == 0.
Proof. intros H Hi. unfold C20H_Model.resid. rewrite (H i Hi). ring. Qed.
Lemma exact_form_normal_eq cs : exact_form n k A y cs -> normal_eq cs.
Proof.
  intros H j _. apply sumn_zero. intros i Hi. rewrite (exact_form_resid cs i H Hi). ring.
Qed.
Lemma exact_form_rss cs : exact_form n k A y cs -> rss cs == 0.
Proof.
  intros H. apply sumn_zero. intros i Hi. rewrite (exact_form_resid cs i H Hi). ring.
Qed.

(* the normal equations in matrix form:  grad c = G c - A^T y *)
Lemma grad_gram c j : grad c j == sumn k (fun j' => gram j j' * c j') - rhs j.
Proof.
  unfold C20H_Model.grad, C20H_Model.resid, C20H_Model.rhs.
  rewrite (sumn_ext n _ (fun i => sumn k (fun j' => A i j * A i j' * c j') + (- (1)) * (A i j * y i))).
  2:{ intros i _. unfold C20H_Model.dotr.
      rewrite (sumn_ext k (fun j' => A i j * A i j' * c j') (fun j' => A i j * (A i j' * c j'))) by (intros; ring).
      rewrite sumn_scal. ring. }
  rewrite sumn_add, sumn_scal, sumn_swap.
  rewrite (sumn_ext k (fun j' => sumn n (fun i => A i j * A i j' * c j')) (fun j' => gram j j' * c j')).
  2:{ intros j' _. unfold C20H_Model.gram. rewrite Qmult_comm, <- sumn_scal. apply sumn_ext. intros; ring. }
  ring.
Qed.

(* G d = 0 for the difference of two solutions *)
Lemma normal_eq_diff c c' j : normal_eq c -> normal_eq c' -> (j < k)%nat ->
  sumn k (fun j' => gram j j' * (c j' - c' j')) == 0.
Proof.
  intros H H' Hj. specialize (H j Hj). specialize (H' j Hj). rewrite grad_gram in H, H'.
  rewrite (sumn_ext k _ (fun j' => gram j j' * c j' + (- (1)) * (gram j j' * c' j'))) by (intros; ring).
  rewrite sumn_add, sumn_scal. lra.
Qed.

(* UNISOLVENCE: a left inverse of the Gram matrix makes the solution unique *)
Lemma left_inverse_unique (M : nat -> nat -> Q) c c' :
  (forall l j', (l < k)%nat -> (j' < k)%nat -> mmul k M gram l j' == delta l j') ->
  normal_eq c -> normal_eq c' -> forall l, (l < k)%nat -> c l == c' l.
Proof.
  intros HI H H' l Hl. set (d := fun j => c j - c' j).
  assert (Hd : d l == 0).
  { rewrite <- (sumn_delta k l d Hl).
    rewrite (sumn_ext k _ (fun j' => sumn k (fun j => M l j * (gram j j' * d j')))).
    2:{ intros j' Hj'. rewrite <- (HI l j' Hl Hj'). unfold mmul. rewrite sumu_sumn.
        rewrite Qmult_comm, <- sumn_scal. apply sumn_ext. intros; ring. }
    rewrite sumn_swap. apply sumn_zero. intros j Hj. rewrite sumn_scal.
    unfold d. rewrite (normal_eq_diff c c' j H H' Hj). ring. }
  unfold d in Hd. lra.
Qed.

(* a right inverse gives existence: M (A^T y) solves the normal equations *)
Lemma right_inverse_solves (M : nat -> nat -> Q) c :
  (forall l j', (l < k)%nat -> (j' < k)%nat -> mmul k gram M l j' == delta l j') ->
  (forall l, (l < k)%nat -> c l == sumn k (fun j => M l j * rhs j)) ->
  normal_eq c.
Proof.
  intros HI Hc j Hj. rewrite grad_gram.
  rewrite (sumn_ext k _ (fun j' => sumn k (fun l => gram j j' * M j' l * rhs l))).
  2:{ intros j' Hj'. rewrite (Hc j' Hj'), <- sumn_scal. apply sumn_ext. intros; ring. }
  rewrite sumn_swap.
  rewrite (sumn_ext k _ (fun l => delta j l * rhs l)).
  2:{ intros l Hl. rewrite <- (HI j l Hj Hl). unfold mmul. rewrite sumu_sumn, Qmult_comm, <- sumn_scal.
      apply sumn_ext. intros; ring. }
  rewrite sumn_delta by auto. ring.
Qed.
End LS.

(* ================================================================== *)
(* lists: the computable rank condition and the solver                 *)
(* ================================================================== *)
Lemma forallb_seq (p : nat -> bool) k : forallb p (seq 0 k) = true -> forall j, (j < k)%nat -> p j = true.
Proof. intros H j Hj. rewrite forallb_forall in H. apply H, in_seq. lia. Qed.
Lemma seq_forallb (p : nat -> bool) k : (forall j, (j < k)%nat -> p j = true) -> forallb p (seq 0 k) = true.
Proof. intros H. apply forallb_forall. intros j Hj. apply in_seq in Hj. apply H. lia. Qed.
Lemma nth_tab k f j d : (j < k)%nat -> nth j (tab k f) d = f j.
Proof.
  intros Hj. unfold tab. rewrite (nth_indep _ d (f 0%nat)) by (rewrite map_length, seq_length; exact Hj).
  rewrite map_nth, seq_nth by exact Hj. reflexivity.
Qed.
Lemma Aof_tab2 k f l j : (l < k)%nat -> (j < k)%nat -> Aof (tab2 k f) l j = f l j.
Proof.
  intros Hl Hj. unfold Aof, tab2.
  rewrite (nth_indep _ [] (tab k (f 0%nat))) by (rewrite map_length, seq_length; exact Hl).
  rewrite (map_nth (fun j0 => tab k (f j0))), seq_nth by exact Hl. apply nth_tab, Hj.
Qed.

Lemma is_identity_spec k P : is_identity k P = true ->
  forall l j, (l < k)%nat -> (j < k)%nat -> P l j == delta l j.
Proof.
  intros H l j Hl Hj. unfold is_identity in H.
  apply (forallb_seq _ k H l) in Hl. apply (forallb_seq _ k Hl j) in Hj.
  apply Qeq_bool_iff, Hj.
Qed.

Section Lists.
Variables (rows : list (list Q)) (ys : list Q) (k : nat).
Notation n := (length rows).
Notation A := (Aof rows).
Notation y := (vof ys).

Lemma mmul_ext (M M' G G' : nat -> nat -> Q) l j' :
  (forall j, (j < k)%nat -> M l j == M' l j) -> (forall j, (j < k)%nat -> G j j' == G' j j') ->
  mmul k M G l j' == mmul k M' G' l j'.
Proof.
  intros H1 H2. unfold mmul. rewrite !sumu_sumn.
  apply sumn_ext. intros j Hj. rewrite (H1 j Hj), (H2 j Hj). reflexivity.
Qed.

Lemma gram_inverse_spec M : gram_inverse rows k = Some M ->
  (forall l j', (l < k)%nat -> (j' < k)%nat -> mmul k (Aof M) (gram n A) l j' == delta l j') /\
  (forall l j', (l < k)%nat -> (j' < k)%nat -> mmul k (gram n A) (Aof M) l j' == delta l j').
Proof.
  unfold gram_inverse. destruct (inverse k (gram_l rows k)) as [M0|]; [|discriminate].
  destruct (inverse_ok k (gram_l rows k) M0) eqn:E; [|discriminate]. intros [= <-].
  unfold inverse_ok in E. apply andb_true_iff in E. destruct E as [E1 E2].
  split; intros l j' Hl Hj'.
  - rewrite <- (is_identity_spec k _ E1 l j' Hl Hj'). apply mmul_ext; intros j Hj; [reflexivity|].
    unfold gram_l. rewrite Aof_tab2 by auto. reflexivity.
  - rewrite <- (is_identity_spec k _ E2 l j' Hl Hj'). apply mmul_ext; intros j Hj; [|reflexivity].
    unfold gram_l. rewrite Aof_tab2 by auto. reflexivity.
Qed.

(* UNISOLVENCE with the computable rank condition *)
Lemma nonsingular_unique c c' : nonsingular rows k = true ->
  normal_eq n k A y c -> normal_eq n k A y c' -> forall l, (l < k)%nat -> c l == c' l.
Proof.
  unfold nonsingular. destruct (gram_inverse rows k) as [M|] eqn:E; [|discriminate]. intros _.
  destruct (gram_inverse_spec M E) as [HL _]. apply (left_inverse_unique n k A y (Aof M)). exact HL.
Qed.

(* the solver's answer satisfies the normal equations exactly *)
Lemma ls_solve_sound sol : ls_solve rows ys k = Some sol -> normal_eq n k A y (vof sol).
Proof.
  unfold ls_solve. destruct (gram_inverse rows k) as [M|] eqn:E; [|discriminate]. intros [= <-].
  destruct (gram_inverse_spec M E) as [_ HR].
  apply (right_inverse_solves n k A y (Aof M)); [exact HR|].
  intros l Hl. unfold vof, mvec. rewrite (nth_tab k _ l 0 Hl).
  apply sumn_ext. intros j Hj. unfold vof at 1. unfold rhs_l. rewrite (nth_tab k _ j 0 Hj). reflexivity.
Qed.
Lemma ls_solve_complete : nonsingular rows k = true -> exists sol, ls_solve rows ys k = Some sol.
Proof.
  unfold nonsingular, ls_solve. destruct (gram_inverse rows k) as [M|]; [|discriminate].
  intros _. eexists. reflexivity.
Qed.

Lemma Qabs'_le0 g : Qle_bool (Qabs' g) 0 = true <-> g == 0.
Proof.
  rewrite Qle_bool_iff. unfold Qabs'. destruct (Qle_bool 0 g) eqn:E.
  - apply Qle_bool_iff in E. split; intros; lra.
  - assert (~ 0 <= g) by (rewrite <- Qle_bool_iff; congruence). split; intros; lra.
Qed.
(* the checker used by the correspondence, at tolerance 0, IS the relation *)
Lemma ne_check_zero c : ne_check rows ys k c 0 = true <-> normal_eq n k A y (vof c).
Proof.
  unfold ne_check, grad_l, tab. rewrite forallb_forall. split.
  - intros H j Hj. apply Qabs'_le0, H, in_map_iff. exists j. split; [reflexivity|apply in_seq; lia].
  - intros H g Hg. apply in_map_iff in Hg. destruct Hg as (j & <- & Hj). apply in_seq in Hj.
    apply Qabs'_le0, H. lia.
Qed.
Lemma ne_check_tol c tol : ne_check rows ys k c tol = true ->
  forall j, (j < k)%nat -> - tol <= grad n k A y (vof c) j <= tol.
Proof.
  unfold ne_check, grad_l, tab. rewrite forallb_forall. intros H j Hj.
  assert (Hin : In (grad n k A y (vof c) j) (map (fun j => grad n k A y (vof c) j) (seq 0 k))).
  { apply in_map_iff. exists j. split; [reflexivity|apply in_seq; lia]. }
  specialize (H _ Hin). apply Qle_bool_iff in H. unfold Qabs' in H.
  destruct (Qle_bool 0 (grad n k A y (vof c) j)) eqn:E.
  - apply Qle_bool_iff in E. lra.
  - assert (~ 0 <= grad n k A y (vof c) j) by (rewrite <- Qle_bool_iff; congruence). lra.
Qed.

(* ---- an exact isophote: constant intensity ---- *)
Definition const_coeffs (I : Q) (j : nat) : Q := if Nat.eqb j 0 then I else 0.
Lemma const_exact_form I : (0 < k)%nat ->
  (forall i, (i < n)%nat -> A i 0%nat == 1) -> (forall i, (i < n)%nat -> y i == I) ->
  exact_form n k A y (const_coeffs I).
Proof.
  intros Hk H1 HI i Hi. rewrite (HI i Hi). unfold dotr.
  rewrite (sumn_ext k _ (fun j => delta 0 j * (A i j * I))).
  2:{ intros j _. unfold const_coeffs, delta. destruct j; simpl; ring. }
  rewrite sumn_delta by exact Hk. rewrite (H1 i Hi). ring.
Qed.
(* every solution of the normal equations (= every minimiser) of a constant ring has the mean
   equal to that constant and ALL harmonic amplitudes zero *)
Lemma const_amplitudes_zero I c : (0 < k)%nat -> nonsingular rows k = true ->
  (forall i, (i < n)%nat -> A i 0%nat == 1) -> (forall i, (i < n)%nat -> y i == I) ->
  normal_eq n k A y c -> c 0%nat == I /\ forall j, (0 < j < k)%nat -> c j == 0.
Proof.
  intros Hk Hns H1 HI Hc.
  assert (Hs := exact_form_normal_eq n k A y _ (const_exact_form I Hk H1 HI)).
  assert (Hu := nonsingular_unique c (const_coeffs I) Hns Hc Hs).
  split.
  - rewrite (Hu 0%nat Hk). reflexivity.
  - intros j [Hj0 Hjk]. rewrite (Hu j Hjk). unfold const_coeffs. destruct j; [lia|reflexivity].
Qed.
End Lists.

(* ---- the harmonic design ---- *)
Lemma harm_rows_first samples i : (i < length (map harm_row samples))%nat ->
  Aof (map harm_row samples) i 0 == 1.
Proof.
  rewrite map_length. intros Hi. unfold Aof.
  rewrite (nth_indep _ [] (harm_row (0, 0, 0, 0))) by (rewrite map_length; exact Hi).
  rewrite map_nth. destruct (nth i samples (0, 0, 0, 0)) as [[[s c] s2] c2]. reflexivity.
Qed.
Lemma upper_rows_first samples i : (i < length (map upper_row samples))%nat ->
  Aof (map upper_row samples) i 0 == 1.
Proof.
  rewrite map_length. intros Hi. unfold Aof.
  rewrite (nth_indep _ [] (upper_row (0, 0))) by (rewrite map_length; exact Hi).
  rewrite map_nth. destruct (nth i samples (0, 0)) as [s c]. reflexivity.
Qed.
(* first_and_second_harmonic_function(phi_i, c) is row i of the design matrix times c *)
Lemma harm_fun_is_dotr samples co i : (i < length samples)%nat ->
  harm_fun (nth i samples (0, 0, 0, 0)) co == dotr 5 (Aof (map harm_row samples)) (vof co) i.
Proof.
  intros Hi. unfold dotr, Aof.
  rewrite (nth_indep _ [] (harm_row (0, 0, 0, 0))) by (rewrite map_length; exact Hi).
  rewrite map_nth. destruct (nth i samples (0, 0, 0, 0)) as [[[s c] s2] c2].
  rewrite !sumn_S, sumn_O. unfold harm_fun, harm_row. simpl. ring.
Qed.
Lemma upper_fun_is_dotr samples co i : (i < length samples)%nat ->
  upper_fun (nth i samples (0, 0)) co == dotr 3 (Aof (map upper_row samples)) (vof co) i.
Proof.
  intros Hi. unfold dotr, Aof.
  rewrite (nth_indep _ [] (upper_row (0, 0))) by (rewrite map_length; exact Hi).
  rewrite map_nth. destruct (nth i samples (0, 0)) as [s c].
  rewrite !sumn_S, sumn_O. unfold upper_fun, upper_row. simpl. ring.
Qed.

(* data generated by the harmonic function itself *)
Lemma harmonic_data_exact_form samples ys cs :
  (forall i, (i < length samples)%nat -> vof ys i == harm_fun (nth i samples (0, 0, 0, 0)) cs) ->
  exact_form (length (map harm_row samples)) 5 (Aof (map harm_row samples)) (vof ys) (vof cs).
Proof.
  intros H i Hi. rewrite map_length in Hi. rewrite (H i Hi). apply harm_fun_is_dotr, Hi.
Qed.

(* fit_first_and_second_harmonics on an exact isophote *)
Lemma isophote_amplitudes_zero samples ys I c :
  nonsingular (map harm_row samples) 5 = true ->
  (forall i, (i < length samples)%nat -> vof ys i == I) ->
  minimiser (length (map harm_row samples)) 5 (Aof (map harm_row samples)) (vof ys) c ->
  c 0%nat == I /\ c 1%nat == 0 /\ c 2%nat == 0 /\ c 3%nat == 0 /\ c 4%nat == 0.
Proof.
  intros Hns HI Hm. apply minimiser_normal_eq in Hm.
  assert (HI' : forall i, (i < length (map harm_row samples))%nat -> vof ys i == I)
    by (intros i Hi; rewrite map_length in Hi; auto).
  destruct (const_amplitudes_zero (map harm_row samples) ys 5 I c ltac:(lia) Hns
              (harm_rows_first samples) HI' Hm) as [H0 Hj].
  repeat split; auto; apply Hj; lia.
Qed.
(* fit_upper_harmonic on an exact isophote *)
Lemma isophote_upper_amplitudes_zero samples ys I c :
  nonsingular (map upper_row samples) 3 = true ->
  (forall i, (i < length samples)%nat -> vof ys i == I) ->
  minimiser (length (map upper_row samples)) 3 (Aof (map upper_row samples)) (vof ys) c ->
  c 0%nat == I /\ c 1%nat == 0 /\ c 2%nat == 0.
Proof.
  intros Hns HI Hm. apply minimiser_normal_eq in Hm.
  assert (HI' : forall i, (i < length (map upper_row samples))%nat -> vof ys i == I)
    by (intros i Hi; rewrite map_length in Hi; auto).
  destruct (const_amplitudes_zero (map upper_row samples) ys 3 I c ltac:(lia) Hns
              (upper_rows_first samples) HI' Hm) as [H0 Hj].
  repeat split; auto; apply Hj; lia.
Qed.

(* exactly harmonic data are recovered: the minimiser IS the generating vector *)
Lemma harmonic_data_recovered samples ys cs c :
  nonsingular (map harm_row samples) 5 = true ->
  (forall i, (i < length samples)%nat -> vof ys i == harm_fun (nth i samples (0, 0, 0, 0)) cs) ->
  minimiser (length (map harm_row samples)) 5 (Aof (map harm_row samples)) (vof ys) c ->
  forall l, (l < 5)%nat -> c l == vof cs l.
Proof.
  intros Hns H Hm. apply minimiser_normal_eq in Hm.
  apply (nonsingular_unique (map harm_row samples) ys 5 c (vof cs) Hns Hm).
  apply exact_form_normal_eq, harmonic_data_exact_form, H.
Qed.

(* ================================================================== *)
(* (2) correctors                                                      *)
(* ================================================================== *)
Definition geq (g g' : geomQ) : Prop :=
  gx g == gx g' /\ gy g == gy g' /\ gpa g == gpa g' /\ geps g == geps g'.
Lemma geq_refl g : geq g g.
Proof. repeat split; reflexivity. Qed.
Lemma geq_trans a b c : geq a b -> geq b c -> geq a c.
Proof. intros (A1 & A2 & A3 & A4) (B1 & B2 & B3 & B4). repeat split; etransitivity; eauto. Qed.

(* ---- Python's float modulo ---- *)
Lemma Qfloor_unit q : 0 <= q -> q < 1 -> Qfloor q = 0%Z.
Proof.
  intros H0 H1. assert (Ha := Qfloor_le q). assert (Hb := Qlt_floor q).
  assert (A : (Qfloor q < 1)%Z).
  { rewrite Zlt_Qlt. change (inject_Z 1) with 1. lra. }
  assert (B : (0 < Qfloor q + 1)%Z).
  { rewrite Zlt_Qlt. change (inject_Z 0) with 0. lra. }
  lia.
Qed.
Lemma pymod_small x p : 0 <= x -> x < p -> pymod x p == x.
Proof.
  intros H0 H1. unfold pymod. assert (Hp : 0 < p) by lra.
  rewrite (Qfloor_unit (x / p)).
  - change (inject_Z 0) with 0. ring.
  - apply Qle_shift_div_l; auto. lra.
  - apply Qlt_shift_div_r; auto. lra.
Qed.
Lemma pymod_range x p : 0 < p -> 0 <= pymod x p /\ pymod x p < p.
Proof.
  intros Hp. unfold pymod. assert (Ha := Qfloor_le (x / p)). assert (Hb := Qlt_floor (x / p)).
  rewrite inject_Z_plus in Hb. change (inject_Z 1) with 1 in Hb.
  set (f := inject_Z (Qfloor (x / p))) in *.
  assert (E : x == x / p * p) by (field; lra).
  split.
  - assert (f * p <= x / p * p) by (apply Qmult_le_compat_r; lra). lra.
  - assert (x / p * p < (f + 1) * p) by (apply Qmult_lt_compat_r; lra). lra.
Qed.
Lemma pymod_congruent x p : exists m : Z, pymod x p == x - inject_Z m * p.
Proof. exists (Qfloor (x / p)). reflexivity. Qed.
Lemma pymod_comp x x' p : x == x' -> pymod x p == pymod x' p.
Proof.
  intros E. unfold pymod.
  assert (F : Qfloor (x / p) = Qfloor (x' / p)) by (apply Qfloor_comp; rewrite E; reflexivity).
  rewrite F, E. reflexivity.
Qed.

Lemma qmin_le a b : a <= b -> qmin a b = a.
Proof.
  intros H. unfold qmin, pymin. simpl. destruct (Qltb b a) eqn:E; [|reflexivity].
  apply Qltb_iff in E. lra.
Qed.
Lemma qmin_spec a b : (qmin a b == a /\ a <= b) \/ (qmin a b == b /\ b < a).
Proof.
  unfold qmin, pymin. simpl. destruct (Qltb b a) eqn:E.
  - apply Qltb_iff in E. right. split; [reflexivity|exact E].
  - apply Qltb_false in E. left. split; [reflexivity|exact E].
Qed.

Section CorrectorLemmas.
Variables (max_eps pi_ sma grad_ sinpa cospa : Q).
Notation corrector := (corrector max_eps pi_ sma grad_ sinpa cospa).
Notation pos0 := (pos0 grad_ sinpa cospa).
Notation pos1 := (pos1 grad_ sinpa cospa).
Notation angle_corr := (angle_corr pi_ sma grad_).
Notation eps_corr := (eps_corr max_eps sma grad_).

(* frame: every corrector hands the parameters outside its own group over untouched *)
Lemma corrector_frame k h g :
  match k with
  | 0%nat | 1%nat => gpa (corrector k h g) = gpa g /\ geps (corrector k h g) = geps g
  | 2%nat => gx (corrector k h g) = gx g /\ gy (corrector k h g) = gy g /\ geps (corrector k h g) = geps g
  | _ => gx (corrector k h g) = gx g /\ gy (corrector k h g) = gy g /\ gpa (corrector k h g) = gpa g
  end.
Proof. destruct k as [|[|[|k]]]; repeat split; reflexivity. Qed.

(* FIXED POINT: a zero harmonic leaves the geometry where it is *)
Lemma pos0_zero h g : h == 0 -> geq (pos0 h g) g.
Proof.
  intros H. unfold geq. repeat split; try reflexivity.
  - change (Qred (gx g + - pos0_aux grad_ h g * sinpa) == gx g).
    rewrite Qred_correct. unfold pos0_aux, Qdiv. rewrite H. ring.
  - change (Qred (gy g + pos0_aux grad_ h g * cospa) == gy g).
    rewrite Qred_correct. unfold pos0_aux, Qdiv. rewrite H. ring.
Qed.
Lemma pos1_zero h g : h == 0 -> geq (pos1 h g) g.
Proof.
  intros H. unfold geq. repeat split; try reflexivity.
  - change (Qred (gx g + pos1_aux grad_ h * cospa) == gx g).
    rewrite Qred_correct. unfold pos1_aux, Qdiv. rewrite H. ring.
  - change (Qred (gy g + pos1_aux grad_ h * sinpa) == gy g).
    rewrite Qred_correct. unfold pos1_aux, Qdiv. rewrite H. ring.
Qed.
Lemma angle_correction_zero h g : h == 0 -> angle_correction sma grad_ h g == 0.
Proof. intros H. unfold angle_correction, Qdiv. rewrite H. ring. Qed.
Lemma eps_correction_zero h g : h == 0 -> eps_correction sma grad_ h g == 0.
Proof. intros H. unfold eps_correction. rewrite Qred_correct. unfold Qdiv. rewrite H. ring. Qed.
Lemma angle_zero h g : h == 0 -> 0 <= gpa g -> gpa g < pi_ -> geq (angle_corr h g) g.
Proof.
  intros H H0 H1. unfold geq, C20H_Model.angle_corr.
  repeat split; try reflexivity.
  change (Qred (pymod (gpa g + angle_correction sma grad_ h g) pi_) == gpa g).
  rewrite Qred_correct.
  rewrite (pymod_comp _ (gpa g)) by (rewrite (angle_correction_zero h g H); ring).
  apply pymod_small; auto.
Qed.
Lemma eps_zero h g : h == 0 -> geps g <= max_eps -> geq (eps_corr h g) g.
Proof.
  intros H H1. unfold geq, C20H_Model.eps_corr.
  repeat split; try reflexivity.
  change (qmin (geps g - eps_correction sma grad_ h g) max_eps == geps g).
  assert (E := eps_correction_zero h g H).
  destruct (qmin_spec (geps g - eps_correction sma grad_ h g) max_eps) as [[-> _]|[_ Hlt]]; lra.
Qed.
Lemma corrector_zero k h g : h == 0 -> 0 <= gpa g -> gpa g < pi_ -> geps g <= max_eps ->
  geq (corrector k h g) g.
Proof.
  intros H H0 H1 H2. destruct k as [|[|[|k]]]; simpl.
  - apply pos0_zero, H.
  - apply pos1_zero, H.
  - apply angle_zero; auto.
  - apply eps_zero; auto.
Qed.

(* NEWTON STEPS: if the harmonic is the first-order response to a displacement delta of its own
   parameter, the corrector undoes exactly that displacement *)
Lemma pos1_newton h g delta : ~ grad_ == 0 -> h == - grad_ * delta ->
  gx (pos1 h g) == gx g + delta * cospa /\ gy (pos1 h g) == gy g + delta * sinpa.
Proof.
  intros Hg H. split.
  - change (Qred (gx g + pos1_aux grad_ h * cospa) == gx g + delta * cospa).
    rewrite Qred_correct. unfold pos1_aux. rewrite H. field; auto.
  - change (Qred (gy g + pos1_aux grad_ h * sinpa) == gy g + delta * sinpa).
    rewrite Qred_correct. unfold pos1_aux. rewrite H. field; auto.
Qed.
Lemma pos0_newton h g delta : ~ grad_ == 0 -> ~ 1 - geps g == 0 ->
  h == - grad_ * delta / (1 - geps g) ->
  gx (pos0 h g) == gx g - delta * sinpa /\ gy (pos0 h g) == gy g + delta * cospa.
Proof.
  intros Hg He H. split.
  - change (Qred (gx g + - pos0_aux grad_ h g * sinpa) == gx g - delta * sinpa).
    rewrite Qred_correct. unfold pos0_aux. rewrite H. field; auto.
  - change (Qred (gy g + pos0_aux grad_ h g * cospa) == gy g + delta * cospa).
    rewrite Qred_correct. unfold pos0_aux. rewrite H. field; auto.
Qed.
Lemma angle_newton h g delta : ~ grad_ == 0 -> ~ sma == 0 -> ~ 1 - geps g == 0 ->
  ~ (1 - geps g) * (1 - geps g) - 1 == 0 ->
  h == grad_ * delta * sma * ((1 - geps g) * (1 - geps g) - 1) / (2 * (1 - geps g)) ->
  angle_correction sma grad_ h g == delta.
Proof.
  intros Hg Hs He Hq H. unfold angle_correction. rewrite H. field. repeat split; auto.
Qed.
Lemma eps_newton h g delta : ~ grad_ == 0 -> ~ sma == 0 -> ~ 1 - geps g == 0 ->
  h == - grad_ * sma * delta / (2 * (1 - geps g)) ->
  eps_correction sma grad_ h g == - delta.
Proof.
  intros Hg Hs He H. unfold eps_correction. rewrite Qred_correct, H. field. repeat split; auto.
Qed.

(* SIGNS, for a decreasing profile (gradient < 0), sma > 0, 0 < eps < 1 *)
Lemma Qdiv_neg_pos a b : a < 0 -> 0 < b -> a / b < 0.
Proof. intros. apply Qlt_shift_div_r; auto. lra. Qed.
Lemma Qdiv_pos_neg a b : 0 < a -> b < 0 -> a / b < 0.
Proof.
  intros Ha Hb. assert (E : a / b == - (a / - b)) by (field; lra). rewrite E.
  assert (0 < a / - b) by (apply Qlt_shift_div_l; lra). lra.
Qed.
Lemma Qdiv_neg_neg a b : a < 0 -> b < 0 -> 0 < a / b.
Proof.
  intros Ha Hb. assert (E : a / b == (- a) / (- b)) by (field; lra). rewrite E.
  apply Qlt_shift_div_l; lra.
Qed.
Lemma Qdiv_pos_pos a b : 0 < a -> 0 < b -> 0 < a / b.
Proof. intros. apply Qlt_shift_div_l; lra. Qed.
Lemma pos1_sign h : grad_ < 0 -> 0 < h -> 0 < pos1_aux grad_ h.
Proof. intros Hg Hh. unfold pos1_aux. apply Qdiv_neg_neg; lra. Qed.
Lemma pos0_sign h g : grad_ < 0 -> geps g < 1 -> 0 < h -> 0 < pos0_aux grad_ h g.
Proof. intros Hg He Hh. unfold pos0_aux. apply Qdiv_neg_neg; nra. Qed.
Lemma eps_sign h g : grad_ < 0 -> 0 < sma -> geps g < 1 -> 0 < h -> eps_correction sma grad_ h g < 0.
Proof.
  intros Hg Hs He Hh. unfold eps_correction. rewrite Qred_correct.
  apply Qdiv_pos_neg; auto. apply Qdiv_pos_pos; auto. nra.
Qed.
Lemma angle_sign h g : grad_ < 0 -> 0 < sma -> 0 < geps g -> geps g < 1 -> 0 < h ->
  0 < angle_correction sma grad_ h g.
Proof.
  intros Hg Hs H0 He Hh. unfold angle_correction.
  apply Qdiv_neg_neg; [|nra]. apply Qdiv_pos_neg; auto. apply Qdiv_pos_pos; auto. nra.
Qed.
End CorrectorLemmas.

(* ---- first-order response of the squared elliptical radius ----
   a point of the sampling ellipse (sma a, ellipticity e) at eccentric anomaly E, in the frame of
   its axes, is (a c, a (1-e) s) with c = cos E, s = sin E.  r2 e' X Y is the squared elliptical
   radius of (X, Y) for an ellipse of ellipticity e' with the same axes.  On the truth the
   intensity is a function of r2 only, so  I ~ I0 + gradient * (r2 - a^2) / (2 a)  to first order. *)
Definition r2 (e' X Y : Q) : Q := X * X + Y * Y / ((1 - e') * (1 - e')).
(* true centre displaced by delta along the major axis: a pure cos E term (harmonic b1) *)
Lemma response_major a e c s delta : ~ 1 - e == 0 -> c * c + s * s == 1 ->
  r2 e (a * c - delta) (a * (1 - e) * s) - a * a == - (2) * a * delta * c + delta * delta.
Proof.
  intros He H. unfold r2.
  assert (E : (a * c - delta) * (a * c - delta) + a * (1 - e) * s * (a * (1 - e) * s) / ((1 - e) * (1 - e)) - a * a
              == - (2) * a * delta * c + delta * delta + a * a * (c * c + s * s - 1)) by (field; auto).
  rewrite E, H. ring.
Qed.
(* ... along the minor axis: a pure sin E term (harmonic a1), scaled by 1/(1-e) *)
Lemma response_minor a e c s delta : ~ 1 - e == 0 -> c * c + s * s == 1 ->
  r2 e (a * c) (a * (1 - e) * s - delta) - a * a
  == - (2) * a * delta * s / (1 - e) + delta * delta / ((1 - e) * (1 - e)).
Proof.
  intros He H. unfold r2.
  assert (E : a * c * (a * c) + (a * (1 - e) * s - delta) * (a * (1 - e) * s - delta) / ((1 - e) * (1 - e)) - a * a
              == - (2) * a * delta * s / (1 - e) + delta * delta / ((1 - e) * (1 - e))
                 + a * a * (c * c + s * s - 1)) by (field; auto).
  rewrite E, H. ring.
Qed.
(* true ellipticity e' <> e: a constant plus a pure cos 2E term (harmonic b2);
   uses c^2 + s^2 = 1 and the double-angle relation c2 = c^2 - s^2 *)
Lemma response_eps a e e' c s c2 : ~ 1 - e' == 0 -> c * c + s * s == 1 -> c2 == c * c - s * s ->
  r2 e' (a * c) (a * (1 - e) * s) - a * a
  == a * a * ((1 - e) * (1 - e) / ((1 - e') * (1 - e')) - 1) * ((1 - c2) / 2).
Proof.
  intros He H H2. unfold r2. rewrite H2.
  assert (E : a * c * (a * c) + a * (1 - e) * s * (a * (1 - e) * s) / ((1 - e') * (1 - e')) - a * a
              == a * a * ((1 - e) * (1 - e) / ((1 - e') * (1 - e')) - 1) * ((1 - (c * c - s * s)) / 2)
                 + a * a * (c * c + s * s - 1) * ((1 - e) * (1 - e) / ((1 - e') * (1 - e')) + 1) / 2) by (field; auto).
  rewrite E, H. field. auto.
Qed.
(* true major axis rotated by an angle with cosine cd and sine sd: a pure sin 2E term (harmonic a2)
   at first order in sd; uses c^2+s^2 = 1, cd^2+sd^2 = 1 and s2 = 2 s c, c2 = c^2 - s^2 *)
Lemma response_pa a e c s s2 c2 cd sd : ~ 1 - e == 0 ->
  c * c + s * s == 1 -> cd * cd + sd * sd == 1 -> s2 == 2 * s * c -> c2 == c * c - s * s ->
  let q := 1 - e in
  r2 e (a * (cd * c + sd * q * s)) (a * (- sd * c + cd * q * s)) - a * a
  == a * a * (cd * sd * s2 * (q - 1 / q)
              + sd * sd * ((q * q - 1) * (1 - c2) / 2 + (1 / (q * q) - 1) * (1 + c2) / 2)).
Proof.
  intros He H Hd H2 Hc2 q. assert (Hq : ~ q == 0) by exact He.
  unfold r2. fold q. clearbody q. rewrite H2, Hc2.
  assert (E : a * (cd * c + sd * q * s) * (a * (cd * c + sd * q * s))
              + a * (- sd * c + cd * q * s) * (a * (- sd * c + cd * q * s)) / (q * q) - a * a
              == a * a * (cd * sd * (2 * s * c) * (q - 1 / q)
                          + sd * sd * ((q * q - 1) * (1 - (c * c - s * s)) / 2 + (1 / (q * q) - 1) * (1 + (c * c - s * s)) / 2))
                 + a * a * (c * c + s * s - 1) * (1 + sd * sd * ((q * q - 1) + (1 / (q * q) - 1)) / 2)
                 + a * a * (cd * cd + sd * sd - 1) * (c * c + s * s)) by (field; auto).
  rewrite E, H, Hd. ring.
Qed.

(* ================================================================== *)
(* (3) convergence test, the loop, the truth as a fixed point          *)
(* ================================================================== *)
(* the test on squares is the test with the root, whenever the root exists in Q *)
Lemma conv_test_sqrt conver area sd h : 0 <= sd ->
  conv_test conver area (sd * sd) h = true <-> Qabs' h < conver * area * sd.
Proof.
  intros Hsd. unfold conv_test. rewrite andb_true_iff, !Qltb_iff.
  set (s := conver * area).
  assert (Habs : 0 <= Qabs' h /\ Qabs' h * Qabs' h == h * h).
  { unfold Qabs'. destruct (Qle_bool 0 h) eqn:E.
    - apply Qle_bool_iff in E. split; [exact E|reflexivity].
    - assert (~ 0 <= h) by (rewrite <- Qle_bool_iff; congruence). split; [lra|ring]. }
  destruct Habs as [Ha Hq]. split.
  - intros [Hs Hlt]. rewrite <- Hq in Hlt.
    destruct (Qlt_le_dec (Qabs' h) (s * sd)) as [|Hge]; auto. exfalso.
    assert (0 <= s * sd) by nra. nra.
  - intros Hlt. assert (Hs : 0 < s).
    { destruct (Qlt_le_dec 0 s); auto. exfalso. assert (s * sd <= 0) by nra. lra. }
    split; auto. rewrite <- Hq. nra.
Qed.
(* with a zero harmonic the test asks for a non-zero residual *)
Lemma conv_test_zero conver area var h : h == 0 ->
  conv_test conver area var h = true <-> 0 < conver * area /\ 0 < var.
Proof.
  intros H. unfold conv_test. rewrite andb_true_iff, !Qltb_iff. rewrite H.
  set (s := conver * area).
  split; intros [Hs Hv]; split; auto.
  - assert (Hss : 0 < s * s) by nra. set (ss := s * s) in *.
    destruct (Qlt_le_dec 0 var); auto. exfalso. assert (ss * var <= 0) by nra. lra.
  - assert (Hss : 0 < s * s) by nra. set (ss := s * s) in *.
    assert (0 < ss * var) by (apply Qmult_lt_0_compat; auto). lra.
Qed.
Lemma conv_test_exact conver area var h : h == 0 -> var == 0 -> conv_test conver area var h = false.
Proof.
  intros H Hv. destruct (conv_test conver area var h) eqn:E; auto.
  apply (conv_test_zero _ _ _ _ H) in E. lra.
Qed.

Lemma normalise_id max_eps min_eps pi2 fp (g : geomQ) : 0 < geps g ->
  normalise Qnum max_eps min_eps pi2 fp g = g.
Proof.
  intros H. unfold geps in H. unfold normalise. simpl.
  destruct (Qltb (g_eps Qnum g) 0) eqn:E.
  - apply Qltb_iff in E. lra.
  - destruct (Qeq_bool (g_eps Qnum g) 0) eqn:E0; [|reflexivity].
    apply Qeq_bool_iff in E0. lra.
Qed.

(* stop code 0 is only ever produced by the convergence test *)
Lemma fit_loop_code0 max_eps min_eps pi2 mask inw minit : forall os i g lex minamp tr,
  fst (fst (fst (fit_loop Qnum max_eps min_eps pi2 mask inw minit i os g lex minamp tr))) = 0%Z ->
  exists o, In o os /\ o_converged Qnum o = true.
Proof.
  induction os as [|o os IH]; intros i g lex minamp tr; cbn [fit_loop]; [discriminate|].
  destruct (o_empty Qnum o || o_fitfail Qnum o); cbn [fst snd]; [discriminate|].
  destruct (o_converged Qnum o) eqn:Ec.
  { intros _. exists o. split; [left; reflexivity|exact Ec]. }
  cbn [andb].
  destruct (o_fewpts Qnum o); cbn [fst snd]; [discriminate|].
  destruct (o_gradzero Qnum o); cbn [fst snd]; [discriminate|].
  destruct (check_conditions _ _ _ _ _ _) as [p lx].
  destruct p; cbn [fst snd]; [|discriminate].
  intros H. destruct (IH _ _ _ _ _ H) as (o' & Hin & Ho'). exists o'. split; [right; exact Hin|exact Ho'].
Qed.

Section FixedPoint.
Variables (conver max_eps min_eps pi2 pi_ sma shape_x shape_y : Q) (fc fpa feps inw : bool) (minit : nat).
Hypothesis Hfree : fc && fpa && feps = false.
Notation mask := (fix_mask fc fpa feps).
Notation obs_of := (obs_of conver max_eps pi_ sma shape_x shape_y mask).
Notation obs_along := (obs_along conver max_eps min_eps pi2 pi_ sma shape_x shape_y mask).
Notation corrected := (corrected max_eps pi_ sma mask).
Notation largest := (largest mask).
Notation chosen := (chosen mask).

(* one iteration's numerics of an EXACT isophote: a sample was extracted, the fit did not fail,
   and every harmonic amplitude of a NON-FIXED parameter is zero *)
Definition exact_iter (h : hin) : Prop :=
  hi_empty h = false /\ hi_fitfail h = false /\ length (hi_coeffs h) = 4%nat /\
  forall j, nth j mask true = false -> nth j (hi_coeffs h) 0 == 0.

Lemma largest_zero h : exact_iter h -> largest h == 0.
Proof.
  intros (_ & _ & Hl & Hz). unfold C20H_Model.largest, C20H_Model.chosen.
  destruct (argmax_masked_spec (hi_coeffs h) mask (free_exists fc fpa feps Hfree _ Hl))
    as (Hm & c & Hc & _).
  set (k := argmax_masked Qnum (hi_coeffs h) mask) in *.
  apply Hz. apply (nth_error_nth _ _ true) in Hm. exact Hm.
Qed.

Lemma correct_obs_of g h : correct Qnum max_eps (chosen h) g (obs_of g h) = corrected g h.
Proof.
  unfold C20H_Model.obs_of, C20H_Model.corrected. destruct (chosen h) as [|[|[|k]]]; reflexivity.
Qed.

Variable g0 : geomQ.                     (* the truth *)
Hypothesis Hpa0 : 0 <= gpa g0.
Hypothesis Hpa1 : gpa g0 < pi_.
Hypothesis Heps0 : 0 < geps g0.
Hypothesis Heps1 : geps g0 <= max_eps.

Lemma corrected_fixed g h : geq g g0 -> exact_iter h -> geq (corrected g h) g0.
Proof.
  intros Hg Hh. destruct Hg as (G1 & G2 & G3 & G4).
  apply (geq_trans _ g); [|unfold geq; auto].
  apply corrector_zero; [apply largest_zero, Hh|lra|lra|lra].
Qed.

Lemma fit_loop_fixed : forall hs i g lex minamp tr,
  geq g g0 -> (forall a gm, minamp = Some (a, gm) -> geq gm g0) -> Forall exact_iter hs ->
  let r := fst (fit_loop Qnum max_eps min_eps pi2 mask inw minit i (obs_along hs g) g lex minamp tr) in
  geq (snd r) g0 /\ snd (fst r) = true /\
  (fst (fst r) = 0 \/ fst (fst r) = 1 \/ fst (fst r) = 2 \/ fst (fst r) = -1)%Z.
Proof.
  induction hs as [|h hs IH]; intros i g lex minamp tr Hg Hmin Hall; cbn [C20H_Model.obs_along fit_loop].
  - cbn [fst snd]. destruct minamp as [[a gm]|]; cbn [fst snd]; (split; [eauto|split; [reflexivity|auto 6]]).
  - inversion Hall as [|? ? Hh Hall']; subst.
    set (o := obs_of g h).
    assert (Ee : o_empty Qnum o || o_fitfail Qnum o = false).
    { destruct Hh as (He & Hf & _). unfold o, C20H_Model.obs_of. cbn [o_empty o_fitfail]. rewrite He, Hf. reflexivity. }
    rewrite Ee.
    set (k := argmax_masked Qnum (o_coeffs Qnum o) mask).
    set (amp := nabs Qnum (nth k (o_coeffs Qnum o) (n0 Qnum))).
    set (minamp' := match minamp with
                    | Some (a, gm) => if ltb Qnum amp a then Some (amp, g) else Some (a, gm)
                    | None => Some (amp, g) end).
    assert (Hmin' : forall a gm, minamp' = Some (a, gm) -> geq gm g0).
    { intros a gm. unfold minamp'. destruct minamp as [[a0 gm0]|].
      - destruct (ltb Qnum amp a0); intros E; inversion E; subst; eauto.
      - intros E; inversion E; subst; auto. }
    clearbody minamp'.
    destruct (o_converged Qnum o && (minit - 1 <=? i)%nat); cbn [fst snd].
    { (split; [auto|split; [reflexivity|auto 6]]). }
    destruct (o_fewpts Qnum o); cbn [fst snd].
    { destruct minamp' as [[a gm]|]; cbn [fst snd]; (split; [eauto|split; [reflexivity|auto 6]]). }
    destruct (o_gradzero Qnum o); cbn [fst snd].
    { (split; [auto|split; [reflexivity|auto 6]]). }
    clear amp. subst k.
    change (argmax_masked Qnum (o_coeffs Qnum o) mask) with (chosen h).
    clear Ee. subst o. rewrite !correct_obs_of.
    assert (Hc : geq (corrected g h) g0) by (apply corrected_fixed; auto).
    assert (Hn : normalise Qnum max_eps min_eps pi2 (nth 2 mask false) (corrected g h) = corrected g h).
    { apply normalise_id. destruct Hc as (_ & _ & _ & E). lra. }
    rewrite Hn.
    destruct (check_conditions Qnum max_eps (corrected g h) (obs_of g h) inw lex) as [p lx].
    destruct p; cbn [fst snd].
    + apply IH; auto.
    + (split; [auto|split; [reflexivity|auto 6]]).
Qed.
End FixedPoint.

(* THE TRUTH IS A FIXED POINT of EllipseFitter.fit, for every fix mask that leaves something to
   fit, every maxit (= number of recorded iterations), every minit, both directions *)
Lemma hfit_truth_fixed conver max_eps min_eps pi2 pi_ sma shape_x shape_y fc fpa feps inw minit hs g :
  fc && fpa && feps = false ->
  0 <= gpa g -> gpa g < pi_ -> 0 < geps g -> geps g <= max_eps ->
  Forall (exact_iter fc fpa feps) hs ->
  let r := fst (hfit conver max_eps min_eps pi2 pi_ sma shape_x shape_y fc fpa feps inw minit hs g) in
  geq (snd r) g /\ snd (fst r) = true /\
  (fst (fst r) = 0 \/ fst (fst r) = 1 \/ fst (fst r) = 2 \/ fst (fst r) = -1)%Z.
Proof.
  intros Hfree H0 H1 H2 H3 Hall. unfold hfit, fit.
  apply (fit_loop_fixed conver max_eps min_eps pi2 pi_ sma shape_x shape_y fc fpa feps inw minit Hfree g H0 H1 H2 H3);
    auto using geq_refl. discriminate.
Qed.

(* ... and the fit stops AT THE FIRST ITERATION with stop code 0 and the very geometry it was
   given, if minit <= 1 and the convergence test passes — which, the harmonic being 0, asks for
   conver * sector_area > 0 and a NON-ZERO residual *)
Lemma hfit_truth_first_iteration conver max_eps min_eps pi2 pi_ sma shape_x shape_y fc fpa feps inw minit h hs g :
  fc && fpa && feps = false -> exact_iter fc fpa feps h -> (minit <= 1)%nat ->
  0 < conver * hi_area h -> 0 < hi_var h ->
  hfit conver max_eps min_eps pi2 pi_ sma shape_x shape_y fc fpa feps inw minit (h :: hs) g = (0%Z, true, g, []).
Proof.
  intros Hfree Hh Hm Hs Hv. unfold hfit, fit. cbn [C20H_Model.obs_along fit_loop].
  set (o := obs_of conver max_eps pi_ sma shape_x shape_y (fix_mask fc fpa feps) g h).
  assert (Ee : o_empty Qnum o || o_fitfail Qnum o = false).
  { destruct Hh as (He & Hf & _). unfold o, obs_of. cbn [o_empty o_fitfail]. rewrite He, Hf. reflexivity. }
  rewrite Ee.
  assert (Ec : o_converged Qnum o = true).
  { unfold o, obs_of. cbn [o_converged]. apply conv_test_zero; auto. apply largest_zero; auto. }
  rewrite Ec. replace (minit - 1 <=? 0)%nat with true by (symmetry; apply Nat.leb_le; lia).
  reflexivity.
Qed.

(* ... but IN EXACT ARITHMETIC an exact isophote has residual 0, the test is 0 > 0, and stop
   code 0 is never produced: the loop runs to maxit (code 2) or leaves through 1 / -1 *)
Lemma hfit_truth_exact_never_code0 conver max_eps min_eps pi2 pi_ sma shape_x shape_y fc fpa feps inw minit hs g :
  fc && fpa && feps = false ->
  0 <= gpa g -> gpa g < pi_ -> 0 < geps g -> geps g <= max_eps ->
  Forall (fun h => exact_iter fc fpa feps h /\ hi_var h == 0) hs ->
  fst (fst (fst (hfit conver max_eps min_eps pi2 pi_ sma shape_x shape_y fc fpa feps inw minit hs g))) <> 0%Z.
Proof.
  intros Hfree H0 H1 H2 H3 Hall Hcode. unfold hfit, fit in Hcode.
  apply fit_loop_code0 in Hcode. destruct Hcode as (o & Hin & Hc).
  (* every observation along the trajectory has o_converged = false *)
  assert (Hno : forall hs g, Forall (fun h => exact_iter fc fpa feps h /\ hi_var h == 0) hs ->
            forall o, In o (obs_along conver max_eps min_eps pi2 pi_ sma shape_x shape_y (fix_mask fc fpa feps) hs g) ->
            o_converged Qnum o = false).
  { clear Hin Hc o Hall hs g H0 H1 H2 H3.
    intros hs. induction hs as [|h hs IH]; intros g Hall o Hin; [destruct Hin|].
    inversion Hall as [|? ? [Hh Hv] Hall']; subst. cbn [obs_along] in Hin. destruct Hin as [<-|Hin].
    - unfold obs_of. cbn [o_converged]. apply conv_test_exact; auto. apply largest_zero; auto.
    - eapply IH; eauto. }
  rewrite (Hno _ _ Hall o Hin) in Hc. discriminate.
Qed.

(* ---- packaged statements used by C20H_Properties ---- *)
Lemma exact_form_both n k A y cs :
  exact_form n k A y cs -> normal_eq n k A y cs /\ rss n k A y cs == 0.
Proof. intros H. split; [exact (exact_form_normal_eq n k A y cs H)|exact (exact_form_rss n k A y cs H)]. Qed.
Lemma position_correctors_zero grad_ sinpa cospa h g : h == 0 ->
  geq (pos0 grad_ sinpa cospa h g) g /\ geq (pos1 grad_ sinpa cospa h g) g.
Proof. intros H. split; [exact (pos0_zero grad_ sinpa cospa h g H)|exact (pos1_zero grad_ sinpa cospa h g H)]. Qed.
Lemma corrector_signs_proof sma grad_ h g :
  grad_ < 0 -> 0 < sma -> 0 < geps g -> geps g < 1 -> 0 < h ->
  0 < pos1_aux grad_ h /\ 0 < pos0_aux grad_ h g /\
  0 < angle_correction sma grad_ h g /\ eps_correction sma grad_ h g < 0.
Proof.
  intros Hg Hs H0 H1 Hh.
  exact (conj (pos1_sign grad_ h Hg Hh) (conj (pos0_sign grad_ h g Hg H1 Hh)
        (conj (angle_sign sma grad_ h g Hg Hs H0 H1 Hh) (eps_sign sma grad_ h g Hg Hs H1 Hh)))).
Qed.
Lemma exact_iter_zero_coeffs fc fpa feps h :
  hi_empty h = false -> hi_fitfail h = false -> hi_coeffs h = [0; 0; 0; 0] -> exact_iter fc fpa feps h.
Proof.
  intros He Hf Hc. unfold exact_iter. rewrite Hc. repeat split; auto.
  intros [|[|[|[|[|j]]]]] _; reflexivity.
Qed.
