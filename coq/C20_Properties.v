From Coq Require Import List ZArith Bool QArith.
From PV Require Import lib.Cases C20_Model C20_Proofs.
Import ListNotations.
