(* C20 — isophote fitting: property theorems about the model of C20_Model.v.
   Each theorem is closed by [exact] of a lemma of C20_Proofs.

   What is proved, about what:
   (A) EllipseGeometry._to_polar_scalar and _to_polar_vectorized (geometry.py:446-500), both
       modelled statement by statement over an ABSTRACT record of numeric operations, return
       the same (radius, angle) for every geometry and every array of points.
   (B) the control skeleton of Ellipse.fit_image (ellipse.py:386-510, with the inward loop
       REPAIRED by fixes/C20-1), driven by an arbitrary stream of fit outcomes standing for
       EllipseFitter.fit: whenever it returns, the list is empty or strictly increasing in
       sma, contains sma0, contains sma 0 iff minsma = 0, and every sma lies in
       [minsma, maxsma].  Numbers are exact rationals.  Partial correctness: the real
       loops need not terminate for adversarial streams, hence the fuel.
   (C) the harmonic selected by EllipseFitter.fit (fitter.py:181-187) is never one of a fixed
       parameter, and fixed parameters survive the whole iteration of the fitter model
       (repaired by fixes/C20-2 and C20-4).
   NOT proved (numerics of an iterative least-squares fitter; tested only, see harness):
   recovery of centre/eps/PA/intensity within the reported errors, build_ellipse_model
   reproducing the image. *)
From Coq Require Import List ZArith Bool QArith Sorted.
From PV Require Import lib.Cases C20_Model C20_Proofs.
Import ListNotations.
Local Open Scope Q_scope.

(* ------------------------------------------------------------------ *)
(* (A) scalar / array twins of the coordinate transform                *)
(* ------------------------------------------------------------------ *)
(* [ops]: any carrier with +,-,*,/, sqrt, asin, abs, <, <= and constants 0,1,2,pi; the only
   hypothesis is that  0 <= a  and  a < 0  never both hold (true of the reals, of Q, and of
   IEEE doubles including NaN).  Nothing is assumed about sqrt/asin: both twins must call the
   same ones (math.asin vs numpy.arcsin is outside the theorem, see the harness). *)
Theorem to_polar_twins_agree :
  forall (A : Type) (padd psub pmul pdiv : A -> A -> A) (psqrt pasin pabs : A -> A)
         (pltb pleb : A -> A -> bool) (c0 c1 c2 pi : A),
  (forall a, pleb c0 a = true -> pltb a c0 = false) ->
  forall (x0 y0 pa : A) (xs ys : list A), length xs = length ys ->
  to_polar_vec padd psub pmul pdiv psqrt pasin pabs pltb pleb c0 c1 c2 pi x0 y0 pa xs ys =
  (map fst (map2 (to_polar_scalar padd psub pmul pdiv psqrt pasin pabs pltb pleb c0 c1 c2 pi x0 y0 pa) xs ys),
   map snd (map2 (to_polar_scalar padd psub pmul pdiv psqrt pasin pabs pltb pleb c0 c1 c2 pi x0 y0 pa) xs ys)).
Proof. exact @twins_agree. Qed.
Print Assumptions to_polar_twins_agree.

(* the order hypothesis is satisfiable (integers; sqrt/asin are arbitrary functions here) *)
Example twins_hypothesis_satisfiable : forall a : Z, Z.leb 0 a = true -> Z.ltb a 0 = false.
Proof. intros a H. apply Z.ltb_ge. apply Z.leb_le. exact H. Qed.
Example twins_instance :
  to_polar_vec Z.add Z.sub Z.mul Z.div Z.sqrt (fun a => a) Z.abs Z.ltb Z.leb 0%Z 1%Z 2%Z 3%Z
               5%Z 5%Z (-1)%Z [5; 8; 1; 9]%Z [5; 9; 9; 1]%Z
  = ([0; 5; 5; 5]%Z, [2; 1; 4; 1]%Z).   (* toy integer operations, asin := identity *)
Proof. vm_compute. reflexivity. Qed.

(* ------------------------------------------------------------------ *)
(* (B) the sma schedule of fit_image                                   *)
(* ------------------------------------------------------------------ *)
(* growth steps (geometry.py:502-553) *)
Theorem growth_step_increases : forall lin sma step,
  0 < step -> 0 < sma -> sma < update_sma Qnum lin sma step.
Proof. exact update_sma_increases. Qed.
Print Assumptions growth_step_increases.

Theorem growth_step_monotone : forall lin a b step,
  0 < step -> a < b -> update_sma Qnum lin a step < update_sma Qnum lin b step.
Proof. exact update_sma_monotone. Qed.
Print Assumptions growth_step_monotone.

(* reset_sma: the first inward sma is below the start, every inward step shrinks a positive
   sma, and growing the reset sma by one outward step gives the start back *)
Theorem inward_step_decreases : forall lin a step sin istep,
  0 < step -> reset_sma Qnum lin a step = (sin, istep) ->
  (0 < a -> sin < a) /\ (forall x, 0 < x -> update_sma Qnum lin x istep < x).
Proof. exact reset_sma_spec. Qed.
Print Assumptions inward_step_decreases.

Theorem reset_inverts_growth : forall lin a step sin istep,
  0 < step -> reset_sma Qnum lin a step = (sin, istep) -> update_sma Qnum lin sin step == a.
Proof. exact reset_sma_inverse. Qed.
Print Assumptions reset_inverts_growth.

(* [stream_ok s]: an invalid fit outcome has stop code 3 (true of every return statement of
   EllipseFitter.fit; proved of the fitter model below: fit_invalid_only_code3).
   [eff_sma0]: the sma the first fit is made at (sma0 argument, else geometry.sma). *)
Theorem sma_schedule :
  forall lin step minsma maxsma maxrit fuel sma0arg gsma fix_all s l calls,
  let a0 := eff_sma0 sma0arg gsma in
  0 < step -> 0 < a0 -> minsma <= a0 -> (forall m, maxsma = Some m -> a0 <= m) -> stream_ok s ->
  fit_image Qnum lin step minsma maxsma maxrit true fuel sma0arg gsma fix_all s = (Ret Qnum l, calls) ->
  l = [] \/
  (StronglySorted (fun a b => i_sma Qnum a < i_sma Qnum b) l /\
   (exists i, In i l /\ i_sma Qnum i = a0) /\
   ((exists i, In i l /\ i_sma Qnum i == 0) <-> minsma == 0) /\
   (forall i, In i l ->
      minsma <= i_sma Qnum i /\
      (forall m, maxsma = Some m -> i_sma Qnum i < m \/ i_sma Qnum i == a0) /\
      (i_sma Qnum i == 0 \/ 1 # 2 < i_sma Qnum i \/ a0 <= i_sma Qnum i))).
Proof. exact sma_schedule_proof. Qed.
Print Assumptions sma_schedule.

(* the fuel of the model is not a hidden cut: a run that ends (returns, raises IndexError or
   starves the stream) with some fuel ends identically with any larger fuel, so sma_schedule
   speaks about every terminating run; holds for every instance of the number record *)
Theorem fit_image_fuel_independent_thm :
  forall (N : num) lin step minsma maxsma maxrit top_test f f' sma0 gsma fix_all s r calls,
  (f <= f')%nat ->
  fit_image N lin step minsma maxsma maxrit top_test f sma0 gsma fix_all s = (r, calls) ->
  r <> Fuel N ->
  fit_image N lin step minsma maxsma maxrit top_test f' sma0 gsma fix_all s = (r, calls).
Proof. exact fit_image_fuel_independent. Qed.
Print Assumptions fit_image_fuel_independent_thm.

(* the same without the range premises: every returned sma is sma0, or an outward one
   (above sma0, below a truthy maxsma), or an inward one (above max(minsma, 1/2), below
   sma0), or the central one (0, only when minsma = 0) *)
Theorem sma_schedule_classes :
  forall lin step minsma maxsma maxrit fuel sma0arg gsma fix_all s l calls,
  0 < step -> 0 < eff_sma0 sma0arg gsma -> stream_ok s ->
  fit_image Qnum lin step minsma maxsma maxrit true fuel sma0arg gsma fix_all s = (Ret Qnum l, calls) ->
  l = [] \/ Good minsma maxsma (eff_sma0 sma0arg gsma) l.
Proof. exact sma_schedule_classes_proof. Qed.
Print Assumptions sma_schedule_classes.

(* the loop of the unrepaired snapshot (top_test = false) violates the lower bound:
   sma0 = 10, minsma = 9.5, step = 0.1, maxsma = 11 returns an isophote at 100/11 < 9.5 *)
Theorem sma_lower_bound_refuted_unrepaired :
  exists l calls,
    fit_image Qnum false (1 # 10) (19 # 2) (Some 11) None false 50 (Some 10) 10 false
              [(0%Z, true); (0%Z, true); (0%Z, true)] = (Ret Qnum l, calls) /\
    exists i, In i l /\ i_sma Qnum i < 19 # 2.
Proof. exact sma_lower_bound_refuted_unrepaired_proof. Qed.
Print Assumptions sma_lower_bound_refuted_unrepaired.

(* premises are satisfiable, and the conclusion is not vacuous: geometric growth from 4 with
   maxsma 6, minsma 0: a failed outward fit (-1) is repaired to code 5, an invalid one (3) is
   retried, the inward loop runs down to 1/2 < sma and the central isophote is added *)
Example stream_ok_example : stream_ok [(0, true); (3, false); (-1, true); (2, true)]%Z.
Proof.
  intros c v H Hv. simpl in H.
  repeat (destruct H as [H|H]; [inversion H; subst; try discriminate; reflexivity|]). destruct H.
Qed.
Example sma_schedule_example :
  match fst (fit_image Qnum false (1 # 2) 0 (Some 7) None true 50 (Some 4) 10 false
         [(0, true); (3, false); (-1, true); (0, true); (0, true); (0, true); (0, true); (0, true); (0, true)]%Z)
  with Ret _ l => map (fun i => (Qred (i_sma Qnum i), i_code Qnum i)) l | _ => [] end
  = [(0, 0%Z); (128 # 243, 0%Z); (64 # 81, 0%Z); (32 # 27, 0%Z); (16 # 9, 0%Z); (8 # 3, 0%Z);
     (4, 0%Z); (6, 5%Z)].
Proof. vm_compute. reflexivity. Qed.
(* the same input through the repaired loop of the refutation: nothing below minsma *)
Example repaired_loop_on_refutation_input :
  match fst (fit_image Qnum false (1 # 10) (19 # 2) (Some 11) None true 50 (Some 10) 10 false
         [(0%Z, true); (0%Z, true); (0%Z, true)])
  with Ret _ l => map (fun i => Qred (i_sma Qnum i)) l | _ => [] end = [10].
Proof. vm_compute. reflexivity. Qed.

(* provenance of the returned geometries ([i_geom]; tied to the real code through geometry tokens of the
   scripted runs): step 0.2 from sma0 = 5, maxsma 14, maxrit 8.  Calls 1-3 fit 5, 6, 7.2 (the third fails:
   _fix_last_isophote copies the geometry of call 2); 8.64, 10.37, 12.44 lie beyond maxrit: extracted
   non-iteratively along a copy of the LAST isophote's geometry (2), not along the first guess (0); inwards the
   failed fit at 125/36 (call 8) gets the geometry of the FIRST isophote (call 1); the central isophote
   copies the innermost one (call 18).  Listed by increasing sma: (stop code, provenance). *)
Example geometry_provenance_example :
  match fst (fit_image Qnum false (1 # 5) 0 (Some 14) (Some 8) true 50 (Some 5) 5 false
         ([(0, true); (0, true); (-1, true); (0, true); (-1, true)] ++ repeat (0, true) 11)%Z)
  with Ret _ l => map (fun i => (i_code Qnum i, i_geom Qnum i)) l | _ => [] end
  = [(0, 18); (0, 18); (0, 17); (0, 16); (0, 15); (0, 14); (0, 13); (0, 12); (0, 11); (0, 10); (0, 9);
     (5, 1); (0, 7); (0, 1); (0, 2); (5, 2); (4, 2); (4, 2); (4, 2)]%Z.
Proof. vm_compute. reflexivity. Qed.

(* ------------------------------------------------------------------ *)
(* (C) fixed parameters in EllipseFitter.fit                           *)
(* ------------------------------------------------------------------ *)
(* np.argmax(np.abs(np.ma.masked_array(coeffs[1:], mask=fix))): as long as one harmonic is
   free, the index is free, its amplitude is the largest free one, and it is the first such *)
Theorem fixed_params_never_corrected :
  forall (coeffs : list Q) (mask : list bool),
  (exists j c, nth_error mask j = Some false /\ nth_error coeffs j = Some c) ->
  let k := argmax_masked Qnum coeffs mask in
  nth_error mask k = Some false /\
  exists c, nth_error coeffs k = Some c /\
    (forall j cj, nth_error mask j = Some false -> nth_error coeffs j = Some cj ->
                  nabs Qnum cj <= nabs Qnum c) /\
    (forall j cj, (j < k)%nat -> nth_error mask j = Some false -> nth_error coeffs j = Some cj ->
                  nabs Qnum cj < nabs Qnum c).
Proof. exact argmax_masked_spec. Qed.
Print Assumptions fixed_params_never_corrected.

(* one corrector step leaves every fixed parameter untouched (fix = [fc, fc, fpa, feps],
   not everything fixed: fit_image returns before fitting otherwise) *)
Theorem corrector_keeps_fixed_params :
  forall (max_eps : Q) (fc fpa feps : bool), fc && fpa && feps = false ->
  forall g o, length (o_coeffs Qnum o) = 4%nat ->
  keeps fc fpa feps g (correct Qnum max_eps (argmax_masked Qnum (o_coeffs Qnum o) (fix_mask fc fpa feps)) g o).
Proof. exact correct_keeps. Qed.
Print Assumptions corrector_keeps_fixed_params.

(* the whole iteration: the geometry of the returned isophote keeps every fixed parameter
   EXACTLY: a fixed centre, a fixed position angle (fixes/C20-4: the eps-sign normalisation of
   _check_conditions no longer rotates a fixed angle) and a fixed eps (for a start eps > 0;
   eps = 0 is replaced by MIN_EPS, eps < 0 is outside the property's range) *)
Theorem fixed_params_kept :
  forall max_eps min_eps pi2 fc fpa feps inw minit os g,
  fc && fpa && feps = false ->
  Forall (fun o => length (o_coeffs Qnum o) = 4%nat) os ->
  (feps = true -> 0 < g_eps Qnum g) ->
  keeps fc fpa feps g (snd (fst (fit Qnum max_eps min_eps pi2 fc fpa feps inw minit os g))).
Proof. exact fixed_params_kept_proof. Qed.
Print Assumptions fixed_params_kept.

(* the snapshot's normalisation (position angle rotated whatever the fix flags; it is the
   not-fixed branch of the repaired one) breaks a fixed position angle as soon as a corrected
   eps is negative *)
Theorem fixed_pa_refuted_unrepaired :
  exists g : geom Qnum, g_pa Qnum (normalise Qnum (95 # 100) (5 # 100) (157 # 100) false g) <> g_pa Qnum g.
Proof. exact fixed_pa_refuted_unrepaired_proof. Qed.
Print Assumptions fixed_pa_refuted_unrepaired.

(* the premise [stream_ok] of the schedule theorem holds of the fitter model *)
Theorem fit_invalid_only_code3 :
  forall max_eps min_eps pi2 fc fpa feps inw minit os g,
  let r := fst (fit Qnum max_eps min_eps pi2 fc fpa feps inw minit os g) in
  snd (fst r) = false -> fst (fst r) = 3%Z.
Proof. exact fit_invalid_only_code3_proof. Qed.
Print Assumptions fit_invalid_only_code3.

(* premises satisfiable / concrete run of the fitter model: fixed centre, the largest
   harmonic (index 0, a centre harmonic) is masked, the PA corrector (index 2) is used *)
Example fitter_example :
  let o := mkobs Qnum false false [9; -7; 5; 3] false false false 100 100 (1 # 2) (1 # 10) true false false in
  argmax_masked Qnum (o_coeffs Qnum o) (fix_mask true false false) = 2%nat /\
  let r := fit Qnum (95 # 100) (5 # 100) (157 # 100) true false false false 10 [o; o] (mkgeom Qnum 20 30 1 (2 # 10)) in
  fst (fst (fst r)) = 2%Z /\ g_x0 Qnum (snd (fst r)) = 20 /\ g_y0 Qnum (snd (fst r)) = 30.
Proof. vm_compute. repeat split; reflexivity. Qed.
