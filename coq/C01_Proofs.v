From Coq Require Import ZArith QArith Qround Qabs Qminmax List Bool Lia Lqa.
From PV Require Import lib.Cases C01_Model.
Import ListNotations.
Open Scope Q_scope.

(* ---------- floor / ceiling ---------- *)
Lemma Qfloor_unique (y : Q) (z : Z) : inject_Z z <= y -> y < inject_Z (z + 1) -> Qfloor y = z.
Proof.
  intros H1 H2. apply Z.le_antisymm.
  - assert (H : inject_Z (Qfloor y) < inject_Z (z + 1)) by (eapply Qle_lt_trans; [apply Qfloor_le|exact H2]).
    rewrite <- Zlt_Qlt in H. lia.
  - rewrite <- (Qfloor_Z z). apply Qfloor_resp_le. exact H1.
Qed.
Lemma Qceiling_unique (y : Q) (z : Z) : inject_Z (z - 1) < y -> y <= inject_Z z -> Qceiling y = z.
Proof.
  intros H1 H2. apply Z.le_antisymm.
  - rewrite <- (Qceiling_Z z). apply Qceiling_resp_le. exact H2.
  - assert (H : inject_Z (z - 1) < inject_Z (Qceiling y)) by (eapply Qlt_le_trans; [exact H1|apply Qle_ceiling]).
    rewrite <- Zlt_Qlt in H. lia.
Qed.
Lemma inject_Z_add1 z : inject_Z (z + 1) == inject_Z z + 1.
Proof. rewrite inject_Z_plus. reflexivity. Qed.
Lemma inject_Z_sub1 z : inject_Z (z - 1) == inject_Z z - 1.
Proof. unfold Z.sub. rewrite inject_Z_plus. reflexivity. Qed.

Lemma Qfloor_shift (y : Q) (k : Z) : Qfloor (y + inject_Z k) = (Qfloor y + k)%Z.
Proof.
  apply Qfloor_unique.
  - rewrite inject_Z_plus. pose proof (Qfloor_le y). lra.
  - replace (Qfloor y + k + 1)%Z with ((Qfloor y + 1) + k)%Z by lia. rewrite inject_Z_plus.
    pose proof (Qlt_floor y). lra.
Qed.
Lemma Qceiling_shift (y : Q) (k : Z) : Qceiling (y + inject_Z k) = (Qceiling y + k)%Z.
Proof.
  apply Qceiling_unique.
  - replace (Qceiling y + k - 1)%Z with ((Qceiling y - 1) + k)%Z by lia. rewrite inject_Z_plus.
    pose proof (Qceiling_lt y). lra.
  - rewrite inject_Z_plus. pose proof (Qle_ceiling y). lra.
Qed.

(* ---------- from_float ---------- *)
(* the box [ixmin - 1/2, ixmax - 1/2] x ... contains the extent, and it is the smallest
   integer box (pixel-centre convention) that does *)
Lemma from_float_contains xmin xmax ymin ymax :
  let b := from_float xmin xmax ymin ymax in
  inject_Z (ixmin b) - half <= xmin /\ xmax <= inject_Z (ixmax b) - half /\
  inject_Z (iymin b) - half <= ymin /\ ymax <= inject_Z (iymax b) - half.
Proof.
  unfold from_float; cbn [ixmin ixmax iymin iymax]. unfold half.
  pose proof (Qfloor_le (xmin + (1#2))). pose proof (Qfloor_le (ymin + (1#2))).
  pose proof (Qle_ceiling (xmax + (1#2))). pose proof (Qle_ceiling (ymax + (1#2))).
  repeat split; lra.
Qed.

Lemma from_float_minimal xmin xmax ymin ymax (a0 a1 c0 c1 : Z) :
  let b := from_float xmin xmax ymin ymax in
  inject_Z a0 - half <= xmin -> xmax <= inject_Z a1 - half ->
  inject_Z c0 - half <= ymin -> ymax <= inject_Z c1 - half ->
  (a0 <= ixmin b /\ ixmax b <= a1 /\ c0 <= iymin b /\ iymax b <= c1)%Z.
Proof.
  unfold from_float; cbn [ixmin ixmax iymin iymax]. unfold half. intros Hx0 Hx1 Hy0 Hy1. repeat split.
  - rewrite <- (Qfloor_Z a0). apply Qfloor_resp_le. lra.
  - rewrite <- (Qceiling_Z a1). apply Qceiling_resp_le. lra.
  - rewrite <- (Qfloor_Z c0). apply Qfloor_resp_le. lra.
  - rewrite <- (Qceiling_Z c1). apply Qceiling_resp_le. lra.
Qed.

(* tightness: one pixel less on any side no longer contains the extent *)
Lemma from_float_tight xmin xmax ymin ymax :
  let b := from_float xmin xmax ymin ymax in
  xmin < inject_Z (ixmin b) + half /\ inject_Z (ixmax b) - half - 1 < xmax /\
  ymin < inject_Z (iymin b) + half /\ inject_Z (iymax b) - half - 1 < ymax.
Proof.
  unfold from_float; cbn [ixmin ixmax iymin iymax]. unfold half.
  pose proof (Qlt_floor (xmin + (1#2))) as A. pose proof (Qlt_floor (ymin + (1#2))) as B.
  pose proof (Qceiling_lt (xmax + (1#2))) as C. pose proof (Qceiling_lt (ymax + (1#2))) as D.
  rewrite inject_Z_add1 in A, B. rewrite inject_Z_sub1 in C, D. repeat split; lra.
Qed.

Lemma from_float_nonempty xmin xmax ymin ymax :
  xmin < xmax -> ymin < ymax ->
  let b := from_float xmin xmax ymin ymax in (ixmin b < ixmax b /\ iymin b < iymax b)%Z.
Proof.
  intros Hx Hy. unfold from_float; cbn [ixmin ixmax iymin iymax]. unfold half. split; rewrite Zlt_Qlt.
  - pose proof (Qfloor_le (xmin + (1#2))). pose proof (Qle_ceiling (xmax + (1#2))). lra.
  - pose proof (Qfloor_le (ymin + (1#2))). pose proof (Qle_ceiling (ymax + (1#2))). lra.
Qed.

(* integer translation covariance (used by C03) *)
Lemma from_float_shift xmin xmax ymin ymax (kx ky : Z) :
  from_float (xmin + inject_Z kx) (xmax + inject_Z kx) (ymin + inject_Z ky) (ymax + inject_Z ky)
  = let b := from_float xmin xmax ymin ymax in
    mkbox (ixmin b + kx) (ixmax b + kx) (iymin b + ky) (iymax b + ky).
Proof.
  unfold from_float. cbn [ixmin ixmax iymin iymax].
  assert (E : forall x k, x + inject_Z k + half == (x + half) + inject_Z k) by (intros; ring).
  rewrite (Qfloor_comp _ _ (E xmin kx)), (Qfloor_comp _ _ (E ymin ky)),
          (Qceiling_comp _ _ (E xmax kx)), (Qceiling_comp _ _ (E ymax ky)),
          !Qfloor_shift, !Qceiling_shift.
  reflexivity.
Qed.

(* ---------- overlap slices ---------- *)
Open Scope Z_scope.
Definition in_box (b : box) (y x : Z) := iymin b <= y < iymax b /\ ixmin b <= x < ixmax b.
Definition in_img (ny nx y x : Z) := 0 <= y < ny /\ 0 <= x < nx.

Lemma overlap_none (b : box) ny nx :
  ixmin b < ixmax b -> iymin b < iymax b ->
  (overlap_slices b ny nx = None <-> forall y x, ~ (in_box b y x /\ in_img ny nx y x)).
Proof.
  intros Hx Hy. unfold overlap_slices, in_box, in_img.
  destruct ((nx <=? ixmin b) || (ny <=? iymin b) || (ixmax b <=? 0) || (iymax b <=? 0)) eqn:E.
  - split; [intros _ y x|reflexivity]. lia.
  - split; [discriminate|]. intros H. exfalso.
    apply (H (Z.max (iymin b) 0) (Z.max (ixmin b) 0)). lia.
Qed.

Lemma overlap_some (b : box) ny nx ly0 ly1 lx0 lx1 sy0 sy1 sx0 sx1 :
  overlap_slices b ny nx = Some (((ly0, ly1), (lx0, lx1)), ((sy0, sy1), (sx0, sx1))) ->
  (forall y x, (ly0 <= y < ly1 /\ lx0 <= x < lx1) <-> (in_box b y x /\ in_img ny nx y x)) /\
  sy0 = ly0 - iymin b /\ sy1 = ly1 - iymin b /\ sx0 = lx0 - ixmin b /\ sx1 = lx1 - ixmin b /\
  ly0 < ly1 /\ lx0 < lx1.
Proof.
  unfold overlap_slices, in_box, in_img.
  destruct ((nx <=? ixmin b) || (ny <=? iymin b) || (ixmax b <=? 0) || (iymax b <=? 0)) eqn:E; [discriminate|].
  intros [= <- <- <- <- <- <- <- <-]. repeat split; try lia.
  intros y x. lia.
Qed.

Lemma overlap_shift (b : box) ny nx ky kx :
  0 <= ky -> 0 <= kx ->
  (* embedding the image at offset (ky, kx) in a canvas that still contains it *)
  forall NY NX, ny + ky <= NY -> nx + kx <= NX ->
  0 <= iymin b -> 0 <= ixmin b -> iymax b <= ny -> ixmax b <= nx -> ixmin b < ixmax b -> iymin b < iymax b ->
  overlap_slices (mkbox (ixmin b + kx) (ixmax b + kx) (iymin b + ky) (iymax b + ky)) NY NX
  = match overlap_slices b ny nx with
    | Some (((ly0, ly1), (lx0, lx1)), s) => Some (((ly0 + ky, ly1 + ky), (lx0 + kx, lx1 + kx)), s)
    | None => None
    end.
Proof.
  intros. unfold overlap_slices. cbn [ixmin ixmax iymin iymax].
  destruct ((nx <=? ixmin b) || (ny <=? iymin b) || (ixmax b <=? 0) || (iymax b <=? 0)) eqn:E1; [lia|].
  destruct ((NX <=? ixmin b + kx) || (NY <=? iymin b + ky) || (ixmax b + kx <=? 0) || (iymax b + ky <=? 0)) eqn:E2; [lia|].
  repeat f_equal; lia.
Qed.

(* ---------- union / intersection ---------- *)
Lemma union_smallest a b :
  let u := box_union a b in
  (forall y x, in_box a y x \/ in_box b y x -> in_box u y x) /\
  (forall c, ixmin a < ixmax a -> iymin a < iymax a -> ixmin b < ixmax b -> iymin b < iymax b ->
     (forall y x, in_box a y x \/ in_box b y x -> in_box c y x) ->
     ixmin c <= ixmin u /\ ixmax u <= ixmax c /\ iymin c <= iymin u /\ iymax u <= iymax c).
Proof.
  cbn. split.
  - unfold in_box, box_union; cbn. intros y x. lia.
  - intros c Ha Hb Hc Hd H. unfold in_box in H. unfold box_union; cbn.
    pose proof (H (iymin a) (ixmin a)). pose proof (H (iymax a - 1) (ixmax a - 1)).
    pose proof (H (iymin b) (ixmin b)). pose proof (H (iymax b - 1) (ixmax b - 1)). lia.
Qed.

Lemma intersection_exact a b :
  match box_inter a b with
  | Some i => forall y x, in_box i y x <-> (in_box a y x /\ in_box b y x)
  | None => forall y x, ~ (in_box a y x /\ in_box b y x)
  end.
Proof.
  unfold box_inter.
  destruct ((Z.min (ixmax a) (ixmax b) <? Z.max (ixmin a) (ixmin b))
            || (Z.min (iymax a) (iymax b) <? Z.max (iymin a) (iymin b))) eqn:E;
    unfold in_box; cbn; intros y x; lia.
Qed.

(* ---------- mask modes ---------- *)
Lemma center_is_subpixel_1 rect : translate_mode 0 5 rect = translate_mode 1 1 rect.
Proof. destruct rect; reflexivity. Qed.
Lemma center_ignores_subpixels s rect : translate_mode 0 s rect = Some (false, 1).
Proof. destruct rect; reflexivity. Qed.
Lemma rectangle_exact_is_subpixel_32 s : translate_mode 2 s true = translate_mode 1 32 true.
Proof. reflexivity. Qed.
Lemma translate_mode_valid mode s rect use_exact s' :
  translate_mode mode s rect = Some (use_exact, s') -> 0 < s' \/ (mode = 1 /\ s' = s).
Proof.
  unfold translate_mode.
  destruct ((mode =? 0) || (mode =? 1) || (mode =? 2)) eqn:E0; cbn [negb]; [|discriminate].
  destruct (rect && (mode =? 2)) eqn:E1.
  - cbn. intros [= <- <-]. lia.
  - destruct ((mode =? 1) && (s <=? 0)) eqn:E2; [discriminate|].
    destruct (mode =? 0) eqn:E3; [intros [= <- <-]; lia|].
    destruct (mode =? 1) eqn:E4; [intros [= <- <-]; lia|]. intros [= <- <-]. lia.
Qed.

(* ---------- sub-pixel counting ---------- *)
Lemma flat_map_length_const {A B} (f : A -> list B) (l : list A) k :
  (forall a, length (f a) = k) -> length (flat_map f l) = (length l * k)%nat.
Proof. intros H. induction l as [|a l IH]; cbn; [reflexivity|]. rewrite app_length, H, IH. reflexivity. Qed.

Lemma sub_centres_length x0 y0 s : length (sub_centres x0 y0 s) = (Z.to_nat s * Z.to_nat s)%nat.
Proof.
  unfold sub_centres. rewrite (flat_map_length_const _ _ (Z.to_nat s)).
  - rewrite seq_length. reflexivity.
  - intros a. rewrite map_length, seq_length. reflexivity.
Qed.

(* the weight numerator is the number of sub-pixel centres strictly inside, so the weight
   count / s^2 lies in [0, 1] *)
Lemma subpix_count_range sh x0 y0 s : 0 <= s -> 0 <= subpix_count sh x0 y0 s <= s * s.
Proof.
  intros Hs. unfold subpix_count. split; [lia|].
  pose proof (filter_length_le (fun p => inside sh (fst p) (snd p)) (sub_centres x0 y0 s)) as H.
  rewrite sub_centres_length in H. nia.
Qed.

Lemma in_sub_centres x0 y0 s p :
  In p (sub_centres x0 y0 s) <->
  exists i j, (i < Z.to_nat s)%nat /\ (j < Z.to_nat s)%nat /\ p = (sub_coord x0 s i, sub_coord y0 s j).
Proof.
  unfold sub_centres. rewrite in_flat_map. split.
  - intros (i & Hi & Hp). apply in_map_iff in Hp as (j & <- & Hj). apply in_seq in Hi, Hj.
    exists i, j. repeat split; lia.
  - intros (i & j & Hi & Hj & ->). exists i. split; [apply in_seq; lia|].
    apply in_map_iff. exists j. split; [reflexivity|apply in_seq; lia].
Qed.

(* monotonicity: a shape contained in another never has the larger count *)
Lemma filter_length_mono {A} (f g : A -> bool) l :
  (forall a, In a l -> f a = true -> g a = true) -> (length (filter f l) <= length (filter g l))%nat.
Proof.
  induction l as [|a l IH]; intros H; cbn; [lia|].
  assert (IH' : (length (filter f l) <= length (filter g l))%nat) by (apply IH; intros; apply H; cbn; auto).
  destruct (f a) eqn:Fa.
  - rewrite (H a (or_introl eq_refl) Fa). cbn. lia.
  - destruct (g a); cbn; lia.
Qed.

Lemma subpix_count_mono sh1 sh2 x0 y0 s :
  (forall x y, inside sh1 x y = true -> inside sh2 x y = true) ->
  subpix_count sh1 x0 y0 s <= subpix_count sh2 x0 y0 s.
Proof.
  intros H. unfold subpix_count. apply inj_le, filter_length_mono. intros p _. apply H.
Qed.

Lemma Qltb_lt a b : Qltb a b = true <-> (a < b)%Q.
Proof.
  unfold Qltb. rewrite negb_true_iff. split.
  - intros E. apply Qnot_le_lt. intros Hle. apply Qle_bool_iff in Hle. congruence.
  - intros Hlt. destruct (Qle_bool b a) eqn:E; [|reflexivity].
    apply Qle_bool_iff in E. exfalso. apply (Qlt_not_le _ _ Hlt E).
Qed.

(* annulus parameter relations enforced by the constructors imply containment *)
Lemma circle_contained r1 r2 x y : (0 <= r1)%Q -> (r1 <= r2)%Q ->
  inside (Circle r1) x y = true -> inside (Circle r2) x y = true.
Proof.
  cbn. rewrite !Qltb_lt. intros H0 H1 H. assert ((r1 * r1 <= r2 * r2)%Q) by nra. lra.
Qed.

Lemma rect_contained w1 h1 w2 h2 c s x y : (w1 <= w2)%Q -> (h1 <= h2)%Q ->
  inside (Rect w1 h1 c s) x y = true -> inside (Rect w2 h2 c s) x y = true.
Proof.
  cbn. rewrite !andb_true_iff, !Qltb_lt. intros Hw Hh [H1 H2]. split.
  - assert ((w1 / 2 <= w2 / 2)%Q) by (unfold Qdiv; apply Qmult_le_compat_r; [exact Hw|discriminate]). lra.
  - assert ((h1 / 2 <= h2 / 2)%Q) by (unfold Qdiv; apply Qmult_le_compat_r; [exact Hh|discriminate]). lra.
Qed.
