From Coq Require Import ZArith QArith Qround Qabs Qminmax Qreduction List Bool Lia Lqa ZifyBool.
From PV Require Import lib.Cases C01_Model.
Import ListNotations.
Open Scope Q_scope.

(* ---------- floor / ceiling ---------- *)
Lemma Qfloor_unique (y : Q) (z : Z) : inject_Z z <= y -> y < inject_Z (z + 1) -> Qfloor y = z.
Proof.
  intros H1 H2. apply Z.le_antisymm.
  - assert (H : inject_Z (Qfloor y) < inject_Z (z + 1)) by (eapply Qle_lt_trans; [apply Qfloor_le|exact H2]).
    rewrite <- Zlt_Qlt in H. lia.
  - rewrite <- (Qfloor_Z z). apply Qfloor_resp_le. exact H1.
Qed.
Lemma Qceiling_unique (y : Q) (z : Z) : inject_Z (z - 1) < y -> y <= inject_Z z -> Qceiling y = z.
Proof.
  intros H1 H2. apply Z.le_antisymm.
  - rewrite <- (Qceiling_Z z). apply Qceiling_resp_le. exact H2.
  - assert (H : inject_Z (z - 1) < inject_Z (Qceiling y)) by (eapply Qlt_le_trans; [exact H1|apply Qle_ceiling]).
    rewrite <- Zlt_Qlt in H. lia.
Qed.
Lemma inject_Z_add1 z : inject_Z (z + 1) == inject_Z z + 1.
Proof. rewrite inject_Z_plus. reflexivity. Qed.
Lemma inject_Z_sub1 z : inject_Z (z - 1) == inject_Z z - 1.
Proof. unfold Z.sub. rewrite inject_Z_plus. reflexivity. Qed.

Lemma Qfloor_shift (y : Q) (k : Z) : Qfloor (y + inject_Z k) = (Qfloor y + k)%Z.
Proof.
  apply Qfloor_unique.
  - rewrite inject_Z_plus. pose proof (Qfloor_le y). lra.
  - replace (Qfloor y + k + 1)%Z with ((Qfloor y + 1) + k)%Z by lia. rewrite inject_Z_plus.
    pose proof (Qlt_floor y). lra.
Qed.
Lemma Qceiling_shift (y : Q) (k : Z) : Qceiling (y + inject_Z k) = (Qceiling y + k)%Z.
Proof.
  apply Qceiling_unique.
  - replace (Qceiling y + k - 1)%Z with ((Qceiling y - 1) + k)%Z by lia. rewrite inject_Z_plus.
    pose proof (Qceiling_lt y). lra.
  - rewrite inject_Z_plus. pose proof (Qle_ceiling y). lra.
Qed.

(* ---------- from_float ---------- *)
(* the box [ixmin - 1/2, ixmax - 1/2] x ... contains the extent, and it is the smallest
   integer box (pixel-centre convention) that does *)
Lemma from_float_contains xmin xmax ymin ymax :
  let b := from_float xmin xmax ymin ymax in
  inject_Z (ixmin b) - half <= xmin /\ xmax <= inject_Z (ixmax b) - half /\
  inject_Z (iymin b) - half <= ymin /\ ymax <= inject_Z (iymax b) - half.
Proof.
  unfold from_float; cbn [ixmin ixmax iymin iymax]. unfold half.
  pose proof (Qfloor_le (xmin + (1#2))). pose proof (Qfloor_le (ymin + (1#2))).
  pose proof (Qle_ceiling (xmax + (1#2))). pose proof (Qle_ceiling (ymax + (1#2))).
  repeat split; lra.
Qed.

Lemma from_float_minimal xmin xmax ymin ymax (a0 a1 c0 c1 : Z) :
  let b := from_float xmin xmax ymin ymax in
  inject_Z a0 - half <= xmin -> xmax <= inject_Z a1 - half ->
  inject_Z c0 - half <= ymin -> ymax <= inject_Z c1 - half ->
  (a0 <= ixmin b /\ ixmax b <= a1 /\ c0 <= iymin b /\ iymax b <= c1)%Z.
Proof.
  unfold from_float; cbn [ixmin ixmax iymin iymax]. unfold half. intros Hx0 Hx1 Hy0 Hy1. repeat split.
  - rewrite <- (Qfloor_Z a0). apply Qfloor_resp_le. lra.
  - rewrite <- (Qceiling_Z a1). apply Qceiling_resp_le. lra.
  - rewrite <- (Qfloor_Z c0). apply Qfloor_resp_le. lra.
  - rewrite <- (Qceiling_Z c1). apply Qceiling_resp_le. lra.
Qed.

(* tightness: one pixel less on any side no longer contains the extent *)
Lemma from_float_tight xmin xmax ymin ymax :
  let b := from_float xmin xmax ymin ymax in
  xmin < inject_Z (ixmin b) + half /\ inject_Z (ixmax b) - half - 1 < xmax /\
  ymin < inject_Z (iymin b) + half /\ inject_Z (iymax b) - half - 1 < ymax.
Proof.
  unfold from_float; cbn [ixmin ixmax iymin iymax]. unfold half.
  pose proof (Qlt_floor (xmin + (1#2))) as A. pose proof (Qlt_floor (ymin + (1#2))) as B.
  pose proof (Qceiling_lt (xmax + (1#2))) as C. pose proof (Qceiling_lt (ymax + (1#2))) as D.
  rewrite inject_Z_add1 in A, B. rewrite inject_Z_sub1 in C, D. repeat split; lra.
Qed.

Lemma from_float_nonempty xmin xmax ymin ymax :
  xmin < xmax -> ymin < ymax ->
  let b := from_float xmin xmax ymin ymax in (ixmin b < ixmax b /\ iymin b < iymax b)%Z.
Proof.
  intros Hx Hy. unfold from_float; cbn [ixmin ixmax iymin iymax]. unfold half. split; rewrite Zlt_Qlt.
  - pose proof (Qfloor_le (xmin + (1#2))). pose proof (Qle_ceiling (xmax + (1#2))). lra.
  - pose proof (Qfloor_le (ymin + (1#2))). pose proof (Qle_ceiling (ymax + (1#2))). lra.
Qed.

(* integer translation covariance (used by C03) *)
Lemma from_float_shift xmin xmax ymin ymax (kx ky : Z) :
  from_float (xmin + inject_Z kx) (xmax + inject_Z kx) (ymin + inject_Z ky) (ymax + inject_Z ky)
  = let b := from_float xmin xmax ymin ymax in
    mkbox (ixmin b + kx) (ixmax b + kx) (iymin b + ky) (iymax b + ky).
Proof.
  unfold from_float. cbn [ixmin ixmax iymin iymax].
  assert (E : forall x k, x + inject_Z k + half == (x + half) + inject_Z k) by (intros; ring).
  rewrite (Qfloor_comp _ _ (E xmin kx)), (Qfloor_comp _ _ (E ymin ky)),
          (Qceiling_comp _ _ (E xmax kx)), (Qceiling_comp _ _ (E ymax ky)),
          !Qfloor_shift, !Qceiling_shift.
  reflexivity.
Qed.

(* ---------- overlap slices ---------- *)
Open Scope Z_scope.
Definition in_box (b : box) (y x : Z) := iymin b <= y < iymax b /\ ixmin b <= x < ixmax b.
Definition in_img (ny nx y x : Z) := 0 <= y < ny /\ 0 <= x < nx.

Definition ov_none_cond (b : box) ny nx :=
  (nx <=? ixmin b) || (ny <=? iymin b) || (ixmax b <=? 0) || (iymax b <=? 0) || (ny <=? 0) || (nx <=? 0).

Lemma ov_cond_false b ny nx : ov_none_cond b ny nx = false ->
  ixmin b < nx /\ iymin b < ny /\ 0 < ixmax b /\ 0 < iymax b /\ 0 < ny /\ 0 < nx.
Proof.
  unfold ov_none_cond. rewrite !orb_false_iff, !Z.leb_gt. tauto.
Qed.
Lemma ov_cond_true b ny nx : ov_none_cond b ny nx = true ->
  nx <= ixmin b \/ ny <= iymin b \/ ixmax b <= 0 \/ iymax b <= 0 \/ ny <= 0 \/ nx <= 0.
Proof.
  unfold ov_none_cond. rewrite !orb_true_iff, !Z.leb_le. tauto.
Qed.

(* None iff the (non-empty) box and the image have no pixel in common: any ny nx in Z *)
Lemma overlap_none (b : box) ny nx :
  ixmin b < ixmax b -> iymin b < iymax b ->
  (overlap_slices b ny nx = None <-> forall y x, ~ (in_box b y x /\ in_img ny nx y x)).
Proof.
  intros Hx Hy. unfold overlap_slices. fold (ov_none_cond b ny nx).
  destruct (ov_none_cond b ny nx) eqn:E.
  - apply ov_cond_true in E. split; [intros _ y x|reflexivity]. unfold in_box, in_img. lia.
  - apply ov_cond_false in E. split; [discriminate|]. intros H. exfalso.
    apply (H (Z.max (iymin b) 0) (Z.max (ixmin b) 0)). clear H. unfold in_box, in_img. lia.
Qed.

(* the slices enumerate exactly the common pixels; small = large - box origin (any box, any shape) *)
Lemma overlap_some (b : box) ny nx ly0 ly1 lx0 lx1 sy0 sy1 sx0 sx1 :
  overlap_slices b ny nx = Some (((ly0, ly1), (lx0, lx1)), ((sy0, sy1), (sx0, sx1))) ->
  (forall y x, (ly0 <= y < ly1 /\ lx0 <= x < lx1) <-> (in_box b y x /\ in_img ny nx y x)) /\
  sy0 = ly0 - iymin b /\ sy1 = ly1 - iymin b /\ sx0 = lx0 - ixmin b /\ sx1 = lx1 - ixmin b /\
  0 <= ly0 /\ ly1 <= ny /\ 0 <= lx0 /\ lx1 <= nx /\
  0 <= sy0 /\ sy1 <= iymax b - iymin b /\ 0 <= sx0 /\ sx1 <= ixmax b - ixmin b /\
  (ixmin b < ixmax b -> iymin b < iymax b -> ly0 < ly1 /\ lx0 < lx1).
Proof.
  unfold overlap_slices. fold (ov_none_cond b ny nx).
  destruct (ov_none_cond b ny nx) eqn:E; [discriminate|]. apply ov_cond_false in E.
  intros [= <- <- <- <- <- <- <- <-]. unfold in_box, in_img.
  split; [intros y x; lia|]. repeat split; lia.
Qed.

(* an empty box never yields None-or-pixels confusion: whatever is returned selects no pixel *)
Lemma overlap_empty_box (b : box) ny nx ly0 ly1 lx0 lx1 s :
  (ixmin b = ixmax b \/ iymin b = iymax b) ->
  overlap_slices b ny nx = Some (((ly0, ly1), (lx0, lx1)), s) ->
  forall y x, ~ (ly0 <= y < ly1 /\ lx0 <= x < lx1).
Proof.
  intros He H. destruct s as [[sy0 sy1] [sx0 sx1]]. apply overlap_some in H as (H & _).
  intros y x Hyx. apply H in Hyx as [Hb _]. unfold in_box in Hb. lia.
Qed.

Lemma overlap_shift (b : box) ny nx ky kx :
  0 <= ky -> 0 <= kx ->
  (* embedding the image at offset (ky, kx) in a canvas that still contains it *)
  forall NY NX, ny + ky <= NY -> nx + kx <= NX ->
  0 <= iymin b -> 0 <= ixmin b -> iymax b <= ny -> ixmax b <= nx -> ixmin b < ixmax b -> iymin b < iymax b ->
  overlap_slices (mkbox (ixmin b + kx) (ixmax b + kx) (iymin b + ky) (iymax b + ky)) NY NX
  = match overlap_slices b ny nx with
    | Some (((ly0, ly1), (lx0, lx1)), s) => Some (((ly0 + ky, ly1 + ky), (lx0 + kx, lx1 + kx)), s)
    | None => None
    end.
Proof.
  intros. set (b' := mkbox (ixmin b + kx) (ixmax b + kx) (iymin b + ky) (iymax b + ky)).
  unfold overlap_slices. fold (ov_none_cond b ny nx). fold (ov_none_cond b' NY NX).
  destruct (ov_none_cond b ny nx) eqn:E1; [exfalso; apply ov_cond_true in E1; lia|]. apply ov_cond_false in E1.
  destruct (ov_none_cond b' NY NX) eqn:E2;
    [exfalso; apply ov_cond_true in E2; subst b'; cbn [ixmin ixmax iymin iymax] in E2; lia|].
  subst b'; cbn [ixmin ixmax iymin iymax].
  repeat match goal with
         | |- Some _ = Some _ => f_equal
         | |- (_, _) = (_, _) => apply (f_equal2 pair)
         end; lia.
Qed.

(* ---------- union / intersection ---------- *)
Lemma union_smallest a b :
  let u := box_union a b in
  (forall y x, in_box a y x \/ in_box b y x -> in_box u y x) /\
  (forall c, ixmin a < ixmax a -> iymin a < iymax a -> ixmin b < ixmax b -> iymin b < iymax b ->
     (forall y x, in_box a y x \/ in_box b y x -> in_box c y x) ->
     ixmin c <= ixmin u /\ ixmax u <= ixmax c /\ iymin c <= iymin u /\ iymax u <= iymax c).
Proof.
  cbn. split.
  - unfold in_box, box_union; cbn. intros y x. lia.
  - intros c Ha Hb Hc Hd H. unfold in_box in H. unfold box_union; cbn.
    pose proof (H (iymin a) (ixmin a)). pose proof (H (iymax a - 1) (ixmax a - 1)).
    pose proof (H (iymin b) (ixmin b)). pose proof (H (iymax b - 1) (ixmax b - 1)). lia.
Qed.

Lemma intersection_exact a b :
  match box_inter a b with
  | Some i => forall y x, in_box i y x <-> (in_box a y x /\ in_box b y x)
  | None => forall y x, ~ (in_box a y x /\ in_box b y x)
  end.
Proof.
  unfold box_inter.
  destruct ((Z.min (ixmax a) (ixmax b) <? Z.max (ixmin a) (ixmin b))
            || (Z.min (iymax a) (iymax b) <? Z.max (iymin a) (iymin b))) eqn:E;
    unfold in_box; cbn; intros y x; lia.
Qed.

(* ---------- mask modes ---------- *)
Lemma center_is_subpixel_1 rect : translate_mode 0 5 rect = translate_mode 1 1 rect.
Proof. destruct rect; reflexivity. Qed.
Lemma center_ignores_subpixels s rect : translate_mode 0 s rect = Some (false, 1).
Proof. destruct rect; reflexivity. Qed.
Lemma rectangle_exact_is_subpixel_32 s : translate_mode 2 s true = translate_mode 1 32 true.
Proof. reflexivity. Qed.
Lemma translate_mode_valid mode s rect use_exact s' :
  translate_mode mode s rect = Some (use_exact, s') -> 0 < s' \/ (mode = 1 /\ s' = s).
Proof.
  unfold translate_mode.
  destruct ((mode =? 0) || (mode =? 1) || (mode =? 2)) eqn:E0; cbn [negb]; [|discriminate].
  destruct (rect && (mode =? 2)) eqn:E1.
  - cbn. intros [= <- <-]. lia.
  - destruct ((mode =? 1) && (s <=? 0)) eqn:E2; [discriminate|].
    destruct (mode =? 0) eqn:E3; [intros [= <- <-]; lia|].
    destruct (mode =? 1) eqn:E4; [intros [= <- <-]; lia|]. intros [= <- <-]. lia.
Qed.

Open Scope Q_scope.
(* ---------- sub-pixel counting ---------- *)
Lemma Qltb_lt a b : Qltb a b = true <-> a < b.
Proof.
  unfold Qltb. rewrite negb_true_iff. split.
  - intros E. apply Qnot_le_lt. intros Hle. apply Qle_bool_iff in Hle. congruence.
  - intros Hlt. destruct (Qle_bool b a) eqn:E; [|reflexivity].
    apply Qle_bool_iff in E. exfalso. apply (Qlt_not_le _ _ Hlt E).
Qed.
Lemma Qltb_ge a b : Qltb a b = false <-> b <= a.
Proof.
  unfold Qltb. rewrite negb_false_iff. apply Qle_bool_iff.
Qed.

Lemma Qltb_comp a a' b b' : a == a' -> b == b' -> Qltb a b = Qltb a' b'.
Proof. intros Ha Hb. unfold Qltb. rewrite Ha, Hb. reflexivity. Qed.

(* [inside] only depends on the values of its coordinates *)
Lemma inside_comp sh x x' y y' : x == x' -> y == y' -> inside sh x y = inside sh x' y'.
Proof.
  intros Hx Hy. destruct sh as [r|a b c s|w h c s]; cbn [inside].
  - apply Qltb_comp; [rewrite Hx, Hy|]; reflexivity.
  - apply Qltb_comp; [rewrite Hx, Hy|]; reflexivity.
  - f_equal; (apply Qltb_comp; [rewrite Hx, Hy|]; reflexivity).
Qed.

Definition cnt (sh : shape) (l : list (Q * Q)) : Z :=
  Z.of_nat (length (filter (fun p => inside sh (fst p) (snd p)) l)).

Lemma cnt_nil sh : cnt sh [] = 0%Z.
Proof. reflexivity. Qed.
Lemma cnt_cons sh p l : cnt sh (p :: l) = ((if inside sh (fst p) (snd p) then 1 else 0) + cnt sh l)%Z.
Proof. unfold cnt. cbn [filter]. destruct (inside sh (fst p) (snd p)); cbn [length]; lia. Qed.
Lemma cnt_app sh l1 l2 : cnt sh (l1 ++ l2) = (cnt sh l1 + cnt sh l2)%Z.
Proof. unfold cnt. rewrite filter_app, app_length. lia. Qed.

Lemma cnt_map_ext {A} sh (f g : A -> Q * Q) (l : list A) :
  (forall a, In a l -> fst (f a) == fst (g a) /\ snd (f a) == snd (g a)) ->
  cnt sh (map f l) = cnt sh (map g l).
Proof.
  induction l as [|a l IH]; intros H; [reflexivity|].
  cbn [map]. rewrite !cnt_cons, IH by (intros; apply H; right; assumption).
  destruct (H a (or_introl eq_refl)) as [H1 H2]. rewrite (inside_comp sh _ _ _ _ H1 H2). reflexivity.
Qed.

Lemma inj_S_Q k : inject_Z (Z.of_nat (S k)) == inject_Z (Z.of_nat k) + 1.
Proof. rewrite Nat2Z.inj_succ. unfold Z.succ. rewrite inject_Z_plus. reflexivity. Qed.

Definition lin (b d : Q) (j : nat) : Q := b + (inject_Z (Z.of_nat j) + 1) * d.

(* inner loop: y runs over yb + (j+1)*dy, j = k .. k+n-1 *)
Lemma loop_y_cnt sh n : forall k x y yb dy frac,
  y == yb + inject_Z (Z.of_nat k) * dy ->
  loop_y sh n x y dy frac =
  (frac + cnt sh (map (fun j => (x, lin yb dy j)) (seq k n)))%Z.
Proof.
  induction n as [|n IH]; intros k x y yb dy frac Hy; cbn [loop_y seq map].
  - rewrite cnt_nil. lia.
  - rewrite cnt_cons. cbn [fst snd].
    assert (E : Qred (y + dy) == lin yb dy k)
      by (unfold lin; rewrite Qred_correct, Hy; ring).
    rewrite (inside_comp sh x x _ _ (Qeq_refl x) E).
    rewrite (IH (S k) x _ yb dy) by (rewrite E; unfold lin; rewrite inj_S_Q; reflexivity).
    destruct (inside sh x (lin yb dy k)); lia.
Qed.

Lemma loop_x_cnt sh n ny : forall k x xb dx y0 dy frac,
  x == xb + inject_Z (Z.of_nat k) * dx ->
  loop_x sh n ny x dx y0 dy frac =
  (frac + cnt sh (flat_map (fun i => map (fun j => (lin xb dx i, lin (y0 - half * dy) dy j))
                                         (seq 0 ny)) (seq k n)))%Z.
Proof.
  induction n as [|n IH]; intros k x xb dx y0 dy frac Hx; cbn [loop_x seq flat_map].
  - rewrite cnt_nil. lia.
  - assert (E : Qred (x + dx) == lin xb dx k)
      by (unfold lin; rewrite Qred_correct, Hx; ring).
    rewrite (IH (S k) _ xb) by (rewrite E; unfold lin; rewrite inj_S_Q; reflexivity).
    rewrite (loop_y_cnt sh ny 0 _ _ (y0 - half * dy)) by (cbn; ring).
    rewrite cnt_app.
    rewrite (cnt_map_ext sh (fun j => (Qred (x + dx), lin (y0 - half * dy) dy j))
               (fun j => (lin xb dx k, lin (y0 - half * dy) dy j)))
      by (intros; cbn [fst snd]; split; [exact E|reflexivity]).
    lia.
Qed.

(* the kernel loop counts exactly the sub-pixel centres (i+1/2, j+1/2)/s of the pixel that lie
   strictly inside the shape *)
Lemma single_subpixel_is_count sh x0 y0 x1 y1 s :
  single_subpixel sh x0 y0 x1 y1 s = subpix_count sh x0 y0 x1 y1 s.
Proof.
  unfold single_subpixel, subpix_count, sub_centres. fold (cnt sh).
  rewrite (loop_x_cnt sh _ _ 0 _ (x0 - half * ((x1 - x0) / inject_Z s)))
    by (rewrite !Qred_correct; cbn; ring).
  rewrite Z.add_0_l.
  fold (cnt sh (flat_map (fun i => map (fun j => (sub_coord x0 x1 s i, sub_coord y0 y1 s j))
                                       (seq 0 (Z.to_nat s))) (seq 0 (Z.to_nat s)))).
  generalize (seq 0 (Z.to_nat s)) at 2 4. intros li.
  induction li as [|i li IH]; [reflexivity|].
  cbn [flat_map]. rewrite !cnt_app, IH. f_equal.
  apply cnt_map_ext. intros j _. cbn [fst snd]. unfold sub_coord, lin, half.
  rewrite !Qred_correct. split; ring.
Qed.

(* ---------- the set of sub-pixel centres ---------- *)
Lemma flat_map_length_const {A B} (f : A -> list B) (l : list A) k :
  (forall a, length (f a) = k) -> length (flat_map f l) = (length l * k)%nat.
Proof. intros H. induction l as [|a l IH]; cbn; [reflexivity|]. rewrite app_length, H, IH. reflexivity. Qed.

Lemma sub_centres_length x0 y0 x1 y1 s :
  length (sub_centres x0 y0 x1 y1 s) = (Z.to_nat s * Z.to_nat s)%nat.
Proof.
  unfold sub_centres. rewrite (flat_map_length_const _ _ (Z.to_nat s)).
  - rewrite seq_length. reflexivity.
  - intros a. rewrite map_length, seq_length. reflexivity.
Qed.

Lemma in_sub_centres x0 y0 x1 y1 s p :
  In p (sub_centres x0 y0 x1 y1 s) <->
  exists i j, (i < Z.to_nat s)%nat /\ (j < Z.to_nat s)%nat /\ p = (sub_coord x0 x1 s i, sub_coord y0 y1 s j).
Proof.
  unfold sub_centres. rewrite in_flat_map. split.
  - intros (i & Hi & Hp). apply in_map_iff in Hp as (j & <- & Hj). apply in_seq in Hi, Hj.
    exists i, j. repeat split; lia.
  - intros (i & j & Hi & Hj & ->). exists i. split; [apply in_seq; lia|].
    apply in_map_iff. exists j. split; [reflexivity|apply in_seq; lia].
Qed.

(* every sub-pixel centre lies strictly inside its pixel *)
Lemma sub_coord_between x0 x1 s i : x0 < x1 -> (i < Z.to_nat s)%nat -> x0 < sub_coord x0 x1 s i < x1.
Proof.
  intros Hw Hi. unfold sub_coord, half.
  assert (Hs : (Z.of_nat i + 1 <= s)%Z) by lia.
  assert (Ht0 : 0 <= inject_Z (Z.of_nat i)) by (change 0 with (inject_Z 0); rewrite <- Zle_Qle; lia).
  assert (Ht1 : inject_Z (Z.of_nat i) + 1 <= inject_Z s)
    by (change 1 with (inject_Z 1); rewrite <- inject_Z_plus, <- Zle_Qle; exact Hs).
  set (t := inject_Z (Z.of_nat i)) in *. set (S := inject_Z s) in *.
  assert (HS : 0 < S) by lra.
  assert (Hq : (x1 - x0) / S * S == x1 - x0) by (field; lra).
  set (q := (x1 - x0) / S) in *.
  assert (Hq0 : 0 < q) by nra.
  split; nra.
Qed.

Lemma sub_centres_between x0 y0 x1 y1 s p :
  x0 < x1 -> y0 < y1 -> In p (sub_centres x0 y0 x1 y1 s) ->
  x0 < fst p < x1 /\ y0 < snd p < y1.
Proof.
  intros Hx Hy Hp. apply in_sub_centres in Hp as (i & j & Hi & Hj & ->). cbn [fst snd].
  split; apply sub_coord_between; assumption.
Qed.

(* ---------- counting ---------- *)
Lemma subpix_count_cnt sh x0 y0 x1 y1 s : subpix_count sh x0 y0 x1 y1 s = cnt sh (sub_centres x0 y0 x1 y1 s).
Proof. reflexivity. Qed.

Lemma cnt_all sh l : (forall p, In p l -> inside sh (fst p) (snd p) = true) -> cnt sh l = Z.of_nat (length l).
Proof.
  induction l as [|p l IH]; intros H; [reflexivity|].
  rewrite cnt_cons, (H p (or_introl eq_refl)), IH by (intros q Hq; apply H; right; exact Hq).
  cbn [length]. lia.
Qed.
Lemma cnt_none sh l : (forall p, In p l -> inside sh (fst p) (snd p) = false) -> cnt sh l = 0%Z.
Proof.
  induction l as [|p l IH]; intros H; [reflexivity|].
  rewrite cnt_cons, (H p (or_introl eq_refl)), IH by (intros q Hq; apply H; right; exact Hq).
  reflexivity.
Qed.
Lemma cnt_range sh l : (0 <= cnt sh l <= Z.of_nat (length l))%Z.
Proof.
  induction l as [|p l IH]; [cbn; lia|]. rewrite cnt_cons. cbn [length].
  destruct (inside sh (fst p) (snd p)); lia.
Qed.
(* outer minus inner = number of centres in outer and not in inner, when inner is contained in outer *)
Definition cnt_diff (o i : shape) (l : list (Q * Q)) : Z :=
  Z.of_nat (length (filter (fun p => inside o (fst p) (snd p) && negb (inside i (fst p) (snd p))) l)).
Lemma cnt_sub o i l :
  (forall p, In p l -> inside i (fst p) (snd p) = true -> inside o (fst p) (snd p) = true) ->
  (cnt o l - cnt i l = cnt_diff o i l)%Z.
Proof.
  unfold cnt_diff. induction l as [|p l IH]; intros H; [reflexivity|].
  rewrite !cnt_cons. cbn [filter].
  assert (IH' := IH (fun q Hq => H q (or_intror Hq))).
  specialize (H p (or_introl eq_refl)).
  destruct (inside i (fst p) (snd p)) eqn:Ei.
  - rewrite (H eq_refl). cbn [negb andb]. lia.
  - destruct (inside o (fst p) (snd p)); cbn [negb andb length]; lia.
Qed.
Lemma cnt_diff_range o i l : (0 <= cnt_diff o i l <= Z.of_nat (length l))%Z.
Proof.
  unfold cnt_diff. induction l as [|p l IH]; [cbn; lia|]. cbn [filter length].
  destruct (inside o (fst p) (snd p) && negb (inside i (fst p) (snd p))); cbn [length]; lia.
Qed.

(* the weight count/s^2 of a pixel lies in [0,1] *)
Lemma subpix_count_range sh x0 y0 x1 y1 s : (0 <= s -> 0 <= subpix_count sh x0 y0 x1 y1 s <= s * s)%Z.
Proof.
  intros Hs. rewrite subpix_count_cnt. pose proof (cnt_range sh (sub_centres x0 y0 x1 y1 s)) as H.
  rewrite sub_centres_length in H. nia.
Qed.

(* center == subpixels = 1: the single centre of the pixel *)
Lemma subpix_count_1 sh x0 y0 x1 y1 :
  subpix_count sh x0 y0 x1 y1 1 =
  if inside sh (x0 + (x1 - x0) / 2) (y0 + (y1 - y0) / 2) then 1%Z else 0%Z.
Proof.
  rewrite subpix_count_cnt. unfold sub_centres. change (Z.to_nat 1) with 1%nat. cbn [seq flat_map map app].
  rewrite cnt_cons, cnt_nil. cbn [fst snd].
  rewrite (inside_comp sh _ (x0 + (x1 - x0) / 2) _ (y0 + (y1 - y0) / 2)).
  - destruct (inside sh _ _); reflexivity.
  - unfold sub_coord, half. cbn. field.
  - unfold sub_coord, half. cbn. field.
Qed.

(* ---------- triangle inequality on squares ---------- *)
Lemma Qsq_nonneg z : 0 <= z * z.
Proof.
  destruct (Qlt_le_dec z 0) as [H|H].
  - setoid_replace (z * z) with ((- z) * (- z)) by ring. apply Qmult_le_0_compat; lra.
  - apply Qmult_le_0_compat; assumption.
Qed.
Lemma tri_lt ax ay bx by_ A B :
  0 <= A -> 0 <= B -> ax * ax + ay * ay < A * A -> bx * bx + by_ * by_ <= B * B ->
  (ax + bx) * (ax + bx) + (ay + by_) * (ay + by_) < (A + B) * (A + B).
Proof.
  intros HA HB Ha Hb.
  set (t := ax * bx + ay * by_).
  set (a2 := ax * ax + ay * ay) in *. set (b2 := bx * bx + by_ * by_) in *.
  assert (Ha0 : 0 <= a2) by (unfold a2; pose proof (Qsq_nonneg ax); pose proof (Qsq_nonneg ay); lra).
  assert (Hb0 : 0 <= b2) by (unfold b2; pose proof (Qsq_nonneg bx); pose proof (Qsq_nonneg by_); lra).
  assert (CS : t * t <= a2 * b2).
  { pose proof (Qsq_nonneg (ax * by_ - ay * bx)) as Z. set (z := ax * by_ - ay * bx) in *.
    assert (E0 : a2 * b2 == t * t + z * z) by (unfold a2, b2, t, z; ring). rewrite E0. lra. }
  assert (P : a2 * b2 <= (A * A) * (B * B)) by nra.
  assert (T : t <= A * B).
  { destruct (Qlt_le_dec (A * B) t) as [Hlt|Hle]; [|exact Hle]. exfalso.
    assert (0 <= A * B) by nra. assert ((A * B) * (A * B) < t * t) by nra. nra. }
  assert (E : (ax + bx) * (ax + bx) + (ay + by_) * (ay + by_) == a2 + b2 + 2 * t) by (unfold a2, b2, t; ring).
  rewrite E. nra.
Qed.

(* ---------- [inside] as propositions ---------- *)
Lemma inside_circle r x y : inside (Circle r) x y = true <-> x * x + y * y < r * r.
Proof. cbn [inside]. apply Qltb_lt. Qed.
Lemma not_inside_circle r x y : inside (Circle r) x y = false <-> r * r <= x * x + y * y.
Proof. cbn [inside]. apply Qltb_ge. Qed.

Lemma div_sq_mul t a : ~ a == 0 -> t / (a * a) * (a * a) == t.
Proof. intros Ha. field. exact Ha. Qed.

(* a point inside the ellipse lies inside the circle of radius max(a,b), up to the factor
   k = c^2+s^2 by which the float rotation scales lengths *)
Lemma ell_inside_bound a b c s x y :
  0 < a -> 0 < b -> inside (Ellipse a b c s) x y = true ->
  (x * x + y * y) * (c * c + s * s) < Qmax a b * Qmax a b.
Proof.
  intros Ha Hb H. cbn [inside] in H. apply Qltb_lt in H.
  set (xt := y * s + x * c) in *. set (yt := y * c - x * s) in *.
  assert (E : (x * x + y * y) * (c * c + s * s) == xt * xt + yt * yt) by (unfold xt, yt; ring).
  rewrite E.
  pose proof (div_sq_mul (xt * xt) a ltac:(lra)) as Eu.
  pose proof (div_sq_mul (yt * yt) b ltac:(lra)) as Ev.
  set (u := xt * xt / (a * a)) in *. set (v := yt * yt / (b * b)) in *.
  pose proof (Q.le_max_l a b) as Ra. pose proof (Q.le_max_r a b) as Rb.
  set (R := Qmax a b) in *.
  assert (Ha2 : 0 < a * a) by nra. assert (Hb2 : 0 < b * b) by nra.
  assert (Hu : 0 <= u) by nra. assert (Hv : 0 <= v) by nra.
  assert (HRa : a * a <= R * R) by nra. assert (HRb : b * b <= R * R) by nra.
  assert (xt * xt <= u * (R * R)) by nra.
  assert (yt * yt <= v * (R * R)) by nra.
  assert (0 < R * R) by nra.
  nra.
Qed.

(* ---------- the grid drivers' fast paths never change the count ---------- *)
Lemma in_skip_box_false r dx dy pxmin pymin :
  in_skip_box r dx dy pxmin pymin = false ->
  pxmin + dx <= - r - half * dx \/ r + half * dx <= pxmin \/
  pymin + dy <= - r - half * dy \/ r + half * dy <= pymin.
Proof.
  unfold in_skip_box. rewrite !andb_false_iff, !Qltb_ge. tauto.
Qed.

Lemma circ_cell_sound r pr dx dy pxmin pymin s :
  0 <= r -> 0 <= pr -> dx * dx + dy * dy <= 4 * (pr * pr) -> 0 < dx -> 0 < dy -> (0 <= s)%Z ->
  cell (Circle r) pr dx dy pxmin pymin s = subpix_count (Circle r) pxmin pymin (pxmin + dx) (pymin + dy) s.
Proof.
  intros Hr Hpr Hd Hdx Hdy Hs. rewrite subpix_count_cnt. cbn [cell].
  assert (B : forall p, In p (sub_centres pxmin pymin (pxmin + dx) (pymin + dy) s) ->
              pxmin < fst p < pxmin + dx /\ pymin < snd p < pymin + dy)
    by (intros p; apply sub_centres_between; lra).
  destruct (in_skip_box r dx dy pxmin pymin) eqn:Ebox.
  2:{ symmetry. apply cnt_none. intros p Hp. destruct (B p Hp) as [[Bx0 Bx1] [By0 By1]].
      apply not_inside_circle. apply in_skip_box_false in Ebox. unfold half in Ebox.
      destruct Ebox as [E|[E|[E|E]]]; nra. }
  set (cx := pxmin + dx * half). set (cy := pymin + dy * half).
  (* offset of a centre from the pixel centre is at most pixel_radius *)
  assert (O : forall p, In p (sub_centres pxmin pymin (pxmin + dx) (pymin + dy) s) ->
              (fst p - cx) * (fst p - cx) + (snd p - cy) * (snd p - cy) <= pr * pr).
  { intros p Hp. destruct (B p Hp) as [[Bx0 Bx1] [By0 By1]]. unfold cx, cy, half.
    assert ((fst p - (pxmin + dx * (1 # 2))) * (fst p - (pxmin + dx * (1 # 2))) <= dx * dx * (1 # 4)) by nra.
    assert ((snd p - (pymin + dy * (1 # 2))) * (snd p - (pymin + dy * (1 # 2))) <= dy * dy * (1 # 4)) by nra.
    lra. }
  destruct (Qltb 0 (r - pr) && Qltb (cx * cx + cy * cy) ((r - pr) * (r - pr))) eqn:E1.
  - (* well within: every centre is inside *)
    apply andb_true_iff in E1 as [E1a E1b]. apply Qltb_lt in E1a, E1b.
    rewrite cnt_all, sub_centres_length; [nia|].
    intros p Hp. apply inside_circle. pose proof (O p Hp) as Op.
    pose proof (tri_lt cx cy (fst p - cx) (snd p - cy) (r - pr) pr ltac:(lra) Hpr E1b Op) as T.
    assert (E : (cx + (fst p - cx)) * (cx + (fst p - cx)) + (cy + (snd p - cy)) * (cy + (snd p - cy))
                == fst p * fst p + snd p * snd p) by ring.
    assert (E' : (r - pr + pr) * (r - pr + pr) == r * r) by ring.
    rewrite E, E' in T. exact T.
  - destruct (Qltb 0 (r + pr) && Qltb (cx * cx + cy * cy) ((r + pr) * (r + pr))) eqn:E2.
    + apply single_subpixel_is_count.
    + (* fully outside: no centre is inside *)
      symmetry. apply cnt_none. intros p Hp.
      destruct (inside (Circle r) (fst p) (snd p)) eqn:Ein; [exfalso|reflexivity].
      apply inside_circle in Ein. pose proof (O p Hp) as Op.
      assert (Op' : (cx - fst p) * (cx - fst p) + (cy - snd p) * (cy - snd p) <= pr * pr)
        by (eapply Qle_trans; [|exact Op]; apply Qle_lteq; right; ring).
      pose proof (tri_lt (fst p) (snd p) (cx - fst p) (cy - snd p) r pr Hr Hpr Ein Op') as T.
      assert (E : (fst p + (cx - fst p)) * (fst p + (cx - fst p)) + (snd p + (cy - snd p)) * (snd p + (cy - snd p))
                  == cx * cx + cy * cy) by ring.
      rewrite E in T.
      apply andb_false_iff in E2 as [E2|E2]; apply Qltb_ge in E2; nra.
Qed.

Lemma pos_from_le k R2 W : 0 < R2 -> 0 <= W -> R2 <= k * W -> 0 < k.
Proof.
  intros H1 H2 H3. destruct (Qlt_le_dec 0 k) as [?|Hle]; [assumption|exfalso].
  assert (k * W <= 0).
  { setoid_replace (k * W) with (- ((- k) * W)) by ring.
    pose proof (Qmult_le_0_compat (- k) W ltac:(lra) H2). lra. }
  lra.
Qed.
Lemma ell_skip_contra k R2 W xx yy :
  0 < k -> R2 <= k * W -> W <= xx -> 0 <= yy -> (xx + yy) * k < R2 -> False.
Proof.
  intros Hk H1 H2 H3 H4.
  assert (k * W <= k * xx) by (apply Qmult_le_l; assumption).
  assert (0 <= k * yy) by (apply Qmult_le_0_compat; lra).
  assert (E : (xx + yy) * k == k * xx + k * yy) by ring. rewrite E in H4. lra.
Qed.
Lemma sq_le_sq u x : 0 <= u -> u <= x -> u * u <= x * x.
Proof. intros. apply Qmult_le_compat_nonneg; split; assumption. Qed.
Lemma sq_le_sq_neg u x : 0 <= u -> x <= - u -> u * u <= x * x.
Proof.
  intros. setoid_replace (x * x) with ((- x) * (- x)) by ring. apply sq_le_sq; lra.
Qed.

Lemma ell_cell_sound a b c s_ pr dx dy pxmin pymin s :
  0 < a -> 0 < b -> 0 < dx -> 0 < dy ->
  Qmax a b * Qmax a b <= (c * c + s_ * s_) * ((Qmax a b + half * dx) * (Qmax a b + half * dx)) ->
  Qmax a b * Qmax a b <= (c * c + s_ * s_) * ((Qmax a b + half * dy) * (Qmax a b + half * dy)) ->
  cell (Ellipse a b c s_) pr dx dy pxmin pymin s
  = subpix_count (Ellipse a b c s_) pxmin pymin (pxmin + dx) (pymin + dy) s.
Proof.
  intros Ha Hb Hdx Hdy Kx Ky. rewrite subpix_count_cnt. cbn [cell].
  destruct (in_skip_box (Qmax a b) dx dy pxmin pymin) eqn:Ebox; [apply single_subpixel_is_count|].
  symmetry. apply cnt_none. intros p Hp.
  destruct (sub_centres_between pxmin pymin (pxmin + dx) (pymin + dy) s p ltac:(lra) ltac:(lra) Hp)
    as [[Bx0 Bx1] [By0 By1]].
  destruct (inside (Ellipse a b c s_) (fst p) (snd p)) eqn:Ein; [exfalso|reflexivity].
  apply ell_inside_bound in Ein; [|assumption|assumption].
  pose proof (Q.le_max_l a b) as Ra. set (R := Qmax a b) in *. set (k := c * c + s_ * s_) in *.
  assert (HR : 0 < R) by lra.
  assert (HRR : 0 < R * R) by (apply Qmult_lt_0_compat; assumption).
  set (x := fst p) in *. set (y := snd p) in *.
  pose proof (Qsq_nonneg x) as Hxx. pose proof (Qsq_nonneg y) as Hyy.
  assert (Hk : 0 < k) by (apply (pos_from_le k (R * R) _ HRR (Qsq_nonneg (R + half * dx)) Kx)).
  apply in_skip_box_false in Ebox. unfold half in *.
  assert (Hux : 0 <= R + (1 # 2) * dx) by lra. assert (Huy : 0 <= R + (1 # 2) * dy) by lra.
  destruct Ebox as [E|[E|[E|E]]].
  - apply (ell_skip_contra k (R * R) _ (x * x) (y * y) Hk Kx); [apply sq_le_sq_neg; lra|assumption|assumption].
  - apply (ell_skip_contra k (R * R) _ (x * x) (y * y) Hk Kx); [apply sq_le_sq; lra|assumption|assumption].
  - apply (ell_skip_contra k (R * R) _ (y * y) (x * x) Hk Ky); [apply sq_le_sq_neg; lra|assumption|].
    setoid_replace (y * y + x * x) with (x * x + y * y) by ring. assumption.
  - apply (ell_skip_contra k (R * R) _ (y * y) (x * x) Hk Ky); [apply sq_le_sq; lra|assumption|].
    setoid_replace (y * y + x * x) with (x * x + y * y) by ring. assumption.
Qed.

Lemma rect_cell_sound w h c s_ pr dx dy pxmin pymin s :
  cell (Rect w h c s_) pr dx dy pxmin pymin s
  = subpix_count (Rect w h c s_) pxmin pymin (pxmin + dx) (pymin + dy) s.
Proof. cbn [cell]. apply single_subpixel_is_count. Qed.

(* ---------- annulus: the constructors' parameter relations imply containment ---------- *)
Lemma circle_contained r1 r2 x y : 0 <= r1 -> r1 <= r2 ->
  inside (Circle r1) x y = true -> inside (Circle r2) x y = true.
Proof.
  rewrite !inside_circle. intros H0 H1 H. assert (r1 * r1 <= r2 * r2) by nra. lra.
Qed.

Lemma ellipse_contained a1 b1 a2 b2 c s x y : 0 < a1 -> 0 < b1 -> a1 <= a2 -> b1 <= b2 ->
  inside (Ellipse a1 b1 c s) x y = true -> inside (Ellipse a2 b2 c s) x y = true.
Proof.
  intros Ha Hb Haa Hbb. cbn [inside]. rewrite !Qltb_lt.
  set (xt := y * s + x * c). set (yt := y * c - x * s). intros H.
  pose proof (div_sq_mul (xt * xt) a1 ltac:(lra)) as Eu1.
  pose proof (div_sq_mul (yt * yt) b1 ltac:(lra)) as Ev1.
  pose proof (div_sq_mul (xt * xt) a2 ltac:(lra)) as Eu2.
  pose proof (div_sq_mul (yt * yt) b2 ltac:(lra)) as Ev2.
  set (u1 := xt * xt / (a1 * a1)) in *. set (v1 := yt * yt / (b1 * b1)) in *.
  set (u2 := xt * xt / (a2 * a2)) in *. set (v2 := yt * yt / (b2 * b2)) in *.
  assert (0 < a1 * a1) by nra. assert (0 < b1 * b1) by nra.
  assert (a1 * a1 <= a2 * a2) by nra. assert (b1 * b1 <= b2 * b2) by nra.
  assert (0 <= u1) by nra. assert (0 <= v1) by nra.
  assert (u2 <= u1).
  { destruct (Qlt_le_dec u1 u2) as [Hlt|?]; [exfalso|assumption]. nra. }
  assert (v2 <= v1).
  { destruct (Qlt_le_dec v1 v2) as [Hlt|?]; [exfalso|assumption]. nra. }
  lra.
Qed.

Lemma rect_contained w1 h1 w2 h2 c s x y : w1 <= w2 -> h1 <= h2 ->
  inside (Rect w1 h1 c s) x y = true -> inside (Rect w2 h2 c s) x y = true.
Proof.
  cbn [inside]. rewrite !andb_true_iff, !Qltb_lt. intros Hw Hh [H1 H2]. split.
  - assert (w1 / 2 <= w2 / 2) by (unfold Qdiv; apply Qmult_le_compat_r; [exact Hw|discriminate]). lra.
  - assert (h1 / 2 <= h2 / 2) by (unfold Qdiv; apply Qmult_le_compat_r; [exact Hh|discriminate]). lra.
Qed.

(* ---------- the grid handed to the kernels ---------- *)
Lemma nth_map_seq {A} (f : nat -> A) n j d : (j < n)%nat -> nth j (map f (seq 0 n)) d = f j.
Proof.
  intros H. rewrite (nth_indep _ d (f 0%nat)) by (rewrite map_length, seq_length; exact H).
  rewrite map_nth, seq_nth by exact H. reflexivity.
Qed.

Lemma inject_Z_minus a b : inject_Z (a - b) == inject_Z a - inject_Z b.
Proof. unfold Z.sub. rewrite inject_Z_plus, inject_Z_opp. reflexivity. Qed.

(* dx = dy = 1 exactly, and cell [j][i] is image pixel (iymin+j, ixmin+i) recentred on the position *)
Lemma centered_edges_unit b px py :
  (ixmin b < ixmax b)%Z -> (iymin b < iymax b)%Z ->
  let '(xmin, xmax, ymin, ymax) := centered_edges b px py in
  (xmax - xmin) / inject_Z (ixmax b - ixmin b) == 1 /\
  (ymax - ymin) / inject_Z (iymax b - iymin b) == 1 /\
  xmin == inject_Z (ixmin b) - half - px /\ ymin == inject_Z (iymin b) - half - py.
Proof.
  intros Hx Hy. cbn [centered_edges].
  assert (Nx : 0 < inject_Z (ixmax b - ixmin b)) by (change 0 with (inject_Z 0); rewrite <- Zlt_Qlt; lia).
  assert (Ny : 0 < inject_Z (iymax b - iymin b)) by (change 0 with (inject_Z 0); rewrite <- Zlt_Qlt; lia).
  repeat split; try reflexivity.
  - rewrite inject_Z_minus in *. field. lra.
  - rewrite inject_Z_minus in *. field. lra.
Qed.

Lemma mask_counts_dims sh b px py s :
  length (mask_counts sh b px py s) = Z.to_nat (iymax b - iymin b) /\
  forall row, In row (mask_counts sh b px py s) -> length row = Z.to_nat (ixmax b - ixmin b).
Proof.
  unfold mask_counts, centered_edges, overlap_grid. split.
  - rewrite map_length, seq_length. reflexivity.
  - intros row Hr. apply in_map_iff in Hr as (j & <- & _). rewrite map_length, seq_length. reflexivity.
Qed.

(* ---------- the mask entry of a pixel, by definition: number of sub-pixel centres (in image
   coordinates) of pixel (Y, X) that lie strictly inside the shape centred on (px, py) ---------- *)
Definition pixel_centres (px py : Q) (s : Z) (Y X : Z) : list (Q * Q) :=
  flat_map (fun a => map (fun b_ =>
              (inject_Z X - half + (inject_Z (Z.of_nat a) + half) / inject_Z s - px,
               inject_Z Y - half + (inject_Z (Z.of_nat b_) + half) / inject_Z s - py))
            (seq 0 (Z.to_nat s))) (seq 0 (Z.to_nat s)).
Definition pixel_count (sh : shape) (px py : Q) (s : Z) (Y X : Z) : Z := cnt sh (pixel_centres px py s Y X).

Lemma cnt_flat_map_ext {A B} sh (f g : A -> B -> Q * Q) (l1 : list A) (l2 : list B) :
  (forall a b_, fst (f a b_) == fst (g a b_) /\ snd (f a b_) == snd (g a b_)) ->
  cnt sh (flat_map (fun a => map (f a) l2) l1) = cnt sh (flat_map (fun a => map (g a) l2) l1).
Proof.
  intros H. induction l1 as [|a l1 IH]; [reflexivity|]. cbn [flat_map]. rewrite !cnt_app, IH. f_equal.
  apply cnt_map_ext. intros b_ _. apply H.
Qed.

Lemma pixel_radius_ok : 1 * 1 + 1 * 1 <= 4 * (pixel_radius * pixel_radius) /\ 0 <= pixel_radius.
Proof. split; unfold Qle; vm_compute; discriminate. Qed.

Lemma cell_is_count sh pr dx dy pxmin pymin s :
  rot_ok sh = true -> dx == 1 -> dy == 1 -> 0 <= pr -> 1 * 1 + 1 * 1 <= 4 * (pr * pr) -> (0 <= s)%Z ->
  cell sh pr dx dy pxmin pymin s = subpix_count sh pxmin pymin (pxmin + dx) (pymin + dy) s.
Proof.
  intros Hok Hdx Hdy Hpr0 Hpr Hs. destruct sh as [r|a b c s_|w h c s_].
  - cbn [rot_ok] in Hok. apply Qle_bool_iff in Hok.
    apply circ_cell_sound; try assumption; rewrite ?Hdx, ?Hdy; lra.
  - cbn [rot_ok] in Hok. apply andb_true_iff in Hok as [Hok K]. apply andb_true_iff in Hok as [Ha Hb].
    apply Qltb_lt in Ha, Hb. apply Qle_bool_iff in K.
    apply ell_cell_sound; try assumption; rewrite ?Hdx, ?Hdy; lra.
  - apply rect_cell_sound.
Qed.

(* to_mask(center/subpixel) = fraction of sub-pixel centres inside the shape, pixel by pixel *)
Lemma mask_is_centre_fraction sh b px py s j i :
  rot_ok sh = true -> (0 < s)%Z ->
  (j < Z.to_nat (iymax b - iymin b))%nat -> (i < Z.to_nat (ixmax b - ixmin b))%nat ->
  nth i (nth j (mask_counts sh b px py s) []) 0%Z
  = pixel_count sh px py s (iymin b + Z.of_nat j) (ixmin b + Z.of_nat i).
Proof.
  intros Hok Hs Hj Hi.
  assert (Hx : (ixmin b < ixmax b)%Z) by lia. assert (Hy : (iymin b < iymax b)%Z) by lia.
  pose proof (centered_edges_unit b px py Hx Hy) as CE.
  unfold mask_counts. destruct (centered_edges b px py) as [[[xmin xmax] ymin] ymax] eqn:Ece.
  destruct CE as (Hdx & Hdy & Hxmin & Hymin).
  unfold overlap_grid. rewrite (nth_map_seq _ _ j) by exact Hj. rewrite (nth_map_seq _ _ i) by exact Hi.
  rewrite <- (Qred_correct ((xmax - xmin) / inject_Z (ixmax b - ixmin b))) in Hdx.
  rewrite <- (Qred_correct ((ymax - ymin) / inject_Z (iymax b - iymin b))) in Hdy.
  set (dx := Qred ((xmax - xmin) / inject_Z (ixmax b - ixmin b))) in *.
  set (dy := Qred ((ymax - ymin) / inject_Z (iymax b - iymin b))) in *.
  destruct pixel_radius_ok as [P1 P0].
  rewrite (cell_is_count sh pixel_radius dx dy _ _ s Hok Hdx Hdy P0 P1 ltac:(lia)).
  rewrite subpix_count_cnt. unfold sub_centres, pixel_count, pixel_centres.
  apply cnt_flat_map_ext. intros a b_. cbn [fst snd]. unfold sub_coord.
  assert (Ns : ~ inject_Z s == 0).
  { intros E. assert (0 < inject_Z s) by (change 0 with (inject_Z 0); rewrite <- Zlt_Qlt; lia). lra. }
  rewrite !inject_Z_plus. split.
  - set (p0 := Qred (xmin + inject_Z (Z.of_nat i) * dx)).
    assert (E0 : p0 == xmin + inject_Z (Z.of_nat i) * dx) by (unfold p0; apply Qred_correct).
    setoid_replace (p0 + dx - p0) with dx by ring.
    rewrite E0, Hdx, Hxmin. field. exact Ns.
  - set (p0 := Qred (ymin + inject_Z (Z.of_nat j) * dy)).
    assert (E0 : p0 == ymin + inject_Z (Z.of_nat j) * dy) by (unfold p0; apply Qred_correct).
    setoid_replace (p0 + dy - p0) with dy by ring.
    rewrite E0, Hdy, Hymin. field. exact Ns.
Qed.

(* ---------- the shape lies within the extents handed to from_float ---------- *)
Lemma circle_within_extents r x y :
  inside (Circle r) x y = true -> x * x <= fst (extents_sq (Circle r)) /\ y * y <= snd (extents_sq (Circle r)).
Proof.
  rewrite inside_circle. cbn [extents_sq fst snd]. intros H.
  pose proof (Qsq_nonneg x). pose proof (Qsq_nonneg y). split; lra.
Qed.

Lemma lagrange p q_ A B : (p * p + q_ * q_) * (A * A + B * B) == (p * A - q_ * B) * (p * A - q_ * B) + (p * B + q_ * A) * (p * B + q_ * A).
Proof. ring. Qed.

Lemma ellipse_within_extents a b c s x y :
  0 < a -> 0 < b -> c * c + s * s == 1 -> inside (Ellipse a b c s) x y = true ->
  x * x <= fst (extents_sq (Ellipse a b c s)) /\ y * y <= snd (extents_sq (Ellipse a b c s)).
Proof.
  intros Ha Hb Hk H. cbn [inside] in H. apply Qltb_lt in H. cbn [extents_sq fst snd].
  set (xt := y * s + x * c) in *. set (yt := y * c - x * s) in *.
  set (p := xt / a). set (q_ := yt / b).
  assert (Ep : xt == p * a) by (unfold p; field; lra).
  assert (Eq_ : yt == q_ * b) by (unfold q_; field; lra).
  assert (Hpq : p * p + q_ * q_ < 1).
  { eapply Qle_lt_trans; [|exact H]. apply Qle_lteq. right. unfold p, q_. field. split; lra. }
  assert (Ex : x == p * (a * c) - q_ * (b * s)).
  { setoid_replace (p * (a * c) - q_ * (b * s)) with ((p * a) * c - (q_ * b) * s) by ring.
    rewrite <- Ep, <- Eq_. unfold xt, yt.
    setoid_replace ((y * s + x * c) * c - (y * c - x * s) * s) with (x * (c * c + s * s)) by ring.
    rewrite Hk. ring. }
  assert (Ey : y == p * (a * s) + q_ * (b * c)).
  { setoid_replace (p * (a * s) + q_ * (b * c)) with ((p * a) * s + (q_ * b) * c) by ring.
    rewrite <- Ep, <- Eq_. unfold xt, yt.
    setoid_replace ((y * s + x * c) * s + (y * c - x * s) * c) with (y * (c * c + s * s)) by ring.
    rewrite Hk. ring. }
  pose proof (Qsq_nonneg p). pose proof (Qsq_nonneg q_).
  split.
  - pose proof (lagrange p q_ (a * c) (b * s)) as L.
    pose proof (Qsq_nonneg (p * (b * s) + q_ * (a * c))) as Z.
    pose proof (Qsq_nonneg (a * c)). pose proof (Qsq_nonneg (b * s)).
    set (E := a * c * (a * c) + b * s * (b * s)) in *.
    assert (x * x <= (p * p + q_ * q_) * E) by (rewrite L, Ex; lra).
    assert ((p * p + q_ * q_) * E <= 1 * E) by (apply Qmult_le_compat_r; [lra|unfold E; lra]).
    lra.
  - pose proof (lagrange p (- q_) (a * s) (b * c)) as L.
    pose proof (Qsq_nonneg (p * (b * c) + - q_ * (a * s))) as Z.
    pose proof (Qsq_nonneg (a * s)). pose proof (Qsq_nonneg (b * c)).
    set (E := a * s * (a * s) + b * c * (b * c)) in *.
    assert (Ey' : y == p * (a * s) - - q_ * (b * c)) by (rewrite Ey; ring).
    assert (En : - q_ * - q_ == q_ * q_) by ring.
    assert (y * y <= (p * p + - q_ * - q_) * E) by (rewrite L, Ey'; lra).
    assert ((p * p + - q_ * - q_) * E <= 1 * E) by (apply Qmult_le_compat_r; [lra|unfold E; lra]).
    lra.
Qed.

(* ---------- annulus = outer minus inner ---------- *)
(* the relations the annulus constructors enforce between inner and outer parameters
   (r_in < r_out; a_in < a_out and b_in < b_out or b_in = b_out*a_in/a_out; same for w, h; one theta) *)
Definition annulus_params (o i : shape) : Prop :=
  match o, i with
  | Circle r2, Circle r1 => 0 <= r1 /\ r1 <= r2
  | Ellipse a2 b2 c s, Ellipse a1 b1 c' s' => c' = c /\ s' = s /\ 0 < a1 /\ 0 < b1 /\ a1 <= a2 /\ b1 <= b2
  | Rect w2 h2 c s, Rect w1 h1 c' s' => c' = c /\ s' = s /\ w1 <= w2 /\ h1 <= h2
  | _, _ => False
  end.

Lemma annulus_contained o i : annulus_params o i -> forall x y, inside i x y = true -> inside o x y = true.
Proof.
  destruct o as [r2|a2 b2 c s|w2 h2 c s], i as [r1|a1 b1 c' s'|w1 h1 c' s']; cbn [annulus_params]; try tauto.
  - intros [H0 H1] x y. apply circle_contained; assumption.
  - intros (-> & -> & Ha & Hb & Haa & Hbb) x y. apply ellipse_contained; assumption.
  - intros (-> & -> & Hw & Hh) x y. apply rect_contained; assumption.
Qed.

Lemma annulus_pixel o i x0 y0 x1 y1 s :
  (forall x y, inside i x y = true -> inside o x y = true) -> (0 <= s)%Z ->
  (subpix_count o x0 y0 x1 y1 s - subpix_count i x0 y0 x1 y1 s
   = cnt_diff o i (sub_centres x0 y0 x1 y1 s))%Z /\
  (0 <= subpix_count o x0 y0 x1 y1 s - subpix_count i x0 y0 x1 y1 s <= s * s)%Z.
Proof.
  intros H Hs. rewrite !subpix_count_cnt.
  assert (E := cnt_sub o i (sub_centres x0 y0 x1 y1 s) (fun p _ => H (fst p) (snd p))).
  split; [exact E|]. rewrite E. pose proof (cnt_diff_range o i (sub_centres x0 y0 x1 y1 s)) as R.
  rewrite sub_centres_length in R. nia.
Qed.

Lemma nth_map2 {A B C} (f : A -> B -> C) l1 l2 n d1 d2 d :
  length l1 = length l2 -> (n < length l1)%nat ->
  nth n (map2 f l1 l2) d = f (nth n l1 d1) (nth n l2 d2).
Proof.
  intros Hl Hn. unfold map2.
  rewrite (nth_indep _ d (f d1 d2)) by (rewrite map_length, combine_length; lia).
  change (f d1 d2) with ((fun p => f (fst p) (snd p)) (d1, d2)). rewrite map_nth, combine_nth by exact Hl.
  reflexivity.
Qed.

Lemma pixel_centres_length px py s Y X : length (pixel_centres px py s Y X) = (Z.to_nat s * Z.to_nat s)%nat.
Proof.
  unfold pixel_centres. rewrite (flat_map_length_const _ _ (Z.to_nat s)).
  - rewrite seq_length. reflexivity.
  - intros a. rewrite map_length, seq_length. reflexivity.
Qed.

(* annulus mask entry = number of sub-pixel centres in outer \ inner; within [0, s^2] *)
Lemma annulus_mask_entry o i b px py s j k :
  annulus_params o i -> rot_ok o = true -> rot_ok i = true -> (0 < s)%Z ->
  (j < Z.to_nat (iymax b - iymin b))%nat -> (k < Z.to_nat (ixmax b - ixmin b))%nat ->
  let e := nth k (nth j (img_sub (mask_counts o b px py s) (mask_counts i b px py s)) []) 0%Z in
  e = cnt_diff o i (pixel_centres px py s (iymin b + Z.of_nat j) (ixmin b + Z.of_nat k)) /\ (0 <= e <= s * s)%Z.
Proof.
  intros Hp Ho Hi Hs Hj Hk. cbv zeta.
  destruct (mask_counts_dims o b px py s) as [Lo Ro]. destruct (mask_counts_dims i b px py s) as [Li Ri].
  unfold img_sub.
  rewrite (nth_map2 _ _ _ j [] [] []) by lia.
  assert (Ro' : length (nth j (mask_counts o b px py s) []) = Z.to_nat (ixmax b - ixmin b))
    by (apply Ro, nth_In; lia).
  assert (Ri' : length (nth j (mask_counts i b px py s) []) = Z.to_nat (ixmax b - ixmin b))
    by (apply Ri, nth_In; lia).
  rewrite (nth_map2 _ _ _ k 0%Z 0%Z 0%Z) by lia.
  rewrite !mask_is_centre_fraction by assumption. unfold pixel_count.
  assert (E := cnt_sub o i (pixel_centres px py s (iymin b + Z.of_nat j) (ixmin b + Z.of_nat k))
                 (fun p _ => annulus_contained o i Hp (fst p) (snd p))).
  rewrite E. split; [reflexivity|].
  pose proof (cnt_diff_range o i (pixel_centres px py s (iymin b + Z.of_nat j) (ixmin b + Z.of_nat k))) as R.
  rewrite pixel_centres_length in R. nia.
Qed.

(* ---------- rectangle within its extents ---------- *)
Lemma Qabs_sq z : Qabs z * Qabs z == z * z.
Proof.
  apply Qabs_case; intros; ring.
Qed.
Lemma sq_le_of_abs_le u X : Qabs u <= X -> u * u <= X * X.
Proof.
  intros H. rewrite <- Qabs_sq. apply sq_le_sq; [apply Qabs_nonneg|exact H].
Qed.

Lemma rect_within_extents w h c s x y :
  0 <= w -> 0 <= h -> c * c + s * s == 1 -> inside (Rect w h c s) x y = true ->
  x * x <= fst (extents_sq (Rect w h c s)) /\ y * y <= snd (extents_sq (Rect w h c s)).
Proof.
  intros Hw Hh Hk H. cbn [inside] in H. apply andb_true_iff in H as [H1 H2]. apply Qltb_lt in H1, H2.
  cbn [extents_sq fst snd].
  set (xt := y * s + x * c) in *. set (yt := y * c - x * s) in *.
  set (hw := w / 2) in *. set (hh := h / 2) in *.
  assert (Ex : x == xt * c - yt * s).
  { unfold xt, yt. setoid_replace ((y * s + x * c) * c - (y * c - x * s) * s) with (x * (c * c + s * s)) by ring.
    rewrite Hk. ring. }
  assert (Ey : y == xt * s + yt * c).
  { unfold xt, yt. setoid_replace ((y * s + x * c) * s + (y * c - x * s) * c) with (y * (c * c + s * s)) by ring.
    rewrite Hk. ring. }
  assert (B1 : - hw < xt < hw) by (revert H1; apply Qabs_case; intros; lra).
  assert (B2 : - hh < yt < hh) by (revert H2; apply Qabs_case; intros; lra).
  split; apply sq_le_of_abs_le.
  - rewrite Ex.
    pose proof (Q.le_max_l (Qabs (hw * c - hh * s)) (Qabs (hw * c + hh * s))) as M1.
    pose proof (Q.le_max_r (Qabs (hw * c - hh * s)) (Qabs (hw * c + hh * s))) as M2.
    set (X := Qmax _ _) in *.
    pose proof (Qle_Qabs (hw * c - hh * s)) as A1. pose proof (Qle_Qabs (- (hw * c - hh * s))) as A2.
    pose proof (Qle_Qabs (hw * c + hh * s)) as A3. pose proof (Qle_Qabs (- (hw * c + hh * s))) as A4.
    rewrite Qabs_opp in A2, A4.
    apply Qabs_case; intros _; destruct (Qlt_le_dec c 0), (Qlt_le_dec s 0); nra.
  - rewrite Ey.
    pose proof (Q.le_max_l (Qabs (hw * s + hh * c)) (Qabs (hw * s - hh * c))) as M1.
    pose proof (Q.le_max_r (Qabs (hw * s + hh * c)) (Qabs (hw * s - hh * c))) as M2.
    set (X := Qmax _ _) in *.
    pose proof (Qle_Qabs (hw * s + hh * c)) as A1. pose proof (Qle_Qabs (- (hw * s + hh * c))) as A2.
    pose proof (Qle_Qabs (hw * s - hh * c)) as A3. pose proof (Qle_Qabs (- (hw * s - hh * c))) as A4.
    rewrite Qabs_opp in A2, A4.
    apply Qabs_case; intros _; destruct (Qlt_le_dec c 0), (Qlt_le_dec s 0); nra.
Qed.

(* ---------- the box contains the shape ---------- *)
Definition unit_rot (sh : shape) : Prop :=
  match sh with
  | Circle r => 0 <= r
  | Ellipse a b c s => 0 < a /\ 0 < b /\ c * c + s * s == 1
  | Rect w h c s => 0 <= w /\ 0 <= h /\ c * c + s * s == 1
  end.

Lemma shape_within_extents sh x y : unit_rot sh -> inside sh x y = true ->
  x * x <= fst (extents_sq sh) /\ y * y <= snd (extents_sq sh).
Proof.
  destruct sh as [r|a b c s|w h c s]; cbn [unit_rot].
  - intros _. apply circle_within_extents.
  - intros (Ha & Hb & Hk). apply ellipse_within_extents; assumption.
  - intros (Hw & Hh & Hk). apply rect_within_extents; assumption.
Qed.

Lemma abs_le_of_sq_le u e : 0 <= e -> u * u <= e * e -> - e <= u <= e.
Proof.
  intros He H. split.
  - destruct (Qlt_le_dec u (- e)) as [Hlt|?]; [exfalso|assumption].
    assert (e * e < u * u) by (setoid_replace (u * u) with ((- u) * (- u)) by ring; nra). lra.
  - destruct (Qlt_le_dec e u) as [Hlt|?]; [exfalso|assumption].
    assert (e * e < u * u) by nra. lra.
Qed.

(* every point of the shape centred on (px,py) lies in the pixel box returned for extents (ex, ey)
   that dominate the exact ones; by from_float_minimal this box is the smallest such integer box *)
Lemma bbox_contains_shape sh px py ex ey X Y :
  unit_rot sh -> 0 <= ex -> 0 <= ey ->
  fst (extents_sq sh) <= ex * ex -> snd (extents_sq sh) <= ey * ey ->
  inside sh (X - px) (Y - py) = true ->
  let b := from_float (px - ex) (px + ex) (py - ey) (py + ey) in
  inject_Z (ixmin b) - half <= X <= inject_Z (ixmax b) - half /\
  inject_Z (iymin b) - half <= Y <= inject_Z (iymax b) - half.
Proof.
  intros Hu Hex Hey H1 H2 Hin. cbv zeta.
  destruct (shape_within_extents sh _ _ Hu Hin) as [Sx Sy].
  destruct (abs_le_of_sq_le (X - px) ex Hex ltac:(lra)) as [Ax0 Ax1].
  destruct (abs_le_of_sq_le (Y - py) ey Hey ltac:(lra)) as [Ay0 Ay1].
  destruct (from_float_contains (px - ex) (px + ex) (py - ey) (py + ey)) as (C1 & C2 & C3 & C4).
  repeat split; lra.
Qed.

(* circles: the box is the smallest integer pixel box containing the open disc *)
Lemma open_interval_lower (c r m : Q) : 0 < r -> (forall t, (t - c) * (t - c) < r * r -> m <= t) -> m <= c - r.
Proof.
  intros Hr H. destruct (Qlt_le_dec (c - r) m) as [Hlt|?]; [exfalso|assumption].
  destruct (Qlt_le_dec c m) as [Hc|Hc].
  - specialize (H c). assert ((c - c) * (c - c) < r * r) by nra. specialize (H H0). lra.
  - set (t := (c - r + m) / 2). assert (Et : t * 2 == c - r + m) by (unfold t; field).
    assert ((t - c) * (t - c) < r * r) by nra. specialize (H t H0). lra.
Qed.
Lemma open_interval_upper (c r m : Q) : 0 < r -> (forall t, (t - c) * (t - c) < r * r -> t <= m) -> c + r <= m.
Proof.
  intros Hr H. destruct (Qlt_le_dec m (c + r)) as [Hlt|?]; [exfalso|assumption].
  destruct (Qlt_le_dec m c) as [Hc|Hc].
  - specialize (H c). assert ((c - c) * (c - c) < r * r) by nra. specialize (H H0). lra.
  - set (t := (c + r + m) / 2). assert (Et : t * 2 == c + r + m) by (unfold t; field).
    assert ((t - c) * (t - c) < r * r) by nra. specialize (H t H0). lra.
Qed.

Lemma circle_bbox_minimal r px py (a0 a1 c0 c1 : Z) :
  0 < r ->
  (forall X Y, inside (Circle r) (X - px) (Y - py) = true ->
     inject_Z a0 - half <= X <= inject_Z a1 - half /\ inject_Z c0 - half <= Y <= inject_Z c1 - half) ->
  let b := from_float (px - r) (px + r) (py - r) (py + r) in
  (a0 <= ixmin b /\ ixmax b <= a1 /\ c0 <= iymin b /\ iymax b <= c1)%Z.
Proof.
  intros Hr H. apply from_float_minimal.
  - apply open_interval_lower; [exact Hr|]. intros t Ht.
    apply (H t py). apply inside_circle. setoid_replace (py - py) with 0 by ring. lra.
  - apply open_interval_upper; [exact Hr|]. intros t Ht.
    apply (H t py). apply inside_circle. setoid_replace (py - py) with 0 by ring. lra.
  - apply open_interval_lower; [exact Hr|]. intros t Ht.
    apply (H px t). apply inside_circle. setoid_replace (px - px) with 0 by ring. lra.
  - apply open_interval_upper; [exact Hr|]. intros t Ht.
    apply (H px t). apply inside_circle. setoid_replace (px - px) with 0 by ring. lra.
Qed.

Lemma from_float_smallest xmin xmax ymin ymax :
  let b := from_float xmin xmax ymin ymax in
  (inject_Z (ixmin b) - half <= xmin /\ xmax <= inject_Z (ixmax b) - half /\
   inject_Z (iymin b) - half <= ymin /\ ymax <= inject_Z (iymax b) - half) /\
  (forall a0 a1 c0 c1 : Z,
     inject_Z a0 - half <= xmin -> xmax <= inject_Z a1 - half ->
     inject_Z c0 - half <= ymin -> ymax <= inject_Z c1 - half ->
     (a0 <= ixmin b /\ ixmax b <= a1 /\ c0 <= iymin b /\ iymax b <= c1)%Z).
Proof.
  split; [apply from_float_contains|]. intros. apply from_float_minimal; assumption.
Qed.

Lemma center_is_subpixel_1_any s rect : translate_mode 0 s rect = translate_mode 1 1 rect.
Proof. destruct rect; reflexivity. Qed.
