(* C19 — proofs about the model of photutils.profiles (C19_Model.v).
   Part 1: numpy-like list helpers against index sums.
   Part 2: _compute_mask and the aperture sums (specification by pixel index).
   Part 3: curve of growth / radial profile clauses.
   Part 4: normalize / unnormalize state machine (invariant over arbitrary histories).
   Part 5: encircled-energy interpolators (monotone prefix).
   Part 6: integer translation (re-indexing of the pixels). *)
From Coq Require Import ZArith QArith Qabs Qround List Bool Lia Arith Permutation Setoid.
From PV Require Import lib.Cases C19_Model.
Import ListNotations.
Local Open Scope Z_scope.
Local Arguments Qred : simpl never.

(* ====================================================================================== *)
(* Part 1 — helpers                                                                        *)
(* ====================================================================================== *)
Lemma map2_length {A B C} (f : A -> B -> C) a b :
  length a = length b -> length (map2 f a b) = length a.
Proof.
  revert b; induction a as [|x a IH]; intros [|y b] H; cbn in *; try discriminate; auto.
Qed.

Lemma map2_length_min {A B C} (f : A -> B -> C) a b :
  length (map2 f a b) = Nat.min (length a) (length b).
Proof.
  revert b; induction a as [|x a IH]; intros [|y b]; cbn; auto.
Qed.
Lemma odiff_length l : length (odiff l) = pred (length l).
Proof. unfold odiff. rewrite map2_length_min. destruct l; cbn; lia. Qed.

Lemma map2_seq {A B C} (f : A -> B -> C) da db a b n :
  length a = n -> length b = n ->
  map2 f a b = map (fun p => f (nth p a da) (nth p b db)) (seq 0 n).
Proof.
  revert b n; induction a as [|x a IH]; intros [|y b] n Ha Hb; cbn in *; subst; try discriminate; auto.
  cbn. f_equal. rewrite <- seq_shift, map_map. apply IH; auto.
Qed.

Lemma map_seq_nth {A B} (f : A -> B) d a :
  map f a = map (fun p => f (nth p a d)) (seq 0 (length a)).
Proof.
  induction a as [|x a IH]; cbn; auto. f_equal. rewrite <- seq_shift, map_map. exact IH.
Qed.

Lemma nth_map_seq {A} (f : nat -> A) n p d : (p < n)%nat -> nth p (map f (seq 0 n)) d = f p.
Proof.
  intros H. rewrite (nth_indep _ d (f 0%nat)) by (rewrite map_length, seq_length; lia).
  rewrite map_nth, seq_nth by lia. reflexivity.
Qed.
Lemma nth_map_d {A B} (f : A -> B) l p d d' : (p < length l)%nat -> nth p (map f l) d' = f (nth p l d).
Proof.
  intros H. rewrite (nth_indep _ d' (f d)) by (rewrite map_length; lia). apply map_nth.
Qed.

Lemma select_map {A} (m : nat -> bool) (g : nat -> A) l :
  select (map m l) (map g l) = map g (filter m l).
Proof.
  induction l as [|x l IH]; cbn; auto. destruct (m x); cbn; rewrite IH; auto.
Qed.

Lemma zsuml_cons x l : zsuml (x :: l) = x + zsuml l.
Proof. reflexivity. Qed.
Lemma zsuml_nil : zsuml [] = 0.
Proof. reflexivity. Qed.

Lemma osum_somes {X} (h : X -> Z) l : osum (map (fun p => Some (h p)) l) = Some (zsuml (map h l)).
Proof. induction l as [|x l IH]; cbn [map osum]; auto. rewrite IH, zsuml_cons. reflexivity. Qed.

Lemma map_filter_ext {X Y} (m : X -> bool) (g g' : X -> Y) l :
  (forall p, In p l -> m p = true -> g p = g' p) -> map g (filter m l) = map g' (filter m l).
Proof.
  intros H. apply map_ext_in. intros p Hp. apply filter_In in Hp. destruct Hp; auto.
Qed.

Lemma zsuml_filter {X} (m : X -> bool) (h : X -> Z) l :
  zsuml (map h (filter m l)) = zsuml (map (fun p => if m p then h p else 0) l).
Proof.
  induction l as [|x l IH]; cbn [map filter]; auto.
  destruct (m x); cbn [map]; rewrite !zsuml_cons, IH; lia.
Qed.

Lemma zsuml_ext {X} (g g' : X -> Z) l :
  (forall p, In p l -> g p = g' p) -> zsuml (map g l) = zsuml (map g' l).
Proof. intros H. f_equal. apply map_ext_in, H. Qed.

Lemma zsuml_sub {X} (g g' : X -> Z) l :
  zsuml (map g l) - zsuml (map g' l) = zsuml (map (fun p => g p - g' p) l).
Proof. induction l as [|x l IH]; cbn [map]; auto. rewrite !zsuml_cons, <- IH. lia. Qed.

Lemma zsuml_scale {X} c (g : X -> Z) l :
  zsuml (map (fun p => c * g p) l) = c * zsuml (map g l).
Proof. induction l as [|x l IH]; cbn [map]; [rewrite zsuml_nil; lia|]. rewrite !zsuml_cons, IH. lia. Qed.

Lemma zsuml_le {X} (g g' : X -> Z) l :
  (forall p, In p l -> g p <= g' p) -> zsuml (map g l) <= zsuml (map g' l).
Proof.
  induction l as [|x l IH]; cbn [map]; intros H; [lia|]. rewrite !zsuml_cons.
  assert (g x <= g' x) by (apply H; cbn; auto).
  assert (zsuml (map g l) <= zsuml (map g' l)) by (apply IH; intros; apply H; cbn; auto). lia.
Qed.

Lemma zsuml_perm l l' : Permutation l l' -> zsuml l = zsuml l'.
Proof. induction 1; rewrite ?zsuml_cons; lia. Qed.

Lemma nth_map2 {A B C} (f : A -> B -> C) da db dc a b i :
  (i < length a)%nat -> (i < length b)%nat ->
  nth i (map2 f a b) dc = f (nth i a da) (nth i b db).
Proof.
  revert b i; induction a as [|x a IH]; intros [|y b] i Ha Hb; cbn in *; try lia.
  destruct i; auto. apply IH; lia.
Qed.

Lemma nth_error_map2 {A B C} (f : A -> B -> C) a b i x y :
  nth_error a i = Some x -> nth_error b i = Some y -> nth_error (map2 f a b) i = Some (f x y).
Proof.
  revert b i; induction a as [|x0 a IH]; intros [|y0 b] [|i] Ha Hb; cbn in *; try discriminate.
  - congruence.
  - eauto.
Qed.

(* ====================================================================================== *)
(* Part 2 — specification of the mask and of the aperture sums by pixel index              *)
(* ====================================================================================== *)
Definition npix (data : list (option Z)) : nat := length data.

(* a pixel is excluded iff the caller masked it, or its data or its error is non-finite *)
Definition pix_masked (data : list (option Z)) (err : option (list (option Z)))
           (umask : option (list bool)) (p : nat) : bool :=
  match umask with Some m => nth p m false | None => false end
  || nonfin (nth p data None)
  || match err with Some e => nonfin (nth p e None) | None => false end.

Definition dval (a : list (option Z)) (p : nat) : Z :=
  match nth p a None with Some v => v | None => 0 end.
Definition wt (w : list Z) (p : nat) : Z := nth p w 0.
Definition wsum (N : nat) (g : nat -> Z) : Z := zsuml (map g (seq 0 N)).

(* mask-weighted sum of [f] over the unmasked pixels of the image *)
Definition unmasked_sum data err umask (w : nat -> Z) (f : nat -> Z) : Z :=
  wsum (npix data) (fun p => if pix_masked data err umask p then 0 else w p * f p).

Definition spec_flux data err umask (w : list Z) : Z :=
  unmasked_sum data err umask (wt w) (dval data).
Definition spec_var data err umask (w : list Z) : Z :=
  match err with
  | Some e => unmasked_sum data err umask (wt w) (fun p => dval e p * dval e p)
  | None => 0
  end.
Definition spec_area data err umask (w : list Z) : Z :=
  unmasked_sum data err umask (wt w) (fun _ => 1).

(* shapes agree (validated by the implementation) and weights are fractions >= 0 *)
Definition wf (data : list (option Z)) (err : option (list (option Z)))
           (umask : option (list bool)) (apers : list aper) : Prop :=
  (forall e, err = Some e -> length e = length data) /\
  (forall m, umask = Some m -> length m = length data) /\
  (forall w, In (AW w) apers -> length w = length data /\ forall p, 0 <= wt w p).

Lemma compute_mask_spec data err umask :
  (forall e, err = Some e -> length e = length data) ->
  (forall m, umask = Some m -> length m = length data) ->
  compute_mask data err umask = map (pix_masked data err umask) (seq 0 (npix data)).
Proof.
  intros He Hm. unfold compute_mask, npix.
  set (N := length data).
  assert (Hbad0 : map nonfin data = map (fun p => nonfin (nth p data None)) (seq 0 N))
    by (apply map_seq_nth).
  assert (Hbad : match err with Some e => map2 orb (map nonfin data) (map nonfin e) | None => map nonfin data end
                 = map (fun p => nonfin (nth p data None)
                                 || match err with Some e => nonfin (nth p e None) | None => false end) (seq 0 N)).
  { destruct err as [e|].
    - rewrite (map2_seq orb false false _ _ N); [|rewrite map_length; auto|rewrite map_length; auto].
      apply map_ext_in. intros p Hp. apply in_seq in Hp.
      rewrite (nth_map_d nonfin data p None false) by (fold N; lia).
      rewrite (nth_map_d nonfin e p None false) by (rewrite (He e eq_refl); fold N; lia).
      reflexivity.
    - rewrite Hbad0. apply map_ext. intros p. rewrite orb_false_r. reflexivity. }
  rewrite Hbad. clear Hbad Hbad0.
  destruct umask as [m|].
  - specialize (Hm m eq_refl).
    rewrite (map2_seq andb false false _ (map negb m) N); [|rewrite map_length, seq_length; auto|rewrite map_length; auto].
    rewrite (map2_seq orb false false m _ N); [|auto|rewrite map_length, seq_length; auto].
    apply map_ext_in. intros p Hp. apply in_seq in Hp. unfold pix_masked.
    set (g := fun p0 => nonfin (nth p0 data None) || match err with Some e => nonfin (nth p0 e None) | None => false end).
    rewrite nth_map_seq by lia. rewrite nth_map_seq by lia.
    rewrite (nth_map_d negb m p false false) by lia. unfold g.
    destruct (nth p m false), (nonfin (nth p data None)), err as [e|]; cbn; try reflexivity;
      destruct (nonfin (nth p e None)); reflexivity.
  - apply map_ext. intros p. unfold pix_masked. cbn. reflexivity.
Qed.

(* do_photometry on full-image weights: the selected products are all finite, and their sum is
   the sum over the unmasked pixels (a weight 0 contributes nothing, weights are >= 0) *)
Lemma ap_sum_spec (vals : list (option Z)) (w : list Z) (mk : nat -> bool) N :
  length vals = N -> length w = N ->
  (forall p, (p < N)%nat -> mk p = false -> nth p vals None <> None) ->
  (forall p, 0 <= wt w p) ->
  ap_sum vals w (map mk (seq 0 N)) =
  Some (wsum N (fun p => if mk p then 0 else wt w p * dval vals p)).
Proof.
  intros Hv Hw Hfin Hpos. unfold ap_sum, pixel_mask.
  rewrite (map_seq_nth (fun x => 0 <? x) 0 w), Hw.
  rewrite (map2_seq andb false false _ (map negb (map mk (seq 0 N))) N);
    [|rewrite map_length, seq_length; auto|rewrite !map_length, seq_length; auto].
  rewrite (map2_seq omul None 0 vals w N) by auto.
  set (sel := fun p => nth p (map (fun p0 => 0 <? nth p0 w 0) (seq 0 N)) false
                       && nth p (map negb (map mk (seq 0 N))) false).
  rewrite select_map.
  assert (Hsel : forall p, In p (seq 0 N) -> sel p = (0 <? wt w p) && negb (mk p)).
  { intros p Hp. apply in_seq in Hp. unfold sel.
    rewrite nth_map_seq by lia. rewrite map_map, nth_map_seq by lia. reflexivity. }
  rewrite (map_filter_ext sel _ (fun p => Some (wt w p * dval vals p))).
  - rewrite osum_somes, zsuml_filter. f_equal. unfold wsum. apply zsuml_ext.
    intros p Hp. rewrite (Hsel p Hp). specialize (Hpos p).
    destruct (mk p); cbn; [rewrite andb_false_r; reflexivity|]. rewrite andb_true_r.
    destruct (0 <? wt w p) eqn:E; [reflexivity|]. assert (wt w p = 0) by lia. lia.
  - intros p Hp Hs. rewrite (Hsel p Hp) in Hs. apply in_seq in Hp.
    apply andb_true_iff in Hs. destruct Hs as [_ Hs]. apply negb_true_iff in Hs.
    specialize (Hfin p ltac:(lia) Hs). unfold dval, wt.
    destruct (nth p vals None) as [v|]; [|congruence]. cbn. f_equal. lia.
Qed.

Lemma ap_area_spec (w : list Z) (mk : nat -> bool) N :
  length w = N -> (forall p, 0 <= wt w p) ->
  ap_area w (map mk (seq 0 N)) = wsum N (fun p => if mk p then 0 else wt w p * 1).
Proof.
  intros Hw Hpos. unfold ap_area.
  pose proof (map_seq_nth (fun x => x) 0 w) as Hid. rewrite map_id, Hw in Hid.
  set (pm := pixel_mask w (map mk (seq 0 N))). rewrite Hid. subst pm. unfold pixel_mask.
  rewrite (map_seq_nth (fun x => 0 <? x) 0 w), Hw.
  rewrite (map2_seq andb false false _ (map negb (map mk (seq 0 N))) N);
    [|rewrite map_length, seq_length; auto|rewrite !map_length, seq_length; auto].
  rewrite select_map, zsuml_filter. unfold wsum. apply zsuml_ext.
  intros p Hp. apply in_seq in Hp.
  rewrite nth_map_seq by lia. rewrite map_map, nth_map_seq by lia.
  specialize (Hpos p). unfold wt in *. rewrite <- Hid.
  destruct (mk p); cbn; [rewrite andb_false_r; reflexivity|]. rewrite andb_true_r.
  destruct (0 <? nth p w 0) eqn:E; lia.
Qed.

Lemma phot_one_spec data err umask apers a :
  wf data err umask apers -> In a apers ->
  phot_one data err (compute_mask data err umask) a =
  match a with
  | AZero => (Some 0, Some 0, Some 0)
  | AOff => (None, None, None)
  | AW w => (Some (spec_flux data err umask w), Some (spec_var data err umask w),
             Some (spec_area data err umask w))
  end.
Proof.
  intros (He & Hm & Hw) Hin. destruct a as [| |w]; try reflexivity.
  destruct (Hw w Hin) as [Hlen Hpos].
  rewrite (compute_mask_spec data err umask He Hm). unfold phot_one, npix.
  assert (Hfd : forall p, (p < length data)%nat -> pix_masked data err umask p = false ->
                          nth p data None <> None).
  { intros p _ H. unfold pix_masked in H. apply orb_false_iff in H. destruct H as [H _].
    apply orb_false_iff in H. destruct H as [_ H]. destruct (nth p data None); [congruence|discriminate]. }
  rewrite (ap_sum_spec data w (pix_masked data err umask) (length data)); auto.
  rewrite (ap_area_spec w (pix_masked data err umask) (length data)); auto.
  assert (Hvar : match err with
                 | Some e => ap_sum (map osq e) w (map (pix_masked data err umask) (seq 0 (length data)))
                 | None => Some 0 end = Some (spec_var data err umask w)).
  { destruct err as [e|]; [|reflexivity].
    specialize (He e eq_refl).
    rewrite (ap_sum_spec (map osq e) w (pix_masked data (Some e) umask) (length data)); auto.
    + f_equal. unfold spec_var, unmasked_sum, wsum, npix. apply zsuml_ext. intros p Hp.
      apply in_seq in Hp. destruct (pix_masked data (Some e) umask p); [reflexivity|].
      f_equal. unfold dval. rewrite (nth_map_d osq e p None None) by lia.
      destruct (nth p e None); reflexivity.
    + rewrite map_length; auto.
    + intros p Hp H. rewrite (nth_map_d osq e p None None) by lia. unfold pix_masked in H.
      apply orb_false_iff in H. destruct H as [_ H].
      destruct (nth p e None); [cbn; congruence|discriminate]. }
  rewrite Hvar. reflexivity.
Qed.

(* ====================================================================================== *)
(* Part 3 — curve of growth and radial profile                                             *)
(* ====================================================================================== *)
(* weights of an aperture as a function of the pixel index (None: no overlap, NaN result) *)
Definition aw (a : aper) : option (nat -> Z) :=
  match a with AZero => Some (fun _ => 0) | AOff => None | AW w => Some (wt w) end.

Definition usum data err umask (w f : nat -> Z) : Z := unmasked_sum data err umask w f.
Definition esq (err : option (list (option Z))) (p : nat) : Z :=
  match err with Some e => dval e p * dval e p | None => 0 end.

Definition spec_phot data err umask (a : aper) : phot :=
  match aw a with
  | Some w => (Some (usum data err umask w (dval data)), Some (usum data err umask w (esq err)),
               Some (usum data err umask w (fun _ => 1)))
  | None => (None, None, None)
  end.

Lemma usum_zero data err umask f : usum data err umask (fun _ => 0) f = 0.
Proof.
  unfold usum, unmasked_sum, wsum. induction (seq 0 (npix data)) as [|x l IH]; [reflexivity|].
  cbn [map]. rewrite zsuml_cons, IH. destruct (pix_masked data err umask x); lia.
Qed.

Lemma usum_fzero data err umask w : usum data err umask w (fun _ => 0) = 0.
Proof.
  unfold usum, unmasked_sum, wsum. induction (seq 0 (npix data)) as [|x l IH]; [reflexivity|].
  cbn [map]. rewrite zsuml_cons, IH. destruct (pix_masked data err umask x); lia.
Qed.

Lemma usum_sub data err umask w w' f :
  usum data err umask w' f - usum data err umask w f = usum data err umask (fun p => w' p - w p) f.
Proof.
  unfold usum, unmasked_sum, wsum. rewrite zsuml_sub. apply zsuml_ext. intros p _.
  destruct (pix_masked data err umask p); lia.
Qed.

Lemma usum_const data err umask w f c :
  (forall p, (p < npix data)%nat -> pix_masked data err umask p = false -> f p = c) ->
  usum data err umask w f = c * usum data err umask w (fun _ => 1).
Proof.
  intros H. unfold usum, unmasked_sum, wsum. rewrite <- zsuml_scale. apply zsuml_ext.
  intros p Hp. apply in_seq in Hp. destruct (pix_masked data err umask p) eqn:E; [lia|].
  rewrite (H p) by (auto; lia). lia.
Qed.

Lemma usum_le data err umask w w' f :
  (forall p, (p < npix data)%nat -> pix_masked data err umask p = false -> 0 <= f p) ->
  (forall p, w p <= w' p) ->
  usum data err umask w f <= usum data err umask w' f.
Proof.
  intros Hf Hw. unfold usum, unmasked_sum, wsum. apply zsuml_le. intros p Hp. apply in_seq in Hp.
  destruct (pix_masked data err umask p) eqn:E; [lia|].
  specialize (Hf p ltac:(lia) E). specialize (Hw p). nia.
Qed.

Lemma photometry_spec data err umask apers :
  wf data err umask apers ->
  photometry data err umask apers = map (spec_phot data err umask) apers.
Proof.
  intros Hwf. unfold photometry. apply map_ext_in. intros a Hin.
  rewrite (phot_one_spec data err umask apers a Hwf Hin). unfold spec_phot.
  destruct a as [| |w]; cbn [aw]; [|reflexivity|].
  - rewrite !usum_zero. reflexivity.
  - unfold spec_flux, spec_var, spec_area, usum, esq. destruct err; [reflexivity|].
    f_equal. f_equal. f_equal. symmetry. apply (usum_fzero data None umask (wt w)).
Qed.

Lemma nth_error_tl {A} (l : list A) i : nth_error (tl l) i = nth_error l (S i).
Proof. destruct l; [destruct i|]; reflexivity. Qed.

Lemma nth_error_odiff l i x y :
  nth_error l i = Some x -> nth_error l (S i) = Some y -> nth_error (odiff l) i = Some (osub y x).
Proof. intros H1 H2. unfold odiff. apply nth_error_map2; [rewrite nth_error_tl|]; auto. Qed.

Section Profiles.
Variables (S : Z) (data : list (option Z)) (err : option (list (option Z)))
          (umask : option (list bool)) (apers : list aper).
Hypothesis Hwf : wf data err umask apers.
Let ph := photometry data err umask apers.
Let US := usum data err umask.

Lemma fluxes_nth i a :
  nth_error apers i = Some a ->
  nth_error (fluxes ph) i = Some (option_map (fun w => US w (dval data)) (aw a)) /\
  nth_error (vars ph) i = Some (option_map (fun w => US w (esq err)) (aw a)) /\
  nth_error (areas ph) i = Some (option_map (fun w => US w (fun _ => 1)) (aw a)).
Proof.
  intros Ha. unfold ph, fluxes, vars, areas. rewrite (photometry_spec _ _ _ _ Hwf), !map_map.
  repeat split; erewrite map_nth_error by exact Ha; f_equal; unfold spec_phot;
    destruct (aw a); reflexivity.
Qed.

(* CurveOfGrowth: profile / area / profile_error at each radius *)
Lemma cog_aperture_sum i a :
  nth_error apers i = Some a ->
  nth_error (cog_profile S ph) i = Some (option_map (fun w => zq S (US w (dval data))) (aw a)) /\
  nth_error (cog_area S ph) i = Some (option_map (fun w => zq S (US w (fun _ => 1))) (aw a)) /\
  nth_error (cog_perr S true ph) i = Some (option_map (fun w => (1%Q, zq S (US w (esq err)))) (aw a)).
Proof.
  intros Ha. destruct (fluxes_nth i a Ha) as (Hf & Hv & Har).
  unfold cog_profile, cog_area, cog_perr.
  repeat split; erewrite map_nth_error by eassumption; f_equal; destruct (aw a); reflexivity.
Qed.

Lemma cog_perr_noerr : cog_perr S false ph = [] /\ rad_perr S false ph = [].
Proof. split; reflexivity. Qed.

(* RadialProfile: annulus i between apertures i and i+1 *)
Lemma radial_annulus i a b :
  nth_error apers i = Some a -> nth_error apers (Datatypes.S i) = Some b ->
  match aw a, aw b with
  | Some wa, Some wb =>
      let dw := fun p => wb p - wa p in
      let df := US dw (dval data) in let da := US dw (fun _ => 1) in let dv := US dw (esq err) in
      nth_error (rad_profile ph) i = Some (if da =? 0 then None else Some (inject_Z df / inject_Z da)%Q) /\
      nth_error (rad_area S ph) i = Some (Some (zq S da)) /\
      nth_error (rad_perr S true ph) i =
        Some (if (da =? 0) || (dv <? 0) then None else Some ((inject_Z S / inject_Z da)%Q, zq S dv))
  | _, _ =>
      nth_error (rad_profile ph) i = Some None /\ nth_error (rad_area S ph) i = Some None /\
      nth_error (rad_perr S true ph) i = Some None
  end.
Proof.
  intros Ha Hb.
  destruct (fluxes_nth i a Ha) as (Hfa & Hva & Haa).
  destruct (fluxes_nth _ b Hb) as (Hfb & Hvb & Hab).
  pose proof (nth_error_odiff _ _ _ _ Hfa Hfb) as Hdf.
  pose proof (nth_error_odiff _ _ _ _ Hva Hvb) as Hdv.
  pose proof (nth_error_odiff _ _ _ _ Haa Hab) as Hda.
  pose proof (nth_error_map2 quot _ _ _ _ _ Hdf Hda) as X1.
  pose proof (nth_error_map2 (equot S) _ _ _ _ _ Hdv Hda) as X2.
  pose proof (map_nth_error (option_map (zq S)) _ _ Hda) as X3.
  unfold rad_profile, rad_area, rad_perr, rad_flux, rad_var, rad_darea, val, eval in *.
  rewrite X1, X2, X3. clear X1 X2 X3.
  clear Hdf Hdv Hda Hfa Hva Haa Hfb Hvb Hab.
  destruct (aw a) as [wa|], (aw b) as [wb|]; cbn [option_map osub quot equot]; auto.
  unfold US. rewrite !usum_sub. auto.
Qed.

(* meaning of the (c, v) pair of a radial error: (c sqrt v)^2 = (dv/S) / (da/S)^2 *)
Lemma equot_meaning dv da :
  0 < S -> da <> 0 ->
  let c := (inject_Z S / inject_Z da)%Q in let v := zq S dv in
  (c * c * v == zq S dv / (zq S da * zq S da))%Q.
Proof.
  intros HS Hda c v. unfold c, v, zq.
  assert (~ inject_Z S == 0)%Q by (unfold Qeq; cbn; lia).
  assert (~ inject_Z da == 0)%Q by (unfold Qeq; cbn; lia).
  field. auto.
Qed.

(* constant image: every bin with non-zero area equals the constant *)
Lemma constant_radial c i q :
  (forall p, (p < npix data)%nat -> pix_masked data err umask p = false -> dval data p = c) ->
  nth_error (rad_profile ph) i = Some (Some q) -> (q == inject_Z c)%Q.
Proof.
  intros Hc Hq.
  assert (Hlen : (Datatypes.S i < length apers)%nat).
  { assert (Hl : (i < length (rad_profile ph))%nat) by (apply nth_error_Some; congruence).
    unfold rad_profile, rad_flux, rad_darea in Hl. rewrite map2_length_min, !odiff_length in Hl.
    unfold fluxes, areas, ph, photometry in Hl. rewrite !map_length in Hl. lia. }
  destruct (nth_error apers i) as [a|] eqn:Ha; [|apply nth_error_None in Ha; lia].
  destruct (nth_error apers (Datatypes.S i)) as [b|] eqn:Hb; [|apply nth_error_None in Hb; lia].
  pose proof (radial_annulus i a b Ha Hb) as H.
  destruct (aw a) as [wa|], (aw b) as [wb|]; try (destruct H as (H & _); rewrite H in Hq; discriminate).
  cbv zeta in H. destruct H as (H & _). rewrite H in Hq.
  set (dw := fun p => wb p - wa p) in *.
  destruct (US dw (fun _ => 1) =? 0) eqn:E; [discriminate|]. injection Hq as <-.
  unfold US in *. rewrite (usum_const data err umask dw (dval data) c Hc).
  assert (~ inject_Z (usum data err umask dw (fun _ => 1%Z)) == 0)%Q by (unfold Qeq; cbn; lia).
  rewrite inject_Z_mult. field. auto.
Qed.

Lemma constant_radial_defined i a b wa wb :
  nth_error apers i = Some a -> nth_error apers (Datatypes.S i) = Some b ->
  aw a = Some wa -> aw b = Some wb ->
  US (fun p => wb p - wa p) (fun _ => 1) <> 0 ->
  exists q, nth_error (rad_profile ph) i = Some (Some q).
Proof.
  intros Ha Hb Hwa Hwb Hne. pose proof (radial_annulus i a b Ha Hb) as H.
  rewrite Hwa, Hwb in H. cbv zeta in H. destruct H as (H & _). rewrite H.
  destruct (US (fun p => wb p - wa p) (fun _ => 1) =? 0) eqn:E; [lia|]. eauto.
Qed.

Lemma constant_cog c i a w :
  (forall p, (p < npix data)%nat -> pix_masked data err umask p = false -> dval data p = c) ->
  nth_error apers i = Some a -> aw a = Some w ->
  exists f ar, nth_error (cog_profile S ph) i = Some (Some f) /\
               nth_error (cog_area S ph) i = Some (Some ar) /\ (f == inject_Z c * ar)%Q.
Proof.
  intros Hc Ha Hw. destruct (cog_aperture_sum i a Ha) as (Hp & Har & _). rewrite Hw in Hp, Har.
  cbn [option_map] in Hp, Har.
  exists (zq S (US w (dval data))), (zq S (US w (fun _ => 1))). split; [exact Hp|split; [exact Har|]].
  unfold US. rewrite (usum_const data err umask w (dval data) c Hc). unfold zq.
  rewrite inject_Z_mult. unfold Qdiv. ring.
Qed.

(* non-negative data and weights monotone in the radius: non-decreasing curve of growth *)
Lemma cog_monotone i j a b wa wb :
  0 < S ->
  (forall p, (p < npix data)%nat -> pix_masked data err umask p = false -> 0 <= dval data p) ->
  nth_error apers i = Some a -> nth_error apers j = Some b ->
  aw a = Some wa -> aw b = Some wb -> (forall p, wa p <= wb p) ->
  exists x y, nth_error (cog_profile S ph) i = Some (Some x) /\
              nth_error (cog_profile S ph) j = Some (Some y) /\ (x <= y)%Q.
Proof.
  intros HS Hd Ha Hb Hwa Hwb Hle.
  destruct (cog_aperture_sum i a Ha) as (Hpa & _). destruct (cog_aperture_sum j b Hb) as (Hpb & _).
  rewrite Hwa in Hpa. rewrite Hwb in Hpb. cbn [option_map] in *.
  exists (zq S (US wa (dval data))), (zq S (US wb (dval data))). split; [exact Hpa|split; [exact Hpb|]].
  unfold zq, US. pose proof (usum_le data err umask wa wb (dval data) Hd Hle) as Hl.
  unfold Qdiv. apply Qmult_le_compat_r.
  - rewrite <- Zle_Qle. exact Hl.
  - apply Qinv_le_0_compat. replace 0%Q with (inject_Z 0) by reflexivity. rewrite <- Zle_Qle. lia.
Qed.
End Profiles.

(* ====================================================================================== *)
(* Part 4 — normalize / unnormalize: invariant over arbitrary histories                    *)
(* ====================================================================================== *)
Definition veq (a b : val) : Prop :=
  match a, b with Some x, Some y => (x == y)%Q | None, None => True | _, _ => False end.
Definition eeq (a b : eval) : Prop :=
  match a, b with
  | Some (c, v), Some (c', v') => (c == c')%Q /\ (v == v')%Q
  | None, None => True
  | _, _ => False
  end.
Definition lveq := Forall2 veq.
Definition leeq := Forall2 eeq.

Lemma Forall2_map_both {A B A' B'} (R : A -> B -> Prop) (R' : A' -> B' -> Prop)
      (f : A -> A') (g : B -> B') a b :
  Forall2 R a b -> (forall x y, R x y -> R' (f x) (g y)) -> Forall2 R' (map f a) (map g b).
Proof. induction 1; intros H'; cbn; constructor; auto. Qed.

Lemma F2_step {X Y} (R : X -> X -> Prop) (f : X -> X) (g g' : Y -> X) a r :
  Forall2 R a (map g r) -> (forall x y, R x (g y) -> R (f x) (g' y)) ->
  Forall2 R (map f a) (map g' r).
Proof.
  intros H Hs. revert a H. induction r as [|y r IH]; intros a H; inversion H; subst; cbn; constructor; auto.
Qed.

Lemma F2_unmap {X Y Z'} (R : X -> Y -> Prop) (R' : X -> Z' -> Prop) (g : Z' -> Y) a r :
  Forall2 R a (map g r) -> (forall x y, R x (g y) -> R' x y) -> Forall2 R' a r.
Proof.
  intros H Hs. revert a H. induction r as [|y r IH]; intros a H; inversion H; subst; constructor; auto.
Qed.

Lemma Forall2_refl_map {A B} (R : A -> B -> Prop) (g : A -> B) a :
  (forall x, R x (g x)) -> Forall2 R a (map g a).
Proof. intros H. induction a; cbn; constructor; auto. Qed.

Lemma Qeq_bool_false_neq q : Qeq_bool q 0 = false -> ~ (q == 0)%Q.
Proof. intros H E. apply Qeq_bool_iff in E. congruence. Qed.
Lemma Qneq_eq_bool q : ~ (q == 0)%Q -> Qeq_bool q 0 = false.
Proof. intros H. destruct (Qeq_bool q 0) eqn:E; auto. apply Qeq_bool_iff in E. contradiction. Qed.

(* x ~ r/q  ==>  x/n ~ r/(q*n) *)
Lemma vdiv_step q n x r :
  ~ (q == 0)%Q -> ~ (n == 0)%Q ->
  veq x (vdiv (Some q) r) -> veq (vdiv (Some n) x) (vdiv (Some (q * n)%Q) r).
Proof.
  intros Hq Hn H. unfold vdiv in *. rewrite (Qneq_eq_bool q Hq) in H. rewrite (Qneq_eq_bool n Hn).
  assert (Hqn : ~ (q * n == 0)%Q) by (intros E; apply Qmult_integral in E; tauto).
  rewrite (Qneq_eq_bool _ Hqn).
  destruct x as [x|], r as [r|]; cbn in *; try tauto. rewrite ?Qred_correct in *. rewrite H. field. auto.
Qed.
Lemma ediv_step q n x r :
  ~ (q == 0)%Q -> ~ (n == 0)%Q ->
  eeq x (ediv (Some q) r) -> eeq (ediv (Some n) x) (ediv (Some (q * n)%Q) r).
Proof.
  intros Hq Hn H. unfold ediv in *. rewrite (Qneq_eq_bool q Hq) in H. rewrite (Qneq_eq_bool n Hn).
  assert (Hqn : ~ (q * n == 0)%Q) by (intros E; apply Qmult_integral in E; tauto).
  rewrite (Qneq_eq_bool _ Hqn).
  destruct x as [[c v]|], r as [[c' v']|]; cbn in *; try tauto. destruct H as [H1 H2]. rewrite ?Qred_correct in *. 
  split; [rewrite H1; field; auto|exact H2].
Qed.
(* x ~ r/q, nv ~ q  ==>  x*nv ~ r/1 *)
Lemma vmul_back q nv0 x r :
  ~ (q == 0)%Q -> veq nv0 (Some q) ->
  veq x (vdiv (Some q) r) -> veq (vmul nv0 x) (vdiv (Some 1%Q) r).
Proof.
  intros Hq Hnv H. unfold vdiv, vmul in *. rewrite (Qneq_eq_bool q Hq) in H.
  destruct nv0 as [n|]; [|contradiction]. cbn in Hnv.
  destruct x as [x|], r as [r|]; cbn in *; try tauto. rewrite ?Qred_correct in *. rewrite H, Hnv. field. auto.
Qed.
Lemma emul_back q nv0 x r :
  ~ (q == 0)%Q -> veq nv0 (Some q) ->
  eeq x (ediv (Some q) r) -> eeq (emul nv0 x) (ediv (Some 1%Q) r).
Proof.
  intros Hq Hnv H. unfold ediv, emul in *. rewrite (Qneq_eq_bool q Hq) in H.
  destruct nv0 as [n|]; [|contradiction]. cbn in Hnv.
  destruct x as [[c v]|], r as [[c' v']|]; cbn in *; try tauto. destruct H as [H1 H2]. rewrite ?Qred_correct in *. 
  split; [rewrite H1, Hnv; field; auto|exact H2].
Qed.
Lemma vdiv_one r : veq r (vdiv (Some 1%Q) r).
Proof. destruct r as [r|]; cbn; auto. rewrite Qred_correct. field. Qed.
Lemma ediv_one r : eeq r (ediv (Some 1%Q) r).
Proof. destruct r as [[c v]|]; cbn; auto. rewrite Qred_correct. split; [field|reflexivity]. Qed.

Lemma vdiv_cong n q r : ~ (q == 0)%Q -> veq n (Some q) -> veq (vdiv n r) (vdiv (Some q) r).
Proof.
  intros Hq Hn. destruct n as [n|]; [|contradiction]. cbn in Hn. unfold vdiv.
  assert (Hn0 : ~ (n == 0)%Q) by (rewrite Hn; exact Hq).
  rewrite (Qneq_eq_bool n Hn0), (Qneq_eq_bool q Hq). destruct r as [r|]; cbn; auto. rewrite !Qred_correct, Hn. reflexivity.
Qed.

Section MachineProofs.
Variable raw_p : list val.
Variable raw_e : list eval.
Variable raw_d : option (list val).
Let rawd : list val := rawd_of raw_d.
Notation GP := (get_p raw_p).
Notation GE := (get_e raw_e).
Notation GD := (get_d fixed raw_d).
Notation STEP := (step fixed raw_p raw_e raw_d).
Notation RUN := (run fixed raw_p raw_e raw_d).

(* every array, cached or not, is the fresh array divided by the same non-zero number, and that
   number is normalization_value *)
Definition scaled (q : Q) (st : state) : Prop :=
  ~ (q == 0)%Q /\ veq (nv st) (Some q) /\
  lveq (GP st) (map (vdiv (Some q)) raw_p) /\
  leeq (GE st) (map (ediv (Some q)) raw_e) /\
  lveq (GD st) (map (vdiv (Some q)) rawd) /\
  (raw_d = None -> c_dp st = None).
Definition Inv (st : state) : Prop := exists q, scaled q st.

(* in the repaired code data_profile is computed from normalization_value at every read *)
Lemma gd_scaled q st : ~ (q == 0)%Q -> veq (nv st) (Some q) -> lveq (GD st) (map (vdiv (Some q)) rawd).
Proof.
  intros Hq Hnv. unfold get_d. cbn [fix_dp fixed]. fold rawd.
  induction rawd as [|r l IH]; cbn [map]; constructor; [apply vdiv_cong; assumption|exact IH].
Qed.

Lemma inv_init : scaled 1%Q init.
Proof.
  assert (H1 : ~ (1 == 0)%Q) by (intros E; discriminate E).
  unfold scaled. split; [exact H1|]. split; [cbn; reflexivity|].
  split; [apply Forall2_refl_map, vdiv_one|]. split; [apply Forall2_refl_map, ediv_one|].
  split; [apply gd_scaled; [exact H1|cbn; reflexivity]|auto].
Qed.

Lemma rescale_gets fv fe nv' st :
  let st' := rescale fixed raw_p raw_e raw_d fv fe nv' st in
  nv st' = nv' /\ GP st' = map fv (GP st) /\ GE st' = map fe (GE st) /\ c_dp st' = c_dp st.
Proof. unfold rescale, get_p, get_e; cbn. auto. Qed.

Lemma scaled_cache_p q st : scaled q st -> scaled q (cache_p raw_p st).
Proof. intros H. exact H. Qed.

(* the rescaling step shared by normalize and unnormalize *)
Lemma scaled_rescale q q' fv fe nv' st :
  scaled q st -> ~ (q' == 0)%Q -> veq nv' (Some q') ->
  (forall x y, veq x (vdiv (Some q) y) -> veq (fv x) (vdiv (Some q') y)) ->
  (forall x y, eeq x (ediv (Some q) y) -> eeq (fe x) (ediv (Some q') y)) ->
  scaled q' (rescale fixed raw_p raw_e raw_d fv fe nv' st).
Proof.
  intros (Hq & Hnv & Hp & He & Hd & Hc) Hq' Hnv' Hfv Hfe.
  destruct (rescale_gets fv fe nv' st) as (E1 & E2 & E3 & E4). cbv zeta in *.
  unfold scaled. rewrite E2, E3, E4.
  split; [exact Hq'|]. split; [rewrite E1; exact Hnv'|].
  split; [apply (F2_step veq fv (vdiv (Some q)) (vdiv (Some q')) _ _ Hp Hfv)|].
  split; [apply (F2_step eeq fe (ediv (Some q)) (ediv (Some q')) _ _ He Hfe)|].
  split; [apply gd_scaled; [exact Hq'|rewrite E1; exact Hnv']|exact Hc].
Qed.

Lemma scaled_normalize q m st : scaled q st -> exists q', scaled q' (normalize fixed raw_p raw_e raw_d m st).
Proof.
  intros H. unfold normalize. cbn [fix_nonfinite fixed].
  set (n := match m with NMax => nanmax (GP st) | NSum => nansum (GP st) end).
  destruct n as [n0|]; [|exists q; exact H].
  destruct (Qeq_bool n0 0) eqn:E; [exists q; exact H|].
  apply Qeq_bool_false_neq in E. exists (q * n0)%Q.
  pose proof H as (Hq & Hnv & _).
  apply (scaled_rescale q (q * n0)%Q); auto.
  - intros E'. apply Qmult_integral in E'. tauto.
  - change (nv (cache_p raw_p st)) with (nv st). destruct (nv st) as [x|]; cbn in *; [|contradiction].
    rewrite Qred_correct, Hnv. reflexivity.
  - intros x y. apply vdiv_step; auto.
  - intros x y. apply ediv_step; auto.
Qed.

Lemma scaled_unnormalize q st : scaled q st -> scaled 1%Q (unnormalize fixed raw_p raw_e raw_d st).
Proof.
  intros H. pose proof H as (Hq & Hnv & _). unfold unnormalize.
  apply (scaled_rescale q 1%Q); auto.
  - intros E. discriminate E.
  - cbn. reflexivity.
  - intros x y. apply (vmul_back q); auto.
  - intros x y. apply (emul_back q); auto.
Qed.

Lemma scaled_read_dp q st : scaled q st -> scaled q (fst (STEP (ORead ADp) st)).
Proof.
  intros H. replace (fst (STEP (ORead ADp) st)) with st; [exact H|].
  clear H. cbn [step fix_dp fixed]. destruct raw_d; reflexivity.
Qed.

Lemma scaled_step o q st : scaled q st -> exists q', scaled q' (fst (STEP o st)).
Proof.
  intros H. destruct o as [m| |[| |]| |]; cbn [step fst].
  - apply (scaled_normalize q); exact H.
  - exists 1%Q. apply (scaled_unnormalize q); exact H.
  - exists q. exact H.
  - exists q. exact H.
  - exists q. apply scaled_read_dp. exact H.
  - exists q. exact H.
  - exists q. exact H.
Qed.

Lemma run_fst_app ops1 ops2 st :
  fst (RUN (ops1 ++ ops2) st) = fst (RUN ops2 (fst (RUN ops1 st))).
Proof.
  revert st. induction ops1 as [|o r IH]; intros st; cbn [app run]; [reflexivity|].
  destruct (STEP o st) as [st1 ob] eqn:E1. specialize (IH st1).
  destruct (RUN (r ++ ops2) st1) as [st2 obs] eqn:E2. destruct (RUN r st1) as [st3 obs3] eqn:E3.
  cbn [fst] in *. exact IH.
Qed.

Lemma inv_run ops st : Inv st -> Inv (fst (RUN ops st)).
Proof.
  revert st. induction ops as [|o r IH]; intros st H; cbn [run]; [exact H|].
  destruct (STEP o st) as [st1 ob] eqn:E1. destruct (RUN r st1) as [st2 obs] eqn:E2. cbn [fst].
  destruct H as [q H]. destruct (scaled_step o q st H) as [q' H']. rewrite E1 in H'. cbn [fst] in H'.
  specialize (IH st1 (ex_intro _ q' H')). rewrite E2 in IH. exact IH.
Qed.

(* what a read returns (the observation of [ORead a]) *)
Definition read_after (ops : list op) (a : arr) : obs := snd (STEP (ORead a) (fst (RUN ops init))).
Definition obs_eq (x y : obs) : Prop :=
  match x, y with
  | OP a, OP b => lveq a b
  | OE a, OE b => leeq a b
  | ONone, ONone => True
  | _, _ => False
  end.
(* the fresh array divided by q *)
Definition fresh_over (q : Q) (a : arr) : obs :=
  match a with
  | AProf => OP (map (vdiv (Some q)) raw_p)
  | APerr => OE (map (ediv (Some q)) raw_e)
  | ADp => match raw_d with Some d => OP (map (vdiv (Some q)) d) | None => ONone end
  end.
Definition fresh (a : arr) : obs :=
  match a with
  | AProf => OP raw_p
  | APerr => OE raw_e
  | ADp => match raw_d with Some d => OP d | None => ONone end
  end.

Lemma read_scaled q st a : scaled q st -> obs_eq (snd (STEP (ORead a) st)) (fresh_over q a).
Proof.
  intros (Hq & Hnv & Hp & He & Hd & Hc). destruct a; cbn [step snd fresh_over obs_eq]; auto.
  unfold rawd in Hd. destruct raw_d; cbn [snd obs_eq]; auto.
Qed.

(* after ANY history every array read is the fresh array over one common non-zero number,
   which is normalization_value: no dependence on when an array was first read *)
Lemma reads_consistent ops :
  exists q, ~ (q == 0)%Q /\ veq (nv (fst (RUN ops init))) (Some q) /\
            forall a, obs_eq (read_after ops a) (fresh_over q a).
Proof.
  destruct (inv_run ops init (ex_intro _ 1%Q inv_init)) as [q H].
  exists q. pose proof H as (Hq & Hnv & _). split; [exact Hq|]. split; [exact Hnv|].
  intros a. apply read_scaled. exact H.
Qed.

(* after ANY history both encircled-energy methods work on the CURRENT profile, i.e. the fresh
   profile over normalization_value: no interpolator state survives a normalisation change *)
Lemma interpolators_see_current_profile ops :
  exists q p, ~ (q == 0)%Q /\ veq (nv (fst (RUN ops init))) (Some q) /\
              lveq p (map (vdiv (Some q)) raw_p) /\
              snd (STEP ORi (fst (RUN ops init))) = ORc p /\
              (snd (STEP OEe (fst (RUN ops init))) = OI p \/ 
               (snd (STEP OEe (fst (RUN ops init))) = OErr /\ all_some p = None)).
Proof.
  destruct (inv_run ops init (ex_intro _ 1%Q inv_init)) as [q H].
  set (st := fst (RUN ops init)) in *. exists q, (GP st).
  destruct H as (Hq & Hnv & Hp & _). split; [exact Hq|]. split; [exact Hnv|]. split; [exact Hp|].
  split; [reflexivity|]. cbn [step snd]. destruct (all_some (GP st)); [left; reflexivity|right; auto].
Qed.

Lemma fresh_over_one a : obs_eq (fresh a) (fresh_over 1%Q a).
Proof.
  destruct a; cbn; [apply Forall2_refl_map, vdiv_one|apply Forall2_refl_map, ediv_one|].
  destruct raw_d; cbn; [apply Forall2_refl_map, vdiv_one|exact I].
Qed.

(* reads: array reads and calls of the two encircled-energy methods *)
Definition is_read (o : op) : Prop := match o with ORead _ | OEe | ORi => True | _ => False end.

Lemma scaled_reads q rs st : Forall is_read rs -> scaled q st -> scaled q (fst (RUN rs st)).
Proof.
  intros Hr. revert st. induction Hr as [|o r Ho Hr IH]; intros st H; cbn [run]; [exact H|].
  destruct (STEP o st) as [st1 ob] eqn:E1. destruct (RUN r st1) as [st2 obs] eqn:E2. cbn [fst].
  assert (H1 : scaled q st1).
  { destruct o as [m| |a| |]; try contradiction.
    - replace st1 with (fst (STEP (ORead a) st)) by (rewrite E1; reflexivity).
      destruct a; [exact H|exact H|apply scaled_read_dp; exact H].
    - replace st1 with (fst (STEP OEe st)) by (rewrite E1; reflexivity). exact H.
    - replace st1 with (fst (STEP ORi st)) by (rewrite E1; reflexivity). exact H. }
  specialize (IH st1 H1). rewrite E2 in IH. exact IH.
Qed.

Lemma vdiv_one_inv x r : veq x (vdiv (Some 1%Q) r) -> veq x r.
Proof. destruct x as [x|], r as [r|]; cbn; auto. intros ->. rewrite Qred_correct. field. Qed.
Lemma ediv_one_inv x r : eeq x (ediv (Some 1%Q) r) -> eeq x r.
Proof.
  destruct x as [[c v]|], r as [[c' v']|]; cbn; auto. intros [-> ->]. rewrite Qred_correct. split; [field|reflexivity].
Qed.

Lemma read_fresh st a : scaled 1%Q st -> obs_eq (snd (STEP (ORead a) st)) (fresh a).
Proof.
  intros (Hq & Hnv & Hp & He & Hd & Hc). destruct a; cbn [step snd fresh obs_eq].
  - exact (F2_unmap _ veq _ _ _ Hp vdiv_one_inv).
  - exact (F2_unmap _ eeq _ _ _ He ediv_one_inv).
  - unfold rawd in Hd. destruct raw_d; cbn [snd obs_eq]; auto.
    exact (F2_unmap _ veq _ _ _ Hd vdiv_one_inv).
Qed.

(* after ANY history, unnormalize (followed by any reads) leaves normalization_value = 1 and
   every array equal to the fresh one *)
Lemma unnormalize_restores ops rs a :
  Forall is_read rs ->
  veq (nv (fst (RUN (ops ++ OUnnorm :: rs) init))) (Some 1%Q) /\
  obs_eq (read_after (ops ++ OUnnorm :: rs) a) (fresh a).
Proof.
  intros Hr. unfold read_after. rewrite run_fst_app.
  destruct (inv_run ops init (ex_intro _ 1%Q inv_init)) as [q H].
  set (st := fst (RUN ops init)) in *.
  assert (H1 : scaled 1%Q (fst (RUN (OUnnorm :: rs) st))).
  { cbn [run step]. destruct (RUN rs (unnormalize fixed raw_p raw_e raw_d st)) as [st2 obs] eqn:E2. cbn [fst].
    pose proof (scaled_reads 1%Q rs _ Hr (scaled_unnormalize q st H)) as H2. rewrite E2 in H2. exact H2. }
  split; [destruct H1 as (_ & Hnv & _); exact Hnv|apply read_fresh; exact H1].
Qed.

Lemma normalize_unnormalize_restores ops m rs1 rs2 a :
  Forall is_read rs1 -> Forall is_read rs2 ->
  veq (nv (fst (RUN (ops ++ ONorm m :: rs1 ++ OUnnorm :: rs2) init))) (Some 1%Q) /\
  obs_eq (read_after (ops ++ ONorm m :: rs1 ++ OUnnorm :: rs2) a) (fresh a).
Proof.
  intros _ H2.
  replace (ops ++ ONorm m :: rs1 ++ OUnnorm :: rs2) with ((ops ++ ONorm m :: rs1) ++ OUnnorm :: rs2)
    by (rewrite <- app_assoc; reflexivity).
  apply unnormalize_restores. exact H2.
Qed.
End MachineProofs.

(* /repo HEAD (variant [head]) violates both: data_profile first read between normalize and
   unnormalize; and an all-NaN profile turns data_profile into NaN *)
Lemma head_data_profile_not_restored :
  get_d head (Some [Some 3%Q])
        (fst (run head [Some 2%Q] [] (Some [Some 3%Q]) [ONorm NMax; ORead ADp; OUnnorm] init))
  = [Some (6 # 1)%Q].
Proof. vm_compute. reflexivity. Qed.
Lemma head_nonfinite_normalization :
  get_d head (Some [Some 3%Q])
        (fst (run head [None] [] (Some [Some 3%Q]) [ORead ADp; ONorm NMax; OUnnorm] init))
  = [None].
Proof. vm_compute. reflexivity. Qed.

(* ====================================================================================== *)
(* Part 5 — encircled-energy interpolators                                                 *)
(* ====================================================================================== *)
Local Open Scope nat_scope.
Definition strictly_inc (l : list Q) : Prop :=
  forall i, S i < length l -> (nth i l 0 < nth (S i) l 0)%Q.

Lemma Qle_bool_false_lt x y : Qle_bool y x = false -> (x < y)%Q.
Proof.
  intros H. apply Qnot_le_lt. intros E. apply Qle_bool_iff in E. congruence.
Qed.

Lemma all_some_map ys : all_some (map Some ys) = Some ys.
Proof. induction ys as [|y r IH]; cbn; [reflexivity|]. rewrite IH. reflexivity. Qed.

Lemma first_nonmono_cons2 a b r :
  first_nonmono (a :: b :: r) = if nonincr a b then Some 0 else option_map S (first_nonmono (b :: r)).
Proof. reflexivity. Qed.

Lemma first_nonmono_spec ys :
  match first_nonmono (map Some ys) with
  | Some i => S i < length ys /\ (forall j, j < i -> (nth j ys 0 < nth (S j) ys 0)%Q) /\
              (nth (S i) ys 0 <= nth i ys 0)%Q
  | None => forall j, S j < length ys -> (nth j ys 0 < nth (S j) ys 0)%Q
  end.
Proof.
  induction ys as [|a ys IH]; [cbn; intros; lia|].
  destruct ys as [|b r]; [cbn; intros; lia|].
  cbn [map]. rewrite first_nonmono_cons2. cbn [nonincr]. cbn [map] in IH. unfold val in *.
  destruct (Qle_bool b a) eqn:E.
  - split; [cbn; lia|]. split; [intros j Hj; lia|]. cbn. apply Qle_bool_iff. exact E.
  - apply Qle_bool_false_lt in E.
    destruct (first_nonmono (Some b :: map Some r)) as [i|]; cbn [option_map].
    + destruct IH as (H1 & H2 & H3). split; [cbn in *; lia|]. split; [|exact H3].
      intros [|j] Hj; [exact E|]. apply (H2 j). lia.
    + intros [|j] Hj; [exact E|]. apply (IH j). cbn in *. lia.
Qed.

Lemma nth_firstn_lt {A} (l : list A) k i d : i < k -> nth i (firstn k l) d = nth i l d.
Proof.
  revert k i. induction l as [|x l IH]; intros [|k] [|i] H; cbn; auto; try lia. apply IH. lia.
Qed.

Lemma firstn_map_some k (ys : list Q) : firstn k (map Some ys) = map Some (firstn k ys).
Proof. apply firstn_map. Qed.

(* the prefix kept by the (repaired) code is exactly the maximal strictly increasing prefix *)
Lemma prefix_len_spec ys :
  let k := prefix_len fixed (map Some ys) in
  k <= length ys /\ (1 <= length ys -> 1 <= k) /\
  strictly_inc (firstn k ys) /\
  (k < length ys -> 1 <= k /\ (nth k ys 0 <= nth (k - 1) ys 0)%Q).
Proof.
  unfold prefix_len. cbn [fix_prefix fixed]. pose proof (first_nonmono_spec ys) as H.
  destruct (first_nonmono (map Some ys)) as [i|].
  - destruct H as (H1 & H2 & H3). cbv zeta. split; [lia|]. split; [lia|]. split.
    + intros j Hj. rewrite firstn_length in Hj.
      rewrite !nth_firstn_lt by lia. apply H2. lia.
    + intros _. split; [lia|]. replace (S i - 1) with i by lia. exact H3.
  - cbv zeta. rewrite map_length. split; [lia|]. split; [lia|]. split; [|lia].
    rewrite firstn_all. exact H.
Qed.

(* at HEAD the prefix is one point shorter whenever the curve has a non-monotone tail *)
Lemma prefix_len_head ys :
  prefix_len fixed (map Some ys) < length ys ->
  S (prefix_len head (map Some ys)) = prefix_len fixed (map Some ys).
Proof.
  unfold prefix_len. cbn [fix_prefix fixed head]. rewrite map_length.
  destruct (first_nonmono (map Some ys)); [reflexivity|lia].
Qed.

Section EEProofs.
Variable pchip : list Q -> list Q -> Q -> val.
(* the only thing assumed of PchipInterpolator: it interpolates its knots *)
Hypothesis pchip_knots : forall xs ys i x,
  strictly_inc xs -> length xs = length ys -> i < length xs -> (x == nth i xs 0)%Q ->
  veq (pchip xs ys x) (Some (nth i ys 0%Q)).

Variables (radius ys : list Q).
Hypothesis Hrad : strictly_inc radius.
Hypothesis Hlen : length radius = length ys.
Let profile := map Some ys.
Let k := prefix_len fixed profile.

Lemma ee_at_radius_knot i r :
  i < length radius -> (r == nth i radius 0)%Q ->
  exists v, calc_ee_at_radius pchip radius profile r = EVal v /\ veq v (Some (nth i ys 0%Q)).
Proof.
  intros Hi Hr. unfold calc_ee_at_radius, profile. rewrite all_some_map.
  eexists. split; [reflexivity|]. apply pchip_knots; auto.
Qed.

Lemma radius_at_ee_knot i e :
  2 <= k -> i < k -> (e == nth i ys 0)%Q ->
  exists v, calc_radius_at_ee pchip fixed radius profile e = EVal v /\ veq v (Some (nth i radius 0%Q)).
Proof.
  intros Hk Hi He. unfold calc_radius_at_ee. fold k.
  destruct (Nat.ltb_spec k 2) as [Hlt|_]; [lia|].
  unfold profile. rewrite firstn_map_some, all_some_map.
  destruct (prefix_len_spec ys) as (Hle & _ & Hinc & _). fold profile in Hle, Hinc. fold k in Hle, Hinc.
  eexists. split; [reflexivity|].
  assert (Hl : length (firstn k ys) = k) by (rewrite firstn_length; lia).
  pose proof (pchip_knots (firstn k ys) (firstn k radius) i e Hinc) as H.
  rewrite (nth_firstn_lt radius k i 0%Q Hi) in H. apply H.
  - rewrite !firstn_length. lia.
  - lia.
  - rewrite nth_firstn_lt by lia. exact He.
Qed.

(* the two interpolators invert each other at every sampled radius of the monotone part *)
Lemma ee_inverse i :
  2 <= k -> i < k ->
  (forall e, calc_ee_at_radius pchip radius profile (nth i radius 0%Q) = EVal (Some e) ->
     exists v, calc_radius_at_ee pchip fixed radius profile e = EVal v /\ veq v (Some (nth i radius 0%Q))) /\
  (forall r, calc_radius_at_ee pchip fixed radius profile (nth i ys 0%Q) = EVal (Some r) ->
     exists v, calc_ee_at_radius pchip radius profile r = EVal v /\ veq v (Some (nth i ys 0%Q))) /\
  (exists e, calc_ee_at_radius pchip radius profile (nth i radius 0%Q) = EVal (Some e)) /\
  (exists r, calc_radius_at_ee pchip fixed radius profile (nth i ys 0%Q) = EVal (Some r)).
Proof.
  intros Hk Hi.
  destruct (prefix_len_spec ys) as (Hle & _). fold profile in Hle. fold k in Hle.
  assert (Hir : i < length radius) by lia.
  split; [|split; [|split]].
  - intros e He. destruct (ee_at_radius_knot i (nth i radius 0%Q) Hir (Qeq_refl _)) as (v & Hv & Hveq).
    rewrite Hv in He. injection He as ->. cbn in Hveq. apply radius_at_ee_knot; auto.
  - intros r Hr. destruct (radius_at_ee_knot i (nth i ys 0%Q) Hk Hi (Qeq_refl _)) as (v & Hv & Hveq).
    rewrite Hv in Hr. injection Hr as ->. cbn in Hveq. apply ee_at_radius_knot; auto.
  - destruct (ee_at_radius_knot i (nth i radius 0%Q) Hir (Qeq_refl _)) as (v & Hv & Hveq).
    destruct v as [e|]; [|contradiction]. eauto.
  - destruct (radius_at_ee_knot i (nth i ys 0%Q) Hk Hi (Qeq_refl _)) as (v & Hv & Hveq).
    destruct v as [r|]; [|contradiction]. eauto.
Qed.
End EEProofs.
Local Close Scope nat_scope.

(* ====================================================================================== *)
(* Part 6 — re-indexing of the pixels (integer translation, change of frame)               *)
(* ====================================================================================== *)
Lemma NoDup_map_on {A B} (f : A -> B) l :
  (forall x y, In x l -> In y l -> f x = f y -> x = y) -> NoDup l -> NoDup (map f l).
Proof.
  intros Hinj Hnd. induction Hnd as [|x l Hx Hnd IH]; cbn; constructor.
  - intros Hin. apply in_map_iff in Hin. destruct Hin as (y & Hy & Hyl).
    assert (y = x) by (apply Hinj; cbn; auto). subst. contradiction.
  - apply IH. intros a b Ha Hb. apply Hinj; cbn; auto.
Qed.

Lemma wsum_nz N (g : nat -> Z) :
  wsum N g = zsuml (map g (filter (fun p => negb (g p =? 0)) (seq 0 N))).
Proof.
  unfold wsum. rewrite zsuml_filter. apply zsuml_ext. intros p _.
  destruct (g p =? 0) eqn:E; cbn; lia.
Qed.

Lemma wsum_reindex N N' (g g' : nat -> Z) (sigma : nat -> nat) :
  (forall p, (p < N)%nat -> g p <> 0 -> (sigma p < N')%nat /\ g' (sigma p) = g p) ->
  (forall p q, (p < N)%nat -> (q < N)%nat -> g p <> 0 -> g q <> 0 -> sigma p = sigma q -> p = q) ->
  (forall p', (p' < N')%nat -> g' p' <> 0 -> exists p, (p < N)%nat /\ g p <> 0 /\ sigma p = p') ->
  wsum N g = wsum N' g'.
Proof.
  intros H1 H2 H3. rewrite (wsum_nz N g), (wsum_nz N' g').
  set (L := filter (fun p => negb (g p =? 0)) (seq 0 N)).
  set (L' := filter (fun p => negb (g' p =? 0)) (seq 0 N')).
  assert (HL : forall p, In p L <-> (p < N)%nat /\ g p <> 0).
  { intros p. unfold L. rewrite filter_In, in_seq. destruct (g p =? 0) eqn:E; cbn; split; intros [? ?]; split; try lia; congruence. }
  assert (HL' : forall p, In p L' <-> (p < N')%nat /\ g' p <> 0).
  { intros p. unfold L'. rewrite filter_In, in_seq. destruct (g' p =? 0) eqn:E; cbn; split; intros [? ?]; split; try lia; congruence. }
  assert (Hperm : Permutation (map sigma L) L').
  { apply NoDup_Permutation.
    - apply NoDup_map_on; [|apply NoDup_filter, seq_NoDup].
      intros x y Hx Hy. apply HL in Hx, Hy. destruct Hx, Hy. apply H2; auto.
    - apply NoDup_filter, seq_NoDup.
    - intros x. rewrite in_map_iff. split.
      + intros (p & <- & Hp). apply HL in Hp. destruct Hp as [Hp Hg]. apply HL'.
        destruct (H1 p Hp Hg) as [Hs He]. split; [exact Hs|]. rewrite He. exact Hg.
      + intros Hx. apply HL' in Hx. destruct Hx as [Hx Hg]. destruct (H3 x Hx Hg) as (p & Hp & Hgp & Hs).
        exists p. split; [exact Hs|]. apply HL. auto. }
  rewrite <- (zsuml_perm _ _ (Permutation_map g' Hperm)), map_map.
  apply zsuml_ext. intros p Hp. apply HL in Hp. destruct Hp as [Hp Hg].
  destruct (H1 p Hp Hg) as [_ He]. symmetry. exact He.
Qed.

(* frame 2 shows the same unmasked, weighted pixels as frame 1 under the index map sigma *)
Definition reindexes (sigma : nat -> nat)
           data err umask (w : list Z) data' err' umask' (w' : list Z) : Prop :=
  (forall p, (p < npix data)%nat -> pix_masked data err umask p = false -> wt w p <> 0 ->
     (sigma p < npix data')%nat /\ pix_masked data' err' umask' (sigma p) = false /\
     wt w' (sigma p) = wt w p /\ dval data' (sigma p) = dval data p /\ esq err' (sigma p) = esq err p) /\
  (forall p q, (p < npix data)%nat -> (q < npix data)%nat ->
     pix_masked data err umask p = false -> pix_masked data err umask q = false ->
     wt w p <> 0 -> wt w q <> 0 -> sigma p = sigma q -> p = q) /\
  (forall p', (p' < npix data')%nat -> pix_masked data' err' umask' p' = false -> wt w' p' <> 0 ->
     exists p, (p < npix data)%nat /\ pix_masked data err umask p = false /\ wt w p <> 0 /\ sigma p = p').

Lemma usum_reindex sigma data err umask w data' err' umask' w' (f f' : nat -> Z) :
  reindexes sigma data err umask w data' err' umask' w' ->
  (forall p, (p < npix data)%nat -> pix_masked data err umask p = false -> wt w p <> 0 ->
             f' (sigma p) = f p) ->
  usum data err umask (wt w) f = usum data' err' umask' (wt w') f'.
Proof.
  intros (H1 & H2 & H3) Hf. unfold usum, unmasked_sum. apply (wsum_reindex _ _ _ _ sigma).
  - intros p Hp Hg. destruct (pix_masked data err umask p) eqn:Em; [congruence|].
    assert (Hw : wt w p <> 0) by (intros E; rewrite E in Hg; lia).
    destruct (H1 p Hp Em Hw) as (Hs & Hm' & Hw' & _). split; [exact Hs|].
    rewrite Hm', Hw', (Hf p Hp Em Hw). reflexivity.
  - intros p q Hp Hq Hgp Hgq.
    destruct (pix_masked data err umask p) eqn:Emp; [congruence|].
    destruct (pix_masked data err umask q) eqn:Emq; [congruence|].
    apply H2; auto; intros E; [rewrite E in Hgp|rewrite E in Hgq]; lia.
  - intros p' Hp' Hg'. destruct (pix_masked data' err' umask' p') eqn:Em'; [congruence|].
    assert (Hw' : wt w' p' <> 0) by (intros E; rewrite E in Hg'; lia).
    destruct (H3 p' Hp' Em' Hw') as (p & Hp & Em & Hw & Hs). exists p. split; [exact Hp|]. split; [|exact Hs].
    destruct (H1 p Hp Em Hw) as (_ & _ & Hww & _). rewrite Em. subst p'.
    rewrite (Hf p Hp Em Hw) in Hg'. rewrite Hww in Hg'. exact Hg'.
Qed.

Definition aper_reindexes sigma data err umask data' err' umask' (a a' : aper) : Prop :=
  match a, a' with
  | AZero, AZero => True
  | AOff, AOff => True
  | AW w, AW w' => reindexes sigma data err umask w data' err' umask' w'
  | _, _ => False
  end.

Lemma photometry_reindex sigma data err umask apers data' err' umask' apers' :
  wf data err umask apers -> wf data' err' umask' apers' ->
  Forall2 (aper_reindexes sigma data err umask data' err' umask') apers apers' ->
  photometry data err umask apers = photometry data' err' umask' apers'.
Proof.
  intros Hwf Hwf' HF. rewrite (photometry_spec _ _ _ _ Hwf), (photometry_spec _ _ _ _ Hwf').
  clear Hwf Hwf'. induction HF as [|a a' l l' Ha HF IH]; cbn [map]; [reflexivity|]. f_equal; [|exact IH].
  destruct a as [| |w], a' as [| |w']; cbn in Ha; try contradiction; try reflexivity.
  { unfold spec_phot. cbn [aw]. rewrite !usum_zero. reflexivity. }
  unfold spec_phot. cbn [aw].
  pose proof Ha as (H1 & _).
  rewrite (usum_reindex sigma data err umask w data' err' umask' w' (dval data) (dval data') Ha),
          (usum_reindex sigma data err umask w data' err' umask' w' (esq err) (esq err') Ha),
          (usum_reindex sigma data err umask w data' err' umask' w' (fun _ => 1) (fun _ => 1) Ha); auto.
  - intros p Hp Hm Hw. destruct (H1 p Hp Hm Hw) as (_ & _ & _ & _ & He). exact He.
  - intros p Hp Hm Hw. destruct (H1 p Hp Hm Hw) as (_ & _ & _ & Hd & _). exact Hd.
Qed.

(* ====================================================================================== *)
(* Part 7 — the statements exported to C19_Properties.v                                    *)
(* ====================================================================================== *)
Lemma P_mask_is_union data err umask :
  (forall e, err = Some e -> length e = length data) ->
  (forall m, umask = Some m -> length m = length data) ->
  length (compute_mask data err umask) = npix data /\
  forall p, (p < npix data)%nat ->
    nth p (compute_mask data err umask) false =
      (match umask with Some m => nth p m false | None => false end
       || nonfin (nth p data None)
       || match err with Some e => nonfin (nth p e None) | None => false end).
Proof.
  intros He Hm. rewrite (compute_mask_spec data err umask He Hm). split.
  - rewrite map_length, seq_length. reflexivity.
  - intros p Hp. rewrite nth_map_seq by exact Hp. reflexivity.
Qed.

Lemma P_cog_is_aperture_sum S data err umask apers i a :
  wf data err umask apers -> nth_error apers i = Some a ->
  let ph := photometry data err umask apers in
  nth_error (cog_profile S ph) i =
    Some (option_map (fun w => zq S (usum data err umask w (dval data))) (aw a)) /\
  nth_error (cog_area S ph) i =
    Some (option_map (fun w => zq S (usum data err umask w (fun _ => 1))) (aw a)).
Proof.
  intros Hwf Ha. destruct (cog_aperture_sum S data err umask apers Hwf i a Ha) as (H1 & H2 & _). auto.
Qed.

Lemma P_radial_is_diff_quotient S data err umask apers i a b :
  wf data err umask apers -> nth_error apers i = Some a -> nth_error apers (Datatypes.S i) = Some b ->
  let ph := photometry data err umask apers in
  match aw a, aw b with
  | Some wa, Some wb =>
      let dw := fun p => wb p - wa p in
      let df := usum data err umask dw (dval data) in
      let da := usum data err umask dw (fun _ => 1) in
      (* difference of consecutive aperture sums / areas = sums over the annulus weights *)
      df = usum data err umask wb (dval data) - usum data err umask wa (dval data) /\
      da = usum data err umask wb (fun _ => 1) - usum data err umask wa (fun _ => 1) /\
      nth_error (rad_profile ph) i = Some (if da =? 0 then None else Some (inject_Z df / inject_Z da)%Q) /\
      nth_error (rad_area S ph) i = Some (Some (zq S da))
  | _, _ => nth_error (rad_profile ph) i = Some None /\ nth_error (rad_area S ph) i = Some None
  end.
Proof.
  intros Hwf Ha Hb. pose proof (radial_annulus S data err umask apers Hwf i a b Ha Hb) as H.
  destruct (aw a) as [wa|], (aw b) as [wb|]; cbv zeta in *; try (destruct H as (H1 & H2 & _); auto).
  rewrite !usum_sub. auto.
Qed.

Lemma P_errors_in_quadrature S data err umask apers i a :
  wf data err umask apers -> 0 < S -> nth_error apers i = Some a ->
  let ph := photometry data err umask apers in
  (* curve of growth: profile_error = 1 * sqrt( sum w err^2 ) *)
  nth_error (cog_perr S true ph) i =
    Some (option_map (fun w => (1%Q, zq S (usum data err umask w (esq err)))) (aw a)) /\
  (* radial profile: profile_error = c * sqrt v with (c sqrt v)^2 = (variance in the annulus) / area^2 *)
  forall b, nth_error apers (Datatypes.S i) = Some b ->
    match aw a, aw b with
    | Some wa, Some wb =>
        let dw := fun p => wb p - wa p in
        let da := usum data err umask dw (fun _ => 1) in
        let dv := usum data err umask dw (esq err) in
        dv = usum data err umask wb (esq err) - usum data err umask wa (esq err) /\
        if (da =? 0) || (dv <? 0) then nth_error (rad_perr S true ph) i = Some None
        else exists c v, nth_error (rad_perr S true ph) i = Some (Some (c, v)) /\
                         (c * c * v == zq S dv / (zq S da * zq S da))%Q
    | _, _ => nth_error (rad_perr S true ph) i = Some None
    end.
Proof.
  intros Hwf HS Ha. cbv zeta. split.
  - destruct (cog_aperture_sum S data err umask apers Hwf i a Ha) as (_ & _ & H). exact H.
  - intros b Hb. pose proof (radial_annulus S data err umask apers Hwf i a b Ha Hb) as H.
    destruct (aw a) as [wa|], (aw b) as [wb|]; cbv zeta in *; try (destruct H as (_ & _ & H); exact H).
    destruct H as (_ & _ & H). split; [rewrite usum_sub; reflexivity|].
    destruct ((usum data err umask (fun p => wb p - wa p) (fun _ => 1) =? 0)
              || (usum data err umask (fun p => wb p - wa p) (esq err) <? 0)) eqn:E; [exact H|].
    apply orb_false_iff in E. destruct E as [E _].
    eexists _, _. split; [exact H|]. apply equot_meaning; [exact HS|lia].
Qed.

Lemma P_constant_image S data err umask apers c :
  wf data err umask apers ->
  (forall p, (p < npix data)%nat -> pix_masked data err umask p = false -> dval data p = c) ->
  let ph := photometry data err umask apers in
  (* radial: a finite bin equals the constant, and every bin with non-zero area is finite *)
  (forall i q, nth_error (rad_profile ph) i = Some (Some q) -> (q == inject_Z c)%Q) /\
  (forall i a b wa wb, nth_error apers i = Some a -> nth_error apers (Datatypes.S i) = Some b ->
     aw a = Some wa -> aw b = Some wb ->
     usum data err umask (fun p => wb p - wa p) (fun _ => 1) <> 0 ->
     exists q, nth_error (rad_profile ph) i = Some (Some q) /\ (q == inject_Z c)%Q) /\
  (* curve of growth: profile = constant * area *)
  (forall i a w, nth_error apers i = Some a -> aw a = Some w ->
     exists f ar, nth_error (cog_profile S ph) i = Some (Some f) /\
                  nth_error (cog_area S ph) i = Some (Some ar) /\ (f == inject_Z c * ar)%Q).
Proof.
  intros Hwf Hc. cbv zeta. split; [|split].
  - intros i q. apply (constant_radial S data err umask apers Hwf c i q Hc).
  - intros i a b wa wb Ha Hb Hwa Hwb Hne.
    destruct (constant_radial_defined S data err umask apers Hwf i a b wa wb Ha Hb Hwa Hwb Hne) as [q Hq].
    exists q. split; [exact Hq|]. apply (constant_radial S data err umask apers Hwf c i q Hc Hq).
  - intros i a w. apply (constant_cog S data err umask apers Hwf c i a w Hc).
Qed.

Lemma P_head_refuted :
  (* /repo HEAD: data_profile first read between normalize and unnormalize comes back multiplied *)
  get_d head (Some [Some 3%Q])
        (fst (run head [Some 2%Q] [] (Some [Some 3%Q]) [ONorm NMax; ORead ADp; OUnnorm] init))
    = [Some (6 # 1)%Q] /\
  (* /repo HEAD: an all-NaN profile makes normalize turn a read data_profile into NaN for good *)
  get_d head (Some [Some 3%Q])
        (fst (run head [None] [] (Some [Some 3%Q]) [ORead ADp; ONorm NMax; OUnnorm] init))
    = [None] /\
  (* /repo HEAD: the monotone prefix loses its last point *)
  (forall ys, (prefix_len fixed (map Some ys) < length ys)%nat ->
              Datatypes.S (prefix_len head (map Some ys)) = prefix_len fixed (map Some ys)).
Proof.
  split; [exact head_data_profile_not_restored|]. split; [exact head_nonfinite_normalization|].
  exact prefix_len_head.
Qed.

(* ---- satisfiability witnesses used by the Examples of C19_Properties.v ------------------ *)
Fixpoint knot_lookup (xs ys : list Q) (x : Q) : val :=
  match xs, ys with
  | a :: xs', b :: ys' => if Qeq_bool x a then Some b else knot_lookup xs' ys' x
  | _, _ => None
  end.

Lemma strictly_inc_tail a xs : strictly_inc (a :: xs) -> strictly_inc xs.
Proof. intros H i Hi. apply (H (Datatypes.S i)). cbn. lia. Qed.

Lemma strictly_inc_head_lt a xs i : strictly_inc (a :: xs) -> (i < length xs)%nat -> (a < nth i xs 0)%Q.
Proof.
  intros H. induction i as [|i IH]; intros Hi.
  - apply (H 0%nat). cbn. lia.
  - eapply Qlt_trans; [apply IH; lia|]. apply (H (Datatypes.S i)). cbn. lia.
Qed.

Lemma knot_lookup_knots xs ys i x :
  strictly_inc xs -> length xs = length ys -> (i < length xs)%nat -> (x == nth i xs 0)%Q ->
  veq (knot_lookup xs ys x) (Some (nth i ys 0%Q)).
Proof.
  revert ys i. induction xs as [|a xs IH]; intros [|b ys] i Hinc Hlen Hi Hx; cbn in Hlen, Hi; try lia.
  cbn [knot_lookup]. destruct i as [|i].
  - cbn in Hx. apply Qeq_bool_iff in Hx. rewrite Hx. cbn. reflexivity.
  - cbn [nth] in *. assert (Hlt : (a < x)%Q) by (rewrite Hx; apply strictly_inc_head_lt; [exact Hinc|lia]).
    destruct (Qeq_bool x a) eqn:E.
    + apply Qeq_bool_iff in E. rewrite E in Hlt. exfalso. exact (Qlt_irrefl _ Hlt).
    + apply IH; [eapply strictly_inc_tail; exact Hinc|lia|lia|exact Hx].
Qed.

Lemma ex_shift_proof :
  photometry [Some 7; Some 9] None None [AZero; AW [1; 2]] =
  photometry [None; Some 7; Some 9; Some 5] None None [AZero; AW [0; 1; 2; 0]].
Proof.
  apply (photometry_reindex Datatypes.S).
  - split; [discriminate|]. split; [discriminate|].
    intros w [H|[H|[]]]; [discriminate|]. injection H as <-. split; [reflexivity|].
    intros [|[|[|p]]]; cbn; lia.
  - split; [discriminate|]. split; [discriminate|].
    intros w [H|[H|[]]]; [discriminate|]. injection H as <-. split; [reflexivity|].
    intros [|[|[|[|[|p]]]]]; cbn; lia.
  - constructor; [exact I|]. constructor; [|constructor]. cbn. split; [|split].
    + intros [|[|p]] Hp _ _; cbn in Hp; try lia; cbn; repeat split; lia.
    + intros p q _ _ _ _ _ _ H. lia.
    + intros [|[|[|[|p']]]] Hp' Hm Hw; cbn in Hp', Hm, Hw; try lia; try discriminate.
      * exists 0%nat. cbn. repeat split; lia.
      * exists 1%nat. cbn. repeat split; lia.
Qed.
