(* C03 -- covariance under integer translation (zero-padded embedding) and axis transposition.

   The property is a RELATION between two runs of the same API (image vs. image embedded at an
   integer offset in a larger zero-padded canvas; image vs. transposed image).  The relation itself
   is checked on the real API by harness/c03.py (it needs no oracle).  This file holds the small,
   executable, self-contained definitions the covariance THEOREMS are about:

     embed z dy dx NY NX a      the canvas: NY x NX, filled with z, a's pixel (y, x) at (dy+y, dx+x)
                                (= numpy.pad(a, ((dy, NY-dy-ny), (dx, NX-dx-nx)), constant_values=z))
     crop y0 y1 x0 x1 a         a[y0:y1, x0:x1] for non-negative indices (numpy clipping included)
     transpose nx a             a.T for an image with nx columns
     rebased act box f a        the pattern of the anchors (SourceCatalog.centroid / bbox / min-max index,
                                ApertureStats.centroid, star-finder cutouts, make_model_image):
                                take an integer box, measure INSIDE the cutout, add the box origin
     from_float                 COPY of BoundingBox.from_float      (photutils/aperture/bounding_box.py:115-120)
     overlap_slices             COPY of BoundingBox.get_overlap_slices (bounding_box.py:187-203)
                                (the same definitions exist in C01_Model / C02_Model; they are repeated
                                 here so that this file compiles on its own)
     seg_bbox l s               tight half-open bounding box of label l in a segmentation map
                                (what scipy.ndimage.find_objects gives SegmentationImage.slices /
                                 SourceCatalog.bbox_xmin ...): a concrete translation-covariant integer box
     wsum w a                   sum over pixels of w y x * a[y][x]  (w : Z -> Z -> Z)
     moment i j a               photutils.utils._moments._moments(a)[i][j] = sum y^i x^j a[y][x]
     cmoment i j a              central moment about the cutout centroid (M10/M00, M01/M00), scaled by
                                M00^(i+j) so that it stays an integer:
                                  sum (M00*y - M01)^i (M00*x - M10)^j a[y][x]  =  M00^(i+j) * mu_ij
                                (SourceCatalog.moments_central = _moments_central(cutout, cutout_centroid))
     centroid_x/y, cov_xx/xy/yy SourceCatalog.cutout_centroid and covariance entries mu20/mu00,
                                mu11/mu00, mu02/mu00 as exact rationals
     fg_img                     2-D form of C04_Model.fg_of (data > threshold && ~mask, NaN = None)

   Pixel values are (scaled) integers, see DESIGN.md 3.1.  No proofs in this file. *)
From Coq Require Import List ZArith QArith Qround Bool Lia.
From PV Require Import lib.Cases.
Import ListNotations.
Open Scope Z_scope.

Definition img (A : Type) := list (list A).
Definition get {A} (d : A) (a : img A) (y x : nat) : A := nth x (nth y a []) d.
Definition rect {A} (ny nx : nat) (a : img A) : Prop :=
  length a = ny /\ Forall (fun r => length r = nx) a.

(* ---------------- embedding, cropping, transposition ---------------- *)
Definition pad_row {A} (z : A) (dx NX : nat) (r : list A) : list A :=
  repeat z dx ++ r ++ repeat z (NX - dx - length r).
Definition embed {A} (z : A) (dy dx NY NX : nat) (a : img A) : img A :=
  repeat (repeat z NX) dy ++ map (pad_row z dx NX) a ++ repeat (repeat z NX) (NY - dy - length a).

Definition crop {A} (y0 y1 x0 x1 : nat) (a : img A) : img A :=
  map (fun r => firstn (x1 - x0) (skipn x0 r)) (firstn (y1 - y0) (skipn y0 a)).

Definition transpose {A} (d : A) (nx : nat) (a : img A) : img A :=
  map (fun j => map (fun r => nth j r d) a) (seq 0 nx).

(* ---------------- integer boxes ---------------- *)
(* (iymin, iymax, ixmin, ixmax), half-open *)
Definition zbox := (Z * Z * Z * Z)%type.
Definition shift_box (dy dx : Z) (b : zbox) : zbox :=
  let '(y0, y1, x0, x1) := b in (y0 + dy, y1 + dy, x0 + dx, x1 + dx).
Definition swap_box (b : zbox) : zbox := let '(y0, y1, x0, x1) := b in (x0, x1, y0, y1).
Definition inside (ny nx : nat) (b : zbox) : Prop :=
  let '(y0, y1, x0, x1) := b in 0 <= y0 <= y1 /\ y1 <= Z.of_nat ny /\ 0 <= x0 <= x1 /\ x1 <= Z.of_nat nx.
Definition cropz {A} (b : zbox) (a : img A) : img A :=
  let '(y0, y1, x0, x1) := b in crop (Z.to_nat y0) (Z.to_nat y1) (Z.to_nat x0) (Z.to_nat x1) a.

(* "measure inside the cutout and add the box origin": [act y0 x0 r] re-bases the cutout-relative
   result r with the origin (y0, x0) of the box *)
Definition rebased {A P} (act : Z -> Z -> P -> P) (box : img A -> zbox) (f : img A -> P) (a : img A) : P :=
  let '(y0, y1, x0, x1) := box a in act y0 x0 (f (cropz (box a) a)).

(* the three origin actions used by the anchored code *)
Definition act_index (y0 x0 : Z) (p : Z * Z) : Z * Z := (fst p + y0, snd p + x0).        (* (row, col) index *)
Definition act_box (y0 x0 : Z) (b : zbox) : zbox := shift_box y0 x0 b.                  (* a box inside the cutout *)
Definition act_xy (y0 x0 : Z) (p : Q * Q) : Q * Q :=                                    (* (x, y) float position *)
  ((fst p + inject_Z x0)%Q, (snd p + inject_Z y0)%Q).

(* ---------------- COPY of BoundingBox.from_float / get_overlap_slices ---------------- *)
Definition half : Q := 1 # 2.
(* returns (iymin, iymax, ixmin, ixmax) *)
Definition from_float (xmin xmax ymin ymax : Q) : zbox :=
  (Qfloor (ymin + half), Qceiling (ymax + half), Qfloor (xmin + half), Qceiling (xmax + half)).

Definition zslc := (Z * Z)%type.
(* ((large y, large x), (small y, small x)) or None *)
Definition overlap_slices (b : zbox) (ny nx : Z) : option ((zslc * zslc) * (zslc * zslc)) :=
  let '(ymin, ymax, xmin, xmax) := b in
  if (xmin >=? nx) || (ymin >=? ny) || (xmax <=? 0) || (ymax <=? 0) then None
  else Some (((Z.max ymin 0, Z.min ymax ny), (Z.max xmin 0, Z.min xmax nx)),
             ((Z.max (- ymin) 0, Z.min (ymax - ymin) (ny - ymin)),
              (Z.max (- xmin) 0, Z.min (xmax - xmin) (nx - xmin)))).
Definition shift_slc (d : Z) (s : zslc) : zslc := (fst s + d, snd s + d).

(* ---------------- tight bounding box of a label ---------------- *)
Definition has_label (l : Z) (r : list Z) : bool := existsb (Z.eqb l) r.
(* indices (from k on) of the rows / columns holding label l *)
Fixpoint rows_with (l : Z) (k : Z) (s : img Z) : list Z :=
  match s with
  | [] => []
  | r :: s' => if has_label l r then k :: rows_with l (k + 1) s' else rows_with l (k + 1) s'
  end.
Fixpoint cols_in_row (l : Z) (k : Z) (r : list Z) : list Z :=
  match r with
  | [] => []
  | v :: r' => if l =? v then k :: cols_in_row l (k + 1) r' else cols_in_row l (k + 1) r'
  end.
Definition cols_with (l : Z) (s : img Z) : list Z := flat_map (cols_in_row l 0) s.
Definition zmin (l : list Z) (d : Z) : Z := fold_right Z.min d l.
Definition zmax (l : list Z) (d : Z) : Z := fold_right Z.max d l.
(* None when the label is absent *)
Definition seg_bbox (l : Z) (s : img Z) : option zbox :=
  match rows_with l 0 s, cols_with l s with
  | y :: ys, x :: xs => Some (zmin ys y, zmax ys y + 1, zmin xs x, zmax xs x + 1)
  | _, _ => None
  end.
Definition seg_bbox0 (l : Z) (s : img Z) : zbox :=
  match seg_bbox l s with Some b => b | None => (0, 0, 0, 0) end.

(* ---------------- weighted pixel sums and image moments ---------------- *)
Fixpoint rowsum (w : Z -> Z) (x : Z) (r : list Z) : Z :=
  match r with [] => 0 | d :: r' => w x * d + rowsum w (x + 1) r' end.
Fixpoint imgsum (w : Z -> Z -> Z) (y : Z) (a : img Z) : Z :=
  match a with [] => 0 | r :: a' => rowsum (w y) 0 r + imgsum w (y + 1) a' end.
Definition wsum (w : Z -> Z -> Z) (a : img Z) : Z := imgsum w 0 a.

(* _moments(a, order)[i][j] : power i on the ROW index y, power j on the COLUMN index x *)
Definition moment (i j : nat) (a : img Z) : Z := wsum (fun y x => y ^ Z.of_nat i * x ^ Z.of_nat j) a.
Definition M00 := moment 0 0.
Definition M10 := moment 0 1.      (* sum x d : SourceCatalog.moments[0, 1] *)
Definition M01 := moment 1 0.      (* sum y d : SourceCatalog.moments[1, 0] *)
(* M00^(i+j) * _moments_central(a, center = (M10/M00, M01/M00))[i][j] *)
Definition cmoment (i j : nat) (a : img Z) : Z :=
  wsum (fun y x => (M00 a * y - M01 a) ^ Z.of_nat i * (M00 a * x - M10 a) ^ Z.of_nat j) a.

Definition qdiv (n d : Z) : Q := (inject_Z n / inject_Z d)%Q.
Definition centroid_x (a : img Z) : Q := qdiv (M10 a) (M00 a).
Definition centroid_y (a : img Z) : Q := qdiv (M01 a) (M00 a).
(* covariance entries mu20/mu00 (xx), mu11/mu00 (xy), mu02/mu00 (yy) *)
Definition cov_xx (a : img Z) : Q := qdiv (cmoment 0 2 a) (M00 a ^ 3).
Definition cov_xy (a : img Z) : Q := qdiv (cmoment 1 1 a) (M00 a ^ 3).
Definition cov_yy (a : img Z) : Q := qdiv (cmoment 2 0 a) (M00 a ^ 3).
(* SourceCatalog.centroid of the cutout [cropz b a]: cutout centroid + box origin, (x, y) *)
Definition catalog_centroid (b : zbox) (a : img Z) : Q * Q :=
  let c := cropz b a in
  let '(y0, y1, x0, x1) := b in act_xy y0 x0 (centroid_x c, centroid_y c).

(* ---------------- SourceCatalog.background_centroid ---------------- *)
(* scipy.ndimage.map_coordinates(background, (ycen, xcen), order=1) at the position
   (y + fy/s, x + fx/s), 0 <= fy, fx <= s, times s^2 (bilinear interpolation of the four neighbours);
   REPAIRED code (fixes/C03-1): coordinates in (row, column) = (y, x) order *)
Definition bilinear (a : img Z) (y x : nat) (fy fx s : Z) : Z :=
  (s - fy) * (s - fx) * get 0 a y x + (s - fy) * fx * get 0 a y (S x) +
  fy * (s - fx) * get 0 a (S y) x + fy * fx * get 0 a (S y) (S x).
(* the code before the repair passed (xcen, ycen): the value at the transposed position *)
Definition bilinear_head (a : img Z) (y x : nat) (fy fx s : Z) : Z := bilinear a x y fx fy s.

(* ---------------- 2-D foreground map of detect_sources (C04) ---------------- *)
Definition fg_px (d t : option Z) (m : bool) : bool :=
  match d, t with Some d, Some t => (t <? d) && negb m | _, _ => false end.
Fixpoint map3 {A B C D} (f : A -> B -> C -> D) (a : list A) (b : list B) (c : list C) : list D :=
  match a, b, c with
  | x :: a', y :: b', z :: c' => f x y z :: map3 f a' b' c'
  | _, _, _ => []
  end.
Definition fg_img (data thr : img (option Z)) (mask : img bool) : img bool :=
  map3 (map3 fg_px) data thr mask.

(* ---------------- correspondence ---------------- *)
Definition zbox_eqb (a b : zbox) : bool :=
  let '(a1, a2, a3, a4) := a in let '(b1, b2, b3, b4) := b in
  (a1 =? b1) && (a2 =? b2) && (a3 =? b3) && (a4 =? b4).
Definition zslc_eqb (a b : zslc) : bool := (fst a =? fst b) && (snd a =? snd b).
Definition slc4_eqb (a b : (zslc * zslc) * (zslc * zslc)) : bool :=
  zslc_eqb (fst (fst a)) (fst (fst b)) && zslc_eqb (snd (fst a)) (snd (fst b)) &&
  zslc_eqb (fst (snd a)) (fst (snd b)) && zslc_eqb (snd (snd a)) (snd (snd b)).

Inductive case :=
  (* BoundingBox.from_float(xmin, xmax, ymin, ymax) -> (iymin, iymax, ixmin, ixmax) *)
| CFromFloat (xmin xmax ymin ymax : Q) (r : zbox)
  (* BoundingBox(b).get_overlap_slices((ny, nx)) *)
| COverlap (b : zbox) (ny nx : Z) (r : option ((zslc * zslc) * (zslc * zslc)))
  (* numpy.pad(a, ..., constant_values=z)[y0:y1, x0:x1]  and  a[y0-dy : y1-dy, x0-dx : x1-dx] *)
| CEmbedCrop (z : Z) (dy dx NY NX : Z) (a : img Z) (b : zbox) (canvas cut : img Z)
  (* a.T *)
| CTranspose (nx : Z) (a aT : img Z)
  (* photutils.utils._moments._moments(a, 3) (row-major 4x4) *)
| CMoments (a : img Z) (m : list (list Z))
  (* SegmentationImage(s).bbox of label l (iymin, iymax, ixmin, ixmax) *)
| CSegBBox (l : Z) (s : img Z) (r : zbox)
  (* s^2 * SourceCatalog.background_centroid for a centroid at (y + fy/s, x + fx/s) *)
| CBilinear (a : img Z) (y x fy fx s : Z) (r : Z).

Definition moments3 (a : img Z) : list (list Z) :=
  map (fun i => map (fun j => moment i j a) (seq 0 4)) (seq 0 4).

Definition check_case (c : case) : bool :=
  match c with
  | CFromFloat xmin xmax ymin ymax r => zbox_eqb (from_float xmin xmax ymin ymax) r
  | COverlap b ny nx r => opt_eqb slc4_eqb (overlap_slices b ny nx) r
  | CEmbedCrop z dy dx NY NX a b canvas cut =>
      let e := embed z (Z.to_nat dy) (Z.to_nat dx) (Z.to_nat NY) (Z.to_nat NX) a in
      zimg_eqb e canvas && zimg_eqb (cropz b e) cut &&
      zimg_eqb (cropz (shift_box (- dy) (- dx) b) a) cut
  | CTranspose nx a aT => zimg_eqb (transpose 0 (Z.to_nat nx) a) aT
  | CMoments a m => zimg_eqb (moments3 a) m
  | CSegBBox l s r => opt_eqb zbox_eqb (seg_bbox l s) (Some r)
  | CBilinear a y x fy fx s r => bilinear a (Z.to_nat y) (Z.to_nat x) fy fx s =? r
  end.

Inductive out :=
| OBox (b : zbox) | OSlices (r : option ((zslc * zslc) * (zslc * zslc))) | OImg (a : img Z)
| OImgs (a b c : img Z) | OOptBox (b : option zbox) | OZ (v : Z).
Definition model_out (c : case) : out :=
  match c with
  | CFromFloat xmin xmax ymin ymax _ => OBox (from_float xmin xmax ymin ymax)
  | COverlap b ny nx _ => OSlices (overlap_slices b ny nx)
  | CEmbedCrop z dy dx NY NX a b _ _ =>
      let e := embed z (Z.to_nat dy) (Z.to_nat dx) (Z.to_nat NY) (Z.to_nat NX) a in
      OImgs e (cropz b e) (cropz (shift_box (- dy) (- dx) b) a)
  | CTranspose nx a _ => OImg (transpose 0 (Z.to_nat nx) a)
  | CMoments a _ => OImg (moments3 a)
  | CSegBBox l s _ => OOptBox (seg_bbox l s)
  | CBilinear a y x fy fx s _ => OZ (bilinear a (Z.to_nat y) (Z.to_nat x) fy fx s)
  end.
