(* C13 — proofs about the model of photutils.psf functional / image / gridded models.

   Part A: pixel-integrated PRFs (telescoping grid sums, bounds, limit, sign, linearity,
           symmetry, cross-identities), analytic PSFs (sign, linearity, symmetry,
           circular = elliptical with equal widths).
   Part B: ImagePSF index arithmetic, fill, sample points, bounding box.
   Part C: GriddedPSFModel bilinear weights, bracketing, history-freeness.

   Everything is over Q with setoid equality [==]; the library primitives are universally
   quantified functions, each theorem lists exactly the facts it uses about them. *)
From Coq Require Import QArith Qround Qminmax Qabs ZArith List Bool Lia Lqa Morphisms Setoid Sorted Permutation.
From PV Require Import lib.Cases C13_Model.
Import ListNotations.
Open Scope Q_scope.

Lemma inject_Z_nonneg z : (0 <= z)%Z -> 0 <= inject_Z z.
Proof. intros H. change 0 with (inject_Z 0). rewrite <- Zle_Qle. exact H. Qed.
Lemma inject_Z_nat_nonneg n : 0 <= inject_Z (Z.of_nat n).
Proof. apply inject_Z_nonneg. lia. Qed.

(* ------------------------------------------------------------------ *)
(* generic facts about qsum                                              *)
(* ------------------------------------------------------------------ *)
Lemma qsum_ext f g a n :
  (forall i, (a <= i < a + Z.of_nat n)%Z -> f i == g i) -> qsum f a n == qsum g a n.
Proof.
  revert a; induction n as [|n IH]; intros a H; cbn [qsum]; [reflexivity|].
  rewrite (H a) by lia. rewrite (IH (a + 1)%Z); [reflexivity|].
  intros i Hi; apply H; lia.
Qed.

Lemma qsum_scale k f a n : qsum (fun i => k * f i) a n == k * qsum f a n.
Proof.
  revert a; induction n as [|n IH]; intros a; cbn [qsum]; [ring|].
  rewrite IH; ring.
Qed.

Lemma qsum_scale_r k f a n : qsum (fun i => f i * k) a n == qsum f a n * k.
Proof.
  revert a; induction n as [|n IH]; intros a; cbn [qsum]; [ring|].
  rewrite IH; ring.
Qed.

Lemma qsum_nonneg f a n :
  (forall i, (a <= i < a + Z.of_nat n)%Z -> 0 <= f i) -> 0 <= qsum f a n.
Proof.
  revert a; induction n as [|n IH]; intros a H; cbn [qsum]; [lra|].
  assert (0 <= f a) by (apply H; lia).
  assert (0 <= qsum f (a + 1)%Z n) by (apply IH; intros i Hi; apply H; lia).
  lra.
Qed.

(* a separable summand: the double sum is the product of the two single sums *)
Lemma qsum2_prod (f : Q -> Q -> Q) k (P R : Z -> Q) a n c m :
  (forall i j, f (inject_Z i) (inject_Z j) == k * (P i * R j)) ->
  qsum2 f a n c m == k * (qsum P a n * qsum R c m).
Proof.
  intros H. unfold qsum2.
  rewrite (qsum_ext _ (fun i => (k * qsum R c m) * P i)).
  - rewrite qsum_scale. ring.
  - intros i _. rewrite (qsum_ext _ (fun j => (k * P i) * R j)).
    + rewrite qsum_scale. ring.
    + intros j _. rewrite H. ring.
Qed.

(* ------------------------------------------------------------------ *)
(* Part A.1: pixel-integrated PRFs                                       *)
(* ------------------------------------------------------------------ *)
(* the one-dimensional pixel integral appearing in all three evaluate() bodies:
   E((u + 1/2)/s) - E((u - 1/2)/s), u = offset of the pixel centre from the source *)
Definition pixint (E : Q -> Q) (s u : Q) : Q := E ((u + (1 # 2)) / s) - E ((u - (1 # 2)) / s).

(* separable PRF: flux/4 * pixint(x - x_0) * pixint(y - y_0) *)
Definition sep_prf (E : Q -> Q) (sx sy flux x_0 y_0 x y : Q) : Q :=
  flux / 4 * (pixint E sx (x - x_0) * pixint E sy (y - y_0)).

(* the value to which the sum over columns a .. a+n-1 telescopes *)
Definition tele (E : Q -> Q) (s x_0 : Q) (a : Z) (n : nat) : Q :=
  E ((inject_Z a + inject_Z (Z.of_nat n) - (1 # 2) - x_0) / s) - E ((inject_Z a - (1 # 2) - x_0) / s).

(* the facts about scipy.special.erf the theorems use *)
Definition erf_monotone (E : Q -> Q) := forall a b, a <= b -> E a <= E b.
Definition erf_odd (E : Q -> Q) := forall t, E (- t) == - E t.
Definition erf_bounded (E : Q -> Q) := forall t, -1 <= E t <= 1.
Definition erf_limits (E : Q -> Q) :=
  forall e, 0 < e -> exists T, forall t, (T <= t -> 1 - e <= E t) /\ (t <= - T -> E t <= -1 + e).

Section PRF.
Context (E : Q -> Q) (E_proper : Proper (Qeq ==> Qeq) E).

Global Instance pixint_proper : Proper (Qeq ==> Qeq ==> Qeq) (pixint E).
Proof. intros s s' Hs u u' Hu. unfold pixint. rewrite Hs, Hu. reflexivity. Qed.

Lemma pixint_tele s x_0 a n :
  qsum (fun i => pixint E s (inject_Z i - x_0)) a n == tele E s x_0 a n.
Proof.
  unfold tele. revert a; induction n as [|n IH]; intros a.
  - cbn [qsum]. change (inject_Z (Z.of_nat 0)) with 0.
    assert (H : inject_Z a + 0 - (1 # 2) - x_0 == inject_Z a - (1 # 2) - x_0) by ring.
    rewrite H. ring.
  - cbn [qsum]. rewrite IH. unfold pixint.
    assert (H1 : (inject_Z (a + 1) + inject_Z (Z.of_nat n) - (1 # 2) - x_0)
                 == (inject_Z a + inject_Z (Z.of_nat (S n)) - (1 # 2) - x_0)).
    { rewrite Nat2Z.inj_succ. unfold Z.succ. rewrite !inject_Z_plus. ring. }
    assert (H2 : (inject_Z (a + 1) - (1 # 2) - x_0) == (inject_Z a - x_0 + (1 # 2))).
    { rewrite inject_Z_plus. ring. }
    assert (H3 : (inject_Z a - x_0 - (1 # 2)) == (inject_Z a - (1 # 2) - x_0)) by ring.
    rewrite H1, H2, H3. ring.
Qed.

(* prf_telescopes for the separable form *)
Lemma sep_prf_telescopes sx sy flux x_0 y_0 a n c m :
  qsum2 (sep_prf E sx sy flux x_0 y_0) a n c m
  == flux / 4 * (tele E sx x_0 a n * tele E sy y_0 c m).
Proof.
  rewrite (qsum2_prod _ (flux / 4) (fun i => pixint E sx (inject_Z i - x_0))
                      (fun j => pixint E sy (inject_Z j - y_0))).
  - rewrite !pixint_tele. reflexivity.
  - intros i j. reflexivity.
Qed.

Lemma pixint_nonneg s u : erf_monotone E -> 0 < s -> 0 <= pixint E s u.
Proof.
  intros Hm Hs. unfold pixint.
  assert (H : (u - (1 # 2)) / s <= (u + (1 # 2)) / s).
  { unfold Qdiv. apply Qmult_le_compat_r; [lra|]. apply Qlt_le_weak, Qinv_lt_0_compat, Hs. }
  apply Hm in H. lra.
Qed.

Lemma pixint_even s u : erf_odd E -> pixint E s (- u) == pixint E s u.
Proof.
  intros Ho. unfold erf_odd in Ho. unfold pixint.
  assert (H1 : (- u + (1 # 2)) / s == - ((u - (1 # 2)) / s)) by (unfold Qdiv; ring).
  assert (H2 : (- u - (1 # 2)) / s == - ((u + (1 # 2)) / s)) by (unfold Qdiv; ring).
  rewrite H1, H2, !Ho. ring.
Qed.

Lemma sep_prf_nonneg sx sy flux x_0 y_0 x y :
  erf_monotone E -> 0 < sx -> 0 < sy -> 0 <= flux -> 0 <= sep_prf E sx sy flux x_0 y_0 x y.
Proof.
  intros Hm Hx Hy Hf. unfold sep_prf.
  pose proof (pixint_nonneg sx (x - x_0) Hm Hx). pose proof (pixint_nonneg sy (y - y_0) Hm Hy).
  assert (0 <= pixint E sx (x - x_0) * pixint E sy (y - y_0)) by (apply Qmult_le_0_compat; assumption).
  apply Qmult_le_0_compat; [|assumption].
  unfold Qdiv. apply Qmult_le_0_compat; [assumption|]. discriminate.
Qed.

Lemma tele_range s x_0 a n :
  erf_monotone E -> erf_bounded E -> 0 < s -> 0 <= tele E s x_0 a n <= 2.
Proof.
  intros Hm Hb Hs. unfold tele.
  set (hi := (inject_Z a + inject_Z (Z.of_nat n) - (1 # 2) - x_0) / s).
  set (lo := (inject_Z a - (1 # 2) - x_0) / s).
  assert (H : lo <= hi).
  { unfold lo, hi, Qdiv. apply Qmult_le_compat_r.
    - pose proof (inject_Z_nat_nonneg n). lra.
    - apply Qlt_le_weak, Qinv_lt_0_compat, Hs. }
  apply Hm in H. pose proof (Hb hi). pose proof (Hb lo). lra.
Qed.

(* every partial sum lies between 0 and flux *)
Lemma sep_prf_sum_bounds sx sy flux x_0 y_0 a n c m :
  erf_monotone E -> erf_bounded E -> 0 < sx -> 0 < sy -> 0 <= flux ->
  0 <= qsum2 (sep_prf E sx sy flux x_0 y_0) a n c m <= flux.
Proof.
  intros Hm Hb Hx Hy Hf. rewrite sep_prf_telescopes.
  pose proof (tele_range sx x_0 a n Hm Hb Hx) as [X0 X2].
  pose proof (tele_range sy y_0 c m Hm Hb Hy) as [Y0 Y2].
  set (X := tele E sx x_0 a n) in *. set (Y := tele E sy y_0 c m) in *.
  assert (XY : 0 <= X * Y <= 4) by (split; nra).
  set (W := X * Y) in *. unfold Qdiv. change (/ 4) with (1 # 4). split; nra.
Qed.

Lemma tele_near_two s x_0 e T a n :
  0 < s ->
  (forall t, (T <= t -> 1 - e <= E t) /\ (t <= - T -> E t <= -1 + e)) ->
  inject_Z a <= - (T * s + (1 # 2) + Qabs x_0) ->
  T * s + (1 # 2) + Qabs x_0 <= inject_Z a + inject_Z (Z.of_nat n) ->
  2 - 2 * e <= tele E s x_0 a n.
Proof.
  intros Hs HT Ha Hn. unfold tele.
  pose proof (Qle_Qabs x_0) as A1.
  assert (A2 : - x_0 <= Qabs x_0) by (rewrite <- Qabs_opp; apply Qle_Qabs).
  assert (H1 : T <= (inject_Z a + inject_Z (Z.of_nat n) - (1 # 2) - x_0) / s).
  { apply Qle_shift_div_l; [assumption|]. lra. }
  assert (H2 : (inject_Z a - (1 # 2) - x_0) / s <= - T).
  { apply Qle_shift_div_r; [assumption|]. lra. }
  apply (proj1 (HT _)) in H1. apply (proj2 (HT _)) in H2. lra.
Qed.

(* the sum over the unbounded grid is flux: every window containing [-N, N]^2 is within
   2*e*flux of flux, for N depending only on e, the widths and the centre *)
Lemma sep_prf_sum_converges sx sy flux x_0 y_0 :
  erf_monotone E -> erf_bounded E -> erf_limits E -> 0 < sx -> 0 < sy -> 0 <= flux ->
  forall e, 0 < e -> exists N : Z, forall a n c m,
    (a <= - N)%Z -> (N <= a + Z.of_nat n)%Z -> (c <= - N)%Z -> (N <= c + Z.of_nat m)%Z ->
    flux * (1 - 2 * e) <= qsum2 (sep_prf E sx sy flux x_0 y_0) a n c m <= flux.
Proof.
  intros Hm Hb Hl Hx Hy Hf e He.
  destruct (Hl e He) as [T HT].
  set (Bx := T * sx + (1 # 2) + Qabs x_0). set (By := T * sy + (1 # 2) + Qabs y_0).
  exists (Z.max (Qceiling Bx) (Qceiling By)).
  intros a n c m Ha Hn Hc Hm'.
  split; [|apply sep_prf_sum_bounds; assumption].
  rewrite sep_prf_telescopes.
  pose proof (Qle_ceiling Bx) as CX. pose proof (Qle_ceiling By) as CY.
  assert (MX : inject_Z (Qceiling Bx) <= inject_Z (Z.max (Qceiling Bx) (Qceiling By)))
    by (rewrite <- Zle_Qle; lia).
  assert (MY : inject_Z (Qceiling By) <= inject_Z (Z.max (Qceiling Bx) (Qceiling By)))
    by (rewrite <- Zle_Qle; lia).
  set (N := Z.max (Qceiling Bx) (Qceiling By)) in *.
  assert (Ha' : inject_Z a <= - inject_Z N) by (rewrite <- inject_Z_opp, <- Zle_Qle; lia).
  assert (Hc' : inject_Z c <= - inject_Z N) by (rewrite <- inject_Z_opp, <- Zle_Qle; lia).
  assert (Hn' : inject_Z N <= inject_Z a + inject_Z (Z.of_nat n))
    by (rewrite <- inject_Z_plus, <- Zle_Qle; lia).
  assert (Hm2 : inject_Z N <= inject_Z c + inject_Z (Z.of_nat m))
    by (rewrite <- inject_Z_plus, <- Zle_Qle; lia).
  assert (X1 : 2 - 2 * e <= tele E sx x_0 a n).
  { apply (tele_near_two sx x_0 e T); [assumption|assumption|fold Bx; lra|fold Bx; lra]. }
  assert (Y1 : 2 - 2 * e <= tele E sy y_0 c m).
  { apply (tele_near_two sy y_0 e T); [assumption|assumption|fold By; lra|fold By; lra]. }
  pose proof (tele_range sx x_0 a n Hm Hb Hx) as [X0 X2].
  pose proof (tele_range sy y_0 c m Hm Hb Hy) as [Y0 Y2].
  set (X := tele E sx x_0 a n) in *. set (Y := tele E sy y_0 c m) in *.
  assert (P : 4 - 8 * e <= X * Y).
  { destruct (Qlt_le_dec 1 e) as [Big|Small].
    - assert (0 <= X * Y) by (apply Qmult_le_0_compat; assumption). lra.
    - nra. }
  set (W := X * Y) in *. unfold Qdiv. change (/ 4) with (1 # 4). nra.
Qed.
End PRF.

(* ------------------------------------------------------------------ *)
(* Part A.2: the three evaluate() bodies are separable PRFs              *)
(* ------------------------------------------------------------------ *)
Definition axis_aligned (c s : Q) : Prop :=
  (c == 1 /\ s == 0) \/ (c == 0 /\ s == 1) \/ (c == -1 /\ s == 0) \/ (c == 0 /\ s == -1).
(* widths seen along the image x / y axes when the ellipse is rotated by a multiple of 90 deg *)
Definition rot_sx (s sx sy : Q) : Q := if Qeq_bool s 0 then sx else sy.
Definition rot_sy (s sx sy : Q) : Q := if Qeq_bool s 0 then sy else sx.

Section Models.
Context (E : Q -> Q) (E_proper : Proper (Qeq ==> Qeq) E).
Variables (sqrt2 f2s : Q).

Lemma cgs_prf_sep x y flux x_0 y_0 sigma :
  cgs_prf E sqrt2 x y flux x_0 y_0 sigma == sep_prf E (sqrt2 * sigma) (sqrt2 * sigma) flux x_0 y_0 x y.
Proof. reflexivity. Qed.

Lemma cg_prf_sep x y flux x_0 y_0 fwhm :
  cg_prf E sqrt2 f2s x y flux x_0 y_0 fwhm
  == sep_prf E (sqrt2 * (fwhm * f2s)) (sqrt2 * (fwhm * f2s)) flux x_0 y_0 x y.
Proof. reflexivity. Qed.

(* sigma_fwhm_forms_agree: CircularGaussianPRF(fwhm) is CircularGaussianSigmaPRF(fwhm * f2s),
   for any value of the constant f2s = GAUSSIAN_FWHM_TO_SIGMA *)
Lemma cg_prf_is_cgs_prf x y flux x_0 y_0 fwhm :
  cg_prf E sqrt2 f2s x y flux x_0 y_0 fwhm == cgs_prf E sqrt2 x y flux x_0 y_0 (fwhm * f2s).
Proof. reflexivity. Qed.

Lemma g_prf_cs_pixint x y flux x_0 y_0 xf yf c s :
  g_prf_cs E sqrt2 f2s x y flux x_0 y_0 xf yf c s
  == flux / 4 * (pixint E (sqrt2 * (xf * f2s)) ((x - x_0) * c + (y - y_0) * s)
                 * pixint E (sqrt2 * (yf * f2s)) (- (x - x_0) * s + (y - y_0) * c)).
Proof. reflexivity. Qed.

Lemma g_prf_cs_nonneg x y flux x_0 y_0 xf yf c s :
  erf_monotone E -> 0 < sqrt2 * (xf * f2s) -> 0 < sqrt2 * (yf * f2s) -> 0 <= flux ->
  0 <= g_prf_cs E sqrt2 f2s x y flux x_0 y_0 xf yf c s.
Proof.
  intros Hm Hx Hy Hf. rewrite g_prf_cs_pixint.
  pose proof (pixint_nonneg E (sqrt2 * (xf * f2s)) ((x - x_0) * c + (y - y_0) * s) Hm Hx).
  pose proof (pixint_nonneg E (sqrt2 * (yf * f2s)) (- (x - x_0) * s + (y - y_0) * c) Hm Hy).
  apply Qmult_le_0_compat; [|apply Qmult_le_0_compat; assumption].
  unfold Qdiv. apply Qmult_le_0_compat; [assumption|discriminate].
Qed.

(* GaussianPRF at a rotation by a multiple of 90 degrees is the separable PRF whose widths
   along x and y are (x_sigma, y_sigma) or swapped *)
Lemma g_prf_cs_axis x y flux x_0 y_0 xf yf c s :
  erf_odd E -> axis_aligned c s ->
  g_prf_cs E sqrt2 f2s x y flux x_0 y_0 xf yf c s
  == sep_prf E (rot_sx s (sqrt2 * (xf * f2s)) (sqrt2 * (yf * f2s)))
             (rot_sy s (sqrt2 * (xf * f2s)) (sqrt2 * (yf * f2s))) flux x_0 y_0 x y.
Proof.
  intros Ho Ha. rewrite g_prf_cs_pixint. unfold sep_prf, rot_sx, rot_sy.
  set (sx := sqrt2 * (xf * f2s)). set (sy := sqrt2 * (yf * f2s)).
  set (dx := x - x_0). set (dy := y - y_0).
  destruct Ha as [[Hc Hs]|[[Hc Hs]|[[Hc Hs]|[Hc Hs]]]].
  - assert (Q0 : Qeq_bool s 0 = true) by (apply Qeq_bool_iff; exact Hs). rewrite Q0.
    assert (A : dx * c + dy * s == dx) by (rewrite Hc, Hs; ring).
    assert (B : - dx * s + dy * c == dy) by (rewrite Hc, Hs; ring).
    rewrite A, B. reflexivity.
  - assert (Q0 : Qeq_bool s 0 = false).
    { destruct (Qeq_bool s 0) eqn:Q0; [|reflexivity]. apply Qeq_bool_iff in Q0. rewrite Hs in Q0. discriminate. }
    rewrite Q0.
    assert (A : dx * c + dy * s == dy) by (rewrite Hc, Hs; ring).
    assert (B : - dx * s + dy * c == - dx) by (rewrite Hc, Hs; ring).
    rewrite A, B, (pixint_even E E_proper sy dx Ho). ring.
  - assert (Q0 : Qeq_bool s 0 = true) by (apply Qeq_bool_iff; exact Hs). rewrite Q0.
    assert (A : dx * c + dy * s == - dx) by (rewrite Hc, Hs; ring).
    assert (B : - dx * s + dy * c == - dy) by (rewrite Hc, Hs; ring).
    rewrite A, B, (pixint_even E E_proper sx dx Ho), (pixint_even E E_proper sy dy Ho). reflexivity.
  - assert (Q0 : Qeq_bool s 0 = false).
    { destruct (Qeq_bool s 0) eqn:Q0; [|reflexivity]. apply Qeq_bool_iff in Q0. rewrite Hs in Q0. discriminate. }
    rewrite Q0.
    assert (A : dx * c + dy * s == - dy) by (rewrite Hc, Hs; ring).
    assert (B : - dx * s + dy * c == dx) by (rewrite Hc, Hs; ring).
    rewrite A, B, (pixint_even E E_proper sx dy Ho). ring.
Qed.

Lemma rot_pos s sx sy : 0 < sx -> 0 < sy -> 0 < rot_sx s sx sy /\ 0 < rot_sy s sx sy.
Proof. unfold rot_sx, rot_sy. destruct (Qeq_bool s 0); auto. Qed.

(* circular_is_elliptical_equal_widths, PRF: at multiples of 90 degrees *)
Lemma g_prf_cs_equal_widths x y flux x_0 y_0 w c s :
  erf_odd E -> axis_aligned c s ->
  g_prf_cs E sqrt2 f2s x y flux x_0 y_0 w w c s == cg_prf E sqrt2 f2s x y flux x_0 y_0 w.
Proof.
  intros Ho Ha. rewrite g_prf_cs_axis by assumption. rewrite cg_prf_sep.
  unfold rot_sx, rot_sy. destruct (Qeq_bool s 0); reflexivity.
Qed.

(* a rotation by a further 90 degrees swaps the roles of the two widths *)
Lemma g_prf_cs_quarter_turn x y flux x_0 y_0 xf yf c s :
  erf_odd E ->
  g_prf_cs E sqrt2 f2s x y flux x_0 y_0 xf yf c s
  == g_prf_cs E sqrt2 f2s x y flux x_0 y_0 yf xf (- s) c.
Proof.
  intros Ho. rewrite !g_prf_cs_pixint.
  assert (A : (x - x_0) * - s + (y - y_0) * c == - (x - x_0) * s + (y - y_0) * c) by ring.
  assert (B : - (x - x_0) * c + (y - y_0) * - s == - ((x - x_0) * c + (y - y_0) * s)) by ring.
  rewrite A, B, (pixint_even E E_proper _ _ Ho). ring.
Qed.
End Models.

(* linearity in flux *)
Lemma sep_prf_linear E sx sy k f1 f2 x_0 y_0 x y :
  sep_prf E sx sy (k * f1 + f2) x_0 y_0 x y
  == k * sep_prf E sx sy f1 x_0 y_0 x y + sep_prf E sx sy f2 x_0 y_0 x y.
Proof. unfold sep_prf, Qdiv. ring. Qed.

Lemma cgs_prf_linear E sqrt2 x y k f1 f2 x_0 y_0 sigma :
  cgs_prf E sqrt2 x y (k * f1 + f2) x_0 y_0 sigma
  == k * cgs_prf E sqrt2 x y f1 x_0 y_0 sigma + cgs_prf E sqrt2 x y f2 x_0 y_0 sigma.
Proof. unfold cgs_prf, Qdiv. ring. Qed.
Lemma cg_prf_linear E sqrt2 f2s x y k f1 f2 x_0 y_0 w :
  cg_prf E sqrt2 f2s x y (k * f1 + f2) x_0 y_0 w
  == k * cg_prf E sqrt2 f2s x y f1 x_0 y_0 w + cg_prf E sqrt2 f2s x y f2 x_0 y_0 w.
Proof. unfold cg_prf, Qdiv. cbv zeta. ring. Qed.
Lemma g_prf_linear E cosf sinf d2r sqrt2 f2s x y k f1 f2 x_0 y_0 xf yf th :
  g_prf E cosf sinf d2r sqrt2 f2s x y (k * f1 + f2) x_0 y_0 xf yf th
  == k * g_prf E cosf sinf d2r sqrt2 f2s x y f1 x_0 y_0 xf yf th
     + g_prf E cosf sinf d2r sqrt2 f2s x y f2 x_0 y_0 xf yf th.
Proof. unfold g_prf, g_prf_cs, Qdiv. cbv zeta. ring. Qed.
Lemma g_psf_linear ex cosf sinf d2r f2s pi x y k f1 f2 x_0 y_0 xf yf th :
  g_psf ex cosf sinf d2r f2s pi x y (k * f1 + f2) x_0 y_0 xf yf th
  == k * g_psf ex cosf sinf d2r f2s pi x y f1 x_0 y_0 xf yf th
     + g_psf ex cosf sinf d2r f2s pi x y f2 x_0 y_0 xf yf th.
Proof. unfold g_psf, g_psf_cs, Qdiv. cbv zeta. ring. Qed.
Lemma cg_psf_linear ex f2s pi x y k f1 f2 x_0 y_0 w :
  cg_psf ex f2s pi x y (k * f1 + f2) x_0 y_0 w
  == k * cg_psf ex f2s pi x y f1 x_0 y_0 w + cg_psf ex f2s pi x y f2 x_0 y_0 w.
Proof. unfold cg_psf, Qdiv. cbv zeta. ring. Qed.
Lemma moffat_psf_linear pw pi x y k f1 f2 x_0 y_0 al be :
  moffat_psf pw pi x y (k * f1 + f2) x_0 y_0 al be
  == k * moffat_psf pw pi x y f1 x_0 y_0 al be + moffat_psf pw pi x y f2 x_0 y_0 al be.
Proof. unfold moffat_psf, Qdiv. cbv zeta. ring. Qed.

(* ------------------------------------------------------------------ *)
(* Part A.3: centred on (x_0, y_0)                                       *)
(* ------------------------------------------------------------------ *)
Section Centred.
Context (E : Q -> Q) (E_proper : Proper (Qeq ==> Qeq) E).
Variables (sqrt2 f2s : Q).

(* the value depends on (x, y, x_0, y_0) only through (x - x_0, y - y_0) *)
Lemma g_prf_cs_translate x y flux x_0 y_0 xf yf c s t u :
  g_prf_cs E sqrt2 f2s (x + t) (y + u) flux (x_0 + t) (y_0 + u) xf yf c s
  == g_prf_cs E sqrt2 f2s x y flux x_0 y_0 xf yf c s.
Proof.
  rewrite !g_prf_cs_pixint.
  assert (A : x + t - (x_0 + t) == x - x_0) by ring.
  assert (B : y + u - (y_0 + u) == y - y_0) by ring.
  rewrite A, B. reflexivity.
Qed.
Lemma sep_prf_translate sx sy flux x_0 y_0 x y t u :
  sep_prf E sx sy flux (x_0 + t) (y_0 + u) (x + t) (y + u) == sep_prf E sx sy flux x_0 y_0 x y.
Proof.
  unfold sep_prf.
  assert (A : x + t - (x_0 + t) == x - x_0) by ring.
  assert (B : y + u - (y_0 + u) == y - y_0) by ring.
  rewrite A, B. reflexivity.
Qed.

(* point symmetry about the centre, any rotation *)
Lemma g_prf_cs_point_symmetric flux x_0 y_0 xf yf c s u v :
  erf_odd E ->
  g_prf_cs E sqrt2 f2s (x_0 + u) (y_0 + v) flux x_0 y_0 xf yf c s
  == g_prf_cs E sqrt2 f2s (x_0 - u) (y_0 - v) flux x_0 y_0 xf yf c s.
Proof.
  intros Ho. rewrite !g_prf_cs_pixint.
  assert (A : (x_0 - u - x_0) * c + (y_0 - v - y_0) * s == - ((x_0 + u - x_0) * c + (y_0 + v - y_0) * s)) by ring.
  assert (B : - (x_0 - u - x_0) * s + (y_0 - v - y_0) * c == - (- (x_0 + u - x_0) * s + (y_0 + v - y_0) * c)) by ring.
  rewrite A, B, !(pixint_even E E_proper _ _ Ho). reflexivity.
Qed.

(* mirror symmetry in each axis separately for the separable (circular, axis-aligned) PRFs *)
Lemma sep_prf_mirror_x sx sy flux x_0 y_0 u y :
  erf_odd E -> sep_prf E sx sy flux x_0 y_0 (x_0 + u) y == sep_prf E sx sy flux x_0 y_0 (x_0 - u) y.
Proof.
  intros Ho. unfold sep_prf.
  assert (A : x_0 - u - x_0 == - (x_0 + u - x_0)) by ring.
  rewrite A, (pixint_even E E_proper _ _ Ho). reflexivity.
Qed.
Lemma sep_prf_mirror_y sx sy flux x_0 y_0 x v :
  erf_odd E -> sep_prf E sx sy flux x_0 y_0 x (y_0 + v) == sep_prf E sx sy flux x_0 y_0 x (y_0 - v).
Proof.
  intros Ho. unfold sep_prf.
  assert (A : y_0 - v - y_0 == - (y_0 + v - y_0)) by ring.
  rewrite A, (pixint_even E E_proper _ _ Ho). reflexivity.
Qed.
End Centred.

(* ------------------------------------------------------------------ *)
(* Part A.4: analytic PSFs                                               *)
(* ------------------------------------------------------------------ *)
Section PSF.
Context (ex : Q -> Q) (ex_proper : Proper (Qeq ==> Qeq) ex).
Variables (f2s pi : Q).

(* circular_is_elliptical_equal_widths, PSF: any rotation; only c^2 + s^2 = 1 is used
   (nothing about sin(2 theta): its coefficient vanishes for equal widths) *)
Lemma g_psf_cs_equal_widths x y flux x_0 y_0 w c s s2 :
  c * c + s * s == 1 ->
  g_psf_cs ex f2s pi x y flux x_0 y_0 w w c s s2 == cg_psf ex f2s pi x y flux x_0 y_0 w.
Proof.
  intros Hcs. unfold g_psf_cs, cg_psf. cbv zeta.
  set (sg := w * f2s).
  assert (A : 2 * pi * sg * sg == 2 * pi * (sg * sg)) by ring.
  rewrite A. f_equiv. apply ex_proper. unfold Qdiv.
  setoid_replace ((1 # 2) * (c * c * / (sg * sg) + s * s * / (sg * sg)))
    with ((1 # 2) * / (sg * sg)) by (rewrite <- Qmult_plus_distr_l, Hcs; ring).
  setoid_replace ((1 # 2) * (s * s * / (sg * sg) + c * c * / (sg * sg)))
    with ((1 # 2) * / (sg * sg)) by (rewrite <- Qmult_plus_distr_l, (Qplus_comm (s * s)), Hcs; ring).
  ring.
Qed.

Lemma g_psf_cs_translate x y flux x_0 y_0 xf yf c s s2 t u :
  g_psf_cs ex f2s pi (x + t) (y + u) flux (x_0 + t) (y_0 + u) xf yf c s s2
  == g_psf_cs ex f2s pi x y flux x_0 y_0 xf yf c s s2.
Proof. unfold g_psf_cs. cbv zeta. f_equiv. apply ex_proper. unfold Qdiv. ring. Qed.
Lemma g_psf_cs_point_symmetric flux x_0 y_0 xf yf c s s2 u v :
  g_psf_cs ex f2s pi (x_0 + u) (y_0 + v) flux x_0 y_0 xf yf c s s2
  == g_psf_cs ex f2s pi (x_0 - u) (y_0 - v) flux x_0 y_0 xf yf c s s2.
Proof. unfold g_psf_cs. cbv zeta. f_equiv. apply ex_proper. unfold Qdiv. ring. Qed.

Lemma cg_psf_translate x y flux x_0 y_0 w t u :
  cg_psf ex f2s pi (x + t) (y + u) flux (x_0 + t) (y_0 + u) w == cg_psf ex f2s pi x y flux x_0 y_0 w.
Proof. unfold cg_psf. cbv zeta. f_equiv. apply ex_proper. unfold Qdiv. ring. Qed.
(* circular: depends on the offsets only through their squares (all four mirror images agree) *)
Lemma cg_psf_mirror flux x_0 y_0 w u v u' v' :
  u' * u' == u * u -> v' * v' == v * v ->
  cg_psf ex f2s pi (x_0 + u') (y_0 + v') flux x_0 y_0 w == cg_psf ex f2s pi (x_0 + u) (y_0 + v) flux x_0 y_0 w.
Proof.
  intros Hu Hv. unfold cg_psf. cbv zeta. f_equiv. apply ex_proper. unfold Qdiv.
  setoid_replace ((x_0 + u' - x_0) * (x_0 + u' - x_0)) with (u * u) by (rewrite <- Hu; ring).
  setoid_replace ((y_0 + v' - y_0) * (y_0 + v' - y_0)) with (v * v) by (rewrite <- Hv; ring).
  ring.
Qed.

Lemma g_psf_cs_nonneg x y flux x_0 y_0 xf yf c s s2 :
  (forall t, 0 <= ex t) -> 0 < pi -> 0 < (xf * f2s) * (yf * f2s) -> 0 <= flux ->
  0 <= g_psf_cs ex f2s pi x y flux x_0 y_0 xf yf c s s2.
Proof.
  intros Hex Hpi Hs Hf. unfold g_psf_cs. cbv zeta.
  apply Qmult_le_0_compat; [|apply Hex].
  unfold Qdiv. apply Qmult_le_0_compat; [assumption|].
  apply Qlt_le_weak, Qinv_lt_0_compat.
  set (P := xf * f2s * (yf * f2s)) in *.
  setoid_replace (2 * pi * (xf * f2s) * (yf * f2s)) with (2 * (pi * P)) by (unfold P; ring).
  assert (0 < pi * P) by (apply Qmult_lt_0_compat; assumption). lra.
Qed.
Lemma cg_psf_nonneg x y flux x_0 y_0 w :
  (forall t, 0 <= ex t) -> 0 < pi -> ~ w * f2s == 0 -> 0 <= flux ->
  0 <= cg_psf ex f2s pi x y flux x_0 y_0 w.
Proof.
  intros Hex Hpi Hs Hf. unfold cg_psf. cbv zeta.
  apply Qmult_le_0_compat; [|apply Hex].
  unfold Qdiv. apply Qmult_le_0_compat; [assumption|].
  apply Qlt_le_weak, Qinv_lt_0_compat.
  set (sg := w * f2s) in *.
  assert (0 < sg * sg) by nra.
  set (P := sg * sg) in *.
  setoid_replace (2 * pi * P) with (2 * (pi * P)) by ring.
  assert (0 < pi * P) by (apply Qmult_lt_0_compat; assumption). lra.
Qed.
End PSF.

Section Moffat.
Variables (pw : Q -> Q -> Q) (pi : Q).
Hypothesis pw_proper : forall a a' b, a == a' -> pw a b == pw a' b.
Lemma moffat_psf_translate x y flux x_0 y_0 al be t u :
  moffat_psf pw pi (x + t) (y + u) flux (x_0 + t) (y_0 + u) al be == moffat_psf pw pi x y flux x_0 y_0 al be.
Proof. unfold moffat_psf. cbv zeta. f_equiv. apply pw_proper. unfold Qdiv. ring. Qed.
Lemma moffat_psf_mirror flux x_0 y_0 al be u v u' v' :
  u' * u' == u * u -> v' * v' == v * v ->
  moffat_psf pw pi (x_0 + u') (y_0 + v') flux x_0 y_0 al be == moffat_psf pw pi (x_0 + u) (y_0 + v) flux x_0 y_0 al be.
Proof.
  intros Hu Hv. unfold moffat_psf. cbv zeta. f_equiv. apply pw_proper. unfold Qdiv.
  setoid_replace ((x_0 + u' - x_0) * (x_0 + u' - x_0)) with (u * u) by (rewrite <- Hu; ring).
  setoid_replace ((y_0 + v' - y_0) * (y_0 + v' - y_0)) with (v * v) by (rewrite <- Hv; ring).
  ring.
Qed.
Lemma moffat_psf_nonneg x y flux x_0 y_0 al be :
  (forall a b, 0 <= pw a b) -> 0 < pi -> ~ al == 0 -> 1 <= be -> 0 <= flux ->
  0 <= moffat_psf pw pi x y flux x_0 y_0 al be.
Proof.
  intros Hpw Hpi Hal Hbe Hf. unfold moffat_psf. cbv zeta.
  apply Qmult_le_0_compat; [|apply Hpw].
  unfold Qdiv. apply Qmult_le_0_compat; [nra|].
  apply Qlt_le_weak, Qinv_lt_0_compat.
  assert (0 < al * al) by nra. apply Qmult_lt_0_compat; assumption.
Qed.
End Moffat.

(* ------------------------------------------------------------------ *)
(* Part A.5: GaussianPRF at other rotations does NOT sum to its flux     *)
(* ------------------------------------------------------------------ *)
Lemma qsum_split f a n m :
  qsum f a (n + m) == qsum f a n + qsum f (a + Z.of_nat n)%Z m.
Proof.
  revert a; induction n as [|n IH]; intros a.
  - cbn [plus qsum]. replace (a + Z.of_nat 0)%Z with a by lia. ring.
  - cbn [plus qsum]. rewrite IH. replace (a + 1 + Z.of_nat n)%Z with (a + Z.of_nat (S n))%Z by lia. ring.
Qed.

Lemma qsum_le f g a n :
  (forall i, (a <= i < a + Z.of_nat n)%Z -> f i <= g i) -> qsum f a n <= qsum g a n.
Proof.
  revert a; induction n as [|n IH]; intros a H; cbn [qsum]; [lra|].
  assert (f a <= g a) by (apply H; lia).
  assert (qsum f (a + 1)%Z n <= qsum g (a + 1)%Z n) by (apply IH; intros i Hi; apply H; lia).
  lra.
Qed.

(* non-negative summands: a larger window has a larger sum *)
Lemma qsum_window_mono f a n a' n' :
  (forall i, 0 <= f i) -> (a' <= a)%Z -> (a + Z.of_nat n <= a' + Z.of_nat n')%Z ->
  qsum f a n <= qsum f a' n'.
Proof.
  intros Hf H1 H2.
  set (p := Z.to_nat (a - a')). set (r := Z.to_nat (a' + Z.of_nat n' - (a + Z.of_nat n))).
  assert (Hn : n' = (p + (n + r))%nat) by (unfold p, r; lia).
  rewrite Hn, qsum_split, qsum_split.
  replace (a' + Z.of_nat p)%Z with a by (unfold p; lia).
  assert (0 <= qsum f a' p) by (apply qsum_nonneg; intros; apply Hf).
  assert (0 <= qsum f (a + Z.of_nat n)%Z r) by (apply qsum_nonneg; intros; apply Hf).
  lra.
Qed.

Lemma qsum2_window_mono f a n c m a' n' c' m' :
  (forall x y, 0 <= f x y) ->
  (a' <= a)%Z -> (a + Z.of_nat n <= a' + Z.of_nat n')%Z ->
  (c' <= c)%Z -> (c + Z.of_nat m <= c' + Z.of_nat m')%Z ->
  qsum2 f a n c m <= qsum2 f a' n' c' m'.
Proof.
  intros Hf H1 H2 H3 H4. unfold qsum2.
  apply Qle_trans with (qsum (fun i => qsum (fun j => f (inject_Z i) (inject_Z j)) c' m') a n).
  - apply qsum_le. intros i _. apply qsum_window_mono; [intros; apply Hf|assumption|assumption].
  - apply qsum_window_mono; [|assumption|assumption].
    intros i. apply qsum_nonneg. intros; apply Hf.
Qed.

(* the stand-in erf_std = clip(t, -1, 1) has every property assumed of erf *)
Global Instance Qclip_proper : Proper (Qeq ==> Qeq ==> Qeq ==> Qeq) Qclip.
Proof. intros a a' Ha b b' Hb c c' Hc. unfold Qclip. rewrite Ha, Hb, Hc. reflexivity. Qed.
Global Instance erf_std_proper : Proper (Qeq ==> Qeq) erf_std.
Proof. intros a a' Ha. unfold erf_std. rewrite Ha. reflexivity. Qed.

Lemma Qclip_cases v lo hi : lo <= hi ->
  (v <= lo /\ Qclip v lo hi == lo) \/ (lo <= v <= hi /\ Qclip v lo hi == v) \/ (hi <= v /\ Qclip v lo hi == hi).
Proof.
  intros Hlh. unfold Qclip.
  destruct (Qlt_le_dec v lo) as [H1|H1].
  - left. split; [lra|]. rewrite (Q.max_r v lo) by lra. apply Q.min_l; assumption.
  - rewrite (Q.max_l v lo) by assumption.
    destruct (Qlt_le_dec hi v) as [H2|H2].
    + right; right. split; [lra|]. apply Q.min_r; lra.
    + right; left. split; [lra|]. apply Q.min_l; assumption.
Qed.

Lemma erf_std_monotone : erf_monotone erf_std.
Proof.
  intros a b Hab. unfold erf_std.
  destruct (Qclip_cases a (-1) 1) as [[? ->]|[[? ->]|[? ->]]]; [lra| | |];
  destruct (Qclip_cases b (-1) 1) as [[? ->]|[[? ->]|[? ->]]]; lra.
Qed.
Lemma erf_std_odd : erf_odd erf_std.
Proof.
  intros t. unfold erf_std.
  destruct (Qclip_cases t (-1) 1) as [[? ->]|[[? ->]|[? ->]]]; [lra| | |];
  destruct (Qclip_cases (- t) (-1) 1) as [[? ->]|[[? ->]|[? ->]]]; lra.
Qed.
Lemma erf_std_bounded : erf_bounded erf_std.
Proof.
  intros t. unfold erf_std.
  destruct (Qclip_cases t (-1) 1) as [[? ->]|[[? ->]|[? ->]]]; lra.
Qed.
Lemma erf_std_limits : erf_limits erf_std.
Proof.
  intros e He. exists 1. intros t. unfold erf_std.
  destruct (Qclip_cases t (-1) 1) as [[? ->]|[[? ->]|[? ->]]]; [lra| | |]; split; intros; lra.
Qed.

(* witness: unit vector (3/5, 4/5) (53.13 deg), widths 1/2, centre (0, 0), flux 1: the 5x5
   window already sums to 33/25 > flux, and so does every window containing it *)
Lemma g_prf_rotated_refuted :
  exists E : Q -> Q, Proper (Qeq ==> Qeq) E /\ erf_monotone E /\ erf_odd E /\ erf_bounded E /\ erf_limits E /\
  exists sqrt2 f2s xf yf c s flux x_0 y_0,
    c * c + s * s == 1 /\ 0 < sqrt2 * (xf * f2s) /\ 0 < sqrt2 * (yf * f2s) /\ 0 < flux /\
    forall a n b m, (a <= -2)%Z -> (3 <= a + Z.of_nat n)%Z -> (b <= -2)%Z -> (3 <= b + Z.of_nat m)%Z ->
      flux * (33 # 25) <= qsum2 (fun x y => g_prf_cs E sqrt2 f2s x y flux x_0 y_0 xf yf c s) a n b m.
Proof.
  exists erf_std. split; [exact erf_std_proper|]. split; [exact erf_std_monotone|].
  split; [exact erf_std_odd|]. split; [exact erf_std_bounded|]. split; [exact erf_std_limits|].
  exists 1, 1, (1 # 2), (1 # 2), (3 # 5), (4 # 5), 1, 0, 0.
  split; [reflexivity|]. split; [reflexivity|]. split; [reflexivity|]. split; [reflexivity|].
  intros a n b m H1 H2 H3 H4.
  apply Qle_trans with (qsum2 (fun x y => g_prf_cs erf_std 1 1 x y 1 0 0 (1 # 2) (1 # 2) (3 # 5) (4 # 5))
                              (-2) 5 (-2) 5).
  - vm_compute. discriminate.
  - apply qsum2_window_mono; try lia.
    intros x y. apply g_prf_cs_nonneg; [exact erf_std_monotone|reflexivity|reflexivity|discriminate].
Qed.

(* ------------------------------------------------------------------ *)
(* Part B: ImagePSF                                                      *)
(* ------------------------------------------------------------------ *)
Lemma inject_Z_pos_neq0 z : (0 < z)%Z -> ~ inject_Z z == 0.
Proof. intros H E0. unfold Qeq in E0. cbn in E0. lia. Qed.
Lemma inject_Z_pos z : (0 < z)%Z -> 0 < inject_Z z.
Proof. intros H. change 0 with (inject_Z 0). rewrite <- Zlt_Qlt. exact H. Qed.

(* the point whose interpolation coordinate is t (t = i for the i-th sample) *)
Definition sample_at (os : Z) (o c_0 t : Q) : Q := c_0 + (t - o) / inject_Z os.

Lemma ip_xi_sample osx ox x_0 t : (0 < osx)%Z -> ip_xi osx ox (sample_at osx ox x_0 t) x_0 == t.
Proof. intros H. unfold ip_xi, sample_at. field. apply inject_Z_pos_neq0, H. Qed.
Lemma ip_yi_sample osy oy y_0 t : (0 < osy)%Z -> ip_yi osy oy (sample_at osy oy y_0 t) y_0 == t.
Proof. intros H. unfold ip_yi, sample_at. field. apply inject_Z_pos_neq0, H. Qed.
(* conversely: the only point with interpolation coordinate t *)
Lemma ip_xi_inv osx ox x x_0 : (0 < osx)%Z -> x == sample_at osx ox x_0 (ip_xi osx ox x x_0).
Proof. intros H. unfold ip_xi, sample_at. field. apply inject_Z_pos_neq0, H. Qed.
Lemma ip_yi_inv osy oy y y_0 : (0 < osy)%Z -> y == sample_at osy oy y_0 (ip_yi osy oy y y_0).
Proof. intros H. unfold ip_yi, sample_at. field. apply inject_Z_pos_neq0, H. Qed.

Lemma sample_at_mono os o c_0 t t' : (0 < os)%Z -> (t <= t' <-> sample_at os o c_0 t <= sample_at os o c_0 t').
Proof.
  intros H. unfold sample_at, Qdiv. pose proof (Qinv_lt_0_compat _ (inject_Z_pos _ H)) as P.
  set (r := / inject_Z os) in *.
  pose proof (Qmult_le_r (t - o) (t' - o) r P) as M. split; intros H0.
  - assert (M1 : t - o <= t' - o) by lra. apply M in M1. lra.
  - assert (M1 : (t - o) * r <= (t' - o) * r) by lra. apply M in M1. lra.
Qed.

Lemma Qltb_lt a b : Qltb a b = true <-> a < b.
Proof.
  unfold Qltb. rewrite negb_true_iff. split; intros H.
  - apply Qnot_le_lt. intros C. apply Qle_bool_iff in C. congruence.
  - destruct (Qle_bool b a) eqn:C; [|reflexivity]. apply Qle_bool_iff in C. lra.
Qed.
Lemma Qltb_ge a b : Qltb a b = false <-> b <= a.
Proof.
  unfold Qltb. rewrite negb_false_iff. apply Qle_bool_iff.
Qed.

(* invalid is exactly "outside [0, n-1]" *)
Lemma invalid_false_iff nx ny xi yi :
  invalid nx ny xi yi = false <-> (0 <= xi <= inject_Z (nx - 1) /\ 0 <= yi <= inject_Z (ny - 1)).
Proof.
  unfold invalid. rewrite !orb_false_iff, !Qltb_ge. tauto.
Qed.
Lemma invalid_true_iff nx ny xi yi :
  invalid nx ny xi yi = true <-> (xi < 0 \/ inject_Z (nx - 1) < xi \/ yi < 0 \/ inject_Z (ny - 1) < yi).
Proof.
  unfold invalid. rewrite !orb_true_iff, !Qltb_lt. tauto.
Qed.

(* in terms of the evaluation point: outside the sampled range *)
Lemma ip_invalid_iff nx ny osy osx ox oy x y x_0 y_0 : (0 < osx)%Z -> (0 < osy)%Z ->
  invalid nx ny (ip_xi osx ox x x_0) (ip_yi osy oy y y_0) = true <->
  (x < sample_at osx ox x_0 0 \/ sample_at osx ox x_0 (inject_Z (nx - 1)) < x \/
   y < sample_at osy oy y_0 0 \/ sample_at osy oy y_0 (inject_Z (ny - 1)) < y).
Proof.
  intros Hx Hy. rewrite invalid_true_iff.
  pose proof (ip_xi_inv osx ox x x_0 Hx) as Ex. pose proof (ip_yi_inv osy oy y y_0 Hy) as Ey.
  set (xi := ip_xi osx ox x x_0) in *. set (yi := ip_yi osy oy y y_0) in *.
  pose proof (sample_at_mono osx ox x_0 0 xi Hx). pose proof (sample_at_mono osx ox x_0 xi 0 Hx).
  pose proof (sample_at_mono osx ox x_0 (inject_Z (nx - 1)) xi Hx).
  pose proof (sample_at_mono osx ox x_0 xi (inject_Z (nx - 1)) Hx).
  pose proof (sample_at_mono osy oy y_0 0 yi Hy). pose proof (sample_at_mono osy oy y_0 yi 0 Hy).
  pose proof (sample_at_mono osy oy y_0 (inject_Z (ny - 1)) yi Hy).
  pose proof (sample_at_mono osy oy y_0 yi (inject_Z (ny - 1)) Hy).
  rewrite Ex, Ey.
  split; intros [C|[C|[C|C]]];
    [left|right;left|right;right;left|right;right;right|left|right;left|right;right;left|right;right;right];
    apply Qnot_le_lt; intros D; (apply Qlt_not_le in C; apply C; tauto).
Qed.

(* the spline hypothesis: it interpolates its knots *)
Definition interpolates_knots (spl : list (list Q) -> Q -> Q -> Q) : Prop :=
  forall d xi yi i j, xi == inject_Z i -> yi == inject_Z j ->
    (0 <= i < ncols d)%Z -> (0 <= j < nrows d)%Z -> spl d xi yi == pix d j i.

Section ImageThm.
Variable spl : list (list Q) -> Q -> Q -> Q.

(* outside the sampled range: fill_value, whatever the spline does *)
Lemma ip_eval_outside data osy osx ox oy f x y flux x_0 y_0 : (0 < osx)%Z -> (0 < osy)%Z ->
  (x < sample_at osx ox x_0 0 \/ sample_at osx ox x_0 (inject_Z (ncols data - 1)) < x \/
   y < sample_at osy oy y_0 0 \/ sample_at osy oy y_0 (inject_Z (nrows data - 1)) < y) ->
  ip_eval spl data osy osx ox oy (Some f) x y flux x_0 y_0 = f.
Proof.
  intros Hx Hy Hout. unfold ip_eval.
  apply (ip_invalid_iff (ncols data) (nrows data) osy osx ox oy x y x_0 y_0 Hx Hy) in Hout.
  rewrite Hout. reflexivity.
Qed.

(* inside (or with fill_value None anywhere): flux times the spline at the oversampled index *)
Lemma ip_eval_inside data osy osx ox oy fillv x y flux x_0 y_0 : (0 < osx)%Z -> (0 < osy)%Z ->
  (fillv = None \/
   (sample_at osx ox x_0 0 <= x <= sample_at osx ox x_0 (inject_Z (ncols data - 1)) /\
    sample_at osy oy y_0 0 <= y <= sample_at osy oy y_0 (inject_Z (nrows data - 1)))) ->
  ip_eval spl data osy osx ox oy fillv x y flux x_0 y_0
  = Some (flux * spl data (ip_xi osx ox x x_0) (ip_yi osy oy y y_0)).
Proof.
  intros Hx Hy [->|Hin]; [reflexivity|]. unfold ip_eval. destruct fillv as [f|]; [|reflexivity].
  destruct (invalid _ _ _ _) eqn:I; [|reflexivity].
  apply (ip_invalid_iff (ncols data) (nrows data) osy osx ox oy x y x_0 y_0 Hx Hy) in I.
  destruct Hin as [[? ?] [? ?]]. destruct I as [C|[C|[C|C]]]; lra.
Qed.

(* imagepsf_sample_points: at the (i, j)-th sample point the value is flux * data[j][i] *)
Lemma ip_eval_sample data osy osx ox oy fillv flux x_0 y_0 i j :
  interpolates_knots spl -> (0 < osx)%Z -> (0 < osy)%Z ->
  (0 <= i < ncols data)%Z -> (0 <= j < nrows data)%Z ->
  exists v, ip_eval spl data osy osx ox oy fillv
                    (sample_at osx ox x_0 (inject_Z i)) (sample_at osy oy y_0 (inject_Z j)) flux x_0 y_0 = Some v
            /\ v == flux * pix data j i.
Proof.
  intros Hk Hx Hy Hi Hj. unfold ip_eval.
  pose proof (ip_xi_sample osx ox x_0 (inject_Z i) Hx) as Ex.
  pose proof (ip_yi_sample osy oy y_0 (inject_Z j) Hy) as Ey.
  set (xi := ip_xi osx ox _ x_0) in *. set (yi := ip_yi osy oy _ y_0) in *.
  assert (I : invalid (ncols data) (nrows data) xi yi = false).
  { apply invalid_false_iff. rewrite Ex, Ey, <- !Zle_Qle.
    change 0 with (inject_Z 0). rewrite <- !Zle_Qle. lia. }
  rewrite I. exists (flux * spl data xi yi).
  split; [destruct fillv; reflexivity|]. rewrite (Hk data xi yi i j Ex Ey Hi Hj). reflexivity.
Qed.
End ImageThm.

(* bounding box = sampled range padded by half an oversampled pixel on each side *)
Lemma ip_bbox_spec nx ny osy osx ox oy x_0 y_0 : (0 < osx)%Z -> (0 < osy)%Z ->
  let '((ylo, yhi), (xlo, xhi)) := ip_bbox nx ny osy osx ox oy x_0 y_0 in
  ylo == sample_at osy oy y_0 0 - (1 # 2) / inject_Z osy /\
  yhi == sample_at osy oy y_0 (inject_Z ny - 1) + (1 # 2) / inject_Z osy /\
  xlo == sample_at osx ox x_0 0 - (1 # 2) / inject_Z osx /\
  xhi == sample_at osx ox x_0 (inject_Z nx - 1) + (1 # 2) / inject_Z osx.
Proof.
  intros Hx Hy. unfold ip_bbox, sample_at. cbv zeta.
  pose proof (inject_Z_pos_neq0 _ Hx). pose proof (inject_Z_pos_neq0 _ Hy).
  repeat split; field; assumption.
Qed.
(* default origin: the centre of the array *)
Lemma default_origin_centre nx ny osx osy x_0 y_0 : (0 < osx)%Z -> (0 < osy)%Z ->
  sample_at osx (fst (default_origin nx ny)) x_0 ((inject_Z nx - 1) / 2) == x_0 /\
  sample_at osy (snd (default_origin nx ny)) y_0 ((inject_Z ny - 1) / 2) == y_0.
Proof.
  intros Hx Hy. unfold sample_at, default_origin. cbn [fst snd].
  pose proof (inject_Z_pos_neq0 _ Hx). pose proof (inject_Z_pos_neq0 _ Hy).
  split; field; assumption.
Qed.

(* the spline hypothesis is satisfiable: kspl (used to run the model) interpolates its knots *)
Lemma Qis_int_inject q z : q == inject_Z z -> Qis_int q = true /\ Qfloor q = z.
Proof.
  intros H. split.
  - unfold Qis_int. unfold Qeq in H. cbn in H. rewrite Z.mul_1_r in H. rewrite H.
    rewrite Z.mod_mul by discriminate. reflexivity.
  - rewrite H. apply Qfloor_Z.
Qed.
Lemma kspl_interpolates : interpolates_knots kspl.
Proof.
  intros d xi yi i j Hx Hy Hi Hj. unfold kspl, is_knot.
  destruct (Qis_int_inject xi i Hx) as [-> ->]. destruct (Qis_int_inject yi j Hy) as [-> ->].
  assert (I : invalid (ncols d) (nrows d) xi yi = false).
  { apply invalid_false_iff. rewrite Hx, Hy, <- !Zle_Qle.
    change 0 with (inject_Z 0). rewrite <- !Zle_Qle. lia. }
  rewrite I. reflexivity.
Qed.

(* ------------------------------------------------------------------ *)
(* Part C.1: bilinear weights                                            *)
(* ------------------------------------------------------------------ *)
(* weights of the lower / upper grid line along one axis (repaired code: a zero-width
   interval gets unit width) *)
Definition axis_hi (x0 x1 : Q) : Q := if Qeq_bool x1 x0 then x0 + 1 else x1.
Definition axis_lo_w (xi x0 x1 : Q) : Q := (axis_hi x0 x1 - Qclip xi x0 x1) / (axis_hi x0 x1 - x0).
Definition axis_hi_w (xi x0 x1 : Q) : Q := (Qclip xi x0 x1 - x0) / (axis_hi x0 x1 - x0).

Lemma Qclip_range v lo hi : lo <= hi -> lo <= Qclip v lo hi <= hi.
Proof. intros H. destruct (Qclip_cases v lo hi H) as [[? ->]|[[? ->]|[? ->]]]; lra. Qed.
Lemma Qclip_id v lo hi : lo <= v <= hi -> Qclip v lo hi == v.
Proof. intros [H1 H2]. assert (H : lo <= hi) by lra. destruct (Qclip_cases v lo hi H) as [[? ->]|[[? ->]|[? ->]]]; lra. Qed.
Lemma Qclip_below v lo hi : lo <= hi -> v <= lo -> Qclip v lo hi == lo.
Proof. intros H H1. destruct (Qclip_cases v lo hi H) as [[? ->]|[[? ->]|[? ->]]]; lra. Qed.
Lemma Qclip_above v lo hi : lo <= hi -> hi <= v -> Qclip v lo hi == hi.
Proof. intros H H1. destruct (Qclip_cases v lo hi H) as [[? ->]|[[? ->]|[? ->]]]; lra. Qed.

Lemma axis_hi_gt x0 x1 : x0 <= x1 -> x0 < axis_hi x0 x1 /\ x1 <= axis_hi x0 x1.
Proof.
  intros H. unfold axis_hi. destruct (Qeq_bool x1 x0) eqn:Q0.
  - apply Qeq_bool_iff in Q0. lra.
  - apply Qeq_bool_neq in Q0. split; [|lra].
    destruct (Qlt_le_dec x0 x1); [assumption|]. exfalso. apply Q0. lra.
Qed.

Lemma bilinear_weights_factor xi yi x0 x1 y0 y1 : x0 <= x1 -> y0 <= y1 ->
  Forall2 Qeq (bilinear_weights xi yi (x0, x1, y0, y1))
    [ axis_lo_w xi x0 x1 * axis_lo_w yi y0 y1; axis_hi_w xi x0 x1 * axis_lo_w yi y0 y1;
      axis_lo_w xi x0 x1 * axis_hi_w yi y0 y1; axis_hi_w xi x0 x1 * axis_hi_w yi y0 y1 ].
Proof.
  intros Hx Hy. unfold bilinear_weights, axis_lo_w, axis_hi_w. fold (axis_hi x0 x1). fold (axis_hi y0 y1).
  destruct (axis_hi_gt x0 x1 Hx) as [A1 A2]. destruct (axis_hi_gt y0 y1 Hy) as [B1 B2].
  set (X1 := axis_hi x0 x1) in *. set (Y1 := axis_hi y0 y1) in *.
  set (cx := Qclip xi x0 x1). set (cy := Qclip yi y0 y1).
  assert (NX : ~ X1 - x0 == 0) by lra. assert (NY : ~ Y1 - y0 == 0) by lra.
  repeat constructor; field; split; assumption.
Qed.

Lemma axis_weights_spec xi x0 x1 : x0 <= x1 ->
  0 <= axis_lo_w xi x0 x1 /\ 0 <= axis_hi_w xi x0 x1 /\ axis_lo_w xi x0 x1 + axis_hi_w xi x0 x1 == 1.
Proof.
  intros H. unfold axis_lo_w, axis_hi_w.
  destruct (axis_hi_gt x0 x1 H) as [A1 A2]. pose proof (Qclip_range xi x0 x1 H) as [C1 C2].
  set (X1 := axis_hi x0 x1) in *. set (cx := Qclip xi x0 x1) in *.
  assert (P : 0 < / (X1 - x0)) by (apply Qinv_lt_0_compat; lra).
  split; [|split].
  - unfold Qdiv. apply Qmult_le_0_compat; lra.
  - unfold Qdiv. apply Qmult_le_0_compat; lra.
  - field. lra.
Qed.

(* at the lower grid line (and below it): all the weight on the lower line *)
Lemma axis_weights_at_lo xi x0 x1 : x0 <= x1 -> xi <= x0 ->
  axis_lo_w xi x0 x1 == 1 /\ axis_hi_w xi x0 x1 == 0.
Proof.
  intros H Hxi. unfold axis_lo_w, axis_hi_w. destruct (axis_hi_gt x0 x1 H) as [A1 A2].
  rewrite (Qclip_below xi x0 x1 H Hxi). set (X1 := axis_hi x0 x1) in *.
  split; field; lra.
Qed.
(* at the upper grid line (and above it), when the interval is not degenerate *)
Lemma axis_weights_at_hi xi x0 x1 : x0 < x1 -> x1 <= xi ->
  axis_lo_w xi x0 x1 == 0 /\ axis_hi_w xi x0 x1 == 1.
Proof.
  intros H Hxi. unfold axis_lo_w, axis_hi_w, axis_hi.
  assert (Q0 : Qeq_bool x1 x0 = false).
  { destruct (Qeq_bool x1 x0) eqn:Q0; [|reflexivity]. apply Qeq_bool_iff in Q0. lra. }
  rewrite Q0. rewrite (Qclip_above xi x0 x1) by lra. split; field; lra.
Qed.
(* a single grid line on this axis (one-row / one-column grid): weight 1 on it *)
Lemma axis_weights_degenerate xi x0 x1 : x0 == x1 ->
  axis_lo_w xi x0 x1 == 1 /\ axis_hi_w xi x0 x1 == 0.
Proof.
  intros H. unfold axis_lo_w, axis_hi_w. assert (Hle : x0 <= x1) by lra.
  destruct (axis_hi_gt x0 x1 Hle) as [A1 A2]. pose proof (Qclip_range xi x0 x1 Hle) as [C1 C2].
  set (X1 := axis_hi x0 x1) in *. set (cx := Qclip xi x0 x1) in *.
  assert (Ecx : cx == x0) by lra. rewrite Ecx. split; field; lra.
Qed.
(* inside a non-degenerate interval: the standard linear weights *)
Lemma axis_weights_inside xi x0 x1 : x0 < x1 -> x0 <= xi <= x1 ->
  axis_lo_w xi x0 x1 == (x1 - xi) / (x1 - x0) /\ axis_hi_w xi x0 x1 == (xi - x0) / (x1 - x0).
Proof.
  intros H Hxi. unfold axis_lo_w, axis_hi_w, axis_hi.
  assert (Q0 : Qeq_bool x1 x0 = false).
  { destruct (Qeq_bool x1 x0) eqn:Q0; [|reflexivity]. apply Qeq_bool_iff in Q0. lra. }
  rewrite Q0. rewrite (Qclip_id xi x0 x1) by lra. split; reflexivity.
Qed.
(* clamping: a reference point outside the interval is treated as the nearest end *)
Lemma axis_weights_clamped xi x0 x1 : x0 <= x1 ->
  axis_lo_w xi x0 x1 == axis_lo_w (Qclip xi x0 x1) x0 x1 /\ axis_hi_w xi x0 x1 == axis_hi_w (Qclip xi x0 x1) x0 x1.
Proof.
  intros H. unfold axis_lo_w, axis_hi_w.
  rewrite (Qclip_id (Qclip xi x0 x1) x0 x1) by (apply Qclip_range; assumption). split; reflexivity.
Qed.

Definition qlsum (l : list Q) : Q := fold_right Qplus 0 l.

(* gridded_weights: weights >= 0 and sum to 1 *)
Lemma bilinear_weights_nonneg_sum xi yi x0 x1 y0 y1 : x0 <= x1 -> y0 <= y1 ->
  Forall (fun w => 0 <= w) (bilinear_weights xi yi (x0, x1, y0, y1)) /\
  qlsum (bilinear_weights xi yi (x0, x1, y0, y1)) == 1.
Proof.
  intros Hx Hy. pose proof (bilinear_weights_factor xi yi x0 x1 y0 y1 Hx Hy) as F.
  destruct (axis_weights_spec xi x0 x1 Hx) as [A1 [A2 A3]].
  destruct (axis_weights_spec yi y0 y1 Hy) as [B1 [B2 B3]].
  set (a := axis_lo_w xi x0 x1) in *. set (b := axis_hi_w xi x0 x1) in *.
  set (c := axis_lo_w yi y0 y1) in *. set (d := axis_hi_w yi y0 y1) in *.
  remember (bilinear_weights xi yi (x0, x1, y0, y1)) as ws.
  inversion F as [|w1 ? r1 ? E1 F1]; subst. inversion F1 as [|w2 ? r2 ? E2 F2]; subst.
  inversion F2 as [|w3 ? r3 ? E3 F3]; subst. inversion F3 as [|w4 ? r4 ? E4 F4]; subst.
  inversion F4; subst.
  split.
  - repeat constructor; [rewrite E1|rewrite E2|rewrite E3|rewrite E4]; apply Qmult_le_0_compat; assumption.
  - unfold qlsum. cbn [fold_right]. rewrite E1, E2, E3, E4.
    setoid_replace (a * c + (b * c + (a * d + (b * d + 0)))) with ((a + b) * (c + d)) by ring.
    rewrite A3, B3. reflexivity.
Qed.

(* ------------------------------------------------------------------ *)
(* Part C.2: bracketing interval on a strictly increasing grid           *)
(* ------------------------------------------------------------------ *)
Definition gfirst (l : list Q) : Q := nth 0 l 0.
Definition glast (l : list Q) : Q := nth (length l - 1) l 0.

Lemma ss_nth_lt l i j : StronglySorted Qlt l -> (i < j < length l)%nat -> nth i l 0 < nth j l 0.
Proof.
  intros H; revert i j; induction H as [|a r Hr IH Hall]; intros i j Hij; [cbn in Hij; lia|].
  destruct j as [|j]; [lia|]. destruct i as [|i].
  - cbn [nth]. rewrite Forall_forall in Hall. apply Hall, nth_In. cbn in Hij; lia.
  - cbn [nth]. apply IH. cbn in Hij; lia.
Qed.
Lemma ss_nth_le l i j : StronglySorted Qlt l -> (i <= j < length l)%nat -> nth i l 0 <= nth j l 0.
Proof.
  intros H Hij. destruct (Nat.eq_dec i j) as [->|N]; [lra|].
  apply Qlt_le_weak, ss_nth_lt; [assumption|lia].
Qed.

Lemma searchsorted_spec l v : StronglySorted Qlt l ->
  let k := length (filter (fun g => Qltb g v) l) in
  (k <= length l)%nat /\ (forall i, (i < k)%nat -> nth i l 0 < v) /\
  (forall i, (k <= i < length l)%nat -> v <= nth i l 0).
Proof.
  intros H; induction H as [|a r Hr IH Hall]; cbn zeta.
  - cbn. split; [lia|]. split; intros; lia.
  - cbn [filter]. destruct (Qltb a v) eqn:Lt.
    + apply Qltb_lt in Lt. cbn [length]. destruct IH as [I1 [I2 I3]]. split; [lia|]. split.
      * intros [|i] Hi; cbn [nth]; [assumption|]. apply I2. lia.
      * intros [|i] Hi; [lia|]. cbn [nth]. apply I3. lia.
    + apply Qltb_ge in Lt.
      assert (N : filter (fun g => Qltb g v) r = []).
      { rewrite Forall_forall in Hall. clear -Hall Lt. induction r as [|b r IHr]; [reflexivity|].
        cbn [filter]. assert (Hb : a < b) by (apply Hall; left; reflexivity).
        assert (Qltb b v = false) as -> by (apply Qltb_ge; lra).
        apply IHr. intros x Hx. apply Hall. right; assumption. }
      rewrite N. cbn [length]. split; [lia|]. split; [intros; lia|].
      intros [|i] Hi; cbn [nth]; [assumption|].
      rewrite Forall_forall in Hall. assert (a < nth i r 0) by (apply Hall, nth_In; lia). lra.
Qed.

Lemma pyget_nonneg {A} (l : list A) i d : (0 <= i)%Z -> pyget l i d = nth (Z.to_nat i) l d.
Proof. intros H. unfold pyget. destruct (i <? 0)%Z eqn:C; [lia|reflexivity]. Qed.

(* a grid with at least two lines: the bracketing interval [x0, x1] consists of two adjacent
   grid lines and contains the reference coordinate clamped to the grid's extent *)
Lemma bracket_spec l v : StronglySorted Qlt l -> (2 <= length l)%nat ->
  exists k : nat, bracket l v = Z.of_nat k /\ (k + 1 < length l)%nat /\
    pyget l (bracket l v) 0 = nth k l 0 /\ pyget l (bracket l v + 1) 0 = nth (k + 1) l 0 /\
    nth k l 0 < nth (k + 1) l 0 /\
    nth k l 0 <= Qclip v (gfirst l) (glast l) <= nth (k + 1) l 0 /\
    Qclip v (nth k l 0) (nth (k + 1) l 0) == Qclip v (gfirst l) (glast l).
Proof.
  intros H Hlen. destruct (searchsorted_spec l v H) as [S1 [S2 S3]].
  unfold bracket, searchsorted. set (c := length (filter (fun g => Qltb g v) l)) in *.
  set (n := length l) in *.
  assert (FL : gfirst l <= glast l) by (apply ss_nth_le; [assumption|fold n; lia]).
  exists (Z.to_nat (Zclip (Z.of_nat c - 1) 0 (Z.of_nat n - 2))).
  set (k := Z.to_nat (Zclip (Z.of_nat c - 1) 0 (Z.of_nat n - 2))).
  assert (Kz : Zclip (Z.of_nat c - 1) 0 (Z.of_nat n - 2) = Z.of_nat k) by (unfold k, Zclip; lia).
  assert (Kr : (k + 1 < n)%nat) by (unfold k, Zclip; lia).
  rewrite Kz. split; [reflexivity|]. split; [assumption|].
  rewrite !pyget_nonneg by lia. rewrite Nat2Z.id. replace (Z.to_nat (Z.of_nat k + 1)) with (k + 1)%nat by lia.
  split; [reflexivity|]. split; [reflexivity|].
  assert (Lt : nth k l 0 < nth (k + 1) l 0) by (apply ss_nth_lt; [assumption|fold n; lia]).
  split; [assumption|].
  assert (F0 : gfirst l <= nth k l 0) by (apply ss_nth_le; [assumption|fold n; lia]).
  assert (L1 : nth (k + 1) l 0 <= glast l) by (apply ss_nth_le; [assumption|fold n; lia]).
  destruct (Nat.eq_dec c 0) as [C0|C0].
  - (* v <= first *)
    assert (k = 0)%nat by (unfold k, Zclip; lia). subst k. replace (0 + 1)%nat with 1%nat in * by lia.
    rewrite H0 in *. cbn [plus] in *.
    assert (v <= nth 0 l 0) by (apply S3; lia). fold (gfirst l) in *.
    rewrite (Qclip_below v (gfirst l) (glast l)) by assumption.
    rewrite (Qclip_below v (gfirst l) (nth 1 l 0)) by lra.
    split; [lra|reflexivity].
  - destruct (Nat.eq_dec c n) as [Cn|Cn].
    + (* v > last *)
      assert (k + 1 = n - 1)%nat by (unfold k, Zclip; lia).
      assert (glast l < v) by (apply S2; lia).
      assert (E1 : nth (k + 1) l 0 = glast l) by (unfold glast; fold n; rewrite H0; reflexivity).
      rewrite (Qclip_above v (gfirst l) (glast l)) by lra.
      rewrite E1 in *. rewrite (Qclip_above v (nth k l 0) (glast l)) by lra.
      split; [lra|reflexivity].
    + (* first < v <= last, between l[c-1] and l[c] *)
      assert (k = c - 1)%nat by (unfold k, Zclip; lia).
      assert (A : nth k l 0 < v) by (apply S2; lia).
      assert (B : v <= nth (k + 1) l 0) by (apply S3; lia).
      rewrite (Qclip_id v (gfirst l) (glast l)) by lra.
      rewrite (Qclip_id v (nth k l 0) (nth (k + 1) l 0)) by lra.
      split; [lra|reflexivity].
Qed.

(* a grid with a single line on this axis: both ends of the "interval" are that line *)
Lemma bracket_single a v :
  pyget [a] (bracket [a] v) 0 = a /\ pyget [a] (bracket [a] v + 1) 0 = a.
Proof.
  unfold bracket, searchsorted. cbn [filter length].
  destruct (Qltb a v); cbn; split; reflexivity.
Qed.

(* ------------------------------------------------------------------ *)
(* Part C.3: the interpolator cache never changes a result               *)
(* ------------------------------------------------------------------ *)
Lemma pos_eqb_refl p : pos_eqb p p = true.
Proof. unfold pos_eqb. rewrite andb_true_iff. split; apply Qeq_bool_iff; reflexivity. Qed.
Lemma pos_eqb_iff p q : pos_eqb p q = true <-> (fst p == fst q /\ snd p == snd q).
Proof. unfold pos_eqb. rewrite andb_true_iff, !Qeq_bool_iff. tauto. Qed.
Lemma pos_eqb_sym p q : pos_eqb p q = pos_eqb q p.
Proof.
  destruct (pos_eqb p q) eqn:A, (pos_eqb q p) eqn:B; try reflexivity.
  - apply pos_eqb_iff in A. assert (pos_eqb q p = true) by (apply pos_eqb_iff; destruct A as [-> ->]; split; reflexivity). congruence.
  - apply pos_eqb_iff in B. assert (pos_eqb p q = true) by (apply pos_eqb_iff; destruct B as [-> ->]; split; reflexivity). congruence.
Qed.
Lemma pos_eqb_trans_l p q r : pos_eqb p q = true -> pos_eqb r p = pos_eqb r q.
Proof.
  intros H. apply pos_eqb_iff in H. destruct H as [H1 H2].
  destruct (pos_eqb r p) eqn:A, (pos_eqb r q) eqn:B; try reflexivity.
  - apply pos_eqb_iff in A. assert (pos_eqb r q = true) by (apply pos_eqb_iff; destruct A as [-> ->]; split; assumption). congruence.
  - apply pos_eqb_iff in B. assert (pos_eqb r p = true) by (apply pos_eqb_iff; destruct B as [-> ->]; split; symmetry; assumption). congruence.
Qed.

Lemma find_first_ext {A} (p q : A -> bool) l i : (forall a, In a l -> p a = q a) -> find_first p l i = find_first q l i.
Proof.
  revert i; induction l as [|a r IH]; intros i H; [reflexivity|]. cbn [find_first].
  rewrite (H a) by (left; reflexivity). destruct (q a); [reflexivity|]. apply IH. intros; apply H; right; assumption.
Qed.

(* find_first p l i = i + (index of the first match), or 0 when nothing matches *)
Lemma find_first_spec {A} (p : A -> bool) l i d :
  (exists n, (n < length l)%nat /\ p (nth n l d) = true /\ (forall m, (m < n)%nat -> p (nth m l d) = false)
             /\ find_first p l i = (i + Z.of_nat n)%Z)
  \/ ((forall a, In a l -> p a = false) /\ find_first p l i = 0%Z).
Proof.
  revert i; induction l as [|a r IH]; intros i.
  - right. split; [intros a []|reflexivity].
  - cbn [find_first]. destruct (p a) eqn:Pa.
    + left. exists 0%nat. cbn [length nth]. split; [lia|]. split; [assumption|]. split; [intros; lia|lia].
    + destruct (IH (i + 1)%Z) as [[n [N1 [N2 [N3 N4]]]]|[N1 N2]].
      * left. exists (S n). cbn [length nth]. split; [lia|]. split; [assumption|]. split; [|lia].
        intros [|m] Hm; [assumption|]. apply N3. lia.
      * right. split; [|assumption]. intros b [<-|Hb]; [assumption|apply N1, Hb].
Qed.

Definition canonical (g : grid) (k : Z) : Prop :=
  k = find_first (fun p => pos_eqb p (pyget (g_xypos g) k (0, 0))) (g_xypos g) 0.

(* every index produced by np.where(...)[0][0] is canonical *)
Lemma find_first_canonical g q : canonical g (find_first (fun p => pos_eqb p q) (g_xypos g) 0).
Proof.
  unfold canonical. set (l := g_xypos g).
  destruct (find_first_spec (fun p => pos_eqb p q) l 0 (0, 0)) as [[n [N1 [N2 [N3 N4]]]]|[N1 N2]].
  - rewrite Z.add_0_l in N4. rewrite N4.
    rewrite pyget_nonneg by lia. rewrite Nat2Z.id.
    rewrite <- N4. apply find_first_ext. intros a _. symmetry. apply pos_eqb_trans_l. assumption.
  - rewrite N2. destruct l as [|a r]; [reflexivity|].
    cbn [pyget Z.ltb Z.compare Z.to_nat nth find_first]. rewrite pos_eqb_refl. reflexivity.
Qed.

Definition cache_canonical (g : grid) (c : cache) : Prop :=
  forall q k, In (q, k) c -> k = find_first (fun p => pos_eqb p q) (g_xypos g) 0.

Lemma cache_get_in c p k : cache_get c p = Some k -> exists q, In (q, k) c /\ pos_eqb q p = true.
Proof.
  induction c as [|[q k'] r IH]; [discriminate|]. cbn [cache_get].
  destruct (pos_eqb q p) eqn:Eq.
  - intros [= ->]. exists q. split; [left; reflexivity|assumption].
  - intros H. destruct (IH H) as [q' [I1 I2]]. exists q'. split; [right; assumption|assumption].
Qed.

Lemma calc_interpolator_canonical g c k :
  cache_canonical g c -> canonical g k ->
  fst (calc_interpolator g c k) = k /\ cache_canonical g (snd (calc_interpolator g c k)).
Proof.
  intros Hc Hk. unfold calc_interpolator.
  destruct (cache_get c (pyget (g_xypos g) k (0, 0))) as [k'|] eqn:G; cbn [fst snd].
  - split; [|assumption]. destruct (cache_get_in _ _ _ G) as [q [I1 I2]].
    rewrite (Hc q k' I1). etransitivity; [|symmetry; exact Hk]. apply find_first_ext. intros a _.
    apply pos_eqb_trans_l. assumption.
  - split; [reflexivity|]. intros q k' Hin. apply in_app_or in Hin. destruct Hin as [Hin|[Hin|[]]].
    + apply Hc, Hin.
    + injection Hin as <- <-. exact Hk.
Qed.

Definition prepared (g : grid) (x_0 y_0 : Q) : list (Z * Q) :=
  let '((ll, lr, ul, ur), gxy) := find_bounding_points g x_0 y_0 in
  filter (fun iw => negb (Qeq_bool (snd iw) 0)) (combine [ll; lr; ul; ur] (bilinear_weights x_0 y_0 gxy)).

Lemma prepare_canonical g c x_0 y_0 :
  cache_canonical g c ->
  fst (prepare g c x_0 y_0) = prepared g x_0 y_0 /\ cache_canonical g (snd (prepare g c x_0 y_0)).
Proof.
  intros Hc. unfold prepare, prepared, find_bounding_points.
  set (x0 := pyget (g_xgrid g) (bracket (g_xgrid g) x_0) 0).
  set (x1 := pyget (g_xgrid g) (bracket (g_xgrid g) x_0 + 1) 0).
  set (y0 := pyget (g_ygrid g) (bracket (g_ygrid g) y_0) 0).
  set (y1 := pyget (g_ygrid g) (bracket (g_ygrid g) y_0 + 1) 0).
  cbv zeta.
  set (k1 := find_first (fun p => pos_eqb p (x0, y0)) (g_xypos g) 0).
  set (k2 := find_first (fun p => pos_eqb p (x1, y0)) (g_xypos g) 0).
  set (k3 := find_first (fun p => pos_eqb p (x0, y1)) (g_xypos g) 0).
  set (k4 := find_first (fun p => pos_eqb p (x1, y1)) (g_xypos g) 0).
  destruct (calc_interpolator_canonical g c k1 Hc (find_first_canonical g _)) as [E1 C1].
  destruct (calc_interpolator g c k1) as [i1 c1]. cbn [fst snd] in E1, C1.
  destruct (calc_interpolator_canonical g c1 k2 C1 (find_first_canonical g _)) as [E2 C2].
  destruct (calc_interpolator g c1 k2) as [i2 c2]. cbn [fst snd] in E2, C2.
  destruct (calc_interpolator_canonical g c2 k3 C2 (find_first_canonical g _)) as [E3 C3].
  destruct (calc_interpolator g c2 k3) as [i3 c3]. cbn [fst snd] in E3, C3.
  destruct (calc_interpolator_canonical g c3 k4 C3 (find_first_canonical g _)) as [E4 C4].
  destruct (calc_interpolator g c3 k4) as [i4 c4]. cbn [fst snd] in E4, C4.
  cbn [fst snd]. subst. split; [reflexivity|assumption].
Qed.

Section History.
Variable spl : list (list Q) -> Q -> Q -> Q.

(* one earlier evaluation: flux, x_0, y_0, points *)
Definition evalop := (Q * Q * Q * list (Q * Q))%type.
Definition cache_after (g : grid) (h : list evalop) : cache :=
  fold_left (fun c '(flux, x_0, y_0, pts) => snd (g_eval spl g c flux x_0 y_0 pts)) h [].

Lemma g_eval_fst g c flux x_0 y_0 pts :
  g_eval spl g c flux x_0 y_0 pts
  = (map (g_point spl g (fst (prepare g c x_0 y_0)) flux x_0 y_0) pts, snd (prepare g c x_0 y_0)).
Proof. unfold g_eval. destruct (prepare g c x_0 y_0). reflexivity. Qed.

Lemma cache_after_canonical g h : cache_canonical g (cache_after g h).
Proof.
  unfold cache_after.
  assert (G : forall c, cache_canonical g c ->
            cache_canonical g (fold_left (fun c '(flux, x_0, y_0, pts) => snd (g_eval spl g c flux x_0 y_0 pts)) h c)).
  { induction h as [|[[[flux x_0] y_0] pts] h IH]; intros c Hc; [assumption|].
    cbn [fold_left]. apply IH. rewrite g_eval_fst. cbn [snd]. apply prepare_canonical, Hc. }
  apply G. intros q k [].
Qed.

(* gridded_history_free: after ANY sequence of earlier evaluations (copy() shares the cache,
   deepcopy() duplicates it: neither changes it) the model returns what a fresh model returns *)
Lemma g_eval_history_free g h flux x_0 y_0 pts :
  fst (g_eval spl g (cache_after g h) flux x_0 y_0 pts) = fst (g_eval spl g [] flux x_0 y_0 pts).
Proof.
  rewrite !g_eval_fst. cbn [fst].
  destruct (prepare_canonical g (cache_after g h) x_0 y_0 (cache_after_canonical g h)) as [-> _].
  assert (E : cache_canonical g []) by (intros q k []).
  destruct (prepare_canonical g [] x_0 y_0 E) as [-> _]. reflexivity.
Qed.
Lemma g_eval_value g c flux x_0 y_0 pts : cache_canonical g c ->
  fst (g_eval spl g c flux x_0 y_0 pts) = map (g_point spl g (prepared g x_0 y_0) flux x_0 y_0) pts.
Proof.
  intros Hc. rewrite g_eval_fst. cbn [fst]. destruct (prepare_canonical g c x_0 y_0 Hc) as [-> _]. reflexivity.
Qed.
End History.

(* ------------------------------------------------------------------ *)
(* Part C.4: the value at a sample point is the weighted sum of stamps   *)
(* ------------------------------------------------------------------ *)
Lemma qlsum_filter_nz (F : Z -> Q) l :
  qlsum (map (fun kw : Z * Q => F (fst kw) * snd kw) (filter (fun iw => negb (Qeq_bool (snd iw) 0)) l))
  == qlsum (map (fun kw : Z * Q => F (fst kw) * snd kw) l).
Proof.
  induction l as [|[k w] r IH]; [reflexivity|]. cbn [filter snd].
  destruct (Qeq_bool w 0) eqn:W; cbn [negb map qlsum fold_right fst snd].
  - apply Qeq_bool_iff in W. fold (qlsum (map (fun kw : Z * Q => F (fst kw) * snd kw) r)).
    rewrite IH, W. ring.
  - fold (qlsum (map (fun kw : Z * Q => F (fst kw) * snd kw) r)).
    fold (qlsum (map (fun kw : Z * Q => F (fst kw) * snd kw) (filter (fun iw => negb (Qeq_bool (snd iw) 0)) r))).
    rewrite IH. reflexivity.
Qed.

Section Values.
Variable spl : list (list Q) -> Q -> Q -> Q.

Lemma model_values_sum g iw xi yi :
  model_values spl g iw xi yi == qlsum (map (fun kw : Z * Q => spl (stamp g (fst kw)) xi yi * snd kw) iw).
Proof.
  unfold model_values.
  assert (G : forall a, fold_left (fun result '(k, w) => result + spl (stamp g k) xi yi * w) iw a
                        == a + qlsum (map (fun kw : Z * Q => spl (stamp g (fst kw)) xi yi * snd kw) iw)).
  { induction iw as [|[k w] r IH]; intros a; cbn [fold_left map qlsum fold_right fst snd]; [ring|].
    rewrite IH. unfold qlsum. ring. }
  rewrite G. ring.
Qed.

Lemma qlsum_map_ext {A} (f h : A -> Q) l : (forall a, In a l -> f a == h a) -> qlsum (map f l) == qlsum (map h l).
Proof.
  induction l as [|a r IH]; intros H; [reflexivity|]. cbn [map qlsum fold_right].
  rewrite (H a) by (left; reflexivity). fold (qlsum (map f r)). fold (qlsum (map h r)).
  rewrite IH; [reflexivity|]. intros; apply H; right; assumption.
Qed.

(* the stamp stored for grid position p *)
Definition stamp_at (g : grid) (p : pos) : list (list Q) :=
  stamp g (find_first (fun q => pos_eqb q p) (g_xypos g) 0).
Lemma stamp_at_ext g p p' : pos_eqb p p' = true -> stamp_at g p = stamp_at g p'.
Proof.
  intros H. unfold stamp_at. f_equal. apply find_first_ext. intros a _. apply pos_eqb_trans_l, H.
Qed.
Definition stamps_uniform (g : grid) : Prop :=
  forall p, ncols (stamp_at g p) = g_nx g /\ nrows (stamp_at g p) = g_ny g.

(* the point at which the (i, j)-th pixel of the stamps is sampled *)
Definition g_sample (g : grid) (x_0 y_0 : Q) (i j : Z) : Q * Q :=
  (sample_at (g_osx g) ((inject_Z (g_nx g) - 1) / 2) x_0 (inject_Z i),
   sample_at (g_osy g) ((inject_Z (g_ny g) - 1) / 2) y_0 (inject_Z j)).

Lemma g_point_sample g x_0 y_0 flux i j :
  interpolates_knots spl -> (0 < g_osx g)%Z -> (0 < g_osy g)%Z -> stamps_uniform g ->
  (0 <= i < g_nx g)%Z -> (0 <= j < g_ny g)%Z ->
  let '(x0, x1, y0, y1) := snd (find_bounding_points g x_0 y_0) in
  exists v, g_point spl g (prepared g x_0 y_0) flux x_0 y_0 (g_sample g x_0 y_0 i j) = Some v /\
    match bilinear_weights x_0 y_0 (x0, x1, y0, y1) with
    | [w1; w2; w3; w4] =>
        v == flux * (pix (stamp_at g (x0, y0)) j i * w1 + pix (stamp_at g (x1, y0)) j i * w2
                     + pix (stamp_at g (x0, y1)) j i * w3 + pix (stamp_at g (x1, y1)) j i * w4)
    | _ => False
    end.
Proof.
  intros Hk Hx Hy Hu Hi Hj.
  unfold prepared, find_bounding_points.
  set (x0 := pyget (g_xgrid g) (bracket (g_xgrid g) x_0) 0).
  set (x1 := pyget (g_xgrid g) (bracket (g_xgrid g) x_0 + 1) 0).
  set (y0 := pyget (g_ygrid g) (bracket (g_ygrid g) y_0) 0).
  set (y1 := pyget (g_ygrid g) (bracket (g_ygrid g) y_0 + 1) 0).
  cbv zeta. cbn [snd].
  fold (stamp_at g (x0, y0)). 
  unfold g_point, g_sample.
  pose proof (ip_xi_sample (g_osx g) ((inject_Z (g_nx g) - 1) / 2) x_0 (inject_Z i) Hx) as Ex.
  pose proof (ip_yi_sample (g_osy g) ((inject_Z (g_ny g) - 1) / 2) y_0 (inject_Z j) Hy) as Ey.
  unfold ip_xi in Ex. unfold ip_yi in Ey.
  set (xi := inject_Z (g_osx g) * _ + _) in *. set (yi := inject_Z (g_osy g) * _ + _) in *.
  assert (I : invalid (g_nx g) (g_ny g) xi yi = false).
  { apply invalid_false_iff. rewrite Ex, Ey, <- !Zle_Qle.
    change 0 with (inject_Z 0). rewrite <- !Zle_Qle. lia. }
  rewrite I.
  set (iw := filter _ _).
  exists (flux * model_values spl g iw xi yi). split; [destruct (g_fill g); reflexivity|].
  unfold bilinear_weights. 
  set (w1 := _ / _). set (w2 := _ / _). set (w3 := _ / _). set (w4 := _ / _).
  rewrite model_values_sum.
  rewrite (qlsum_map_ext _ (fun kw : Z * Q => pix (stamp g (fst kw)) j i * snd kw)).
  - unfold iw. rewrite (qlsum_filter_nz (fun k => pix (stamp g k) j i)).
    unfold bilinear_weights. fold w1 w2 w3 w4.
    cbn [combine map qlsum fold_right fst snd]. unfold stamp_at. ring.
  - intros [k w] Hin. cbn [fst snd]. unfold iw in Hin. apply filter_In in Hin. destruct Hin as [Hin _].
    unfold bilinear_weights in Hin. cbn [combine] in Hin.
    assert (D : exists p, stamp g k = stamp_at g p).
    { destruct Hin as [E|[E|[E|[E|[]]]]]; injection E as <- _; eexists; unfold stamp_at; reflexivity. }
    destruct D as [p ->]. destruct (Hu p) as [U1 U2].
    rewrite (Hk (stamp_at g p) xi yi i j Ex Ey) by lia. reflexivity.
Qed.

(* outside the stamp: fill_value *)
Lemma g_point_outside g iw f flux x_0 y_0 x y : (0 < g_osx g)%Z -> (0 < g_osy g)%Z -> g_fill g = Some f ->
  (x < fst (g_sample g x_0 y_0 0 0) \/ fst (g_sample g x_0 y_0 (g_nx g - 1) 0) < x \/
   y < snd (g_sample g x_0 y_0 0 0) \/ snd (g_sample g x_0 y_0 0 (g_ny g - 1)) < y) ->
  g_point spl g iw flux x_0 y_0 (x, y) = f.
Proof.
  intros Hx Hy Hf Hout. unfold g_point. rewrite Hf.
  apply (ip_invalid_iff (g_nx g) (g_ny g) (g_osy g) (g_osx g) ((inject_Z (g_nx g) - 1) / 2)
           ((inject_Z (g_ny g) - 1) / 2) x y x_0 y_0 Hx Hy) in Hout.
  unfold ip_xi, ip_yi in Hout. rewrite Hout. reflexivity.
Qed.
End Values.

(* ------------------------------------------------------------------ *)
(* Part C.5: grid position / bilinear blend / nearest edge               *)
(* ------------------------------------------------------------------ *)
Lemma ss_nth_lt_inv l a b : StronglySorted Qlt l -> (a < length l)%nat -> (b < length l)%nat ->
  nth a l 0 < nth b l 0 -> (a < b)%nat.
Proof.
  intros H Ha Hb Hlt. destruct (le_lt_dec a b) as [Le|Gt].
  - destruct (Nat.eq_dec a b) as [->|]; [lra|lia].
  - assert (nth b l 0 <= nth a l 0) by (apply ss_nth_le; [assumption|lia]). lra.
Qed.

Lemma ss_in_range l x : StronglySorted Qlt l -> In x l -> gfirst l <= x <= glast l.
Proof.
  intros H Hin. destruct (In_nth l x 0 Hin) as [m [M1 <-]]. unfold gfirst, glast.
  split; apply ss_nth_le; try assumption; lia.
Qed.

(* the cell used along one axis: two adjacent grid lines (or the single line) containing the
   reference coordinate clamped to the extent of the grid *)
Lemma axis_cell l v : StronglySorted Qlt l -> l <> [] ->
  let x0 := pyget l (bracket l v) 0 in let x1 := pyget l (bracket l v + 1) 0 in
  let cv := Qclip v (gfirst l) (glast l) in
  In x0 l /\ In x1 l /\ x0 <= cv <= x1 /\ (forall x, In x l -> ~ (x0 < x < x1)) /\ Qclip v x0 x1 == cv /\
  (x0 == x1 -> length l = 1%nat).
Proof.
  intros H Hne. cbv zeta. destruct l as [|a [|b r]]; [congruence| |].
  - destruct (bracket_single a v) as [-> ->]. unfold gfirst, glast. cbn [length nth Nat.sub].
    assert (E : Qclip v a a == a) by (pose proof (Qclip_range v a a (Qle_refl a)); lra).
    repeat split; try (left; reflexivity); try lra. intros x _ C; lra.
  - set (l := a :: b :: r) in *.
    destruct (bracket_spec l v H) as [k [K1 [K2 [K3 [K4 [K5 [K6 K7]]]]]]]; [cbn; lia|].
    rewrite K3, K4. split; [apply nth_In; lia|]. split; [apply nth_In; lia|]. split; [assumption|].
    split; [|split; [assumption|intros C; lra]].
    intros x Hin [C1 C2]. destruct (In_nth l x 0 Hin) as [m [M1 M2]]. subst x.
    apply ss_nth_lt_inv in C1; try assumption; try lia.
    apply ss_nth_lt_inv in C2; try assumption; lia.
Qed.

Lemma axis_w_clip v x0 x1 cv : Qclip v x0 x1 == cv -> x0 <= cv <= x1 ->
  axis_lo_w v x0 x1 == axis_lo_w cv x0 x1 /\ axis_hi_w v x0 x1 == axis_hi_w cv x0 x1.
Proof.
  intros E R. unfold axis_lo_w, axis_hi_w. rewrite E. rewrite (Qclip_id cv x0 x1 R). split; reflexivity.
Qed.

Lemma axis_w_ext v v' x0 x1 : v == v' ->
  axis_lo_w v x0 x1 == axis_lo_w v' x0 x1 /\ axis_hi_w v x0 x1 == axis_hi_w v' x0 x1.
Proof. intros E. unfold axis_lo_w, axis_hi_w. rewrite E. split; reflexivity. Qed.

Definition wf_axes (g : grid) : Prop :=
  StronglySorted Qlt (g_xgrid g) /\ g_xgrid g <> [] /\ StronglySorted Qlt (g_ygrid g) /\ g_ygrid g <> [].

Section Blend.
Variable spl : list (list Q) -> Q -> Q -> Q.

(* the blend of the four corner stamps with the bilinear weights of the point (cx, cy) *)
Definition blend (g : grid) (x0 x1 y0 y1 cx cy : Q) (j i : Z) : Q :=
  pix (stamp_at g (x0, y0)) j i * (axis_lo_w cx x0 x1 * axis_lo_w cy y0 y1)
  + pix (stamp_at g (x1, y0)) j i * (axis_hi_w cx x0 x1 * axis_lo_w cy y0 y1)
  + pix (stamp_at g (x0, y1)) j i * (axis_lo_w cx x0 x1 * axis_hi_w cy y0 y1)
  + pix (stamp_at g (x1, y1)) j i * (axis_hi_w cx x0 x1 * axis_hi_w cy y0 y1).

(* main statement: for ANY reference point (x_0, y_0), with (cx, cy) = the reference point clamped
   to the extent of the grid (= the nearest point of the grid's hull), there is a cell
   [x0, x1] x [y0, y1] of adjacent grid lines containing (cx, cy) such that the model value at every
   sample point is flux times the bilinear blend at (cx, cy) of the ePSFs stored at the corners *)
Lemma gridded_value g x_0 y_0 flux :
  interpolates_knots spl -> (0 < g_osx g)%Z -> (0 < g_osy g)%Z -> stamps_uniform g -> wf_axes g ->
  let cx := Qclip x_0 (gfirst (g_xgrid g)) (glast (g_xgrid g)) in
  let cy := Qclip y_0 (gfirst (g_ygrid g)) (glast (g_ygrid g)) in
  exists x0 x1 y0 y1,
    In x0 (g_xgrid g) /\ In x1 (g_xgrid g) /\ In y0 (g_ygrid g) /\ In y1 (g_ygrid g) /\
    x0 <= cx <= x1 /\ y0 <= cy <= y1 /\
    (forall x, In x (g_xgrid g) -> ~ (x0 < x < x1)) /\ (forall y, In y (g_ygrid g) -> ~ (y0 < y < y1)) /\
    (x0 == x1 -> length (g_xgrid g) = 1%nat) /\ (y0 == y1 -> length (g_ygrid g) = 1%nat) /\
    forall i j, (0 <= i < g_nx g)%Z -> (0 <= j < g_ny g)%Z ->
      exists v, g_point spl g (prepared g x_0 y_0) flux x_0 y_0 (g_sample g x_0 y_0 i j) = Some v /\
                v == flux * blend g x0 x1 y0 y1 cx cy j i.
Proof.
  intros Hk Hx Hy Hu [SX [NX [SY NY]]]. cbv zeta.
  destruct (axis_cell (g_xgrid g) x_0 SX NX) as [X1 [X2 [X3 [X4 [X5 X6]]]]].
  destruct (axis_cell (g_ygrid g) y_0 SY NY) as [Y1 [Y2 [Y3 [Y4 [Y5 Y6]]]]].
  set (x0 := pyget (g_xgrid g) (bracket (g_xgrid g) x_0) 0) in *.
  set (x1 := pyget (g_xgrid g) (bracket (g_xgrid g) x_0 + 1) 0) in *.
  set (y0 := pyget (g_ygrid g) (bracket (g_ygrid g) y_0) 0) in *.
  set (y1 := pyget (g_ygrid g) (bracket (g_ygrid g) y_0 + 1) 0) in *.
  set (cx := Qclip x_0 _ _) in *. set (cy := Qclip y_0 _ _) in *.
  exists x0, x1, y0, y1. repeat (split; [assumption|]).
  intros i j Hi Hj.
  pose proof (g_point_sample spl g x_0 y_0 flux i j Hk Hx Hy Hu Hi Hj) as G.
  unfold find_bounding_points in G. cbv zeta in G. cbn [snd] in G.
  fold x0 x1 y0 y1 in G. destruct G as [v [G1 G2]]. exists v. split; [assumption|].
  assert (Lx : x0 <= x1) by lra. assert (Ly : y0 <= y1) by lra.
  pose proof (bilinear_weights_factor x_0 y_0 x0 x1 y0 y1 Lx Ly) as F.
  destruct (bilinear_weights x_0 y_0 (x0, x1, y0, y1)) as [|w1 [|w2 [|w3 [|w4 [|w5 r]]]]]; try contradiction.
  inversion F as [|? ? ? ? E1 F1]; subst. inversion F1 as [|? ? ? ? E2 F2]; subst.
  inversion F2 as [|? ? ? ? E3 F3]; subst. inversion F3 as [|? ? ? ? E4 F4]; subst.
  destruct (axis_w_clip x_0 x0 x1 cx X5 X3) as [AX BX]. destruct (axis_w_clip y_0 y0 y1 cy Y5 Y3) as [AY BY].
  rewrite G2, E1, E2, E3, E4, AX, BX, AY, BY. unfold blend. reflexivity.
Qed.

(* at a grid position: exactly the stored ePSF (times flux) *)
Lemma gridded_at_grid_position g x_0 y_0 flux :
  interpolates_knots spl -> (0 < g_osx g)%Z -> (0 < g_osy g)%Z -> stamps_uniform g -> wf_axes g ->
  In x_0 (g_xgrid g) -> In y_0 (g_ygrid g) ->
  forall i j, (0 <= i < g_nx g)%Z -> (0 <= j < g_ny g)%Z ->
    exists v, g_point spl g (prepared g x_0 y_0) flux x_0 y_0 (g_sample g x_0 y_0 i j) = Some v /\
              v == flux * pix (stamp_at g (x_0, y_0)) j i.
Proof.
  intros Hk Hx Hy Hu Hw Inx Iny i j Hi Hj.
  destruct (gridded_value g x_0 y_0 flux Hk Hx Hy Hu Hw)
    as [x0 [x1 [y0 [y1 [X1 [X2 [Y1 [Y2 [X3 [Y3 [X4 [Y4 [X6 [Y6 G]]]]]]]]]]]]]].
  destruct Hw as [SX [NX [SY NY]]].
  destruct (G i j Hi Hj) as [v [G1 G2]]. exists v. split; [assumption|]. rewrite G2. clear G G1 G2.
  assert (KX : Qclip x_0 (gfirst (g_xgrid g)) (glast (g_xgrid g)) == x_0)
    by (apply Qclip_id, ss_in_range; assumption).
  assert (KY : Qclip y_0 (gfirst (g_ygrid g)) (glast (g_ygrid g)) == y_0)
    by (apply Qclip_id, ss_in_range; assumption).
  rewrite KX in X3. rewrite KY in Y3.
  unfold blend.
  destruct (axis_w_ext _ _ x0 x1 KX) as [-> ->]. destruct (axis_w_ext _ _ y0 y1 KY) as [-> ->].
  (* x axis: x_0 is x0 or x1 *)
  assert (CX : (x_0 == x0 /\ axis_lo_w x_0 x0 x1 == 1 /\ axis_hi_w x_0 x0 x1 == 0) \/
               (x_0 == x1 /\ axis_lo_w x_0 x0 x1 == 0 /\ axis_hi_w x_0 x0 x1 == 1)).
  { destruct (Qlt_le_dec x0 x_0) as [A|A].
    - right. assert (B : x1 <= x_0). { destruct (Qlt_le_dec x_0 x1) as [C|C]; [exfalso; apply (X4 x_0 Inx); split; assumption|assumption]. }
      split; [lra|]. apply axis_weights_at_hi; lra.
    - left. split; [lra|]. apply axis_weights_at_lo; lra. }
  assert (CY : (y_0 == y0 /\ axis_lo_w y_0 y0 y1 == 1 /\ axis_hi_w y_0 y0 y1 == 0) \/
               (y_0 == y1 /\ axis_lo_w y_0 y0 y1 == 0 /\ axis_hi_w y_0 y0 y1 == 1)).
  { destruct (Qlt_le_dec y0 y_0) as [A|A].
    - right. assert (B : y1 <= y_0). { destruct (Qlt_le_dec y_0 y1) as [C|C]; [exfalso; apply (Y4 y_0 Iny); split; assumption|assumption]. }
      split; [lra|]. apply axis_weights_at_hi; lra.
    - left. split; [lra|]. apply axis_weights_at_lo; lra. }
  destruct CX as [[EX [WX1 WX2]]|[EX [WX1 WX2]]]; destruct CY as [[EY [WY1 WY2]]|[EY [WY1 WY2]]];
    rewrite WX1, WX2, WY1, WY2.
  - rewrite (stamp_at_ext g (x_0, y_0) (x0, y0)) by (apply pos_eqb_iff; split; assumption). ring.
  - rewrite (stamp_at_ext g (x_0, y_0) (x0, y1)) by (apply pos_eqb_iff; split; assumption). ring.
  - rewrite (stamp_at_ext g (x_0, y_0) (x1, y0)) by (apply pos_eqb_iff; split; assumption). ring.
  - rewrite (stamp_at_ext g (x_0, y_0) (x1, y1)) by (apply pos_eqb_iff; split; assumption). ring.
Qed.
End Blend.

(* ------------------------------------------------------------------ *)
(* statements in the form used by C13_Properties                         *)
(* ------------------------------------------------------------------ *)
Lemma qsum2_ext f h a n c m :
  (forall i j, f (inject_Z i) (inject_Z j) == h (inject_Z i) (inject_Z j)) -> qsum2 f a n c m == qsum2 h a n c m.
Proof. intros H. unfold qsum2. apply qsum_ext. intros i _. apply qsum_ext. intros j _. apply H. Qed.

Lemma cg_prf_telescopes (E : Q -> Q) : Proper (Qeq ==> Qeq) E ->
  forall sqrt2 f2s flux x_0 y_0 fwhm a n c m,
  qsum2 (fun x y => cg_prf E sqrt2 f2s x y flux x_0 y_0 fwhm) a n c m
  == flux / 4 * (tele E (sqrt2 * (fwhm * f2s)) x_0 a n * tele E (sqrt2 * (fwhm * f2s)) y_0 c m).
Proof. intros HE sqrt2 f2s flux x_0 y_0 fwhm. exact (sep_prf_telescopes E HE _ _ flux x_0 y_0). Qed.

Lemma g_prf_cs_telescopes (E : Q -> Q) : Proper (Qeq ==> Qeq) E -> erf_odd E ->
  forall sqrt2 f2s flux x_0 y_0 xf yf c s a n b m, axis_aligned c s ->
  qsum2 (fun x y => g_prf_cs E sqrt2 f2s x y flux x_0 y_0 xf yf c s) a n b m
  == flux / 4 * (tele E (rot_sx s (sqrt2 * (xf * f2s)) (sqrt2 * (yf * f2s))) x_0 a n
                 * tele E (rot_sy s (sqrt2 * (xf * f2s)) (sqrt2 * (yf * f2s))) y_0 b m).
Proof.
  intros HE Ho sqrt2 f2s flux x_0 y_0 xf yf c s a n b m Ha.
  rewrite <- (sep_prf_telescopes E HE). apply qsum2_ext. intros i j.
  apply g_prf_cs_axis; assumption.
Qed.

Lemma cgs_prf_total_flux (E : Q -> Q) : Proper (Qeq ==> Qeq) E ->
  erf_monotone E -> erf_bounded E -> erf_limits E ->
  forall sqrt2 flux x_0 y_0 sigma, 0 < sqrt2 * sigma -> 0 <= flux ->
  (forall a n c m, 0 <= qsum2 (fun x y => cgs_prf E sqrt2 x y flux x_0 y_0 sigma) a n c m <= flux) /\
  (forall e, 0 < e -> exists N : Z, forall a n c m,
     (a <= - N)%Z -> (N <= a + Z.of_nat n)%Z -> (c <= - N)%Z -> (N <= c + Z.of_nat m)%Z ->
     flux * (1 - 2 * e) <= qsum2 (fun x y => cgs_prf E sqrt2 x y flux x_0 y_0 sigma) a n c m <= flux).
Proof.
  intros HE Hm Hb Hl sqrt2 flux x_0 y_0 sigma Hs Hf. split.
  - intros a n c m. exact (sep_prf_sum_bounds E HE _ _ flux x_0 y_0 a n c m Hm Hb Hs Hs Hf).
  - exact (sep_prf_sum_converges E HE _ _ flux x_0 y_0 Hm Hb Hl Hs Hs Hf).
Qed.

Lemma cg_prf_total_flux (E : Q -> Q) : Proper (Qeq ==> Qeq) E ->
  erf_monotone E -> erf_bounded E -> erf_limits E ->
  forall sqrt2 f2s flux x_0 y_0 fwhm, 0 < sqrt2 * (fwhm * f2s) -> 0 <= flux ->
  (forall a n c m, 0 <= qsum2 (fun x y => cg_prf E sqrt2 f2s x y flux x_0 y_0 fwhm) a n c m <= flux) /\
  (forall e, 0 < e -> exists N : Z, forall a n c m,
     (a <= - N)%Z -> (N <= a + Z.of_nat n)%Z -> (c <= - N)%Z -> (N <= c + Z.of_nat m)%Z ->
     flux * (1 - 2 * e) <= qsum2 (fun x y => cg_prf E sqrt2 f2s x y flux x_0 y_0 fwhm) a n c m <= flux).
Proof.
  intros HE Hm Hb Hl sqrt2 f2s flux x_0 y_0 fwhm Hs Hf. split.
  - intros a n c m. exact (sep_prf_sum_bounds E HE _ _ flux x_0 y_0 a n c m Hm Hb Hs Hs Hf).
  - exact (sep_prf_sum_converges E HE _ _ flux x_0 y_0 Hm Hb Hl Hs Hs Hf).
Qed.

Lemma g_prf_cs_total_flux (E : Q -> Q) : Proper (Qeq ==> Qeq) E ->
  erf_monotone E -> erf_odd E -> erf_bounded E -> erf_limits E ->
  forall sqrt2 f2s flux x_0 y_0 xf yf c s, axis_aligned c s ->
  0 < sqrt2 * (xf * f2s) -> 0 < sqrt2 * (yf * f2s) -> 0 <= flux ->
  (forall a n b m, 0 <= qsum2 (fun x y => g_prf_cs E sqrt2 f2s x y flux x_0 y_0 xf yf c s) a n b m <= flux) /\
  (forall e, 0 < e -> exists N : Z, forall a n b m,
     (a <= - N)%Z -> (N <= a + Z.of_nat n)%Z -> (b <= - N)%Z -> (N <= b + Z.of_nat m)%Z ->
     flux * (1 - 2 * e) <= qsum2 (fun x y => g_prf_cs E sqrt2 f2s x y flux x_0 y_0 xf yf c s) a n b m <= flux).
Proof.
  intros HE Hm Ho Hb Hl sqrt2 f2s flux x_0 y_0 xf yf c s Ha Hx Hy Hf.
  destruct (rot_pos s _ _ Hx Hy) as [Rx Ry].
  assert (EQ : forall a n b m,
    qsum2 (fun x y => g_prf_cs E sqrt2 f2s x y flux x_0 y_0 xf yf c s) a n b m
    == qsum2 (sep_prf E (rot_sx s (sqrt2 * (xf * f2s)) (sqrt2 * (yf * f2s)))
                      (rot_sy s (sqrt2 * (xf * f2s)) (sqrt2 * (yf * f2s))) flux x_0 y_0) a n b m).
  { intros a n b m. apply qsum2_ext. intros i j. apply g_prf_cs_axis; assumption. }
  split.
  - intros a n b m. rewrite EQ. apply sep_prf_sum_bounds; assumption.
  - intros e He. destruct (sep_prf_sum_converges E HE _ _ flux x_0 y_0 Hm Hb Hl Rx Ry Hf e He) as [N HN].
    exists N. intros a n b m H1 H2 H3 H4. rewrite EQ. apply HN; assumption.
Qed.

Lemma prf_nonneg_all (E : Q -> Q) : erf_monotone E ->
  forall sqrt2 f2s x y flux x_0 y_0,
  0 <= flux ->
  (forall sigma, 0 < sqrt2 * sigma -> 0 <= cgs_prf E sqrt2 x y flux x_0 y_0 sigma) /\
  (forall fwhm, 0 < sqrt2 * (fwhm * f2s) -> 0 <= cg_prf E sqrt2 f2s x y flux x_0 y_0 fwhm) /\
  (forall xf yf c s, 0 < sqrt2 * (xf * f2s) -> 0 < sqrt2 * (yf * f2s) ->
     0 <= g_prf_cs E sqrt2 f2s x y flux x_0 y_0 xf yf c s).
Proof.
  intros Hm sqrt2 f2s x y flux x_0 y_0 Hf. split; [|split].
  - intros sigma Hs. exact (sep_prf_nonneg E _ _ flux x_0 y_0 x y Hm Hs Hs Hf).
  - intros fwhm Hs. exact (sep_prf_nonneg E _ _ flux x_0 y_0 x y Hm Hs Hs Hf).
  - intros xf yf c s Hx Hy. apply g_prf_cs_nonneg; assumption.
Qed.

Lemma linear_in_flux_all (E ex cosf sinf d2r : Q -> Q) (pw : Q -> Q -> Q) sqrt2 f2s pi x y k f1 f2 x_0 y_0 :
  (forall sigma, cgs_prf E sqrt2 x y (k * f1 + f2) x_0 y_0 sigma
     == k * cgs_prf E sqrt2 x y f1 x_0 y_0 sigma + cgs_prf E sqrt2 x y f2 x_0 y_0 sigma) /\
  (forall w, cg_prf E sqrt2 f2s x y (k * f1 + f2) x_0 y_0 w
     == k * cg_prf E sqrt2 f2s x y f1 x_0 y_0 w + cg_prf E sqrt2 f2s x y f2 x_0 y_0 w) /\
  (forall xf yf th, g_prf E cosf sinf d2r sqrt2 f2s x y (k * f1 + f2) x_0 y_0 xf yf th
     == k * g_prf E cosf sinf d2r sqrt2 f2s x y f1 x_0 y_0 xf yf th
        + g_prf E cosf sinf d2r sqrt2 f2s x y f2 x_0 y_0 xf yf th) /\
  (forall xf yf th, g_psf ex cosf sinf d2r f2s pi x y (k * f1 + f2) x_0 y_0 xf yf th
     == k * g_psf ex cosf sinf d2r f2s pi x y f1 x_0 y_0 xf yf th
        + g_psf ex cosf sinf d2r f2s pi x y f2 x_0 y_0 xf yf th) /\
  (forall w, cg_psf ex f2s pi x y (k * f1 + f2) x_0 y_0 w
     == k * cg_psf ex f2s pi x y f1 x_0 y_0 w + cg_psf ex f2s pi x y f2 x_0 y_0 w) /\
  (forall al be, moffat_psf pw pi x y (k * f1 + f2) x_0 y_0 al be
     == k * moffat_psf pw pi x y f1 x_0 y_0 al be + moffat_psf pw pi x y f2 x_0 y_0 al be).
Proof.
  repeat split; intros.
  - apply cgs_prf_linear. - apply cg_prf_linear. - apply g_prf_linear.
  - apply g_psf_linear. - apply cg_psf_linear. - apply moffat_psf_linear.
Qed.

Lemma centred_prf_all (E : Q -> Q) : Proper (Qeq ==> Qeq) E ->
  forall sqrt2 f2s flux x_0 y_0 xf yf c s,
  (forall x y t u, g_prf_cs E sqrt2 f2s (x + t) (y + u) flux (x_0 + t) (y_0 + u) xf yf c s
                   == g_prf_cs E sqrt2 f2s x y flux x_0 y_0 xf yf c s) /\
  (erf_odd E -> forall u v, g_prf_cs E sqrt2 f2s (x_0 + u) (y_0 + v) flux x_0 y_0 xf yf c s
                            == g_prf_cs E sqrt2 f2s (x_0 - u) (y_0 - v) flux x_0 y_0 xf yf c s).
Proof.
  intros HE sqrt2 f2s flux x_0 y_0 xf yf c s. split.
  - intros. apply g_prf_cs_translate; assumption.
  - intros Ho u v. apply g_prf_cs_point_symmetric; assumption.
Qed.

Lemma centred_circular_all (E : Q -> Q) : Proper (Qeq ==> Qeq) E -> erf_odd E ->
  forall sqrt2 f2s flux x_0 y_0 w u v,
  (forall x y t r, cg_prf E sqrt2 f2s (x + t) (y + r) flux (x_0 + t) (y_0 + r) w == cg_prf E sqrt2 f2s x y flux x_0 y_0 w) /\
  cg_prf E sqrt2 f2s (x_0 + u) (y_0 + v) flux x_0 y_0 w == cg_prf E sqrt2 f2s (x_0 - u) (y_0 + v) flux x_0 y_0 w /\
  cg_prf E sqrt2 f2s (x_0 + u) (y_0 + v) flux x_0 y_0 w == cg_prf E sqrt2 f2s (x_0 + u) (y_0 - v) flux x_0 y_0 w /\
  cgs_prf E sqrt2 (x_0 + u) (y_0 + v) flux x_0 y_0 w == cgs_prf E sqrt2 (x_0 - u) (y_0 + v) flux x_0 y_0 w /\
  cgs_prf E sqrt2 (x_0 + u) (y_0 + v) flux x_0 y_0 w == cgs_prf E sqrt2 (x_0 + u) (y_0 - v) flux x_0 y_0 w.
Proof.
  intros HE Ho sqrt2 f2s flux x_0 y_0 w u v. split; [|split; [|split; [|split]]].
  - intros x y t r. exact (sep_prf_translate E HE _ _ flux x_0 y_0 x y t r).
  - exact (sep_prf_mirror_x E HE _ _ flux x_0 y_0 u (y_0 + v) Ho).
  - exact (sep_prf_mirror_y E HE _ _ flux x_0 y_0 (x_0 + u) v Ho).
  - exact (sep_prf_mirror_x E HE _ _ flux x_0 y_0 u (y_0 + v) Ho).
  - exact (sep_prf_mirror_y E HE _ _ flux x_0 y_0 (x_0 + u) v Ho).
Qed.

Lemma centred_psf_all (ex : Q -> Q) : Proper (Qeq ==> Qeq) ex ->
  forall f2s pi flux x_0 y_0,
  (forall xf yf c s s2 x y t u, g_psf_cs ex f2s pi (x + t) (y + u) flux (x_0 + t) (y_0 + u) xf yf c s s2
                                == g_psf_cs ex f2s pi x y flux x_0 y_0 xf yf c s s2) /\
  (forall xf yf c s s2 u v, g_psf_cs ex f2s pi (x_0 + u) (y_0 + v) flux x_0 y_0 xf yf c s s2
                            == g_psf_cs ex f2s pi (x_0 - u) (y_0 - v) flux x_0 y_0 xf yf c s s2) /\
  (forall w x y t u, cg_psf ex f2s pi (x + t) (y + u) flux (x_0 + t) (y_0 + u) w == cg_psf ex f2s pi x y flux x_0 y_0 w) /\
  (forall w u v u' v', u' * u' == u * u -> v' * v' == v * v ->
     cg_psf ex f2s pi (x_0 + u') (y_0 + v') flux x_0 y_0 w == cg_psf ex f2s pi (x_0 + u) (y_0 + v) flux x_0 y_0 w).
Proof.
  intros HE f2s pi flux x_0 y_0. repeat split; intros.
  - apply g_psf_cs_translate; assumption.
  - apply g_psf_cs_point_symmetric; assumption.
  - apply cg_psf_translate; assumption.
  - apply cg_psf_mirror; assumption.
Qed.

Lemma centred_moffat_all (pw : Q -> Q -> Q) pi : (forall a a' b, a == a' -> pw a b == pw a' b) ->
  forall flux x_0 y_0 al be,
  (forall x y t u, moffat_psf pw pi (x + t) (y + u) flux (x_0 + t) (y_0 + u) al be == moffat_psf pw pi x y flux x_0 y_0 al be) /\
  (forall u v u' v', u' * u' == u * u -> v' * v' == v * v ->
     moffat_psf pw pi (x_0 + u') (y_0 + v') flux x_0 y_0 al be == moffat_psf pw pi (x_0 + u) (y_0 + v) flux x_0 y_0 al be).
Proof.
  intros Hp flux x_0 y_0 al be. split; intros.
  - apply moffat_psf_translate; assumption.
  - apply moffat_psf_mirror; assumption.
Qed.

Lemma psf_nonneg_all (ex : Q -> Q) (pw : Q -> Q -> Q) f2s pi x y flux x_0 y_0 :
  (forall t, 0 <= ex t) -> (forall a b, 0 <= pw a b) -> 0 < pi -> 0 <= flux ->
  (forall xf yf c s s2, 0 < (xf * f2s) * (yf * f2s) -> 0 <= g_psf_cs ex f2s pi x y flux x_0 y_0 xf yf c s s2) /\
  (forall w, ~ w * f2s == 0 -> 0 <= cg_psf ex f2s pi x y flux x_0 y_0 w) /\
  (forall al be, ~ al == 0 -> 1 <= be -> 0 <= moffat_psf pw pi x y flux x_0 y_0 al be).
Proof.
  intros Hex Hpw Hpi Hf. repeat split; intros.
  - apply g_psf_cs_nonneg; assumption.
  - apply cg_psf_nonneg; assumption.
  - apply moffat_psf_nonneg; assumption.
Qed.

Lemma ip_index_exact osy osx ox oy x_0 y_0 t : (0 < osx)%Z -> (0 < osy)%Z ->
  ip_xi osx ox (sample_at osx ox x_0 t) x_0 == t /\ ip_yi osy oy (sample_at osy oy y_0 t) y_0 == t /\
  (forall x, x == sample_at osx ox x_0 (ip_xi osx ox x x_0)) /\
  (forall y, y == sample_at osy oy y_0 (ip_yi osy oy y y_0)).
Proof.
  intros Hx Hy. split; [apply ip_xi_sample, Hx|]. split; [apply ip_yi_sample, Hy|].
  split; intros; [apply ip_xi_inv, Hx|apply ip_yi_inv, Hy].
Qed.

Lemma ip_fill_outside (spl : list (list Q) -> Q -> Q -> Q) data osy osx ox oy f x y flux x_0 y_0 :
  (0 < osx)%Z -> (0 < osy)%Z ->
  (invalid (ncols data) (nrows data) (ip_xi osx ox x x_0) (ip_yi osy oy y y_0) = true <->
   (x < sample_at osx ox x_0 0 \/ sample_at osx ox x_0 (inject_Z (ncols data - 1)) < x \/
    y < sample_at osy oy y_0 0 \/ sample_at osy oy y_0 (inject_Z (nrows data - 1)) < y)) /\
  ((x < sample_at osx ox x_0 0 \/ sample_at osx ox x_0 (inject_Z (ncols data - 1)) < x \/
    y < sample_at osy oy y_0 0 \/ sample_at osy oy y_0 (inject_Z (nrows data - 1)) < y) ->
   ip_eval spl data osy osx ox oy (Some f) x y flux x_0 y_0 = f).
Proof.
  intros Hx Hy. split; [apply ip_invalid_iff; assumption|]. apply ip_eval_outside; assumption.
Qed.

Lemma ip_bbox_all nx ny osy osx ox oy x_0 y_0 : (0 < osx)%Z -> (0 < osy)%Z ->
  (let '((ylo, yhi), (xlo, xhi)) := ip_bbox nx ny osy osx ox oy x_0 y_0 in
   ylo == sample_at osy oy y_0 0 - (1 # 2) / inject_Z osy /\
   yhi == sample_at osy oy y_0 (inject_Z ny - 1) + (1 # 2) / inject_Z osy /\
   xlo == sample_at osx ox x_0 0 - (1 # 2) / inject_Z osx /\
   xhi == sample_at osx ox x_0 (inject_Z nx - 1) + (1 # 2) / inject_Z osx) /\
  sample_at osx (fst (default_origin nx ny)) x_0 ((inject_Z nx - 1) / 2) == x_0 /\
  sample_at osy (snd (default_origin nx ny)) y_0 ((inject_Z ny - 1) / 2) == y_0.
Proof.
  intros Hx Hy. split; [apply ip_bbox_spec; assumption|apply default_origin_centre; assumption].
Qed.

Lemma bilinear_weights_all xi yi x0 x1 y0 y1 : x0 <= x1 -> y0 <= y1 ->
  Forall (fun w => 0 <= w) (bilinear_weights xi yi (x0, x1, y0, y1)) /\
  qlsum (bilinear_weights xi yi (x0, x1, y0, y1)) == 1 /\
  Forall2 Qeq (bilinear_weights xi yi (x0, x1, y0, y1))
    [ axis_lo_w xi x0 x1 * axis_lo_w yi y0 y1; axis_hi_w xi x0 x1 * axis_lo_w yi y0 y1;
      axis_lo_w xi x0 x1 * axis_hi_w yi y0 y1; axis_hi_w xi x0 x1 * axis_hi_w yi y0 y1 ].
Proof.
  intros Hx Hy. destruct (bilinear_weights_nonneg_sum xi yi x0 x1 y0 y1 Hx Hy) as [A B].
  split; [assumption|]. split; [assumption|]. apply bilinear_weights_factor; assumption.
Qed.

Lemma axis_weights_all xi x0 x1 : x0 <= x1 ->
  (0 <= axis_lo_w xi x0 x1 /\ 0 <= axis_hi_w xi x0 x1 /\ axis_lo_w xi x0 x1 + axis_hi_w xi x0 x1 == 1) /\
  (xi <= x0 -> axis_lo_w xi x0 x1 == 1 /\ axis_hi_w xi x0 x1 == 0) /\
  (x0 < x1 -> x1 <= xi -> axis_lo_w xi x0 x1 == 0 /\ axis_hi_w xi x0 x1 == 1) /\
  (x0 == x1 -> axis_lo_w xi x0 x1 == 1 /\ axis_hi_w xi x0 x1 == 0) /\
  (x0 < x1 -> x0 <= xi <= x1 ->
     axis_lo_w xi x0 x1 == (x1 - xi) / (x1 - x0) /\ axis_hi_w xi x0 x1 == (xi - x0) / (x1 - x0)) /\
  (axis_lo_w xi x0 x1 == axis_lo_w (Qclip xi x0 x1) x0 x1 /\ axis_hi_w xi x0 x1 == axis_hi_w (Qclip xi x0 x1) x0 x1).
Proof.
  intros H. split; [apply axis_weights_spec, H|]. split; [apply axis_weights_at_lo, H|].
  split; [apply axis_weights_at_hi|]. split; [apply axis_weights_degenerate|].
  split; [apply axis_weights_inside|apply axis_weights_clamped, H].
Qed.

Lemma gridded_value_eval (spl : list (list Q) -> Q -> Q -> Q) : interpolates_knots spl ->
  forall g x_0 y_0 flux c, (0 < g_osx g)%Z -> (0 < g_osy g)%Z -> stamps_uniform g -> wf_axes g ->
  cache_canonical g c ->
  let cx := Qclip x_0 (gfirst (g_xgrid g)) (glast (g_xgrid g)) in
  let cy := Qclip y_0 (gfirst (g_ygrid g)) (glast (g_ygrid g)) in
  exists x0 x1 y0 y1,
    In x0 (g_xgrid g) /\ In x1 (g_xgrid g) /\ In y0 (g_ygrid g) /\ In y1 (g_ygrid g) /\
    x0 <= cx <= x1 /\ y0 <= cy <= y1 /\
    (forall x, In x (g_xgrid g) -> ~ (x0 < x < x1)) /\ (forall y, In y (g_ygrid g) -> ~ (y0 < y < y1)) /\
    (x0 == x1 -> length (g_xgrid g) = 1%nat) /\ (y0 == y1 -> length (g_ygrid g) = 1%nat) /\
    forall i j, (0 <= i < g_nx g)%Z -> (0 <= j < g_ny g)%Z ->
      exists v, fst (g_eval spl g c flux x_0 y_0 [g_sample g x_0 y_0 i j]) = [Some v] /\
                v == flux * blend g x0 x1 y0 y1 cx cy j i.
Proof.
  intros Hk g x_0 y_0 flux c Hx Hy Hu Hw Hc. cbv zeta.
  destruct (gridded_value spl g x_0 y_0 flux Hk Hx Hy Hu Hw)
    as [x0 [x1 [y0 [y1 [X1 [X2 [Y1 [Y2 [X3 [Y3 [X4 [Y4 [X6 [Y6 G]]]]]]]]]]]]]].
  exists x0, x1, y0, y1. repeat (split; [assumption|]).
  intros i j Hi Hj. destruct (G i j Hi Hj) as [v [G1 G2]]. exists v. split; [|assumption].
  rewrite g_eval_value by assumption. cbn [map]. rewrite G1. reflexivity.
Qed.

Lemma gridded_at_grid_position_eval (spl : list (list Q) -> Q -> Q -> Q) : interpolates_knots spl ->
  forall g x_0 y_0 flux c, (0 < g_osx g)%Z -> (0 < g_osy g)%Z -> stamps_uniform g -> wf_axes g ->
  cache_canonical g c -> In x_0 (g_xgrid g) -> In y_0 (g_ygrid g) ->
  forall i j, (0 <= i < g_nx g)%Z -> (0 <= j < g_ny g)%Z ->
    exists v, fst (g_eval spl g c flux x_0 y_0 [g_sample g x_0 y_0 i j]) = [Some v] /\
              v == flux * pix (stamp_at g (x_0, y_0)) j i.
Proof.
  intros Hk g x_0 y_0 flux c Hx Hy Hu Hw Hc Inx Iny i j Hi Hj.
  destruct (gridded_at_grid_position spl g x_0 y_0 flux Hk Hx Hy Hu Hw Inx Iny i j Hi Hj) as [v [G1 G2]].
  exists v. split; [|assumption]. rewrite g_eval_value by assumption. cbn [map]. rewrite G1. reflexivity.
Qed.

Lemma g_eval_outside (spl : list (list Q) -> Q -> Q -> Q) g c f flux x_0 y_0 x y :
  (0 < g_osx g)%Z -> (0 < g_osy g)%Z -> g_fill g = Some f ->
  (x < fst (g_sample g x_0 y_0 0 0) \/ fst (g_sample g x_0 y_0 (g_nx g - 1) 0) < x \/
   y < snd (g_sample g x_0 y_0 0 0) \/ snd (g_sample g x_0 y_0 0 (g_ny g - 1)) < y) ->
  fst (g_eval spl g c flux x_0 y_0 [(x, y)]) = [f].
Proof.
  intros Hx Hy Hf Hout. rewrite g_eval_fst. cbn [fst map].
  rewrite (g_point_outside spl g _ f flux x_0 y_0 x y Hx Hy Hf Hout). reflexivity.
Qed.
