(* C07R — proofs about the real-number model of the second-moment shape parameters. *)
From Coq Require Import Reals Lra Lia ZArith.
From PV Require Import C07R_Model.
Open Scope R_scope.

(* ================================================================== *)
(* 0. small helpers                                                    *)
(* ================================================================== *)
Lemma sqr_sin_cos : forall x, sin x * sin x + cos x * cos x = 1.
Proof. intro x. generalize (sin2_cos2 x). unfold Rsqr. auto. Qed.

Lemma sqrt_scale : forall k s, 0 <= k -> 0 <= s -> sqrt (k * k * s) = k * sqrt s.
Proof.
  intros k s Hk Hs. rewrite sqrt_mult; [ | nra | lra ].
  rewrite sqrt_square; auto.
Qed.

Lemma pow2_eq_0 : forall x, x ^ 2 = 0 -> x = 0.
Proof. intros x H. replace (x ^ 2) with (x * x) in H by ring. apply Rmult_integral in H. tauto. Qed.

(* ================================================================== *)
(* 1. eigenvalues                                                       *)
(* ================================================================== *)
Lemma half_gap_nonneg : forall a b c, 0 <= half_gap a b c.
Proof. intros. unfold half_gap. apply sqrt_pos. Qed.

Lemma half_gap_sqr : forall a b c,
  half_gap a b c * half_gap a b c = ((a - c) / 2) ^ 2 + b ^ 2.
Proof.
  intros. unfold half_gap. apply sqrt_sqrt.
  apply Rplus_le_le_0_compat; apply pow2_ge_0.
Qed.

Lemma eig_sum : forall a b c, eig_plus a b c + eig_minus a b c = a + c.
Proof. intros. unfold eig_plus, eig_minus. lra. Qed.

Lemma eig_prod : forall a b c, eig_plus a b c * eig_minus a b c = cov_det a b c.
Proof.
  intros. unfold eig_plus, eig_minus, cov_det.
  pose proof (half_gap_sqr a b c) as H. set (r := half_gap a b c) in *.
  replace (((a + c) / 2 + r) * ((a + c) / 2 - r)) with (((a + c) / 2) ^ 2 - r * r) by ring.
  rewrite H. field.
Qed.

Lemma eig_order : forall a b c, eig_minus a b c <= eig_plus a b c.
Proof. intros. unfold eig_plus, eig_minus. pose proof (half_gap_nonneg a b c). lra. Qed.

Lemma eig_gap : forall a b c, eig_plus a b c - eig_minus a b c = 2 * half_gap a b c.
Proof. intros. unfold eig_plus, eig_minus. lra. Qed.

Lemma char_poly_factor : forall a b c x,
  char_poly a b c x = (x - eig_plus a b c) * (x - eig_minus a b c).
Proof.
  intros. unfold char_poly. rewrite <- (eig_prod a b c), <- (eig_sum a b c). ring.
Qed.

Lemma eig_plus_root : forall a b c, char_poly a b c (eig_plus a b c) = 0.
Proof. intros. rewrite char_poly_factor. ring. Qed.
Lemma eig_minus_root : forall a b c, char_poly a b c (eig_minus a b c) = 0.
Proof. intros. rewrite char_poly_factor. ring. Qed.

Lemma char_poly_roots_complete_l : forall a b c x,
  char_poly a b c x = 0 <-> (x = eig_plus a b c \/ x = eig_minus a b c).
Proof.
  intros. rewrite char_poly_factor. split.
  - intro H. apply Rmult_integral in H. destruct H; [left | right]; lra.
  - intros [-> | ->]; ring.
Qed.

Lemma eig_minus_nonneg : forall a b c, PSD a b c -> 0 <= eig_minus a b c.
Proof.
  intros a b c (Ha & Hc & Hd).
  pose proof (eig_prod a b c) as P. pose proof (eig_sum a b c) as S.
  pose proof (eig_order a b c) as O.
  set (p := eig_plus a b c) in *. set (m := eig_minus a b c) in *.
  destruct (Rle_or_lt 0 m) as [|Hm]; auto.
  (* m < 0: then p >= 0 would give p*m <= 0 = det only if ...; use sum >= 0 *)
  assert (0 <= p) by lra.
  assert (p * m <= 0) by nra.
  assert (p * m = 0) by lra.
  assert (p = 0) by nra. lra.
Qed.

Lemma eig_plus_nonneg : forall a b c, PSD a b c -> 0 <= eig_plus a b c.
Proof. intros. pose proof (eig_minus_nonneg _ _ _ H). pose proof (eig_order a b c). lra. Qed.

Lemma eig_minus_nonneg_psd : forall a b c, 0 <= eig_minus a b c -> PSD a b c.
Proof.
  intros a b c Hm.
  pose proof (eig_prod a b c) as P. pose proof (eig_sum a b c) as S.
  pose proof (eig_order a b c) as O.
  set (p := eig_plus a b c) in *. set (m := eig_minus a b c) in *.
  assert (Hd : 0 <= cov_det a b c) by (rewrite <- P; nra).
  unfold PSD. unfold cov_det in *. repeat split; try lra; nra.
Qed.

Lemma eig_minus_pos : forall a b c, 0 <= a -> 0 < cov_det a b c -> 0 < eig_minus a b c.
Proof.
  intros a b c Ha Hd.
  assert (Hc : 0 <= c) by (unfold cov_det in Hd; nra).
  assert (H : PSD a b c) by (unfold PSD; lra).
  pose proof (eig_minus_nonneg _ _ _ H). pose proof (eig_prod a b c).
  destruct (Req_dec (eig_minus a b c) 0) as [E|]; [ rewrite E in *; lra | lra ].
Qed.

Lemma eig_minus_zero_iff : forall a b c, PSD a b c -> (eig_minus a b c = 0 <-> cov_det a b c = 0).
Proof.
  intros a b c H. pose proof (eig_prod a b c) as P. split; intro E.
  - rewrite <- P, E. ring.
  - pose proof (eig_minus_nonneg _ _ _ H). pose proof (eig_order a b c).
    rewrite E in P. apply Rmult_integral in P. lra.
Qed.

Lemma eig_plus_zero_iff : forall a b c, PSD a b c -> (eig_plus a b c = 0 <-> (a = 0 /\ b = 0 /\ c = 0)).
Proof.
  intros a b c H. pose proof (eig_minus_nonneg _ _ _ H) as Hm.
  pose proof (eig_sum a b c) as S. pose proof (eig_order a b c) as O.
  destruct H as (Ha & Hc & Hd). unfold cov_det in Hd. split.
  - intro E. assert (a = 0) by lra. assert (c = 0) by lra. subst. repeat split; auto. nra.
  - intros (-> & -> & ->). unfold eig_plus, half_gap.
    replace (((0 - 0) / 2) ^ 2 + 0 ^ 2) with 0 by field. rewrite sqrt_0. field.
Qed.

Lemma eig_equal_iff : forall a b c, eig_plus a b c = eig_minus a b c <-> (a = c /\ b = 0).
Proof.
  intros. pose proof (eig_gap a b c) as G. pose proof (half_gap_sqr a b c) as Q.
  pose proof (half_gap_nonneg a b c). split.
  - intro E. assert (Z : half_gap a b c = 0) by lra. rewrite Z in Q.
    pose proof (pow2_ge_0 ((a - c) / 2)). pose proof (pow2_ge_0 b).
    assert (Hb : b ^ 2 = 0) by lra. assert (Hd : ((a - c) / 2) ^ 2 = 0) by lra.
    apply pow2_eq_0 in Hb. apply pow2_eq_0 in Hd. split; lra.
  - intros (-> & ->). replace ((c - c) / 2) with 0 in Q by field.
    assert (half_gap c 0 c = 0) by nra. lra.
Qed.

(* the code path: eigvals (either order), negative check, sort, flip *)
Lemma sort_flip_plus_minus : forall swap a b c,
  fliplr (sort_asc (eigvals_raw swap a b c)) = eig_pair a b c.
Proof.
  intros. pose proof (eig_order a b c) as O. unfold eig_pair, fliplr, sort_asc, eigvals_raw.
  destruct swap; cbn [fst snd].
  - rewrite Rmax_right, Rmin_left; auto.
  - rewrite Rmax_left, Rmin_right; auto.
Qed.

Lemma code_eigvals_psd : forall swap a b c, PSD a b c ->
  covariance_eigvals swap a b c = Some (eig_pair a b c).
Proof.
  intros swap a b c H. unfold covariance_eigvals.
  pose proof (eig_minus_nonneg _ _ _ H). pose proof (eig_plus_nonneg _ _ _ H).
  assert (E : neg_check (eigvals_raw swap a b c) = Some (eigvals_raw swap a b c)).
  { unfold neg_check, eigvals_raw. destruct swap; cbn [fst snd];
      repeat (destruct (Rlt_dec _ _); try lra); reflexivity. }
  rewrite E. cbn [option_map]. now rewrite sort_flip_plus_minus.
Qed.

Lemma code_eigvals_not_psd : forall swap a b c, ~ PSD a b c ->
  covariance_eigvals swap a b c = None.
Proof.
  intros swap a b c H. unfold covariance_eigvals.
  assert (Hm : eig_minus a b c < 0).
  { destruct (Rle_or_lt 0 (eig_minus a b c)); auto. exfalso. apply H. now apply eig_minus_nonneg_psd. }
  unfold neg_check, eigvals_raw. destruct swap; cbn [fst snd];
    repeat (destruct (Rlt_dec _ _); try lra); reflexivity.
Qed.

Lemma code_eigvals_order_free : forall a b c,
  covariance_eigvals true a b c = covariance_eigvals false a b c.
Proof.
  intros. destruct (Rle_or_lt 0 (eig_minus a b c)).
  - rewrite !code_eigvals_psd; auto using eig_minus_nonneg_psd.
  - rewrite !code_eigvals_not_psd; auto;
      intro P; apply eig_minus_nonneg in P; lra.
Qed.

(* ================================================================== *)
(* 2. semi-axes, eccentricity, elongation, ellipticity, fwhm            *)
(* ================================================================== *)
Lemma semimajor_sqr : forall a b c, PSD a b c -> semimajor a b c ^ 2 = eig_plus a b c.
Proof.
  intros. unfold semimajor, semimajor_of, eig_pair; cbn [fst].
  apply pow2_sqrt. now apply eig_plus_nonneg.
Qed.

Lemma semiminor_sqr : forall a b c, PSD a b c -> semiminor a b c ^ 2 = eig_minus a b c.
Proof.
  intros. unfold semiminor, semiminor_of, eig_pair; cbn [snd].
  apply pow2_sqrt. now apply eig_minus_nonneg.
Qed.

Lemma semi_order : forall a b c, 0 <= semiminor a b c <= semimajor a b c.
Proof.
  intros. unfold semiminor, semimajor, semiminor_of, semimajor_of, eig_pair; cbn [fst snd].
  split; [ apply sqrt_pos | apply sqrt_le_1_alt, eig_order ].
Qed.

Lemma semimajor_pos : forall a b c, 0 < eig_plus a b c -> 0 < semimajor a b c.
Proof. intros. unfold semimajor, semimajor_of, eig_pair; cbn [fst]. now apply sqrt_lt_R0. Qed.

Lemma semiminor_pos : forall a b c, 0 <= a -> 0 < cov_det a b c -> 0 < semiminor a b c.
Proof.
  intros. unfold semiminor, semiminor_of, eig_pair; cbn [snd].
  apply sqrt_lt_R0. now apply eig_minus_pos.
Qed.

Lemma semiminor_zero_iff : forall a b c, PSD a b c -> (semiminor a b c = 0 <-> cov_det a b c = 0).
Proof.
  intros a b c H. rewrite <- (eig_minus_zero_iff _ _ _ H).
  unfold semiminor, semiminor_of, eig_pair; cbn [snd]. split; intro E.
  - apply sqrt_eq_0; auto. now apply eig_minus_nonneg.
  - rewrite E. apply sqrt_0.
Qed.

Lemma semimajor_zero_iff : forall a b c, PSD a b c ->
  (semimajor a b c = 0 <-> (a = 0 /\ b = 0 /\ c = 0)).
Proof.
  intros a b c H. rewrite <- (eig_plus_zero_iff _ _ _ H).
  unfold semimajor, semimajor_of, eig_pair; cbn [fst]. split; intro E.
  - apply sqrt_eq_0; auto. now apply eig_plus_nonneg.
  - rewrite E. apply sqrt_0.
Qed.

(* ratio lam-/lam+ in [0,1] *)
Lemma eig_ratio_range : forall a b c, PSD a b c -> 0 < eig_plus a b c ->
  0 <= eig_minus a b c / eig_plus a b c <= 1.
Proof.
  intros a b c H Hp. pose proof (eig_minus_nonneg _ _ _ H) as Hm. pose proof (eig_order a b c) as O.
  assert (Hi : 0 < / eig_plus a b c) by now apply Rinv_0_lt_compat.
  unfold Rdiv. split.
  - apply Rmult_le_pos; lra.
  - replace 1 with (eig_plus a b c * / eig_plus a b c) by (field; lra).
    apply Rmult_le_compat_r; lra.
Qed.

Lemma ecc_sqr : forall a b c, PSD a b c -> 0 < eig_plus a b c ->
  eccentricity a b c ^ 2 = 1 - eig_minus a b c / eig_plus a b c.
Proof.
  intros a b c H Hp. unfold eccentricity, eccentricity_of, eig_pair; cbn [fst snd].
  apply pow2_sqrt. pose proof (eig_ratio_range _ _ _ H Hp). lra.
Qed.

Lemma ecc_range : forall a b c, PSD a b c -> 0 < eig_plus a b c -> 0 <= eccentricity a b c <= 1.
Proof.
  intros a b c H Hp. unfold eccentricity, eccentricity_of, eig_pair; cbn [fst snd].
  pose proof (eig_ratio_range _ _ _ H Hp). split; [apply sqrt_pos|].
  rewrite <- sqrt_1 at 2. apply sqrt_le_1_alt. lra.
Qed.

Lemma ecc_lt_1_iff : forall a b c, PSD a b c -> 0 < eig_plus a b c ->
  (eccentricity a b c < 1 <-> 0 < cov_det a b c).
Proof.
  intros a b c H Hp. pose proof (ecc_sqr _ _ _ H Hp) as Q. pose proof (ecc_range _ _ _ H Hp) as Rg.
  pose proof (eig_minus_nonneg _ _ _ H) as Hm. pose proof (eig_prod a b c) as P.
  set (e := eccentricity a b c) in *.
  assert (D : eig_minus a b c / eig_plus a b c = 1 - e ^ 2) by lra.
  assert (D' : eig_minus a b c = (1 - e ^ 2) * eig_plus a b c).
  { rewrite <- D. field. lra. }
  split; intro G.
  - rewrite <- P, D'.
    assert (0 < 1 - e ^ 2).
    { replace (1 - e ^ 2) with ((1 - e) * (1 + e)) by ring. apply Rmult_lt_0_compat; lra. }
    repeat apply Rmult_lt_0_compat; auto.
  - destruct (Rlt_or_le e 1) as [|Ge]; auto. exfalso.
    assert (e = 1) by lra. rewrite H0 in D'. replace (1 - 1 ^ 2) with 0 in D' by ring.
    rewrite D' in P. lra.
Qed.

Lemma ecc_one_iff : forall a b c, PSD a b c -> 0 < eig_plus a b c ->
  (eccentricity a b c = 1 <-> cov_det a b c = 0).
Proof.
  intros a b c H Hp. pose proof (ecc_lt_1_iff _ _ _ H Hp) as [L1 L2].
  pose proof (ecc_range _ _ _ H Hp) as Rg. destruct H as (_ & _ & Hd). split; intro E.
  - destruct (Req_dec (cov_det a b c) 0) as [|N]; auto.
    assert (G : 0 < cov_det a b c) by lra. apply L2 in G. lra.
  - destruct (Req_dec (eccentricity a b c) 1) as [|N]; auto.
    assert (G : eccentricity a b c < 1) by lra. apply L1 in G. lra.
Qed.

Lemma ecc_zero_iff : forall a b c, PSD a b c -> 0 < eig_plus a b c ->
  (eccentricity a b c = 0 <-> (a = c /\ b = 0)).
Proof.
  intros a b c H Hp. rewrite <- eig_equal_iff. pose proof (ecc_sqr _ _ _ H Hp) as Q. split; intro E.
  - rewrite E in Q. assert (D : eig_minus a b c / eig_plus a b c = 1) by lra.
    assert (eig_minus a b c = 1 * eig_plus a b c) by (rewrite <- D; field; lra). lra.
  - rewrite <- E in Q. replace (eig_plus a b c / eig_plus a b c) with 1 in Q by (field; lra).
    apply pow2_eq_0. lra.
Qed.

(* the docstring's formula e = sqrt(1 - b^2/a^2) on the semi-axes *)
Lemma ecc_axes : forall a b c, PSD a b c -> 0 < eig_plus a b c ->
  eccentricity a b c = sqrt (1 - (semiminor a b c / semimajor a b c) ^ 2).
Proof.
  intros a b c H Hp. pose proof (semimajor_pos _ _ _ Hp).
  replace ((semiminor a b c / semimajor a b c) ^ 2)
    with (semiminor a b c ^ 2 / semimajor a b c ^ 2) by (field; lra).
  rewrite semimajor_sqr, semiminor_sqr; auto.
Qed.

Lemma elongation_ge_1 : forall a b c, 0 < semiminor a b c -> 1 <= elongation a b c.
Proof.
  intros a b c Hs. pose proof (semi_order a b c) as O.
  unfold elongation, elongation_of. fold (semimajor a b c) (semiminor a b c).
  replace 1 with (semiminor a b c * / semiminor a b c) by (field; lra).
  unfold Rdiv. apply Rmult_le_compat_r; [ left; now apply Rinv_0_lt_compat | lra ].
Qed.

Lemma elongation_sqr : forall a b c, PSD a b c -> 0 < semiminor a b c ->
  elongation a b c ^ 2 = eig_plus a b c / eig_minus a b c.
Proof.
  intros a b c H Hs. rewrite <- semimajor_sqr, <- semiminor_sqr; auto.
  unfold elongation, elongation_of. fold (semimajor a b c) (semiminor a b c). field. lra.
Qed.

Lemma ellipticity_elongation : forall a b c, 0 < semiminor a b c ->
  ellipticity a b c = 1 - 1 / elongation a b c.
Proof.
  intros a b c Hs. pose proof (semi_order a b c).
  unfold ellipticity, ellipticity_of, elongation, elongation_of.
  fold (semimajor a b c) (semiminor a b c). field. lra.
Qed.

Lemma ellipticity_range : forall a b c, 0 < semimajor a b c -> 0 <= ellipticity a b c <= 1.
Proof.
  intros a b c Hs. pose proof (semi_order a b c) as O.
  unfold ellipticity, ellipticity_of. fold (semimajor a b c) (semiminor a b c).
  assert (Hi : 0 < / semimajor a b c) by now apply Rinv_0_lt_compat.
  assert (0 <= semiminor a b c / semimajor a b c) by (unfold Rdiv; apply Rmult_le_pos; lra).
  assert (semiminor a b c / semimajor a b c <= 1).
  { replace 1 with (semimajor a b c * / semimajor a b c) by (field; lra).
    unfold Rdiv. apply Rmult_le_compat_r; lra. }
  lra.
Qed.

Lemma ellipticity_lt_1 : forall a b c, 0 < semiminor a b c -> ellipticity a b c < 1.
Proof.
  intros a b c Hs. pose proof (semi_order a b c) as O.
  unfold ellipticity, ellipticity_of. fold (semimajor a b c) (semiminor a b c).
  assert (0 < semiminor a b c / semimajor a b c).
  { unfold Rdiv. apply Rmult_lt_0_compat; auto. apply Rinv_0_lt_compat. lra. }
  lra.
Qed.

Lemma ln2_pos : 0 < ln 2.
Proof. rewrite <- ln_1. apply ln_increasing; lra. Qed.

Lemma fwhm_trace : forall a b c, PSD a b c -> fwhm a b c = 2 * sqrt (ln 2 * (a + c)).
Proof.
  intros a b c H. unfold fwhm, fwhm_of. fold (semimajor a b c) (semiminor a b c).
  rewrite semimajor_sqr, semiminor_sqr, eig_sum; auto.
Qed.

Lemma fwhm_sqr : forall a b c, PSD a b c -> fwhm a b c ^ 2 = 4 * ln 2 * (a + c).
Proof.
  intros a b c H. rewrite fwhm_trace; auto. pose proof ln2_pos. destruct H as (Ha & Hc & _).
  replace ((2 * sqrt (ln 2 * (a + c))) ^ 2) with (4 * sqrt (ln 2 * (a + c)) ^ 2) by ring.
  rewrite pow2_sqrt; [ ring | apply Rmult_le_pos; lra ].
Qed.

(* the docstring's first form 2 sqrt(2 ln 2) sqrt(0.5 (A^2 + B^2)) *)
Lemma fwhm_docstring : forall a b c,
  fwhm a b c = 2 * sqrt (2 * ln 2) * sqrt ((1 / 2) * (semimajor a b c ^ 2 + semiminor a b c ^ 2)).
Proof.
  intros. unfold fwhm, fwhm_of. fold (semimajor a b c) (semiminor a b c). pose proof ln2_pos.
  rewrite Rmult_assoc. rewrite <- sqrt_mult; try lra.
  - f_equal. f_equal. field.
  - pose proof (pow2_ge_0 (semimajor a b c)). pose proof (pow2_ge_0 (semiminor a b c)). lra.
Qed.

Lemma equivalent_radius_area : forall area, 0 <= area ->
  0 <= equivalent_radius area /\ PI * equivalent_radius area ^ 2 = area.
Proof.
  intros area Ha. unfold equivalent_radius. pose proof PI_RGT_0 as HP. split; [apply sqrt_pos|].
  rewrite pow2_sqrt.
  - field. lra.
  - unfold Rdiv. apply Rmult_le_pos; auto. left. apply Rinv_0_lt_compat. lra.
Qed.

(* ================================================================== *)
(* 3. atan2: range, polar decomposition, scaling, reflection           *)
(* ================================================================== *)
Lemma atan2_pos_x : forall y x, 0 < x -> atan2 y x = atan (y / x).
Proof. intros. unfold atan2. destruct (Rlt_dec 0 x); [reflexivity | lra]. Qed.

Lemma atan2_neg_x_nonneg_y : forall y x, x < 0 -> 0 <= y -> atan2 y x = atan (y / x) + PI.
Proof.
  intros. unfold atan2. destruct (Rlt_dec 0 x); [lra|]. destruct (Rlt_dec x 0); [|lra].
  destruct (Rle_dec 0 y); [reflexivity | lra].
Qed.

Lemma atan2_neg_x_neg_y : forall y x, x < 0 -> y < 0 -> atan2 y x = atan (y / x) - PI.
Proof.
  intros. unfold atan2. destruct (Rlt_dec 0 x); [lra|]. destruct (Rlt_dec x 0); [|lra].
  destruct (Rle_dec 0 y); [lra | reflexivity].
Qed.

Lemma atan2_zero_x_pos_y : forall y, 0 < y -> atan2 y 0 = PI / 2.
Proof.
  intros. unfold atan2. destruct (Rlt_dec 0 0); [lra|]. destruct (Rlt_dec 0 y); [reflexivity | lra].
Qed.

Lemma atan2_zero_x_neg_y : forall y, y < 0 -> atan2 y 0 = - (PI / 2).
Proof.
  intros. unfold atan2. destruct (Rlt_dec 0 0); [lra|]. destruct (Rlt_dec 0 y); [lra|].
  destruct (Rlt_dec y 0); [reflexivity | lra].
Qed.

Lemma atan2_origin : atan2 0 0 = 0.
Proof. unfold atan2. repeat (destruct (Rlt_dec _ _); try lra). Qed.

(* sign of a quotient *)
Lemma div_nonpos_neg : forall y x, x < 0 -> 0 <= y -> y / x <= 0.
Proof.
  intros y x Hx Hy. assert (/ x < 0) by now apply Rinv_lt_0_compat.
  unfold Rdiv. nra.
Qed.
Lemma div_pos_neg_neg : forall y x, x < 0 -> y < 0 -> 0 < y / x.
Proof.
  intros y x Hx Hy. assert (/ x < 0) by now apply Rinv_lt_0_compat.
  unfold Rdiv. nra.
Qed.

Lemma atan_nonpos : forall t, t <= 0 -> atan t <= 0.
Proof.
  intros t [Ht | ->]; [ | rewrite atan_0; lra ].
  left. rewrite <- atan_0. now apply atan_increasing.
Qed.
Lemma atan_pos : forall t, 0 < t -> 0 < atan t.
Proof. intros t Ht. rewrite <- atan_0. now apply atan_increasing. Qed.

(* np.arctan2 takes its values in (-pi, pi] *)
Lemma atan2_bound : forall y x, - PI < atan2 y x <= PI.
Proof.
  intros y x. pose proof PI_RGT_0 as HP.
  destruct (Rlt_dec 0 x) as [Hx|Hx].
  - rewrite atan2_pos_x; auto. pose proof (atan_bound (y / x)). lra.
  - destruct (Rlt_dec x 0) as [Hx'|Hx'].
    + destruct (Rle_dec 0 y) as [Hy|Hy].
      * rewrite atan2_neg_x_nonneg_y; auto. pose proof (atan_bound (y / x)).
        pose proof (atan_nonpos _ (div_nonpos_neg _ _ Hx' Hy)). lra.
      * rewrite atan2_neg_x_neg_y; try lra. pose proof (atan_bound (y / x)).
        assert (Hy' : y < 0) by lra. pose proof (atan_pos _ (div_pos_neg_neg _ _ Hx' Hy')). lra.
    + assert (x = 0) by lra. subst x.
      destruct (Rlt_dec 0 y); [ rewrite atan2_zero_x_pos_y; auto; lra | ].
      destruct (Rlt_dec y 0); [ rewrite atan2_zero_x_neg_y; auto; lra | ].
      assert (y = 0) by lra. subst y. rewrite atan2_origin. lra.
Qed.

(* polar decomposition: (x, y) = rho (cos phi, sin phi), rho = |(x,y)|, phi = atan2 y x *)
Lemma norm_pos_x : forall x y, 0 < x -> sqrt (x * x + y * y) = x * sqrt (1 + (y / x)²).
Proof.
  intros x y Hx. rewrite <- sqrt_scale; try lra.
  - f_equal. unfold Rsqr. field. lra.
  - pose proof (Rle_0_sqr (y / x)). lra.
Qed.
Lemma norm_neg_x : forall x y, x < 0 -> sqrt (x * x + y * y) = - x * sqrt (1 + (y / x)²).
Proof.
  intros x y Hx. rewrite <- sqrt_scale; try lra.
  - f_equal. unfold Rsqr. field. lra.
  - pose proof (Rle_0_sqr (y / x)). lra.
Qed.
Lemma sqrt_1_sqr_pos : forall t, 0 < sqrt (1 + t²).
Proof. intro t. apply sqrt_lt_R0. pose proof (Rle_0_sqr t). lra. Qed.

Lemma atan2_polar : forall y x,
  x = sqrt (x * x + y * y) * cos (atan2 y x) /\ y = sqrt (x * x + y * y) * sin (atan2 y x).
Proof.
  intros y x.
  destruct (Rlt_dec 0 x) as [Hx|Hx].
  - rewrite atan2_pos_x; auto. rewrite norm_pos_x; auto. rewrite cos_atan, sin_atan.
    pose proof (sqrt_1_sqr_pos (y / x)). split; field; lra.
  - destruct (Rlt_dec x 0) as [Hx'|Hx'].
    + pose proof (sqrt_1_sqr_pos (y / x)). rewrite norm_neg_x; auto.
      destruct (Rle_dec 0 y) as [Hy|Hy].
      * rewrite atan2_neg_x_nonneg_y; auto. rewrite neg_cos, neg_sin, cos_atan, sin_atan.
        split; field; lra.
      * rewrite atan2_neg_x_neg_y; try lra.
        rewrite cos_minus, sin_minus, cos_PI, sin_PI, cos_atan, sin_atan.
        split; field; lra.
    + assert (x = 0) by lra. subst x. replace (0 * 0 + y * y) with (y * y) by ring.
      destruct (Rlt_dec 0 y) as [Hy|Hy].
      { rewrite atan2_zero_x_pos_y; auto. rewrite cos_PI2, sin_PI2, sqrt_square; lra. }
      destruct (Rlt_dec y 0) as [Hy'|Hy'].
      { rewrite atan2_zero_x_neg_y; auto. rewrite cos_neg, sin_neg, cos_PI2, sin_PI2.
        replace (y * y) with (- y * - y) by ring. rewrite sqrt_square; lra. }
      assert (y = 0) by lra. subst y. rewrite Rmult_0_l, sqrt_0. lra.
Qed.

(* arctan2 only sees the direction: positive rescaling of both arguments changes nothing *)
Lemma atan2_scale : forall k y x, 0 < k -> atan2 (k * y) (k * x) = atan2 y x.
Proof.
  intros k y x Hk.
  assert (Q : x <> 0 -> k * y / (k * x) = y / x) by (intro; field; lra).
  destruct (Rlt_dec 0 x) as [Hx|Hx].
  - rewrite !atan2_pos_x; auto; [ rewrite Q; lra | nra ].
  - destruct (Rlt_dec x 0) as [Hx'|Hx'].
    + assert (k * x < 0) by nra.
      destruct (Rle_dec 0 y) as [Hy|Hy].
      * rewrite !atan2_neg_x_nonneg_y; auto; [ rewrite Q; lra | nra ].
      * rewrite !atan2_neg_x_neg_y; auto; try lra; [ rewrite Q; lra | nra ].
    + assert (x = 0) by lra. subst x. rewrite Rmult_0_r.
      destruct (Rlt_dec 0 y) as [Hy|Hy].
      { rewrite !atan2_zero_x_pos_y; auto. nra. }
      destruct (Rlt_dec y 0) as [Hy'|Hy'].
      { rewrite !atan2_zero_x_neg_y; auto. nra. }
      assert (y = 0) by lra. subst y. now rewrite Rmult_0_r.
Qed.

(* reflection x -> -x (what swapping the image axes does to the arguments of the orientation) *)
Lemma atan2_reflect_pos_y : forall y x, 0 < y -> atan2 y (- x) = PI - atan2 y x.
Proof.
  intros y x Hy.
  assert (Q : x <> 0 -> y / - x = - (y / x)) by (intro; field; lra).
  destruct (Rlt_dec 0 x) as [Hx|Hx].
  - rewrite (atan2_pos_x y x); auto. rewrite (atan2_neg_x_nonneg_y y (- x)); try lra.
    rewrite Q, atan_opp; lra.
  - destruct (Rlt_dec x 0) as [Hx'|Hx'].
    + rewrite (atan2_pos_x y (- x)); try lra. rewrite (atan2_neg_x_nonneg_y y x); try lra.
      rewrite Q, atan_opp; lra.
    + assert (x = 0) by lra. subst x. rewrite Ropp_0. rewrite atan2_zero_x_pos_y; auto. lra.
Qed.

Lemma atan2_reflect_neg_y : forall y x, y < 0 -> atan2 y (- x) = - PI - atan2 y x.
Proof.
  intros y x Hy.
  assert (Q : x <> 0 -> y / - x = - (y / x)) by (intro; field; lra).
  destruct (Rlt_dec 0 x) as [Hx|Hx].
  - rewrite (atan2_pos_x y x); auto. rewrite (atan2_neg_x_neg_y y (- x)); try lra.
    rewrite Q, atan_opp; lra.
  - destruct (Rlt_dec x 0) as [Hx'|Hx'].
    + rewrite (atan2_pos_x y (- x)); try lra. rewrite (atan2_neg_x_neg_y y x); try lra.
      rewrite Q, atan_opp; lra.
    + assert (x = 0) by lra. subst x. rewrite Ropp_0. rewrite atan2_zero_x_neg_y; auto. lra.
Qed.

Lemma atan2_zero_y_pos_x : forall x, 0 < x -> atan2 0 x = 0.
Proof. intros. rewrite atan2_pos_x; auto. unfold Rdiv. rewrite Rmult_0_l. apply atan_0. Qed.
Lemma atan2_zero_y_neg_x : forall x, x < 0 -> atan2 0 x = PI.
Proof.
  intros. rewrite atan2_neg_x_nonneg_y; auto; try lra. unfold Rdiv. rewrite Rmult_0_l, atan_0. lra.
Qed.

Lemma atan2_reflect_zero_y : forall x, x <> 0 -> atan2 0 (- x) = PI - atan2 0 x.
Proof.
  intros x Hx. destruct (Rlt_dec 0 x).
  - rewrite (atan2_zero_y_pos_x x); auto. rewrite (atan2_zero_y_neg_x (- x)); lra.
  - rewrite (atan2_zero_y_neg_x x); try lra. rewrite (atan2_zero_y_pos_x (- x)); lra.
Qed.

(* ================================================================== *)
(* 4. orientation = direction of the major axis                        *)
(* ================================================================== *)
Lemma deg2rad_rad2deg : forall x, deg2rad (rad2deg x) = x.
Proof. intro x. unfold deg2rad, rad2deg. field. apply PI_neq0. Qed.

Lemma rad2deg_linear : forall k x, rad2deg (k * (PI / 2) - x) = k * 90 - rad2deg x.
Proof. intros. unfold rad2deg. field. apply PI_neq0. Qed.

Lemma orientation_rad_range : forall a b c,
  - (PI / 2) < orientation_rad a b c <= PI / 2.
Proof.
  intros. unfold orientation_rad. pose proof (atan2_bound (2 * b) (a - c)). lra.
Qed.

Lemma orientation_deg_range : forall a b c, - 90 < orientation a b c <= 90.
Proof.
  intros. pose proof (orientation_rad_range a b c) as [L U]. pose proof PI_RGT_0 as HP.
  unfold orientation, rad2deg. set (t := orientation_rad a b c) in *.
  assert (Hi : 0 < / PI) by now apply Rinv_0_lt_compat.
  assert (E : forall z, z * 180 / PI = (z * / PI) * 180) by (intro; field; lra).
  rewrite E.
  assert (E1 : PI / 2 * / PI = 1 / 2) by (field; lra).
  assert (L' : - (PI / 2) * / PI < t * / PI) by (apply Rmult_lt_compat_r; auto).
  assert (U' : t * / PI <= PI / 2 * / PI) by (apply Rmult_le_compat_r; lra).
  replace (- (PI / 2) * / PI) with (- (PI / 2 * / PI)) in L' by ring.
  rewrite E1 in *. lra.
Qed.

Lemma orientation_cos_nonneg : forall a b c, 0 <= cos (orientation_rad a b c).
Proof. intros. pose proof (orientation_rad_range a b c). apply cos_ge_0; lra. Qed.

(* (a-c)/2 = r cos(2 theta), b = r sin(2 theta) with r = half the eigenvalue gap *)
Lemma double_angle : forall a b c,
  (a - c) / 2 = half_gap a b c * cos (2 * orientation_rad a b c) /\
  b = half_gap a b c * sin (2 * orientation_rad a b c).
Proof.
  intros.
  replace (2 * orientation_rad a b c) with (atan2 (2 * b) (a - c))
    by (unfold orientation_rad; field).
  destruct (atan2_polar (2 * b) (a - c)) as [Hx Hy].
  assert (N : sqrt ((a - c) * (a - c) + 2 * b * (2 * b)) = 2 * half_gap a b c).
  { unfold half_gap. rewrite <- (sqrt_scale 2); try lra.
    - f_equal. field.
    - apply Rplus_le_le_0_compat; apply pow2_ge_0. }
  rewrite N in Hx, Hy. lra.
Qed.

Lemma orientation_cs : forall a b c,
  let C := cos (orientation_rad a b c) in let S := sin (orientation_rad a b c) in
  (a - c) / 2 = half_gap a b c * (C * C - S * S) /\ b = half_gap a b c * (2 * S * C).
Proof.
  intros. destruct (double_angle a b c) as [H1 H2]. rewrite cos_2a in H1. rewrite sin_2a in H2.
  auto.
Qed.

Lemma eigvec_algebra : forall a b c r C S,
  (a - c) / 2 = r * (C * C - S * S) -> b = r * (2 * S * C) -> S * S + C * C = 1 ->
  eigvec a b c ((a + c) / 2 + r) C S /\ eigvec a b c ((a + c) / 2 - r) (- S) C.
Proof.
  intros a b c r C S Hd Hb Hu. assert (Ha : a = c + 2 * (r * (C * C - S * S))) by lra.
  subst a b. unfold eigvec. repeat split.
  - transitivity (((c + 2 * (r * (C * C - S * S)) + c) / 2 + r) * C + r * C * (S * S + C * C - 1));
      [ field | rewrite Hu; field ].
  - transitivity (((c + 2 * (r * (C * C - S * S)) + c) / 2 + r) * S + r * S * (S * S + C * C - 1));
      [ field | rewrite Hu; field ].
  - transitivity (((c + 2 * (r * (C * C - S * S)) + c) / 2 - r) * - S + r * S * (S * S + C * C - 1));
      [ field | rewrite Hu; field ].
  - transitivity (((c + 2 * (r * (C * C - S * S)) + c) / 2 - r) * C - r * C * (S * S + C * C - 1));
      [ field | rewrite Hu; field ].
Qed.

(* the unit vector at angle [orientation] is an eigenvector for the LARGER eigenvalue,
   the perpendicular one for the smaller: holds for every symmetric matrix *)
Lemma orientation_eigvec : forall a b c,
  let t := orientation_rad a b c in
  eigvec a b c (eig_plus a b c) (cos t) (sin t) /\
  eigvec a b c (eig_minus a b c) (- sin t) (cos t).
Proof.
  intros. destruct (orientation_cs a b c) as [H1 H2].
  apply eigvec_algebra; auto. apply sqr_sin_cos.
Qed.

(* ... and when the eigenvalues differ it is the only such direction: every unit eigenvector for
   eig_plus is + or - (cos t, sin t) *)
Lemma major_axis_unique : forall a b c u v,
  eig_plus a b c <> eig_minus a b c ->
  eigvec a b c (eig_plus a b c) u v -> u * u + v * v = 1 ->
  let t := orientation_rad a b c in
  (u = cos t /\ v = sin t) \/ (u = - cos t /\ v = - sin t).
Proof.
  intros a b c u v Hne [H1 H2] Hn t.
  destruct (orientation_eigvec a b c) as [_ [E1 E2]]. fold t in E1, E2.
  pose proof (sqr_sin_cos t) as Hu.
  set (C := cos t) in *. set (S := sin t) in *.
  set (lp := eig_plus a b c) in *. set (lm := eig_minus a b c) in *.
  set (beta := - S * u + C * v).
  assert (B : lm * beta = lp * beta).
  { transitivity ((a * - S + b * C) * u + (b * - S + c * C) * v).
    - rewrite E1, E2. unfold beta. ring.
    - transitivity (- S * (a * u + b * v) + C * (b * u + c * v)); [ring|].
      rewrite H1, H2. unfold beta. ring. }
  assert (B0 : beta = 0).
  { assert (Z : (lp - lm) * beta = 0) by lra. apply Rmult_integral in Z. destruct Z; [lra | auto]. }
  set (alpha := C * u + S * v).
  assert (Eu : u = alpha * C).
  { transitivity (alpha * C - beta * S + u * (1 - (S * S + C * C))); [ unfold alpha, beta; ring | ].
    rewrite Hu, B0. ring. }
  assert (Ev : v = alpha * S).
  { transitivity (alpha * S + beta * C + v * (1 - (S * S + C * C))); [ unfold alpha, beta; ring | ].
    rewrite Hu, B0. ring. }
  assert (A2 : alpha * alpha = 1).
  { transitivity (alpha * alpha * (S * S + C * C)); [ rewrite Hu; ring | ].
    rewrite <- Hn. rewrite Eu, Ev at 1. rewrite Eu, Ev. ring. }
  assert (A : (alpha - 1) * (alpha + 1) = 0) by (ring_simplify; lra).
  apply Rmult_integral in A. destruct A as [A | A].
  - left. assert (alpha = 1) by lra. rewrite Eu, Ev, H. split; ring.
  - right. assert (alpha = -1) by lra. rewrite Eu, Ev, H. split; ring.
Qed.

(* the classical formula tan(2 theta) = 2 b / (a - c) *)
Lemma orientation_tan2 : forall a b c, a <> c ->
  tan (2 * orientation_rad a b c) = 2 * b / (a - c).
Proof.
  intros a b c Hne. destruct (double_angle a b c) as [H1 H2].
  set (t2 := 2 * orientation_rad a b c) in *. set (r := half_gap a b c) in *.
  assert (Hr : r <> 0). { intro Z. rewrite Z in H1. lra. }
  assert (Hc : cos t2 <> 0). { intro Z. rewrite Z in H1. lra. }
  unfold tan. rewrite H2. replace (a - c) with (2 * (r * cos t2)) by lra. field. auto.
Qed.

(* ================================================================== *)
(* 5. ellipse coefficients cxx, cyy, cxy                                *)
(* ================================================================== *)
(* the code's expressions, with the degree round trip removed *)
Lemma ellipse_coeffs_trig : forall a b c,
  let t := orientation_rad a b c in let A := semimajor a b c in let B := semiminor a b c in
  cxx a b c = (cos t / A) ^ 2 + (sin t / B) ^ 2 /\
  cyy a b c = (sin t / A) ^ 2 + (cos t / B) ^ 2 /\
  cxy a b c = 2 * cos t * sin t * (1 / A ^ 2 - 1 / B ^ 2).
Proof.
  intros. unfold cxx, cyy, cxy, cxx_of, cyy_of, cxy_of, cos_deg, sin_deg, orientation.
  rewrite deg2rad_rad2deg. fold t. auto.
Qed.

Lemma projections : forall a b c,
  let t := orientation_rad a b c in let C := cos t in let S := sin t in
  C * C * eig_minus a b c + S * S * eig_plus a b c = c /\
  S * S * eig_minus a b c + C * C * eig_plus a b c = a /\
  2 * C * S * (eig_minus a b c - eig_plus a b c) = - 2 * b.
Proof.
  intros. destruct (orientation_cs a b c) as [Hd Hb]. fold t in Hd, Hb. fold C S in Hd, Hb.
  pose proof (sqr_sin_cos t) as Hu. fold C S in Hu.
  unfold eig_plus, eig_minus. set (r := half_gap a b c) in *. repeat split.
  - transitivity ((a + c) / 2 * (S * S + C * C) - r * (C * C - S * S)); [ field | ].
    rewrite Hu, <- Hd. field.
  - transitivity ((a + c) / 2 * (S * S + C * C) + r * (C * C - S * S)); [ field | ].
    rewrite Hu, <- Hd. field.
  - transitivity (- 2 * (r * (2 * S * C))); [ field | ]. now rewrite <- Hb.
Qed.

(* cxx, cyy, cxy are the entries of the inverse covariance matrix *)
Lemma ellipse_coeffs_inverse : forall a b c, 0 <= a -> 0 < cov_det a b c ->
  cxx a b c = c / cov_det a b c /\
  cyy a b c = a / cov_det a b c /\
  cxy a b c = - 2 * b / cov_det a b c.
Proof.
  intros a b c Ha Hd.
  assert (Hc : 0 <= c) by (unfold cov_det in Hd; nra).
  assert (P : PSD a b c) by (unfold PSD; lra).
  destruct (ellipse_coeffs_trig a b c) as (E1 & E2 & E3). rewrite E1, E2, E3. clear E1 E2 E3.
  destruct (projections a b c) as (P1 & P2 & P3).
  pose proof (semimajor_sqr _ _ _ P) as QA. pose proof (semiminor_sqr _ _ _ P) as QB.
  pose proof (semiminor_pos _ _ _ Ha Hd) as HB. pose proof (semi_order a b c) as O.
  pose proof (eig_minus_pos _ _ _ Ha Hd) as Hm. pose proof (eig_order a b c) as Oe.
  set (A := semimajor a b c) in *. set (B := semiminor a b c) in *.
  set (C := cos (orientation_rad a b c)) in *. set (S := sin (orientation_rad a b c)) in *.
  rewrite <- (eig_prod a b c).
  set (lp := eig_plus a b c) in *. set (lm := eig_minus a b c) in *.
  repeat split.
  - replace ((C / A) ^ 2 + (S / B) ^ 2) with (C * C / A ^ 2 + S * S / B ^ 2) by (field; lra).
    rewrite QA, QB, <- P1. field. lra.
  - replace ((S / A) ^ 2 + (C / B) ^ 2) with (S * S / A ^ 2 + C * C / B ^ 2) by (field; lra).
    rewrite QA, QB, <- P2. field. lra.
  - rewrite QA, QB, <- P3. field. lra.
Qed.

(* Sigma * Sigma^-1 = I, written out *)
Lemma ellipse_coeffs_are_inverse_matrix : forall a b c, 0 <= a -> 0 < cov_det a b c ->
  a * cxx a b c + b * (cxy a b c / 2) = 1 /\ a * (cxy a b c / 2) + b * cyy a b c = 0 /\
  b * cxx a b c + c * (cxy a b c / 2) = 0 /\ b * (cxy a b c / 2) + c * cyy a b c = 1.
Proof.
  intros a b c Ha Hd. destruct (ellipse_coeffs_inverse _ _ _ Ha Hd) as (-> & -> & ->).
  unfold cov_det in *. repeat split; field; lra.
Qed.

(* the quadratic form of the code's coefficients is the 1-sigma form of the covariance *)
Lemma ellipse_quadratic_form : forall a b c x y, 0 <= a -> 0 < cov_det a b c ->
  cxx a b c * x ^ 2 + cxy a b c * x * y + cyy a b c * y ^ 2 =
  (c * x ^ 2 - 2 * b * x * y + a * y ^ 2) / cov_det a b c.
Proof.
  intros a b c x y Ha Hd. destruct (ellipse_coeffs_inverse _ _ _ Ha Hd) as (-> & -> & ->).
  field. lra.
Qed.

(* in the rotated frame it is the axis-aligned ellipse with semi-axes A and B: pure trigonometry,
   valid for the code's formulas whenever both semi-axes are non-zero *)
Lemma ellipse_principal_axes : forall a b c x y, ellipse_coeffs_defined a b c ->
  let t := orientation_rad a b c in
  cxx a b c * x ^ 2 + cxy a b c * x * y + cyy a b c * y ^ 2 =
  ((cos t * x + sin t * y) / semimajor a b c) ^ 2 +
  ((- sin t * x + cos t * y) / semiminor a b c) ^ 2.
Proof.
  intros a b c x y [HA HB] t. destruct (ellipse_coeffs_trig a b c) as (-> & -> & ->). fold t.
  field. auto.
Qed.

(* ================================================================== *)
(* 6. transposition  (a, b, c) -> (c, b, a)                             *)
(* ================================================================== *)
Lemma psd_transpose : forall a b c, PSD a b c <-> PSD c b a.
Proof. intros. unfold PSD, cov_det. split; intros (H1 & H2 & H3); repeat split; lra. Qed.

Lemma cov_det_transpose : forall a b c, cov_det c b a = cov_det a b c.
Proof. intros. unfold cov_det. ring. Qed.

Lemma half_gap_transpose : forall a b c, half_gap c b a = half_gap a b c.
Proof. intros. unfold half_gap. f_equal. field. Qed.

Lemma eig_pair_transpose : forall a b c, eig_pair c b a = eig_pair a b c.
Proof.
  intros. unfold eig_pair, eig_plus, eig_minus. rewrite half_gap_transpose.
  f_equal; f_equal; field.
Qed.

Lemma code_eigvals_transpose : forall s s' a b c,
  covariance_eigvals s c b a = covariance_eigvals s' a b c.
Proof.
  intros. destruct (Rle_or_lt 0 (eig_minus a b c)) as [H|H].
  - apply eig_minus_nonneg_psd in H. rewrite (code_eigvals_psd s'); auto.
    rewrite code_eigvals_psd; [ now rewrite eig_pair_transpose | now apply psd_transpose ].
  - rewrite (code_eigvals_not_psd s'); [ | intro P; apply eig_minus_nonneg in P; lra ].
    rewrite code_eigvals_not_psd; auto. intro P. apply psd_transpose in P.
    apply eig_minus_nonneg in P. lra.
Qed.

Lemma orientation_rad_transpose_pos : forall a b c, 0 < b ->
  orientation_rad c b a = PI / 2 - orientation_rad a b c.
Proof.
  intros a b c Hb. unfold orientation_rad. replace (c - a) with (- (a - c)) by ring.
  rewrite atan2_reflect_pos_y; lra.
Qed.

Lemma orientation_rad_transpose_neg : forall a b c, b < 0 ->
  orientation_rad c b a = - (PI / 2) - orientation_rad a b c.
Proof.
  intros a b c Hb. unfold orientation_rad. replace (c - a) with (- (a - c)) by ring.
  rewrite atan2_reflect_neg_y; lra.
Qed.

Lemma orientation_rad_transpose_zero : forall a c, a <> c ->
  orientation_rad c 0 a = PI / 2 - orientation_rad a 0 c.
Proof.
  intros a c Hne. unfold orientation_rad. replace (c - a) with (- (a - c)) by ring.
  rewrite Rmult_0_r. rewrite atan2_reflect_zero_y; lra.
Qed.

Lemma orientation_rad_axis_aligned : forall a c,
  orientation_rad a 0 c = (if Rlt_dec a c then PI / 2 else 0).
Proof.
  intros. unfold orientation_rad. rewrite Rmult_0_r. destruct (Rlt_dec a c).
  - rewrite atan2_zero_y_neg_x; lra.
  - destruct (Req_dec a c) as [->|].
    + replace (c - c) with 0 by ring. rewrite atan2_origin. lra.
    + rewrite atan2_zero_y_pos_x; lra.
Qed.

Lemma orientation_rad_isotropic : forall a, orientation_rad a 0 a = 0.
Proof. intros. rewrite orientation_rad_axis_aligned. destruct (Rlt_dec a a); lra. Qed.

(* all cases at once: unless the matrix is a multiple of the identity, the transposed orientation
   is pi/2 - theta, brought back into (-pi/2, pi/2] by subtracting pi exactly when b < 0 *)
Lemma orientation_rad_transpose : forall a b c, (a <> c \/ b <> 0) ->
  orientation_rad c b a = PI / 2 - orientation_rad a b c - (if Rlt_dec b 0 then PI else 0).
Proof.
  intros a b c H. destruct (Rlt_dec b 0) as [Hb|Hb].
  - rewrite orientation_rad_transpose_neg; lra.
  - destruct (Rlt_dec 0 b) as [Hb'|Hb'].
    + rewrite orientation_rad_transpose_pos; lra.
    + assert (b = 0) by lra. subst b. rewrite orientation_rad_transpose_zero; [lra|].
      destruct H; [auto | lra].
Qed.

Lemma orientation_transpose : forall a b c, (a <> c \/ b <> 0) ->
  orientation c b a = 90 - orientation a b c - (if Rlt_dec b 0 then 180 else 0).
Proof.
  intros a b c H. unfold orientation. rewrite orientation_rad_transpose; auto.
  unfold rad2deg. destruct (Rlt_dec b 0); field; apply PI_neq0.
Qed.

(* geometric reading: the major-axis LINE of the transposed matrix is the mirror image of the
   original one under (x, y) -> (y, x) *)
Lemma orientation_transpose_direction : forall a b c, (a <> c \/ b <> 0) ->
  let t := orientation_rad a b c in let t' := orientation_rad c b a in
  exists s, (s = 1 \/ s = -1) /\ cos t' = s * sin t /\ sin t' = s * cos t.
Proof.
  intros a b c H t t'. unfold t'. rewrite orientation_rad_transpose; auto. fold t.
  destruct (Rlt_dec b 0).
  - exists (-1). split; [now right|].
    replace (PI / 2 - t - PI) with (- (t + PI / 2)) by field.
    rewrite cos_neg, sin_neg, cos_plus, sin_plus, cos_PI2, sin_PI2. split; ring.
  - exists 1. split; [now left|]. rewrite Rminus_0_r, cos_shift, sin_shift. split; ring.
Qed.

Lemma ellipse_coeffs_transpose : forall a b c, 0 <= a -> 0 < cov_det a b c ->
  cxx c b a = cyy a b c /\ cyy c b a = cxx a b c /\ cxy c b a = cxy a b c.
Proof.
  intros a b c Ha Hd.
  assert (Hc : 0 <= c) by (unfold cov_det in Hd; nra).
  assert (Hd' : 0 < cov_det c b a) by now rewrite cov_det_transpose.
  destruct (ellipse_coeffs_inverse _ _ _ Ha Hd) as (-> & -> & ->).
  destruct (ellipse_coeffs_inverse _ _ _ Hc Hd') as (-> & -> & ->).
  rewrite cov_det_transpose. auto.
Qed.

(* ================================================================== *)
(* 7. the 1/12 regularisation                                           *)
(* ================================================================== *)
Lemma half_gap_shift : forall a b c d, half_gap (a + d) b (c + d) = half_gap a b c.
Proof. intros. unfold half_gap. f_equal. field. Qed.

Lemma eig_plus_shift : forall a b c d, eig_plus (a + d) b (c + d) = eig_plus a b c + d.
Proof. intros. unfold eig_plus. rewrite half_gap_shift. field. Qed.

Lemma eig_minus_shift : forall a b c d, eig_minus (a + d) b (c + d) = eig_minus a b c + d.
Proof. intros. unfold eig_minus. rewrite half_gap_shift. field. Qed.

Lemma orientation_rad_shift : forall a b c d,
  orientation_rad (a + d) b (c + d) = orientation_rad a b c.
Proof. intros. unfold orientation_rad. replace (a + d - (c + d)) with (a - c) by ring. auto. Qed.

Lemma orientation_shift : forall a b c d, orientation (a + d) b (c + d) = orientation a b c.
Proof. intros. unfold orientation. now rewrite orientation_rad_shift. Qed.

Lemma cov_det_shift : forall a b c d,
  cov_det (a + d) b (c + d) = cov_det a b c + d * (a + c) + d * d.
Proof. intros. unfold cov_det. ring. Qed.

Lemma delta_pos : 0 < delta.
Proof. unfold delta. lra. Qed.

Lemma psd_shift : forall a b c d, 0 <= d -> PSD a b c -> PSD (a + d) b (c + d).
Proof.
  intros a b c d Hd (Ha & Hc & Hdet). unfold PSD. rewrite cov_det_shift.
  repeat split; try lra. assert (0 <= d * (a + c)) by (apply Rmult_le_pos; lra).
  assert (0 <= d * d) by (apply Rmult_le_pos; lra). lra.
Qed.

(* one step is enough for a positive-semidefinite matrix *)
Lemma psd_one_step : forall a b c, PSD a b c -> delta2 <= cov_det (a + delta) b (c + delta).
Proof.
  intros a b c (Ha & Hc & Hdet). rewrite cov_det_shift. pose proof delta_pos.
  assert (0 <= delta * (a + c)) by (apply Rmult_le_pos; lra).
  unfold delta2. replace (delta ^ 2) with (delta * delta) by ring. lra.
Qed.

Lemma regularise_psd : forall fuel a b c, PSD a b c ->
  regularise (S fuel) a b c =
  Some (if Rlt_dec (cov_det a b c) delta2 then (a + delta, b, c + delta) else (a, b, c)).
Proof.
  intros fuel a b c H. cbn [regularise]. destruct (Rlt_dec (cov_det a b c) delta2); auto.
  pose proof (psd_one_step _ _ _ H). destruct fuel; cbn [regularise];
    destruct (Rlt_dec _ _); auto; lra.
Qed.

Lemma regularise_stats_psd : forall fuel a b c, PSD a b c ->
  regularise_stats fuel a b c = regularise fuel a b c.
Proof.
  intros fuel a b c (_ & _ & Hd). unfold regularise_stats.
  destruct (Rlt_dec (cov_det a b c) 0); auto; lra.
Qed.

(* the loop for an arbitrary matrix: first k with det >= delta^2, or out of fuel *)
Lemma regularise_spec : forall fuel a b c r, regularise fuel a b c = Some r ->
  exists k : nat, (k <= fuel)%nat /\
    r = (a + INR k * delta, b, c + INR k * delta) /\
    delta2 <= cov_det (a + INR k * delta) b (c + INR k * delta) /\
    forall j : nat, (j < k)%nat ->
      cov_det (a + INR j * delta) b (c + INR j * delta) < delta2.
Proof.
  induction fuel as [|f IH]; intros a b c r H; cbn [regularise] in H;
    destruct (Rlt_dec (cov_det a b c) delta2) as [L|L]; try discriminate.
  - inversion H; subst r. exists 0%nat. cbn [INR]. rewrite !Rmult_0_l, !Rplus_0_r.
    repeat split; auto; [lra | lia].
  - apply IH in H. destruct H as (k & Hk & -> & Hd & Hj). exists (S k).
    rewrite S_INR.
    replace (a + (INR k + 1) * delta) with (a + delta + INR k * delta) by ring.
    replace (c + (INR k + 1) * delta) with (c + delta + INR k * delta) by ring.
    repeat split; auto; [lia|].
    intros [|j] Hlt.
    + cbn [INR]. now rewrite !Rmult_0_l, !Rplus_0_r.
    + rewrite S_INR.
      replace (a + (INR j + 1) * delta) with (a + delta + INR j * delta) by ring.
      replace (c + (INR j + 1) * delta) with (c + delta + INR j * delta) by ring.
      apply Hj. lia.
  - inversion H; subst r. exists 0%nat. cbn [INR]. rewrite !Rmult_0_l, !Rplus_0_r.
    repeat split; auto; [lia | lra | lia].
Qed.

(* whatever the loop returns has the eigenvalues of the input shifted by k/12 and the input's
   orientation *)
Lemma regularise_effect : forall fuel a b c a' b' c', regularise fuel a b c = Some (a', b', c') ->
  exists k : nat,
    eig_plus a' b' c' = eig_plus a b c + INR k * delta /\
    eig_minus a' b' c' = eig_minus a b c + INR k * delta /\
    orientation a' b' c' = orientation a b c /\
    delta2 <= cov_det a' b' c'.
Proof.
  intros fuel a b c a' b' c' H. apply regularise_spec in H.
  destruct H as (k & _ & E & Hd & _). inversion E; subst. exists k.
  rewrite eig_plus_shift, eig_minus_shift, orientation_shift. auto.
Qed.

(* after the loop every quotient of the shape formulas has a non-zero denominator *)
Lemma delta2_pos : 0 < delta2.
Proof. unfold delta2, delta. lra. Qed.

Lemma regularised_defined : forall a b c, 0 <= a -> delta2 <= cov_det a b c ->
  0 < eig_minus a b c /\ 0 < semiminor a b c /\ 0 < semimajor a b c /\
  eccentricity_defined a b c /\ elongation_defined a b c /\ ellipticity_defined a b c /\
  ellipse_coeffs_defined a b c.
Proof.
  intros a b c Ha Hd. pose proof delta2_pos.
  assert (Hd' : 0 < cov_det a b c) by lra.
  pose proof (eig_minus_pos _ _ _ Ha Hd') as Hm. pose proof (eig_order a b c) as O.
  pose proof (semiminor_pos _ _ _ Ha Hd') as HB. pose proof (semi_order a b c) as O'.
  unfold eccentricity_defined, elongation_defined, ellipticity_defined, ellipse_coeffs_defined.
  repeat split; lra.
Qed.

(* ================================================================== *)
(* 8. rescaling; the bridge from the exact integer covariance model     *)
(* ================================================================== *)
Lemma half_gap_scale : forall k a b c, 0 <= k -> half_gap (k * a) (k * b) (k * c) = k * half_gap a b c.
Proof.
  intros k a b c Hk. unfold half_gap. rewrite <- sqrt_scale; auto.
  - f_equal. field.
  - apply Rplus_le_le_0_compat; apply pow2_ge_0.
Qed.

Lemma eig_plus_scale : forall k a b c, 0 <= k -> eig_plus (k * a) (k * b) (k * c) = k * eig_plus a b c.
Proof. intros. unfold eig_plus. rewrite half_gap_scale; auto. field. Qed.

Lemma eig_minus_scale : forall k a b c, 0 <= k -> eig_minus (k * a) (k * b) (k * c) = k * eig_minus a b c.
Proof. intros. unfold eig_minus. rewrite half_gap_scale; auto. field. Qed.

Lemma orientation_scale : forall k a b c, 0 < k -> orientation (k * a) (k * b) (k * c) = orientation a b c.
Proof.
  intros k a b c Hk. unfold orientation, orientation_rad.
  replace (2 * (k * b)) with (k * (2 * b)) by ring.
  replace (k * a - k * c) with (k * (a - c)) by ring.
  now rewrite atan2_scale.
Qed.

(* C07_Model / C16_Model deliver the covariance as integer numerators (na, nb, nc) over a common
   positive denominator D (= 12 M^2) with 0 <= na, 0 <= nc, 0 <= na nc - nb^2 proved there
   (theorem covariance_is_regularised_central_moments).  The real matrix they denote is PSD, its
   orientation can be read off the numerators alone, and its eigenvalues are those of the
   numerator matrix divided by D. *)
Lemma Z_numerators_psd : forall na nb nc D : Z,
  (0 < D)%Z -> (0 <= na)%Z -> (0 <= nc)%Z -> (0 <= na * nc - nb * nb)%Z ->
  let a := IZR na / IZR D in let b := IZR nb / IZR D in let c := IZR nc / IZR D in
  PSD a b c /\
  cov_det a b c = IZR (na * nc - nb * nb) / (IZR D * IZR D) /\
  orientation a b c = orientation (IZR na) (IZR nb) (IZR nc) /\
  eig_plus a b c = eig_plus (IZR na) (IZR nb) (IZR nc) / IZR D /\
  eig_minus a b c = eig_minus (IZR na) (IZR nb) (IZR nc) / IZR D.
Proof.
  intros na nb nc D HD Ha Hc Hdet a b c.
  assert (HD' : 0 < IZR D) by now apply IZR_lt.
  assert (Hi : 0 < / IZR D) by now apply Rinv_0_lt_compat.
  apply IZR_le in Ha, Hc, Hdet. rewrite minus_IZR, !mult_IZR in Hdet.
  assert (Edet : cov_det a b c = IZR (na * nc - nb * nb) / (IZR D * IZR D)).
  { unfold cov_det, a, b, c. rewrite minus_IZR, !mult_IZR. field. lra. }
  assert (Ea : a = / IZR D * IZR na) by (unfold a; field; lra).
  assert (Eb : b = / IZR D * IZR nb) by (unfold b; field; lra).
  assert (Ec : c = / IZR D * IZR nc) by (unfold c; field; lra).
  repeat split.
  - rewrite Ea. apply Rmult_le_pos; lra.
  - rewrite Ec. apply Rmult_le_pos; lra.
  - rewrite Edet, minus_IZR, !mult_IZR. unfold Rdiv. apply Rmult_le_pos; [lra|].
    left. apply Rinv_0_lt_compat. nra.
  - exact Edet.
  - rewrite Ea, Eb, Ec. now apply orientation_scale.
  - rewrite Ea, Eb, Ec, eig_plus_scale; [ field; lra | lra ].
  - rewrite Ea, Eb, Ec, eig_minus_scale; [ field; lra | lra ].
Qed.

(* the integer exit test of C07_Model.regularise (d2*d2 <= a*c - b*b with d2 = D/12) is the
   real test det >= (1/12)^2 *)
Lemma Z_exit_test : forall na nb nc d2 : Z, (0 < d2)%Z ->
  let D := (12 * d2)%Z in
  ((d2 * d2 <= na * nc - nb * nb)%Z <->
   delta2 <= cov_det (IZR na / IZR D) (IZR nb / IZR D) (IZR nc / IZR D)).
Proof.
  intros na nb nc d2 Hd D.
  assert (Hd' : 0 < IZR d2) by now apply IZR_lt.
  assert (E : cov_det (IZR na / IZR D) (IZR nb / IZR D) (IZR nc / IZR D) - delta2 =
              (IZR (na * nc - nb * nb) - IZR (d2 * d2)) / (144 * (IZR d2 * IZR d2))).
  { unfold cov_det, delta2, delta, D. rewrite minus_IZR, !mult_IZR. field. lra. }
  assert (Hp : 0 < 144 * (IZR d2 * IZR d2)) by nra.
  assert (Hi : 0 < / (144 * (IZR d2 * IZR d2))) by now apply Rinv_0_lt_compat.
  split; intro H.
  - apply IZR_le in H.
    assert (0 <= (IZR (na * nc - nb * nb) - IZR (d2 * d2)) / (144 * (IZR d2 * IZR d2))).
    { unfold Rdiv. apply Rmult_le_pos; lra. }
    lra.
  - apply le_IZR.
    assert (G : 0 <= (IZR (na * nc - nb * nb) - IZR (d2 * d2)) / (144 * (IZR d2 * IZR d2))) by lra.
    unfold Rdiv in G.
    destruct (Rle_or_lt (IZR (d2 * d2)) (IZR (na * nc - nb * nb))) as [|L]; auto. exfalso.
    assert ((IZR (na * nc - nb * nb) - IZR (d2 * d2)) * / (144 * (IZR d2 * IZR d2)) < 0).
    { replace 0 with (0 * / (144 * (IZR d2 * IZR d2))) by ring. apply Rmult_lt_compat_r; lra. }
    lra.
Qed.

(* ================================================================== *)
(* 9. the whole row                                                     *)
(* ================================================================== *)
Lemma shape_row_psd : forall swap a b c, PSD a b c ->
  shape_row swap a b c = Some (shape_of_eig (eig_pair a b c) (orientation a b c)).
Proof. intros. unfold shape_row. now rewrite code_eigvals_psd. Qed.

Lemma shape_row_nan_iff : forall swap a b c, shape_row swap a b c = None <-> ~ PSD a b c.
Proof.
  intros. split.
  - intros H P. rewrite shape_row_psd in H; auto. discriminate.
  - intro H. unfold shape_row. now rewrite code_eigvals_not_psd.
Qed.

Lemma shape_row_order_free : forall a b c, shape_row true a b c = shape_row false a b c.
Proof. intros. unfold shape_row. now rewrite code_eigvals_order_free. Qed.

Lemma semi_transpose : forall a b c,
  semimajor c b a = semimajor a b c /\ semiminor c b a = semiminor a b c.
Proof. intros. unfold semimajor, semiminor. now rewrite eig_pair_transpose. Qed.

(* transposition of the ellipse coefficients in the model's own (total) arithmetic: no
   definedness hypothesis is needed *)
Lemma ellipse_coeffs_transpose_all : forall a b c,
  cxx c b a = cyy a b c /\ cyy c b a = cxx a b c /\ cxy c b a = cxy a b c.
Proof.
  intros a b c.
  destruct (ellipse_coeffs_trig c b a) as (-> & -> & ->).
  destruct (ellipse_coeffs_trig a b c) as (-> & -> & ->).
  destruct (semi_transpose a b c) as [-> ->].
  destruct (Req_dec a c) as [Eac | Nac]; [ destruct (Req_dec b 0) as [Eb | Nb] | ].
  - subst. rewrite orientation_rad_isotropic.
    assert (E : semimajor c 0 c = semiminor c 0 c).
    { unfold semimajor, semiminor, semimajor_of, semiminor_of, eig_pair; cbn [fst snd].
      f_equal. apply eig_equal_iff. auto. }
    rewrite E. repeat split; ring.
  - destruct (orientation_transpose_direction a b c (or_intror Nb)) as (s & Hs & -> & ->).
    destruct Hs; subst s; repeat split; unfold Rdiv; ring.
  - destruct (orientation_transpose_direction a b c (or_introl Nac)) as (s & Hs & -> & ->).
    destruct Hs; subst s; repeat split; unfold Rdiv; ring.
Qed.

Definition swap_xy (s : shape) : shape := {|
  s_eigvals := s_eigvals s; s_semimajor := s_semimajor s; s_semiminor := s_semiminor s;
  s_fwhm := s_fwhm s; s_eccentricity := s_eccentricity s; s_elongation := s_elongation s;
  s_ellipticity := s_ellipticity s;
  s_cxx := s_cyy s; s_cyy := s_cxx s; s_cxy := s_cxy s |}.

Lemma shape_row_transpose : forall s s' a b c,
  shape_row s c b a = option_map swap_xy (shape_row s' a b c).
Proof.
  intros. unfold shape_row. rewrite (code_eigvals_transpose s s').
  destruct (Rle_or_lt 0 (eig_minus a b c)) as [H|H].
  - apply eig_minus_nonneg_psd in H. rewrite code_eigvals_psd; auto. cbn [option_map].
    destruct (ellipse_coeffs_transpose_all a b c) as (E1 & E2 & E3).
    unfold cxx, cyy, cxy in E1, E2, E3. rewrite eig_pair_transpose in E1, E2, E3.
    unfold shape_of_eig, swap_xy; cbn. now rewrite E1, E2, E3.
  - rewrite code_eigvals_not_psd; auto. intro P. apply eig_minus_nonneg in P. lra.
Qed.

(* ================================================================== *)
(* 10. concrete instances (hypotheses are satisfiable, values are the expected ones)            *)
(* ================================================================== *)
Lemma sqrt_quarter : sqrt (1 / 4) = 1 / 2.
Proof. replace (1 / 4) with ((1 / 2) * (1 / 2)) by field. apply sqrt_square. lra. Qed.

(* [[1, 1/2], [1/2, 1]]: eigenvalues 3/2 and 1/2, major axis along the diagonal (45 degrees) *)
Lemma example_diagonal :
  PSD 1 (1 / 2) 1 /\ eig_plus 1 (1 / 2) 1 = 3 / 2 /\ eig_minus 1 (1 / 2) 1 = 1 / 2 /\
  orientation 1 (1 / 2) 1 = 45 /\ 0 < cov_det 1 (1 / 2) 1 /\
  eig_plus 1 (1 / 2) 1 <> eig_minus 1 (1 / 2) 1.
Proof.
  assert (G : half_gap 1 (1 / 2) 1 = 1 / 2).
  { unfold half_gap. replace (((1 - 1) / 2) ^ 2 + (1 / 2) ^ 2) with (1 / 4) by field.
    apply sqrt_quarter. }
  assert (O : orientation 1 (1 / 2) 1 = 45).
  { unfold orientation, orientation_rad. replace (1 - 1) with 0 by ring.
    rewrite atan2_zero_x_pos_y; [ | lra ]. unfold rad2deg. field. apply PI_neq0. }
  unfold PSD, cov_det, eig_plus, eig_minus. rewrite G. repeat split; try lra; auto.
Qed.

(* [[2, 0], [0, 1]]: axis-aligned, major axis along x; its transpose [[1,0],[0,2]] along y *)
Lemma example_axis_aligned :
  PSD 2 0 1 /\ eig_plus 2 0 1 = 2 /\ eig_minus 2 0 1 = 1 /\
  orientation 2 0 1 = 0 /\ orientation 1 0 2 = 90.
Proof.
  assert (G : half_gap 2 0 1 = 1 / 2).
  { unfold half_gap. replace (((2 - 1) / 2) ^ 2 + 0 ^ 2) with (1 / 4) by field.
    apply sqrt_quarter. }
  unfold PSD, cov_det, eig_plus, eig_minus, orientation. rewrite G.
  rewrite !orientation_rad_axis_aligned.
  destruct (Rlt_dec 2 1); [lra|]. destruct (Rlt_dec 1 2); [|lra].
  unfold rad2deg. repeat split; try lra; field; apply PI_neq0.
Qed.

(* a single pixel: zero matrix, regularised once to [[1/12, 0], [0, 1/12]] *)
Lemma example_single_pixel :
  PSD 0 0 0 /\ regularise 1 0 0 0 = Some (0 + delta, 0, 0 + delta) /\
  delta2 <= cov_det (0 + delta) 0 (0 + delta).
Proof.
  assert (P : PSD 0 0 0) by (unfold PSD, cov_det; repeat split; lra).
  split; auto. split.
  - rewrite regularise_psd; auto. destruct (Rlt_dec (cov_det 0 0 0) delta2) as [|N]; auto.
    exfalso. apply N. unfold cov_det. pose proof delta2_pos. lra.
  - now apply psd_one_step.
Qed.

(* an indefinite matrix (possible for ApertureStats with negative data): NaN eigenvalue pair *)
Lemma example_indefinite : ~ PSD (-1) 0 (-1) /\ delta2 <= cov_det (-1) 0 (-1) /\
  forall swap, shape_row swap (-1) 0 (-1) = None.
Proof.
  assert (N : ~ PSD (-1) 0 (-1)) by (unfold PSD; intros (H & _); lra).
  repeat split; auto.
  - unfold cov_det, delta2, delta. lra.
  - intro. now apply shape_row_nan_iff.
Qed.

(* ================================================================== *)
(* 11. the statements registered in C07R_Properties.v                  *)
(* ================================================================== *)
Lemma T_eigenvalues_are_roots : forall a b c,
  char_poly a b c (eig_plus a b c) = 0 /\ char_poly a b c (eig_minus a b c) = 0 /\
  eig_minus a b c <= eig_plus a b c /\
  eig_plus a b c + eig_minus a b c = a + c /\
  eig_plus a b c * eig_minus a b c = cov_det a b c /\
  (PSD a b c -> 0 <= eig_minus a b c).
Proof.
  intros. repeat split; auto using eig_plus_root, eig_minus_root, eig_order, eig_sum, eig_prod,
    eig_minus_nonneg.
Qed.

Lemma T_psd_iff : forall a b c, PSD a b c <-> 0 <= eig_minus a b c.
Proof. intros. split; [apply eig_minus_nonneg | apply eig_minus_nonneg_psd]. Qed.

Lemma T_code_eigvals : forall swap a b c,
  (PSD a b c -> covariance_eigvals swap a b c = Some (eig_plus a b c, eig_minus a b c)) /\
  (~ PSD a b c -> covariance_eigvals swap a b c = None).
Proof. intros. split; [apply code_eigvals_psd | apply code_eigvals_not_psd]. Qed.

Lemma T_semiaxes : forall a b c, PSD a b c ->
  semimajor a b c ^ 2 = eig_plus a b c /\ semiminor a b c ^ 2 = eig_minus a b c /\
  0 <= semiminor a b c <= semimajor a b c /\
  (semiminor a b c = 0 <-> cov_det a b c = 0) /\
  (semimajor a b c = 0 <-> (a = 0 /\ b = 0 /\ c = 0)).
Proof.
  intros a b c H. split; [now apply semimajor_sqr|]. split; [now apply semiminor_sqr|].
  split; [apply semi_order|]. split; [now apply semiminor_zero_iff | now apply semimajor_zero_iff].
Qed.

Lemma T_eccentricity : forall a b c, PSD a b c -> 0 < eig_plus a b c ->
  eccentricity a b c ^ 2 = 1 - eig_minus a b c / eig_plus a b c /\
  0 <= eccentricity a b c <= 1 /\
  (eccentricity a b c < 1 <-> 0 < cov_det a b c) /\
  (eccentricity a b c = 1 <-> cov_det a b c = 0) /\
  (eccentricity a b c = 0 <-> (a = c /\ b = 0)) /\
  eccentricity a b c = sqrt (1 - (semiminor a b c / semimajor a b c) ^ 2).
Proof.
  intros a b c H Hp. split; [now apply ecc_sqr|]. split; [now apply ecc_range|].
  split; [now apply ecc_lt_1_iff|]. split; [now apply ecc_one_iff|].
  split; [now apply ecc_zero_iff | now apply ecc_axes].
Qed.

Lemma T_elongation_ellipticity : forall a b c, 0 < semiminor a b c ->
  elongation a b c = semimajor a b c / semiminor a b c /\
  1 <= elongation a b c /\
  ellipticity a b c = 1 - 1 / elongation a b c /\
  0 <= ellipticity a b c < 1 /\
  (PSD a b c -> elongation a b c ^ 2 = eig_plus a b c / eig_minus a b c).
Proof.
  intros a b c Hs. pose proof (semi_order a b c) as O.
  assert (HA : 0 < semimajor a b c) by lra.
  split; [reflexivity|]. split; [now apply elongation_ge_1|].
  split; [now apply ellipticity_elongation|].
  split; [ split; [ apply ellipticity_range | apply ellipticity_lt_1 ]; auto | ].
  intro H. now apply elongation_sqr.
Qed.

Lemma T_fwhm : forall a b c,
  fwhm a b c =
    2 * sqrt (2 * ln 2) * sqrt ((1 / 2) * (semimajor a b c ^ 2 + semiminor a b c ^ 2)) /\
  (PSD a b c -> fwhm a b c = 2 * sqrt (ln 2 * (a + c)) /\ fwhm a b c ^ 2 = 4 * ln 2 * (a + c)).
Proof.
  intros. split; [apply fwhm_docstring|]. intro H. split; [now apply fwhm_trace | now apply fwhm_sqr].
Qed.

Lemma T_orientation : forall a b c,
  let t := orientation_rad a b c in
  - (PI / 2) < t <= PI / 2 /\
  - 90 < orientation a b c <= 90 /\
  deg2rad (orientation a b c) = t /\
  eigvec a b c (eig_plus a b c) (cos t) (sin t) /\
  eigvec a b c (eig_minus a b c) (- sin t) (cos t) /\
  cos t * cos t + sin t * sin t = 1.
Proof.
  intros a b c t. split; [apply orientation_rad_range|]. split; [apply orientation_deg_range|].
  split; [apply deg2rad_rad2deg|]. destruct (orientation_eigvec a b c) as [E1 E2].
  split; auto. split; auto. pose proof (sqr_sin_cos t). lra.
Qed.

Lemma T_transpose_invariants : forall a b c,
  eig_plus c b a = eig_plus a b c /\ eig_minus c b a = eig_minus a b c /\
  semimajor c b a = semimajor a b c /\ semiminor c b a = semiminor a b c /\
  eccentricity c b a = eccentricity a b c /\ elongation c b a = elongation a b c /\
  ellipticity c b a = ellipticity a b c /\ fwhm c b a = fwhm a b c /\
  (PSD c b a <-> PSD a b c).
Proof.
  intros a b c. pose proof (eig_pair_transpose a b c) as E.
  assert (E' := E). unfold eig_pair in E'. inversion E' as [[E1 E2]].
  unfold semimajor, semiminor, eccentricity, elongation, ellipticity, fwhm. rewrite E.
  do 8 (split; [auto|]). symmetry. apply psd_transpose.
Qed.

Lemma T_transpose_orientation : forall a b c,
  ((a <> c \/ b <> 0) ->
     orientation c b a = 90 - orientation a b c - (if Rlt_dec b 0 then 180 else 0) /\
     orientation_rad c b a = PI / 2 - orientation_rad a b c - (if Rlt_dec b 0 then PI else 0) /\
     exists s, (s = 1 \/ s = -1) /\
       cos (orientation_rad c b a) = s * sin (orientation_rad a b c) /\
       sin (orientation_rad c b a) = s * cos (orientation_rad a b c)) /\
  ((a = c /\ b = 0) -> orientation c b a = 0 /\ orientation a b c = 0).
Proof.
  intros a b c. split.
  - intro H. split; [now apply orientation_transpose|]. split; [now apply orientation_rad_transpose|].
    now apply orientation_transpose_direction.
  - intros [-> ->]. unfold orientation. rewrite orientation_rad_isotropic. unfold rad2deg.
    split; field; apply PI_neq0.
Qed.

Lemma T_regularisation_compat : forall a b c d,
  eig_plus (a + d) b (c + d) = eig_plus a b c + d /\
  eig_minus (a + d) b (c + d) = eig_minus a b c + d /\
  orientation (a + d) b (c + d) = orientation a b c /\
  cov_det (a + d) b (c + d) = cov_det a b c + d * (a + c) + d * d.
Proof.
  intros. repeat split; auto using eig_plus_shift, eig_minus_shift, orientation_shift, cov_det_shift.
Qed.

Lemma T_regularise_psd : forall fuel a b c, PSD a b c ->
  regularise (S fuel) a b c =
    Some (if Rlt_dec (cov_det a b c) delta2 then (a + delta, b, c + delta) else (a, b, c)) /\
  regularise_stats (S fuel) a b c = regularise (S fuel) a b c /\
  forall a' b' c', regularise (S fuel) a b c = Some (a', b', c') ->
    PSD a' b' c' /\ delta2 <= cov_det a' b' c' /\
    0 < eig_minus a' b' c' /\ 0 < semiminor a' b' c' /\ 0 < semimajor a' b' c' /\
    eccentricity_defined a' b' c' /\ elongation_defined a' b' c' /\
    ellipticity_defined a' b' c' /\ ellipse_coeffs_defined a' b' c'.
Proof.
  intros fuel a b c H. split; [now apply regularise_psd|].
  split; [now apply regularise_stats_psd|].
  intros a' b' c' E. rewrite regularise_psd in E; auto.
  assert (P' : PSD a' b' c' /\ delta2 <= cov_det a' b' c').
  { destruct (Rlt_dec (cov_det a b c) delta2) as [L|L]; inversion E; subst.
    - split; [ apply psd_shift; auto; pose proof delta_pos; lra | now apply psd_one_step ].
    - split; auto. lra. }
  destruct P' as [P' D']. split; auto. split; auto.
  apply regularised_defined; auto. now destruct P'.
Qed.

Lemma T_shape_row : forall swap a b c,
  (PSD a b c ->
     shape_row swap a b c = Some (shape_of_eig (eig_plus a b c, eig_minus a b c) (orientation a b c))) /\
  (shape_row swap a b c = None <-> ~ PSD a b c).
Proof. intros. split; [ apply shape_row_psd | apply shape_row_nan_iff ]. Qed.

Lemma T_rescaling : forall k a b c, 0 < k ->
  eig_plus (k * a) (k * b) (k * c) = k * eig_plus a b c /\
  eig_minus (k * a) (k * b) (k * c) = k * eig_minus a b c /\
  orientation (k * a) (k * b) (k * c) = orientation a b c.
Proof.
  intros k a b c Hk. split; [ | split ].
  - apply eig_plus_scale. lra.
  - apply eig_minus_scale. lra.
  - now apply orientation_scale.
Qed.

(* ================================================================== *)
(* 12. end to end: central-moment matrix -> 1/12 loop -> row of shape parameters               *)
(* ================================================================== *)
Lemma T_end_to_end : forall fuel swap a b c, PSD a b c ->
  exists a' c' s,
    regularise (S fuel) a b c = Some (a', b, c') /\
    (a' = a /\ c' = c \/ a' = a + delta /\ c' = c + delta) /\
    shape_row swap a' b c' = Some s /\
    let lp := eig_plus a' b c' in let lm := eig_minus a' b c' in let d := cov_det a' b c' in
    delta2 <= d /\ 0 < lm <= lp /\
    s_eigvals s = (lp, lm) /\
    s_semimajor s ^ 2 = lp /\ s_semiminor s ^ 2 = lm /\ 0 < s_semiminor s <= s_semimajor s /\
    s_fwhm s ^ 2 = 4 * ln 2 * (a' + c') /\
    s_eccentricity s ^ 2 = 1 - lm / lp /\ 0 <= s_eccentricity s < 1 /\
    s_elongation s = s_semimajor s / s_semiminor s /\ 1 <= s_elongation s /\
    s_ellipticity s = 1 - 1 / s_elongation s /\ 0 <= s_ellipticity s < 1 /\
    s_cxx s = c' / d /\ s_cyy s = a' / d /\ s_cxy s = - 2 * b / d.
Proof.
  intros fuel swap a b c H.
  destruct (T_regularise_psd fuel a b c H) as (E & _ & K).
  set (r := if Rlt_dec (cov_det a b c) delta2 then (a + delta, b, c + delta) else (a, b, c)) in E.
  assert (R : exists a' c', r = (a', b, c') /\ (a' = a /\ c' = c \/ a' = a + delta /\ c' = c + delta)).
  { unfold r. destruct (Rlt_dec (cov_det a b c) delta2).
    - exists (a + delta), (c + delta). auto.
    - exists a, c. auto. }
  destruct R as (a' & c' & Er & Hcase). rewrite Er in E.
  destruct (K a' b c' E) as (P' & D' & Hm & HB & HA & _).
  exists a', c', (shape_of_eig (eig_pair a' b c') (orientation a' b c')).
  split; auto. split; auto. split; [ now apply shape_row_psd | ].
  pose proof delta2_pos as D2.
  assert (Hd : 0 < cov_det a' b c') by lra.
  assert (Ha : 0 <= a') by now destruct P'.
  assert (Hp : 0 < eig_plus a' b c') by (pose proof (eig_order a' b c'); lra).
  destruct (T_eccentricity a' b c' P' Hp) as (Q1 & Q2 & Q3 & _).
  destruct (T_elongation_ellipticity a' b c' HB) as (L1 & L2 & L3 & L4 & _).
  destruct (ellipse_coeffs_inverse a' b c' Ha Hd) as (C1 & C2 & C3).
  cbn [shape_of_eig s_eigvals s_semimajor s_semiminor s_fwhm s_eccentricity s_elongation
       s_ellipticity s_cxx s_cyy s_cxy].
  fold (semimajor a' b c') (semiminor a' b c') (fwhm a' b c') (eccentricity a' b c')
       (elongation a' b c') (ellipticity a' b c') (cxx a' b c') (cyy a' b c') (cxy a' b c').
  split; auto. split; [ split; [ auto | apply eig_order ] | ].
  split; [ reflexivity | ].
  split; [ now apply semimajor_sqr | ]. split; [ now apply semiminor_sqr | ].
  split; [ split; [ auto | apply semi_order ] | ].
  split; [ now apply fwhm_sqr | ].
  split; auto. split; [ split; [ apply Q2 | now apply Q3 ] | ].
  split; [ exact L1 | ]. split; [ exact L2 | ]. split; [ exact L3 | ]. split; [ exact L4 | ]. auto.
Qed.
