(* C07 — model of photutils.segmentation.catalog.SourceCatalog (per-source measurements).

   Images are functions (row y, column x) -> value on the ny x nx grid (the correspondence
   instantiates them with list lookups).  Pixel values are scaled integers; [None] is a
   non-finite pixel (NaN / +-inf).  The model mirrors the code (catalog.py, repaired tree):

     slices                 tight bounding box of the label (SegmentationImage.slices)
     _*_cutouts             every array is read on the box only: all per-source quantities
                            are computed from the row-major pixel list [cut] of the box
     _cutout_segment_masks  segm != label
     _cutout_data_masks     ~isfinite(data) | mask          (mask only if one was given)
     _cutout_total_masks    segment mask | data mask
     _get_values            compressed (row-major) unmasked values, [nan] if there are none
     segment_flux           sum(values) - npix * localbkg, localbkg_width = 0 (localbkg = 0,
                            NaN for a completely masked source)
     segment_fluxerr        sqrt(sum(err**2)) on the compressed error values (NaN without error)
     area                   number of unmasked pixels, NaN if none;  segment_area = count(label)
     min/max_value, cutout_min/maxval_index (first extremum in row-major order), *_index
     _moment_data_cutouts   convolved data (data if none given) with non-finite, negative,
                            other-label and masked pixels set to 0
     moments                raw moments to order 3 in cutout coordinates
     cutout_centroid        (M01/M00, M10/M00);   centroid = cutout_centroid + box origin
     _covariance            central second moments / M00, then the 1/12 regularisation loop
     background_sum/mean    on the compressed background values
     use_detcat             delegated properties (bbox, segment_area, area, moments, centroids,
                            covariance) are read from the detection catalog's row
     row order              one row per entry of the catalog's label list, in that order.

   Library numerics that are NOT modelled: local background for localbkg_width > 0 (sigma
   clipping), eigenvalues/orientation/eccentricity (applied by the harness to the model's
   covariance), Kron / fluxfrac / windowed quantities (outside the statement). *)
From Coq Require Import List Arith ZArith Bool Lia.
From PV Require Import lib.Cases.
Import ListNotations.

Definition fimg (A : Type) := nat -> nat -> A.

Record inputs := {
  i_seg  : fimg Z;                      (* segmentation image, 0 = background *)
  i_data : fimg (option Z);
  i_conv : option (fimg (option Z));    (* convolved_data, None -> data is used *)
  i_err  : option (fimg (option Z));
  i_bkg  : option (fimg (option Z));
  i_mask : option (fimg bool) }.

Definition pix := (nat * nat)%type.   (* (y, x) *)

(* row-major pixel list of the box [y0, y0+h) x [x0, x0+w) *)
Definition coords_box (y0 h x0 w : nat) : list pix :=
  flat_map (fun y => map (fun x => (y, x)) (seq x0 w)) (seq y0 h).

Definition zsum (l : list Z) : Z := fold_right Z.add 0%Z l.
Definition minl (d : nat) (l : list nat) := fold_right Nat.min d l.
Definition maxl (l : list nat) := fold_right Nat.max 0 l.
Definition nonfinite (o : option Z) : bool := match o with None => true | Some _ => false end.
Definition valz (o : option Z) : Z := match o with Some v => v | None => 0%Z end.
Definition isnil {A} (l : list A) : bool := match l with [] => true | _ => false end.

(* sum of a list of possibly non-finite numbers: non-finite if any term is *)
Fixpoint osum (l : list (option Z)) : option Z :=
  match l with
  | [] => Some 0%Z
  | None :: _ => None
  | Some v :: r => match osum r with Some s => Some (v + s)%Z | None => None end
  end.

(* first extremum in list order: [better v best] decides replacement (strict) *)
Fixpoint arg_first (better : Z -> Z -> bool) (best : pix * Z) (l : list (pix * Z)) : pix * Z :=
  match l with
  | [] => best
  | (p, v) :: r => if better v (snd best) then arg_first better (p, v) r else arg_first better best r
  end.
Definition arg_ext (better : Z -> Z -> bool) (l : list (pix * Z)) : option (pix * Z) :=
  match l with [] => None | a :: r => Some (arg_first better a r) end.

(* the 1/12 regularisation loop of _covariance on numerators over the denominator 12*M00^2:
   [d2] = M00^2 is 1/12 in these units, det < (1/12)^2  <->  a*c - b*b < d2*d2 *)
Fixpoint regularise (fuel : nat) (d2 a b c : Z) : option (Z * Z * Z) :=
  if (a * c - b * b <? d2 * d2)%Z then
    match fuel with
    | O => None
    | S f => regularise f d2 (a + d2)%Z b (c + d2)%Z
    end
  else Some (a, b, c).

Section Row.
Variables (ny nx : nat) (I : inputs) (l : Z).

Definition grid : list pix := coords_box 0 ny 0 nx.
Definition haslab (p : pix) : bool := (i_seg I (fst p) (snd p) =? l)%Z.
Definition lab_pixels : list pix := filter haslab grid.

(* SegmentationImage.slices: tight box (y0, y1, x0, x1), half open *)
Definition bbox : nat * nat * nat * nat :=
  let ys := map fst lab_pixels in
  let xs := map snd lab_pixels in
  (minl ny ys, maxl (map S ys), minl nx xs, maxl (map S xs)).

Definition by0 := let '(y0, _, _, _) := bbox in y0.
Definition by1 := let '(_, y1, _, _) := bbox in y1.
Definition bx0 := let '(_, _, x0, _) := bbox in x0.
Definition bx1 := let '(_, _, _, x1) := bbox in x1.

(* the cutout: every array is read on these pixels only, in this (row-major) order *)
Definition cut : list pix := coords_box by0 (by1 - by0) bx0 (bx1 - bx0).

Definition dataat (p : pix) : option Z := i_data I (fst p) (snd p).
Definition convat (p : pix) : option Z :=
  match i_conv I with None => dataat p | Some c => c (fst p) (snd p) end.
Definition maskat (p : pix) : bool :=
  match i_mask I with None => false | Some m => m (fst p) (snd p) end.
Definition errat (p : pix) : option Z :=
  match i_err I with None => None | Some e => e (fst p) (snd p) end.
Definition bkgat (p : pix) : option Z :=
  match i_bkg I with None => None | Some b => b (fst p) (snd p) end.
Definition has_err : bool := match i_err I with None => false | Some _ => true end.
Definition has_bkg : bool := match i_bkg I with None => false | Some _ => true end.

Definition segmask (p : pix) : bool := negb (haslab p).
Definition datamask (p : pix) : bool := nonfinite (dataat p) || maskat p.
Definition totalmask (p : pix) : bool := segmask p || datamask p.

(* compressed order of the unmasked cutout pixels *)
Definition unmasked : list pix := filter (fun p => negb (totalmask p)) cut.
Definition data_values : list Z := map (fun p => valz (dataat p)) unmasked.
Definition all_masked : bool := isnil unmasked.

Definition segment_area : Z := Z.of_nat (length (filter haslab cut)).
Definition area : option Z := if all_masked then None else Some (Z.of_nat (length unmasked)).
(* localbkg_width = 0: sum - npix * 0, NaN when every pixel is masked *)
Definition segment_flux : option Z :=
  if all_masked then None else Some (zsum data_values - Z.of_nat (length unmasked) * 0)%Z.
Definition sq (o : option Z) : option Z := match o with Some v => Some (v * v)%Z | None => None end.
Definition segment_fluxerr2 : option Z :=
  if has_err then (if all_masked then None else osum (map (fun p => sq (errat p)) unmasked)) else None.
Definition background_sum : option Z :=
  if has_bkg then (if all_masked then None else osum (map bkgat unmasked)) else None.
(* background_mean = background_sum / npix *)
Definition background_mean : option (Z * Z) :=
  match background_sum with Some s => Some (s, Z.of_nat (length unmasked)) | None => None end.

Definition tagged : list (pix * Z) := map (fun p => (p, valz (dataat p))) unmasked.
Definition argmin := arg_ext Z.ltb tagged.
Definition argmax := arg_ext Z.gtb tagged.
Definition min_value : option Z := option_map snd argmin.
Definition max_value : option Z := option_map snd argmax.
Definition rel (p : pix) : Z * Z := (Z.of_nat (fst p) - Z.of_nat by0, Z.of_nat (snd p) - Z.of_nat bx0)%Z.
Definition cutout_minval_index : option (Z * Z) := option_map (fun a => rel (fst a)) argmin.
Definition cutout_maxval_index : option (Z * Z) := option_map (fun a => rel (fst a)) argmax.
Definition add_origin (i : Z * Z) : Z * Z := (fst i + Z.of_nat by0, snd i + Z.of_nat bx0)%Z.
Definition minval_index := option_map add_origin cutout_minval_index.
Definition maxval_index := option_map add_origin cutout_maxval_index.

(* _moment_data_cutouts *)
Definition mval (p : pix) : Z :=
  match convat p with
  | None => 0
  | Some v => if (v <? 0)%Z || segmask p || maskat p then 0 else v
  end%Z.
Definition zpow (b : Z) (e : nat) : Z := Z.pow b (Z.of_nat e).
(* moments[a, b] = sum (y - y0)^a * v * (x - x0)^b *)
Definition moment (a b : nat) : Z :=
  zsum (map (fun p => zpow (fst (rel p)) a * mval p * zpow (snd (rel p)) b)%Z cut).
Definition moments : list (list Z) :=
  map (fun a => map (fun b => moment a b) [0; 1; 2; 3]) [0; 1; 2; 3].

Definition m00 := moment 0 0.
(* ((xnum, den), (ynum, den)); NaN (None) when M00 = 0 *)
Definition cutout_centroid : option ((Z * Z) * (Z * Z)) :=
  if (m00 =? 0)%Z then None else Some ((moment 0 1, m00), (moment 1 0, m00)).
Definition centroid : option ((Z * Z) * (Z * Z)) :=
  match cutout_centroid with
  | None => None
  | Some ((xn, d), (yn, _)) => Some ((xn + Z.of_nat bx0 * d, d), (yn + Z.of_nat by0 * d, d))%Z
  end.

(* central second moments over M00: numerators over M00^2
   covar[0,0] = mu02/mu00 (x variance), covar[0,1] = mu11/mu00, covar[1,1] = mu20/mu00 *)
Definition cov_num : Z * Z * Z :=
  (moment 0 2 * m00 - moment 0 1 * moment 0 1,
   moment 1 1 * m00 - moment 1 0 * moment 0 1,
   moment 2 0 * m00 - moment 1 0 * moment 1 0)%Z.
Definition reg_fuel := 4.
(* (sigx2, sigxy, sigy2) numerators over [cov_den] after regularisation *)
Definition covariance : option (Z * Z * Z) :=
  if (m00 =? 0)%Z then None
  else let '(a, b, c) := cov_num in regularise reg_fuel (m00 * m00) (12 * a) (12 * b) (12 * c)%Z.
Definition cov_den : Z := (12 * m00 * m00)%Z.
(* |det - (1/12)^2| relative to (1/12)^2 exceeds 2^-30: the float decision is not a tie *)
Definition cov_margin_ok : bool :=
  let '(a, b, c) := cov_num in
  let d2 := (m00 * m00)%Z in
  (d2 * d2 <? Z.abs (144 * (a * c - b * b) - d2 * d2) * 2 ^ 30)%Z.
End Row.

(* ---------------- one catalog row ---------------- *)
Record row := {
  r_label : Z;
  r_bbox : Z * Z * Z * Z;                (* bbox_xmin, bbox_xmax, bbox_ymin, bbox_ymax *)
  r_segment_area : Z;
  r_area : option Z;
  r_moments : list (list Z);
  r_cutout_centroid : option ((Z * Z) * (Z * Z));
  r_centroid : option ((Z * Z) * (Z * Z));
  r_covariance : option (Z * Z * Z);
  r_cov_den : Z;
  r_cov_margin_ok : bool;
  r_flux : option Z;
  r_fluxerr2 : option Z;
  r_min : option Z;
  r_max : option Z;
  r_cminidx : option (Z * Z);
  r_cmaxidx : option (Z * Z);
  r_minidx : option (Z * Z);
  r_maxidx : option (Z * Z);
  r_bkg_sum : option Z;
  r_bkg_mean : option (Z * Z) }.

(* [own] = the catalog's own arrays, [det] = the arrays of the catalog the delegated
   (use_detcat) properties are read from (= own when detection_cat is None) *)
Definition mkrow (ny nx : nat) (own det : inputs) (l : Z) : row := {|
  r_label := l;
  r_bbox := (Z.of_nat (bx0 ny nx det l), Z.of_nat (bx1 ny nx det l) - 1,
             Z.of_nat (by0 ny nx det l), Z.of_nat (by1 ny nx det l) - 1)%Z;
  r_segment_area := segment_area ny nx det l;
  r_area := area ny nx det l;
  r_moments := moments ny nx det l;
  r_cutout_centroid := cutout_centroid ny nx det l;
  r_centroid := centroid ny nx det l;
  r_covariance := covariance ny nx det l;
  r_cov_den := cov_den ny nx det l;
  r_cov_margin_ok := cov_margin_ok ny nx det l;
  r_flux := segment_flux ny nx own l;
  r_fluxerr2 := segment_fluxerr2 ny nx own l;
  r_min := min_value ny nx own l;
  r_max := max_value ny nx own l;
  r_cminidx := cutout_minval_index ny nx own l;
  r_cmaxidx := cutout_maxval_index ny nx own l;
  r_minidx := minval_index ny nx own l;
  r_maxidx := maxval_index ny nx own l;
  r_bkg_sum := background_sum ny nx own l;
  r_bkg_mean := background_mean ny nx own l |}.

(* a catalog: its arrays, the optional detection catalog's arrays (same segmentation
   image), and its label list (row order) *)
Definition catalog_rows (ny nx : nat) (own : inputs) (detcat : option inputs) (labels : list Z)
  : list row :=
  let det := match detcat with None => own | Some d => d end in
  map (mkrow ny nx own det) labels.

(* SegmentationImage.labels (np.unique of the non-zero pixels): the distinct non-zero label
   values in increasing order; a full catalog has one row per entry, in this order *)
Fixpoint insert_u (x : Z) (l : list Z) : list Z :=
  match l with
  | [] => [x]
  | y :: r => if (x <? y)%Z then x :: l else if (x =? y)%Z then l else y :: insert_u x r
  end.
Definition seg_labels (ny nx : nat) (seg : fimg Z) : list Z :=
  fold_right insert_u []
    (filter (fun v => negb (v =? 0)%Z) (map (fun p => seg (fst p) (snd p)) (coords_box 0 ny 0 nx))).
Definition full_catalog_rows (ny nx : nat) (own : inputs) (detcat : option inputs) : list row :=
  catalog_rows ny nx own detcat (seg_labels ny nx (i_seg own)).

(* ---------------- correspondence ---------------- *)
Definition get2 {A} (d : A) (img : list (list A)) : fimg A := fun y x => nth x (nth y img []) d.

Definition limg := list (list (option Z)).
(* a dyadic float m * 2^e *)
Definition dy := (Z * Z)%type.

Record crow := {
  c_bbox : Z * Z * Z * Z;
  c_segment_area : Z;
  c_area : option Z;
  c_moments : list (list Z);
  c_cutout_centroid : option (dy * dy);
  c_centroid : option (dy * dy);
  c_covariance : option (dy * dy * dy);     (* sigx2, sigxy, sigy2 *)
  c_flux : option Z;
  c_fluxerr : option dy;
  c_min : option Z;
  c_max : option Z;
  c_cminidx : option (Z * Z);
  c_cmaxidx : option (Z * Z);
  c_minidx : option (Z * Z);
  c_maxidx : option (Z * Z);
  c_bkg_sum : option Z;
  c_bkg_mean : option dy }.

(* arrays of one catalog: data, convolved, error, background, mask *)
Definition carrays := (limg * option limg * option limg * option limg * option (list (list bool)))%type.
Definition mk_inputs (seg : list (list Z)) (a : carrays) : inputs :=
  let '(data, conv, err, bkg, mask) := a in
  {| i_seg := get2 0%Z seg; i_data := get2 None data;
     i_conv := option_map (get2 None) conv; i_err := option_map (get2 None) err;
     i_bkg := option_map (get2 None) bkg; i_mask := option_map (get2 true) mask |}.

(* scale = the power of two S every value was multiplied by; full = the rows are those of the
   complete catalog (then the label list must be [seg_labels]) *)
Definition case := (Z * Z * Z * list (list Z) * carrays * option carrays * bool * list Z * list crow)%type.

Local Open Scope Z_scope.
Definition pow2 (e : Z) : Z := if e <? 0 then 1 else 2 ^ e.
(* |m*2^e - n/d| * 2^53 <= k * |n/d|,  d > 0 *)
Definition close_rel (k : Z) (f : dy) (n d : Z) : bool :=
  let '(m, e) := f in
  let s1 := pow2 e in let s2 := pow2 (- e) in
  Z.abs (m * s1 * d - n * s2) * 2 ^ 53 <=? k * Z.abs n * s2.
(* |m*2^e - n/d| <= tn/td,  d, td > 0 *)
Definition close_abs (f : dy) (n d tn td : Z) : bool :=
  let '(m, e) := f in
  let s1 := pow2 e in let s2 := pow2 (- e) in
  Z.abs (m * s1 * d - n * s2) * td <=? tn * d * s2.
(* f^2 within 2^-51 (relative) of n/d : f is the correctly rounded square root *)
Definition close_sqrt (f : dy) (n d : Z) : bool :=
  let '(m, e) := f in
  let s1 := pow2 (2 * e) in let s2 := pow2 (- (2 * e)) in
  (0 <=? m) && (Z.abs (m * m * s1 * d - n * s2) * 2 ^ 51 <=? Z.abs n * s2).

Definition zz_eqb (a b : Z * Z) : bool := (fst a =? fst b) && (snd a =? snd b).
Definition oz_eqb := opt_eqb Z.eqb.
Definition ozz_eqb := opt_eqb zz_eqb.

Definition check_row (scale ny nx : Z) (r : row) (c : crow) : bool :=
  let '(b1, b2, b3, b4) := r_bbox r in let '(c1, c2, c3, c4) := c_bbox c in
  (b1 =? c1) && (b2 =? c2) && (b3 =? c3) && (b4 =? c4)
  && (r_segment_area r =? c_segment_area c)
  && oz_eqb (r_area r) (c_area c)
  && zimg_eqb (r_moments r) (c_moments c)
  && match r_cutout_centroid r, c_cutout_centroid c with
     | None, None => true
     | Some ((xn, d), (yn, _)), Some (fx, fy) => close_rel 1 fx xn d && close_rel 1 fy yn d
     | _, _ => false
     end
  && match r_centroid r, c_centroid c with
     | None, None => true
     | Some ((xn, d), (yn, _)), Some (fx, fy) =>
         close_abs fx xn d (ny + nx + 1) (2 ^ 50) && close_abs fy yn d (ny + nx + 1) (2 ^ 50)
     | _, _ => false
     end
  && (if r_cov_margin_ok r then
        match r_covariance r, c_covariance c with
        | None, None => true
        | Some (a, b, cc), Some (fa, fb, fc) =>
            let d := r_cov_den r in
            let tn := ny * ny + nx * nx + 1 in
            close_abs fa a d tn (2 ^ 40) && close_abs fb b d tn (2 ^ 40) && close_abs fc cc d tn (2 ^ 40)
        | _, _ => false
        end
      else true)
  && oz_eqb (r_flux r) (c_flux c)
  && match r_fluxerr2 r, c_fluxerr c with
     | None, None => true
     | Some s, Some f => close_sqrt f s (scale * scale)
     | _, _ => false
     end
  && oz_eqb (r_min r) (c_min c) && oz_eqb (r_max r) (c_max c)
  && ozz_eqb (r_cminidx r) (c_cminidx c) && ozz_eqb (r_cmaxidx r) (c_cmaxidx c)
  && ozz_eqb (r_minidx r) (c_minidx c) && ozz_eqb (r_maxidx r) (c_maxidx c)
  && oz_eqb (r_bkg_sum r) (c_bkg_sum c)
  && match r_bkg_mean r, c_bkg_mean c with
     | None, None => true
     | Some (s, n), Some f => close_rel 1 f s (n * scale)
     | _, _ => false
     end.

Fixpoint check_rows (scale ny nx : Z) (rs : list row) (cs : list crow) : bool :=
  match rs, cs with
  | [], [] => true
  | r :: rs', c :: cs' => check_row scale ny nx r c && check_rows scale ny nx rs' cs'
  | _, _ => false
  end.

Definition case_rows (c : case) : list row :=
  let '(scale, ny, nx, seg, own, det, _, labels, _) := c in
  catalog_rows (Z.to_nat ny) (Z.to_nat nx) (mk_inputs seg own) (option_map (mk_inputs seg) det) labels.

Definition check_case (c : case) : bool :=
  let '(scale, ny, nx, seg, _, _, full, labels, impl) := c in
  (if full then zlist_eqb labels (seg_labels (Z.to_nat ny) (Z.to_nat nx) (get2 0%Z seg)) else true)
  && check_rows scale ny nx (case_rows c) impl.

Definition model_out (c : case) := case_rows c.
