(* C17 -- model of photutils.centroids.core: centroid_com, centroid_quadratic and
   centroid_sources (photutils/centroids/core.py, REPAIRED by fixes/C17-1-*.patch; the
   unrepaired loop is kept as [carry := true] for the refutation witness).

   Values.  Pixel values are (scaled) integers, [None] = non-finite pixel (NaN, +-inf).
   Positions / peaks are rationals [Q].  A binary64 result is a pair [(m, e)] meaning
   m * 2^e ([dy]); [rn53] is round-to-nearest-even to a 53-bit significand (no
   under/overflow: results here are O(image size)); it is used only by the
   correspondence, never by the theorems (they speak about the exact quotients).

   What is NOT modelled (inputs of the model instead):
     - numpy.linalg.lstsq: the coefficient vector is an input ([fit] / the recorded
       answer in the correspondence case);
     - the centroid function called by centroid_sources is a parameter ([cfun]);
       centroid_1dg / centroid_2dg (astropy fitters) are never modelled. *)
From Coq Require Import List ZArith QArith Qround Qabs Bool Lia.
From PV Require Import lib.Cases.
Import ListNotations.
Open Scope Z_scope.

Definition img (A : Type) := list (list A).

(* ------------------------------------------------------------------ *)
(* generic helpers                                                     *)
(* ------------------------------------------------------------------ *)
Fixpoint map2 {A B C} (f : A -> B -> C) (a : list A) (b : list B) : list C :=
  match a, b with
  | x :: a', y :: b' => f x y :: map2 f a' b'
  | _, _ => []
  end.
Definition zlen {A} (l : list A) : Z := Z.of_nat (length l).
Definition zsum (l : list Z) : Z := fold_right Z.add 0 l.
(* sum_i (i0 + i) * l_i : numpy's  np.sum(indices[axis] * data)  along one axis *)
Fixpoint wsum (i : Z) (l : list Z) : Z :=
  match l with [] => 0 | v :: r => i * v + wsum (i + 1) r end.
Definition same_shape {A B} (a : img A) (b : img B) : bool :=
  (length a =? length b)%nat
  && forallb (fun x => x) (map2 (fun r s => (length r =? length s)%nat) a b).
(* numpy basic slice [lo:hi] with 0 <= lo (clamps at the end of the list) *)
Definition slice {A} (lo hi : Z) (l : list A) : list A :=
  firstn (Z.to_nat (hi - lo)) (skipn (Z.to_nat lo) l).
Definition crop {A} (y0 y1 x0 x1 : Z) (im : img A) : img A :=
  map (slice x0 x1) (slice y0 y1 im).
Definition shape {A} (im : img A) : Z * Z := (zlen im, zlen (hd [] im)).

(* ------------------------------------------------------------------ *)
(* centroid_com  (core.py:73-96)                                       *)
(* ------------------------------------------------------------------ *)
(* data[mask] = 0 ; data[~isfinite] = 0 *)
Definition fill1 (d : option Z) (m : bool) : Z :=
  if m then 0 else match d with Some v => v | None => 0 end.
Definition filled (data : img (option Z)) (mask : option (img bool)) : img Z :=
  match mask with
  | None => map (map (fun d => fill1 d false)) data
  | Some m => map2 (map2 fill1) data m
  end.

Inductive com_res := ComRaise | ComNaN | ComAt (xn yn tot : Z).   (* (xn/tot, yn/tot) *)

Definition com (data : img (option Z)) (mask : option (img bool)) : com_res :=
  if match mask with Some m => negb (same_shape data m) | None => false end then ComRaise
  else
    let f := filled data mask in
    let tot := zsum (map zsum f) in
    if tot =? 0 then ComNaN
    else ComAt (zsum (map (wsum 0) f)) (wsum 0 (map zsum f)) tot.

(* ------------------------------------------------------------------ *)
(* binary64 layer used by the correspondence only                      *)
(* ------------------------------------------------------------------ *)
Definition dy := (Z * Z)%type.                     (* m * 2^e *)
Definition p52 := 4503599627370496.                 (* 2^52 *)
Definition p53 := 9007199254740992.                 (* 2^53 *)

(* nearest-even rounding of n/d (d > 0) to a 53 bit significand *)
Definition rn53 (n d : Z) : dy :=
  if n =? 0 then (0, 0) else
  let a := Z.abs n in
  let e0 := Z.log2 a - Z.log2 d - 53 in
  let scaled (e : Z) := if e <? 0 then (a * 2 ^ (- e), d) else (a, d * 2 ^ e) in
  let e := (let '(nu, de) := scaled e0 in if p53 <=? nu / de then e0 + 1 else e0) in
  let '(nu, de) := scaled e in
  let m := nu / de in
  let r := nu mod de in
  let m' := match 2 * r ?= de with
            | Gt => m + 1
            | Eq => if Z.odd m then m + 1 else m
            | Lt => m
            end in
  (Z.sgn n * m', e).

Definition dy_eqb (a b : dy) : bool :=
  let '(m1, e1) := a in let '(m2, e2) := b in
  let e := Z.min e1 e2 in
  m1 * 2 ^ (e1 - e) =? m2 * 2 ^ (e2 - e).
(* float + integer *)
Definition dy_addz (a : dy) (z : Z) : dy :=
  let '(m, e) := a in
  if 0 <=? e then rn53 (m * 2 ^ e + z) 1 else rn53 (m + z * 2 ^ (- e)) (2 ^ (- e)).
Definition dy_Q (a : dy) : Q :=
  let '(m, e) := a in
  if 0 <=? e then inject_Z (m * 2 ^ e) else (m # Z.to_pos (2 ^ (- e))).
(* correctly rounded quotient of two exactly represented integers *)
Definition rnq (n d : Z) : dy := if d <? 0 then rn53 (- n) (- d) else rn53 n d.

Definition fres := option (dy * dy).                 (* None = (nan, nan) *)
Definition fres_eqb (a b : fres) : bool :=
  match a, b with
  | None, None => true
  | Some (x, y), Some (x', y') => dy_eqb x x' && dy_eqb y y'
  | _, _ => false
  end.

(* what the float implementation of centroid_com returns; outer None = ValueError *)
Definition com_float (data : img (option Z)) (mask : option (img bool)) : option fres :=
  match com data mask with
  | ComRaise => None
  | ComNaN => Some None
  | ComAt xn yn t => Some (Some (rnq xn t, rnq yn t))
  end.

(* ------------------------------------------------------------------ *)
(* overlap_slices (astropy.nddata.utils, limit_rounding_method = ceil)  *)
(* ------------------------------------------------------------------ *)
(* one axis: ((large.start, large.stop), (small.start, small.stop)) in mode 'partial';
   mode 'trim' has the same large slice *)
Definition axis_slices (n s : Z) (pos : Q) : (Z * Z) * (Z * Z) :=
  let imin := Qceiling (pos - (s # 2)) in
  let imax := imin + s in
  ((Z.max 0 imin, Z.min n imax), (Z.max 0 (- imin), Z.min (n - imin) s)).

(* ------------------------------------------------------------------ *)
(* centroid_sources  (core.py:439-517)                                  *)
(* ------------------------------------------------------------------ *)
Section Sources.
  (* E: pixel type of the error map; O: the remaining keyword arguments (passed on
     untouched); R: what the centroid function returns *)
  Variables E O R : Type.

  Record cargs := mk_cargs {
    a_data : img (option Z); a_mask : img bool; a_error : option (img E);
    a_xpeak : option Q; a_ypeak : option Q; a_other : O }.

  (* the centroid function: its call ([None] = it raised ValueError/TypeError) and
     which of the keywords its signature has (spec.parameters) *)
  Record cfun := mk_cfun {
    cf_call : cargs -> option R; cf_err : bool; cf_xp : bool; cf_yp : bool }.

  Variable shift : R -> Z -> Z -> R.      (* (xcen + x0, ycen + y0) *)
  Variable nan : R.                       (* (nan, nan) *)

  Record kwargs := mk_kwargs {
    k_error : option (img E); k_xpeak : option Q; k_ypeak : option Q; k_other : O }.

  Record env := mk_env {
    e_data : img (option Z); e_foot : img bool; e_mask : option (img bool) }.

  (* centroid_kwargs = {key: val for key in kwargs if key in spec.parameters} *)
  Definition filter_kwargs (f : cfun) (k : kwargs) : kwargs :=
    {| k_error := if cf_err f then k_error k else None;
       k_xpeak := if cf_xp f then k_xpeak k else None;
       k_ypeak := if cf_yp f then k_ypeak k else None;
       k_other := k_other k |}.

  (* body of one loop iteration up to the call: the arguments of the call, the cutout
     origin (x0, y0), and the keyword dictionary as it is left behind.
     None = "completely masked" ValueError (raised out of centroid_sources). *)
  Definition prepare (ev : env) (kw : kwargs) (pos : Q * Q)
    : option (cargs * (Z * Z) * kwargs) :=
    let '(xp, yp) := pos in
    let '(ny, nx) := shape (e_data ev) in
    let '(fy, fx) := shape (e_foot ev) in
    let '((y0, y1), (sy0, sy1)) := axis_slices ny fy yp in
    let '((x0, x1), (sx0, sx1)) := axis_slices nx fx xp in
    let dc := crop y0 y1 x0 x1 (e_data ev) in
    let fm := map (map negb) (crop sy0 sy1 sx0 sx1 (e_foot ev)) in
    let mc := match e_mask ev with
              | Some m => map2 (map2 orb) (crop y0 y1 x0 x1 m) fm
              | None => fm
              end in
    if forallb (forallb (fun b => b)) mc then None
    else
      let err := option_map (crop y0 y1 x0 x1) (k_error kw) in
      let '(xpk, ypk) := match k_xpeak kw, k_ypeak kw with
                         | Some a, Some b => (Some (a - inject_Z x0)%Q, Some (b - inject_Z y0)%Q)
                         | _, _ => (None, None)
                         end in
      Some (mk_cargs dc mc err xpk ypk (k_other kw), (x0, y0),
            mk_kwargs err xpk ypk (k_other kw)).

  Definition call (f : cfun) (a : cargs) (off : Z * Z) : R :=
    match cf_call f a with
    | Some r => shift r (fst off) (snd off)
    | None => nan                                   (* except (ValueError, TypeError) *)
    end.

  (* the for loop.  [carry = false]: repaired code, every iteration starts from a fresh
     copy of centroid_kwargs.  [carry = true]: the code before the repair, where the
     same dictionary is updated in place and therefore carried to the next source. *)
  Fixpoint loop (carry : bool) (f : cfun) (ev : env) (kw : kwargs) (ps : list (Q * Q))
    : option (list R) :=
    match ps with
    | [] => Some []
    | p :: rest =>
        match prepare ev kw p with
        | None => None
        | Some (a, off, kw') =>
            let r := call f a off in
            match loop carry f ev (if carry then kw' else kw) rest with
            | None => None
            | Some out => Some (r :: out)
            end
        end
    end.

  Definition pos_ok (ev : env) (p : Q * Q) : bool :=
    let '(ny, nx) := shape (e_data ev) in
    let '(xp, yp) := p in
    Qle_bool 0 xp && Qle_bool 0 yp
    && Qle_bool xp (inject_Z (nx - 1)) && Qle_bool yp (inject_Z (ny - 1)).

  (* None = ValueError raised by centroid_sources itself *)
  Definition sources_gen (carry : bool) (f : cfun) (ev : env) (kw : kwargs)
             (ps : list (Q * Q)) : option (list R) :=
    match ps with
    | [] => None                                    (* np.min of an empty array *)
    | _ => if forallb (pos_ok ev) ps then loop carry f ev (filter_kwargs f kw) ps
           else None
    end.

  Definition sources := sources_gen false.
  Definition sources_unrepaired := sources_gen true.

  (* the specification side: one source on its own *)
  Definition per_source (f : cfun) (ev : env) (kw : kwargs) (p : Q * Q) : option R :=
    match prepare ev (filter_kwargs f kw) p with
    | None => None
    | Some (a, off, _) => Some (call f a off)
    end.
End Sources.

Arguments mk_cargs {E O}. Arguments a_data {E O}. Arguments a_mask {E O}.
Arguments a_error {E O}. Arguments a_xpeak {E O}. Arguments a_ypeak {E O}.
Arguments a_other {E O}.
Arguments mk_cfun {E O R}. Arguments cf_call {E O R}. Arguments cf_err {E O R}.
Arguments cf_xp {E O R}. Arguments cf_yp {E O R}.
Arguments mk_kwargs {E O}. Arguments k_error {E O}. Arguments k_xpeak {E O}.
Arguments k_ypeak {E O}. Arguments k_other {E O}.
Arguments filter_kwargs {E O R}. Arguments prepare {E O}. Arguments call {E O R}.
Arguments loop {E O R}. Arguments sources_gen {E O R}. Arguments sources {E O R}.
Arguments sources_unrepaired {E O R}. Arguments per_source {E O R}.

(* ------------------------------------------------------------------ *)
(* centroid_quadratic  (core.py:214-335)                                *)
(* ------------------------------------------------------------------ *)
Fixpoint enum_from {A} (i : Z) (l : list A) : list (Z * A) :=
  match l with [] => [] | a :: r => (i, a) :: enum_from (i + 1) r end.

(* data[mask] = nan ; data[~isfinite] = nan *)
Definition work (data : img (option Z)) (mask : option (img bool)) : img (option Z) :=
  match mask with
  | None => data
  | Some m => map2 (map2 (fun d (b : bool) => if b then None else d)) data m
  end.
Definition pt := (Z * Z * Z)%type.                      (* (x, y, value) *)
(* the non-NaN pixels in raster order *)
Definition cells (w : img (option Z)) : list pt :=
  flat_map (fun yr : Z * list (option Z) =>
              flat_map (fun xc : Z * option Z =>
                          match snd xc with Some v => [(fst xc, fst yr, v)] | None => [] end)
                       (enum_from 0 (snd yr)))
           (enum_from 0 w).
Definition in_box (x0 x1 y0 y1 : Z) (c : pt) : bool :=
  let '(x, y, _) := c in (x0 <=? x) && (x <? x1) && (y0 <=? y) && (y <? y1).
(* np.nanargmax: first maximal element in raster order *)
Fixpoint argmax (best : option pt) (l : list pt) : option pt :=
  match l with
  | [] => best
  | (x, y, v) :: r =>
      argmax (match best with
              | None => Some (x, y, v)
              | Some (_, _, bv) => if bv <? v then Some (x, y, v) else best
              end) r
  end.
(* photutils.utils._round.py2intround *)
Definition py2intround (q : Q) : Z :=
  if Qle_bool 0 q then Qfloor (q + (1 # 2)) else Qceiling (q - (1 # 2)).
(* as_pair(..., lower_bound=(0, 1), upper_bound=data.shape, check_odd=True) on a pair *)
Definition as_pair_odd (v ub : Z * Z) : option (Z * Z) :=
  let '(a, b) := v in
  if negb (Z.odd a && Z.odd b) then None
  else if (a <=? 0) || (b <=? 0) then None
  else Some (Z.min a (fst ub), Z.min b (snd ub)).

(* lines 279-288: push a trimmed box back inside the image *)
Definition shift_box (n f lo hi : Z) : Z * Z :=
  if hi - lo <? f then
    let hi1 := if lo =? 0 then Z.min n (lo + f) else hi in
    let lo1 := if hi1 =? n then Z.max 0 (hi1 - f) else lo in
    (lo1, hi1)
  else (lo, hi).

Inductive qpre :=
| QRaise                                        (* ValueError *)
| QEdge (x y : Z)                               (* peak on the border: its position *)
| QFew                                          (* < 6 usable pixels: (nan, nan) *)
| QFit (x0 x1 y0 y1 : Z) (pts : list pt).       (* lstsq is called on these rows *)

Definition opt_out_of_range (q : option Q) (n : Z) : bool :=
  match q with
  | Some v => negb (Qle_bool 0 v) || negb (Qle_bool v (inject_Z (n - 1)))
  | None => false
  end.

Definition quad_pre (data : img (option Z)) (mask : option (img bool))
           (xpeak ypeak : option Q) (fit : Z * Z) (search : option (Z * Z)) : qpre :=
  let '(ny, nx) := shape data in
  if match xpeak, ypeak with Some _, None | None, Some _ => true | _, _ => false end
  then QRaise
  else if opt_out_of_range xpeak nx || opt_out_of_range ypeak ny then QRaise
  else if match mask with Some m => negb (same_shape data m) | None => false end then QRaise
  else
    match as_pair_odd fit (ny, nx) with
    | None => QRaise
    | Some (fy, fx) =>
        if fy * fx <? 6 then QRaise
        else
          let cs := cells (work data mask) in
          let peak :=
            match xpeak, ypeak with
            | Some xp, Some yp =>
                let xi := py2intround xp in
                let yi := py2intround yp in
                match search with
                | None => Some (xi, yi)
                | Some sb =>
                    match as_pair_odd sb (ny, nx) with
                    | None => None
                    | Some (sy, sx) =>
                        let '(y0, y1) := fst (axis_slices ny sy (inject_Z yi)) in
                        let '(x0, x1) := fst (axis_slices nx sx (inject_Z xi)) in
                        match argmax None (filter (in_box x0 x1 y0 y1) cs) with
                        | Some (x, y, _) => Some (x, y)
                        | None => None             (* All-NaN slice: ValueError *)
                        end
                    end
                end
            | _, _ =>
                match argmax None cs with
                | Some (x, y, _) => Some (x, y)
                | None => None
                end
            end in
          match peak with
          | None => QRaise
          | Some (xi, yi) =>
              if (xi =? 0) || (xi =? nx - 1) || (yi =? 0) || (yi =? ny - 1) then QEdge xi yi
              else
                let '(ya, yb) := fst (axis_slices ny fy (inject_Z yi)) in
                let '(xa, xb) := fst (axis_slices nx fx (inject_Z xi)) in
                let '(x0, x1) := shift_box nx fx xa xb in
                let '(y0, y1) := shift_box ny fy ya yb in
                let pts := filter (in_box x0 x1 y0 y1) cs in
                if (length pts <? 6)%nat then QFew else QFit x0 x1 y0 y1 pts
          end
    end.

(* lines 318-335 over exact rationals: c = (c10, c01, c11, c20, c02) *)
Definition coef := (Q * Q * Q * Q * Q)%type.
Definition qdet (c : coef) : Q :=
  let '(c10, c01, c11, c20, c02) := c in 4 * c20 * c02 - c11 * c11.
Definition qxnum (c : coef) : Q :=
  let '(c10, c01, c11, c20, c02) := c in c01 * c11 - 2 * c02 * c10.
Definition qynum (c : coef) : Q :=
  let '(c10, c01, c11, c20, c02) := c in c10 * c11 - 2 * c20 * c01.
Definition Qlt_bool (a b : Q) : bool := negb (Qle_bool b a).
Definition no_maximum (c : coef) : bool :=
  let '(c10, c01, c11, c20, c02) := c in
  Qle_bool (qdet c) 0
  || (Qlt_bool 0 c20 && Qle_bool 0 c02) || (Qle_bool 0 c20 && Qlt_bool 0 c02).

Definition quad_post (c : coef) (nx ny : Z) : option (Q * Q) :=     (* None = (nan, nan) *)
  if no_maximum c then None
  else
    let xm := (qxnum c / qdet c)%Q in
    let ym := (qynum c / qdet c)%Q in
    if Qlt_bool 0 xm && Qlt_bool xm (inject_Z (nx - 1))
       && Qlt_bool 0 ym && Qlt_bool ym (inject_Z (ny - 1))
    then Some (xm, ym) else None.

Inductive qres := QRRaise | QRNaN | QRVal (x y : Q).

Section Quadratic.
  (* numpy.linalg.lstsq on the rows (1, x, y, xy, xx, yy) -> value; not modelled *)
  Variable fit : list pt -> coef.
  Definition quadratic (data : img (option Z)) (mask : option (img bool))
             (xpeak ypeak : option Q) (fitbox : Z * Z) (search : option (Z * Z)) : qres :=
    match quad_pre data mask xpeak ypeak fitbox search with
    | QRaise => QRRaise
    | QEdge x y => QRVal (inject_Z x) (inject_Z y)
    | QFew => QRNaN
    | QFit _ _ _ _ pts =>
        match quad_post (fit pts) (snd (shape data)) (fst (shape data)) with
        | Some (x, y) => QRVal x y
        | None => QRNaN
        end
    end.
End Quadratic.

(* ---- correspondence of the float evaluation of lines 318-335 ---- *)
(* The implementation evaluates det, xm, ym in binary64 from the coefficients that
   lstsq returned (recorded, exact dyadics).  Rigorous bounds (u = 2^-53, at most 3
   roundings per expression):  |det^ - det| <= 2^-50 * D,  D = 4|c20 c02| + c11^2,
   |xm^ det - xnum| <= 2^-49 * (X + |xm^| D),  X = |c01 c11| + 2|c02 c10|.
   Decisions whose exact margin is inside the bound are accepted either way. *)
Definition eps50 : Q := 1 # 1125899906842624.           (* 2^-50 *)
Definition eps49 : Q := 1 # 562949953421312.            (* 2^-49 *)
Definition eps40 : Q := 1 # 1099511627776.              (* 2^-40 *)
Definition dmag (c : coef) : Q :=
  let '(c10, c01, c11, c20, c02) := c in 4 * Qabs (c20 * c02) + c11 * c11.
Definition xmag (c : coef) : Q :=
  let '(c10, c01, c11, c20, c02) := c in Qabs (c01 * c11) + 2 * Qabs (c02 * c10).
Definition ymag (c : coef) : Q :=
  let '(c10, c01, c11, c20, c02) := c in Qabs (c10 * c11) + 2 * Qabs (c20 * c01).
Definition det_marginal (c : coef) : bool := Qle_bool (Qabs (qdet c)) (eps50 * dmag c).
Definition near (v num mag : Q) (c : coef) : bool :=
  Qle_bool (Qabs (v * qdet c - num)) (eps49 * (mag + Qabs v * dmag c)).
Definition clearly_inside (v : Q) (n : Z) : bool :=
  Qlt_bool eps40 v && Qlt_bool v (inject_Z (n - 1) - eps40).

Definition post_ok (c : coef) (nx ny : Z) (out : fres) : bool :=
  if det_marginal c then true
  else if no_maximum c then match out with None => true | Some _ => false end
  else
    match out with
    | Some (xf, yf) =>
        let x := dy_Q xf in let y := dy_Q yf in
        near x (qxnum c) (xmag c) c && near y (qynum c) (ymag c) c
        && Qlt_bool 0 x && Qlt_bool x (inject_Z (nx - 1))
        && Qlt_bool 0 y && Qlt_bool y (inject_Z (ny - 1))
    | None =>
        negb (clearly_inside (qxnum c / qdet c) nx && clearly_inside (qynum c / qdet c) ny)
    end.

(* ------------------------------------------------------------------ *)
(* instances used by the correspondence                                 *)
(* ------------------------------------------------------------------ *)
(* sum_{r,c} (a r + b c + k) * v *)
Definition lin_sum (a b k : Z) (im : img Z) : Z :=
  zsum (map (fun yr : Z * list Z =>
               zsum (map (fun xc : Z * Z => (a * fst yr + b * fst xc + k) * snd xc)
                         (enum_from 0 (snd yr))))
            (enum_from 0 im)).

(* a transparent "centroid function" of every argument it receives; the harness passes
   the same function (harness/c17.py: probe) to the real centroid_sources *)
Definition probe (a : @cargs Z unit) : option fres :=
  if match a_error a with Some e => negb (same_shape (a_data a) e) | None => false end
  then None                                   (* raise ValueError *)
  else
    let d := map2 (map2 (fun (v : option Z) (m : bool) =>
                           if m then 5 else match v with Some z => z | None => 0 end))
                  (a_data a) (a_mask a) in
    let '(ny, nx) := shape (a_data a) in
    let x := lin_sum 7 3 1 d
             + match a_xpeak a with Some q => Qfloor (64 * q) | None => -1 end in
    let y := match a_error a with Some e => lin_sum 5 11 2 e | None => 2 end
             + match a_ypeak a with Some q => Qfloor (64 * q) | None => -3 end
             + 1000 * ny + 100 * nx in
    Some (Some ((x, 0), (y, 0))).

Definition fshift (r : fres) (x0 y0 : Z) : fres :=
  match r with Some (x, y) => Some (dy_addz x x0, dy_addz y y0) | None => None end.

Definition cf_probe : @cfun Z unit fres := mk_cfun probe true true true.
(* same body, but a signature without an `error` keyword *)
Definition cf_probe_noerr : @cfun Z unit fres := mk_cfun probe false true true.
(* the real centroid_com: only (data, mask) *)
Definition cf_com : @cfun Z unit fres :=
  mk_cfun (fun a => com_float (a_data a) (Some (a_mask a))) false false false.
Definition cf_of (sel : Z) : @cfun Z unit fres :=
  if sel =? 0 then cf_com else if sel =? 1 then cf_probe else cf_probe_noerr.

(* ------------------------------------------------------------------ *)
(* correspondence cases                                                 *)
(* ------------------------------------------------------------------ *)
Definition qpair := (Z * Z)%type.                        (* rational n/d, d > 0 *)
Definition toQ (p : qpair) : Q := fst p # Z.to_pos (snd p).

(* centroid_com(data, mask) : expected None = ValueError, Some None = (nan, nan) *)
Definition com_case := (img (option Z) * option (img bool) * option fres)%type.
Definition check_com (c : com_case) : bool :=
  let '(data, mask, expected) := c in
  opt_eqb fres_eqb (com_float data mask) expected.

(* centroid_sources(data, xpos, ypos, footprint=, mask=, centroid_func=sel, error=,
   xpeak=, ypeak=) : expected None = ValueError *)
Definition src_case := (Z * img (option Z) * img bool * option (img bool)
                        * option (img Z) * option qpair * option qpair
                        * list (qpair * qpair) * option (list fres))%type.
Definition src_model (carry : bool) (c : src_case) : option (list fres) :=
  let '(sel, data, foot, mask, err, xpk, ypk, ps, _) := c in
  sources_gen fshift None carry (cf_of sel) (mk_env data foot mask)
              (mk_kwargs err (option_map toQ xpk) (option_map toQ ypk) tt)
              (map (fun p => (toQ (fst p), toQ (snd p))) ps).
Definition check_src (c : src_case) : bool :=
  let '(_, _, _, _, _, _, _, _, expected) := c in
  opt_eqb (list_eqb fres_eqb) (src_model false c) expected.

(* centroid_quadratic(data, xpeak, ypeak, fit_boxsize, search_boxsize, mask) with the
   observed call of numpy.linalg.lstsq: rows (x, y, value) and the returned
   (c10, c01, c11, c20, c02) as exact dyadics *)
Inductive qobs := ORaise | OOut (r : fres).
Definition quad_case := (img (option Z) * option (img bool) * option qpair * option qpair
                         * (Z * Z) * option (Z * Z)
                         * option (list pt * (dy * dy * dy * dy * dy)) * qobs)%type.
Definition int_dy (z : Z) : dy := (z, 0).
Definition check_quad (c : quad_case) : bool :=
  let '(data, mask, xpk, ypk, fitbox, search, lsq, obs) := c in
  match quad_pre data mask (option_map toQ xpk) (option_map toQ ypk) fitbox search,
        lsq, obs with
  | QRaise, None, ORaise => true
  | QEdge x y, None, OOut r => fres_eqb r (Some (int_dy x, int_dy y))
  | QFew, None, OOut None => true
  | QFit _ _ _ _ pts, Some (rows, (c10, c01, c11, c20, c02)), OOut r =>
      list_eqb (fun a b : pt =>
                  let '(x, y, v) := a in let '(x', y', v') := b in
                  (x =? x') && (y =? y') && (v =? v')) pts rows
      && post_ok (dy_Q c10, dy_Q c01, dy_Q c11, dy_Q c20, dy_Q c02)
                 (snd (shape data)) (fst (shape data)) r
  | _, _, _ => false
  end.

Inductive case := CCom (c : com_case) | CSrc (c : src_case) | CQuad (c : quad_case).
Definition check_case (c : case) : bool :=
  match c with
  | CCom c => check_com c
  | CSrc c => check_src c
  | CQuad c => check_quad c
  end.

Inductive mout :=
| MCom (r : com_res) (f : option fres)
| MSrc (r : option (list fres))
| MQuad (r : qpre) (marginal : bool).
Definition model_out (c : case) : mout :=
  match c with
  | CCom (data, mask, _) => MCom (com data mask) (com_float data mask)
  | CSrc c => MSrc (src_model false c)
  | CQuad (data, mask, xpk, ypk, fitbox, search, lsq, _) =>
      MQuad (quad_pre data mask (option_map toQ xpk) (option_map toQ ypk) fitbox search)
            (match lsq with
             | Some (_, (c10, c01, c11, c20, c02)) =>
                 det_marginal (dy_Q c10, dy_Q c01, dy_Q c11, dy_Q c20, dy_Q c02)
             | None => false
             end)
  end.
