(* C01R_Model.v -- real-number transcription of the "exact" circle kernels.

   Source (read as text; Cython is not installed, nothing is executed):
     /repo/photutils/geometry/core.pyx             floor_sqrt, distance, area_arc, area_triangle
     /repo/photutils/geometry/circular_overlap.pyx circular_overlap_core, circular_overlap_single_exact

   Transcribed from /repo at commit 6f1f5715dfd3303780fb7367202b491274460a6b; sha256 of the files read:
     circular_overlap.pyx 332f301668e9220aa6d40a93cdd340595c0f7d9505638666dedca1003470375a
     core.pyx             bc65bcb1d92385503d1a123588c14718e28714b13a9ec7dc7637a748ec56bfbc
   (a different hash means this transcription has to be re-read against the source).

   Every C `double` becomes a Coq real `R`; `sqrt`, `asin`, `sin` are the functions of the
   Coq standard library (Reals).  Each source statement is transcribed in order; each source
   comparison `a < b`, `a > b`, `a <= b`, `a >= b` becomes the matching decidable comparison
   `Rlt_dec`, `Rgt_dec`, `Rle_dec`, `Rge_dec` (same operands, same order).  The literal `0.5`
   is kept as the decimal `0.5` (`2.0` is written `2`).  The self-recursion of `circular_overlap_single_exact`
   is made structural by explicit fuel; the result is `None` when the fuel runs out
   (C01R_Proofs.single_exact_total shows this never happens with fuel 3).

   What this model does NOT cover: IEEE-754 rounding (the statement proved here is about the
   mathematical formula, over the reals), the grid driver `circular_overlap_grid` (its fast
   paths are covered by C01_Proofs over Q), and the ellipse/rectangle kernels.

   No proofs in this file.  The specification `rect_disc_area` (what "true area" means) is
   also stated here so that the reader sees model and specification side by side. *)

From Coq Require Import Reals.
Set Warnings "-ambiguous-paths".
From Coquelicot Require Import Coquelicot.
Set Warnings "ambiguous-paths".
Open Scope R_scope.

(* ------------------------------------------------------------------ core.pyx *)

(* cdef double floor_sqrt(double x):
       if x > 0: return sqrt(x)
       else:     return 0                                                         *)
Definition floor_sqrt (x : R) : R :=
  if Rgt_dec x 0 then sqrt x else 0.

(* cdef double distance(x1, y1, x2, y2):
       return sqrt((x2 - x1) ** 2 + (y2 - y1) ** 2)                               *)
Definition distance (x1 y1 x2 y2 : R) : R :=
  sqrt ((x2 - x1) ^ 2 + (y2 - y1) ^ 2).

(* cdef double area_arc(x1, y1, x2, y2, r):
       a = distance(x1, y1, x2, y2)
       theta = 2.0 * asin(0.5 * a / r)
       return 0.5 * r * r * (theta - sin(theta))                                  *)
Definition area_arc (x1 y1 x2 y2 r : R) : R :=
  let a := distance x1 y1 x2 y2 in
  let theta := 2 * asin (0.5 * a / r) in
  0.5 * r * r * (theta - sin theta).

(* cdef double area_triangle(x1, y1, x2, y2, x3, y3):
       return 0.5 * abs(x1 * (y2 - y3) + x2 * (y3 - y1) + x3 * (y1 - y2))         *)
Definition area_triangle (x1 y1 x2 y2 x3 y3 : R) : R :=
  0.5 * Rabs (x1 * (y2 - y3) + x2 * (y3 - y1) + x3 * (y1 - y2)).

(* ------------------------------------------------------ circular_overlap.pyx *)

(* cdef double circular_overlap_core(xmin, ymin, xmax, ymax, r)  -- statement by statement *)
Definition circular_overlap_core (xmin ymin xmax ymax r : R) : R :=
  if Rgt_dec (xmin * xmin + ymin * ymin) (r * r) then
    0
  else if Rlt_dec (xmax * xmax + ymax * ymax) (r * r) then
    (xmax - xmin) * (ymax - ymin)
  else
    let d1 := floor_sqrt (xmax * xmax + ymin * ymin) in
    let d2 := floor_sqrt (xmin * xmin + ymax * ymax) in
    if Rlt_dec d1 r then
      if Rlt_dec d2 r then
        (* if d1 < r and d2 < r *)
        let x1 := floor_sqrt (r * r - ymax * ymax) in let y1 := ymax in
        let x2 := xmax in let y2 := floor_sqrt (r * r - xmax * xmax) in
        (xmax - xmin) * (ymax - ymin)
          - area_triangle x1 y1 x2 y2 xmax ymax
          + area_arc x1 y1 x2 y2 r
      else
        (* elif d1 < r *)
        let x1 := xmin in let y1 := floor_sqrt (r * r - xmin * xmin) in
        let x2 := xmax in let y2 := floor_sqrt (r * r - xmax * xmax) in
        area_arc x1 y1 x2 y2 r
          + area_triangle x1 y1 x1 ymin xmax ymin
          + area_triangle x1 y1 x2 ymin x2 y2
    else if Rlt_dec d2 r then
      (* elif d2 < r *)
      let x1 := floor_sqrt (r * r - ymin * ymin) in let y1 := ymin in
      let x2 := floor_sqrt (r * r - ymax * ymax) in let y2 := ymax in
      area_arc x1 y1 x2 y2 r
        + area_triangle x1 y1 xmin y1 xmin ymax
        + area_triangle x1 y1 xmin y2 x2 y2
    else
      let x1 := floor_sqrt (r * r - ymin * ymin) in let y1 := ymin in
      let x2 := xmin in let y2 := floor_sqrt (r * r - xmin * xmin) in
      area_arc x1 y1 x2 y2 r
        + area_triangle x1 y1 x2 y2 xmin ymin.

(* option-valued sum used for the fuel-indexed recursion *)
Definition oplus (a b : option R) : option R :=
  match a, b with
  | Some u, Some v => Some (u + v)
  | _, _ => None
  end.

(* cdef double circular_overlap_single_exact(xmin, ymin, xmax, ymax, r)
   -- same branch order as the source; `S k` = one more permitted level of self-call. *)
Fixpoint circular_overlap_single_exact (fuel : nat) (xmin ymin xmax ymax r : R)
  : option R :=
  match fuel with
  | O => None
  | S k =>
    let go := circular_overlap_single_exact k in
    if Rle_dec 0 xmin then
      if Rle_dec 0 ymin then
        Some (circular_overlap_core xmin ymin xmax ymax r)
      else if Rge_dec 0 ymax then
        Some (circular_overlap_core (- ymax) xmin (- ymin) xmax r)
      else
        oplus (go xmin ymin xmax 0 r) (go xmin 0 xmax ymax r)
    else if Rge_dec 0 xmax then
      if Rle_dec 0 ymin then
        Some (circular_overlap_core (- xmax) ymin (- xmin) ymax r)
      else if Rge_dec 0 ymax then
        Some (circular_overlap_core (- xmax) (- ymax) (- xmin) (- ymin) r)
      else
        oplus (go xmin ymin xmax 0 r) (go xmin 0 xmax ymax r)
    else
      if Rle_dec 0 ymin then
        oplus (go xmin ymin 0 ymax r) (go 0 ymin xmax ymax r)
      else if Rge_dec 0 ymax then
        oplus (go xmin ymin 0 ymax r) (go 0 ymin xmax ymax r)
      else
        oplus (oplus (oplus (go xmin ymin 0 0 r) (go 0 ymin xmax 0 r))
                     (go xmin 0 0 ymax r))
              (go 0 0 xmax ymax r)
  end.

(* The source's recursion is at most three calls deep (top call, a half-plane split,
   a quadrant piece); this is the fuel used in the theorems. *)
Definition single_exact_fuel : nat := 3.

(* --------------------------------------------------------------- specification *)

(* Half-height of the disc x^2 + y^2 <= r^2 at abscissa x (0 outside [-r, r]). *)
Definition half_chord (r x : R) : R := sqrt (Rmax 0 (r ^ 2 - x ^ 2)).

(* Length of the vertical section at abscissa x of
      { (x, y) | ymin <= y <= ymax }  /\  { (x, y) | x^2 + y^2 <= r^2 } .
   The section is the interval [max ymin (-h), min ymax h] (h = half_chord r x) when that
   interval is non-empty and is empty otherwise (C01R_Proofs.section_is_interval), so its
   length is max 0 (upper - lower). *)
Definition section_len (ymin ymax r x : R) : R :=
  Rmax 0 (Rmin ymax (half_chord r x) - Rmax ymin (- half_chord r x)).

(* AREA of (rectangle [xmin,xmax] x [ymin,ymax]) /\ (closed disc of radius r about the
   origin), defined as the integral over x of the length of the vertical section
   (Cavalieri's principle: the "area between two curves" definition of elementary calculus;
   no product measure / Fubini theorem is involved, the section of this set at every x is
   an interval whose end points are continuous in x). *)
Definition rect_disc_area (xmin ymin xmax ymax r : R) : R :=
  RInt (section_len ymin ymax r) xmin xmax.

(* First-quadrant form suggested in the task statement (equal to rect_disc_area when
   0 <= ymin: C01R_Proofs.area_spec_is_rect_disc_area). *)
Definition area_spec (xmin ymin xmax ymax r : R) : R :=
  RInt (fun x => Rmax 0 (Rmin ymax (sqrt (Rmax 0 (r ^ 2 - x ^ 2))) - ymin)) xmin xmax.

(* The antiderivative of sqrt (r^2 - x^2) used in the closed forms. *)
Definition circ_prim (r x : R) : R :=
  (x * sqrt (r ^ 2 - x ^ 2) + r ^ 2 * asin (x / r)) / 2.
