(* C18 — rendered model images are the exact superposition of their sources.
   Property theorems only; each is closed by [exact] of a lemma of C18_Proofs.

   Reading guide.  [render ev bbox_shape ev_unit c t] is the model of
   make_model_image(shape, model, params_table, ...) after the repairs C18-1 / C18-2
   (C18_Model.v): [c] holds the image shape, the input model's parameters and the keyword
   arguments, [t] the table; the result is [Err] (ValueError) or [Img unit image].
   Section variables (ANY function): [ev st y x] = value of the discretised model with
   parameters [st] at pixel (y, x); [bbox_shape] = _model_shape_from_bbox; [ev_unit] =
   output unit of the model.  Values are exact integers (scaled), so "equal" means equal
   in exact arithmetic; floating-point rounding of the sums is outside these theorems
   (bound comparison in harness/c18.py).
   Vocabulary (C18_Model.v, section Spec): [rstate c t r] = the input model's parameters
   with the mapped ones replaced by row r's entries; [row_y8/row_x8] = 8 * position;
   [shape_of] = the row's model_shape (column / argument / bounding box); [bkg_of] =
   local_bkg; [in_box pos8 sh k] = pos - sh/2 <= k < pos + sh/2;
   [in_window r y x] = pixel (y, x) of the image lies in the row's model_shape box;
   [term y x r] = (model value + local_bkg) if in_window else 0. *)
From Coq Require Import List ZArith Bool String Lia Permutation.
From PV Require Import lib.Cases C18_Model C18_Proofs.
Import ListNotations.
Open Scope Z_scope.

(* ---------------- the window: overlap_slices(mode='trim') ---------------- *)

(* int(ceil(pos - sh/2)) <= k < int(ceil(pos - sh/2)) + sh  iff the centre of pixel k lies
   in the half-open box of sh pixels centred on pos *)
Theorem window_axis_is_centred_box : forall pos8 sh k,
  e_min pos8 sh <= k < e_min pos8 sh + sh <-> in_box pos8 sh k.
Proof. exact e_min_box. Qed.
Print Assumptions window_axis_is_centred_box.

(* a returned slice pair covers exactly the pixels common to the box and the image *)
Theorem window_is_box_clipped_to_image : forall ny nx sh y8 x8 w,
  overlap_slices ny nx sh y8 x8 = Some w ->
  forall y x, in_w w y x = true <->
    (0 <= y < ny /\ 0 <= x < nx /\ in_box y8 (fst sh) y /\ in_box x8 (snd sh) x).
Proof. exact overlap_some. Qed.
Print Assumptions window_is_box_clipped_to_image.

(* NoOverlapError is raised only when box and image have no pixel in common ... *)
Theorem no_overlap_means_no_common_pixel : forall ny nx sh y8 x8,
  overlap_slices ny nx sh y8 x8 = None ->
  forall y x, ~ (0 <= y < ny /\ 0 <= x < nx /\ in_box y8 (fst sh) y /\ in_box x8 (snd sh) x).
Proof. exact overlap_none. Qed.
Print Assumptions no_overlap_means_no_common_pixel.

(* ... and, for non-negative shapes, a returned window always contains a pixel *)
Theorem window_nonempty : forall ny nx sh y8 x8 w,
  0 <= ny -> 0 <= nx -> 0 <= fst sh -> 0 <= snd sh ->
  overlap_slices ny nx sh y8 x8 = Some w ->
  exists y x, 0 <= y < ny /\ 0 <= x < nx /\ in_box y8 (fst sh) y /\ in_box x8 (snd sh) x.
Proof. exact overlap_some_nonempty. Qed.
Print Assumptions window_nonempty.

(* ---------------- the loop ---------------- *)

(* The loop that re-uses ONE mutable model copy is a fold of independent per-row
   contributions: the parameters used for a row are [rstate] of that row, whatever rows were
   rendered before (no parameter leaks from row to row), shape / local_bkg looked up by the
   running index are those of the row itself. *)
Theorem loop_is_fold_of_independent_rows : forall ev bbox_shape ev_unit c t,
  render ev bbox_shape ev_unit c t =
  if accepted c t
  then Img (unit_of ev_unit c t (rows t)) (fold_left (paint ev bbox_shape c t) (rows t) (zeros (ny c) (nx c)))
  else Err.
Proof. exact render_eq. Qed.
Print Assumptions loop_is_fold_of_independent_rows.

(* the call is rejected exactly when a mapped name is not a model parameter / table column,
   or no window shape is available *)
Theorem render_rejects_iff : forall ev bbox_shape ev_unit c t,
  render ev bbox_shape ev_unit c t = Err <-> accepted c t = false.
Proof. exact render_err_iff. Qed.
Print Assumptions render_rejects_iff.
Theorem accepted_iff : forall c t, accepted c t = true <->
  (forall k col, In (k, col) (build_map c t) -> In k (pnames c) /\ In col (colnames t)) /\
  (has_shape_col t = true \/ has_bbox c = true \/ mshape c <> None).
Proof. exact accepted_spec. Qed.
Print Assumptions accepted_iff.

Theorem image_has_requested_shape : forall ev bbox_shape ev_unit c t u img,
  render ev bbox_shape ev_unit c t = Img u img -> rect (ny c) (nx c) img.
Proof. exact render_rect. Qed.
Print Assumptions image_has_requested_shape.

(* ---------------- the property clauses ---------------- *)

(* every pixel = sum over the rows whose clipped window contains it of model value + local_bkg *)
Theorem image_is_superposition : forall ev bbox_shape ev_unit c t u img,
  render ev bbox_shape ev_unit c t = Img u img ->
  forall y x, 0 <= y < ny c -> 0 <= x < nx c ->
    pixel img y x = zsum (map (term ev bbox_shape c t y x) (rows t)).
Proof. exact superposition. Qed.
Print Assumptions image_is_superposition.

Theorem in_windowb_reflects : forall bbox_shape c t r y x,
  in_windowb bbox_shape c t r y x = true <-> in_window bbox_shape c t r y x.
Proof. exact in_windowb_spec. Qed.
Print Assumptions in_windowb_reflects.

(* any permutation of the rows gives the same image (and, when all rows have the same
   output unit — units are per column —, the same unit) *)
Theorem row_order_invariant : forall ev bbox_shape ev_unit c t t' u img,
  colnames t' = colnames t -> has_shape_col t' = has_shape_col t -> has_bkg_col t' = has_bkg_col t ->
  Permutation (rows t) (rows t') ->
  render ev bbox_shape ev_unit c t = Img u img ->
  exists u', render ev bbox_shape ev_unit c t' = Img u' img /\ (units_uniform ev_unit c t -> u' = u).
Proof. exact row_order. Qed.
Print Assumptions row_order_invariant.

(* image(a ++ b) = image(a) + image(b) *)
Theorem additive_over_concat : forall ev bbox_shape ev_unit c t a b u img,
  render ev bbox_shape ev_unit c (with_rows t (a ++ b)) = Img u img ->
  exists ua ia ub ib,
    render ev bbox_shape ev_unit c (with_rows t a) = Img ua ia /\
    render ev bbox_shape ev_unit c (with_rows t b) = Img ub ib /\ img = img_add ia ib.
Proof. exact concat. Qed.
Print Assumptions additive_over_concat.

(* dropping all rows that raise NoOverlapError changes nothing (unit: as long as a row is left) *)
Theorem non_overlapping_rows_skipped : forall ev bbox_shape ev_unit c t u img,
  render ev bbox_shape ev_unit c t = Img u img ->
  exists u', render ev bbox_shape ev_unit c (with_rows t (filter (overlaps bbox_shape c t) (rows t))) = Img u' img /\
             (units_uniform ev_unit c t -> filter (overlaps bbox_shape c t) (rows t) <> [] -> u' = u).
Proof. exact skipped. Qed.
Print Assumptions non_overlapping_rows_skipped.

(* a non-overlapping row inserted anywhere leaves the image unchanged *)
Theorem non_overlapping_row_anywhere : forall ev bbox_shape ev_unit c t a r b u img,
  overlaps bbox_shape c t r = false ->
  render ev bbox_shape ev_unit c (with_rows t (a ++ r :: b)) = Img u img ->
  exists u', render ev bbox_shape ev_unit c (with_rows t (a ++ b)) = Img u' img.
Proof. exact skipped_insert. Qed.
Print Assumptions non_overlapping_row_anywhere.

(* "overlaps" is the geometric notion: some image pixel lies in the model_shape box *)
Theorem overlaps_iff_common_pixel : forall bbox_shape c t r,
  0 <= ny c -> 0 <= nx c -> 0 <= fst (shape_of bbox_shape c t r) -> 0 <= snd (shape_of bbox_shape c t r) ->
  (overlaps bbox_shape c t r = true <-> exists y x, in_window bbox_shape c t r y x).
Proof. exact overlaps_iff. Qed.
Print Assumptions overlaps_iff_common_pixel.

(* the unit of the image is the model's output unit, whichever rows overlap (repaired code) *)
Theorem units_independent_of_overlap : forall ev bbox_shape ev_unit c t u img,
  render ev bbox_shape ev_unit c t = Img u img -> units_uniform ev_unit c t ->
  forall r, In r (rows t) -> u = ev_unit (rstate c t r).
Proof. exact units. Qed.
Print Assumptions units_independent_of_overlap.
Theorem units_from_first_row : forall ev bbox_shape ev_unit c t u img r l,
  render ev bbox_shape ev_unit c t = Img u img -> rows t = r :: l -> u = ev_unit (rstate c t r).
Proof. exact units_first. Qed.
Print Assumptions units_from_first_row.

(* residual = data - model image, pixel by pixel, = data - superposition *)
Theorem residual_is_data_minus_model : forall ev bbox_shape ev_unit c t data res,
  rect (ny c) (nx c) data ->
  residual ev bbox_shape ev_unit c t data = Some res ->
  rect (ny c) (nx c) res /\
  exists u img, render ev bbox_shape ev_unit c t = Img u img /\
    forall y x, 0 <= y < ny c -> 0 <= x < nx c ->
      pixel res y x = pixel data y x - pixel img y x /\
      pixel res y x = pixel data y x - zsum (map (term ev bbox_shape c t y x) (rows t)).
Proof. exact residual_spec. Qed.
Print Assumptions residual_is_data_minus_model.

(* integer translation covariance (cited by C03): if every row of t' is the (dy, dx)-shifted
   version of the corresponding row of t (positions move by (dy, dx), window shape and
   local_bkg equal, the model value moves with the source), then wherever both the pixel and
   its image under the shift lie in their frames (frames may differ) the rendered values agree *)
Theorem render_shift : forall ev bbox_shape ev_unit c t c' t' (f : row -> row) dy dx,
  rows t' = map f (rows t) ->
  (forall r, In r (rows t) ->
     row_y8 c' t' (f r) = row_y8 c t r + 8 * dy /\ row_x8 c' t' (f r) = row_x8 c t r + 8 * dx /\
     shape_of bbox_shape c' t' (f r) = shape_of bbox_shape c t r /\ bkg_of t' (f r) = bkg_of t r /\
     forall y x, ev (rstate c' t' (f r)) (y + dy) (x + dx) = ev (rstate c t r) y x) ->
  forall u img u' img',
  render ev bbox_shape ev_unit c t = Img u img -> render ev bbox_shape ev_unit c' t' = Img u' img' ->
  forall y x, 0 <= y < ny c -> 0 <= x < nx c -> 0 <= y + dy < ny c' -> 0 <= x + dx < nx c' ->
    pixel img' (y + dy) (x + dx) = pixel img y x.
Proof. exact shift. Qed.
Print Assumptions render_shift.

(* ---------------- the UNREPAIRED code violates two clauses (witnesses) ---------------- *)

(* whenever the unrepaired loop returns an image, it is the image of the repaired loop (so the
   two defects are confined to raising and to the unit tag) *)
Theorem unrepaired_returns_same_image : forall ev bbox_shape ev_unit c t u img,
  render_orig ev bbox_shape ev_unit c t = Img u img ->
  exists u', render ev bbox_shape ev_unit c t = Img u' img.
Proof. exact render_orig_agrees. Qed.
Print Assumptions unrepaired_returns_same_image.

(* /repo HEAD, unit-ful model (ev_unit = Some 1): the same two rows render in one order and
   raise UnitTypeError in the other (first row off the image); with every row off the image
   the result carries no unit although the model has one *)
Theorem units_independent_of_overlap_unrepaired_refuted :
  exists c t t' img,
    Permutation (rows t) (rows t') /\
    render_orig (poly_ev 0) poly_bbox (fun _ => Some 1) c t = Img (Some 1) img /\
    render_orig (poly_ev 0) poly_bbox (fun _ => Some 1) c t' = Err /\
    (exists img0, render_orig (poly_ev 0) poly_bbox (fun _ => Some 1) c (with_rows t (tl (rows t'))) = Img (Some 1) img0
                  /\ render (poly_ev 0) poly_bbox (fun _ => Some 1) c t' = Img (Some 1) img0) /\
    exists t0 img1, rows t0 <> [] /\ render_orig (poly_ev 0) poly_bbox (fun _ => Some 1) c t0 = Img None img1.
Proof.
  exists (Witness.cfg 3 3 (Some (1, 1))), (Witness.tbl [[8; 8; 16]; [-80; 8; 16]]),
         (Witness.tbl [[-80; 8; 16]; [8; 8; 16]]).
  eexists. split; [apply perm_swap|]. split; [vm_compute; reflexivity|]. split; [vm_compute; reflexivity|].
  split; [eexists; split; vm_compute; reflexivity|].
  exists (Witness.tbl [[-80; 8; 16]]). eexists. split; [discriminate|vm_compute; reflexivity].
Qed.
Print Assumptions units_independent_of_overlap_unrepaired_refuted.

(* /repo HEAD: a row whose 1x1 window ends exactly at the left image edge (x = -1) does not
   overlap, yet the call raises (ValueError from astropy's overlap_slices on an ndarray
   shape) instead of skipping the row; the repaired code skips it *)
Theorem non_overlapping_rows_skipped_unrepaired_refuted :
  exists c t r img,
    rows t = [r] /\ overlaps poly_bbox c t r = false /\
    render_orig (poly_ev 0) poly_bbox (fun _ => None) c t = Err /\
    render_orig (poly_ev 0) poly_bbox (fun _ => None) c (with_rows t []) = Img None img /\
    render (poly_ev 0) poly_bbox (fun _ => None) c t = Img None img.
Proof.
  exists (Witness.cfg 3 3 (Some (1, 1))), (Witness.tbl [[-8; 8; 16]]).
  eexists. eexists. split; [reflexivity|]. repeat split; vm_compute; reflexivity.
Qed.
Print Assumptions non_overlapping_rows_skipped_unrepaired_refuted.

(* ---------------- non-vacuity ---------------- *)

(* a concrete accepted call: two sources on a 5x6 image with 3x3 windows, oversample(2),
   local_bkg 1 each; the first window is clipped by the lower-left corner (65536 = 1.0) *)
Example render_example :
  render (poly_ev 2) poly_bbox (fun _ => None) Witness.c1 Witness.t1 =
  Img None [[151552; 282624; 0; 0; 0; 0];
            [20480; 151552; -75776; -75776; -141312; 0];
            [0; 0; -10240; -10240; -75776; 0];
            [0; 0; 55296; 55296; -10240; 0];
            [0; 0; 0; 0; 0; 0]].
Proof. vm_compute. reflexivity. Qed.

(* the premises of render_shift hold for the polynomial model and a (1, 2)-pixel shift into a
   7x9 frame, and its conclusion is not vacuous *)
Example render_shift_premises :
  forall r, In r (rows Witness.t1) ->
     row_y8 (with_shape Witness.c1 7 9) Witness.t1s (Witness.shift_row 1 2 r) = row_y8 Witness.c1 Witness.t1 r + 8 * 1 /\
     row_x8 (with_shape Witness.c1 7 9) Witness.t1s (Witness.shift_row 1 2 r) = row_x8 Witness.c1 Witness.t1 r + 8 * 2 /\
     shape_of poly_bbox (with_shape Witness.c1 7 9) Witness.t1s (Witness.shift_row 1 2 r)
       = shape_of poly_bbox Witness.c1 Witness.t1 r /\
     bkg_of Witness.t1s (Witness.shift_row 1 2 r) = bkg_of Witness.t1 r /\
     forall y x, poly_ev 2 (rstate (with_shape Witness.c1 7 9) Witness.t1s (Witness.shift_row 1 2 r)) (y + 1) (x + 2)
                 = poly_ev 2 (rstate Witness.c1 Witness.t1 r) y x.
Proof. exact witness_shift_hyps. Qed.
Example render_shift_example :
  exists u img u' img',
    render (poly_ev 2) poly_bbox (fun _ => None) Witness.c1 Witness.t1 = Img u img /\
    render (poly_ev 2) poly_bbox (fun _ => None) (with_shape Witness.c1 7 9) Witness.t1s = Img u' img' /\
    pixel img 1 3 = -75776 /\ pixel img' 2 5 = -75776 /\
    (* the clipped part of the first window re-appears in the larger frame *)
    pixel img' 0 1 <> 0.
Proof. do 4 eexists. repeat split; try (vm_compute; reflexivity). vm_compute. discriminate. Qed.

(* units_uniform is satisfiable (constant unit) and row order / skipping have non-trivial instances *)
Example units_uniform_example : units_uniform (fun _ => Some 1) Witness.c1 Witness.t1.
Proof. intros r r' _ _. reflexivity. Qed.
Example skipped_example :
  filter (overlaps poly_bbox Witness.c1 (Witness.tbl [[4; 0; 16]; [-80; 8; 16]; [28; 20; -8]]))
         (rows (Witness.tbl [[4; 0; 16]; [-80; 8; 16]; [28; 20; -8]])) = rows Witness.t1.
Proof. vm_compute. reflexivity. Qed.
(* rejected calls exist *)
Example rejected_example :
  render (poly_ev 0) poly_bbox (fun _ => None)
    {| ny := 3; nx := 3; pinit := pinit Witness.c1; has_bbox := true; x_name := "x_0"; y_name := "y_0";
       pmap := Some [("flux", "nocol")]%string; mshape := None; bfactor := None |} Witness.t1 = Err.
Proof. vm_compute. reflexivity. Qed.
