From Coq Require Import List ZArith Bool String Lia.
From PV Require Import lib.Cases C18_Model C18_Proofs.
